//! C18: voxelization + VHACD.  `acd3`: real voxelization + real VHACD loop, the voxel set and the oracle
//! decisions (hook `verif_tap`) are emitted before `;;` as extra model inputs, the voxel parts after it.
use crate::util::*;
use crate::p3::transformation::vhacd::{VHACDParameters, VHACD, verif_tap};
use crate::p3::transformation::voxelization::{FillMode, VoxelSet};
use crate::p3::shape::{Ball, Cuboid, Cylinder};

type P3 = d3::Point<f64>;

fn mesh(a: &mut Args) -> (Vec<P3>, Vec<[u32; 3]>) {
    let nv = a.u();
    let pts: Vec<P3> = (0..nv).map(|_| d3::p(a)).collect();
    let nt = a.u();
    let idx: Vec<[u32; 3]> = (0..nt).map(|_| [a.u() as u32, a.u() as u32, a.u() as u32]).collect();
    (pts, idx)
}
fn hmesh(m: &(Vec<P3>, Vec<[u32; 3]>)) -> String {
    let mut s = format!("{}", m.0.len());
    for p in &m.0 { s.push(' '); s.push_str(&d3::hp(p)); }
    s.push_str(&format!(" {}", m.1.len()));
    for t in &m.1 { s.push_str(&format!(" {} {} {}", t[0], t[1], t[2])); }
    s
}
fn fill(code: usize) -> FillMode {
    match code { 0 => FillMode::SurfaceOnly, 1 => FillMode::FloodFill { detect_cavities: false }, _ => FillMode::FloodFill { detect_cavities: true } }
}
fn fvox(v: &VoxelSet) -> String {
    let mut s = format!("{} {} {}", d3::fp(&v.origin), ff(v.scale), v.voxels().len());
    for x in v.voxels() { s.push_str(&format!(" {} {} {} {}", x.coords.x, x.coords.y, x.coords.z, b(x.is_on_surface))); }
    s
}
fn fparts(ps: &[VoxelSet]) -> String {
    let mut s = format!("{}", ps.len());
    for p in ps {
        s.push_str(&format!(" {}", p.voxels().len()));
        for x in p.voxels() { s.push_str(&format!(" {} {} {} {}", x.coords.x, x.coords.y, x.coords.z, b(x.is_on_surface))); }
    }
    s
}

pub fn exec(func: &str, a: &mut Args) -> String {
    match func {
        // acd3 <maxhulls> <res> <fill> <concavity> <plane_ds> <hull_ds> <mesh>
        "acd3" | "hulls3" => {
            let maxh = a.u() as u32; let res = a.u() as u32; let fm = a.u(); let conc = a.f();
            let pds = a.u() as u32; let hds = a.u() as u32;
            let (pts, idx) = mesh(a);
            let vox = VoxelSet::voxelize(&pts, &idx, res, fill(fm), false);
            let mut params = VHACDParameters::default();
            params.max_convex_hulls = maxh; params.resolution = res; params.fill_mode = fill(fm); params.concavity = conc;
            params.plane_downsampling = pds; params.convex_hull_downsampling = hds;
            let pre = fvox(&vox);
            let _ = verif_tap::take();
            let vh = VHACD::from_voxels(&params, vox);
            let dec = verif_tap::take();
            if func == "acd3" {
                let mut ds = format!("{}", dec.len());
                for d in &dec { match d { None => ds.push_str(" 0"), Some((abc, dd)) => ds.push_str(&format!(" 1 {} {}", d3::fv(abc), ff(*dd))) } }
                format!("{} {} ;; {}", pre, ds, fparts(vh.voxel_parts()))
            } else {
                // hulls of the parts (downsampling 1): parts then for each hull: nv pts nt tris
                let hulls = vh.compute_convex_hulls(1);
                let mut s = fparts(vh.voxel_parts());
                s = format!("{} {} {}", d3::fp(&vh.voxel_parts().get(0).map(|p| p.origin).unwrap_or(P3::origin())), ff(vh.voxel_parts().get(0).map(|p| p.scale).unwrap_or(1.0)), s);
                for (hp, ht) in &hulls {
                    s.push_str(&format!(" {}", hp.len()));
                    for p in hp { s.push(' '); s.push_str(&d3::fp(p)); }
                    s.push_str(&format!(" {}", ht.len()));
                    for t in ht { s.push_str(&format!(" {} {} {}", t[0], t[1], t[2])); }
                }
                s
            }
        }
        // voxelize3 <res> <fill> <mesh>  → origin scale n (i j k s)*
        "voxelize3" => {
            let res = a.u() as u32; let fm = a.u();
            let (pts, idx) = mesh(a);
            let vox = VoxelSet::voxelize(&pts, &idx, res, fill(fm), false);
            fvox(&vox)
        }
        // voxelize2 <res> <fill> <npts> pts <nedges> edges → origin scale n (i j s)*
        "voxelize2" => {
            use crate::p2::transformation::voxelization::{FillMode as FM2, VoxelSet as VS2};
            let res = a.u() as u32; let fm = a.u();
            let np = a.u(); let pts: Vec<_> = (0..np).map(|_| d2::p(a)).collect();
            let ne = a.u(); let idx: Vec<[u32; 2]> = (0..ne).map(|_| [a.u() as u32, a.u() as u32]).collect();
            let fmode = match fm { 0 => FM2::SurfaceOnly, 1 => FM2::FloodFill { detect_cavities: false, detect_self_intersections: false }, _ => FM2::FloodFill { detect_cavities: true, detect_self_intersections: false } };
            let vox = VS2::voxelize(&pts, &idx, res, fmode, false);
            let mut s = format!("{} {} {}", d2::fp(&vox.origin), ff(vox.scale), vox.voxels().len());
            for x in vox.voxels() { s.push_str(&format!(" {} {} {}", x.coords.x, x.coords.y, b(x.is_on_surface))); }
            s
        }
        _ => "nofn".into(),
    }
}

/// closed simple polygons: rectangle, L, U (pocket opening towards a random side), star, comb
fn gen_poly2(r: &mut Rng, lat: bool) -> Vec<d2::Point<f64>> {
    let raw: Vec<(f64, f64)> = match r.below(5) {
        0 => vec![(0.0, 0.0), (4.0, 0.0), (4.0, 2.0), (0.0, 2.0)],
        1 => vec![(0.0, 0.0), (4.0, 0.0), (4.0, 1.0), (1.0, 1.0), (1.0, 4.0), (0.0, 4.0)],
        2 => { let h = *r.pick(&[3.0, 4.0, 6.0]); vec![(0.0, 0.0), (3.0, 0.0), (3.0, h), (2.0, h), (2.0, 1.0), (1.0, 1.0), (1.0, h), (0.0, h)] }
        3 => { let n = 5 + r.below(4) as usize; (0..2 * n).map(|k| { let a = std::f64::consts::PI * k as f64 / n as f64; let rad = if k % 2 == 0 { 3.0 } else { 1.2 }; (rad * a.cos(), rad * a.sin()) }).collect() }
        _ => { let teeth = 2 + r.below(3) as usize; let mut v = vec![(0.0, 0.0)]; let w = 1.0;
               v.push(((2 * teeth + 1) as f64 * w, 0.0)); let top = 3.0;
               for t in (0..=teeth).rev() { let x1 = (2 * t + 1) as f64 * w; let x0 = (2 * t) as f64 * w; v.push((x1, top)); v.push((x0, top)); if t > 0 { v.push((x0, 1.0)); v.push((x0 - w, 1.0)); } }
               v }
    };
    // orientation of the pocket: rotate by a multiple of 90 degrees (exact) or a generic angle
    let (c, s) = if lat { *r.pick(&[(1.0, 0.0), (0.0, 1.0), (-1.0, 0.0), (0.0, -1.0)]) } else { let a = r.uniform(0.0, 6.28); (a.cos(), a.sin()) };
    let sc = if lat { 1.0 } else { r.logu(0.2, 50.0) };
    let (tx, ty) = (r.coord(lat, 5.0), r.coord(lat, 5.0));
    raw.iter().map(|(x, y)| d2::Point::new((c * x - s * y) * sc + tx, (s * x + c * y) * sc + ty)).collect()
}

fn transform(m: &mut (Vec<P3>, Vec<[u32; 3]>), iso: &d3::Isometry<f64>, sc: &d3::Vector<f64>) {
    for p in m.0.iter_mut() { *p = iso * P3::from(p.coords.component_mul(sc)); }
}
fn concat(a: (Vec<P3>, Vec<[u32; 3]>), b: (Vec<P3>, Vec<[u32; 3]>)) -> (Vec<P3>, Vec<[u32; 3]>) {
    let n = a.0.len() as u32;
    let mut pts = a.0; pts.extend(b.0);
    let mut idx = a.1; idx.extend(b.1.iter().map(|t| [t[0] + n, t[1] + n, t[2] + n]));
    (pts, idx)
}
fn shifted(mut m: (Vec<P3>, Vec<[u32; 3]>), s: d3::Vector<f64>) -> (Vec<P3>, Vec<[u32; 3]>) {
    for p in m.0.iter_mut() { *p += s; }
    m
}

pub fn gen_mesh(r: &mut Rng, lat: bool) -> ((Vec<P3>, Vec<[u32; 3]>), bool) {
    // returns (mesh, convex?)
    let kind = r.below(5);
    let (mut m, convex) = match kind {
        0 => (Cuboid::new(d3::gen_he(r, true)).to_trimesh(), true),
        1 => { // L / T shape: two boxes
            let a = Cuboid::new(d3::Vector::new(2.0, 0.5, 0.5)).to_trimesh();
            let bx = shifted(Cuboid::new(d3::Vector::new(0.5, 2.0, 0.5)).to_trimesh(), d3::Vector::new(*r.pick(&[-1.5, 0.0, 1.5]), 1.5, 0.0));
            (concat(a, bx), false) }
        2 => (Ball::new(1.0).to_trimesh(6 + r.below(4) as u32, 6 + r.below(4) as u32), true),
        3 => (Cylinder::new(1.0, 0.5).to_trimesh(8 + r.below(5) as u32), true),
        _ => { // U shape: three boxes
            let base = Cuboid::new(d3::Vector::new(2.0, 0.4, 0.6)).to_trimesh();
            let l = shifted(Cuboid::new(d3::Vector::new(0.4, 1.2, 0.6)).to_trimesh(), d3::Vector::new(-1.6, 1.2, 0.0));
            let rr = shifted(Cuboid::new(d3::Vector::new(0.4, 1.2, 0.6)).to_trimesh(), d3::Vector::new(1.6, 1.2, 0.0));
            (concat(concat(base, l), rr), false) }
    };
    let iso = d3::gen_iso(r, lat, 5.0);
    let sc = if lat { d3::Vector::new(1.0, 1.0, 1.0) } else { d3::Vector::new(r.logu(0.5, 2.0), r.logu(0.5, 2.0), r.logu(0.5, 2.0)) };
    transform(&mut m, &iso, &sc);
    (m, convex)
}


/// exact AABB extents `maxs - mins`, computed as the real code does (component-wise min/max, one subtraction)
fn extents3(pts: &[P3]) -> [f64; 3] {
    let mut lo = [f64::INFINITY; 3]; let mut hi = [f64::NEG_INFINITY; 3];
    for p in pts { for c in 0..3 { lo[c] = lo[c].min(p[c]); hi[c] = hi[c].max(p[c]); } }
    [hi[0] - lo[0], hi[1] - lo[1], hi[2] - lo[2]]
}
/// orient every triangle of a convex closed mesh outwards (w.r.t. the vertex centroid)
fn orient_outward(m: &mut (Vec<P3>, Vec<[u32; 3]>)) {
    let mut c = d3::Vector::new(0.0, 0.0, 0.0);
    for p in &m.0 { c += p.coords; }
    let c = P3::from(c / m.0.len() as f64);
    for t in m.1.iter_mut() {
        let (a, b, cc) = (m.0[t[0] as usize], m.0[t[1] as usize], m.0[t[2] as usize]);
        if (b - a).cross(&(cc - a)).dot(&(c - a)) > 0.0 { t.swap(1, 2); }
    }
}

/// Meshes whose AABB extents tie EXACTLY.  `pattern`: 0 x==y>z, 1 x==z>y, 2 y==z>x, 3 x==y==z.
/// `thin`: 0 → the small extent is exactly 0 (flat sheet in a coordinate plane), otherwise the small extent is
/// `e / ratio` (thin plate: closed convex solids and tilted zero-thickness sheets).  The mesh is built in the unit
/// cube `[0,1]^3`, scaled by the extents and shifted by `mins`; the tie is verified on the final floats (the
/// extents the real code computes), falling back to `mins = 0` when a generic float shift would break it.
/// Returns (mesh, closed convex solid?).
pub fn gen_tie_mesh(r: &mut Rng, lat: bool, pattern: usize, thin: usize, res: u32) -> ((Vec<P3>, Vec<[u32; 3]>), bool) {
    // tied (large) extent: lattice values, dyadic "random" values k/1024, or a generic float (then mins = 0)
    let generic = !lat && r.below(3) == 0;
    let e: f64 = if lat { *r.pick(&[0.5, 1.0, 2.0, 3.0, 4.0]) } else if generic { r.logu(0.05, 50.0) } else { (11 + r.below(60000)) as f64 / 1024.0 };
    // keep res * ratio <= 64: a (wrong) grid that takes the small extent as reference stays below ~70k cells
    let ratio: f64 = if res <= 4 { *r.pick(&[2.0, 4.0, 8.0, 16.0]) } else if res <= 8 { *r.pick(&[2.0, 4.0, 8.0]) } else { *r.pick(&[2.0, 4.0]) };
    let t: f64 = if pattern == 3 { e } else if thin == 0 { 0.0 } else { e / ratio };
    let p = |x: f64, y: f64, z: f64| P3::new(x, y, z);
    // canonical unit-cube shape with extents (1, 1, 1) in (u, v, w); w is the thin axis
    let (mut m, solid): ((Vec<P3>, Vec<[u32; 3]>), bool) = if thin == 0 && pattern != 3 {
        match r.below(3) {
            0 => ((vec![p(0., 0., 0.), p(1., 0., 0.), p(1., 1., 0.), p(0., 1., 0.)], vec![[0, 1, 2], [0, 2, 3]]), false),
            1 => ((vec![p(0.5, 0., 0.), p(1., 0.5, 0.), p(0.5, 1., 0.), p(0., 0.5, 0.)], vec![[0, 1, 2], [0, 2, 3]]), false),
            _ => { // 2 x 2 grid sheet
                let mut pts = Vec::new(); let mut idx = Vec::new();
                for j in 0..3 { for i in 0..3 { pts.push(p(i as f64 * 0.5, j as f64 * 0.5, 0.)); } }
                for j in 0..2u32 { for i in 0..2u32 { let a = j * 3 + i; idx.push([a, a + 1, a + 4]); idx.push([a, a + 4, a + 3]); } }
                ((pts, idx), false) }
        }
    } else {
        match if thin == 0 { 3 } else { r.below(4) } {
            0 => { let mut b = Cuboid::new(d3::Vector::new(0.5, 0.5, 0.5)).to_trimesh();
                   for q in b.0.iter_mut() { *q = p(q.x + 0.5, q.y + 0.5, q.z + 0.5); }
                   (b, true) }
            1 => ((vec![p(1., 0.5, 0.5), p(0., 0.5, 0.5), p(0.5, 1., 0.5), p(0.5, 0., 0.5), p(0.5, 0.5, 1.), p(0.5, 0.5, 0.)],
                   vec![[0, 2, 4], [2, 1, 4], [1, 3, 4], [3, 0, 4], [2, 0, 5], [1, 2, 5], [3, 1, 5], [0, 3, 5]]), true),
            2 => ((vec![p(0., 0., 0.), p(1., 1., 0.), p(1., 0., 1.), p(0., 1., 1.)], vec![[0, 1, 2], [0, 3, 1], [0, 2, 3], [1, 3, 2]]), true),
            // tilted zero-thickness sheet: the plane w = u (extents 1 x 1 x 1 before scaling)
            _ => ((vec![p(0., 0., 0.), p(1., 0., 1.), p(1., 1., 1.), p(0., 1., 0.)], vec![[0, 1, 2], [0, 2, 3]]), false),
        }
    };
    let mins = if generic { [0.0; 3] } else if lat { [r.coord(true, 5.0), r.coord(true, 5.0), r.coord(true, 5.0)] }
               else { [r.range(-100000, 100000) as f64 / 1024.0, r.range(-100000, 100000) as f64 / 1024.0, r.range(-100000, 100000) as f64 / 1024.0] };
    let place = |m: &(Vec<P3>, Vec<[u32; 3]>), mins: [f64; 3]| -> (Vec<P3>, Vec<[u32; 3]>) {
        let pts = m.0.iter().map(|q| {
            let (u, v, w) = (q.x * e, q.y * e, q.z * t);
            match pattern { 1 => p(u + mins[0], w + mins[1], v + mins[2]), 2 => p(w + mins[0], u + mins[1], v + mins[2]), _ => p(u + mins[0], v + mins[1], w + mins[2]) }
        }).collect();
        (pts, m.1.clone())
    };
    let tied = |pts: &[P3]| { let d = extents3(pts); match pattern {
        0 => d[0] == d[1] && d[0] > d[2], 1 => d[0] == d[2] && d[0] > d[1], 2 => d[1] == d[2] && d[1] > d[0], _ => d[0] == d[1] && d[1] == d[2] } };
    let mut out = place(&m, mins);
    if !tied(&out.0) { out = place(&m, [0.0; 3]); }
    assert!(tied(&out.0), "tie generator broken");
    m = out;
    if solid { orient_outward(&mut m); }
    (m, solid)
}

/// 2-D closed polylines whose AABB extents tie exactly (square, diamond, octagon) or are flat (degenerate closed
/// polyline on a horizontal / vertical line)
fn gen_tie_poly2(r: &mut Rng, lat: bool) -> Vec<d2::Point<f64>> {
    let e: f64 = if lat { *r.pick(&[0.5, 1.0, 2.0, 3.0, 4.0]) } else { (11 + r.below(60000)) as f64 / 1024.0 };
    let raw: Vec<(f64, f64)> = match r.below(5) {
        0 => vec![(0., 0.), (1., 0.), (1., 1.), (0., 1.)],
        1 => vec![(0.5, 0.), (1., 0.5), (0.5, 1.), (0., 0.5)],
        2 => vec![(0.25, 0.), (0.75, 0.), (1., 0.25), (1., 0.75), (0.75, 1.), (0.25, 1.), (0., 0.75), (0., 0.25)],
        3 => vec![(0., 0.), (0.5, 0.), (1., 0.), (0.5, 0.)],
        _ => vec![(0., 0.), (0., 0.5), (0., 1.), (0., 0.5)],
    };
    let (tx, ty) = if lat { (r.coord(true, 5.0), r.coord(true, 5.0)) } else { (r.range(-100000, 100000) as f64 / 1024.0, r.range(-100000, 100000) as f64 / 1024.0) };
    raw.iter().map(|(x, y)| d2::Point::new(x * e + tx, y * e + ty)).collect()
}

pub fn gen(r: &mut Rng, thorough: bool) -> Vec<(String, String)> {
    let n = if thorough { 240 } else { 60 };
    let mut v = Vec::new();
    for it in 0..n {
        let lat = it % 2 == 0;
        let (m, convex) = gen_mesh(r, lat);
        let res = *r.pick(if thorough { &[4u32, 8, 12, 16, 24, 32][..] } else { &[4u32, 8, 10, 12, 16][..] });
        let fm = r.below(3);
        let maxh = *r.pick(&[1u32, 2, 3, 4, 5, 8, 16]);
        let conc = *r.pick(&[0.0005, 0.01, 0.05, 0.2]);
        let pds = *r.pick(&[1u32, 2, 4]); let hds = *r.pick(&[1u32, 2, 4]);
        let ms = hmesh(&m);
        v.push(("acd3".into(), format!("{} {} {} {} {} {} {}", maxh, res, fm, hx(conc), pds, hds, ms)));
        if it % 3 == 0 { v.push(("hulls3".into(), format!("{} {} {} {} {} {} {}", maxh, res.min(12), fm, hx(conc), pds, hds, ms))); }
        // voxelize3: the last flag tells the oracle whether the mesh is convex (fill check applies)
        v.push(("voxelize3".into(), format!("{} {} {} {}", res, fm, ms, if convex { "1" } else { "0" })));
        for _ in 0..2 {
            let poly = gen_poly2(r, lat);
            let n = poly.len();
            let res2 = *r.pick(&[8u32, 16, 21, 32, 50]);
            v.push(("voxelize2".into(), format!("{} {} {} {} {} {}", res2, r.below(3), n, poly.iter().map(d2::hp).collect::<Vec<_>>().join(" "), n,
                (0..n).map(|i| format!("{} {}", i, (i + 1) % n)).collect::<Vec<_>>().join(" "))));
        }
        // exactly tied AABB extents (the choice of the reference extent): flat sheets, thin plates, cubes; every
        // pattern x {flat, thin, thin} x fill mode x {lattice, random} comes round within 36 iterations
        for rep in 0..2 {
            let j = it / 2; // `it % 2` selects lattice / random: keep it independent of pattern, thinness and fill mode
            let pattern = (2 * j + rep) % 4; let thin = (j / 2) % 3; let fm = (j / 6) % 3;
            let res = *r.pick(&[4u32, 5, 8, 10, 16]);
            let (m, solid) = gen_tie_mesh(r, lat, pattern, thin, res);
            let ms = hmesh(&m);
            v.push(("voxelize3".into(), format!("{} {} {} {}", res, fm, ms, if solid { "1" } else { "0" })));
            if it % 5 == 0 && rep == (it / 5) % 2 {
                let maxh = *r.pick(&[1u32, 2, 4, 8]);
                v.push(("acd3".into(), format!("{} {} {} {} {} {} {}", maxh, res, fm, hx(0.01), 2, 2, ms)));
            }
            if it % 11 == 1 && rep == (it / 11) % 2 {
                v.push(("hulls3".into(), format!("{} {} {} {} {} {} {}", 2, res.min(10), fm, hx(0.05), 2, 2, ms)));
            }
        }
        {
            let poly = gen_tie_poly2(r, lat);
            let n = poly.len();
            let res2 = *r.pick(&[4u32, 5, 8, 16, 21, 32]);
            v.push(("voxelize2".into(), format!("{} {} {} {} {} {}", res2, it % 3, n, poly.iter().map(d2::hp).collect::<Vec<_>>().join(" "), n,
                (0..n).map(|i| format!("{} {}", i, (i + 1) % n)).collect::<Vec<_>>().join(" "))));
        }
    }
    v
}
