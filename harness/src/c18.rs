//! C18: voxelization + VHACD.  `acd3`: real voxelization + real VHACD loop, the voxel set and the oracle
//! decisions (hook `verif_tap`) are emitted before `;;` as extra model inputs, the voxel parts after it.
use crate::util::*;
use crate::p3::transformation::vhacd::{VHACDParameters, VHACD, verif_tap};
use crate::p3::transformation::voxelization::{FillMode, VoxelSet};
use crate::p3::shape::{Ball, Cuboid, Cylinder};

type P3 = d3::Point<f64>;

fn mesh(a: &mut Args) -> (Vec<P3>, Vec<[u32; 3]>) {
    let nv = a.u();
    let pts: Vec<P3> = (0..nv).map(|_| d3::p(a)).collect();
    let nt = a.u();
    let idx: Vec<[u32; 3]> = (0..nt).map(|_| [a.u() as u32, a.u() as u32, a.u() as u32]).collect();
    (pts, idx)
}
fn hmesh(m: &(Vec<P3>, Vec<[u32; 3]>)) -> String {
    let mut s = format!("{}", m.0.len());
    for p in &m.0 { s.push(' '); s.push_str(&d3::hp(p)); }
    s.push_str(&format!(" {}", m.1.len()));
    for t in &m.1 { s.push_str(&format!(" {} {} {}", t[0], t[1], t[2])); }
    s
}
fn fill(code: usize) -> FillMode {
    match code { 0 => FillMode::SurfaceOnly, 1 => FillMode::FloodFill { detect_cavities: false }, _ => FillMode::FloodFill { detect_cavities: true } }
}
fn fvox(v: &VoxelSet) -> String {
    let mut s = format!("{} {} {}", d3::fp(&v.origin), ff(v.scale), v.voxels().len());
    for x in v.voxels() { s.push_str(&format!(" {} {} {} {}", x.coords.x, x.coords.y, x.coords.z, b(x.is_on_surface))); }
    s
}
fn fparts(ps: &[VoxelSet]) -> String {
    let mut s = format!("{}", ps.len());
    for p in ps {
        s.push_str(&format!(" {}", p.voxels().len()));
        for x in p.voxels() { s.push_str(&format!(" {} {} {} {}", x.coords.x, x.coords.y, x.coords.z, b(x.is_on_surface))); }
    }
    s
}


fn fill2(code: usize) -> crate::p2::transformation::voxelization::FillMode {
    use crate::p2::transformation::voxelization::FillMode as FM2;
    match code {
        0 => FM2::SurfaceOnly,
        1 => FM2::FloodFill { detect_cavities: false, detect_self_intersections: false },
        2 => FM2::FloodFill { detect_cavities: true, detect_self_intersections: false },
        3 => FM2::FloodFill { detect_cavities: false, detect_self_intersections: true },
        _ => FM2::FloodFill { detect_cavities: true, detect_self_intersections: true },
    }
}

/// boxes and segments/lines for the two cell predicates: unit cells and generic boxes; segments through corners,
/// along edges, degenerate, tiny, axis-aligned, diagonal, far away
fn gen_box_seg(r: &mut Rng, lat: bool) -> (f64, f64, f64, f64, f64, f64, f64, f64) {
    let (cx, cy, hx_, hy_) = if r.bool() { (r.range(0, 6) as f64, r.range(0, 6) as f64, 0.5, 0.5) }
        else if lat { (r.lattice(16, 2), r.lattice(16, 2), *r.pick(&[0.25, 0.5, 1.0, 1.5]), *r.pick(&[0.25, 0.5, 1.0, 2.0])) }
        else { (r.uniform(-5.0, 5.0), r.uniform(-5.0, 5.0), r.logu(0.01, 10.0), r.logu(0.01, 10.0)) };
    let (m0, m1, x0, x1) = (cx - hx_, cy - hy_, cx + hx_, cy + hy_);
    let corner = |r: &mut Rng| (if r.bool() { m0 } else { x0 }, if r.bool() { m1 } else { x1 });
    let rnd = |r: &mut Rng| if lat { (cx + r.lattice(12, 2), cy + r.lattice(12, 2)) } else { (cx + r.uniform(-3.0, 3.0) * hx_, cy + r.uniform(-3.0, 3.0) * hy_) };
    let (a, bb) = match r.below(8) {
        0 => (rnd(r), rnd(r)),
        1 => { let c = corner(r); let d = if lat { (*r.pick(&[1.0, -1.0, 0.5, 2.0]), *r.pick(&[1.0, -1.0, 0.5, -2.0])) } else { (r.uniform(-1.0, 1.0), r.uniform(-1.0, 1.0)) };
               let (s, t) = (r.uniform(0.0, 2.0).floor(), r.uniform(0.0, 3.0).floor()); // through / from / up to a corner
               ((c.0 - s * d.0, c.1 - s * d.1), (c.0 + t * d.0, c.1 + t * d.1)) }
        2 => { let p = rnd(r); (p, p) }                                   // degenerate
        3 => { let p = corner(r); let e = *r.pick(&[1e-16, 5e-17, 2e-16, 1e-15, 1e-12]); (p, (p.0 + e * r.uniform(-1.0, 1.0), p.1 + e * r.uniform(-1.0, 1.0))) }
        4 => { let y = *r.pick(&[m1, x1, cy, m1 - hy_, x1 + 0.25 * hy_]); ((cx + r.uniform(-3.0, 3.0) * hx_, y), (cx + r.uniform(-3.0, 3.0) * hx_, y)) } // horizontal
        5 => { let x = *r.pick(&[m0, x0, cx, m0 - hx_, x0 + 0.25 * hx_]); ((x, cy + r.uniform(-3.0, 3.0) * hy_), (x, cy + r.uniform(-3.0, 3.0) * hy_)) } // vertical
        6 => { let c = corner(r); let e = r.uniform(-1e-9, 1e-9); let d = (r.uniform(-1.0, 1.0), r.uniform(-1.0, 1.0));   // grazing a corner
               ((c.0 - d.0 + e * d.1, c.1 - d.1 - e * d.0), (c.0 + d.0 + e * d.1, c.1 + d.1 - e * d.0)) }
        _ => (corner(r), rnd(r)),
    };
    (m0, m1, x0, x1, a.0, a.1, bb.0, bb.1)
}

/// polylines for the 2-D voxelizer: closed simple polygons, open polylines, random segment soups (self-intersecting),
/// lattice rectangles whose grid coordinates hit half-integers (cell-boundary ties), isolated/degenerate segments
fn gen_polyline2(r: &mut Rng, lat: bool) -> (Vec<d2::Point<f64>>, Vec<[u32; 2]>) {
    match r.below(7) {
        0 | 1 | 2 => { let p = gen_poly2(r, lat); let n = p.len() as u32; (p, (0..n).map(|i| [i, (i + 1) % n]).collect()) }
        3 => { // open random polyline
            let n = 2 + r.below(6) as usize;
            let p: Vec<_> = (0..n).map(|_| d2::gen_p(r, lat, 5.0)).collect();
            (p, (0..n as u32 - 1).map(|i| [i, i + 1]).collect()) }
        4 => { // segment soup with repeated / reversed / degenerate edges and unused points
            let n = 3 + r.below(6) as usize;
            let p: Vec<_> = (0..n).map(|_| d2::gen_p(r, lat, 4.0)).collect();
            let m = 1 + r.below(8) as usize;
            (p, (0..m).map(|_| [r.below(n as u64) as u32, r.below(n as u64) as u32]).collect()) }
        5 => { // lattice rectangle / nested rectangles: extents chosen so that (res-1)/r is a dyadic and corners fall on ties
            let w = *r.pick(&[1.0, 2.0, 3.0, 4.0, 7.0, 15.0]); let h = *r.pick(&[1.0, 2.0, 3.0, 3.5, 7.0, 15.0]);
            let (tx, ty) = (r.lattice(8, 1), r.lattice(8, 1));
            let mut p = vec![(0.0, 0.0), (w, 0.0), (w, h), (0.0, h)];
            let mut e: Vec<[u32; 2]> = vec![[0, 1], [1, 2], [2, 3], [3, 0]];
            if r.bool() && w >= 3.0 && h >= 3.0 { // a hole (cavity)
                let k = p.len() as u32; p.extend_from_slice(&[(1.0, 1.0), (w - 1.0, 1.0), (w - 1.0, h - 1.0), (1.0, h - 1.0)]);
                e.extend_from_slice(&[[k, k + 1], [k + 1, k + 2], [k + 2, k + 3], [k + 3, k]]); }
            if r.bool() { p.push((w * 0.5, h * 0.5)); let k = p.len() as u32 - 1; e.push([k, k]); } // a point primitive
            (p.iter().map(|(x, y)| d2::Point::new(x + tx, y + ty)).collect(), e) }
        _ => { // thin long shape: the minor axis gets resolution 2..4
            let l = r.uniform(5.0, 50.0); let t = r.uniform(0.0, 0.3);
            let (c, s) = if r.bool() { (1.0, 0.0) } else { (0.0, 1.0) };
            let raw = [(0.0, 0.0), (l, 0.0), (l, t), (0.0, t)];
            let p: Vec<_> = raw.iter().map(|(x, y)| d2::Point::new(c * x - s * y, s * x + c * y)).collect();
            (p, vec![[0, 1], [1, 2], [2, 3], [3, 0]]) }
    }
}

pub fn exec(func: &str, a: &mut Args) -> String {
    match func {
        // acd3 <maxhulls> <res> <fill> <concavity> <plane_ds> <hull_ds> <mesh>
        "acd3" | "hulls3" => {
            let maxh = a.u() as u32; let res = a.u() as u32; let fm = a.u(); let conc = a.f();
            let pds = a.u() as u32; let hds = a.u() as u32;
            let (pts, idx) = mesh(a);
            let vox = VoxelSet::voxelize(&pts, &idx, res, fill(fm), false);
            let mut params = VHACDParameters::default();
            params.max_convex_hulls = maxh; params.resolution = res; params.fill_mode = fill(fm); params.concavity = conc;
            params.plane_downsampling = pds; params.convex_hull_downsampling = hds;
            let pre = fvox(&vox);
            let _ = verif_tap::take();
            let vh = VHACD::from_voxels(&params, vox);
            let dec = verif_tap::take();
            if func == "acd3" {
                let mut ds = format!("{}", dec.len());
                for d in &dec { match d { None => ds.push_str(" 0"), Some((abc, dd)) => ds.push_str(&format!(" 1 {} {}", d3::fv(abc), ff(*dd))) } }
                format!("{} {} ;; {}", pre, ds, fparts(vh.voxel_parts()))
            } else {
                // hulls of the parts (downsampling 1): parts then for each hull: nv pts nt tris
                let hulls = vh.compute_convex_hulls(1);
                let mut s = fparts(vh.voxel_parts());
                s = format!("{} {} {}", d3::fp(&vh.voxel_parts().get(0).map(|p| p.origin).unwrap_or(P3::origin())), ff(vh.voxel_parts().get(0).map(|p| p.scale).unwrap_or(1.0)), s);
                for (hp, ht) in &hulls {
                    s.push_str(&format!(" {}", hp.len()));
                    for p in hp { s.push(' '); s.push_str(&d3::fp(p)); }
                    s.push_str(&format!(" {}", ht.len()));
                    for t in ht { s.push_str(&format!(" {} {} {}", t[0], t[1], t[2])); }
                }
                s
            }
        }
        // parts3 <maxhulls> <res> <fill> <concavity> <plane_ds> <hull_ds> <mesh>: per-part bookkeeping of the real VHACD run
        // (observed inputs as for acd3).  Output: nparts then per part: n min_bb(3) max_bb(3) compute_volume
        "parts3" => {
            let maxh = a.u() as u32; let res = a.u() as u32; let fm = a.u(); let conc = a.f();
            let pds = a.u() as u32; let hds = a.u() as u32;
            let (pts, idx) = mesh(a);
            let vox = VoxelSet::voxelize(&pts, &idx, res, fill(fm), false);
            let mut params = VHACDParameters::default();
            params.max_convex_hulls = maxh; params.resolution = res; params.fill_mode = fill(fm); params.concavity = conc;
            params.plane_downsampling = pds; params.convex_hull_downsampling = hds;
            let pre = fvox(&vox);
            let _ = verif_tap::take();
            let vh = VHACD::from_voxels(&params, vox);
            let dec = verif_tap::take();
            let mut ds = format!("{}", dec.len());
            for d in &dec { match d { None => ds.push_str(" 0"), Some((abc, dd)) => ds.push_str(&format!(" 1 {} {}", d3::fv(abc), ff(*dd))) } }
            let mut s = format!("{}", vh.voxel_parts().len());
            for p in vh.voxel_parts() {
                let (lo, hi) = (p.min_bb_voxels(), p.max_bb_voxels());
                s.push_str(&format!(" {} {} {} {} {} {} {} {}", p.voxels().len(), lo.x, lo.y, lo.z, hi.x, hi.y, hi.z, ff(p.compute_volume())));
            }
            format!("{} {} ;; {}", pre, ds, s)
        }
        // hullsample3 <res> <fill> <sampling> <mesh>: VoxelSet::compute_convex_hull(sampling) of the whole voxelization.
        // Output: the voxel set (observed input) ;; nv hull vertices
        "hullsample3" => {
            let res = a.u() as u32; let fm = a.u(); let sampling = a.u() as u32;
            let (pts, idx) = mesh(a);
            let vox = VoxelSet::voxelize(&pts, &idx, res, fill(fm), false);
            let pre = fvox(&vox);
            let (hp, _ht) = vox.compute_convex_hull(sampling);
            let mut s = format!("{}", hp.len());
            for p in &hp { s.push(' '); s.push_str(&d3::fp(p)); }
            format!("{} ;; {}", pre, s)
        }
        // voxelize3 <res> <fill> <mesh>  → origin scale n (i j k s)*
        "voxelize3" => {
            let res = a.u() as u32; let fm = a.u();
            let (pts, idx) = mesh(a);
            let vox = VoxelSet::voxelize(&pts, &idx, res, fill(fm), false);
            fvox(&vox)
        }
        // fill3 / fillset3 <res> <fm> <mesh>: 3-D grid parameters + fill pass.  The surface grid of the real code (a
        // `SurfaceOnly` run) is emitted before `;;` as an observed input of the fill model.
        //   fill3    → ni nj nk origin scale g<one VoxelValue code per cell, memory order>
        //   fillset3 → VoxelSet::voxelize (the entry point VHACD uses): origin scale n (i j k s)*
        "fill3" | "fillset3" => {
            use crate::p3::transformation::voxelization::{VoxelizedVolume as VV3, VoxelValue as V};
            let res = a.u() as u32; let fm = a.u();
            let (pts, idx) = mesh(a);
            let so = VV3::voxelize(&pts, &idx, res, FillMode::SurfaceOnly, false);
            let [ni, nj, nk] = so.resolution();
            let mut m = String::with_capacity((ni * nj * nk) as usize + 1);
            m.push('m');
            for k in 0..nk { for j in 0..nj { for i in 0..ni {
                m.push(if so.voxel(i, j, k) == V::PrimitiveOnSurface { '1' } else { '0' });
            } } }
            let pre = format!("{} {} {} {}", ni, nj, nk, m);
            if func == "fill3" {
                let vol = VV3::voxelize(&pts, &idx, res, fill(fm), false);
                let [ni, nj, nk] = vol.resolution();
                let mut g = String::with_capacity((ni * nj * nk) as usize + 1);
                g.push('g');
                for k in 0..nk { for j in 0..nj { for i in 0..ni {
                    let c = match vol.voxel(i, j, k) {
                        V::PrimitiveUndefined => '0', V::PrimitiveOutsideSurfaceToWalk => '1', V::PrimitiveInsideSurfaceToWalk => '2',
                        V::PrimitiveOnSurfaceNoWalk => '3', V::PrimitiveOnSurfaceToWalk1 => '4', V::PrimitiveOnSurfaceToWalk2 => '5',
                        V::PrimitiveOutsideSurface => '6', V::PrimitiveInsideSurface => '7', V::PrimitiveOnSurface => '8' };
                    g.push(c);
                } } }
                let scale = vol.scale();
                let vs: VoxelSet = vol.into();
                format!("{} ;; {} {} {} {} {} {}", pre, ni, nj, nk, d3::fp(&vs.origin), ff(scale), g)
            } else {
                let vox = VoxelSet::voxelize(&pts, &idx, res, fill(fm), false);
                format!("{} ;; {}", pre, fvox(&vox))
            }
        }
        // tribox3 <mins> <maxs> <a> <b> <c> → 0/1 : query::details::intersection_test_aabb_triangle
        "tribox3" => {
            use crate::p3::bounding_volume::Aabb as Aabb3;
            use crate::p3::shape::Triangle as Tri3;
            let mins = d3::p(a); let maxs = d3::p(a); let pa = d3::p(a); let pb = d3::p(a); let pc = d3::p(a);
            let r = crate::p3::query::details::intersection_test_aabb_triangle(&Aabb3::new(mins, maxs), &Tri3::new(pa, pb, pc));
            b(r).to_string()
        }
        // vox3grid <res> <fm> <mesh> → ni nj nk origin scale g<codes>: the whole 3-D VoxelizedVolume, no observed input
        "vox3grid" => {
            use crate::p3::transformation::voxelization::{VoxelizedVolume as VV3, VoxelValue as V};
            let res = a.u() as u32; let fm = a.u();
            let (pts, idx) = mesh(a);
            let vol = VV3::voxelize(&pts, &idx, res, fill(fm), false);
            let [ni, nj, nk] = vol.resolution();
            let mut g = String::with_capacity((ni * nj * nk) as usize + 1);
            g.push('g');
            for k in 0..nk { for j in 0..nj { for i in 0..ni {
                let c = match vol.voxel(i, j, k) {
                    V::PrimitiveUndefined => '0', V::PrimitiveOutsideSurfaceToWalk => '1', V::PrimitiveInsideSurfaceToWalk => '2',
                    V::PrimitiveOnSurfaceNoWalk => '3', V::PrimitiveOnSurfaceToWalk1 => '4', V::PrimitiveOnSurfaceToWalk2 => '5',
                    V::PrimitiveOutsideSurface => '6', V::PrimitiveInsideSurface => '7', V::PrimitiveOnSurface => '8' };
                g.push(c);
            } } }
            let scale = vol.scale();
            let vs: VoxelSet = vol.into();
            format!("{} {} {} {} {} {}", ni, nj, nk, d3::fp(&vs.origin), ff(scale), g)
        }
        // acd2 / hulls2 <maxhulls> <res> <fill2> <concavity> <plane_ds> <hull_ds> <np> pts <ne> edges: the real 2-D VHACD
        // (parry2d-f64) on the real 2-D voxelization.
        //   acd2   → origin scale n (i j s)* ndec (0 | 1 a b d)* ;; nparts (n (i j s)*)*     (decisions recorded by verif_tap)
        //   hulls2 → origin scale nparts (n (i j s)*)* nhulls (m pts)*                        (compute_convex_hulls(1))
        "acd2" | "hulls2" => {
            use crate::p2::transformation::vhacd::{VHACDParameters as Par2, VHACD as Vh2, verif_tap as tap2};
            use crate::p2::transformation::voxelization::VoxelSet as VS2;
            let maxh = a.u() as u32; let res = a.u() as u32; let fm = a.u(); let conc = a.f();
            let pds = a.u() as u32; let hds = a.u() as u32;
            let np = a.u(); let pts: Vec<_> = (0..np).map(|_| d2::p(a)).collect();
            let ne = a.u(); let idx: Vec<[u32; 2]> = (0..ne).map(|_| [a.u() as u32, a.u() as u32]).collect();
            let vox = VS2::voxelize(&pts, &idx, res, fill2(fm), false);
            let mut params = Par2::default();
            params.max_convex_hulls = maxh; params.resolution = res; params.fill_mode = fill2(fm); params.concavity = conc;
            params.plane_downsampling = pds; params.convex_hull_downsampling = hds;
            let fv2 = |v: &VS2| { let mut s = format!("{}", v.voxels().len());
                for x in v.voxels() { s.push_str(&format!(" {} {} {}", x.coords.x, x.coords.y, b(x.is_on_surface))); } s };
            let pre = format!("{} {} {}", d2::fp(&vox.origin), ff(vox.scale), fv2(&vox));
            let _ = tap2::take();
            let vh = Vh2::from_voxels(&params, vox);
            let dec = tap2::take();
            let mut ps = format!("{}", vh.voxel_parts().len());
            for p in vh.voxel_parts() { ps.push(' '); ps.push_str(&fv2(p)); }
            if func == "acd2" {
                let mut ds = format!("{}", dec.len());
                for d in &dec { match d { None => ds.push_str(" 0"), Some((abc, dd)) => ds.push_str(&format!(" 1 {} {}", d2::fv(abc), ff(*dd))) } }
                format!("{} {} ;; {}", pre, ds, ps)
            } else {
                let (o, sc) = vh.voxel_parts().get(0).map(|p| (p.origin, p.scale)).unwrap_or((d2::Point::origin(), 1.0));
                let hulls = vh.compute_convex_hulls(1);
                let mut s = format!("{} {} {} {}", d2::fp(&o), ff(sc), ps, hulls.len());
                for h in &hulls { s.push_str(&format!(" {}", h.len())); for p in h { s.push(' '); s.push_str(&d2::fp(p)); } }
                s
            }
        }
        // vox3map <res> <fm> <mesh> → VoxelSet::voxelize(.., keep_voxel_to_primitives_map = true):
        //   origin scale n (i j k s)* map (len prim*)*   one list per surface voxel, in voxel order | .. nomap
        "vox3map" => {
            let res = a.u() as u32; let fm = a.u();
            let (pts, idx) = mesh(a);
            let vs = VoxelSet::voxelize(&pts, &idx, res, fill(fm), true);
            let mut s = fvox(&vs);
            // The voxel-to-primitive map is private; it is read back through the public `compute_primitive_intersections`,
            // one grid layer k at a time, with query-time primitives that are huge horizontal triangles at a
            // primitive-specific height inside the layer: each (voxel, primitive) entry of the map then yields the clipped
            // square (two triangles) whose xy-position names the voxel and whose height names the primitive.
            let nprim = idx.len().max(1);
            {   // `assert!(!self.intersections.is_empty(), ..)`: an empty map is reported as `nomap`
                let far = vec![P3::new(1.0e9, 1.0e9, 1.0e9), P3::new(1.0e9 + 1.0, 1.0e9, 1.0e9), P3::new(1.0e9, 1.0e9 + 1.0, 1.0e9)];
                let qi: Vec<[u32; 3]> = vec![[0, 1, 2]; nprim];
                match std::panic::catch_unwind(std::panic::AssertUnwindSafe(|| vs.compute_primitive_intersections(&far, &qi))) {
                    Ok(_) => {}
                    Err(e) => {
                        let msg = if let Some(m) = e.downcast_ref::<&str>() { m.to_string() } else if let Some(m) = e.downcast_ref::<String>() { m.clone() } else { String::new() };
                        if msg.contains("voxel-to-primitives-map") { s.push_str(" nomap"); return s; }
                        panic!("{}", msg);
                    }
                }
            }
            let sc = vs.scale; let o = vs.origin;
            let (mut ni, mut nj, mut nk) = (0u32, 0u32, 0u32);
            for x in vs.voxels() { ni = ni.max(x.coords.x + 1); nj = nj.max(x.coords.y + 1); nk = nk.max(x.coords.z + 1); }
            let big = (ni.max(nj) as f64 + 2.0) * sc;
            let mut map: std::collections::HashMap<(u32, u32, u32), Vec<usize>> = std::collections::HashMap::new();
            for k in 0..nk {
                let mut qpts = Vec::with_capacity(3 * nprim); let mut qidx = Vec::with_capacity(nprim);
                for p in 0..nprim {
                    let z = o.z + (k as f64 + (-0.45 + 0.9 * (p as f64 + 0.5) / nprim as f64)) * sc;
                    qpts.push(P3::new(o.x - 4.0 * big, o.y - 4.0 * big, z));
                    qpts.push(P3::new(o.x + 8.0 * big, o.y - 4.0 * big, z));
                    qpts.push(P3::new(o.x - 4.0 * big, o.y + 8.0 * big, z));
                    qidx.push([3 * p as u32, 3 * p as u32 + 1, 3 * p as u32 + 2]);
                }
                let out = vs.compute_primitive_intersections(&qpts, &qidx);
                let mut keys: Vec<(u32, u32, usize)> = Vec::new();
                for t in out.chunks(3) {
                    let cx = (t[0].x + t[1].x + t[2].x) / 3.0; let cy = (t[0].y + t[1].y + t[2].y) / 3.0;
                    let i = ((cx - o.x) / sc).round() as u32; let j = ((cy - o.y) / sc).round() as u32;
                    let tz = (t[0].z - o.z) / sc - k as f64;
                    let p = ((tz + 0.45) / 0.9 * nprim as f64 - 0.5).round() as usize;
                    keys.push((i, j, p));
                }
                // every entry is a clipped square = a fan of two triangles
                if keys.len() % 2 != 0 { return format!("{} decode-error odd-number-of-triangles", s); }
                for pr in keys.chunks(2) {
                    if pr[0] != pr[1] { return format!("{} decode-error fan-mismatch", s); }
                    map.entry((pr[0].0, pr[0].1, k)).or_default().push(pr[0].2);
                }
            }
            s.push_str(" map");
            for x in vs.voxels() { if x.is_on_surface {
                let l = map.get(&(x.coords.x, x.coords.y, x.coords.z)).cloned().unwrap_or_default();
                s.push_str(&format!(" {}", l.len()));
                for p in l { s.push_str(&format!(" {}", p)); }
            } }
            s
        }
        // voxelize2 <res> <fill> <npts> pts <nedges> edges → origin scale n (i j s)*
        "voxelize2" => {
            use crate::p2::transformation::voxelization::{FillMode as FM2, VoxelSet as VS2};
            let res = a.u() as u32; let fm = a.u();
            let np = a.u(); let pts: Vec<_> = (0..np).map(|_| d2::p(a)).collect();
            let ne = a.u(); let idx: Vec<[u32; 2]> = (0..ne).map(|_| [a.u() as u32, a.u() as u32]).collect();
            let fmode = match fm { 0 => FM2::SurfaceOnly, 1 => FM2::FloodFill { detect_cavities: false, detect_self_intersections: false }, _ => FM2::FloodFill { detect_cavities: true, detect_self_intersections: false } };
            let vox = VS2::voxelize(&pts, &idx, res, fmode, false);
            let mut s = format!("{} {} {}", d2::fp(&vox.origin), ff(vox.scale), vox.voxels().len());
            for x in vox.voxels() { s.push_str(&format!(" {} {} {}", x.coords.x, x.coords.y, b(x.is_on_surface))); }
            s
        }

        // segbox2 <mins> <maxs> <a> <b> → 0/1 : query::details::intersection_test_aabb_segment
        "segbox2" => {
            use crate::p2::bounding_volume::Aabb as Aabb2;
            use crate::p2::shape::Segment as Seg2;
            let mins = d2::p(a); let maxs = d2::p(a); let pa = d2::p(a); let pb = d2::p(a);
            let r = crate::p2::query::details::intersection_test_aabb_segment(&Aabb2::new(mins, maxs), &Seg2::new(pa, pb));
            b(r).to_string()
        }
        // clipline2 <mins> <maxs> <origin> <dir> → none | t0 t1 : Aabb::clip_line_parameters
        "clipline2" => {
            use crate::p2::bounding_volume::Aabb as Aabb2;
            let mins = d2::p(a); let maxs = d2::p(a); let o = d2::p(a); let d = d2::v(a);
            match Aabb2::new(mins, maxs).clip_line_parameters(&o, &d) {
                None => "none".into(),
                Some((t0, t1)) => format!("{} {}", ff(t0), ff(t1)),
            }
        }
        // vox2grid / vox2set <res> <fm> <keep> <npts> pts <nedges> edges
        "vox2grid" | "vox2set" => {
            use crate::p2::transformation::voxelization::{VoxelSet as VS2, VoxelizedVolume as VV2, VoxelValue as V};
            let res = a.u() as u32; let fm = a.u(); let keep = a.b();
            let np = a.u(); let pts: Vec<_> = (0..np).map(|_| d2::p(a)).collect();
            let ne = a.u(); let idx: Vec<[u32; 2]> = (0..ne).map(|_| [a.u() as u32, a.u() as u32]).collect();
            let fmode = fill2(fm);
            let vol = VV2::voxelize(&pts, &idx, res, fmode, keep);
            let [ni, nj] = vol.resolution();
            if func == "vox2grid" {
                let mut g = String::with_capacity((ni * nj) as usize + 1);
                g.push('g');
                for j in 0..nj { for i in 0..ni {
                    let c = match vol.voxel(i, j, 0) {
                        V::PrimitiveUndefined => '0', V::PrimitiveOutsideSurfaceToWalk => '1', V::PrimitiveInsideSurfaceToWalk => '2',
                        V::PrimitiveOnSurfaceNoWalk => '3', V::PrimitiveOnSurfaceToWalk1 => '4', V::PrimitiveOnSurfaceToWalk2 => '5',
                        V::PrimitiveOutsideSurface => '6', V::PrimitiveInsideSurface => '7', V::PrimitiveOnSurface => '8' };
                    g.push(c);
                } }
                let scale = vol.scale();
                let vs: VS2 = vol.into();
                format!("{} {} {} {} {}", ni, nj, d2::fp(&vs.origin), ff(scale), g)
            } else {
                let vs: VS2 = vol.into();
                let mut s = format!("{} {} {}", d2::fp(&vs.origin), ff(vs.scale), vs.voxels().len());
                for x in vs.voxels() { s.push_str(&format!(" {} {} {}", x.coords.x, x.coords.y, b(x.is_on_surface))); }
                // the voxel-to-primitive map is private; it is read back through the public
                // `compute_primitive_intersections`, one grid row at a time, with query-time primitives that are
                // horizontal lines at a primitive-specific height inside the row: each (voxel, primitive) entry of the
                // map then yields one clipped segment whose x-range names the voxel and whose height names the primitive.
                let nprim = idx.len().max(1);
                {   // `assert!(!self.intersections.is_empty(), ..)`: an empty map is reported as `nomap`
                    let far = vec![d2::Point::new(1.0e300, 1.0e300); 2];
                    let qi: Vec<[u32; 2]> = vec![[0, 1]; nprim];
                    match std::panic::catch_unwind(std::panic::AssertUnwindSafe(|| vs.compute_primitive_intersections(&far, &qi))) {
                        Ok(_) => {}
                        Err(e) => {
                            let msg = if let Some(m) = e.downcast_ref::<&str>() { m.to_string() } else if let Some(m) = e.downcast_ref::<String>() { m.clone() } else { String::new() };
                            if msg.contains("voxel-to-primitives-map") { s.push_str(" nomap"); return s; }
                            panic!("{}", msg);
                        }
                    }
                }
                let sc = vs.scale; let o = vs.origin;
                let mut map: std::collections::HashMap<(u32, u32), Vec<usize>> = std::collections::HashMap::new();
                for j in 0..nj {
                    let mut qpts = Vec::with_capacity(2 * nprim); let mut qidx = Vec::with_capacity(nprim);
                    for p in 0..nprim {
                        let y = o.y + (j as f64 + (-0.45 + 0.9 * (p as f64 + 0.5) / nprim as f64)) * sc;
                        qpts.push(d2::Point::new(o.x - 2.0 * sc, y)); qpts.push(d2::Point::new(o.x + (ni as f64 + 2.0) * sc, y));
                        qidx.push([2 * p as u32, 2 * p as u32 + 1]);
                    }
                    let out = vs.compute_primitive_intersections(&qpts, &qidx);
                    for ab in out.chunks(2) {
                        let mx = 0.5 * (ab[0].x + ab[1].x);
                        let i = ((mx - o.x) / sc).round() as u32;
                        let t = (ab[0].y - o.y) / sc - j as f64;
                        let p = ((t + 0.45) / 0.9 * nprim as f64 - 0.5).round() as usize;
                        map.entry((i, j)).or_default().push(p);
                    }
                }
                s.push_str(" map");
                for x in vs.voxels() { if x.is_on_surface {
                    let l = map.get(&(x.coords.x, x.coords.y)).cloned().unwrap_or_default();
                    s.push_str(&format!(" {}", l.len()));
                    for p in l { s.push_str(&format!(" {}", p)); }
                } }
                s
            }
        }
        _ => "nofn".into(),
    }
}

/// closed simple polygons: rectangle, L, U (pocket opening towards a random side), star, comb
fn gen_poly2(r: &mut Rng, lat: bool) -> Vec<d2::Point<f64>> {
    let raw: Vec<(f64, f64)> = match r.below(5) {
        0 => vec![(0.0, 0.0), (4.0, 0.0), (4.0, 2.0), (0.0, 2.0)],
        1 => vec![(0.0, 0.0), (4.0, 0.0), (4.0, 1.0), (1.0, 1.0), (1.0, 4.0), (0.0, 4.0)],
        2 => { let h = *r.pick(&[3.0, 4.0, 6.0]); vec![(0.0, 0.0), (3.0, 0.0), (3.0, h), (2.0, h), (2.0, 1.0), (1.0, 1.0), (1.0, h), (0.0, h)] }
        3 => { let n = 5 + r.below(4) as usize; (0..2 * n).map(|k| { let a = std::f64::consts::PI * k as f64 / n as f64; let rad = if k % 2 == 0 { 3.0 } else { 1.2 }; (rad * a.cos(), rad * a.sin()) }).collect() }
        _ => { let teeth = 2 + r.below(3) as usize; let mut v = vec![(0.0, 0.0)]; let w = 1.0;
               v.push(((2 * teeth + 1) as f64 * w, 0.0)); let top = 3.0;
               for t in (0..=teeth).rev() { let x1 = (2 * t + 1) as f64 * w; let x0 = (2 * t) as f64 * w; v.push((x1, top)); v.push((x0, top)); if t > 0 { v.push((x0, 1.0)); v.push((x0 - w, 1.0)); } }
               v }
    };
    // orientation of the pocket: rotate by a multiple of 90 degrees (exact) or a generic angle
    let (c, s) = if lat { *r.pick(&[(1.0, 0.0), (0.0, 1.0), (-1.0, 0.0), (0.0, -1.0)]) } else { let a = r.uniform(0.0, 6.28); (a.cos(), a.sin()) };
    let sc = if lat { 1.0 } else { r.logu(0.2, 50.0) };
    let (tx, ty) = (r.coord(lat, 5.0), r.coord(lat, 5.0));
    raw.iter().map(|(x, y)| d2::Point::new((c * x - s * y) * sc + tx, (s * x + c * y) * sc + ty)).collect()
}

fn transform(m: &mut (Vec<P3>, Vec<[u32; 3]>), iso: &d3::Isometry<f64>, sc: &d3::Vector<f64>) {
    for p in m.0.iter_mut() { *p = iso * P3::from(p.coords.component_mul(sc)); }
}
fn concat(a: (Vec<P3>, Vec<[u32; 3]>), b: (Vec<P3>, Vec<[u32; 3]>)) -> (Vec<P3>, Vec<[u32; 3]>) {
    let n = a.0.len() as u32;
    let mut pts = a.0; pts.extend(b.0);
    let mut idx = a.1; idx.extend(b.1.iter().map(|t| [t[0] + n, t[1] + n, t[2] + n]));
    (pts, idx)
}
fn shifted(mut m: (Vec<P3>, Vec<[u32; 3]>), s: d3::Vector<f64>) -> (Vec<P3>, Vec<[u32; 3]>) {
    for p in m.0.iter_mut() { *p += s; }
    m
}

pub fn gen_mesh(r: &mut Rng, lat: bool) -> ((Vec<P3>, Vec<[u32; 3]>), bool) {
    // returns (mesh, convex?)
    let kind = r.below(5);
    let (mut m, convex) = match kind {
        0 => (Cuboid::new(d3::gen_he(r, true)).to_trimesh(), true),
        1 => { // L / T shape: two boxes
            let a = Cuboid::new(d3::Vector::new(2.0, 0.5, 0.5)).to_trimesh();
            let bx = shifted(Cuboid::new(d3::Vector::new(0.5, 2.0, 0.5)).to_trimesh(), d3::Vector::new(*r.pick(&[-1.5, 0.0, 1.5]), 1.5, 0.0));
            (concat(a, bx), false) }
        2 => (Ball::new(1.0).to_trimesh(6 + r.below(4) as u32, 6 + r.below(4) as u32), true),
        3 => (Cylinder::new(1.0, 0.5).to_trimesh(8 + r.below(5) as u32), true),
        _ => { // U shape: three boxes
            let base = Cuboid::new(d3::Vector::new(2.0, 0.4, 0.6)).to_trimesh();
            let l = shifted(Cuboid::new(d3::Vector::new(0.4, 1.2, 0.6)).to_trimesh(), d3::Vector::new(-1.6, 1.2, 0.0));
            let rr = shifted(Cuboid::new(d3::Vector::new(0.4, 1.2, 0.6)).to_trimesh(), d3::Vector::new(1.6, 1.2, 0.0));
            (concat(concat(base, l), rr), false) }
    };
    let iso = d3::gen_iso(r, lat, 5.0);
    let sc = if lat { d3::Vector::new(1.0, 1.0, 1.0) } else { d3::Vector::new(r.logu(0.5, 2.0), r.logu(0.5, 2.0), r.logu(0.5, 2.0)) };
    transform(&mut m, &iso, &sc);
    (m, convex)
}


/// exact AABB extents `maxs - mins`, computed as the real code does (component-wise min/max, one subtraction)
fn extents3(pts: &[P3]) -> [f64; 3] {
    let mut lo = [f64::INFINITY; 3]; let mut hi = [f64::NEG_INFINITY; 3];
    for p in pts { for c in 0..3 { lo[c] = lo[c].min(p[c]); hi[c] = hi[c].max(p[c]); } }
    [hi[0] - lo[0], hi[1] - lo[1], hi[2] - lo[2]]
}
/// orient every triangle of a convex closed mesh outwards (w.r.t. the vertex centroid)
fn orient_outward(m: &mut (Vec<P3>, Vec<[u32; 3]>)) {
    let mut c = d3::Vector::new(0.0, 0.0, 0.0);
    for p in &m.0 { c += p.coords; }
    let c = P3::from(c / m.0.len() as f64);
    for t in m.1.iter_mut() {
        let (a, b, cc) = (m.0[t[0] as usize], m.0[t[1] as usize], m.0[t[2] as usize]);
        if (b - a).cross(&(cc - a)).dot(&(c - a)) > 0.0 { t.swap(1, 2); }
    }
}

/// Meshes whose AABB extents tie EXACTLY.  `pattern`: 0 x==y>z, 1 x==z>y, 2 y==z>x, 3 x==y==z.
/// `thin`: 0 → the small extent is exactly 0 (flat sheet in a coordinate plane), otherwise the small extent is
/// `e / ratio` (thin plate: closed convex solids and tilted zero-thickness sheets).  The mesh is built in the unit
/// cube `[0,1]^3`, scaled by the extents and shifted by `mins`; the tie is verified on the final floats (the
/// extents the real code computes), falling back to `mins = 0` when a generic float shift would break it.
/// Returns (mesh, closed convex solid?).
pub fn gen_tie_mesh(r: &mut Rng, lat: bool, pattern: usize, thin: usize, res: u32) -> ((Vec<P3>, Vec<[u32; 3]>), bool) {
    // tied (large) extent: lattice values, dyadic "random" values k/1024, or a generic float (then mins = 0)
    let generic = !lat && r.below(3) == 0;
    let e: f64 = if lat { *r.pick(&[0.5, 1.0, 2.0, 3.0, 4.0]) } else if generic { r.logu(0.05, 50.0) } else { (11 + r.below(60000)) as f64 / 1024.0 };
    // keep res * ratio <= 64: a (wrong) grid that takes the small extent as reference stays below ~70k cells
    let ratio: f64 = if res <= 4 { *r.pick(&[2.0, 4.0, 8.0, 16.0]) } else if res <= 8 { *r.pick(&[2.0, 4.0, 8.0]) } else { *r.pick(&[2.0, 4.0]) };
    let t: f64 = if pattern == 3 { e } else if thin == 0 { 0.0 } else { e / ratio };
    let p = |x: f64, y: f64, z: f64| P3::new(x, y, z);
    // canonical unit-cube shape with extents (1, 1, 1) in (u, v, w); w is the thin axis
    let (mut m, solid): ((Vec<P3>, Vec<[u32; 3]>), bool) = if thin == 0 && pattern != 3 {
        match r.below(3) {
            0 => ((vec![p(0., 0., 0.), p(1., 0., 0.), p(1., 1., 0.), p(0., 1., 0.)], vec![[0, 1, 2], [0, 2, 3]]), false),
            1 => ((vec![p(0.5, 0., 0.), p(1., 0.5, 0.), p(0.5, 1., 0.), p(0., 0.5, 0.)], vec![[0, 1, 2], [0, 2, 3]]), false),
            _ => { // 2 x 2 grid sheet
                let mut pts = Vec::new(); let mut idx = Vec::new();
                for j in 0..3 { for i in 0..3 { pts.push(p(i as f64 * 0.5, j as f64 * 0.5, 0.)); } }
                for j in 0..2u32 { for i in 0..2u32 { let a = j * 3 + i; idx.push([a, a + 1, a + 4]); idx.push([a, a + 4, a + 3]); } }
                ((pts, idx), false) }
        }
    } else {
        match if thin == 0 { 3 } else { r.below(4) } {
            0 => { let mut b = Cuboid::new(d3::Vector::new(0.5, 0.5, 0.5)).to_trimesh();
                   for q in b.0.iter_mut() { *q = p(q.x + 0.5, q.y + 0.5, q.z + 0.5); }
                   (b, true) }
            1 => ((vec![p(1., 0.5, 0.5), p(0., 0.5, 0.5), p(0.5, 1., 0.5), p(0.5, 0., 0.5), p(0.5, 0.5, 1.), p(0.5, 0.5, 0.)],
                   vec![[0, 2, 4], [2, 1, 4], [1, 3, 4], [3, 0, 4], [2, 0, 5], [1, 2, 5], [3, 1, 5], [0, 3, 5]]), true),
            2 => ((vec![p(0., 0., 0.), p(1., 1., 0.), p(1., 0., 1.), p(0., 1., 1.)], vec![[0, 1, 2], [0, 3, 1], [0, 2, 3], [1, 3, 2]]), true),
            // tilted zero-thickness sheet: the plane w = u (extents 1 x 1 x 1 before scaling)
            _ => ((vec![p(0., 0., 0.), p(1., 0., 1.), p(1., 1., 1.), p(0., 1., 0.)], vec![[0, 1, 2], [0, 2, 3]]), false),
        }
    };
    let mins = if generic { [0.0; 3] } else if lat { [r.coord(true, 5.0), r.coord(true, 5.0), r.coord(true, 5.0)] }
               else { [r.range(-100000, 100000) as f64 / 1024.0, r.range(-100000, 100000) as f64 / 1024.0, r.range(-100000, 100000) as f64 / 1024.0] };
    let place = |m: &(Vec<P3>, Vec<[u32; 3]>), mins: [f64; 3]| -> (Vec<P3>, Vec<[u32; 3]>) {
        let pts = m.0.iter().map(|q| {
            let (u, v, w) = (q.x * e, q.y * e, q.z * t);
            match pattern { 1 => p(u + mins[0], w + mins[1], v + mins[2]), 2 => p(w + mins[0], u + mins[1], v + mins[2]), _ => p(u + mins[0], v + mins[1], w + mins[2]) }
        }).collect();
        (pts, m.1.clone())
    };
    let tied = |pts: &[P3]| { let d = extents3(pts); match pattern {
        0 => d[0] == d[1] && d[0] > d[2], 1 => d[0] == d[2] && d[0] > d[1], 2 => d[1] == d[2] && d[1] > d[0], _ => d[0] == d[1] && d[1] == d[2] } };
    let mut out = place(&m, mins);
    if !tied(&out.0) { out = place(&m, [0.0; 3]); }
    assert!(tied(&out.0), "tie generator broken");
    m = out;
    if solid { orient_outward(&mut m); }
    (m, solid)
}

/// 2-D closed polylines whose AABB extents tie exactly (square, diamond, octagon) or are flat (degenerate closed
/// polyline on a horizontal / vertical line)
fn gen_tie_poly2(r: &mut Rng, lat: bool) -> Vec<d2::Point<f64>> {
    let e: f64 = if lat { *r.pick(&[0.5, 1.0, 2.0, 3.0, 4.0]) } else { (11 + r.below(60000)) as f64 / 1024.0 };
    let raw: Vec<(f64, f64)> = match r.below(5) {
        0 => vec![(0., 0.), (1., 0.), (1., 1.), (0., 1.)],
        1 => vec![(0.5, 0.), (1., 0.5), (0.5, 1.), (0., 0.5)],
        2 => vec![(0.25, 0.), (0.75, 0.), (1., 0.25), (1., 0.75), (0.75, 1.), (0.25, 1.), (0., 0.75), (0., 0.25)],
        3 => vec![(0., 0.), (0.5, 0.), (1., 0.), (0.5, 0.)],
        _ => vec![(0., 0.), (0., 0.5), (0., 1.), (0., 0.5)],
    };
    let (tx, ty) = if lat { (r.coord(true, 5.0), r.coord(true, 5.0)) } else { (r.range(-100000, 100000) as f64 / 1024.0, r.range(-100000, 100000) as f64 / 1024.0) };
    raw.iter().map(|(x, y)| d2::Point::new(x * e + tx, y * e + ty)).collect()
}


// ---------------------------------------------------------------------------------------------------------------
// 3-D fill families: closed meshes with concavities opening toward each of the six faces of the bounding box
// (cups / bells / bowls with the rim flush with that face), tunnels, sealed cavities, nested closed shells.

/// `n` points of a ring at height `y`: for `n == 4` the exact corners `(±a, ±a)`, otherwise a regular n-gon of radius `a`
fn ring(n: usize, a: f64, y: f64) -> Vec<P3> {
    if n == 4 { vec![P3::new(a, y, a), P3::new(-a, y, a), P3::new(-a, y, -a), P3::new(a, y, -a)] }
    else { (0..n).map(|k| { let t = 2.0 * std::f64::consts::PI * k as f64 / n as f64; P3::new(a * t.cos(), y, a * t.sin()) }).collect() }
}
/// quads between two rings of `n` points starting at `r0`, `r1`
fn band(idx: &mut Vec<[u32; 3]>, n: u32, r0: u32, r1: u32) {
    for k in 0..n { let k1 = (k + 1) % n; idx.push([r0 + k, r0 + k1, r1 + k1]); idx.push([r0 + k, r1 + k1, r1 + k]); }
}
fn cap(idx: &mut Vec<[u32; 3]>, n: u32, r0: u32) { for k in 1..n - 1 { idx.push([r0, r0 + k, r0 + k + 1]); } }
/// A closed one-piece cup standing on its rim (canonical: opening toward −y, rim in the plane y = 0): outer wall from the
/// rim (radius `ro0`) up to the outer top (radius `ro1`, height `h`), inner wall from the rim (radius `ri0`) up to the
/// inner ceiling (radius `ri1`, height `hi < h`).  `ro1 < ro0`: bell, `ro1 > ro0`: flared bowl, equal: straight cup.
/// `through`: no ceiling — the inner wall goes up to the top face: a tunnel / pipe open at both ends.
fn cup(n: usize, ro0: f64, ro1: f64, ri0: f64, ri1: f64, h: f64, hi: f64, through: bool) -> (Vec<P3>, Vec<[u32; 3]>) {
    let mut pts = Vec::new(); let mut idx = Vec::new(); let nn = n as u32;
    pts.extend(ring(n, ro0, 0.0)); pts.extend(ring(n, ro1, h)); pts.extend(ring(n, ri0, 0.0));
    pts.extend(ring(n, ri1, if through { h } else { hi }));
    band(&mut idx, nn, 0, nn);          // outer wall
    band(&mut idx, nn, 2 * nn, 0);      // rim annulus
    band(&mut idx, nn, 3 * nn, 2 * nn); // inner wall
    if through { band(&mut idx, nn, nn, 3 * nn); } else { cap(&mut idx, nn, nn); cap(&mut idx, nn, 3 * nn); }
    (pts, idx)
}
/// exact signed coordinate permutation taking the canonical opening direction −y to face `dir` of the bounding box
/// (0: −x, 1: +x, 2: −y, 3: +y, 4: −z, 5: +z)
fn orient6(m: &mut (Vec<P3>, Vec<[u32; 3]>), dir: usize) {
    for p in m.0.iter_mut() {
        let (x, y, z) = (p.x, p.y, p.z);
        *p = match dir { 0 => P3::new(y, z, x), 1 => P3::new(-y, z, x), 2 => P3::new(x, y, z), 3 => P3::new(x, -y, z), 4 => P3::new(z, x, y), _ => P3::new(z, x, -y) };
    }
}
fn boxmesh(lo: [f64; 3], hi: [f64; 3]) -> (Vec<P3>, Vec<[u32; 3]>) {
    let he = d3::Vector::new((hi[0] - lo[0]) * 0.5, (hi[1] - lo[1]) * 0.5, (hi[2] - lo[2]) * 0.5);
    shifted(Cuboid::new(he).to_trimesh(), d3::Vector::new((hi[0] + lo[0]) * 0.5, (hi[1] + lo[1]) * 0.5, (hi[2] + lo[2]) * 0.5))
}

/// returns (family name, resolution, mesh)
pub fn gen_fill3(r: &mut Rng, lat: bool, it: usize) -> (&'static str, u32, (Vec<P3>, Vec<[u32; 3]>)) {
    let dir = it % 6;
    match (it / 6) % 6 {
        // cups, bells, bowls, pipes toward each of the six faces
        0 | 1 | 2 => {
            let n = if lat || r.bool() { 4 } else { *r.pick(&[5usize, 6, 8, 12]) };
            let through = r.below(5) == 0;
            if lat {
                // integer geometry, scale exactly 1: every face lies on a plane of voxel centres
                let a = *r.pick(&[3.0f64, 4.0, 5.0, 6.0]); let t = *r.pick(&[1.0f64, 2.0]);
                // half of the cups are longest along the opening axis: that axis is then the reference axis of the grid, which is
                // tight on BOTH ends, so the rim is flush with the grid face also for openings toward +x, +y, +z
                let h = if r.bool() { 2.0 * a + *r.pick(&[1.0f64, 2.0, 4.0]) } else { *r.pick(&[3.0f64, 4.0, 6.0, 9.0, 12.0]) };
                let hi = (h - t).max(1.0);
                let shape = r.below(3);
                let (ro1, ri1) = match shape { 0 => (a, a - t), 1 => (a - 1.0, a - t - 1.0), _ => (a + 1.0, a - t + 1.0) };
                let mut m = cup(4, a, ro1, a - t, ri1.max(1.0), h, hi, through);
                orient6(&mut m, dir);
                let sh = d3::Vector::new(r.range(-8, 8) as f64, r.range(-8, 8) as f64, r.range(-8, 8) as f64);
                let m = shifted(m, sh);
                let e = extents3(&m.0); let big = e[0].max(e[1]).max(e[2]);
                let res = if r.below(4) == 0 { *r.pick(&[6u32, 9, 14, 20]) } else { big as u32 + 1 };
                (if through { "pipe-lattice" } else { "cup-lattice" }, res, m)
            } else {
                let a = r.uniform(1.0, 3.0); let t = a * r.uniform(0.12, 0.35); let h = a * r.uniform(0.6, 3.0);
                let hi = h - t.min(0.5 * h);
                let f = *r.pick(&[1.0, 1.0, 0.7, 0.5, 1.3]);
                let mut m = cup(n, a, a * f, a - t, (a - t) * f, h, hi, through);
                orient6(&mut m, dir);
                if r.below(5) == 0 { let iso = d3::gen_iso(r, false, 5.0); transform(&mut m, &iso, &d3::Vector::new(1.0, 1.0, 1.0)); }
                else { let sh = d3::Vector::new(r.uniform(-5.0, 5.0), r.uniform(-5.0, 5.0), r.uniform(-5.0, 5.0)); m = shifted(m, sh); }
                (if through { "pipe" } else { "cup" }, *r.pick(&[8u32, 10, 12, 16, 20, 24]), m)
            }
        }
        // nested closed axis-aligned shells (solid ⊃ cavity ⊃ island ⊃ ..), optionally with small cubes at two opposite
        // corners of the bounding box (then no shell is flush with a face of the grid)
        3 | 4 => {
            let levels = 1 + r.below(4) as usize;                 // 1..4 shells
            let gap = if lat { 2.0f64 } else { r.uniform(1.6, 2.6) };
            let pad = r.below(4) != 0;
            let core = [r.range(2, 5) as f64, r.range(2, 5) as f64, r.range(2, 5) as f64];
            let off = if pad { 3.0 } else { 0.0 };
            let mut lo = [off; 3]; let mut hi = [0.0; 3];
            for c in 0..3 { hi[c] = off + core[c] + 2.0 * gap * (levels as f64 - 1.0); }
            let total: Vec<f64> = (0..3).map(|c| hi[c] + off).collect();
            let mut m = boxmesh(lo, hi);
            for _ in 1..levels { for c in 0..3 { lo[c] += gap; hi[c] -= gap; } m = concat(m, boxmesh(lo, hi)); }
            if pad {
                m = concat(m, boxmesh([0.0; 3], [1.0; 3]));
                m = concat(m, boxmesh([total[0] - 1.0, total[1] - 1.0, total[2] - 1.0], [total[0], total[1], total[2]]));
            }
            let big = total[0].max(total[1]).max(total[2]);
            let (res, m) = if lat { (big as u32 + 1, shifted(m, d3::Vector::new(r.range(-8, 8) as f64, r.range(-8, 8) as f64, r.range(-8, 8) as f64))) }
                else { let s = r.logu(0.2, 5.0); let mut m = m; transform(&mut m, &d3::Isometry::translation(r.uniform(-5.0, 5.0), r.uniform(-5.0, 5.0), r.uniform(-5.0, 5.0)), &d3::Vector::new(s, s, s));
                       (((big * r.uniform(0.9, 1.6)) as u32 + 1).min(28), m) };
            (if pad { "nested-padded" } else { "nested-flush" }, res, m)
        }
        // a cup inside a sealed cavity of a solid block / a cup with a small closed solid standing in its opening
        _ => {
            let a = 4.0; let t = 1.0; let h = *r.pick(&[4.0f64, 6.0]);
            let mut m = cup(4, a, a, a - t, a - t, h, h - t, false);
            if r.bool() { m = concat(m, boxmesh([-1.0, 0.0, -1.0], [1.0, (h - t - 1.0).max(1.0) - if r.bool() { 0.0 } else { 1.0 }, 1.0])); }
            orient6(&mut m, dir);
            let mut m = if r.bool() { let e = 3.0 + a.max(h); concat(m, boxmesh([-e, -e, -e], [e, e, e])) } else { m };
            let e = extents3(&m.0); let big = e[0].max(e[1]).max(e[2]);
            let res = if lat { big as u32 + 1 } else { *r.pick(&[10u32, 14, 18]) };
            if !lat { let s = r.logu(0.2, 5.0); transform(&mut m, &d3::Isometry::translation(r.uniform(-5.0, 5.0), r.uniform(-5.0, 5.0), r.uniform(-5.0, 5.0)), &d3::Vector::new(s, s, s)); }
            ("cup-composite", res, m)
        }
    }
}

/// boxes and triangles for the 3-D cell predicate: unit cells and generic boxes; triangles through corners / along edges /
/// in face planes, degenerate (point, segment), tiny, grazing a corner or an edge, large ones cutting through, far away
fn gen_box_tri(r: &mut Rng, lat: bool) -> ([f64; 3], [f64; 3], [[f64; 3]; 3]) {
    let (c, h): ([f64; 3], [f64; 3]) = if r.bool() { ([r.range(0, 6) as f64, r.range(0, 6) as f64, r.range(0, 6) as f64], [0.5; 3]) }
        else if lat { ([r.lattice(16, 2), r.lattice(16, 2), r.lattice(16, 2)], [*r.pick(&[0.25, 0.5, 1.0, 1.5]), *r.pick(&[0.25, 0.5, 1.0, 2.0]), *r.pick(&[0.5, 1.0])]) }
        else { ([r.uniform(-5.0, 5.0), r.uniform(-5.0, 5.0), r.uniform(-5.0, 5.0)], [r.logu(0.01, 10.0), r.logu(0.01, 10.0), r.logu(0.01, 10.0)]) };
    let mn = [c[0] - h[0], c[1] - h[1], c[2] - h[2]]; let mx = [c[0] + h[0], c[1] + h[1], c[2] + h[2]];
    let corner = |r: &mut Rng| [if r.bool() { mn[0] } else { mx[0] }, if r.bool() { mn[1] } else { mx[1] }, if r.bool() { mn[2] } else { mx[2] }];
    let rnd = |r: &mut Rng| if lat { [c[0] + r.lattice(12, 2), c[1] + r.lattice(12, 2), c[2] + r.lattice(12, 2)] }
        else { [c[0] + r.uniform(-3.0, 3.0) * h[0], c[1] + r.uniform(-3.0, 3.0) * h[1], c[2] + r.uniform(-3.0, 3.0) * h[2]] };
    let dirv = |r: &mut Rng| if lat { [*r.pick(&[1.0, -1.0, 0.5, 2.0, 0.0]), *r.pick(&[1.0, -1.0, 0.5, -2.0, 0.0]), *r.pick(&[1.0, -1.0, 0.0, 3.0])] }
        else { [r.uniform(-1.0, 1.0), r.uniform(-1.0, 1.0), r.uniform(-1.0, 1.0)] };
    let add = |p: [f64; 3], d: [f64; 3], t: f64| [p[0] + t * d[0], p[1] + t * d[1], p[2] + t * d[2]];
    let tri = match r.below(10) {
        0 | 1 => [rnd(r), rnd(r), rnd(r)],
        2 => { let p = corner(r); let d = dirv(r); let e = dirv(r); [p, add(p, d, 1.0), add(p, e, 1.0)] }       // a vertex on a corner
        3 => { let p = corner(r); let d = dirv(r); let e = dirv(r); let m = add(add(p, d, -1.0), e, -0.5); [m, add(p, d, 2.0), add(p, e, 2.0)] } // corner inside / on the triangle
        4 => { let p = rnd(r); match r.below(3) { 0 => [p, p, p], 1 => { let q = rnd(r); [p, q, q] } _ => { let q = rnd(r); [p, add(p, [q[0] - p[0], q[1] - p[1], q[2] - p[2]], 0.5), q] } } } // degenerate
        5 => { let p = corner(r); let e = *r.pick(&[1e-16, 5e-17, 2e-16, 1e-15, 1e-12]); [p, add(p, dirv(r), e), add(p, dirv(r), e)] }                       // tiny at a corner
        6 => { let ax = r.below(3) as usize; let v = *r.pick(&[mn[ax], mx[ax], c[ax], mn[ax] - h[ax], mx[ax] + 0.25 * h[ax]]);                      // in a plane parallel to a face
               let mut t = [rnd(r), rnd(r), rnd(r)]; for q in t.iter_mut() { q[ax] = v; } t }
        7 => { let p = corner(r); let d = dirv(r); let e = dirv(r); let n = [d[1] * e[2] - d[2] * e[1], d[2] * e[0] - d[0] * e[2], d[0] * e[1] - d[1] * e[0]];
               let s = r.uniform(-1e-9, 1e-9); let p = add(p, n, s);                                                                               // plane grazing a corner
               [add(add(p, d, -2.0), e, -1.0), add(p, d, 3.0), add(p, e, 3.0)] }
        8 => { let s = 20.0; let d = dirv(r); let e = dirv(r); let p = rnd(r); [add(add(p, d, -s), e, -s), add(p, d, s), add(p, e, s)] }               // large triangle through / past the box
        _ => [corner(r), rnd(r), rnd(r)],
    };
    (mn, mx, tri)
}

pub fn gen(r: &mut Rng, thorough: bool) -> Vec<(String, String)> {
    let n = if thorough { 240 } else { 60 };
    let mut v = Vec::new();
    for it in 0..n {
        let lat = it % 2 == 0;
        let (m, convex) = gen_mesh(r, lat);
        let res = *r.pick(if thorough { &[4u32, 8, 12, 16, 24, 32][..] } else { &[4u32, 8, 10, 12, 16][..] });
        let fm = r.below(3);
        let maxh = *r.pick(&[1u32, 2, 3, 4, 5, 8, 16]);
        let conc = *r.pick(&[0.0005, 0.01, 0.05, 0.2]);
        let pds = *r.pick(&[1u32, 2, 4]); let hds = *r.pick(&[1u32, 2, 4]);
        let ms = hmesh(&m);
        v.push(("acd3".into(), format!("{} {} {} {} {} {} {}", maxh, res, fm, hx(conc), pds, hds, ms)));
        v.push(("parts3".into(), format!("{} {} {} {} {} {} {}", maxh, res, fm, hx(conc), pds, hds, ms)));
        if it % 2 == 1 { v.push(("hullsample3".into(), format!("{} {} {} {}", res.min(12), fm, [1u32, 2, 3, 5, 0, 64][(it / 2) % 6], ms))); }
        if it % 3 == 0 { v.push(("hulls3".into(), format!("{} {} {} {} {} {} {}", maxh, res.min(12), fm, hx(conc), pds, hds, ms))); }
        // voxelize3: the last flag tells the oracle whether the mesh is convex (fill check applies)
        v.push(("voxelize3".into(), format!("{} {} {} {}", res, fm, ms, if convex { "1" } else { "0" })));
        for _ in 0..2 {
            let poly = gen_poly2(r, lat);
            let n = poly.len();
            let res2 = *r.pick(&[8u32, 16, 21, 32, 50]);
            v.push(("voxelize2".into(), format!("{} {} {} {} {} {}", res2, r.below(3), n, poly.iter().map(d2::hp).collect::<Vec<_>>().join(" "), n,
                (0..n).map(|i| format!("{} {}", i, (i + 1) % n)).collect::<Vec<_>>().join(" "))));
        }
        // exactly tied AABB extents (the choice of the reference extent): flat sheets, thin plates, cubes; every
        // pattern x {flat, thin, thin} x fill mode x {lattice, random} comes round within 36 iterations
        for rep in 0..2 {
            let j = it / 2; // `it % 2` selects lattice / random: keep it independent of pattern, thinness and fill mode
            let pattern = (2 * j + rep) % 4; let thin = (j / 2) % 3; let fm = (j / 6) % 3;
            let res = *r.pick(&[4u32, 5, 8, 10, 16]);
            let (m, solid) = gen_tie_mesh(r, lat, pattern, thin, res);
            let ms = hmesh(&m);
            v.push(("voxelize3".into(), format!("{} {} {} {}", res, fm, ms, if solid { "1" } else { "0" })));
            if it % 5 == 0 && rep == (it / 5) % 2 {
                let maxh = *r.pick(&[1u32, 2, 4, 8]);
                v.push(("acd3".into(), format!("{} {} {} {} {} {} {}", maxh, res, fm, hx(0.01), 2, 2, ms)));
            }
            if it % 11 == 1 && rep == (it / 11) % 2 {
                v.push(("hulls3".into(), format!("{} {} {} {} {} {} {}", 2, res.min(10), fm, hx(0.05), 2, 2, ms)));
            }
        }
        {
            let poly = gen_tie_poly2(r, lat);
            let n = poly.len();
            let res2 = *r.pick(&[4u32, 5, 8, 16, 21, 32]);
            v.push(("voxelize2".into(), format!("{} {} {} {} {} {}", res2, it % 3, n, poly.iter().map(d2::hp).collect::<Vec<_>>().join(" "), n,
                (0..n).map(|i| format!("{} {}", i, (i + 1) % n)).collect::<Vec<_>>().join(" "))));
        }
    }
    // ---- 3-D grid parameters + fill pass (ModelFill3.lean) ----
    let nf = if thorough { 720 } else { 144 };
    let mut fam: std::collections::BTreeMap<String, usize> = std::collections::BTreeMap::new();
    for it in 0..nf {
        let lat = (it / 36) % 2 == 0;
        let (name, res, m) = gen_fill3(r, lat, it);
        let fm = match name { "nested-padded" | "nested-flush" => [2, 1, 2, 0][(it / 72 + it) % 4], _ => [1, 1, 2, 1, 0, 1][(it / 6 + it / 36) % 6] };
        *fam.entry(format!("{}/fm{}", name, fm)).or_default() += 1;
        let args = format!("{} {} {}", res, fm, hmesh(&m));
        v.push(("fill3".into(), args.clone()));
        if it % 2 == 0 { v.push(("fillset3".into(), args)); }
        // the same shapes through the whole VHACD pipeline (plain flood fill is what `decompose` uses by default)
        if it % 8 == 3 && res <= 16 {
            v.push(("acd3".into(), format!("{} {} {} {} {} {} {}", 4, res, 1, hx(0.01), 2, 2, hmesh(&m))));
            v.push(("parts3".into(), format!("{} {} {} {} {} {} {}", *r.pick(&[2u32, 4, 8]), res, 1, hx(0.01), *r.pick(&[1u32, 2, 4]), 2, hmesh(&m))));
        }
    }
    if std::env::var("VERIF_FAMILIES").is_ok() { eprintln!("C18 fill3 families: {:?}", fam); }
    // ---- 3-D voxelizer model (ModelVox3.lean): the triangle/box predicate and whole grids ----
    let nb3 = if thorough { 6000 } else { 1200 };
    for it in 0..nb3 {
        let (mn, mx, t) = gen_box_tri(r, it % 2 == 0);
        let h3 = |p: &[f64; 3]| format!("{} {} {}", hx(p[0]), hx(p[1]), hx(p[2]));
        v.push(("tribox3".into(), format!("{} {} {} {} {}", h3(&mn), h3(&mx), h3(&t[0]), h3(&t[1]), h3(&t[2]))));
    }
    let nv3 = if thorough { 300 } else { 40 };
    for it in 0..nv3 {
        let lat = it % 2 == 0;
        let (res, m) = match it % 5 {
            0 | 1 => { let (m, _) = gen_mesh(r, lat); (*r.pick(&[4u32, 6, 8, 10]), m) }
            2 => { let (m, _) = gen_tie_mesh(r, lat, (it / 5) % 4, (it / 20) % 3, 8); (*r.pick(&[4u32, 5, 8]), m) }
            _ => { let (_, res, m) = gen_fill3(r, lat, it + it / 5); (res.min(12), m) }
        };
        v.push(("vox3grid".into(), format!("{} {} {}", res, [1, 2, 0, 1][(it / 5) % 4], hmesh(&m))));
    }
    // ---- 2-D voxelizer model (ModelVox.lean) ----
    let nb = if thorough { 6000 } else { 1200 };
    for it in 0..nb {
        let lat = it % 2 == 0;
        let (m0, m1, x0, x1, ax, ay, bx, by) = gen_box_seg(r, lat);
        v.push(("segbox2".into(), format!("{} {} {} {} {} {} {} {}", hx(m0), hx(m1), hx(x0), hx(x1), hx(ax), hx(ay), hx(bx), hx(by))));
        if it % 2 == 0 {
            v.push(("clipline2".into(), format!("{} {} {} {} {} {} {} {}", hx(m0), hx(m1), hx(x0), hx(x1), hx(ax), hx(ay), hx(bx - ax), hx(by - ay))));
        }
    }
    let nv = if thorough { 900 } else { 150 };
    for it in 0..nv {
        let lat = it % 2 == 0;
        let (p, e) = gen_polyline2(r, lat);
        let res = *r.pick(if thorough { &[2u32, 3, 4, 5, 8, 13, 16, 21, 32, 50, 70, 100, 128][..] } else { &[2u32, 3, 4, 5, 8, 13, 16, 21, 32, 50, 70][..] });
        let fm = it % 5; let keep = r.bool();
        let args = format!("{} {} {} {} {} {} {}", res, fm, b(keep), p.len(), p.iter().map(d2::hp).collect::<Vec<_>>().join(" "), e.len(),
            e.iter().map(|x| format!("{} {}", x[0], x[1])).collect::<Vec<_>>().join(" "));
        v.push(("vox2grid".into(), args.clone()));
        v.push(("vox2set".into(), args));
    }
    // ---- 3-D voxel-to-primitive map (ModelMap3.lean): VoxelSet::voxelize(.., keep_voxel_to_primitives_map = true) ----
    let nm3 = if thorough { 360 } else { 36 };
    let mut famm: std::collections::BTreeMap<String, usize> = std::collections::BTreeMap::new();
    for it in 0..nm3 {
        let lat = it % 2 == 0;
        let (name, res, m) = match it % 6 {
            0 => { let (m, _) = gen_mesh(r, lat); ("mesh", *r.pick(&[4u32, 6, 8]), m) }
            1 => { let (m, _) = gen_tie_mesh(r, lat, (it / 6) % 4, (it / 24) % 3, 8); ("tie", *r.pick(&[4u32, 5, 8]), m) }
            2 => { let (_, res, m) = gen_fill3(r, lat, it + it / 6); ("fill3", res.min(if thorough { 10 } else { 8 }), m) }
            3 => ("fan", *r.pick(if thorough { &[4u32, 5, 8, 12][..] } else { &[4u32, 5, 8][..] }), gen_fan3(r, lat)),
            _ => ("soup", *r.pick(if thorough { &[4u32, 5, 8, 12, 16][..] } else { &[4u32, 5, 6, 8][..] }), gen_soup3(r, lat)),
        };
        let fm = [1, 0, 2, 1][(it / 6) % 4];
        *famm.entry(format!("{}/fm{}", name, fm)).or_default() += 1;
        v.push(("vox3map".into(), format!("{} {} {}", res, fm, hmesh(&m))));
    }
    if std::env::var("VERIF_FAMILIES").is_ok() { eprintln!("C18 vox3map families: {:?}", famm); }
    // ---- 2-D VHACD (parry2d-f64): decomposition replay + hulls of the parts ----
    let na2 = if thorough { 480 } else { 96 };
    for it in 0..na2 {
        let lat = it % 2 == 0;
        // every 4th case: a thick shape that needs crossing cuts (star / oblique cross), at the extreme sizes of the domain
        // (voxel size >> 1 and << 1 world unit), flood-filled, with enough hulls allowed for two levels of cuts at least
        let thick = it % 4 == 3;
        let poly = if thick { gen_thick_poly2(r, lat) } else if it % 3 == 2 { gen_tie_poly2(r, lat) } else { gen_poly2(r, lat) };
        let n = poly.len();
        let res = if thick { *r.pick(&[16u32, 21, 32]) } else { *r.pick(if thorough { &[8u32, 16, 21, 32, 50, 64][..] } else { &[8u32, 16, 21, 32][..] }) };
        let fm = if thick { 1 } else { [1, 1, 0, 3, 1, 2][(it / 2) % 6] };
        let maxh = if thick { *r.pick(&[4u32, 6, 8, 16]) } else { *r.pick(&[1u32, 2, 3, 4, 5, 6, 8, 16]) };
        let conc = if thick { *r.pick(&[0.0005, 0.005]) } else { *r.pick(&[0.0005, 0.005, 0.05, 0.2]) };
        let pds = *r.pick(&[1u32, 2, 4]); let hds = *r.pick(&[1u32, 2, 4]);
        let args = format!("{} {} {} {} {} {} {} {} {} {}", maxh, res, fm, hx(conc), pds, hds, n, poly.iter().map(d2::hp).collect::<Vec<_>>().join(" "), n,
            (0..n).map(|i| format!("{} {}", i, (i + 1) % n)).collect::<Vec<_>>().join(" "));
        v.push(("acd2".into(), args.clone()));
        if it % 2 == 0 || thick { v.push(("hulls2".into(), args)); }
    }
    v
}

/// triangle soups for the voxel-to-primitive map: shared vertices, triangles listed twice or with another winding,
/// degenerate triangles (repeated indices, collinear points), unused points; lattice = coordinates on a coarse grid so that
/// faces and edges lie on planes between voxel layers
fn gen_soup3(r: &mut Rng, lat: bool) -> (Vec<P3>, Vec<[u32; 3]>) {
    let n = 4 + r.below(7) as usize;
    let mut p: Vec<P3> = (0..n).map(|_| if lat { P3::new(r.range(0, 6) as f64 * 0.5, r.range(0, 6) as f64 * 0.5, r.range(0, 6) as f64 * 0.5) }
        else { P3::new(r.uniform(-3.0, 3.0), r.uniform(-3.0, 3.0), r.uniform(-3.0, 3.0)) }).collect();
    // make sure the cloud is not flat (a positive extent on every axis)
    p.push(P3::new(p[0].x + 1.0, p[0].y + 1.5, p[0].z + 2.0));
    let n = p.len() as u64;
    let m = 2 + r.below(9) as usize;
    let mut t: Vec<[u32; 3]> = Vec::new();
    for _ in 0..m {
        match r.below(8) {
            0 if !t.is_empty() => { let x = *r.pick(&t); t.push(x); }                          // listed twice
            1 if !t.is_empty() => { let x = *r.pick(&t); t.push([x[0], x[2], x[1]]); }         // other winding
            2 => { let a = r.below(n) as u32; let b = r.below(n) as u32; t.push([a, b, a]); }   // degenerate: a segment
            3 => { let a = r.below(n) as u32; t.push([a, a, a]); }                               // degenerate: a point
            _ => t.push([r.below(n) as u32, r.below(n) as u32, r.below(n) as u32]),
        }
    }
    (p, t)
}

/// thick closed polygons whose decomposition needs cuts that cross inside the shape: stars with a thick core and crosses
/// ("+") turned by an oblique angle; the largest extent is one of the extreme sizes of the domain D (0.02 .. 100 world units),
/// so that the voxel size is far from 1 in both directions; position anywhere within 1e3
fn gen_thick_poly2(r: &mut Rng, lat: bool) -> Vec<d2::Point<f64>> {
    let raw: Vec<(f64, f64)> = if r.bool() {
        let n = 4 + r.below(5) as usize; let inner = r.uniform(0.4, 0.6);
        (0..2 * n).map(|k| { let a = std::f64::consts::PI * k as f64 / n as f64; let rad = if k % 2 == 0 { 1.0 } else { inner }; (rad * a.cos(), rad * a.sin()) }).collect()
    } else {
        let w = r.uniform(0.2, 0.45);
        vec![(w, w), (1.0, w), (1.0, -w), (w, -w), (w, -1.0), (-w, -1.0), (-w, -w), (-1.0, -w), (-1.0, w), (-w, w), (-w, 1.0), (w, 1.0)].into_iter().rev().collect()
    };
    let (c, s) = if lat { *r.pick(&[(0.6, 0.8), (0.8, 0.6), (0.28, 0.96), (1.0, 0.0)]) } else { let a = r.uniform(0.0, 6.28); (a.cos(), a.sin()) };
    let half = 0.5 * *r.pick(&[0.02, 0.05, 1.0, 40.0, 70.0, 100.0]);
    let (tx, ty) = if lat { (r.range(-500, 500) as f64, r.range(-500, 500) as f64) } else { (r.uniform(-900.0, 900.0), r.uniform(-900.0, 900.0)) };
    raw.iter().map(|(x, y)| d2::Point::new((c * x - s * y) * half + tx, (s * x + c * y) * half + ty)).collect()
}

/// many triangles through one voxel: a fan of 5..16 triangles around a common apex (each voxel near the apex is met by
/// all of them, voxels farther out by one or two), optionally closed by a base polygon
fn gen_fan3(r: &mut Rng, lat: bool) -> (Vec<P3>, Vec<[u32; 3]>) {
    let n = 5 + r.below(12) as usize;
    let (h, rad) = if lat { (*r.pick(&[1.0, 2.0, 3.5]), *r.pick(&[1.0, 2.0, 4.0])) } else { (r.uniform(0.3, 4.0), r.uniform(0.5, 4.0)) };
    let axis = r.below(3);
    let place = |x: f64, y: f64, z: f64| match axis { 0 => P3::new(z, x, y), 1 => P3::new(y, z, x), _ => P3::new(x, y, z) };
    let mut p = vec![place(0.0, 0.0, h)];
    for i in 0..n {
        let (c, s) = if lat { let q = [(1.0, 0.0), (1.0, 1.0), (0.0, 1.0), (-1.0, 1.0), (-1.0, 0.0), (-1.0, -1.0), (0.0, -1.0), (1.0, -1.0)][(i * 8 / n) % 8];
                              let w = 1.0 + (i % 2) as f64 * 0.5; (q.0 * w, q.1 * w) }
            else { let a = 2.0 * std::f64::consts::PI * i as f64 / n as f64; (a.cos(), a.sin()) };
        p.push(place(rad * c, rad * s, 0.0));
    }
    let mut t: Vec<[u32; 3]> = (0..n as u32).map(|i| [0, 1 + i, 1 + (i + 1) % n as u32]).collect();
    if r.bool() { for i in 1..n as u32 - 1 { t.push([1, 1 + i + 1, 1 + i]); } }
    (p, t)
}
