//! C04: ray casts (closed forms bit-exact; support-map shapes oracle-only).
//! Output grammar: `none` | `some <toi>` (toi-only forms) | `some <toi> <n…> <feature>` (normal forms).
use crate::util::*;
use crate::p3::bounding_volume::{Aabb, BoundingSphere};
use crate::p3::query::{Ray, RayCast, RayIntersection};
use crate::p3::shape::{Ball, Capsule, Cone, Cuboid, Cylinder, FeatureId, HalfSpace, Triangle};
use crate::p3::na::{Unit, Vector3};
use crate::p2::query::{Ray as Ray2, RayCast as RayCast2};
use crate::p3::bounding_volume::SimdAabb;
use crate::p3::math::SimdReal;
use crate::p3::query::SimdRay;
use crate::p3::simba::simd::SimdValue;
use crate::p3::shape::{Compound, HeightField, HeightFieldCellStatus, SharedShape, TriMesh};
use crate::p3::na::DMatrix;

type P3 = d3::Point<f64>;
type V3 = d3::Vector<f64>;
type P2 = d2::Point<f64>;
type V2 = d2::Vector<f64>;

fn feat(f: FeatureId) -> String {
    match f {
        FeatureId::Vertex(i) => format!("v{}", i),
        FeatureId::Edge(i) => format!("e{}", i),
        FeatureId::Face(i) => format!("f{}", i),
        FeatureId::Unknown => "u".into(),
    }
}
fn feat2(f: crate::p2::shape::FeatureId) -> String {
    use crate::p2::shape::FeatureId as F;
    match f { F::Vertex(i) => format!("v{}", i), F::Face(i) => format!("f{}", i), F::Unknown => "u".into() }
}
fn otoi(x: Option<f64>) -> String { match x { None => "none".into(), Some(t) => format!("some {}", ff(t)) } }
fn ointer(x: Option<RayIntersection>) -> String {
    match x { None => "none".into(), Some(i) => format!("some {} {} {}", ff(i.time_of_impact), d3::fv(&i.normal), feat(i.feature)) }
}
fn ointer2(x: Option<crate::p2::query::RayIntersection>) -> String {
    match x { None => "none".into(), Some(i) => format!("some {} {} {}", ff(i.time_of_impact), d2::fv(&i.normal), feat2(i.feature)) }
}
/// ray tail: o(3) d(3) max solid
fn ray_tail(a: &mut Args) -> (Ray, f64, bool) { let o = d3::p(a); let d = d3::v(a); let m = a.f(); let s = a.b(); (Ray::new(o, d), m, s) }
fn ray_tail2(a: &mut Args) -> (Ray2, f64, bool) { let o = d2::p(a); let d = d2::v(a); let m = a.f(); let s = a.b(); (Ray2::new(o, d), m, s) }
fn halfspace(n: V3) -> HalfSpace { HalfSpace::new(Unit::new_unchecked(n)) }

pub fn exec(func: &str, a: &mut Args) -> String {
    match func {
        "ball_toi" => { let r = a.f(); let (ray, m, s) = ray_tail(a); otoi(Ball::new(r).cast_local_ray(&ray, m, s)) }
        "ball_normal" => { let r = a.f(); let (ray, m, s) = ray_tail(a); ointer(Ball::new(r).cast_local_ray_and_get_normal(&ray, m, s)) }
        "ball_posed" => { let r = a.f(); let iso = d3::iso(a); let (ray, m, s) = ray_tail(a); ointer(Ball::new(r).cast_ray_and_get_normal(&iso, &ray, m, s)) }
        "ray_toi_with_ball" => { let c = d3::p(a); let r = a.f(); let (ray, _m, s) = ray_tail(a);
            let (inside, t) = crate::p3::query::details::ray_toi_with_ball(&c, r, &ray, s); format!("{} {}", b(inside), otoi(t)) }
        "bsphere_normal" => { let c = d3::p(a); let r = a.f(); let (ray, m, s) = ray_tail(a); ointer(BoundingSphere::new(c, r).cast_local_ray_and_get_normal(&ray, m, s)) }
        "aabb_toi" => { let mins = d3::p(a); let maxs = d3::p(a); let (ray, m, s) = ray_tail(a); otoi(Aabb::new(mins, maxs).cast_local_ray(&ray, m, s)) }
        "aabb_normal" => { let mins = d3::p(a); let maxs = d3::p(a); let (ray, m, s) = ray_tail(a); ointer(Aabb::new(mins, maxs).cast_local_ray_and_get_normal(&ray, m, s)) }
        "clip_aabb_line" => { let mins = d3::p(a); let maxs = d3::p(a); let o = d3::p(a); let d = d3::v(a);
            match crate::p3::query::details::clip_aabb_line(&Aabb::new(mins, maxs), &o, &d) {
                None => "none".into(),
                Some((n, f)) => format!("some {} {} {} {} {} {}", ff(n.0), d3::fv(&n.1), n.2, ff(f.0), d3::fv(&f.1), f.2) } }
        "cuboid_toi" => { let he = d3::v(a); let (ray, m, s) = ray_tail(a); otoi(Cuboid::new(he).cast_local_ray(&ray, m, s)) }
        "cuboid_normal" => { let he = d3::v(a); let (ray, m, s) = ray_tail(a); ointer(Cuboid::new(he).cast_local_ray_and_get_normal(&ray, m, s)) }
        "cuboid_posed" => { let he = d3::v(a); let iso = d3::iso(a); let (ray, m, s) = ray_tail(a); ointer(Cuboid::new(he).cast_ray_and_get_normal(&iso, &ray, m, s)) }
        "cuboid_posed_toi" => { let he = d3::v(a); let iso = d3::iso(a); let (ray, m, s) = ray_tail(a); otoi(Cuboid::new(he).cast_ray(&iso, &ray, m, s)) }
        "halfspace_normal" => { let n = d3::v(a); let (ray, m, s) = ray_tail(a); ointer(halfspace(n).cast_local_ray_and_get_normal(&ray, m, s)) }
        "halfspace_posed" => { let n = d3::v(a); let iso = d3::iso(a); let (ray, m, s) = ray_tail(a); ointer(halfspace(n).cast_ray_and_get_normal(&iso, &ray, m, s)) }
        // boolean forms of the trait (default `intersects_local_ray` / `intersects_ray`, BoundingSphere's override); the
        // `solid` token of the common ray tail is parsed and ignored
        "ball_intersects" => { let r = a.f(); let (ray, m, _s) = ray_tail(a); b(Ball::new(r).intersects_local_ray(&ray, m)).to_string() }
        "ball_intersects_posed" => { let r = a.f(); let iso = d3::iso(a); let (ray, m, _s) = ray_tail(a); b(Ball::new(r).intersects_ray(&iso, &ray, m)).to_string() }
        "bsphere_intersects" => { let c = d3::p(a); let r = a.f(); let (ray, m, _s) = ray_tail(a); b(BoundingSphere::new(c, r).intersects_local_ray(&ray, m)).to_string() }
        "aabb_intersects" => { let mins = d3::p(a); let maxs = d3::p(a); let (ray, m, _s) = ray_tail(a); b(Aabb::new(mins, maxs).intersects_local_ray(&ray, m)).to_string() }
        "cuboid_intersects" => { let he = d3::v(a); let (ray, m, _s) = ray_tail(a); b(Cuboid::new(he).intersects_local_ray(&ray, m)).to_string() }
        "cuboid_intersects_posed" => { let he = d3::v(a); let iso = d3::iso(a); let (ray, m, _s) = ray_tail(a); b(Cuboid::new(he).intersects_ray(&iso, &ray, m)).to_string() }
        "halfspace_intersects" => { let n = d3::v(a); let (ray, m, _s) = ray_tail(a); b(halfspace(n).intersects_local_ray(&ray, m)).to_string() }
        "halfspace_intersects_posed" => { let n = d3::v(a); let iso = d3::iso(a); let (ray, m, _s) = ray_tail(a); b(halfspace(n).intersects_ray(&iso, &ray, m)).to_string() }
        "triangle_normal" => { let p = d3::p(a); let q = d3::p(a); let r = d3::p(a); let (ray, m, s) = ray_tail(a);
            ointer(Triangle::new(p, q, r).cast_local_ray_and_get_normal(&ray, m, s)) }
        "triangle_inter" => { let p = d3::p(a); let q = d3::p(a); let r = d3::p(a); let o = d3::p(a); let d = d3::v(a);
            match crate::p3::query::details::local_ray_intersection_with_triangle(&p, &q, &r, &Ray::new(o, d)) {
                None => "none".into(),
                Some((i, bary)) => { let bv: Vector3<f64> = bary; format!("{} {}", ointer(Some(i)), ffs(bv.iter())) } } }
        "segment2_normal" => { let p = d2::p(a); let q = d2::p(a); let (ray, m, s) = ray_tail2(a);
            ointer2(crate::p2::shape::Segment::new(p, q).cast_local_ray_and_get_normal(&ray, m, s)) }
        "segment2_posed" => { let p = d2::p(a); let q = d2::p(a); let iso = d2::iso(a); let (ray, m, s) = ray_tail2(a);
            ointer2(crate::p2::shape::Segment::new(p, q).cast_ray_and_get_normal(&iso, &ray, m, s)) }
        // support-map (GJK) shapes: oracle only
        "capsule_normal" => { let p = d3::p(a); let q = d3::p(a); let r = a.f(); let (ray, m, s) = ray_tail(a);
            ointer(Capsule::new(p, q, r).cast_local_ray_and_get_normal(&ray, m, s)) }
        "cylinder_normal" => { let hh = a.f(); let r = a.f(); let (ray, m, s) = ray_tail(a); ointer(Cylinder::new(hh, r).cast_local_ray_and_get_normal(&ray, m, s)) }
        "cone_normal" => { let hh = a.f(); let r = a.f(); let (ray, m, s) = ray_tail(a); ointer(Cone::new(hh, r).cast_local_ray_and_get_normal(&ray, m, s)) }
        // ---- BVH pruning test of the composite ray-cast visitors (one lane of `SimdAabb::cast_local_ray`)
        "simd_aabb_cast" => { let mins = d3::p(a); let maxs = d3::p(a); let o = d3::p(a); let d = d3::v(a); let m = a.f();
            let (hit, t) = SimdAabb::splat(Aabb::new(mins, maxs)).cast_local_ray(&SimdRay::splat(Ray::new(o, d)), SimdReal::splat(m));
            format!("{} {}", b(hit.extract(0)), ff(t.extract(0))) }
        // ---- composite shapes: heightfield (grid walk), TriMesh / Compound / 2-D Polyline (best-first BVH traversal)
        "rc_hf3" => { let hf = hf3(a); let (ray, m, s) = ray_tail(a); ointer(hf.cast_local_ray_and_get_normal(&ray, m, s)) }
        "rc_hf3_posed" => { let hf = hf3(a); let iso = d3::iso(a); let (ray, m, s) = ray_tail(a); ointer(hf.cast_ray_and_get_normal(&iso, &ray, m, s)) }
        "rc_trimesh" => { let tm = trimesh(a); let (ray, m, s) = ray_tail(a); ointer(tm.cast_local_ray_and_get_normal(&ray, m, s)) }
        "rc_trimesh_toi" => { let tm = trimesh(a); let (ray, m, s) = ray_tail(a); otoi(tm.cast_local_ray(&ray, m, s)) }
        "rc_compound" => { let c = compound(a); let (ray, m, s) = ray_tail(a); ointer(c.cast_local_ray_and_get_normal(&ray, m, s)) }
        "rc_compound_toi" => { let c = compound(a); let (ray, m, s) = ray_tail(a); otoi(c.cast_local_ray(&ray, m, s)) }
        "rc_polyline2" => { let pl = polyline2(a); let (ray, m, s) = ray_tail2(a); ointer2(pl.cast_local_ray_and_get_normal(&ray, m, s)) }
        "rc_hf2" => { let hf = hf2(a); let (ray, m, s) = ray_tail2(a); ointer2(hf.cast_local_ray_and_get_normal(&ray, m, s)) }
        // ---- 2-D crate: ball, cuboid, triangle
        "ball2_toi" => { let r = a.f(); let (ray, m, s) = ray_tail2(a); otoi(crate::p2::shape::Ball::new(r).cast_local_ray(&ray, m, s)) }
        "ball2_normal" => { let r = a.f(); let (ray, m, s) = ray_tail2(a); ointer2(crate::p2::shape::Ball::new(r).cast_local_ray_and_get_normal(&ray, m, s)) }
        "cuboid2_toi" => { let he = d2::v(a); let (ray, m, s) = ray_tail2(a); otoi(crate::p2::shape::Cuboid::new(he).cast_local_ray(&ray, m, s)) }
        "cuboid2_normal" => { let he = d2::v(a); let (ray, m, s) = ray_tail2(a); ointer2(crate::p2::shape::Cuboid::new(he).cast_local_ray_and_get_normal(&ray, m, s)) }
        "ball2_posed" => { let r = a.f(); let iso = d2::iso(a); let (ray, m, s) = ray_tail2(a); ointer2(crate::p2::shape::Ball::new(r).cast_ray_and_get_normal(&iso, &ray, m, s)) }
        "ball2_posed_toi" => { let r = a.f(); let iso = d2::iso(a); let (ray, m, s) = ray_tail2(a); otoi(crate::p2::shape::Ball::new(r).cast_ray(&iso, &ray, m, s)) }
        "cuboid2_posed" => { let he = d2::v(a); let iso = d2::iso(a); let (ray, m, s) = ray_tail2(a); ointer2(crate::p2::shape::Cuboid::new(he).cast_ray_and_get_normal(&iso, &ray, m, s)) }
        "cuboid2_posed_toi" => { let he = d2::v(a); let iso = d2::iso(a); let (ray, m, s) = ray_tail2(a); otoi(crate::p2::shape::Cuboid::new(he).cast_ray(&iso, &ray, m, s)) }
        "tri2_normal" => { let p = d2::p(a); let q = d2::p(a); let t = d2::p(a); let (ray, m, s) = ray_tail2(a);
            ointer2(crate::p2::shape::Triangle::new(p, q, t).cast_local_ray_and_get_normal(&ray, m, s)) }
        "tri2_posed" => { let p = d2::p(a); let q = d2::p(a); let t = d2::p(a); let iso = d2::iso(a); let (ray, m, s) = ray_tail2(a);
            ointer2(crate::p2::shape::Triangle::new(p, q, t).cast_ray_and_get_normal(&iso, &ray, m, s)) }
        // ---- more GJK-cast shapes (oracle only): convex polyhedron / polygon from a hull, round cuboid
        "convpoly_normal" => { let n = a.u(); let ps: Vec<P3> = (0..n).map(|_| d3::p(a)).collect(); let (ray, m, s) = ray_tail(a);
            match crate::p3::shape::ConvexPolyhedron::from_convex_hull(&ps) { None => "nohull".into(), Some(c) => ointer(c.cast_local_ray_and_get_normal(&ray, m, s)) } }
        "roundcuboid_normal" => { let he = d3::v(a); let br = a.f(); let (ray, m, s) = ray_tail(a);
            ointer(crate::p3::shape::RoundCuboid { inner_shape: Cuboid::new(he), border_radius: br }.cast_local_ray_and_get_normal(&ray, m, s)) }
        "convpoly2_normal" => { let n = a.u(); let ps: Vec<P2> = (0..n).map(|_| d2::p(a)).collect(); let (ray, m, s) = ray_tail2(a);
            match crate::p2::shape::ConvexPolygon::from_convex_hull(&ps) { None => "nohull".into(), Some(c) => ointer2(c.cast_local_ray_and_get_normal(&ray, m, s)) } }
        _ => "nofn".into(),
    }
}

// ------------------------------------------------------------------ composite shapes on the wire
/// 2-D heightfield: `n h[n] sx sy nrem (i)*nrem`
fn hf2(a: &mut Args) -> crate::p2::shape::HeightField {
    let n = a.u(); let hs: Vec<f64> = (0..n).map(|_| a.f()).collect(); let sc = d2::v(a);
    let mut hf = crate::p2::shape::HeightField::new(crate::p2::na::DVector::from_vec(hs), sc);
    let nrem = a.u(); for _ in 0..nrem { let i = a.u(); hf.set_segment_removed(i, true); }
    hf
}
/// heightfield: `nr nc h[nr*nc] (column-major) sx sy sz ns (i j bits)*ns`
fn hf3(a: &mut Args) -> HeightField {
    let nr = a.u(); let nc = a.u();
    let hs: Vec<f64> = (0..nr * nc).map(|_| a.f()).collect();
    let sc = d3::v(a);
    let mut hf = HeightField::new(DMatrix::from_column_slice(nr, nc, &hs), sc);
    let ns = a.u();
    for _ in 0..ns { let i = a.u(); let j = a.u(); let bits = a.u() as u8; hf.set_cell_status(i, j, HeightFieldCellStatus::from_bits_truncate(bits)); }
    hf
}
/// trimesh: `nv (x y z)*nv nt (i j k)*nt`
fn trimesh(a: &mut Args) -> TriMesh {
    let nv = a.u(); let vs: Vec<P3> = (0..nv).map(|_| d3::p(a)).collect();
    let nt = a.u(); let is: Vec<[u32; 3]> = (0..nt).map(|_| [a.u() as u32, a.u() as u32, a.u() as u32]).collect();
    TriMesh::new(vs, is).expect("trimesh")
}
/// compound of cuboids: `np (hx hy hz iso)*np`
fn compound(a: &mut Args) -> Compound {
    let np = a.u();
    Compound::new((0..np).map(|_| { let he = d3::v(a); let m = d3::iso(a); (m, SharedShape::new(Cuboid::new(he))) }).collect())
}
/// 2-D polyline: `nv (x y)*nv`
fn polyline2(a: &mut Args) -> crate::p2::shape::Polyline {
    let nv = a.u(); let vs: Vec<P2> = (0..nv).map(|_| d2::p(a)).collect();
    crate::p2::shape::Polyline::new(vs, None)
}

// ------------------------------------------------------------------ generators

/// functions whose Lean handler exists (widened as the model grows)
const ENABLED: &[&str] = &["ball2_posed", "ball2_posed_toi", "cuboid2_posed", "cuboid2_posed_toi", "ball_intersects", "ball_intersects_posed", "bsphere_intersects", "aabb_intersects", "cuboid_intersects", "cuboid_intersects_posed", "halfspace_intersects", "halfspace_intersects_posed", "convpoly_normal", "roundcuboid_normal", "convpoly2_normal", "ball2_toi", "ball2_normal", "cuboid2_toi", "cuboid2_normal", "tri2_normal", "tri2_posed", "rc_hf2", "simd_aabb_cast", "rc_hf3", "rc_hf3_posed", "rc_trimesh", "rc_trimesh_toi", "rc_compound", "rc_compound_toi", "rc_polyline2", "ball_toi", "ball_normal", "ball_posed", "ray_toi_with_ball", "bsphere_normal", "aabb_toi", "aabb_normal", "clip_aabb_line", "cuboid_toi", "cuboid_normal", "cuboid_posed", "cuboid_posed_toi", "halfspace_normal", "halfspace_posed", "triangle_normal", "triangle_inter", "segment2_normal", "segment2_posed", "capsule_normal", "cylinder_normal", "cone_normal"];

const DIR_SCALES: [f64; 9] = [0.001, 0.015625, 0.125, 0.5, 1.0, 2.0, 8.0, 64.0, 1000.0];

fn rand_dir3(r: &mut Rng, lat: bool) -> V3 {
    loop {
        let v = if lat { V3::new(r.range(-3, 3) as f64, r.range(-3, 3) as f64, r.range(-3, 3) as f64) }
                else { V3::new(r.uniform(-1.0, 1.0), r.uniform(-1.0, 1.0), r.uniform(-1.0, 1.0)) };
        if v.norm_squared() > 1e-3 { return v; }
    }
}
fn rand_dir2(r: &mut Rng, lat: bool) -> V2 {
    loop {
        let v = if lat { V2::new(r.range(-3, 3) as f64, r.range(-3, 3) as f64) } else { V2::new(r.uniform(-1.0, 1.0), r.uniform(-1.0, 1.0)) };
        if v.norm_squared() > 1e-3 { return v; }
    }
}
fn dir_scale(r: &mut Rng, lat: bool) -> f64 { if lat { *r.pick(&DIR_SCALES) } else { r.logu(1e-3, 1e3) } }
fn neg_zero_some(r: &mut Rng, mut v: V3) -> V3 { for i in 0..3 { if v[i] == 0.0 && r.bool() { v[i] = -0.0; } } v }

/// A ray relative to a convex body described by samplers of interior points, surface points and a bounding size.
/// kinds: aimed from outside at an interior point / at a surface point, from an interior point, from a surface point,
/// unrelated (mostly misses), axis-parallel with (signed) zero components.
fn gen_ray3(r: &mut Rng, lat: bool, size: f64, inside: &mut dyn FnMut(&mut Rng) -> P3, surf: &mut dyn FnMut(&mut Rng) -> P3) -> (P3, V3) {
    let far = |r: &mut Rng| -> P3 {
        if lat { P3::new(r.lattice(24, 2), r.lattice(24, 2), r.lattice(24, 2)) }
        else { let s = size * r.logu(1.2, 30.0); P3::from(rand_dir3(r, false).normalize() * s) }
    };
    let kind = r.below(8);
    let (o, mut d) = match kind {
        0 | 1 => { let o = far(r); let t = inside(r); (o, t - o) }
        2 => { let o = far(r); let t = surf(r); (o, t - o) }
        3 => { let o = inside(r); (o, rand_dir3(r, lat)) }
        4 => { let o = surf(r); (o, rand_dir3(r, lat)) }
        5 => { let o = far(r); (o, rand_dir3(r, lat)) }
        6 => { // axis-parallel through/near the body
            let t = if r.bool() { inside(r) } else { surf(r) };
            let ax = r.below(3) as usize; let mut d = V3::zeros(); d[ax] = if r.bool() { 1.0 } else { -1.0 };
            let back = if lat { r.range(-2, 6) as f64 * 0.5 } else { r.uniform(-0.5, 3.0) * size };
            (t - d * back, neg_zero_some(r, d)) }
        _ => { // planar ray (one zero component), aimed at a surface point
            let o = far(r); let t = surf(r); let mut d = t - o; let ax = r.below(3) as usize; d[ax] = 0.0; (o, neg_zero_some(r, d)) }
    };
    if d.norm_squared() == 0.0 { d = V3::new(1.0, 0.0, 0.0); }
    let s = dir_scale(r, lat);
    let d = if lat { d * s } else { d * (s / d.norm()) };
    (o, d)
}

/// max_toi candidates given the unbounded result `t0`
fn gen_max(r: &mut Rng, lat: bool, t0: Option<f64>, dnorm: f64) -> f64 {
    match r.below(8) {
        0 | 1 | 2 => f64::MAX,
        3 => f64::INFINITY,
        4 => match t0 { Some(t) if t > 0.0 => t, _ => 1.0 },                 // exact-hit tie
        5 => match t0 { Some(t) if t > 0.0 => t * (1.0 - 1.0 / 1024.0), _ => 0.5 }, // just short
        6 => if lat { *r.pick(&[0.25, 1.0, 4.0, 64.0]) } else { r.logu(1e-2, 1e2) / dnorm },
        _ => match t0 { Some(t) if t > 0.0 => t * 1.5, _ => 2.0 },
    }
}

fn tail(o: &P3, d: &V3, m: f64, solid: bool) -> String { format!("{} {} {} {}", d3::hp(o), d3::hv(d), hx(m), b(solid)) }
fn tail2(o: &P2, d: &V2, m: f64, solid: bool) -> String { format!("{} {} {} {}", d2::hp(o), d2::hv(d), hx(m), b(solid)) }

fn unit_normal3(r: &mut Rng, lat: bool) -> V3 {
    if lat {
        match r.below(3) {
            0 => { let mut n = V3::zeros(); n[r.below(3) as usize] = if r.bool() { 1.0 } else { -1.0 }; n }
            1 => { let mut n = V3::zeros(); let i = r.below(3) as usize; let j = (i + 1 + r.below(2) as usize) % 3;
                   n[i] = if r.bool() { 0.6 } else { -0.6 }; n[j] = if r.bool() { 0.8 } else { -0.8 }; n }
            _ => { let mut n = V3::zeros(); n[r.below(3) as usize] = 1.0; n }
        }
    } else { rand_dir3(r, false).normalize() }
}

pub fn gen(r: &mut Rng, thorough: bool) -> Vec<(String, String)> {
    let n = if thorough { 5000 } else { 500 };
    let mut v: Vec<(String, String)> = Vec::new();
    for it in 0..n {
        let lat = it % 2 == 0;
        let solid = r.bool();
        // ---------------- ball
        {
            let rad = r.pos_extent(lat);
            let mut ins = |r: &mut Rng| -> P3 {
                if lat { let k = *r.pick(&[0.0, 0.25, 0.5]); P3::new(rad * k * (r.range(-1, 1) as f64), rad * k * (r.range(-1, 1) as f64), rad * k * (r.range(-1, 1) as f64)) }
                else { P3::from(rand_dir3(r, false).normalize() * (rad * r.unit())) } };
            let mut sur = |r: &mut Rng| -> P3 {
                if lat { // exact surface points: axis points and (0.6, 0.8)-type points
                    let mut p = V3::zeros(); let i = r.below(3) as usize;
                    if r.bool() { p[i] = if r.bool() { rad } else { -rad }; }
                    else { let j = (i + 1) % 3; p[i] = 0.6 * rad * if r.bool() { 1.0 } else { -1.0 }; p[j] = 0.8 * rad; }
                    P3::from(p) }
                else { P3::from(rand_dir3(r, false).normalize() * rad) } };
            let (o, d) = gen_ray3(r, lat, rad, &mut ins, &mut sur);
            let t0 = Ball::new(rad).cast_local_ray(&Ray::new(o, d), f64::MAX, solid);
            let m = gen_max(r, lat, t0, d.norm());
            let tl = tail(&o, &d, m, solid);
            v.push(("ball_toi".into(), format!("{} {}", hx(rad), tl)));
            v.push(("ball_normal".into(), format!("{} {}", hx(rad), tl)));
            let iso = d3::gen_iso(r, lat, 50.0);
            v.push(("ball_posed".into(), format!("{} {} {}", hx(rad), d3::hiso(&iso), tail(&(iso * o), &(iso * d), m, solid))));
            let c = d3::gen_p(r, lat, 20.0);
            v.push(("ray_toi_with_ball".into(), format!("{} {} {}", d3::hp(&c), hx(rad), tail(&(o + c.coords), &d, m, solid))));
            v.push(("bsphere_normal".into(), format!("{} {} {}", d3::hp(&c), hx(rad), tail(&(o + c.coords), &d, m, solid))));
            v.push(("ball_intersects".into(), format!("{} {}", hx(rad), tl)));
            v.push(("ball_intersects_posed".into(), format!("{} {} {}", hx(rad), d3::hiso(&iso), tail(&(iso * o), &(iso * d), m, solid))));
            v.push(("bsphere_intersects".into(), format!("{} {} {}", d3::hp(&c), hx(rad), tail(&(o + c.coords), &d, m, solid))));
        }
        // ---------------- aabb / cuboid
        {
            let he = d3::gen_he(r, lat);
            let mut ins = |r: &mut Rng| -> P3 {
                if lat { P3::new(he.x * *r.pick(&[-0.5, 0.0, 0.5]), he.y * *r.pick(&[-0.5, 0.0, 0.5]), he.z * *r.pick(&[-0.5, 0.0, 0.5])) }
                else { P3::new(he.x * r.uniform(-1.0, 1.0), he.y * r.uniform(-1.0, 1.0), he.z * r.uniform(-1.0, 1.0)) } };
            let mut sur = |r: &mut Rng| -> P3 {
                // faces, edges, vertices
                let mut p = if lat { V3::new(he.x * *r.pick(&[-0.5, 0.0, 0.5]), he.y * *r.pick(&[-0.5, 0.0, 0.5]), he.z * *r.pick(&[-0.5, 0.0, 0.5])) }
                            else { V3::new(he.x * r.uniform(-1.0, 1.0), he.y * r.uniform(-1.0, 1.0), he.z * r.uniform(-1.0, 1.0)) };
                let nfix = 1 + if r.below(3) == 0 { r.below(3) as usize } else { 0 };
                let start = r.below(3) as usize;
                for k in 0..nfix { let i = (start + k) % 3; p[i] = if r.bool() { he[i] } else { -he[i] }; }
                P3::from(p) };
            let (o, d) = gen_ray3(r, lat, he.norm(), &mut ins, &mut sur);
            let cub = Cuboid::new(he);
            let t0 = cub.cast_local_ray_and_get_normal(&Ray::new(o, d), f64::MAX, solid).map(|i| i.time_of_impact);
            let m = gen_max(r, lat, t0, d.norm());
            let tl = tail(&o, &d, m, solid);
            v.push(("cuboid_toi".into(), format!("{} {}", d3::hv(&he), tl)));
            v.push(("cuboid_normal".into(), format!("{} {}", d3::hv(&he), tl)));
            let iso = d3::gen_iso(r, lat, 50.0);
            let ptl = tail(&(iso * o), &(iso * d), m, solid);
            v.push(("cuboid_posed".into(), format!("{} {} {}", d3::hv(&he), d3::hiso(&iso), ptl)));
            v.push(("cuboid_posed_toi".into(), format!("{} {} {}", d3::hv(&he), d3::hiso(&iso), ptl)));
            let c = d3::gen_v(r, lat, 20.0);
            let bx = format!("{} {}", d3::hp(&P3::from(c - he)), d3::hp(&P3::from(c + he)));
            let oc = o + c;
            v.push(("aabb_toi".into(), format!("{} {}", bx, tail(&oc, &d, m, solid))));
            v.push(("aabb_normal".into(), format!("{} {}", bx, tail(&oc, &d, m, solid))));
            v.push(("cuboid_intersects".into(), format!("{} {}", d3::hv(&he), tl)));
            v.push(("cuboid_intersects_posed".into(), format!("{} {} {}", d3::hv(&he), d3::hiso(&iso), ptl)));
            v.push(("aabb_intersects".into(), format!("{} {}", bx, tail(&oc, &d, m, solid))));
            v.push(("clip_aabb_line".into(), format!("{} {} {}", bx, d3::hp(&oc), d3::hv(&d))));
            // the line form also clips boxes lying entirely behind the origin (reversed direction) and no longer panics on a
            // zero direction (side code 0 leaves the normal at zero): both exercised on every run
            v.push(("clip_aabb_line".into(), format!("{} {} {}", bx, d3::hp(&oc), d3::hv(&(-d)))));
            if it % 20 == 9 {
                let z = V3::new(0.0, -0.0, 0.0);
                v.push(("clip_aabb_line".into(), format!("{} {} {}", bx, d3::hp(&oc), d3::hv(&z))));
                v.push(("aabb_normal".into(), format!("{} {}", bx, tail(&oc, &z, m, solid))));
                v.push(("aabb_toi".into(), format!("{} {}", bx, tail(&oc, &z, m, solid))));
            }
        }
        // ---------------- half-space
        {
            let nrm = unit_normal3(r, lat);
            // a basis of the plane for sampling
            let ax = if nrm.x.abs() < 0.9 { V3::x() } else { V3::y() };
            let u = nrm.cross(&ax); let w = nrm.cross(&u);
            let u = if lat { u } else { u.normalize() };
            let mut ins = |r: &mut Rng| -> P3 { let (a, b2, c) = if lat { (r.range(-4, 4) as f64 * 0.5, r.range(-4, 4) as f64 * 0.5, r.range(1, 6) as f64 * 0.5) } else { (r.uniform(-10.0, 10.0), r.uniform(-10.0, 10.0), r.logu(1e-2, 20.0)) };
                P3::from(u * a + w * b2 - nrm * c) };
            let mut sur = |r: &mut Rng| -> P3 { let (a, b2) = if lat { (r.range(-4, 4) as f64 * 0.5, r.range(-4, 4) as f64 * 0.5) } else { (r.uniform(-10.0, 10.0), r.uniform(-10.0, 10.0)) };
                P3::from(u * a + w * b2) };
            // deterministic tie cases (every seed): ray parallel to the plane from strictly inside with max_toi = +inf,
            // non-solid (it % 50 == 3), and from a point of the plane (it % 50 == 13)
            let forced = if it % 50 == 3 { 1 } else if it % 50 == 13 { 2 } else { 0 };
            let kind = if forced > 0 { 0 } else { r.below(10) };
            let (o, d) = if kind == 0 { // parallel to the plane, origin inside / outside / on it
                let o = match if forced > 0 { forced - 1 } else { r.below(3) } { 0 => ins(r), 1 => sur(r), _ => { let p = ins(r); P3::from(-p.coords) } };
                let d = (u * if lat { r.range(-2, 2) as f64 } else { r.uniform(-1.0, 1.0) } + w * if lat { r.range(1, 2) as f64 } else { r.uniform(0.1, 1.0) }) * dir_scale(r, lat);
                (o, d)
            } else if kind <= 5 { // from the outside half toward the plane or away
                let p = ins(r); let o = P3::from(-p.coords); let t = sur(r);
                let d = if r.below(4) == 0 { rand_dir3(r, lat) } else { t - o };
                let s = dir_scale(r, lat); (o, if lat { d * s } else { d * (s / d.norm()) })
            } else { gen_ray3(r, lat, 5.0, &mut ins, &mut sur) };
            let hs = halfspace(nrm);
            let solid = if forced == 1 { false } else { solid };
            let t0 = hs.cast_local_ray(&Ray::new(o, d), f64::MAX, solid);
            let m = if forced == 1 { f64::INFINITY } else { gen_max(r, lat, t0, d.norm()) };
            v.push(("halfspace_normal".into(), format!("{} {}", d3::hv(&nrm), tail(&o, &d, m, solid))));
            let iso = if forced > 0 { d3::gen_iso(r, true, 50.0) } else { d3::gen_iso(r, lat, 50.0) };
            v.push(("halfspace_intersects".into(), format!("{} {}", d3::hv(&nrm), tail(&o, &d, m, solid))));
            v.push(("halfspace_posed".into(), format!("{} {} {}", d3::hv(&nrm), d3::hiso(&iso), tail(&(iso * o), &(iso * d), m, solid))));
            v.push(("halfspace_intersects_posed".into(), format!("{} {} {}", d3::hv(&nrm), d3::hiso(&iso), tail(&(iso * o), &(iso * d), m, solid))));
        }
        // ---------------- triangle (3-D)
        {
            let (pa, pb, pc) = loop {
                let pa = d3::gen_p(r, lat, 10.0); let pb = d3::gen_p(r, lat, 10.0); let pc = d3::gen_p(r, lat, 10.0);
                if (pb - pa).cross(&(pc - pa)).norm() > 1e-2 { break (pa, pb, pc); }
            };
            let bary = |r: &mut Rng, edge: bool| -> P3 {
                let (mut x, mut y, mut z) = if lat { let a = r.range(0, 4); let b2 = r.range(0, 4 - a); (a as f64 / 4.0, b2 as f64 / 4.0, (4 - a - b2) as f64 / 4.0) }
                    else { let a = r.unit(); let b2 = r.unit() * (1.0 - a); (a, b2, 1.0 - a - b2) };
                if edge { let s = x + y; if s > 0.0 { x /= s; y /= s; z = 0.0; } else { x = 1.0; y = 0.0; z = 0.0; } match r.below(3) { 0 => {}, 1 => { std::mem::swap(&mut y, &mut z); } _ => { std::mem::swap(&mut x, &mut z); } } }
                P3::from(pa.coords * x + pb.coords * y + pc.coords * z) };
            let nrm = (pb - pa).cross(&(pc - pa));
            let kind = r.below(10);
            let (o, d) = if kind < 6 { // through the plane, both sides, toward interior / edge / outside points of the plane
                let t = match r.below(4) { 0 => bary(r, true), 1 => { let q = bary(r, false); pa + (q - pa) * 2.5 } _ => bary(r, false) };
                let side = if r.bool() { 1.0 } else { -1.0 };
                let off = if lat { V3::new(r.lattice(8, 1), r.lattice(8, 1), r.lattice(8, 1)) } else { d3::gen_v(r, false, 10.0) };
                let mut o = t + off; if (o - pa).dot(&nrm) * side < 0.0 { o = t - off; }
                let d = if r.below(6) == 0 { o - t } else { t - o };
                let d = if d.norm_squared() == 0.0 { nrm } else { d };
                let s = dir_scale(r, lat); (o, if lat { d * s } else { d * (s / d.norm()) })
            } else if kind == 6 { // coplanar rays
                let o = { let q = bary(r, false); pa + (q - pa) * if r.bool() { 3.0 } else { 0.5 } }; let e0 = r.bool(); let t = bary(r, e0);
                let d = if (t - o).norm_squared() == 0.0 { pb - pa } else { t - o }; (o, d * if lat { dir_scale(r, true) } else { 1.0 })
            } else if kind == 7 { // parallel to the plane, off it
                let o = bary(r, false) + nrm * if lat { 0.5 } else { r.uniform(-1.0, 1.0) }; let d = (pb - pa) * r.uniform(-1.0, 1.0) + (pc - pa) * r.uniform(0.1, 1.0); (o, d)
            } else if kind == 8 { // origin on the triangle (lattice: strictly interior, exactly in the plane; both sides)
                if lat { let w = *r.pick(&[(0.25, 0.25, 0.5), (0.5, 0.25, 0.25), (0.25, 0.5, 0.25)]);
                         (P3::from(pa.coords * w.0 + pb.coords * w.1 + pc.coords * w.2), rand_dir3(r, true) * dir_scale(r, true)) }
                else { let e0 = r.bool(); (bary(r, e0), rand_dir3(r, lat) * dir_scale(r, lat)) }
            } else { (d3::gen_p(r, lat, 10.0), rand_dir3(r, lat) * dir_scale(r, lat)) };
            let tri = Triangle::new(pa, pb, pc);
            let t0 = tri.cast_local_ray(&Ray::new(o, d), f64::MAX, solid);
            let m = gen_max(r, lat, t0, d.norm());
            let sh = format!("{} {} {}", d3::hp(&pa), d3::hp(&pb), d3::hp(&pc));
            v.push(("triangle_normal".into(), format!("{} {}", sh, tail(&o, &d, m, solid))));
            v.push(("triangle_inter".into(), format!("{} {} {}", sh, d3::hp(&o), d3::hv(&d))));
        }
        // ---------------- segment (2-D)
        {
            // one case in 25: a short segment (2^-6) crossed at ~1 mrad by a short direction (2^-10): exercises the *absolute*
            // parallelism threshold of `closest_points_line_line_parameters_eps` (KNOWN_FINDINGS)
            let tiny = it % 25 == 7;
            let (pa, pb) = if tiny { let pa = d2::gen_p(r, true, 10.0); let e = 0.015625; if r.bool() { (pa, pa + V2::new(e, 0.0)) } else { (pa, pa + V2::new(0.0, e)) } }
                else { loop { let pa = d2::gen_p(r, lat, 10.0); let pb = d2::gen_p(r, lat, 10.0); if (pb - pa).norm() > 1e-2 { break (pa, pb); } } };
            let on = |r: &mut Rng, ext: bool| -> P2 { let t = if lat { *r.pick(&[0.0, 0.25, 0.5, 1.0]) } else { r.unit() }; let t = if ext { if r.bool() { t + 1.5 } else { -t - 0.5 } } else { t }; pa + (pb - pa) * t };
            let sd = pb - pa; let nn = V2::new(sd.y, -sd.x);
            let kind = r.below(10);
            let (o, d) = if tiny {
                let sgn = if r.bool() { 1.0 } else { -1.0 }; let k = 0.0009765625;
                let d = sd * (k / 0.015625) * sgn + nn * (k * k / 0.015625) * if r.bool() { 1.0 } else { -1.0 };
                let hit = pa + sd * *r.pick(&[0.25, 0.5, 0.75]);
                (hit - d, d)
            } else if kind < 5 { // crossing
                let e0 = r.below(4) == 0; let t = on(r, e0);
                let off = if lat { V2::new(r.lattice(8, 1), r.lattice(8, 1)) } else { d2::gen_v(r, false, 10.0) };
                let o = t + off; let d = if r.below(6) == 0 { o - t } else { t - o };
                let d = if d.norm_squared() == 0.0 { nn } else { d };
                let s = dir_scale(r, lat); (o, if lat { d * s } else { d * (s / d.norm()) })
            } else if kind < 7 { // collinear: origin before / on / after the segment, both directions
                let e0 = r.bool(); let o = on(r, e0); let s = dir_scale(r, lat) * if r.bool() { 1.0 } else { -1.0 };
                (o, if lat { sd * s } else { sd * (s / sd.norm()) })
            } else if kind == 7 { // parallel, off the line
                let e0 = r.bool(); let o = on(r, e0) + nn * if lat { 0.5 } else { r.uniform(-1.0, 1.0) }; let s = dir_scale(r, lat) * if r.bool() { 1.0 } else { -1.0 };
                (o, if lat { sd * s } else { sd * (s / sd.norm()) })
            } else if kind == 8 { (on(r, false), rand_dir2(r, lat) * dir_scale(r, lat)) }
            else { (d2::gen_p(r, lat, 10.0), rand_dir2(r, lat) * dir_scale(r, lat)) };
            let seg = crate::p2::shape::Segment::new(pa, pb);
            let t0 = seg.cast_local_ray(&Ray2::new(o, d), f64::MAX, solid);
            let m = gen_max(r, lat, t0, d.norm());
            v.push(("segment2_normal".into(), format!("{} {} {}", d2::hp(&pa), d2::hp(&pb), tail2(&o, &d, m, solid))));
            let iso = d2::gen_iso(r, lat, 50.0);
            v.push(("segment2_posed".into(), format!("{} {} {} {}", d2::hp(&pa), d2::hp(&pb), d2::hiso(&iso), tail2(&(iso * o), &(iso * d), m, solid))));
        }
        // ---------------- support-map shapes (oracle only)
        {
            // capsule
            let (pa, pb) = if lat { let h = *r.pick(&[0.5, 1.0, 2.0]); match r.below(3) { 0 => (P3::new(-h, 0.0, 0.0), P3::new(h, 0.0, 0.0)), 1 => (P3::new(0.0, -h, 0.0), P3::new(0.0, h, 0.0)), _ => (P3::new(0.0, 0.0, -h), P3::new(0.0, 0.0, h)) } }
                           else { loop { let pa = d3::gen_p(r, false, 5.0); let pb = d3::gen_p(r, false, 5.0); if (pb - pa).norm() > 1e-1 { break (pa, pb); } } };
            let rad = if lat { *r.pick(&[0.25, 0.5, 1.0]) } else { r.logu(5e-2, 5.0) };
            let mut ins = |r: &mut Rng| -> P3 { let t = if lat { *r.pick(&[0.0, 0.5, 1.0]) } else { r.unit() }; let c = pa + (pb - pa) * t;
                if lat { c } else { c + rand_dir3(r, false).normalize() * (rad * 0.9 * r.unit()) } };
            let mut sur = |r: &mut Rng| -> P3 { let t = if lat { *r.pick(&[0.0, 0.5, 1.0]) } else { r.unit() }; let c = pa + (pb - pa) * t;
                let ax = (pb - pa).normalize(); let mut w = rand_dir3(r, false); w -= ax * w.dot(&ax); if w.norm() < 1e-3 { w = ax.cross(&V3::new(0.3, 0.5, 0.7)); }
                c + w.normalize() * rad };
            let (o, d) = gen_ray3(r, lat, (pb - pa).norm() * 0.5 + rad, &mut ins, &mut sur);
            let t0 = Capsule::new(pa, pb, rad).cast_local_ray(&Ray::new(o, d), f64::MAX, solid);
            let m = gen_max(r, lat, t0, d.norm());
            v.push(("capsule_normal".into(), format!("{} {} {} {}", d3::hp(&pa), d3::hp(&pb), hx(rad), tail(&o, &d, m, solid))));
            // cylinder and cone
            let hh = if lat { *r.pick(&[0.5, 1.0, 2.0]) } else { r.logu(1e-1, 10.0) };
            let cr = if lat { *r.pick(&[0.5, 1.0, 2.0]) } else { r.logu(1e-1, 10.0) };
            let mut ins = |r: &mut Rng| -> P3 { if lat { P3::new(0.0, hh * *r.pick(&[-0.5, 0.0, 0.5]), 0.0) } else { let a = r.uniform(0.0, 6.28); let q = cr * 0.9 * r.unit().sqrt(); P3::new(q * a.cos(), hh * r.uniform(-0.9, 0.9), q * a.sin()) } };
            let mut sur = |r: &mut Rng| -> P3 { if lat { match r.below(3) { 0 => P3::new(cr, hh * *r.pick(&[-0.5, 0.0, 0.5]), 0.0), 1 => P3::new(0.0, hh, 0.0), _ => P3::new(0.0, -hh, cr * 0.5) } }
                else { let a = r.uniform(0.0, 6.28); if r.bool() { P3::new(cr * a.cos(), hh * r.uniform(-1.0, 1.0), cr * a.sin()) } else { let q = cr * r.unit().sqrt(); P3::new(q * a.cos(), if r.bool() { hh } else { -hh }, q * a.sin()) } } };
            let (o, d) = gen_ray3(r, lat, (hh * hh + cr * cr).sqrt(), &mut ins, &mut sur);
            let t0 = Cylinder::new(hh, cr).cast_local_ray(&Ray::new(o, d), f64::MAX, solid);
            let m = gen_max(r, lat, t0, d.norm());
            v.push(("cylinder_normal".into(), format!("{} {} {}", hx(hh), hx(cr), tail(&o, &d, m, solid))));
            // cone: interior sampler restricted to the cone (scale radial part by (hh - y)/(2hh))
            let mut insc = |r: &mut Rng| -> P3 { if lat { P3::new(0.0, hh * *r.pick(&[-0.5, 0.0, 0.5]), 0.0) } else { let y = hh * r.uniform(-0.9, 0.9); let a = r.uniform(0.0, 6.28); let q = cr * (hh - y) / (2.0 * hh) * 0.9 * r.unit().sqrt(); P3::new(q * a.cos(), y, q * a.sin()) } };
            let mut surc = |r: &mut Rng| -> P3 { if lat { match r.below(3) { 0 => P3::new(cr * 0.5, 0.0, 0.0), 1 => P3::new(0.0, hh, 0.0), _ => P3::new(0.0, -hh, cr * 0.5) } }
                else { let a = r.uniform(0.0, 6.28); if r.bool() { let y = hh * r.uniform(-1.0, 1.0); let q = cr * (hh - y) / (2.0 * hh); P3::new(q * a.cos(), y, q * a.sin()) } else { let q = cr * r.unit().sqrt(); P3::new(q * a.cos(), -hh, q * a.sin()) } } };
            let (o, d) = gen_ray3(r, lat, (hh * hh + cr * cr).sqrt(), &mut insc, &mut surc);
            let t0 = Cone::new(hh, cr).cast_local_ray(&Ray::new(o, d), f64::MAX, solid);
            let m = gen_max(r, lat, t0, d.norm());
            v.push(("cone_normal".into(), format!("{} {} {}", hx(hh), hx(cr), tail(&o, &d, m, solid))));
        }
    }
    gen_composites(r, thorough, &mut v);
    gen_2d(r, thorough, &mut v);
    gen_gjk_more(r, thorough, &mut v);
    v.retain(|(f, _)| ENABLED.contains(&f.as_str()));
    v
}

// ------------------------------------------------------------------ generators: BVH pruning test, heightfield, composite shapes
// (appended after the closed-form families so that their random stream is unchanged)

const POW2_SCALES: [f64; 5] = [0.125, 0.5, 1.0, 2.0, 8.0];
/// lattice: multiply by a power of two (keeps every float operation of the casts exact); random: rescale to a log-uniform length
fn scale_dir(r: &mut Rng, lat: bool, d: V3) -> V3 {
    if lat { d * *r.pick(&POW2_SCALES) } else { let n = d.norm(); if n > 0.0 { d * (dir_scale(r, false) / n) } else { d } }
}
/// a point of a triangle: vertex / edge / interior; lattice: barycentric coordinates in quarters
fn tri_point(r: &mut Rng, lat: bool, t: &Triangle) -> P3 {
    let k = r.below(8);
    let (x, y, z) = if k == 0 { (1.0, 0.0, 0.0) }
        else if k <= 2 { let u = if lat { *r.pick(&[0.25, 0.5, 0.75]) } else { r.unit() }; (u, 1.0 - u, 0.0) }
        else if lat { *r.pick(&[(0.25, 0.25, 0.5), (0.5, 0.25, 0.25), (0.25, 0.5, 0.25)]) }
        else { let a = r.unit(); let b2 = r.unit() * (1.0 - a); (a, b2, 1.0 - a - b2) };
    let (x, y, z) = match r.below(3) { 0 => (x, y, z), 1 => (y, z, x), _ => (z, x, y) };
    P3::from(t.a.coords * x + t.b.coords * y + t.c.coords * z)
}
/// axis-parallel ray through `p`: only one coordinate of the origin differs from `p`, so when `p` lies on a grid line / seam /
/// box face the origin lies EXACTLY in that plane and the direction component across it is exactly zero
fn axis_ray(r: &mut Rng, lat: bool, p: P3, size: f64) -> (P3, V3) {
    let ax = r.below(3) as usize; let mut d = V3::zeros(); d[ax] = if r.bool() { 1.0 } else { -1.0 };
    let back = if lat { r.range(-2, 8) as f64 * 0.5 } else { r.uniform(-0.5, 3.0) * size };
    (p - d * back, neg_zero_some(r, d))
}
fn far_offset(r: &mut Rng, lat: bool, size: f64) -> V3 {
    loop { let v = if lat { V3::new(r.lattice(24, 2), r.lattice(24, 2), r.lattice(24, 2)) } else { rand_dir3(r, false).normalize() * (size * r.logu(0.3, 10.0)) };
           if v.norm_squared() > 0.0 { return v; } }
}

struct HfSpec { nr: usize, nc: usize, hs: Vec<f64>, sc: V3, st: Vec<(usize, usize, u8)> }
fn hf_wire(h: &HfSpec) -> String {
    format!("{} {} {} {} {}{}", h.nr, h.nc, hxs(h.hs.iter()), d3::hv(&h.sc), h.st.len(),
            h.st.iter().map(|(i, j, bits)| format!(" {} {} {}", i, j, bits)).collect::<String>())
}
fn gen_hf_spec(r: &mut Rng, lat: bool) -> HfSpec {
    let mut cells = |r: &mut Rng| -> usize { if lat { *r.pick(&[1usize, 2, 2, 4, 4, 3, 5]) } else { 1 + r.below(5) as usize } };
    let (cr, cc) = (cells(r), cells(r)); let (nr, nc) = (cr + 1, cc + 1);
    let pat = r.below(6);
    let amp = if lat { *r.pick(&[0.25, 0.5, 1.0]) } else { r.uniform(0.1, 1.0) };
    let mut hs = Vec::new();
    for j in 0..nc { for i in 0..nr {
        hs.push(match pat {
            0 => 0.5,                                              // planar, horizontal (flat bounding box)
            1 => ((i + j) % 2) as f64 * amp,                      // checkerboard: every cell is folded along a diagonal (ridges / valleys)
            2 => (i as f64) * 0.25 + (j as f64) * 0.5,            // planar, tilted
            _ => if lat { r.range(-4, 4) as f64 * 0.25 } else { r.uniform(-1.0, 1.0) } });
    } }
    let sc = if lat { V3::new(*r.pick(&[2.0, 4.0, 8.0]), *r.pick(&[1.0, 2.0, 0.5]), *r.pick(&[2.0, 4.0, 8.0])) }
             else { V3::new(r.uniform(1.0, 10.0), r.uniform(0.3, 3.0), r.uniform(1.0, 10.0)) };
    let mut st = Vec::new();
    if r.below(3) == 0 { for i in 0..cr { for j in 0..cc { if r.below(3) == 0 { st.push((i, j, r.below(8) as u8)); } } } }
    HfSpec { nr, nc, hs, sc, st }
}
fn gen_hf_ray(r: &mut Rng, lat: bool, hf: &HeightField) -> (P3, V3) {
    let (cr, cc) = (hf.nrows(), hf.ncols());
    let bb = hf.local_aabb();
    let size = (bb.maxs - bb.mins).norm();
    let cw = hf.x_at(1) - hf.x_at(0); let ch = hf.z_at(1) - hf.z_at(0);
    // a random cell that still has a triangle
    let mut cell = None;
    for _ in 0..12 { let i = r.below(cr as u64) as usize; let j = r.below(cc as u64) as usize; let t = hf.triangles_at(i, j); if t.0.is_some() || t.1.is_some() { cell = Some((i, j, t)); break; } }
    let mid_y = if lat { (bb.mins.y + bb.maxs.y) * 0.5 } else { r.uniform(bb.mins.y, bb.maxs.y) };
    let box_pt = |r: &mut Rng| -> P3 { if lat { P3::new(bb.mins.x + (bb.maxs.x - bb.mins.x) * *r.pick(&[0.0, 0.25, 0.5, 0.75, 1.0]), mid_y, bb.mins.z + (bb.maxs.z - bb.mins.z) * *r.pick(&[0.0, 0.25, 0.5, 0.75, 1.0])) }
                                      else { P3::new(r.uniform(bb.mins.x, bb.maxs.x), r.uniform(bb.mins.y, bb.maxs.y), r.uniform(bb.mins.z, bb.maxs.z)) } };
    let kind = r.below(11);
    let (o, d) = match (kind, &cell) {
        // through BOTH triangles of one cell (first one point of each, then the line through them): on a folded cell the ray
        // pierces the two triangles at different times
        (0..=2, Some((_, _, (Some(t1), Some(t2))))) => {
            let (ta, tb) = if r.bool() { (t1, t2) } else { (t2, t1) };
            let p1 = tri_point(r, lat, ta);
            let p2 = tri_point(r, lat, tb);
            let d = p2 - p1;
            // planar cell: the line through the two points lies in the common plane (coplanar rays are a known finding of the
            // triangle cast, exercised by `triangle_normal`); come down on the first point instead
            let n1 = (ta.b - ta.a).cross(&(ta.c - ta.a));
            if d.norm_squared() == 0.0 || n1.dot(&d).abs() <= 1e-9 * n1.norm() * d.norm() { (p1 + V3::new(0.0, 1.0, 0.0), V3::new(0.0, -1.0, 0.0)) }
            else { let back = if lat { *r.pick(&[0.25, 0.5, 1.0, 3.0]) } else { r.uniform(0.05, 2.0) }; (p1 - d * back, d) }
        }
        (0..=3, Some((_, _, t))) => { // aimed at a surface point, from anywhere
            let tri = match (&t.0, &t.1) { (Some(a), Some(b2)) => if r.bool() { a } else { b2 }, (Some(a), None) => a, (None, Some(b2)) => b2, _ => unreachable!() };
            let p = tri_point(r, lat, tri); let o = p + far_offset(r, lat, size);
            (o, if r.below(6) == 0 { o - p } else { p - o })
        }
        (4, _) => { // horizontal ray at a height inside the relief
            let tgt = box_pt(r); let mut off = far_offset(r, lat, size); off.y = 0.0; if off.norm_squared() == 0.0 { off.x = 1.0; }
            let o = P3::new(tgt.x + off.x, tgt.y, tgt.z + off.z); (o, tgt - o)
        }
        (5, _) => { // vertical ray over a grid node / a grid line / a cell centre
            let j = r.below(cc as u64 + 1) as usize; let i = r.below(cr as u64 + 1) as usize;
            let (fx, fz) = match r.below(4) { 0 => (0.0, 0.0), 1 => (0.5, 0.0), 2 => (0.0, 0.5), _ => (0.5, 0.5) };
            let (fx, fz) = if lat { (fx, fz) } else if r.bool() { (fx, fz) } else { (r.unit(), r.unit()) };
            let x = hf.x_at(j) + cw * if j < cc { fx } else { 0.0 }; let z = hf.z_at(i) + ch * if i < cr { fz } else { 0.0 };
            let up = r.bool(); let gap = if lat { r.range(-1, 6) as f64 * 0.5 } else { r.uniform(-0.5, 3.0) };
            if up { (P3::new(x, bb.mins.y - gap, z), V3::new(0.0, 1.0, 0.0)) } else { (P3::new(x, bb.maxs.y + gap, z), V3::new(0.0, -1.0, 0.0)) }
        }
        (6, _) => { // along a grid line, or diagonally through the grid nodes (toi_x == toi_z ties), through a vertex of the relief
            let j = r.below(cc as u64 + 1) as usize; let i = r.below(cr as u64 + 1) as usize;
            let hy = hf.heights()[(i, j)] * hf.scale().y;
            let node = P3::new(hf.x_at(j), if r.bool() { hy } else { mid_y }, hf.z_at(i));
            let dy = if lat { *r.pick(&[0.0, 0.0, 0.25, -0.25, 0.5]) } else if r.bool() { 0.0 } else { r.uniform(-0.5, 0.5) };
            let d = match r.below(4) { 0 => V3::new(0.0, dy, if r.bool() { ch } else { -ch }), 1 => V3::new(if r.bool() { cw } else { -cw }, dy, 0.0),
                                       _ => V3::new(if r.bool() { cw } else { -cw }, dy, if r.bool() { ch } else { -ch }) };
            let back = if lat { r.range(-1, 6) as f64 * 0.5 } else { r.uniform(-0.5, 4.0) };
            (node - d * back, d)
        }
        (7, _) => (box_pt(r), rand_dir3(r, lat)),
        (8, Some((_, _, t))) => { let tri = t.0.as_ref().or(t.1.as_ref()).unwrap(); let p = tri_point(r, lat, tri); axis_ray(r, lat, p, size) }
        _ => { let tgt = box_pt(r); let o = tgt + far_offset(r, lat, size); (o, if r.below(3) == 0 { rand_dir3(r, lat) } else { tgt - o }) }
    };
    let d = if d.norm_squared() == 0.0 { V3::new(1.0, 0.0, 0.0) } else { d };
    (o, scale_dir(r, lat, d))
}

struct MeshSpec { vs: Vec<P3>, is: Vec<[u32; 3]> }
fn mesh_wire(m: &MeshSpec) -> String {
    format!("{} {} {} {}", m.vs.len(), m.vs.iter().map(d3::hp).collect::<Vec<_>>().join(" "), m.is.len(),
            m.is.iter().map(|t| format!("{} {} {}", t[0], t[1], t[2])).collect::<Vec<_>>().join(" "))
}
fn gen_mesh(r: &mut Rng, lat: bool) -> MeshSpec {
    match r.below(4) {
        0 | 1 => { // terrain-like grid: vertices on axis-aligned grid lines, every leaf box has faces in the grid planes
            let nx = 1 + r.below(3) as usize; let nz = 1 + r.below(3) as usize;
            let (dx, dz) = if lat { (*r.pick(&[0.5, 1.0, 2.0]), *r.pick(&[0.5, 1.0, 2.0])) } else { (r.uniform(0.3, 2.0), r.uniform(0.3, 2.0)) };
            let (x0, z0) = if lat { (r.range(-4, 2) as f64 * 0.5, r.range(-4, 2) as f64 * 0.5) } else { (r.uniform(-3.0, 1.0), r.uniform(-3.0, 1.0)) };
            let flat = r.below(4) == 0;
            let mut vs = Vec::new();
            for iz in 0..=nz { for ix in 0..=nx {
                let h = if flat { 0.5 } else if lat { r.range(-2, 2) as f64 * 0.25 } else { r.uniform(-1.0, 1.0) };
                vs.push(P3::new(x0 + dx * ix as f64, h, z0 + dz * iz as f64)); } }
            let mut is = Vec::new();
            for iz in 0..nz { for ix in 0..nx {
                let a = (iz * (nx + 1) + ix) as u32; let (b2, c, d) = (a + 1, a + nx as u32 + 1, a + nx as u32 + 2);
                if r.bool() { is.push([a, c, b2]); is.push([b2, c, d]); } else { is.push([a, c, d]); is.push([a, d, b2]); } } }
            MeshSpec { vs, is }
        }
        2 => { // closed axis-aligned box
            let he = d3::gen_he(r, lat); let c = d3::gen_v(r, lat, 4.0);
            let mut vs = Vec::new();
            for k in 0..8 { vs.push(P3::from(c + V3::new(if k & 1 == 0 { -he.x } else { he.x }, if k & 2 == 0 { -he.y } else { he.y }, if k & 4 == 0 { -he.z } else { he.z }))); }
            let is = vec![[0, 2, 1], [1, 2, 3], [4, 5, 6], [5, 7, 6], [0, 1, 4], [1, 5, 4], [2, 6, 3], [3, 6, 7], [0, 4, 2], [2, 4, 6], [1, 3, 5], [3, 7, 5]];
            MeshSpec { vs, is }
        }
        _ => { // triangle soup
            let nt = 1 + r.below(6) as usize; let mut vs = Vec::new(); let mut is = Vec::new();
            for k in 0..nt {
                let (pa, pb, pc) = loop { let pa = d3::gen_p(r, lat, 4.0); let pb = d3::gen_p(r, lat, 4.0); let pc = d3::gen_p(r, lat, 4.0);
                                          if (pb - pa).cross(&(pc - pa)).norm() > 1e-2 { break (pa, pb, pc); } };
                vs.push(pa); vs.push(pb); vs.push(pc); is.push([3 * k as u32, 3 * k as u32 + 1, 3 * k as u32 + 2]);
            }
            MeshSpec { vs, is }
        }
    }
}
fn gen_mesh_ray(r: &mut Rng, lat: bool, m: &MeshSpec) -> (P3, V3) {
    let t = m.is[r.below(m.is.len() as u64) as usize];
    let tri = Triangle::new(m.vs[t[0] as usize], m.vs[t[1] as usize], m.vs[t[2] as usize]);
    let size = m.vs.iter().map(|p| p.coords.norm()).fold(1.0, f64::max);
    let (o, d) = match r.below(8) {
        0 | 1 => { let p = tri_point(r, lat, &tri); let o = p + far_offset(r, lat, size); (o, if r.below(6) == 0 { o - p } else { p - o }) }
        2 | 3 | 4 => { let p = tri_point(r, lat, &tri); axis_ray(r, lat, p, size) }
        5 => (tri_point(r, lat, &tri), rand_dir3(r, lat)),
        _ => { let p = tri_point(r, lat, &tri); (p + far_offset(r, lat, size), rand_dir3(r, lat)) }
    };
    let d = if d.norm_squared() == 0.0 { V3::new(0.0, -1.0, 0.0) } else { d };
    (o, scale_dir(r, lat, d))
}

struct CompSpec { parts: Vec<(V3, d3::Isometry<f64>)> }
fn comp_wire(c: &CompSpec) -> String { format!("{} {}", c.parts.len(), c.parts.iter().map(|(he, m)| format!("{} {}", d3::hv(he), d3::hiso(m))).collect::<Vec<_>>().join(" ")) }
fn gen_comp(r: &mut Rng, lat: bool) -> CompSpec {
    let n = 1 + r.below(5) as usize;
    let mut parts = Vec::new();
    if r.below(3) != 0 { // boxes glued face to face along one axis (seams), identity rotations
        let ax = r.below(3) as usize; let mut c = d3::gen_v(r, lat, 4.0); let mut prev: Option<V3> = None;
        for _ in 0..n {
            let he = d3::gen_he(r, lat);
            if let Some(ph) = prev { c[ax] += ph[ax] + he[ax]; if r.below(3) == 0 { let k = (ax + 1) % 3; c[k] += if lat { 0.5 } else { r.uniform(-0.5, 0.5) }; } }
            parts.push((he, d3::Isometry::translation(c.x, c.y, c.z)));
            prev = Some(he);
        }
    } else { for _ in 0..n { parts.push((d3::gen_he(r, lat), d3::gen_iso(r, lat, 4.0))); } }
    CompSpec { parts }
}
fn gen_comp_ray(r: &mut Rng, lat: bool, c: &CompSpec) -> (P3, V3) {
    let (he, m) = &c.parts[r.below(c.parts.len() as u64) as usize];
    let mut p = if lat { V3::new(he.x * *r.pick(&[-0.5, 0.0, 0.5]), he.y * *r.pick(&[-0.5, 0.0, 0.5]), he.z * *r.pick(&[-0.5, 0.0, 0.5])) }
                else { V3::new(he.x * r.uniform(-1.0, 1.0), he.y * r.uniform(-1.0, 1.0), he.z * r.uniform(-1.0, 1.0)) };
    let surf = r.below(3) != 0;
    if surf { let nfix = 1 + if r.below(3) == 0 { r.below(3) as usize } else { 0 }; let start = r.below(3) as usize;
              for k in 0..nfix { let i = (start + k) % 3; p[i] = if r.bool() { he[i] } else { -he[i] }; } }
    let p = m * P3::from(p);
    let size = he.norm() + 4.0;
    let (o, d) = match r.below(8) {
        0 | 1 => { let o = p + far_offset(r, lat, size); (o, if r.below(6) == 0 { o - p } else { p - o }) }
        2 | 3 | 4 => axis_ray(r, lat, p, size),
        5 => (p, rand_dir3(r, lat)),
        _ => (p + far_offset(r, lat, size), rand_dir3(r, lat)),
    };
    let d = if d.norm_squared() == 0.0 { V3::new(0.0, -1.0, 0.0) } else { d };
    (o, scale_dir(r, lat, d))
}

fn gen_polyline2(r: &mut Rng, lat: bool) -> Vec<P2> {
    let n = 2 + r.below(5) as usize;
    let mut p = d2::gen_p(r, lat, 4.0); let mut vs = vec![p];
    for _ in 1..n {
        let s = if lat { let s = *r.pick(&[(1.0, 0.0), (0.0, 1.0), (1.0, 1.0), (0.5, 0.0), (0.0, -1.0), (1.0, -0.5), (2.0, 0.0), (0.0, 0.5)]); V2::new(s.0, s.1) }
                else { loop { let s = V2::new(r.uniform(-2.0, 2.0), r.uniform(-2.0, 2.0)); if s.norm() > 0.1 { break s; } } };
        p += s; vs.push(p);
    }
    vs
}
fn gen_polyline2_ray(r: &mut Rng, lat: bool, vs: &[P2]) -> (P2, V2) {
    let k = r.below(vs.len() as u64 - 1) as usize; let (pa, pb) = (vs[k], vs[k + 1]);
    let t = if lat { *r.pick(&[0.0, 0.25, 0.5, 1.0]) } else { r.unit() };
    let p = pa + (pb - pa) * t;
    let off = loop { let v = if lat { V2::new(r.lattice(16, 1), r.lattice(16, 1)) } else { d2::gen_v(r, false, 6.0) }; if v.norm_squared() > 0.0 { break v; } };
    let (o, d) = match r.below(8) {
        0 | 1 => { let o = p + off; (o, if r.below(6) == 0 { o - p } else { p - o }) }
        2 | 3 | 4 => { let mut d = V2::zeros(); d[r.below(2) as usize] = if r.bool() { 1.0 } else { -1.0 };
                       let back = if lat { r.range(-2, 8) as f64 * 0.5 } else { r.uniform(-0.5, 6.0) }; (p - d * back, d) }
        5 => { let e = pb - pa; let s = if r.bool() { 1.0 } else { -1.0 }; let back = if lat { r.range(-2, 4) as f64 * 0.5 } else { r.uniform(-1.0, 2.0) }; (p - e * (s * back), e * s) }
        6 => (p, rand_dir2(r, lat)),
        _ => (p + off, rand_dir2(r, lat)),
    };
    let d = if d.norm_squared() == 0.0 { V2::new(1.0, 0.0) } else { d };
    let d = if lat { d * *r.pick(&POW2_SCALES) } else { d * (dir_scale(r, false) / d.norm()) };
    (o, d)
}

fn gen_composites(r: &mut Rng, thorough: bool, v: &mut Vec<(String, String)>) {
    let n = if thorough { 3000 } else { 300 };
    for it in 0..n {
        let lat = it % 2 == 0;
        let solid = r.bool();
        // ---------------- one lane of SimdAabb::cast_local_ray (the pruning test of every BVH ray visitor)
        for _ in 0..3 {
            let mut he = d3::gen_he(r, lat);
            // flat / needle boxes: leaf boxes of axis-aligned triangles and segments
            match r.below(6) { 0 => { he[r.below(3) as usize] = 0.0; } 1 => { let k = r.below(3) as usize; he[k] = 0.0; he[(k + 1) % 3] = 0.0; } _ => {} }
            let c = if r.below(4) == 0 { V3::zeros() } else { d3::gen_v(r, lat, 20.0) };
            let mut ins = |r: &mut Rng| -> P3 {
                if lat { P3::new(he.x * *r.pick(&[-0.5, 0.0, 0.5]), he.y * *r.pick(&[-0.5, 0.0, 0.5]), he.z * *r.pick(&[-0.5, 0.0, 0.5])) }
                else { P3::new(he.x * r.uniform(-1.0, 1.0), he.y * r.uniform(-1.0, 1.0), he.z * r.uniform(-1.0, 1.0)) } };
            let mut sur = |r: &mut Rng| -> P3 {
                let mut p = if lat { V3::new(he.x * *r.pick(&[-0.5, 0.0, 0.5]), he.y * *r.pick(&[-0.5, 0.0, 0.5]), he.z * *r.pick(&[-0.5, 0.0, 0.5])) }
                            else { V3::new(he.x * r.uniform(-1.0, 1.0), he.y * r.uniform(-1.0, 1.0), he.z * r.uniform(-1.0, 1.0)) };
                let nfix = 1 + if r.below(3) == 0 { r.below(3) as usize } else { 0 };
                let start = r.below(3) as usize;
                for k in 0..nfix { let i = (start + k) % 3; p[i] = if r.bool() { he[i] } else { -he[i] }; }
                P3::from(p) };
            let (o, d) = gen_ray3(r, lat, he.norm(), &mut ins, &mut sur);
            let (mins, maxs) = if it % 40 == 7 { let i = Aabb::new_invalid(); (i.mins, i.maxs) } else { (P3::from(c - he), P3::from(c + he)) };
            let oc = o + c;
            let (h0, t0) = SimdAabb::splat(Aabb::new(mins, maxs)).cast_local_ray(&SimdRay::splat(Ray::new(oc, d)), SimdReal::splat(f64::MAX));
            let m = gen_max(r, lat, if h0.extract(0) { Some(t0.extract(0)) } else { None }, d.norm());
            v.push(("simd_aabb_cast".into(), format!("{} {} {} {} {}", d3::hp(&mins), d3::hp(&maxs), d3::hp(&oc), d3::hv(&d), hx(m))));
        }
        // ---------------- heightfield (3-D)
        {
            let spec = gen_hf_spec(r, lat); let w = hf_wire(&spec);
            let hf = { let mut a = Args::new(&w); hf3(&mut a) };
            for k in 0..4 {
                let (o, d) = gen_hf_ray(r, lat, &hf);
                let t0 = hf.cast_local_ray(&Ray::new(o, d), f64::MAX, solid);
                let m = gen_max(r, lat, t0, d.norm());
                v.push(("rc_hf3".into(), format!("{} {}", w, tail(&o, &d, m, solid))));
                if k == 0 { let iso = d3::gen_iso(r, lat, 20.0);
                    v.push(("rc_hf3_posed".into(), format!("{} {} {}", w, d3::hiso(&iso), tail(&(iso * o), &(iso * d), m, solid)))); }
            }
        }
        // ---------------- TriMesh
        {
            let spec = gen_mesh(r, lat); let w = mesh_wire(&spec);
            let tm = { let mut a = Args::new(&w); trimesh(&mut a) };
            for _ in 0..3 {
                let (o, d) = gen_mesh_ray(r, lat, &spec);
                let t0 = tm.cast_local_ray(&Ray::new(o, d), f64::MAX, solid);
                let m = gen_max(r, lat, t0, d.norm());
                v.push(("rc_trimesh".into(), format!("{} {}", w, tail(&o, &d, m, solid))));
                v.push(("rc_trimesh_toi".into(), format!("{} {}", w, tail(&o, &d, m, solid))));
            }
        }
        // ---------------- Compound of cuboids
        {
            let spec = gen_comp(r, lat); let w = comp_wire(&spec);
            let c = { let mut a = Args::new(&w); compound(&mut a) };
            for _ in 0..3 {
                let (o, d) = gen_comp_ray(r, lat, &spec);
                let t0 = c.cast_local_ray(&Ray::new(o, d), f64::MAX, solid);
                let m = gen_max(r, lat, t0, d.norm());
                v.push(("rc_compound".into(), format!("{} {}", w, tail(&o, &d, m, solid))));
                v.push(("rc_compound_toi".into(), format!("{} {}", w, tail(&o, &d, m, solid))));
            }
        }
        // ---------------- heightfield (2-D)
        {
            let n = 2 + r.below(6) as usize;
            let pat = r.below(5);
            let hs: Vec<f64> = (0..n).map(|i| match pat { 0 => 0.5, 1 => (i % 2) as f64 * 0.5, _ => if lat { r.range(-4, 4) as f64 * 0.25 } else { r.uniform(-1.0, 1.0) } }).collect();
            let sc = if lat { V2::new(*r.pick(&[2.0, 4.0, 8.0]), *r.pick(&[1.0, 2.0, 0.5])) } else { V2::new(r.uniform(1.0, 10.0), r.uniform(0.3, 3.0)) };
            let mut rem = Vec::new();
            if r.below(3) == 0 { for i in 0..n - 1 { if r.below(3) == 0 { rem.push(i); } } }
            let w = format!("{} {} {} {}{}", n, hxs(hs.iter()), d2::hv(&sc), rem.len(), rem.iter().map(|i| format!(" {}", i)).collect::<String>());
            let hf = { let mut a = Args::new(&w); hf2(&mut a) };
            let vtx = |i: usize| -> P2 { P2::new((-0.5 + i as f64 / (n - 1) as f64) * sc.x, hs[i] * sc.y) };
            let (ymin, ymax) = (hs.iter().cloned().fold(f64::MAX, f64::min) * sc.y, hs.iter().cloned().fold(-f64::MAX, f64::max) * sc.y);
            for _ in 0..4 {
                let k = r.below(n as u64 - 1) as usize; let (pa, pb) = (vtx(k), vtx(k + 1));
                let t = if lat { *r.pick(&[0.0, 0.25, 0.5, 1.0]) } else { r.unit() };
                let p = pa + (pb - pa) * t;
                let off = loop { let v = if lat { V2::new(r.lattice(16, 1), r.lattice(16, 1)) } else { d2::gen_v(r, false, 6.0) }; if v.norm_squared() > 0.0 { break v; } };
                let ymid = if lat { (ymin + ymax) * 0.5 } else { r.uniform(ymin, ymax) };
                let (o, d) = match r.below(9) {
                    0 | 1 => { let o = p + off; (o, if r.below(6) == 0 { o - p } else { p - o }) }
                    2 => { // vertical ray over a vertex / inside a cell, from above or below
                           let up = r.bool(); let gap = if lat { r.range(-1, 6) as f64 * 0.5 } else { r.uniform(-0.5, 3.0) };
                           if up { (P2::new(p.x, ymin - gap), V2::new(0.0, 1.0)) } else { (P2::new(p.x, ymax + gap), V2::new(0.0, -1.0)) } }
                    3 | 4 => { // horizontal ray at a height inside the relief, from outside (entering through a side face) or from inside
                           let x0 = if r.bool() { sc.x * if lat { *r.pick(&[-1.0, -0.75, 0.75, 1.0]) } else { r.uniform(-1.5, 1.5) } } else { p.x };
                           let dirx = if x0 > 0.0 || (x0 > -0.5 * sc.x && r.bool()) { -1.0 } else { 1.0 };
                           (P2::new(x0, ymid), V2::new(dirx, if lat { *r.pick(&[0.0, 0.0, 0.125, -0.125]) } else { r.uniform(-0.2, 0.2) })) }
                    5 => (p, rand_dir2(r, lat)),
                    6 => { let e = pb - pa; let s = if r.bool() { 1.0 } else { -1.0 }; let back = if lat { r.range(-2, 4) as f64 * 0.5 } else { r.uniform(-1.0, 2.0) }; (p - e * (s * back), e * s) }
                    _ => (p + off, rand_dir2(r, lat)),
                };
                let d = if d.norm_squared() == 0.0 { V2::new(1.0, 0.0) } else { d };
                let d = if lat { d * *r.pick(&POW2_SCALES) } else { d * (dir_scale(r, false) / d.norm()) };
                let t0 = hf.cast_local_ray(&Ray2::new(o, d), f64::MAX, solid);
                let m = gen_max(r, lat, t0, d.norm());
                v.push(("rc_hf2".into(), format!("{} {}", w, tail2(&o, &d, m, solid))));
            }
        }
        // ---------------- Polyline (2-D)
        {
            let vs = gen_polyline2(r, lat);
            let w = format!("{} {}", vs.len(), vs.iter().map(d2::hp).collect::<Vec<_>>().join(" "));
            let pl = { let mut a = Args::new(&w); polyline2(&mut a) };
            for _ in 0..3 {
                let (o, d) = gen_polyline2_ray(r, lat, &vs);
                let t0 = pl.cast_local_ray(&Ray2::new(o, d), f64::MAX, solid);
                let m = gen_max(r, lat, t0, d.norm());
                v.push(("rc_polyline2".into(), format!("{} {}", w, tail2(&o, &d, m, solid))));
            }
        }
    }
}

// ------------------------------------------------------------------ generators: 2-D crate (ball, cuboid, triangle)
// (appended last so that the random stream of the earlier families is unchanged)

/// 2-D analogue of `gen_ray3`
fn gen_ray2(r: &mut Rng, lat: bool, size: f64, inside: &mut dyn FnMut(&mut Rng) -> P2, surf: &mut dyn FnMut(&mut Rng) -> P2) -> (P2, V2, u64) {
    let far = |r: &mut Rng| -> P2 {
        if lat { P2::new(r.lattice(24, 2), r.lattice(24, 2)) }
        else { let s = size * r.logu(1.2, 30.0); P2::from(rand_dir2(r, false).normalize() * s) }
    };
    let kind = r.below(8);
    let (o, mut d) = match kind {
        0 | 1 => { let o = far(r); let t = inside(r); (o, t - o) }
        2 => { let o = far(r); let t = surf(r); (o, t - o) }
        3 => { let o = inside(r); (o, rand_dir2(r, lat)) }
        4 => { let o = surf(r); (o, rand_dir2(r, lat)) }
        5 => { let o = far(r); (o, rand_dir2(r, lat)) }
        6 => { // axis-parallel through / near the body (one direction component exactly +-0)
            let t = if r.bool() { inside(r) } else { surf(r) };
            let ax = r.below(2) as usize; let mut d = V2::zeros(); d[ax] = if r.bool() { 1.0 } else { -1.0 };
            if r.bool() { d[1 - ax] = -0.0; }
            let back = if lat { r.range(-2, 6) as f64 * 0.5 } else { r.uniform(-0.5, 3.0) * size };
            (t - d * back, d) }
        _ => { // from a surface point towards another surface point (chord) or away from it
            let o = surf(r); let t = surf(r); (o, if r.bool() { t - o } else { o - t }) }
    };
    if d.norm_squared() == 0.0 { d = V2::new(1.0, 0.0); }
    // direction lengths 2^-6 .. 2^6 / 1e-2 .. 1e3: no very short directions here (the scale-dependent parallelism threshold of
    // the segment cast is exercised by the `segment2_*` family and listed in KNOWN_FINDINGS)
    let s = if lat { *r.pick(&[0.015625, 0.125, 0.5, 1.0, 2.0, 8.0, 64.0]) } else { r.logu(1e-2, 1e3) };
    let d = if lat { d * s } else { d * (s / d.norm()) };
    (o, d, kind)
}

fn gen_2d(r: &mut Rng, thorough: bool, v: &mut Vec<(String, String)>) {
    let n = if thorough { 4000 } else { 400 };
    let mut fam = [0usize; 8];
    for it in 0..n {
        let lat = it % 2 == 0;
        let solid = r.bool();
        let ball_case: (f64, P2, V2, f64);
        let cub_case: (V2, P2, V2, f64);
        // ---------------- ball (2-D)
        {
            let rad = r.pos_extent(lat);
            let mut ins = |r: &mut Rng| -> P2 {
                if lat { let k = *r.pick(&[0.0, 0.25, 0.5]); P2::new(rad * k * (r.range(-1, 1) as f64), rad * k * (r.range(-1, 1) as f64)) }
                else { P2::from(rand_dir2(r, false).normalize() * (rad * r.unit())) } };
            let mut sur = |r: &mut Rng| -> P2 {
                if lat { let sx = if r.bool() { 1.0 } else { -1.0 }; let sy = if r.bool() { 1.0 } else { -1.0 };
                    match r.below(3) { 0 => P2::new(sx * rad, 0.0), 1 => P2::new(0.0, sy * rad), _ => P2::new(0.6 * rad * sx, 0.8 * rad * sy) } }
                else { P2::from(rand_dir2(r, false).normalize() * rad) } };
            let (o, d, k) = gen_ray2(r, lat, rad, &mut ins, &mut sur); fam[k as usize] += 1;
            let t0 = crate::p2::shape::Ball::new(rad).cast_local_ray(&Ray2::new(o, d), f64::MAX, solid);
            let m = gen_max(r, lat, t0, d.norm());
            v.push(("ball2_toi".into(), format!("{} {}", hx(rad), tail2(&o, &d, m, solid))));
            v.push(("ball2_normal".into(), format!("{} {}", hx(rad), tail2(&o, &d, m, solid))));
            ball_case = (rad, o, d, m);
        }
        // ---------------- cuboid (2-D)
        {
            let he = d2::gen_he(r, lat);
            let mut ins = |r: &mut Rng| -> P2 {
                if lat { P2::new(he.x * *r.pick(&[-0.5, 0.0, 0.5]), he.y * *r.pick(&[-0.5, 0.0, 0.5])) }
                else { P2::new(he.x * r.uniform(-1.0, 1.0), he.y * r.uniform(-1.0, 1.0)) } };
            let mut sur = |r: &mut Rng| -> P2 { // edges and corners
                let mut p = if lat { V2::new(he.x * *r.pick(&[-0.5, 0.0, 0.5]), he.y * *r.pick(&[-0.5, 0.0, 0.5])) }
                            else { V2::new(he.x * r.uniform(-1.0, 1.0), he.y * r.uniform(-1.0, 1.0)) };
                let nfix = if r.below(3) == 0 { 2 } else { 1 }; let start = r.below(2) as usize;
                for k in 0..nfix { let i = (start + k) % 2; p[i] = if r.bool() { he[i] } else { -he[i] }; }
                P2::from(p) };
            let (o, d, _) = gen_ray2(r, lat, he.norm(), &mut ins, &mut sur);
            let cub = crate::p2::shape::Cuboid::new(he);
            let t0 = cub.cast_local_ray_and_get_normal(&Ray2::new(o, d), f64::MAX, solid).map(|i| i.time_of_impact);
            let m = gen_max(r, lat, t0, d.norm());
            v.push(("cuboid2_toi".into(), format!("{} {}", d2::hv(&he), tail2(&o, &d, m, solid))));
            v.push(("cuboid2_normal".into(), format!("{} {}", d2::hv(&he), tail2(&o, &d, m, solid))));
            cub_case = (he, o, d, m);
        }
        // ---------------- triangle (2-D): both orientations, rays through vertices / along edges / from inside
        {
            let (pa, pb, pc) = loop {
                let pa = d2::gen_p(r, lat, 10.0); let pb = d2::gen_p(r, lat, 10.0); let pc = d2::gen_p(r, lat, 10.0);
                let (e0, e1, e2) = ((pb - pa).norm(), (pc - pb).norm(), (pa - pc).norm());
                let em = e0.max(e1).max(e2);
                if e0.min(e1).min(e2) > 0.1 && (pb - pa).perp(&(pc - pa)).abs() > 0.05 * em * em { break (pa, pb, pc); }
            };
            let bary = |r: &mut Rng, edge: bool| -> P2 {
                let (mut x, mut y, mut z) = if lat { *r.pick(&[(0.25, 0.25, 0.5), (0.5, 0.25, 0.25), (0.25, 0.5, 0.25), (0.5, 0.5, 0.0), (1.0, 0.0, 0.0), (0.25, 0.75, 0.0)]) }
                    else { let a = r.unit(); let b2 = r.unit() * (1.0 - a); (a, b2, 1.0 - a - b2) };
                if edge { let s = x + y; if s > 0.0 { x /= s; y /= s; z = 0.0; } else { x = 1.0; y = 0.0; z = 0.0; } }
                let (x, y, z) = match r.below(3) { 0 => (x, y, z), 1 => (y, z, x), _ => (z, x, y) };
                P2::from(pa.coords * x + pb.coords * y + pc.coords * z) };
            let mut ins = |r: &mut Rng| -> P2 { if lat { let w = *r.pick(&[(0.25, 0.25, 0.5), (0.5, 0.25, 0.25), (0.25, 0.5, 0.25)]); P2::from(pa.coords * w.0 + pb.coords * w.1 + pc.coords * w.2) } else { bary(r, false) } };
            let mut sur = |r: &mut Rng| -> P2 { bary(r, true) };
            let size = (pb - pa).norm().max((pc - pa).norm());
            let kind = r.below(10);
            let (o, d) = if kind == 0 { // along an edge's line (collinear), origin before / on / after the edge
                let (p, q) = match r.below(3) { 0 => (pa, pb), 1 => (pb, pc), _ => (pc, pa) };
                let t = if lat { *r.pick(&[-1.0, -0.5, 0.0, 0.5, 1.0, 2.0]) } else { r.uniform(-1.5, 2.5) };
                let sgn = if r.bool() { 1.0 } else { -1.0 };
                (p + (q - p) * t, (q - p) * sgn * if lat { *r.pick(&[0.125, 1.0, 2.0]) } else { r.logu(0.1, 10.0) })
            } else { let (o, d, _) = gen_ray2(r, lat, size, &mut ins, &mut sur); (P2::from(o.coords + if kind < 3 { V2::zeros() } else { V2::zeros() }), d) };
            let tri = crate::p2::shape::Triangle::new(pa, pb, pc);
            let t0 = tri.cast_local_ray_and_get_normal(&Ray2::new(o, d), f64::MAX, solid).map(|i| i.time_of_impact);
            let m = gen_max(r, lat, t0, d.norm());
            let sh = format!("{} {} {}", d2::hp(&pa), d2::hp(&pb), d2::hp(&pc));
            v.push(("tri2_normal".into(), format!("{} {}", sh, tail2(&o, &d, m, solid))));
            let iso = d2::gen_iso(r, lat, 50.0);
            v.push(("tri2_posed".into(), format!("{} {} {}", sh, d2::hiso(&iso), tail2(&(iso * o), &(iso * d), m, solid))));
            // posed 2-D ball / cuboid: the cases of this iteration's ball and cuboid blocks under the same isometry
            { let (rad, o, d, m) = ball_case; let t = tail2(&(iso * o), &(iso * d), m, solid);
              v.push(("ball2_posed".into(), format!("{} {} {}", hx(rad), d2::hiso(&iso), t)));
              v.push(("ball2_posed_toi".into(), format!("{} {} {}", hx(rad), d2::hiso(&iso), t))); }
            { let (he, o, d, m) = cub_case; let t = tail2(&(iso * o), &(iso * d), m, solid);
              v.push(("cuboid2_posed".into(), format!("{} {} {}", d2::hv(&he), d2::hiso(&iso), t)));
              v.push(("cuboid2_posed_toi".into(), format!("{} {} {}", d2::hv(&he), d2::hiso(&iso), t))); }
        }
    }
    if std::env::var("VERIF_FAMILIES").is_ok() { eprintln!("C04 gen_2d ray kinds (ball2): {:?}", fam); }
}

// ------------------------------------------------------------------ generators: convex polytopes and round cuboids (GJK casts)
fn gen_gjk_more(r: &mut Rng, thorough: bool, v: &mut Vec<(String, String)>) {
    let n = if thorough { 3000 } else { 300 };
    for it in 0..n {
        let lat = it % 2 == 0;
        let solid = r.bool();
        // ---------------- convex polyhedron: hull of 4..9 points (lattice: half-integers in [-2,2]^3; random: box of a random size)
        {
            let (ps, hull) = loop {
                let np = 4 + r.below(6) as usize;
                let sz = if lat { 1.0 } else { r.logu(0.2, 20.0) };
                let ps: Vec<P3> = (0..np).map(|_| if lat { P3::new(r.range(-4, 4) as f64 * 0.5, r.range(-4, 4) as f64 * 0.5, r.range(-4, 4) as f64 * 0.5) }
                                                   else { P3::new(r.uniform(-1.0, 1.0) * sz, r.uniform(-1.0, 1.0) * sz, r.uniform(-1.0, 1.0) * sz) }).collect();
                // reject flat point sets (volume of the first non-degenerate tetrahedron)
                let mut vol: f64 = 0.0;
                for i in 1..np { for j in (i + 1)..np { for k in (j + 1)..np {
                    vol = vol.max((ps[i] - ps[0]).cross(&(ps[j] - ps[0])).dot(&(ps[k] - ps[0])).abs()); } } }
                if vol < 0.05 * sz * sz * sz { continue; }
                if let Some(h) = crate::p3::shape::ConvexPolyhedron::from_convex_hull(&ps) { break (ps, h); }
            };
            let hp: Vec<P3> = hull.points().to_vec();
            let c = hp.iter().fold(V3::zeros(), |a, p| a + p.coords) / hp.len() as f64;
            let size = hp.iter().map(|p| (p.coords - c).norm()).fold(0.0, f64::max);
            let mut ins = |r: &mut Rng| -> P3 { // convex combination biased to the centroid
                let i = r.below(hp.len() as u64) as usize; let t = if lat { *r.pick(&[0.0, 0.25, 0.5]) } else { r.unit() * 0.9 };
                P3::from(c + (hp[i].coords - c) * t) };
            let mut sur = |r: &mut Rng| -> P3 { // vertex, or a point of a hull edge / chord between two vertices
                let i = r.below(hp.len() as u64) as usize; let j = r.below(hp.len() as u64) as usize;
                let t = if r.below(3) == 0 { 0.0 } else if lat { 0.5 } else { r.unit() };
                P3::from(hp[i].coords * (1.0 - t) + hp[j].coords * t) };
            let (o, d) = gen_ray3(r, lat, size.max(0.1), &mut ins, &mut sur);
            let t0 = hull.cast_local_ray(&Ray::new(o, d), f64::MAX, solid);
            let m = gen_max(r, lat, t0, d.norm());
            let pts = ps.iter().map(|p| d3::hp(p)).collect::<Vec<_>>().join(" ");
            v.push(("convpoly_normal".into(), format!("{} {} {}", ps.len(), pts, tail(&o, &d, m, solid))));
        }
        // ---------------- round cuboid
        {
            let he = if lat { V3::new(*r.pick(&[0.5, 1.0, 2.0]), *r.pick(&[0.5, 1.0, 2.0]), *r.pick(&[0.5, 1.0, 2.0])) } else { V3::new(r.logu(0.1, 10.0), r.logu(0.1, 10.0), r.logu(0.1, 10.0)) };
            let br = if lat { *r.pick(&[0.25, 0.5, 1.0]) } else { r.logu(0.05, 2.0) };
            let mut ins = |r: &mut Rng| -> P3 {
                if lat { P3::new(he.x * *r.pick(&[-0.5, 0.0, 0.5]), he.y * *r.pick(&[-0.5, 0.0, 0.5]), he.z * *r.pick(&[-0.5, 0.0, 0.5])) }
                else { P3::new((he.x + 0.5 * br) * r.uniform(-1.0, 1.0), (he.y + 0.5 * br) * r.uniform(-1.0, 1.0), (he.z + 0.5 * br) * r.uniform(-1.0, 1.0)) } };
            let mut sur = |r: &mut Rng| -> P3 { // a point of the inner box surface pushed out by br along a face / edge / corner direction
                let mut p = V3::new(he.x * r.uniform(-1.0, 1.0), he.y * r.uniform(-1.0, 1.0), he.z * r.uniform(-1.0, 1.0));
                if lat { p = V3::new(he.x * *r.pick(&[-0.5, 0.0, 0.5]), he.y * *r.pick(&[-0.5, 0.0, 0.5]), he.z * *r.pick(&[-0.5, 0.0, 0.5])); }
                let nfix = 1 + r.below(3) as usize; let start = r.below(3) as usize; let mut nrm = V3::zeros();
                for k in 0..nfix { let i = (start + k) % 3; let sg = if r.bool() { 1.0 } else { -1.0 }; p[i] = sg * he[i]; nrm[i] = sg; }
                if lat && nfix == 2 { let i = start % 3; let j = (start + 1) % 3; nrm[i] *= 0.6; nrm[j] *= 0.8; P3::from(p + nrm * br) }
                else if lat && nfix == 3 { nrm = V3::zeros(); nrm[start % 3] = if r.bool() { 1.0 } else { -1.0 }; p[start % 3] = nrm[start % 3] * he[start % 3]; P3::from(p + nrm * br) }
                else { P3::from(p + nrm.normalize() * br) } };
            let (o, d) = gen_ray3(r, lat, he.norm() + br, &mut ins, &mut sur);
            let rc = crate::p3::shape::RoundCuboid { inner_shape: Cuboid::new(he), border_radius: br };
            let t0 = rc.cast_local_ray(&Ray::new(o, d), f64::MAX, solid);
            let m = gen_max(r, lat, t0, d.norm());
            v.push(("roundcuboid_normal".into(), format!("{} {} {}", d3::hv(&he), hx(br), tail(&o, &d, m, solid))));
        }
        // ---------------- convex polygon (2-D): hull of 3..8 points
        {
            let (ps, hull) = loop {
                let np = 3 + r.below(6) as usize;
                let sz = if lat { 1.0 } else { r.logu(0.2, 20.0) };
                let ps: Vec<P2> = (0..np).map(|_| if lat { P2::new(r.range(-4, 4) as f64 * 0.5, r.range(-4, 4) as f64 * 0.5) }
                                                   else { P2::new(r.uniform(-1.0, 1.0) * sz, r.uniform(-1.0, 1.0) * sz) }).collect();
                let mut ar: f64 = 0.0;
                for i in 1..np { for j in (i + 1)..np { ar = ar.max((ps[i] - ps[0]).perp(&(ps[j] - ps[0])).abs()); } }
                if ar < 0.1 * sz * sz { continue; }
                if let Some(h) = crate::p2::shape::ConvexPolygon::from_convex_hull(&ps) { if h.points().len() >= 3 { break (ps, h); } }
            };
            let hp: Vec<P2> = hull.points().to_vec();
            let c = hp.iter().fold(V2::zeros(), |a, p| a + p.coords) / hp.len() as f64;
            let size = hp.iter().map(|p| (p.coords - c).norm()).fold(0.0, f64::max);
            let mut ins = |r: &mut Rng| -> P2 { let i = r.below(hp.len() as u64) as usize; let t = if lat { *r.pick(&[0.0, 0.25, 0.5]) } else { r.unit() * 0.9 }; P2::from(c + (hp[i].coords - c) * t) };
            let mut sur = |r: &mut Rng| -> P2 { let i = r.below(hp.len() as u64) as usize; let j = (i + 1) % hp.len();
                let t = if r.below(3) == 0 { 0.0 } else if lat { 0.5 } else { r.unit() }; P2::from(hp[i].coords * (1.0 - t) + hp[j].coords * t) };
            let (o, d, _) = gen_ray2(r, lat, size.max(0.1), &mut ins, &mut sur);
            let t0 = hull.cast_local_ray(&Ray2::new(o, d), f64::MAX, solid);
            let m = gen_max(r, lat, t0, d.norm());
            let pts = ps.iter().map(|p| d2::hp(p)).collect::<Vec<_>>().join(" ");
            v.push(("convpoly2_normal".into(), format!("{} {} {}", ps.len(), pts, tail2(&o, &d, m, solid))));
        }
    }
}
