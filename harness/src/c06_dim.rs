// Dimension-generic part of the C06 harness; `include!`d twice by c06.rs (module m3 with px = parry3d_f64,
// dx = util::d3 and module m2 with px = parry2d_f64, dx = util::d2).  The including module provides:
//   DIM, iso_id(), fiso(), hiso2/3 via dx, zero_angvel(), convex(points), gen_unit(), gen_dirs …

use px::query::details::{
    cast_shapes_ball_ball, cast_shapes_halfspace_support_map, cast_shapes_support_map_halfspace, ray_toi_with_ball,
};
use px::query::{self, NonlinearRigidMotion, Ray, ShapeCastHit, ShapeCastOptions, ShapeCastStatus};
use px::shape::{Ball, Capsule, Cuboid, HalfSpace, Segment, Shape, Triangle};
use px::na::Unit;

type V = dx::Vector<f64>;
type P = dx::Point<f64>;
type Iso = dx::Isometry<f64>;

fn opts(a: &mut Args) -> ShapeCastOptions {
    let max_time_of_impact = a.f();
    let target_distance = a.f();
    let stop_at_penetration = a.b();
    let compute_impact_geometry_on_penetration = a.b();
    ShapeCastOptions { max_time_of_impact, target_distance, stop_at_penetration, compute_impact_geometry_on_penetration }
}
fn hopts(o: &ShapeCastOptions) -> String {
    format!("{} {} {} {}", hx(o.max_time_of_impact), hx(o.target_distance), b(o.stop_at_penetration), b(o.compute_impact_geometry_on_penetration))
}
fn status_code(s: ShapeCastStatus) -> u32 {
    match s {
        ShapeCastStatus::OutOfIterations => 0,
        ShapeCastStatus::Converged => 1,
        ShapeCastStatus::Failed => 2,
        ShapeCastStatus::PenetratingOrWithinTargetDist => 3,
    }
}
fn status_of(c: usize) -> ShapeCastStatus {
    match c {
        0 => ShapeCastStatus::OutOfIterations,
        1 => ShapeCastStatus::Converged,
        2 => ShapeCastStatus::Failed,
        _ => ShapeCastStatus::PenetratingOrWithinTargetDist,
    }
}
fn fhit(h: &ShapeCastHit) -> String {
    format!("{} {} {} {} {} {}", ff(h.time_of_impact), dx::fp(&h.witness1), dx::fp(&h.witness2), dx::fv(&h.normal1), dx::fv(&h.normal2), status_code(h.status))
}
fn fohit(h: &Option<ShapeCastHit>) -> String {
    match h { None => "none".into(), Some(h) => format!("some {}", fhit(h)) }
}
fn hit(a: &mut Args) -> ShapeCastHit {
    let time_of_impact = a.f();
    let witness1 = dx::p(a);
    let witness2 = dx::p(a);
    let normal1 = Unit::new_unchecked(dx::v(a));
    let normal2 = Unit::new_unchecked(dx::v(a));
    let status = status_of(a.u());
    ShapeCastHit { time_of_impact, witness1, witness2, normal1, normal2, status }
}

/// shape token stream: `b r` | `c he` | `h n` | `p a b r` (capsule) | `t a b c` | `s a b` | `x k p1..pk` (convex hull)
fn shape(a: &mut Args) -> Box<dyn Shape> {
    match a.tok() {
        "b" => Box::new(Ball::new(a.f())),
        "c" => Box::new(Cuboid::new(dx::v(a))),
        "h" => Box::new(HalfSpace::new(Unit::new_unchecked(dx::v(a)))),
        "p" => { let p = dx::p(a); let q = dx::p(a); let r = a.f(); Box::new(Capsule::new(p, q, r)) }
        "t" => { let p = dx::p(a); let q = dx::p(a); let r = dx::p(a); Box::new(Triangle::new(p, q, r)) }
        "s" => { let p = dx::p(a); let q = dx::p(a); Box::new(Segment::new(p, q)) }
        "x" => { let k = a.u(); let pts: Vec<P> = (0..k).map(|_| dx::p(a)).collect(); convex(&pts) }
        t => panic!("bad shape tag {}", t),
    }
}

fn moved(pos: &Iso, vel: &V, s: f64) -> Iso {
    let mut m = *pos;
    m.translation.vector += *vel * s;
    m
}

pub fn exec(func: &str, a: &mut Args) -> String {
    match func {
        "ray_ball" => {
            let c = dx::p(a); let r = a.f(); let o = dx::p(a); let d = dx::v(a); let solid = a.b();
            let (inside, t) = ray_toi_with_ball(&c, r, &Ray::new(o, d), solid);
            match t { None => format!("{} none", b(inside)), Some(t) => format!("{} some {}", b(inside), ff(t)) }
        }
        "ballball" => {
            let pos12 = dx::iso(a); let v = dx::v(a); let r1 = a.f(); let r2 = a.f(); let o = opts(a);
            fohit(&cast_shapes_ball_ball(&pos12, &v, &Ball::new(r1), &Ball::new(r2), o))
        }
        "hs_ball" => {
            let pos12 = dx::iso(a); let v = dx::v(a); let n = dx::v(a); let r = a.f(); let o = opts(a);
            fohit(&cast_shapes_halfspace_support_map(&pos12, &v, &HalfSpace::new(Unit::new_unchecked(n)), &Ball::new(r), o))
        }
        "hs_cuboid" => {
            let pos12 = dx::iso(a); let v = dx::v(a); let n = dx::v(a); let he = dx::v(a); let o = opts(a);
            fohit(&cast_shapes_halfspace_support_map(&pos12, &v, &HalfSpace::new(Unit::new_unchecked(n)), &Cuboid::new(he), o))
        }
        "ball_hs" => {
            let pos12 = dx::iso(a); let v = dx::v(a); let r = a.f(); let n = dx::v(a); let o = opts(a);
            fohit(&cast_shapes_support_map_halfspace(&pos12, &v, &Ball::new(r), &HalfSpace::new(Unit::new_unchecked(n)), o))
        }
        "cuboid_hs" => {
            let pos12 = dx::iso(a); let v = dx::v(a); let he = dx::v(a); let n = dx::v(a); let o = opts(a);
            fohit(&cast_shapes_support_map_halfspace(&pos12, &v, &Cuboid::new(he), &HalfSpace::new(Unit::new_unchecked(n)), o))
        }
        "swapped" => { let h = hit(a); fhit(&h.swapped()) }
        "transform1" => { let h = hit(a); let m = dx::iso(a); fhit(&h.transform1_by(&m)) }
        "free" => {
            let pos1 = dx::iso(a); let vel1 = dx::v(a); let g1 = shape(a);
            let pos2 = dx::iso(a); let vel2 = dx::v(a); let g2 = shape(a); let o = opts(a);
            match query::cast_shapes(&pos1, &vel1, &*g1, &pos2, &vel2, &*g2, o) {
                Err(_) => "unsupported".into(),
                Ok(h) => fohit(&h),
            }
        }
        "nlpos" => {
            let start = dx::iso(a); let lc = dx::p(a); let lv = dx::v(a); let t = a.f();
            let m = NonlinearRigidMotion::new(start, lc, lv, zero_angvel());
            fiso(&m.position_at_time(t))
        }
        // oracle-only end-to-end run: real cast + real distance queries at the returned / sampled times
        "e2e" => {
            let pos1 = dx::iso(a); let vel1 = dx::v(a); let g1 = shape(a);
            let pos2 = dx::iso(a); let vel2 = dx::v(a); let g2 = shape(a); let o = opts(a);
            let dist = |s: f64| -> String {
                match query::distance(&moved(&pos1, &vel1, s), &*g1, &moved(&pos2, &vel2, s), &*g2) {
                    Ok(d) => ff(d), Err(_) => "nan".into() }
            };
            let lin = query::cast_shapes(&pos1, &vel1, &*g1, &pos2, &vel2, &*g2, o);
            let mut s = String::new();
            match &lin {
                Err(_) => return "unsupported".into(),
                Ok(None) => {
                    s.push_str("none");
                    for k in 0..33 { s.push(' '); s.push_str(&dist(o.max_time_of_impact * (k as f64) / 32.0)); }
                }
                Ok(Some(h)) => {
                    s.push_str(&format!("some {} {} {}", ff(h.time_of_impact), status_code(h.status), dist(h.time_of_impact)));
                    for k in 1..=12 { s.push(' '); s.push_str(&dist(h.time_of_impact * (1.0 - (0.5f64).powi(k)))); }
                    // witnesses in world space at the time of impact + normals in world space
                    let p1 = moved(&pos1, &vel1, h.time_of_impact); let p2 = moved(&pos2, &vel2, h.time_of_impact);
                    s.push_str(&format!(" {} {} {} {}", dx::fp(&(p1 * h.witness1)), dx::fp(&(p2 * h.witness2)), dx::fv(&(p1 * *h.normal1)), dx::fv(&(p2 * *h.normal2))));
                }
            }
            // initial distance (for the status clause)
            s.push_str(&format!(" d0 {}", dist(0.0)));
            s
        }
        // oracle-only: nonlinear cast with zero angular velocity against the linear cast (target_distance = 0)
        "nl" => {
            let pos1 = dx::iso(a); let vel1 = dx::v(a); let g1 = shape(a);
            let pos2 = dx::iso(a); let vel2 = dx::v(a); let g2 = shape(a); let o = opts(a);
            let lin = query::cast_shapes(&pos1, &vel1, &*g1, &pos2, &vel2, &*g2, o);
            let mut s = match &lin {
                Err(_) => return "unsupported".into(),
                Ok(None) => "none".to_string(),
                Ok(Some(h)) => format!("some {} {}", ff(h.time_of_impact), status_code(h.status)),
            };
            // the nonlinear cast runs under a watchdog: a hang is reported, not waited for
            let (tx, rx) = std::sync::mpsc::channel();
            let (g1c, g2c) = (g1.clone_dyn(), g2.clone_dyn());
            std::thread::spawn(move || {
                let m1 = NonlinearRigidMotion::new(pos1, P::origin(), vel1, zero_angvel());
                let m2 = NonlinearRigidMotion::new(pos2, P::origin(), vel2, zero_angvel());
                let r = std::panic::catch_unwind(std::panic::AssertUnwindSafe(|| {
                    match query::cast_shapes_nonlinear(&m1, &*g1c, &m2, &*g2c, 0.0, o.max_time_of_impact, o.stop_at_penetration) {
                        Err(_) => "unsupported".to_string(),
                        Ok(None) => "none".to_string(),
                        Ok(Some(h)) => {
                            let d = match query::distance(&moved(&pos1, &vel1, h.time_of_impact), &*g1c, &moved(&pos2, &vel2, h.time_of_impact), &*g2c) {
                                Ok(d) => ff(d), Err(_) => "nan".into() };
                            format!("some {} {} {}", ff(h.time_of_impact), status_code(h.status), d)
                        }
                    }
                })).unwrap_or_else(|_| "panic".to_string());
                let _ = tx.send(r);
            });
            match rx.recv_timeout(std::time::Duration::from_millis(2000)) {
                Ok(r) => s.push_str(&format!(" nl {}", r)),
                Err(_) => s.push_str(" nl hang"),
            }
            s
        }
        _ => "nofn".into(),
    }
}
