// Dimension-generic part of the C06 harness; `include!`d twice by c06.rs (module m3 with px = parry3d_f64,
// dx = util::d3 and module m2 with px = parry2d_f64, dx = util::d2).  The including module provides:
//   DIM, iso_id(), fiso(), hiso2/3 via dx, zero_angvel(), convex(points), gen_unit(), gen_dirs …

use px::query::details::{
    cast_shapes_ball_ball, cast_shapes_halfspace_support_map, cast_shapes_support_map_halfspace, ray_toi_with_ball,
};
use px::query::{self, NonlinearRigidMotion, Ray, ShapeCastHit, ShapeCastOptions, ShapeCastStatus};
use px::bounding_volume::BoundingVolume;
use px::shape::{Ball, Capsule, Compound, Cuboid, HalfSpace, Polyline, Segment, Shape, SharedShape, Triangle};
use px::na::Unit;

type V = dx::Vector<f64>;
type P = dx::Point<f64>;
type Iso = dx::Isometry<f64>;

fn opts(a: &mut Args) -> ShapeCastOptions {
    let max_time_of_impact = a.f();
    let target_distance = a.f();
    let stop_at_penetration = a.b();
    let compute_impact_geometry_on_penetration = a.b();
    ShapeCastOptions { max_time_of_impact, target_distance, stop_at_penetration, compute_impact_geometry_on_penetration }
}
fn hopts(o: &ShapeCastOptions) -> String {
    format!("{} {} {} {}", hx(o.max_time_of_impact), hx(o.target_distance), b(o.stop_at_penetration), b(o.compute_impact_geometry_on_penetration))
}
fn status_code(s: ShapeCastStatus) -> u32 {
    match s {
        ShapeCastStatus::OutOfIterations => 0,
        ShapeCastStatus::Converged => 1,
        ShapeCastStatus::Failed => 2,
        ShapeCastStatus::PenetratingOrWithinTargetDist => 3,
    }
}
fn status_of(c: usize) -> ShapeCastStatus {
    match c {
        0 => ShapeCastStatus::OutOfIterations,
        1 => ShapeCastStatus::Converged,
        2 => ShapeCastStatus::Failed,
        _ => ShapeCastStatus::PenetratingOrWithinTargetDist,
    }
}
fn fhit(h: &ShapeCastHit) -> String {
    format!("{} {} {} {} {} {}", ff(h.time_of_impact), dx::fp(&h.witness1), dx::fp(&h.witness2), dx::fv(&h.normal1), dx::fv(&h.normal2), status_code(h.status))
}
fn fohit(h: &Option<ShapeCastHit>) -> String {
    match h { None => "none".into(), Some(h) => format!("some {}", fhit(h)) }
}
fn hit(a: &mut Args) -> ShapeCastHit {
    let time_of_impact = a.f();
    let witness1 = dx::p(a);
    let witness2 = dx::p(a);
    let normal1 = Unit::new_unchecked(dx::v(a));
    let normal2 = Unit::new_unchecked(dx::v(a));
    let status = status_of(a.u());
    ShapeCastHit { time_of_impact, witness1, witness2, normal1, normal2, status }
}

/// shape token stream: `b r` | `c he` | `h n` | `p a b r` (capsule) | `t a b c` | `s a b` | `x k p1..pk` (convex hull)
fn shape(a: &mut Args) -> Box<dyn Shape> {
    match a.tok() {
        "b" => Box::new(Ball::new(a.f())),
        "c" => Box::new(Cuboid::new(dx::v(a))),
        "h" => Box::new(HalfSpace::new(Unit::new_unchecked(dx::v(a)))),
        "p" => { let p = dx::p(a); let q = dx::p(a); let r = a.f(); Box::new(Capsule::new(p, q, r)) }
        "t" => { let p = dx::p(a); let q = dx::p(a); let r = dx::p(a); Box::new(Triangle::new(p, q, r)) }
        "s" => { let p = dx::p(a); let q = dx::p(a); Box::new(Segment::new(p, q)) }
        "x" => { let k = a.u(); let pts: Vec<P> = (0..k).map(|_| dx::p(a)).collect(); convex(&pts) }
        // composites: `hf …` height field (per-dimension encoding, see c06.rs), `cp k (iso shape)*k` compound,
        // `tm nv pts nt (a b c)*nt` triangle mesh, `pl nv pts` polyline of consecutive segments
        "hf" => heightfield(a),
        "cp" => { let k = a.u(); let parts: Vec<(Iso, SharedShape)> = (0..k).map(|_| { let m = dx::iso(a); let g = shape(a); (m, SharedShape(std::sync::Arc::from(g))) }).collect();
                  Box::new(Compound::new(parts)) }
        "tm" => { let nv = a.u(); let pts: Vec<P> = (0..nv).map(|_| dx::p(a)).collect(); let nt = a.u();
                  let idx: Vec<[u32; 3]> = (0..nt).map(|_| [a.u() as u32, a.u() as u32, a.u() as u32]).collect(); trimesh(pts, idx) }
        "pl" => { let nv = a.u(); let pts: Vec<P> = (0..nv).map(|_| dx::p(a)).collect(); Box::new(Polyline::new(pts, None)) }
        t => panic!("bad shape tag {}", t),
    }
}

fn moved(pos: &Iso, vel: &V, s: f64) -> Iso {
    let mut m = *pos;
    m.translation.vector += *vel * s;
    m
}

/// the parts of a (possibly composite) shape, each with its pose in the shape's local frame
fn parts(g: &dyn Shape) -> Vec<(Iso, Box<dyn Shape>)> {
    if let Some(c) = g.as_compound() { return c.shapes().iter().map(|(m, s)| (*m, s.clone_dyn())).collect(); }
    if let Some(t) = g.as_trimesh() { return t.triangles().map(|t| (Iso::identity(), Box::new(t) as Box<dyn Shape>)).collect(); }
    if let Some(p) = g.as_polyline() { return p.segments().map(|s| (Iso::identity(), Box::new(s) as Box<dyn Shape>)).collect(); }
    if let Some(h) = g.as_heightfield() { return hf_parts(h); }
    vec![(Iso::identity(), g.clone_dyn())]
}
fn is_composite(g: &dyn Shape) -> bool {
    g.as_compound().is_some() || g.as_trimesh().is_some() || g.as_polyline().is_some() || g.as_heightfield().is_some()
}
/// distance = min over pairs of parts of the real primitive `query::distance` (NaN if a pair is unsupported)
fn parts_distance(pos1: &Iso, p1: &[(Iso, Box<dyn Shape>)], pos2: &Iso, p2: &[(Iso, Box<dyn Shape>)]) -> f64 {
    let mut best = f64::INFINITY;
    for (m1, g1) in p1 { for (m2, g2) in p2 {
        match query::distance(&(pos1 * m1), &**g1, &(pos2 * m2), &**g2) { Ok(d) => { if d < best { best = d; } } Err(_) => return f64::NAN }
    } }
    best
}
/// first time of impact = min over pairs of parts of the real linear cast (`None` if no pair hits)
fn parts_cast(pos1: &Iso, vel1: &V, p1: &[(Iso, Box<dyn Shape>)], pos2: &Iso, vel2: &V, p2: &[(Iso, Box<dyn Shape>)], o: ShapeCastOptions) -> Result<Option<f64>, ()> {
    let mut best: Option<f64> = None;
    for (m1, g1) in p1 { for (m2, g2) in p2 {
        match query::cast_shapes(&(pos1 * m1), vel1, &**g1, &(pos2 * m2), vel2, &**g2, o) {
            Ok(Some(h)) => { if best.map_or(true, |b| h.time_of_impact < b) { best = Some(h.time_of_impact); } }
            Ok(None) => {}
            Err(_) => return Err(()),
        }
    } }
    Ok(best)
}

/// the same reduction, but with each part cast exactly as the composite traversals do it: in the local frame of the
/// composite (`pos12 = pos1⁻¹ pos2`, or its inverse when the composite is the second shape), the part's own pose removed
/// with `inv_mul` / `inverse_transform_vector`.  Mathematically the same casts as `parts_cast`; numerically the ones the
/// traversal has to reproduce bit for bit.
fn parts_cast_local(pos1: &Iso, vel1: &V, g1: &dyn Shape, pos2: &Iso, vel2: &V, g2: &dyn Shape, o: ShapeCastOptions) -> Result<Option<f64>, ()> {
    parts_cast_local_idx(pos1, vel1, g1, pos2, vel2, g2, o).map(|r| r.map(|x| x.0))
}
/// the same, also telling which part hits first
fn parts_cast_local_idx(pos1: &Iso, vel1: &V, g1: &dyn Shape, pos2: &Iso, vel2: &V, g2: &dyn Shape, o: ShapeCastOptions) -> Result<Option<(f64, usize)>, ()> {
    use px::query::{DefaultQueryDispatcher, QueryDispatcher};
    let pos12 = pos1.inv_mul(pos2);
    let vel12 = pos1.inverse_transform_vector(&(vel2 - vel1));
    let (comp, other, p, v) = if is_composite(g1) { (g1, g2, pos12, vel12) } else { (g2, g1, pos12.inverse(), -pos12.inverse_transform_vector(&vel12)) };
    if is_composite(other) { return Err(()); }
    let mut best: Option<(f64, usize)> = None;
    for (i, (m, part)) in parts(comp).into_iter().enumerate() {
        match DefaultQueryDispatcher.cast_shapes(&m.inv_mul(&p), &m.inverse_transform_vector(&v), &*part, other, o) {
            Ok(Some(h)) => { if best.map_or(true, |b| h.time_of_impact < b.0) { best = Some((h.time_of_impact, i)); } }
            Ok(None) => {}
            Err(_) => return Err(()),
        }
    }
    Ok(best)
}

/// A dispatcher that records which parts of a height field the cell walk hands over (and answers `None`, so that the
/// walk is never cut short by a hit): the trace of `cast_shapes_heightfield_shape`.
struct RecDispatcher { log: std::sync::Mutex<Vec<Box<dyn Shape>>> }
impl query::QueryDispatcher for RecDispatcher {
    fn intersection_test(&self, _: &Iso, _: &dyn Shape, _: &dyn Shape) -> Result<bool, query::Unsupported> { Err(query::Unsupported) }
    fn distance(&self, _: &Iso, _: &dyn Shape, _: &dyn Shape) -> Result<f64, query::Unsupported> { Err(query::Unsupported) }
    fn contact(&self, _: &Iso, _: &dyn Shape, _: &dyn Shape, _: f64) -> Result<Option<query::Contact>, query::Unsupported> { Err(query::Unsupported) }
    fn closest_points(&self, _: &Iso, _: &dyn Shape, _: &dyn Shape, _: f64) -> Result<query::ClosestPoints, query::Unsupported> { Err(query::Unsupported) }
    fn cast_shapes(&self, _: &Iso, _: &V, g1: &dyn Shape, _: &dyn Shape, _: ShapeCastOptions) -> Result<Option<ShapeCastHit>, query::Unsupported> {
        self.log.lock().unwrap().push(g1.clone_dyn()); Ok(None)
    }
    fn cast_shapes_nonlinear(&self, _: &NonlinearRigidMotion, _: &dyn Shape, _: &NonlinearRigidMotion, _: &dyn Shape, _: f64, _: f64, _: bool) -> Result<Option<ShapeCastHit>, query::Unsupported> { Err(query::Unsupported) }
}
/// answers the k-th part cast with the k-th entry of a script (`None` beyond its end); the hit carries `k` in `witness2.x`
struct ScriptDispatcher { script: Vec<Option<f64>>, calls: std::sync::Mutex<usize> }
impl query::QueryDispatcher for ScriptDispatcher {
    fn intersection_test(&self, _: &Iso, _: &dyn Shape, _: &dyn Shape) -> Result<bool, query::Unsupported> { Err(query::Unsupported) }
    fn distance(&self, _: &Iso, _: &dyn Shape, _: &dyn Shape) -> Result<f64, query::Unsupported> { Err(query::Unsupported) }
    fn contact(&self, _: &Iso, _: &dyn Shape, _: &dyn Shape, _: f64) -> Result<Option<query::Contact>, query::Unsupported> { Err(query::Unsupported) }
    fn closest_points(&self, _: &Iso, _: &dyn Shape, _: &dyn Shape, _: f64) -> Result<query::ClosestPoints, query::Unsupported> { Err(query::Unsupported) }
    fn cast_shapes(&self, _: &Iso, _: &V, _: &dyn Shape, _: &dyn Shape, _: ShapeCastOptions) -> Result<Option<ShapeCastHit>, query::Unsupported> {
        let mut c = self.calls.lock().unwrap();
        let k = *c; *c += 1;
        Ok(self.script.get(k).cloned().flatten().map(|t| {
            let mut w2 = P::origin(); w2[0] = k as f64;
            ShapeCastHit { time_of_impact: t, witness1: P::origin(), witness2: w2, normal1: V::x_axis(), normal2: V::x_axis(), status: ShapeCastStatus::Converged }
        }))
    }
    fn cast_shapes_nonlinear(&self, _: &NonlinearRigidMotion, _: &dyn Shape, _: &NonlinearRigidMotion, _: &dyn Shape, _: f64, _: f64, _: bool) -> Result<Option<ShapeCastHit>, query::Unsupported> { Err(query::Unsupported) }
}
/// `ns (0 | 1 toi)*ns`
fn parse_script(a: &mut Args) -> Vec<Option<f64>> {
    let n = a.u();
    (0..n).map(|_| if a.u() == 0 { None } else { Some(a.f()) }).collect()
}
/// the result of a height-field cast run with a `ScriptDispatcher`: `none calls` | `some toi k calls`
fn fmt_script_result(r: Result<Option<ShapeCastHit>, query::Unsupported>, d: &ScriptDispatcher) -> String {
    let calls = *d.calls.lock().unwrap();
    match r {
        Err(_) => "unsupported".into(),
        Ok(None) => format!("none {}", calls),
        Ok(Some(h)) => format!("some {} {} {}", ff(h.time_of_impact), h.witness2[0] as usize, calls),
    }
}
/// script for `calls`-ish part casts: about half `None`, lattice / random times, repeated minima, `f64::MAX`, `+inf`
fn gen_script(r: &mut Rng) -> String {
    let n = r.below(40) as usize;
    let mut s = format!("{}", n);
    let base = if r.bool() { r.range(0, 8) as f64 * 0.25 } else { r.uniform(0.0, 4.0) };
    for _ in 0..n {
        match r.below(8) {
            0 | 1 | 2 | 3 => s.push_str(" 0"),
            4 => s.push_str(&format!(" 1 {}", hx(base))),                       // ties at a common value
            5 => s.push_str(&format!(" 1 {}", hx(base + r.range(-2, 6) as f64 * 0.25))),
            6 => s.push_str(&format!(" 1 {}", hx(r.uniform(0.0, 8.0)))),
            _ => s.push_str(&format!(" 1 {}", hx(*r.pick(&[f64::MAX, f64::INFINITY, 0.0, 1.0e300])))),
        }
    }
    s
}
pub fn exec(func: &str, a: &mut Args) -> String {
    match func {
        "ray_ball" => {
            let c = dx::p(a); let r = a.f(); let o = dx::p(a); let d = dx::v(a); let solid = a.b();
            let (inside, t) = ray_toi_with_ball(&c, r, &Ray::new(o, d), solid);
            match t { None => format!("{} none", b(inside)), Some(t) => format!("{} some {}", b(inside), ff(t)) }
        }
        "ballball" => {
            let pos12 = dx::iso(a); let v = dx::v(a); let r1 = a.f(); let r2 = a.f(); let o = opts(a);
            fohit(&cast_shapes_ball_ball(&pos12, &v, &Ball::new(r1), &Ball::new(r2), o))
        }
        "hs_ball" => {
            let pos12 = dx::iso(a); let v = dx::v(a); let n = dx::v(a); let r = a.f(); let o = opts(a);
            fohit(&cast_shapes_halfspace_support_map(&pos12, &v, &HalfSpace::new(Unit::new_unchecked(n)), &Ball::new(r), o))
        }
        "hs_cuboid" => {
            let pos12 = dx::iso(a); let v = dx::v(a); let n = dx::v(a); let he = dx::v(a); let o = opts(a);
            fohit(&cast_shapes_halfspace_support_map(&pos12, &v, &HalfSpace::new(Unit::new_unchecked(n)), &Cuboid::new(he), o))
        }
        "ball_hs" => {
            let pos12 = dx::iso(a); let v = dx::v(a); let r = a.f(); let n = dx::v(a); let o = opts(a);
            fohit(&cast_shapes_support_map_halfspace(&pos12, &v, &Ball::new(r), &HalfSpace::new(Unit::new_unchecked(n)), o))
        }
        "cuboid_hs" => {
            let pos12 = dx::iso(a); let v = dx::v(a); let he = dx::v(a); let n = dx::v(a); let o = opts(a);
            fohit(&cast_shapes_support_map_halfspace(&pos12, &v, &Cuboid::new(he), &HalfSpace::new(Unit::new_unchecked(n)), o))
        }
        "swapped" => { let h = hit(a); fhit(&h.swapped()) }
        "transform1" => { let h = hit(a); let m = dx::iso(a); fhit(&h.transform1_by(&m)) }
        "free" => {
            let pos1 = dx::iso(a); let vel1 = dx::v(a); let g1 = shape(a);
            let pos2 = dx::iso(a); let vel2 = dx::v(a); let g2 = shape(a); let o = opts(a);
            match query::cast_shapes(&pos1, &vel1, &*g1, &pos2, &vel2, &*g2, o) {
                Err(_) => "unsupported".into(),
                Ok(h) => fohit(&h),
            }
        }
        "nlpos" => {
            let start = dx::iso(a); let lc = dx::p(a); let lv = dx::v(a); let t = a.f();
            let m = NonlinearRigidMotion::new(start, lc, lv, zero_angvel());
            fiso(&m.position_at_time(t))
        }
        // the broad-phase test of the composite cast: `TOICompositeShapeShapeBestFirstVisitor::new` + the box test of `visit`
        // (no leaf data), on one BVH box given explicitly: `<kept> <weight>` of lane 0 (the four lanes carry the same box)
        "cull" => {
            use px::partitioning::{SimdBestFirstVisitStatus, SimdBestFirstVisitor};
            use px::query::details::TOICompositeShapeShapeBestFirstVisitor;
            use px::bounding_volume::{Aabb, SimdAabb};
            use px::na::SimdValue;
            let pos12 = dx::iso(a); let vel12 = dx::v(a); let g2 = shape(a); let max_toi = a.f(); let target = a.f();
            let mins = dx::p(a); let maxs = dx::p(a);
            let o = ShapeCastOptions { max_time_of_impact: max_toi, target_distance: target, stop_at_penetration: true, compute_impact_geometry_on_penetration: false };
            let g1 = Polyline::new(vec![P::origin(), P::from(axis(0, 1.0))], None);
            let disp = query::DefaultQueryDispatcher;
            let mut vis = TOICompositeShapeShapeBestFirstVisitor::new(&disp, &pos12, &vel12, &g1, &*g2, o);
            match vis.visit(f64::MAX, &SimdAabb::splat(Aabb::new(mins, maxs)), None) {
                SimdBestFirstVisitStatus::MaybeContinue { weights, mask, .. } => {
                    let same = (1..4).all(|i| mask.extract(i) == mask.extract(0) && weights.extract(i).to_bits() == weights.extract(0).to_bits());
                    if !same { "lanes-differ".into() } else { format!("{} {}", b(mask.extract(0)), ff(weights.extract(0))) }
                }
                SimdBestFirstVisitStatus::ExitEarly(_) => "exit-early".into(),
            }
        }
        // oracle-only end-to-end run: real cast + real distance queries at the returned / sampled times
        "e2e" => {
            let pos1 = dx::iso(a); let vel1 = dx::v(a); let g1 = shape(a);
            let pos2 = dx::iso(a); let vel2 = dx::v(a); let g2 = shape(a); let o = opts(a);
            let comp = is_composite(&*g1) || is_composite(&*g2);
            let (p1, p2) = (parts(&*g1), parts(&*g2));
            let dist = |s: f64| -> String {
                // simple pairs: the real `query::distance`; composites / height fields: its minimum over the parts
                if comp { ff(parts_distance(&moved(&pos1, &vel1, s), &p1, &moved(&pos2, &vel2, s), &p2)) } else {
                match query::distance(&moved(&pos1, &vel1, s), &*g1, &moved(&pos2, &vel2, s), &*g2) {
                    Ok(d) => ff(d), Err(_) => "nan".into() } }
            };
            let lin = query::cast_shapes(&pos1, &vel1, &*g1, &pos2, &vel2, &*g2, o);
            let mut s = String::new();
            match &lin {
                Err(_) => return "unsupported".into(),
                Ok(None) => {
                    s.push_str("none");
                    for k in 0..33 { s.push(' '); s.push_str(&dist(o.max_time_of_impact * (k as f64) / 32.0)); }
                }
                Ok(Some(h)) => {
                    s.push_str(&format!("some {} {} {}", ff(h.time_of_impact), status_code(h.status), dist(h.time_of_impact)));
                    for k in 1..=12 { s.push(' '); s.push_str(&dist(h.time_of_impact * (1.0 - (0.5f64).powi(k)))); }
                    // witnesses in world space at the time of impact + normals in world space
                    let p1 = moved(&pos1, &vel1, h.time_of_impact); let p2 = moved(&pos2, &vel2, h.time_of_impact);
                    s.push_str(&format!(" {} {} {} {}", dx::fp(&(p1 * h.witness1)), dx::fp(&(p2 * h.witness2)), dx::fv(&(p1 * *h.normal1)), dx::fv(&(p2 * *h.normal2))));
                }
            }
            // initial distance (for the status clause)
            s.push_str(&format!(" d0 {}", dist(0.0)));
            // composites: the brute-force reduction over the parts (same options) for the "first impact" clause
            if comp {
                match parts_cast(&pos1, &vel1, &p1, &pos2, &vel2, &p2, o) {
                    Ok(None) => s.push_str(" bf none"),
                    Ok(Some(t)) => s.push_str(&format!(" bf some {}", ff(t))),
                    Err(_) => s.push_str(" bf unsupported"),
                }
                match parts_cast_local_idx(&pos1, &vel1, &*g1, &pos2, &vel2, &*g2, o) {
                    Ok(None) => s.push_str(" bfl none"),
                    Ok(Some((t, idx))) => {
                        s.push_str(&format!(" bfl some {}", ff(t)));
                        // is that impact a genuine crossing (the shapes are clearly closer than the target right after
                        // it) or a grazing tie?  distances shortly after it
                        s.push_str(" bfd");
                        for f in [1.0 / 256.0, 1.0 / 64.0, 1.0 / 16.0] { s.push(' '); s.push_str(&dist(t + f * t.max(1.0e-3))); }
                        // the same question asked of the first-hit PAIR alone (another part coming closer a little later must
                        // not make a tie of this pair look like a crossing): its own distance shortly after its impact, at
                        // the offsets above and at 1e-3, 1e-2, 1e-1 of the time the other shape needs to travel its own radius
                        let comp1 = is_composite(&*g1);
                        let (cp, other): (&Vec<(Iso, Box<dyn Shape>)>, &dyn Shape) = if comp1 { (&p1, &*g2) } else { (&p2, &*g1) };
                        if let Some((m, part)) = cp.get(idx) {
                            let vr = (vel2 - vel1).norm();
                            let unit = if vr > 0.0 { other.compute_local_bounding_sphere().radius() / vr } else { 1.0 };
                            s.push_str(" bfp");
                            for dt in [t.max(1.0e-3) / 256.0, t.max(1.0e-3) / 64.0, t.max(1.0e-3) / 16.0, unit * 1.0e-3, unit * 1.0e-2, unit * 1.0e-1] {
                                let (q1, q2) = (moved(&pos1, &vel1, t + dt), moved(&pos2, &vel2, t + dt));
                                let d = if comp1 { query::distance(&(q1 * m), &**part, &q2, other) } else { query::distance(&q1, other, &(q2 * m), &**part) };
                                s.push(' '); s.push_str(&match d { Ok(d) => ff(d), Err(_) => "nan".into() });
                            }
                        }
                    }
                    Err(_) => s.push_str(" bfl unsupported"),
                }
            }
            // are the reported witnesses points of their own shapes at the time of impact?  (real point queries, solid)
            if let Ok(Some(h)) = &lin {
                use px::query::PointQuery;
                let q1 = moved(&pos1, &vel1, h.time_of_impact); let q2 = moved(&pos2, &vel2, h.time_of_impact);
                let wd = std::panic::catch_unwind(std::panic::AssertUnwindSafe(|| {
                    (g1.distance_to_point(&q1, &(q1 * h.witness1), true), g2.distance_to_point(&q2, &(q2 * h.witness2), true)) }));
                if let Ok((a1, a2)) = wd { s.push_str(&format!(" wd {} {}", ff(a1), ff(a2))); }
            }
            s
        }
        // oracle-only: nonlinear cast with zero angular velocity against the linear cast (target_distance = 0)
        "nl" => {
            let pos1 = dx::iso(a); let vel1 = dx::v(a); let g1 = shape(a);
            let pos2 = dx::iso(a); let vel2 = dx::v(a); let g2 = shape(a); let o = opts(a);
            let lin = query::cast_shapes(&pos1, &vel1, &*g1, &pos2, &vel2, &*g2, o);
            let mut s = match &lin {
                Err(_) => return "unsupported".into(),
                Ok(None) => "none".to_string(),
                Ok(Some(h)) => format!("some {} {}", ff(h.time_of_impact), status_code(h.status)),
            };
            // the nonlinear cast runs under a watchdog: a hang is reported, not waited for
            let (tx, rx) = std::sync::mpsc::channel();
            let (g1c, g2c) = (g1.clone_dyn(), g2.clone_dyn());
            std::thread::spawn(move || {
                let m1 = NonlinearRigidMotion::new(pos1, P::origin(), vel1, zero_angvel());
                let m2 = NonlinearRigidMotion::new(pos2, P::origin(), vel2, zero_angvel());
                let comp = is_composite(&*g1c) || is_composite(&*g2c);
                let (p1, p2) = (parts(&*g1c), parts(&*g2c));
                let r = std::panic::catch_unwind(std::panic::AssertUnwindSafe(|| {
                    let mut out = match query::cast_shapes_nonlinear(&m1, &*g1c, &m2, &*g2c, 0.0, o.max_time_of_impact, o.stop_at_penetration) {
                        Err(_) => "unsupported".to_string(),
                        Ok(None) => "none".to_string(),
                        Ok(Some(h)) => {
                            let (q1, q2) = (moved(&pos1, &vel1, h.time_of_impact), moved(&pos2, &vel2, h.time_of_impact));
                            let d = if comp { ff(parts_distance(&q1, &p1, &q2, &p2)) } else {
                                match query::distance(&q1, &*g1c, &q2, &*g2c) { Ok(d) => ff(d), Err(_) => "nan".into() } };
                            format!("some {} {} {}", ff(h.time_of_impact), status_code(h.status), d)
                        }
                    };
                    // composites: the same nonlinear cast, part by part (zero angular velocity: a part moves like its
                    // parent), reduced by the minimum — what the composite traversal must reproduce
                    if comp {
                        let mut best: Option<f64> = None; let mut unsup = false;
                        // the part motions are built as the traversal builds them (`motion.prepend(part_pose)`, the motion
                        // itself for parts without a pose), and the composite's part comes first in the call, as it does there
                        let id = Iso::identity();
                        let comp_first = is_composite(&*g1c);
                        for (a1, s1) in &p1 { for (a2, s2) in &p2 {
                            let n1 = if *a1 == id { m1 } else { m1.prepend(*a1) };
                            let n2 = if *a2 == id { m2 } else { m2.prepend(*a2) };
                            let r = if comp_first { query::cast_shapes_nonlinear(&n1, &**s1, &n2, &**s2, 0.0, o.max_time_of_impact, o.stop_at_penetration) }
                                    else { query::cast_shapes_nonlinear(&n2, &**s2, &n1, &**s1, 0.0, o.max_time_of_impact, o.stop_at_penetration) };
                            match r {
                                Ok(Some(h)) => { if best.map_or(true, |b| h.time_of_impact < b) { best = Some(h.time_of_impact); } }
                                Ok(None) => {}
                                Err(_) => unsup = true,
                            }
                        } }
                        if unsup { out.push_str(" bfnl unsupported"); }
                        else { match best { None => out.push_str(" bfnl none"), Some(t) => out.push_str(&format!(" bfnl some {}", ff(t))) } }
                        // the traversal culls with a nonlinear ball/ball cast of bounding balls; replay that test, with the
                        // balls placed where they belong, for the pair of parts that hits first: `cull none` means the
                        // real ball/ball cast itself denies the impact (not a traversal error)
                        if let Some(bt) = best {
                            let comp1 = is_composite(&*g1c);
                            let (cparts, cpos, cvel, opos, ovel, og) = if comp1 { (&p1, pos1, vel1, pos2, vel2, &g2c) } else { (&p2, pos2, vel2, pos1, vel1, &g1c) };
                            let mc = NonlinearRigidMotion::new(cpos, P::origin(), cvel, zero_angvel());
                            let mo = NonlinearRigidMotion::new(opos, P::origin(), ovel, zero_angvel());
                            let so = og.compute_local_bounding_sphere();
                            let mut cull = "skip".to_string();
                            for (a, sh) in cparts.iter() {
                                let na = if *a == id { mc } else { mc.prepend(*a) };
                                let hit = query::cast_shapes_nonlinear(&na, &**sh, &mo, &**og, 0.0, o.max_time_of_impact, o.stop_at_penetration);
                                if let Ok(Some(h)) = hit { if h.time_of_impact == bt {
                                    // every BVH lane whose box contains this part's box (its leaf lane and the ancestors),
                                    // ball radius = the full diagonal as `SimdAabb::radius` has it
                                    let bb = sh.compute_aabb(a);
                                    let cgs: &dyn Shape = if comp1 { &*g1c } else { &*g2c };
                                    if let Some(cs) = cgs.as_composite_shape() {
                                        let mut all = true; let mut any = false;
                                        for node in cs.qbvh().raw_nodes() { for ii in 0..4 {
                                            let nb = node.simd_aabb.extract(ii);
                                            if !(nb.mins.iter().all(|x| x.is_finite()) && nb.maxs.iter().all(|x| x.is_finite())) { continue; }
                                            if !(0..DIM).all(|k| nb.mins[k] <= bb.mins[k] + 1.0e-9 && nb.maxs[k] >= bb.maxs[k] - 1.0e-9) { continue; }
                                            any = true;
                                            let (c, rad) = (nb.center(), (nb.maxs - nb.mins).norm());
                                            let r = query::cast_shapes_nonlinear(&mc.prepend_translation(c.coords), &Ball::new(rad), &mo.prepend_translation(so.center.coords), &Ball::new(so.radius()),
                                                                                 0.0, o.max_time_of_impact, true);
                                            if !matches!(r, Ok(Some(_))) { all = false; }
                                        } }
                                        cull = if !any { "skip".into() } else if all { "some".into() } else { "none".into() };
                                    }
                                    break;
                                } }
                            }
                            out.push_str(&format!(" cull {}", cull));
                        }
                    }
                    out
                })).unwrap_or_else(|_| "panic".to_string());
                let _ = tx.send(r);
            });
            match rx.recv_timeout(std::time::Duration::from_millis(2000)) {
                Ok(r) => s.push_str(&format!(" nl {}", r)),
                Err(_) => s.push_str(" nl hang"),
            }
            s
        }
        // the GJK-route cast itself (both shapes support-mapped); the taps that follow the options in the argument list are
        // for the model only
        "smsm" => {
            let pos12 = dx::iso(a); let v = dx::v(a); let o = opts(a);
            while a.tok() != "shapes" {}
            let g1 = shape(a); let g2 = shape(a);
            match (g1.as_support_map(), g2.as_support_map()) {
                (Some(s1), Some(s2)) => fohit(&px::query::details::cast_shapes_support_map_support_map(&pos12, &v, s1, s2, o)),
                _ => "unsupported".into(),
            }
        }
        "hfwalk" => hfwalk_exec(a),
        "hfbest" => hfbest_exec(a),
        _ => "nofn".into(),
    }
}
