//! C08: QBVH histories (pre_update_or_insert / remove / refit / rebalance / clear_and_rebuild).  One protocol function `hist`: the arguments encode a whole operation list, the output is the
//! concatenation, after EVERY operation, of the delta of the full `Qbvh<u32>` state (raw_nodes, raw_proxies, root_aabb,
//! dirty_nodes, free_list) against the state after the previous operation (hash-free; equal deltas from equal start = equal states).
use crate::util::*;
use crate::p3::bounding_volume::Aabb;
use crate::p3::partitioning::{Qbvh, QbvhUpdateWorkspace};
use crate::p3::bounding_volume::SimdAabb;
use crate::p3::math::SIMD_WIDTH;
use crate::p3::partitioning::{SimdVisitStatus, SimdVisitorWithContext};
use crate::p3::query::Ray;
use crate::p3::query::visitors::{BoundingVolumeIntersectionsSimultaneousVisitor, BoundingVolumeIntersectionsVisitor, RayIntersectionsVisitor};
use std::fmt::Write as _;

/// box-overlap visitor for `traverse_depth_first_with_context`: the context handed down is the depth
struct DepthCtxVisitor<'a> { bv: SimdAabb, out: &'a mut Vec<(u32, u32)> }
impl<'a> SimdVisitorWithContext<u32, SimdAabb, u32> for DepthCtxVisitor<'a> {
    fn visit(&mut self, bv: &SimdAabb, data: Option<[Option<&u32>; SIMD_WIDTH]>, ctx: u32) -> (SimdVisitStatus, [u32; SIMD_WIDTH]) {
        use crate::p3::na::SimdBool as _;
        let mask = bv.intersects(&self.bv);
        if let Some(data) = data {
            let bitmask = mask.bitmask();
            for ii in 0..SIMD_WIDTH { if (bitmask & (1 << ii)) != 0 { if let Some(d) = data[ii] { self.out.push((*d, ctx)); } } }
        }
        (SimdVisitStatus::MaybeContinue(mask), [ctx + 1; SIMD_WIDTH])
    }
}

use std::panic::{catch_unwind, AssertUnwindSafe};
use std::sync::{Mutex, OnceLock};
use std::sync::atomic::AtomicBool;
use crate::p3::math::{Point, Real, SimdBool, SimdReal};
use crate::p3::partitioning::{QbvhNode, SimdBestFirstVisitStatus, SimdBestFirstVisitor};

const MAXU: u32 = u32::MAX;

/// rayon pools with 1, 2 and 8 worker threads (the global pool has one thread per core)
fn pool(k: usize) -> &'static rayon::ThreadPool {
    static POOLS: OnceLock<Vec<rayon::ThreadPool>> = OnceLock::new();
    let ps = POOLS.get_or_init(|| [1usize, 2, 8].iter().map(|n| rayon::ThreadPoolBuilder::new().num_threads(*n).build().unwrap()).collect());
    &ps[match k { 1 => 0, 2 => 1, _ => 2 }]
}

/// exact squared distance from a point to a box (0 inside)
fn dist2(p: &Point<Real>, b: &Aabb) -> f64 {
    let mut s = 0.0;
    for k in 0..3 { let d = (b.mins[k] - p[k]).max(0.0).max(p[k] - b.maxs[k]); s += d * d; }
    s
}

/// best-first visitor: internal lanes are weighted by the distance to the stored lane box (a lower bound for everything
/// below once the tree is refitted), leaf lanes by the distance to the leaf's CURRENT box; the result is the leaf id
struct BfVisitor<'a> { p: Point<Real>, cur: &'a [Aabb] }
impl<'a> SimdBestFirstVisitor<u32, SimdAabb> for BfVisitor<'a> {
    type Result = u32;
    fn visit(&mut self, best: Real, bv: &SimdAabb, data: Option<[Option<&u32>; SIMD_WIDTH]>) -> SimdBestFirstVisitStatus<u32> {
        let mut w = [f64::MAX; SIMD_WIDTH]; let mut res = [None; SIMD_WIDTH]; let mut m = [false; SIMD_WIDTH];
        for ii in 0..SIMD_WIDTH {
            match &data {
                Some(d) => if let Some(id) = d[ii] {
                    if let Some(b) = self.cur.get(*id as usize) { w[ii] = dist2(&self.p, b); res[ii] = Some(*id); m[ii] = w[ii] < best; } }
                None => { w[ii] = dist2(&self.p, &bv.extract(ii)); m[ii] = w[ii] < best; }
            }
        }
        SimdBestFirstVisitStatus::MaybeContinue { weights: SimdReal::from(w), mask: SimdBool::from(m), results: res }
    }
}

fn sorted_pairs(mut v: Vec<(u32, u32)>) -> String { v.sort(); v.iter().map(|(a, b)| format!("{}:{}", a, b)).collect::<Vec<_>>().join(" ") }
fn sorted_ids(mut v: Vec<u32>) -> String { v.sort(); v.iter().map(|a| a.to_string()).collect::<Vec<_>>().join(" ") }

fn canon(x: f64) -> u64 { if x.is_nan() { 0x7ff8000000000000 } else if x == 0.0 { 0 } else { x.to_bits() } }
fn cf(b: u64) -> String { if b == 0x7ff8000000000000 { "nan".into() } else { format!("{:016x}", b) } }
fn box6(b: &Aabb) -> [u64; 6] { [canon(b.mins.x), canon(b.mins.y), canon(b.mins.z), canon(b.maxs.x), canon(b.maxs.y), canon(b.maxs.z)] }

#[derive(Default)]
struct Shadow { topo: Vec<[u32; 7]>, boxes: Vec<[u64; 24]>, prox: Vec<[u32; 3]>, root: Option<[u64; 6]> }

fn dump(q: &Qbvh<u32>, sh: &mut Shadow, op: &str, ret: usize, out: &mut String) { dump_x(q, sh, op, ret, "", out) }

/// `extra`: the `K <id> <box>` items of a build that cut leaves (the user's record of the pieces, in callback order)
fn dump_x(q: &Qbvh<u32>, sh: &mut Shadow, op: &str, ret: usize, extra: &str, out: &mut String) {
    let nodes = q.raw_nodes();
    let prox = q.raw_proxies();
    let (dirty, free) = q.verif_internals();
    let _ = write!(out, "{} {} n {} p {}", op, ret, nodes.len(), prox.len());
    let r = box6(q.root_aabb());
    if sh.root != Some(r) {
        let _ = write!(out, " R {}", r.iter().map(|x| cf(*x)).collect::<Vec<_>>().join(" "));
        sh.root = Some(r);
    }
    sh.topo.truncate(nodes.len()); sh.boxes.truncate(nodes.len()); sh.prox.truncate(prox.len());
    let mut xs = String::new();
    for (i, n) in nodes.iter().enumerate() {
        let t = [n.children[0], n.children[1], n.children[2], n.children[3], n.parent.index, n.parent.lane as u32, n.flags.bits() as u32];
        let mut bx = [0u64; 24];
        for l in 0..4 { let b = box6(&n.simd_aabb.extract(l)); bx[l * 6..l * 6 + 6].copy_from_slice(&b); }
        if i >= sh.topo.len() { sh.topo.push([MAXU - 1; 7]); sh.boxes.push([1u64; 24]); }
        if sh.topo[i] != t {
            let _ = write!(out, " N {} {} {} {} {} {} {} {}", i, t[0], t[1], t[2], t[3], t[4], t[5], t[6]);
            sh.topo[i] = t;
        }
        if sh.boxes[i] != bx {
            let _ = write!(xs, " X {} {}", i, bx.iter().map(|x| cf(*x)).collect::<Vec<_>>().join(" "));
            sh.boxes[i] = bx;
        }
    }
    out.push_str(&xs);
    for (i, p) in prox.iter().enumerate() {
        let t = [p.node.index, p.node.lane as u32, p.data];
        if i >= sh.prox.len() { sh.prox.push([MAXU - 1; 3]); }
        if sh.prox[i] != t {
            let _ = write!(out, " P {} {} {} {}", i, t[0], t[1], t[2]);
            sh.prox[i] = t;
        }
    }
    out.push_str(extra);
    let _ = write!(out, " D {}", dirty.len());
    for d in dirty { let _ = write!(out, " {}", d); }
    let _ = write!(out, " F {}", free.len());
    for d in free { let _ = write!(out, " {}", d); }
    out.push_str(" ;");
}

fn rd_box(a: &mut Args) -> Aabb { Aabb::new(d3::p(a), d3::p(a)) }

/// replays a history; returns the final tree and the dump text; `None` tree on panic
fn replay(a: &mut Args, with_dump: bool) -> (Option<Qbvh<u32>>, String) { let (q, _, s) = replay_cur(a, with_dump); (q, s) }

/// same, also returning the user's current leaf boxes
pub fn replay_cur(a: &mut Args, with_dump: bool) -> (Option<Qbvh<u32>>, Vec<Aabb>, String) {
    let nops = a.u();
    let mut q: Qbvh<u32> = Qbvh::new();
    let mut ws = QbvhUpdateWorkspace::default();
    let mut cur: Vec<Aabb> = Vec::new();
    let mut sh = Shadow::default();
    let mut out = String::new();
    for _ in 0..nops {
        let op = a.tok().to_string();
        let mut ret = 0usize;
        let mut extra = String::new();
        let r = catch_unwind(AssertUnwindSafe(|| {
            match op.as_str() {
                "S" | "N" => { extra = bld::build_with_splitter(&op, a, &mut q, &mut cur); }
                "I" => {
                    let id = a.u(); let b = rd_box(a);
                    if cur.len() <= id { cur.resize(id + 1, Aabb::new_invalid()); }
                    cur[id] = b;
                    q.pre_update_or_insert(id as u32);
                }
                "R" => { let id = a.u(); ret = q.remove(id as u32).is_some() as usize; }
                "F" => {
                    let m = a.f();
                    let c = &cur;
                    ret = q.refit(m, &mut ws, |d: &u32| c.get(*d as usize).copied().unwrap_or_else(Aabb::new_invalid));
                }
                "B" => { let m = a.f(); q.rebalance(m, &mut ws); }
                "C" => {
                    let n = a.u();
                    let mut items = Vec::new();
                    for _ in 0..n { let id = a.u(); let b = rd_box(a); items.push((id as u32, b)); }
                    let dil = a.f();
                    for (id, b) in &items {
                        let id = *id as usize;
                        if cur.len() <= id { cur.resize(id + 1, Aabb::new_invalid()); }
                        cur[id] = *b;
                    }
                    q.clear_and_rebuild(items.into_iter(), dil);
                }
                _ => panic!("bad op"),
            }
        }));
        if r.is_err() { out.push_str("PANIC ;"); return (None, cur, out); }
        if with_dump { dump_x(&q, &mut sh, &op, ret, &extra, &mut out); out.push(' '); }
    }
    (Some(q), cur, out.trim_end().to_string())
}

pub fn exec(func: &str, a: &mut Args) -> String {
    match func {
        // `hist`: model-compared; `histo`: same dump, oracle only (operations the model does not cover yet)
        // these run on a watchdog thread (as `mixq` does): a hang of the real code — never seen on the unchanged tree; a
        // corrupted tree can make `refit` / `rebalance` / a traversal loop for ever — is reported as `PANIC hang` instead of
        // stalling the run
        "hist" | "histo" | "topo" | "bquery" => {
            let toks: String = a.t[a.i..].join(" ");
            a.i = a.t.len();
            let f = func.to_string();
            let (tx, rx) = std::sync::mpsc::channel();
            let th = std::thread::Builder::new().stack_size(64 << 20).spawn(move || {
                let mut a = Args::new(&toks);
                let r = match f.as_str() { "bquery" => bld::exec(&f, &mut a), "topo" => ext::exec(&f, &mut a), _ => replay(&mut a, true).1 };
                let _ = tx.send(r);
            });
            if th.is_err() { return "PANIC spawn ;".into(); }
            match rx.recv_timeout(std::time::Duration::from_secs(20)) { Ok(s) => s, Err(_) => "PANIC hang ;".into() }
        }
        // simultaneous traversal of two independent trees (model-compared: histories of I/R/F only; `bvtto`: oracle only)
        "bvtt" | "bvtto" => {
            let (q1, _, _) = replay_cur(a, false);
            let (q2, _, _) = replay_cur(a, false);
            let pose = if a.b() { Some(d3::iso(a)) } else { None };
            match (q1, q2) {
                (Some(q1), Some(q2)) => {
                    let mut out: Vec<String> = Vec::new();
                    let mut cb = |x: &u32, y: &u32| { out.push(format!("{}:{}", x, y)); true };
                    let r = catch_unwind(AssertUnwindSafe(|| {
                        match pose {
                            Some(m) => { let mut v = BoundingVolumeIntersectionsSimultaneousVisitor::with_relative_pos(m, &mut cb); q1.traverse_bvtt(&q2, &mut v); }
                            None => { let mut v = BoundingVolumeIntersectionsSimultaneousVisitor::new(&mut cb); q1.traverse_bvtt(&q2, &mut v); }
                        }
                    }));
                    if r.is_err() { return "PANIC".into(); }
                    format!("pairs {}", out.join(" "))
                }
                _ => "PANIC".into(),
            }
        }
        // EVERY simultaneous two-tree entry point, sequential and parallel, with the library's
        // BoundingVolumeIntersectionsSimultaneousVisitor; each visited pair set is printed sorted (the parallel variants
        // are schedule-dependent in order only)
        "bvttall" => {
            let (q1, _, _) = replay_cur(a, false);
            let (q2, _, _) = replay_cur(a, false);
            let pose = if a.b() { Some(d3::iso(a)) } else { None };
            let (q1, q2) = match (q1, q2) { (Some(x), Some(y)) => (x, y), _ => return "PANIC".into() };
            let r = catch_unwind(AssertUnwindSafe(|| {
                let mut segs: Vec<String> = Vec::new();
                // sequential entry points (FnMut visitor)
                for which in 0..4 {
                    let mut out: Vec<(u32, u32)> = Vec::new();
                    {
                        let mut cb = |x: &u32, y: &u32| { out.push((*x, *y)); true };
                        let mut v = match pose { Some(m) => BoundingVolumeIntersectionsSimultaneousVisitor::with_relative_pos(m, &mut cb),
                                                 None => BoundingVolumeIntersectionsSimultaneousVisitor::new(&mut cb) };
                        let mut stack: Vec<(u32, u32)> = vec![(7, 9), (0, 0), (3, 1)];   // must be cleared by the callee
                        match which {
                            0 => q1.traverse_bvtt(&q2, &mut v),
                            1 => q1.traverse_bvtt_with_stack(&q2, &mut v, &mut stack),
                            2 => q1.traverse_modified_bvtt(&q2, &mut v),
                            _ => q1.traverse_modified_bvtt_with_stack(&q2, &mut v, &mut stack),
                        }
                    }
                    segs.push(format!("{} {}", ["seq", "stk", "mod", "mods"][which], sorted_pairs(out)));
                }
                // parallel entry points (Fn + Sync visitor)
                for which in 0..5 {
                    let out: Mutex<Vec<(u32, u32)>> = Mutex::new(Vec::new());
                    {
                        let cb = |x: &u32, y: &u32| { out.lock().unwrap().push((*x, *y)); true };
                        let v = match pose { Some(m) => BoundingVolumeIntersectionsSimultaneousVisitor::with_relative_pos(m, cb),
                                             None => BoundingVolumeIntersectionsSimultaneousVisitor::new(cb) };
                        match which {
                            0 => q1.traverse_bvtt_parallel(&q2, &v),
                            1 => pool(1).install(|| q1.traverse_bvtt_parallel(&q2, &v)),
                            2 => pool(2).install(|| q1.traverse_bvtt_parallel(&q2, &v)),
                            3 => pool(8).install(|| q1.traverse_bvtt_parallel(&q2, &v)),
                            _ => { if !q1.raw_nodes().is_empty() && !q2.raw_nodes().is_empty() {
                                       let ee = AtomicBool::new(false); q1.traverse_bvtt_node_parallel(&q2, &v, &ee, (), (0, 0)); } }
                        }
                    }
                    segs.push(format!("{} {}", ["par", "par1", "par2", "par8", "parn"][which], sorted_pairs(out.into_inner().unwrap())));
                }
                segs.join(" ")
            }));
            r.unwrap_or_else(|_| "PANIC".into())
        }
        // EVERY single-tree entry point: depth-first (node / with_stack / context node variant / parallel / node_parallel)
        // with a box predicate, and best-first (root / node variant) with a point-distance visitor
        "travall" => {
            let (q, _, _) = replay_cur(a, false);
            let bx = rd_box(a);
            let _pt = d3::p(a);
            let q = match q { Some(q) => q, None => return "PANIC".into() };
            let r = catch_unwind(AssertUnwindSafe(|| {
                let mut segs: Vec<String> = Vec::new();
                for which in 0..2 {
                    let mut o: Vec<u32> = Vec::new();
                    { let mut cb = |x: &u32| { o.push(*x); true }; let mut v = BoundingVolumeIntersectionsVisitor::new(&bx, &mut cb);
                      let mut stack: Vec<u32> = vec![5, 0, 2];
                      if which == 0 { q.traverse_depth_first_node(&mut v, 0); } else { q.traverse_depth_first_with_stack(&mut v, &mut stack); } }
                    segs.push(format!("{} {}", ["dfn", "dfs"][which], sorted_ids(o)));
                }
                { let mut o2: Vec<(u32, u32)> = Vec::new();
                  { let mut v = DepthCtxVisitor { bv: SimdAabb::splat(bx), out: &mut o2 }; let mut stack: Vec<(u32, u32)> = vec![(4, 4)];
                    q.traverse_depth_first_node_with_stack_and_context(&mut v, &mut stack, 0, 0u32); }
                  segs.push(format!("ctx {}", sorted_ids(o2.iter().map(|x| x.0).collect()))); }
                let sb = SimdAabb::splat(bx);
                for which in 0..5 {
                    let o: Mutex<Vec<u32>> = Mutex::new(Vec::new());
                    {
                        let vis = |node: &QbvhNode, data: Option<[Option<&u32>; SIMD_WIDTH]>| {
                            use crate::p3::na::SimdBool as _;
                            let mask = node.simd_aabb.intersects(&sb);
                            if let Some(data) = data { let bm = mask.bitmask();
                                for ii in 0..SIMD_WIDTH { if (bm & (1 << ii)) != 0 { if let Some(d) = data[ii] { o.lock().unwrap().push(*d); } } } }
                            SimdVisitStatus::MaybeContinue(mask)
                        };
                        match which {
                            0 => q.traverse_depth_first_parallel(&vis),
                            1 => pool(1).install(|| q.traverse_depth_first_parallel(&vis)),
                            2 => pool(2).install(|| q.traverse_depth_first_parallel(&vis)),
                            3 => pool(8).install(|| q.traverse_depth_first_parallel(&vis)),
                            _ => { if !q.raw_nodes().is_empty() { let ee = AtomicBool::new(false); q.traverse_depth_first_node_parallel(&vis, &ee, 0); } }
                        }
                    }
                    segs.push(format!("{} {}", ["par", "par1", "par2", "par8", "parn"][which], sorted_ids(o.into_inner().unwrap())));
                }
                segs.join(" ")
            }));
            r.unwrap_or_else(|_| "PANIC".into())
        }
        // best-first entry points (root / node variant) with a point-distance visitor: `<cost> <leaf>` or `none`
        "bfirst" => {
            let (q, cur, _) = replay_cur(a, false);
            let _bx = rd_box(a);
            let pt = d3::p(a);
            let q = match q { Some(q) => q, None => return "PANIC".into() };
            let r = catch_unwind(AssertUnwindSafe(|| {
                let mut segs: Vec<String> = Vec::new();
                for which in 0..2 {
                    let mut v = BfVisitor { p: pt, cur: &cur };
                    let r = if which == 0 { q.traverse_best_first(&mut v) } else { q.traverse_best_first_node(&mut v, 0, f64::MAX) };
                    let name = ["bf", "bfn"][which];
                    segs.push(match r { None => format!("{} none", name),
                        Some((_, id)) => { let c = cur.get(id as usize).map(|b| dist2(&pt, b)).unwrap_or(f64::NAN); format!("{} {} {}", name, ff(c), id) } });
                }
                segs.join(" ")
            }));
            r.unwrap_or_else(|_| "PANIC".into())
        }
        // single-tree depth-first entry points on the final state (oracle only): box query through
        // `traverse_depth_first` + BoundingVolumeIntersectionsVisitor, the same through `traverse_depth_first_with_context`
        // (context = depth), and a ray through RayIntersectionsVisitor
        "dfs" => {
            let (q, _, _) = replay_cur(a, false);
            let bx = rd_box(a);
            let ray = Ray::new(d3::p(a), d3::v(a)); let max_toi = a.f();
            match q {
                None => "PANIC".into(),
                Some(q) => {
                    let mut o1: Vec<u32> = Vec::new();
                    { let mut cb = |x: &u32| { o1.push(*x); true }; let mut v = BoundingVolumeIntersectionsVisitor::new(&bx, &mut cb); q.traverse_depth_first(&mut v); }
                    let mut o2: Vec<(u32, u32)> = Vec::new();
                    { let mut v = DepthCtxVisitor { bv: SimdAabb::splat(bx), out: &mut o2 }; q.traverse_depth_first_with_context(&mut v, 0u32); }
                    let mut o3: Vec<u32> = Vec::new();
                    { let mut cb = |x: &u32| { o3.push(*x); true }; let mut v = RayIntersectionsVisitor::new(&ray, max_toi, &mut cb); q.traverse_depth_first(&mut v); }
                    let f = |v: &Vec<u32>| v.iter().map(|x| x.to_string()).collect::<Vec<_>>().join(",");
                    format!("box {} ctx {} ray {}", f(&o1), o2.iter().map(|(x, d)| format!("{}@{}", x, d)).collect::<Vec<_>>().join(","), f(&o3))
                }
            }
        }
        "query" => {
            let (q, _) = replay(a, false);
            let b = rd_box(a);
            match q {
                None => "PANIC".into(),
                Some(q) => {
                    let mut out = Vec::new();
                    q.intersect_aabb(&b, &mut out);
                    out.iter().map(|x| x.to_string()).collect::<Vec<_>>().join(" ")
                }
            }
        }
        _ => ext::exec(func, a),
    }
}

#[path = "c08_ext.rs"]
mod ext;
#[path = "c08_build.rs"]
mod bld;

// ---------------------------------------------------------------- generators

fn hb(b: &Aabb) -> String { format!("{} {}", d3::hp(&b.mins), d3::hp(&b.maxs)) }

struct Hist { ops: Vec<String>, live: Vec<bool>, boxes: Vec<Aabb> }
impl Hist {
    fn new(nids: usize) -> Self { Hist { ops: Vec::new(), live: vec![false; nids], boxes: vec![Aabb::new_invalid(); nids] } }
    fn ins(&mut self, id: usize, b: Aabb) { self.ops.push(format!("I {} {}", id, hb(&b))); self.live[id] = true; self.boxes[id] = b; }
    fn rem(&mut self, id: usize) { self.ops.push(format!("R {}", id)); self.live[id] = false; }
    fn refit(&mut self, m: f64) { self.ops.push(format!("F {}", hx(m))); }
    fn finish(self) -> (String, String) { ("hist".into(), format!("{} {}", self.ops.len(), self.ops.join(" "))) }
    fn args(&self) -> String { format!("{} {}", self.ops.len(), self.ops.join(" ")) }
    fn rebalance(&mut self, m: f64) { self.ops.push(format!("B {}", hx(m))); }
    fn rebuild(&mut self, items: &[(usize, Aabb)], dil: f64) {
        let mut s = format!("C {}", items.len());
        for l in self.live.iter_mut() { *l = false; }
        for (id, b) in items { s += &format!(" {} {}", id, hb(b)); self.live[*id] = true; self.boxes[*id] = *b; }
        s += &format!(" {}", hx(dil));
        self.ops.push(s);
    }
    /// query boxes for the final state: around live leaves, random, everything
    fn queries(&self, r: &mut Rng, lat: bool, n: usize) -> Vec<(String, String)> {
        let live: Vec<usize> = (0..self.live.len()).filter(|i| self.live[*i]).collect();
        let mut v = Vec::new();
        for k in 0..n {
            let qb = if k == 0 || live.is_empty() { Aabb::new(d3::Point::new(-1e3, -1e3, -1e3), d3::Point::new(1e3, 1e3, 1e3)) }
                else if r.below(4) == 0 { gen_box(r, 0, lat) }
                else { let b = self.boxes[*r.pick(&live)];
                       match r.below(3) { 0 => b, 1 => moved(r, &b, lat), _ => Aabb::new(b.maxs, b.maxs) } };  // touching at a corner
            v.push(("query".to_string(), format!("{} {}", self.args(), hb(&qb))));
        }
        v
    }
}

/// box families: 0 random, 1 identical, 2 degenerate (points / flat), 3 nested around the origin, 4 lattice grid cells
fn gen_box(r: &mut Rng, fam: u64, lat: bool) -> Aabb {
    match fam {
        1 => Aabb::new(d3::Point::new(-1.0, -1.0, -1.0), d3::Point::new(1.0, 1.0, 1.0)),
        2 => { let c = d3::gen_p(r, lat, 20.0);
               if r.bool() { Aabb::new(c, c) } else { let mut m = c; m.x += r.pos_extent(lat); Aabb::new(c, m) } }
        3 => { let k = (1 + r.below(12)) as f64 * 0.5; Aabb::new(d3::Point::new(-k, -k, -k), d3::Point::new(k, k, k)) }
        4 => { let c = d3::Point::new(r.range(-6, 6) as f64, r.range(-6, 6) as f64, r.range(-2, 2) as f64);
               Aabb::new(c, c + d3::Vector::new(1.0, 1.0, 1.0)) }
        _ => { let c = d3::gen_p(r, lat, 50.0); let he = d3::gen_he(r, lat); Aabb::new(c - he, c + he) }
    }
}
fn gen_margin(r: &mut Rng, lat: bool) -> f64 {
    if r.below(3) == 0 { 0.0 } else if lat { *r.pick(&[0.0, 0.25, 0.5, 1.0]) } else { r.logu(1e-4, 1.0) }
}
fn moved(r: &mut Rng, b: &Aabb, lat: bool) -> Aabb {
    let s = if lat { d3::gen_v(r, true, 1.0) * 0.25 } else { d3::gen_v(r, false, 2.0) };
    Aabb::new(b.mins + s, b.maxs + s)
}

fn random_history(r: &mut Rng, maxops: usize, lat: bool) -> (String, String) { random_history_h(r, maxops, lat, false).finish() }

/// `full = true`: also `rebalance` (always right after a refit, as its documentation requires) and `clear_and_rebuild`
fn random_history_h(r: &mut Rng, maxops: usize, lat: bool, full: bool) -> Hist {
    let nids = *r.pick(&[3usize, 6, 17, 20, 40, 64]);
    let fam = r.below(6);
    let nops = 1 + r.below(maxops as u64) as usize;
    let grow = r.below(nops as u64 + 1) as usize; // insert-heavy prefix
    let refit_often = r.below(3);
    let mut h = Hist::new(nids);
    while h.ops.len() < nops {
        let k = h.ops.len();
        let c = r.below(100);
        let live: Vec<usize> = (0..nids).filter(|i| h.live[*i]).collect();
        if k < grow || c < 35 {
            // insert a fresh id (or any id)
            let dead: Vec<usize> = (0..nids).filter(|i| !h.live[*i]).collect();
            let id = if !dead.is_empty() && r.below(5) != 0 { *r.pick(&dead) } else { r.below(nids as u64) as usize };
            let f = if fam == 5 { r.below(5) } else { fam };
            let b = gen_box(r, f, lat); h.ins(id, b);
        } else if c < 55 && !live.is_empty() {
            // move a live leaf
            let id = *r.pick(&live); let b = moved(r, &h.boxes[id].clone(), lat); h.ins(id, b);
        } else if c < 80 {
            // remove (mostly live, sometimes dead / never inserted / out of range)
            let id = if !live.is_empty() && r.below(6) != 0 { *r.pick(&live) } else { r.below(nids as u64 + 3) as usize };
            if id < nids { h.rem(id) } else { h.ops.push(format!("R {}", id)) }
        } else {
            let m = gen_margin(r, lat); h.refit(m);
        }
        if refit_often == 0 && r.below(3) == 0 && h.ops.len() < nops { let m = gen_margin(r, lat); h.refit(m); }
        if full && r.below(8) == 0 {
            if r.below(3) != 0 {
                let m = gen_margin(r, lat); h.refit(m); h.rebalance(m);
            } else {
                let n = r.below(nids as u64 + 1) as usize;
                let mut ids: Vec<usize> = (0..nids).collect();
                for i in 0..ids.len() { let j = i + r.below((ids.len() - i) as u64) as usize; ids.swap(i, j); }
                let f = if fam == 5 { r.below(5) } else { fam };
                let items: Vec<(usize, Aabb)> = ids[..n].iter().map(|i| (*i, gen_box(r, f, lat))).collect();
                let dil = if r.bool() { 0.0 } else { *r.pick(&[0.0, 0.01, 0.25]) };
                h.rebuild(&items, dil);
            }
        }
    }
    if r.bool() || full { let m = gen_margin(r, lat); h.refit(m); }
    h
}

/// fill the four root lanes (16 leaves), optionally refit, then overflow → root split; then variations
fn root_split_history(r: &mut Rng, variant: u64, lat: bool) -> (String, String) { root_split_history_h(r, variant, lat).finish() }
fn root_split_history_h(r: &mut Rng, variant: u64, lat: bool) -> Hist {
    let mut h = Hist::new(64);
    let fam = r.below(5);
    let first = 16 + r.below(3) as usize;
    for id in 0..first { if id == 16 && variant & 1 == 1 { let m = gen_margin(r, lat); h.refit(m); } let b = gen_box(r, fam, lat); h.ins(id, b); }
    match variant >> 1 {
        0 => {}
        1 => { h.rem(first - 1); }                        // insert then remove the overflowing leaf before any refit
        2 => { let m = gen_margin(r, lat); h.refit(m); for id in first..first + 20 { let b = gen_box(r, fam, lat); h.ins(id, b); } }  // second split
        3 => { for id in first..(first + 18).min(64) { let b = gen_box(r, fam, lat); h.ins(id, b); } }  // second split without refit
        _ => { for id in 0..8 { h.rem(id * 2); } for id in 40..50 { let b = gen_box(r, fam, lat); h.ins(id, b); } }
    }
    let m = gen_margin(r, lat); h.refit(m);
    if r.bool() { for id in 0..4 { h.rem(id); } let m = gen_margin(r, lat); h.refit(m); }
    h
}

/// insert everything, remove everything, insert again (slot reuse), refits in between
fn drain_history(r: &mut Rng, lat: bool) -> (String, String) {
    let n = 1 + r.below(24) as usize;
    let mut h = Hist::new(64);
    let fam = r.below(5);
    for id in 0..n { let b = gen_box(r, fam, lat); h.ins(id, b); }
    if r.bool() { let m = gen_margin(r, lat); h.refit(m); }
    for id in 0..n { h.rem(if r.bool() { id } else { n - 1 - id }); }
    if r.bool() { let m = gen_margin(r, lat); h.refit(m); }
    for id in 0..n { let b = gen_box(r, fam, lat); h.ins((id * 7) % 64, b); }
    let m = gen_margin(r, lat); h.refit(m);
    h.finish()
}

/// (for C07) a history ending with a refit, followed by `n` query points: `<history args> <point>`
pub fn gen_history_for_queries(r: &mut Rng, thorough: bool, lat: bool, n: usize) -> Vec<(String, String)> {
    let maxops = if thorough { 400 } else { 40 };
    let var = r.below(10);
    let mut h = if r.below(3) == 0 { root_split_history_h(r, var, lat) } else { random_history_h(r, maxops, lat, false) };
    let m = gen_margin(r, lat); h.refit(m);
    let live: Vec<usize> = (0..h.live.len()).filter(|i| h.live[*i]).collect();
    let mut v = Vec::new();
    for k in 0..n {
        let p = if k % 2 == 0 || live.is_empty() { d3::gen_p(r, lat, 60.0) }
            else { let b = h.boxes[*r.pick(&live)]; match r.below(3) { 0 => b.mins, 1 => d3::na::center(&b.mins, &b.maxs), _ => b.maxs + d3::gen_v(r, lat, 2.0) } };
        v.push(("bf_point".to_string(), format!("{} {}", h.args(), d3::hp(&p))));
    }
    v
}

/// a tree of about `n` live leaves: insertions of fresh ids with a few moves / removals and refits in between
/// (`balanced`: through `clear_and_rebuild`, optionally followed by updates and a `rebalance`); always ends with a refit
fn sized_history(r: &mut Rng, n: usize, lat: bool, balanced: bool) -> Hist {
    let nids = n + 4;
    let mut h = Hist::new(nids);
    let fam = r.below(6);
    let mut bx = |r: &mut Rng| { let f = if fam == 5 { r.below(5) } else { fam }; gen_box(r, f, lat) };
    if balanced {
        let items: Vec<(usize, Aabb)> = (0..n).map(|i| (i, bx(r))).collect();
        let dil = *r.pick(&[0.0, 0.0, 0.01]);
        h.rebuild(&items, dil);
        let extra = r.below(6) as usize;
        for _ in 0..extra { let id = r.below(nids as u64) as usize; let b = bx(r); h.ins(id, b); }
        if r.bool() && n > 0 { h.rem(r.below(n as u64) as usize); }
        let m = gen_margin(r, lat); h.refit(m);
        if r.bool() { h.rebalance(m); h.refit(m); }
    } else {
        for i in 0..n {
            let b = bx(r); h.ins(i, b);
            if r.below(9) == 0 { let m = gen_margin(r, lat); h.refit(m); }
            if r.below(11) == 0 && i > 0 { let id = r.below(i as u64) as usize; if h.live[id] { let b2 = moved(r, &h.boxes[id].clone(), lat); h.ins(id, b2); } }
            if r.below(13) == 0 && i > 2 { h.rem(r.below(i as u64) as usize); }
        }
        let m = gen_margin(r, lat); h.refit(m);
    }
    h
}

/// two independent trees in all size orders (tiny, small/large, large/small, equal), with or without a relative pose
fn gen_bvtt(r: &mut Rng, thorough: bool, it: usize) -> (String, String) {
    let lat = it % 2 == 0;
    let big = if thorough { 300 } else { 120 };
    let (n1, n2) = match it % 6 {
        0 => (1 + r.below(4) as usize, 1 + r.below(big as u64) as usize),            // tiny first tree
        1 => (5 + r.below(20) as usize, 30 + r.below(big as u64 - 29) as usize),     // small / large
        2 => (30 + r.below(big as u64 - 29) as usize, 5 + r.below(20) as usize),     // large / small
        3 => { let n = 5 + r.below(big as u64 - 4) as usize; (n, n) }                 // equal
        4 => (1 + r.below(big as u64) as usize, 1 + r.below(4) as usize),            // tiny second tree
        _ => (1 + r.below(big as u64) as usize, 1 + r.below(big as u64) as usize),
    };
    let balanced = it % 3 == 2;
    let b1 = balanced && r.bool();
    let h1 = sized_history(r, n1, lat, b1);
    let h2 = sized_history(r, n2, lat, balanced);
    let pose = if r.below(3) == 0 { "0".to_string() } else {
        // the second tree lives in its own frame: small offsets keep many pairs overlapping
        let mut m = d3::gen_iso(r, lat, if lat { 1.0 } else { 5.0 });
        if r.below(4) == 0 { m.rotation = d3::na::UnitQuaternion::identity(); }
        format!("1 {}", d3::hiso(&m)) };
    // rebalance / clear_and_rebuild are modelled too: every pair of histories is model-compared
    ("bvtt".to_string(), format!("{} {} {}", h1.args(), h2.args(), pose))
}

/// tree pairs for `bvttall` (every simultaneous entry point, sequential and parallel): trees of DIFFERENT depth in both
/// orders (a single leaf node with 1..3 / 4 leaves against a deeper tree), equal trees, empty trees, emptied trees
fn gen_bvttall(r: &mut Rng, thorough: bool, it: usize) -> (String, String) {
    let lat = it % 2 == 0;
    let big = if thorough { 200u64 } else { 70 };
    let empty = || Hist::new(1);
    let emptied = |r: &mut Rng| { let mut h = Hist::new(4); for id in 0..3 { let b = gen_box(r, 0, lat); h.ins(id, b); } h.refit(0.0);
                                  for id in 0..3 { h.rem(id); } h.refit(0.0); h };
    let balanced = it % 3 == 1;
    let tiny = 1 + r.below(3) as usize;
    let deep = 5 + r.below(big) as usize;
    let mid = 5 + r.below(12) as usize;
    let deeper = 40 + r.below(big) as usize;
    let any1 = 1 + r.below(big) as usize;
    let any2 = 1 + r.below(big) as usize;
    let small = 1 + r.below(20) as usize;
    let rb1 = r.bool(); let rb2 = r.bool();
    let (h1, h2): (Hist, Hist) = match it % 12 {
        0 => { let a = sized_history(r, tiny, lat, false); let b = sized_history(r, deep, lat, balanced); (a, b) }   // 1..3 leaves: trailing lanes invalid
        1 => { let a = sized_history(r, deep, lat, balanced); let b = sized_history(r, tiny, lat, false); (a, b) }
        2 => { let a = sized_history(r, 4, lat, false); let b = sized_history(r, deep, lat, balanced); (a, b) }      // full leaf node
        3 => { let a = sized_history(r, deep, lat, balanced); let b = sized_history(r, 4, lat, false); (a, b) }
        4 => { let a = sized_history(r, mid, lat, false); let b = sized_history(r, deeper, lat, balanced); (a, b) }  // depth 2 vs deeper
        5 => { let a = sized_history(r, deeper, lat, balanced); let b = sized_history(r, mid, lat, false); (a, b) }
        6 => { let h = sized_history(r, any1, lat, balanced); let g = Hist { ops: h.ops.clone(), live: h.live.clone(), boxes: h.boxes.clone() }; (h, g) } // equal trees
        7 => { let b = sized_history(r, small, lat, false); (empty(), b) }
        8 => { let a = sized_history(r, small, lat, false); let b = if rb1 { empty() } else { emptied(r) }; (a, b) }
        9 => { let a = emptied(r); let b = sized_history(r, small, lat, balanced); (a, b) }
        10 => { let a = sized_history(r, 1 + tiny, lat, true); let b = sized_history(r, 12 + deep, lat, true); (a, b) } // both rebuilt
        _ => { let a = sized_history(r, any1, lat, rb1); let b = sized_history(r, any2, lat, rb2); (a, b) }
    };
    let pose = if r.below(2) == 0 { "0".to_string() } else {
        let mut m = d3::gen_iso(r, lat, if lat { 1.0 } else { 5.0 });
        if r.below(3) == 0 { m.rotation = d3::na::UnitQuaternion::identity(); }
        format!("1 {}", d3::hiso(&m)) };
    ("bvttall".to_string(), format!("{} {} {}", h1.args(), h2.args(), pose))
}

/// a tree, a query box and a query point for `travall` (every single-tree entry point)
fn gen_travall(r: &mut Rng, thorough: bool, it: usize) -> (String, String) {
    let lat = it % 2 == 0;
    let n = match it % 5 { 0 => r.below(4) as usize, 1 => 4 + r.below(3) as usize, _ => 1 + r.below(if thorough { 200 } else { 80 }) as usize };
    let h = sized_history(r, n, lat, it % 3 == 2);
    let live: Vec<usize> = (0..h.live.len()).filter(|i| h.live[*i]).collect();
    let qb = if live.is_empty() || r.below(4) == 0 { gen_box(r, 0, lat) } else { let bb = h.boxes[*r.pick(&live)]; moved(r, &bb, lat) };
    let pt = if live.is_empty() || r.below(3) == 0 { d3::gen_p(r, lat, 60.0) }
        else { let b = h.boxes[*r.pick(&live)]; match r.below(3) { 0 => b.mins, 1 => d3::na::center(&b.mins, &b.maxs), _ => b.maxs + d3::gen_v(r, lat, 2.0) } };
    ((if it % 2 == 0 || it % 5 == 0 { "travall" } else { "bfirst" }).to_string(), format!("{} {} {}", h.args(), hb(&qb), d3::hp(&pt)))
}

pub fn gen(r: &mut Rng, thorough: bool) -> Vec<(String, String)> {
    let mut v = Vec::new();
    let nb = if thorough { 240 } else { 60 };
    for it in 0..nb { v.push(gen_bvtt(r, thorough, it)); }
    // every simultaneous / single-tree entry point, sequential and parallel (feature `parallel`)
    let nba = if thorough { 180 } else { 60 };
    for it in 0..nba { v.push(gen_bvttall(r, thorough, it)); }
    let nta = if thorough { 200 } else { 60 };
    for it in 0..nta { v.push(gen_travall(r, thorough, it)); }
    // single-tree depth-first entry points with box / context / ray visitors
    let nd = if thorough { 200 } else { 40 };
    for it in 0..nd {
        let lat = it % 2 == 0;
        let n = 1 + r.below(if thorough { 200 } else { 80 }) as usize;
        let h = sized_history(r, n, lat, it % 3 == 2);
        let live: Vec<usize> = (0..h.live.len()).filter(|i| h.live[*i]).collect();
        for _ in 0..3 {
            let qb = if live.is_empty() || r.below(4) == 0 { gen_box(r, 0, lat) } else { let bb = h.boxes[*r.pick(&live)]; moved(r, &bb, lat) };
            let tgt = if live.is_empty() { d3::gen_p(r, lat, 10.0) } else { let b = h.boxes[*r.pick(&live)]; d3::na::center(&b.mins, &b.maxs) };
            let org = tgt + d3::gen_v(r, lat, 30.0);
            let dir = if r.below(4) == 0 { let mut d = d3::Vector::zeros(); d[r.below(3) as usize] = if r.bool() { 1.0 } else { -2.0 }; d } else { (tgt - org) * *r.pick(&[0.5, 1.0, 2.0]) };
            if dir.norm() < 1e-9 { continue; }
            let max_toi = if r.below(4) == 0 { *r.pick(&[0.25, 0.5]) } else { 1.0e3 };
            v.push(("dfs".to_string(), format!("{} {} {} {} {}", h.args(), hb(&qb), d3::hp(&org), d3::hv(&dir), hx(max_toi))));
        }
    }
    let (nrand, maxops) = if thorough { (600, 400) } else { (260, 40) };
    for it in 0..nrand { v.push(random_history(r, maxops, it % 2 == 0)); }
    let nstruct = if thorough { 40 } else { 6 };
    for it in 0..nstruct {
        for variant in 0..10 { v.push(root_split_history(r, variant, it % 2 == 0)); }
        v.push(drain_history(r, it % 2 == 0));
    }
    // traversal on the final state (histories ending with a refit) against brute force
    let nq = if thorough { 150 } else { 60 };
    for it in 0..nq {
        let lat = it % 2 == 0;
        let var = r.below(10);
        let mut h = if it % 3 == 0 { root_split_history_h(r, var, lat) } else { random_history_h(r, maxops, lat, false) };
        let m = gen_margin(r, lat); h.refit(m);
        v.extend(h.queries(r, lat, 3));
    }
    // histories with rebalance / clear_and_rebuild judged by the invariant oracle on the dumped Rust state only
    let nfull = if thorough { 300 } else { 100 };
    for it in 0..nfull {
        let h = random_history_h(r, maxops, it % 2 == 0, true);
        v.push(("histo".to_string(), h.args()));
    }
    // the same kind of histories compared state-for-state with the model (`hist`), plus structured ones
    let nfull2 = if thorough { 400 } else { 120 };
    for it in 0..nfull2 {
        let h = random_history_h(r, maxops, it % 2 == 0, true);
        v.push(h.finish());
    }
    let nst = if thorough { 12 } else { 2 };
    for it in 0..nst {
        let lat = it % 2 == 0;
        for variant in 0..6 { v.push(rebuild_history(r, variant, lat)); }
        v.push(park_free_list_history(r, lat));
        v.push(shrink_grow_history(r, lat));
    }
    let ndeep = if thorough { 4 } else { 1 };
    for it in 0..ndeep { v.push(deep_chain_history(r, it % 2 == 0)); }
    // round fu3: check_topology / accessors / scaled / early exit (appended: the stream above is unchanged)
    v.extend(ext::gen(r, thorough));
    // round fu5: every public build path (both splitters, cutting callback) and deep degenerate trees
    v.extend(bld::gen(r, thorough));
    v
}

/// `clear_and_rebuild` on `n` boxes of one family (identical / degenerate / nested / grid / random; sizes around the
/// 4- and 16-leaf thresholds), then rebalance, moves, refit, rebalance, a second rebuild
fn rebuild_history(r: &mut Rng, variant: u64, lat: bool) -> (String, String) {
    let fam = variant % 5;
    let n = *r.pick(&[0usize, 1, 3, 4, 5, 6, 9, 16, 17, 23, 40, 64]);
    let mut h = Hist::new(64);
    if variant == 5 { for id in 0..7 { let b = gen_box(r, fam, lat); h.ins(id, b); } }   // pending dirty nodes survive the rebuild
    let mut ids: Vec<usize> = (0..64).collect();
    for i in 0..ids.len() { let j = i + r.below((ids.len() - i) as u64) as usize; ids.swap(i, j); }
    let items: Vec<(usize, Aabb)> = ids[..n].iter().map(|i| (*i, gen_box(r, fam, lat))).collect();
    let dil = *r.pick(&[0.0, 0.0, 0.01, 0.25]);
    h.rebuild(&items, dil);
    let m = gen_margin(r, lat);
    if r.bool() { h.refit(m); }
    h.rebalance(m);
    h.refit(m);
    let live: Vec<usize> = (0..64).filter(|i| h.live[*i]).collect();
    for _ in 0..r.below(12) { if live.is_empty() { break; } let id = *r.pick(&live); let b = moved(r, &h.boxes[id].clone(), lat); h.ins(id, b); }
    for _ in 0..r.below(6) { let id = r.below(64) as usize; if h.live[id] { h.rem(id); } else { let b = gen_box(r, fam, lat); h.ins(id, b); } }
    let m = gen_margin(r, lat); h.refit(m); h.rebalance(m); h.refit(m);
    let n2 = r.below(30) as usize;
    let items: Vec<(usize, Aabb)> = ids[..n2].iter().map(|i| (*i, gen_box(r, fam, lat))).collect();
    h.rebuild(&items, dil);
    let m = gen_margin(r, lat); h.refit(m);
    h.finish()
}

/// a rebalance that leaves ids parked in the free list, a rebuild on the same tree, growth, a rebalance that needs more
/// nodes than it frees (seeded/C08-agent-m1)
fn park_free_list_history(r: &mut Rng, lat: bool) -> (String, String) {
    let fam = *r.pick(&[0u64, 4, 4, 3]);
    let mut h = Hist::new(128);
    let items: Vec<(usize, Aabb)> = (0..64).map(|i| (i, gen_box(r, fam, lat))).collect();
    h.rebuild(&items, 0.0);
    for id in 16..64 { h.rem(id); }
    let m = gen_margin(r, lat); h.refit(m); h.rebalance(m);
    let items: Vec<(usize, Aabb)> = (0..64).map(|i| (i, gen_box(r, fam, lat))).collect();
    h.rebuild(&items, 0.0);
    for id in 64..112 { let b = gen_box(r, fam, lat); h.ins(id, b); }
    let m = gen_margin(r, lat); h.refit(m); h.rebalance(m); h.refit(m);
    h.finish()
}

/// repeated shrink / rebalance / grow / rebalance cycles without rebuild: free-list reuse and fresh pushes
fn shrink_grow_history(r: &mut Rng, lat: bool) -> (String, String) {
    let fam = r.below(5);
    let mut h = Hist::new(96);
    let n0 = 20 + r.below(40) as usize;
    for id in 0..n0 { let b = gen_box(r, fam, lat); h.ins(id, b); if r.below(7) == 0 { let m = gen_margin(r, lat); h.refit(m); } }
    for _ in 0..3 {
        let m = gen_margin(r, lat); h.refit(m); h.rebalance(m);
        let live: Vec<usize> = (0..96).filter(|i| h.live[*i]).collect();
        for id in &live { if r.below(3) == 0 { h.rem(*id); } }
        let m = gen_margin(r, lat); h.refit(m); h.rebalance(m);
        for _ in 0..r.below(40) { let id = r.below(96) as usize; let b = gen_box(r, fam, lat); h.ins(id, b); }
    }
    let m = gen_margin(r, lat); h.refit(m);
    h.finish()
}

/// 200 consecutive insertions: 15 root splits put the first leaves below `FULL_REBUILD_DEPTH`; refit; rebalance takes the
/// full-rebuild path; then ordinary updates
fn deep_chain_history(r: &mut Rng, lat: bool) -> (String, String) {
    let fam = *r.pick(&[0u64, 4]);
    let n = 186 + r.below(14) as usize;
    let mut h = Hist::new(210);
    for id in 0..n { let b = gen_box(r, fam, lat); h.ins(id, b); if id % 50 == 49 && r.bool() { let m = gen_margin(r, lat); h.refit(m); } }
    let m = gen_margin(r, lat); h.refit(m); h.rebalance(m);
    for id in 0..10 { h.rem(id * 3); }
    for id in 200..205 { let b = gen_box(r, fam, lat); h.ins(id, b); }
    let m = gen_margin(r, lat); h.refit(m); h.rebalance(m); h.refit(m);
    h.finish()
}
