// Dimension-generic generators for C06 (included after c06_dim.rs in m3 / m2).

fn gen_opts(r: &mut Rng, lat: bool) -> ShapeCastOptions {
    let max_time_of_impact = if lat { *r.pick(&[0.25, 0.5, 1.0, 2.0, 4.0, 16.0, 1024.0, f64::MAX]) }
        else if r.below(8) == 0 { f64::MAX } else { r.logu(1e-2, 1e3) };
    let target_distance = if r.below(3) == 0 { 0.0 } else if lat { *r.pick(&[0.125, 0.25, 0.5, 1.0, 2.0]) } else { r.logu(1e-3, 10.0) };
    ShapeCastOptions { max_time_of_impact, target_distance, stop_at_penetration: r.bool(), compute_impact_geometry_on_penetration: r.bool() }
}

/// relative velocity for a body whose reference point sits at `t` (seen from the other body) and which touches when
/// the reference point is at distance `reach` from the origin.
fn gen_vel(r: &mut Rng, lat: bool, t: &V, reach: f64) -> V {
    let sc = if lat { *r.pick(&[0.25, 0.5, 1.0, 2.0, 8.0]) } else { r.logu(1e-3, 1e3) };
    match r.below(9) {
        0 => V::zeros(),
        8 => ortho(t) * sc,                          // purely tangential (normal velocity exactly 0 on lattice inputs)
        1 => -*t * sc,                               // straight at the centre
        2 => *t * sc,                                // straight away
        3 => { // grazing: closest approach of the reference point = reach (when t ⟂ offset is lattice this is exact)
            let o = ortho(t); let n = o.norm();
            if n == 0.0 { axis(r.below(3) as usize, sc) } else { (-*t + o * (reach / n)) * sc } }
        4 => { let o = ortho(t); (-*t + o * if lat { *r.pick(&[0.125, 0.25, 0.5, 1.0]) } else { r.uniform(0.0, 1.5) }) * sc }
        5 => axis(r.below(3) as usize, if r.bool() { sc } else { -sc }),
        _ => dx::gen_v(r, lat, if lat { 1.0 } else { 50.0 }),
    }
}

/// translation of body 2 relative to body 1 for a pair that touches at centre distance `reach`
fn gen_offset(r: &mut Rng, lat: bool, reach: f64) -> V {
    match r.below(8) {
        0 => V::zeros(),                                                     // coincident
        1 => { let (p, n) = r.pick(&pyth()).clone(); p * (reach / n) }       // exactly touching (lattice reach: exact)
        2 => { let (p, n) = r.pick(&pyth()).clone(); p * (reach / n) * *r.pick(&[0.25, 0.5, 0.75]) }  // penetrating
        3 => { let (p, n) = r.pick(&pyth()).clone(); p * (reach / n) * *r.pick(&[1.5, 2.0, 4.0]) }    // apart
        4 => axis(r.below(3) as usize, reach * *r.pick(&[-2.0, -1.0, -0.5, 0.5, 1.0, 2.0])),
        _ => dx::gen_v(r, lat, if lat { 1.0 } else { 30.0 }),
    }
}

fn gen_unit(r: &mut Rng, lat: bool) -> V {
    if lat { r.pick(&lat_units()).clone() }
    else { loop { let v = dx::gen_v(r, false, 1.0); if v.norm() > 0.1 { return v.normalize(); } } }
}


fn hshape_ball(rad: f64) -> String { format!("b {}", hx(rad)) }
fn hshape_cuboid(he: &V) -> String { format!("c {}", dx::hv(he)) }
fn hshape_hs(n: &V) -> String { format!("h {}", dx::hv(n)) }

/// support-mapped body (ball or cuboid) placed relative to a half-space `n·p ≤ 0`: returns (pos12, reach) where
/// `reach` is the extent of the body towards the plane, so that depth = n·t - reach
fn place_vs_halfspace(r: &mut Rng, lat: bool, n: &V, extent_along_n: f64, target: f64) -> V {
    // translation with a chosen signed gap to the plane
    let gap = match r.below(6) {
        0 => 0.0,                                   // exactly touching the target offset
        1 => -extent_along_n * 0.5,                 // penetrating
        2 => if lat { *r.pick(&[0.25, 1.0, 3.0]) } else { r.logu(1e-3, 20.0) },
        3 => target * 0.5 - target,                 // within target distance but not touching the plane
        4 => if lat { -*r.pick(&[0.25, 1.0, 8.0]) } else { -r.logu(1e-3, 20.0) },
        _ => if lat { r.lattice(16, 2) } else { r.uniform(-20.0, 20.0) },
    };
    let tang = { let o = ortho(n); o * if lat { r.lattice(8, 1) } else { r.uniform(-10.0, 10.0) } };
    *n * (extent_along_n + target + gap) + tang
}

fn cuboid_extent(he: &V, m: &Iso, n: &V) -> f64 {
    let ln = m.inverse_transform_vector(n);
    let mut e = 0.0; for i in 0..DIM { e += (ln[i] * he[i]).abs(); } e
}

fn gen_he(r: &mut Rng, lat: bool) -> V { dx::gen_he(r, lat) }

/// a random shape for the end-to-end runs: (token string, rough radius)
fn gen_e2e_shape(r: &mut Rng, lat: bool, allow_hs: bool) -> (String, f64, bool) {
    let k = r.below(if allow_hs { 7 } else { 6 });
    let sz = if lat { *r.pick(&[0.5, 1.0, 2.0]) } else { r.logu(0.05, 20.0) };
    match k {
        0 => (hshape_ball(sz), sz, false),
        1 => { let he = gen_he(r, lat); (hshape_cuboid(&he), he.norm(), false) }
        2 => { let a = dx::gen_p(r, lat, sz); let b2 = dx::gen_p(r, lat, sz); let rad = if lat { *r.pick(&[0.25, 0.5, 1.0]) } else { r.logu(0.05, 5.0) };
               (format!("p {} {} {}", dx::hp(&a), dx::hp(&b2), hx(rad)), a.coords.norm().max(b2.coords.norm()) + rad, false) }
        3 => { loop { let a = dx::gen_p(r, lat, sz.max(1.0)); let b2 = dx::gen_p(r, lat, sz.max(1.0)); let c = dx::gen_p(r, lat, sz.max(1.0));
               // non-degenerate triangle
               let ab = b2 - a; let ac = c - a; let area2 = (ab.norm_squared() * ac.norm_squared() - ab.dot(&ac).powi(2)).max(0.0).sqrt();
               if area2 > 0.05 * (ab.norm() * ac.norm()).max(1e-9) && ab.norm() > 0.05 && ac.norm() > 0.05 {
                   return (format!("t {} {} {}", dx::hp(&a), dx::hp(&b2), dx::hp(&c)), a.coords.norm().max(b2.coords.norm()).max(c.coords.norm()), false); } } }
        4 => { loop { let a = dx::gen_p(r, lat, sz.max(1.0)); let b2 = dx::gen_p(r, lat, sz.max(1.0));
               if (b2 - a).norm() > 0.05 { return (format!("s {} {}", dx::hp(&a), dx::hp(&b2)), a.coords.norm().max(b2.coords.norm()), false); } } }
        5 => { // convex hull of 5..9 points (lattice: cube-ish clouds)
               let k = 5 + r.below(5) as usize;
               let pts: Vec<P> = (0..k).map(|_| dx::gen_p(r, lat, sz.max(1.0))).collect();
               let rad = pts.iter().map(|p| p.coords.norm()).fold(0.0, f64::max);
               (format!("x {} {}", k, pts.iter().map(|p| dx::hp(p)).collect::<Vec<_>>().join(" ")), rad, false) }
        _ => { let n = gen_unit(r, lat); (hshape_hs(&n), 0.0, true) }
    }
}

// =====================================================================================================================
// follow-up families: standing pairs inside / just outside the target distance, height fields, composites
// =====================================================================================================================

fn mk(tok: &str) -> Box<dyn Shape> { let mut a = Args::new(tok); shape(&mut a) }

/// a convex shape handled by the GJK route (no ball/ball, no half-space): (tokens, bounding radius)
fn gen_gjk_shape(r: &mut Rng, lat: bool, offset: &V) -> (String, f64) {
    let sz = if lat { *r.pick(&[0.5, 1.0, 2.0]) } else { r.logu(0.3, 4.0) };
    let pt = |r: &mut Rng| -> P { dx::gen_p(r, lat, sz.max(1.0)) + *offset };
    match r.below(6) {
        0 => { let he = if lat { gen_he(r, true) } else { V::from_fn(|_, _| r.logu(0.2, 4.0)) }; (hshape_cuboid(&he), he.norm()) }   // cuboids are always centred
        1 => { let a = pt(r); let b2 = pt(r); let rad = if lat { *r.pick(&[0.25, 0.5, 1.0]) } else { r.logu(0.1, 2.0) };
               (format!("p {} {} {}", dx::hp(&a), dx::hp(&b2), hx(rad)), a.coords.norm().max(b2.coords.norm()) + rad) }
        2 => loop { let a = pt(r); let b2 = pt(r); let c = pt(r);
               let ab = b2 - a; let ac = c - a; let area2 = (ab.norm_squared() * ac.norm_squared() - ab.dot(&ac).powi(2)).max(0.0).sqrt();
               if area2 > 0.1 * (ab.norm() * ac.norm()).max(1e-9) && ab.norm() > 0.2 && ac.norm() > 0.2 {
                   return (format!("t {} {} {}", dx::hp(&a), dx::hp(&b2), dx::hp(&c)), a.coords.norm().max(b2.coords.norm()).max(c.coords.norm())); } },
        3 => loop { let a = pt(r); let b2 = pt(r);
               if (b2 - a).norm() > 0.2 { return (format!("s {} {}", dx::hp(&a), dx::hp(&b2)), a.coords.norm().max(b2.coords.norm())); } },
        4 => { let k = 5 + r.below(4) as usize; let pts: Vec<P> = (0..k).map(|_| pt(r)).collect();
               let rad = pts.iter().map(|p| p.coords.norm()).fold(0.0, f64::max);
               (format!("x {} {}", k, pts.iter().map(|p| dx::hp(p)).collect::<Vec<_>>().join(" ")), rad) }
        _ => { let rad = if lat { *r.pick(&[0.5, 1.0]) } else { r.logu(0.2, 3.0) }; (hshape_ball(rad), rad) }
    }
}

/// standing pair (zero RELATIVE velocity, equal world velocities) with an initial gap placed relative to the target
/// distance: strictly inside `(0, target]` (a hit at t = 0 is due) or just above it (`None` is due)
fn gen_gap_case(r: &mut Rng, lat: bool) -> Option<(String, String)> {
    let zero = V::zeros();
    let (s1, rad1) = gen_gjk_shape(r, lat, &zero);
    let (s2, rad2) = loop { let x = gen_gjk_shape(r, lat, &zero); if !(s1.starts_with("b ") && x.0.starts_with("b ")) || r.below(4) == 0 { break x; } };
    let (g1, g2) = (mk(&s1), mk(&s2));
    let target = if lat { *r.pick(&[0.125, 0.25, 0.5, 1.0]) } else { r.logu(0.08, 2.0) };
    let factor = *r.pick(&[0.25, 0.5, 0.75, 0.9, 1.0 - 1.0 / 64.0, 1.0 + 1.0 / 16.0, 1.25, 2.0]);
    let gap = target * factor;
    let pos1 = dx::gen_iso(r, lat, 5.0);
    let mut pos2 = dx::gen_iso(r, lat, 5.0);
    let dir = gen_unit(r, lat);
    let d_at = |s: f64, pos2: &mut Iso| -> Option<f64> { pos2.translation.vector = pos1.translation.vector + dir * s; query::distance(&pos1, &*g1, pos2, &*g2).ok() };
    // bisection on the shift along `dir`: lo has distance <= gap, hi has distance > gap
    let mut hi = rad1 + rad2 + gap + 1.0; let mut lo = 0.0;
    if d_at(hi, &mut pos2)? <= gap || d_at(lo, &mut pos2)? > gap { return None; }
    for _ in 0..60 { let mid = 0.5 * (lo + hi); if d_at(mid, &mut pos2)? > gap { hi = mid; } else { lo = mid; } }
    let d = d_at(hi, &mut pos2)?;
    if (d - gap).abs() > 1e-6 * (1.0 + gap) { return None; }   // the distance query is not continuous here: not usable
    let w = match r.below(3) { 0 => V::zeros(), _ => dx::gen_v(r, lat, 5.0) };       // the same world velocity for both
    let o = ShapeCastOptions { max_time_of_impact: if lat { *r.pick(&[0.5, 1.0, 4.0]) } else { r.logu(0.1, 50.0) }, target_distance: target,
                               stop_at_penetration: r.below(4) != 0, compute_impact_geometry_on_penetration: r.bool() };
    let (a, b2) = if r.bool() { ((pos1, s1), (pos2, s2)) } else { ((pos2, s2), (pos1, s1)) };
    Some(("e2e".into(), format!("{} {} {} {} {} {} {}", dx::hiso(&a.0), dx::hv(&w), a.1, dx::hiso(&b2.0), dx::hv(&w), b2.1, hopts(&o))))
}

/// a small moving body for the terrain / composite runs: (tokens, radius)
fn gen_small_body(r: &mut Rng, lat: bool, size: f64) -> (String, f64) {
    match r.below(3) {
        0 => { let rad = size * if lat { 0.5 } else { r.uniform(0.3, 0.8) }; (hshape_ball(rad), rad) }
        1 => { let he = V::from_fn(|_, _| size * if lat { *r.pick(&[0.25, 0.5]) } else { r.uniform(0.2, 0.7) }); (hshape_cuboid(&he), he.norm()) }
        _ => { let hh = size * if lat { 0.5 } else { r.uniform(0.2, 0.8) }; let rad = size * if lat { 0.25 } else { r.uniform(0.15, 0.5) };
               let ax = axis(r.below(3) as usize, hh); (format!("p {} {} {}", dx::hp(&P::from(-ax)), dx::hp(&P::from(ax)), hx(rad)), hh + rad) }
    }
}

/// height field (2-D: segments, 3-D: triangles, with removed / zig-zag cells) against a small ball / cuboid / capsule that
/// flies over several cells before coming down: axis-aligned, shallow-angle and diagonal horizontal velocities, starts
/// inside and outside the horizontal range, FINITE `max_time_of_impact` placed around the true first impact
fn gen_hf_case(r: &mut Rng, lat: bool) -> Vec<(String, String)> {
    let hf = gen_hf(r, lat);
    let ghf = mk(&hf.tok);
    let cwmin = hf.cw.iter().take(hf.haxes.len()).cloned().fold(f64::MAX, f64::min);
    let bsz = cwmin * if lat { 0.5 } else { r.uniform(0.3, 0.9) };
    let (sb, radb) = gen_small_body(r, lat, bsz);
    let gb = mk(&sb);
    // horizontal velocity kind
    let nh = hf.haxes.len();
    let mut vel = V::zeros();
    let sgn = |r: &mut Rng| if r.bool() { 1.0 } else { -1.0 };
    let kind = r.below(5);
    if nh == 1 { vel[hf.haxes[0]] = sgn(r); } else {
        let (a0, a1) = if r.bool() { (hf.haxes[0], hf.haxes[1]) } else { (hf.haxes[1], hf.haxes[0]) };
        match kind {
            0 | 1 => { vel[a0] = sgn(r); }                                              // axis-aligned
            2 => { vel[a0] = sgn(r); vel[a1] = sgn(r) * if lat { 1.0 / 16.0 } else { r.uniform(0.005, 0.12) }; }   // shallow angle
            3 => { vel[a0] = sgn(r); vel[a1] = sgn(r); }                                // diagonal
            _ => { vel[a0] = sgn(r) * r.uniform(0.2, 1.0); vel[a1] = sgn(r) * r.uniform(0.2, 1.0); }
        }
    }
    // start: inside the horizontal range, or outside it (flying in)
    let mut start = V::zeros();
    let outside = r.below(3) == 0;
    for (k, &ax) in hf.haxes.iter().enumerate() {
        let h = hf.half[k];
        start[ax] = if outside && vel[ax] != 0.0 { -vel[ax].signum() * (h + hf.cw[k] * if lat { 1.5 } else { r.uniform(0.5, 2.5) }) }
                    else if vel[ax] != 0.0 { -vel[ax].signum() * h * if lat { *r.pick(&[0.25, 0.5, 0.75]) } else { r.uniform(0.0, 0.9) } }
                    else { h * if lat { *r.pick(&[-0.5, 0.0, 0.25]) } else { r.uniform(-0.8, 0.8) } };
    }
    let clearance = if lat { *r.pick(&[0.25, 0.5, 1.0]) } else { r.uniform(0.1, 1.5) };
    start[1] = hf.top + radb + clearance;
    // come down after flying over ~1.5 .. 6 cells
    let cells = if lat { *r.pick(&[1.5, 2.5, 4.0, 6.0]) } else { r.uniform(1.0, 6.0) };
    let hspeed = vel.norm();
    vel[1] = -(clearance + if r.bool() { 0.0 } else { 0.5 }) * hspeed / (cells * cwmin);
    let speed = if lat { *r.pick(&[0.5, 1.0, 4.0]) } else { r.logu(0.2, 20.0) };
    vel *= speed;
    let target = if r.below(3) == 0 { if lat { 0.125 } else { r.uniform(0.02, 0.3) } } else { 0.0 };
    // common pose of the scene, relative velocities split between the two bodies
    let m = dx::gen_iso(r, lat, 5.0);
    let pos_hf = m; let mut pos_b = m; pos_b.translation.vector = m * P::from(start) - P::origin();
    let pos_b = if r.bool() { pos_b } else { pos_b * { let mut q = dx::gen_iso(r, lat, 0.0); q.translation.vector = V::zeros(); q } };
    let w = if r.bool() { V::zeros() } else { dx::gen_v(r, lat, 2.0) };
    let (vel_hf, vel_b) = (w, w + m * vel);
    // reference first impact by brute force over the cells' parts, unbounded in time
    let huge = ShapeCastOptions { max_time_of_impact: 1.0e6, target_distance: target, stop_at_penetration: true, compute_impact_geometry_on_penetration: false };
    let bf = parts_cast(&pos_hf, &vel_hf, &parts(&*ghf), &pos_b, &vel_b, &parts(&*gb), huge).ok().flatten();
    let span = (hf.half[0] + hf.half[1]) * 4.0 / (hspeed * speed).max(1e-9);
    let maxes: Vec<f64> = match bf {
        Some(t) if t > 1e-9 => vec![t * (1.0 + 1.0 / 64.0) + 1e-3, t * 1.5, t * 4.0, t * 0.75],
        _ => vec![span, span * 0.25],
    };
    let mut out = Vec::new();
    for (k, mx) in maxes.iter().enumerate() {
        if k >= 2 && r.bool() { continue; }
        let o = ShapeCastOptions { max_time_of_impact: *mx, target_distance: target, stop_at_penetration: r.below(4) != 0, compute_impact_geometry_on_penetration: r.bool() };
        let args = if (k + out.len()) % 2 == 0 { format!("{} {} {} {} {} {} {}", dx::hiso(&pos_hf), dx::hv(&vel_hf), hf.tok, dx::hiso(&pos_b), dx::hv(&vel_b), sb, hopts(&o)) }
                   else { format!("{} {} {} {} {} {} {}", dx::hiso(&pos_b), dx::hv(&vel_b), sb, dx::hiso(&pos_hf), dx::hv(&vel_hf), hf.tok, hopts(&o)) };
        out.push(("e2e".to_string(), args));
    }
    out
}

/// Compound / TriMesh / Polyline: (tokens, local points to aim at, radius)
fn gen_composite(r: &mut Rng, lat: bool) -> (String, Vec<P>, f64) {
    match r.below(3) {
        0 => { let k = 2 + r.below(3) as usize; let mut toks = Vec::new(); let mut aims = Vec::new(); let mut rad: f64 = 0.0;
               for _ in 0..k { let mut m = dx::gen_iso(r, lat, 0.0); m.translation.vector = dx::gen_v(r, lat, 4.0) * if lat { 0.5 } else { 1.0 };
                   let psz = if lat { 1.0 } else { r.uniform(0.5, 2.0) };
                   let (s, rs) = gen_small_body(r, lat, psz);
                   aims.push(P::from(m.translation.vector)); rad = rad.max(m.translation.vector.norm() + rs);
                   toks.push(format!("{} {}", dx::hiso(&m), s)); }
               (format!("cp {} {}", k, toks.join(" ")), aims, rad) }
        1 => { let (tok, pts) = gen_trimesh_tok(r, lat); let rad = pts.iter().map(|p| p.coords.norm()).fold(0.0, f64::max); (tok, pts, rad) }
        _ => { let n = 4 + r.below(4) as usize; let mut pts = Vec::new(); let mut cur = dx::gen_p(r, lat, 2.0);
               for _ in 0..n { pts.push(cur); cur += dx::gen_v(r, lat, 2.0) * if lat { 0.5 } else { 1.0 } + axis(0, 0.5); }
               let rad = pts.iter().map(|p| p.coords.norm()).fold(0.0, f64::max);
               (format!("pl {} {}", n, pts.iter().map(|p| dx::hp(p)).collect::<Vec<_>>().join(" ")), pts, rad) }
    }
}

/// composite (either order) against a shape that may be far off its own origin, rotated start poses; linear e2e run and
/// nonlinear run with zero angular velocity
fn gen_composite_case(r: &mut Rng, lat: bool) -> Vec<(String, String)> {
    let (sc, aims, radc) = gen_composite(r, lat);
    // the other body: off-centre in its own frame most of the time
    let off = if r.below(4) == 0 { V::zeros() } else { gen_unit(r, lat) * if lat { *r.pick(&[2.0, 4.0, 6.0]) } else { r.uniform(1.5, 8.0) } };
    let (sb, _) = gen_gjk_shape(r, lat, &off);
    let gb = mk(&sb);
    let bs = gb.compute_local_bounding_sphere();
    let pos1 = dx::gen_iso(r, lat, 5.0);
    let mut pos2 = dx::gen_iso(r, false, 5.0);            // a generic (non-lattice) rotation
    if lat { pos2 = dx::gen_iso(r, true, 5.0); }
    let aim = pos1 * *r.pick(&aims);
    let dir = gen_unit(r, lat);
    let sep = match r.below(5) { 0 => 0.6, 1 => 1.2, 2 => 2.0, _ => 3.0 };
    let centre2 = aim + dir * ((radc * 0.5 + bs.radius()) * sep);
    pos2.translation.vector = centre2.coords - pos2.rotation * bs.center().coords;
    let speed = if lat { *r.pick(&[0.5, 1.0, 4.0]) } else { r.logu(0.2, 20.0) };
    let side = { let o = ortho(&dir); let n = o.norm(); if n > 0.0 { o / n } else { o } };
    let vrel = (-dir + side * match r.below(4) { 0 => 0.0, 1 => 0.1, 2 => 0.3, _ => 1.0 }) * speed;
    let vel1 = if r.bool() { V::zeros() } else { dx::gen_v(r, lat, 2.0) };
    let vel2 = vel1 + vrel;
    let travel = (radc + bs.radius()) * 3.0 * sep / speed;
    let mut o = ShapeCastOptions { max_time_of_impact: travel * *r.pick(&[0.5, 1.0, 2.0]), target_distance: 0.0, stop_at_penetration: r.below(4) != 0,
                                   compute_impact_geometry_on_penetration: r.bool() };
    let fmt = |o: &ShapeCastOptions, swap: bool| if !swap { format!("{} {} {} {} {} {} {}", dx::hiso(&pos1), dx::hv(&vel1), sc, dx::hiso(&pos2), dx::hv(&vel2), sb, hopts(o)) }
                                    else { format!("{} {} {} {} {} {} {}", dx::hiso(&pos2), dx::hv(&vel2), sb, dx::hiso(&pos1), dx::hv(&vel1), sc, hopts(o)) };
    let swap = r.bool();
    let mut out = vec![("nl".to_string(), fmt(&o, swap)), ("e2e".to_string(), fmt(&o, swap))];
    if r.bool() { o.target_distance = if lat { 0.25 } else { r.uniform(0.02, 0.5) }; out.push(("e2e".to_string(), fmt(&o, !swap))); }
    out
}

/// Grazing pass / near miss against a composite (Compound / TriMesh / Polyline, or a height field when `terrain`), with
/// `target_distance > 0`: in the composite's local frame the moving body's box stays a gap `g ∈ (0, target]` (or just above
/// the target) away from the box of one chosen part along one coordinate axis `k`, so that the boxes never overlap and only
/// the target-distance inflation of the broad phase lets the part be looked at.  The body's extreme point towards the part
/// passes exactly over the part's extreme point, hence the true distance reaches exactly `g` at the pass time:
///   * tangential pass (velocity has no component along `k`), `max_time_of_impact` around / beyond the pass time;
///   * oblique / head-on approach whose interval ends at the pass point (the hit is due although the boxes would only
///     meet after `max_time_of_impact`);
///   * start at the pass point (already within the target at t = 0) moving tangentially, receding, or not at all.
/// The chosen part is the composite's outermost one along `±k` (then the whole hierarchy is missed) or a random one
/// (then only a leaf / inner node is).  Judged by the e2e distance-sample oracle and the reduction over the parts.
fn gen_graze_case(r: &mut Rng, lat: bool, terrain: bool) -> Vec<(String, String)> {
    let (sc, gc, bsz): (String, Box<dyn Shape>, f64) = if terrain {
        let hf = gen_hf(r, lat); let g = mk(&hf.tok);
        let cwmin = hf.cw.iter().take(hf.haxes.len()).cloned().fold(f64::MAX, f64::min);
        (hf.tok, g, cwmin * if lat { 0.5 } else { r.uniform(0.3, 0.9) })
    } else { let (tok, _, _) = gen_composite(r, lat); let g = mk(&tok); (tok, g, if lat { 1.0 } else { r.uniform(0.5, 1.5) }) };
    let cparts = parts(&*gc);
    if cparts.is_empty() { return Vec::new(); }
    // the axis along which the boxes stay apart, and the side of the part on which the body passes
    let k = if terrain && r.below(3) != 0 { 1 } else { r.below(DIM as u64) as usize };
    let side = if terrain && k == 1 { if r.below(8) == 0 { -1.0 } else { 1.0 } } else if r.bool() { 1.0 } else { -1.0 };
    let ek = axis(k, side);
    let boxes: Vec<px::bounding_volume::Aabb> = cparts.iter().map(|(m, g)| g.compute_aabb(m)).collect();
    let ext = |b: &px::bounding_volume::Aabb| if side > 0.0 { b.maxs[k] } else { -b.mins[k] };
    let pi = if r.below(5) < 3 { let mut best = 0; for i in 1..boxes.len() { if ext(&boxes[i]) > ext(&boxes[best]) { best = i; } } best }
             else { r.below(boxes.len() as u64) as usize };
    let (pm, pg) = &cparts[pi];
    let pstar = match pg.as_support_map() { Some(sm) => sm.support_point(pm, &ek), None => return Vec::new() };
    // the moving body: centred ball / cuboid / capsule, or a convex shape far off its own origin; own rotation or none
    let target = if lat { *r.pick(&[0.125, 0.25, 0.5]) } else { r.uniform(0.05, 0.6) };
    let gap = target * *r.pick(&[0.25, 0.5, 0.75, 0.9375, 0.5, 0.75, 1.25]);
    let (sb, _) = if r.below(3) != 0 { gen_small_body(r, lat, bsz) }
                  else { let off = gen_unit(r, lat) * if lat { *r.pick(&[2.0, 4.0]) } else { r.uniform(1.5, 5.0) }; gen_gjk_shape(r, lat, &off) };
    let gb = mk(&sb);
    let mut q = if r.below(3) == 0 { Iso::identity() } else { dx::gen_iso(r, lat, 1.0) };
    q.translation.vector = V::zeros();
    let bb = gb.compute_aabb(&q);
    let sp = match gb.as_support_map() { Some(sm) => sm.support_point(&q, &(-ek)), None => return Vec::new() };
    let radc = { let s = gc.compute_local_bounding_sphere(); s.center().coords.norm() + s.radius() };
    let radb = { let s = gb.compute_local_bounding_sphere(); s.center().coords.norm() + s.radius() };
    // translation of the body (composite's local frame) at the pass point
    let mut tp = pstar.coords - sp.coords;
    tp[k] = if side > 0.0 { boxes[pi].maxs[k] + gap - bb.mins[k] } else { boxes[pi].mins[k] - gap - bb.maxs[k] };
    // a direction with no component along k
    let sgn = |r: &mut Rng| if r.bool() { 1.0 } else { -1.0 };
    let dperp: V = if DIM == 2 { axis(k + 1, sgn(r)) } else {
        let (a0, a1) = if r.bool() { ((k + 1) % 3, (k + 2) % 3) } else { ((k + 2) % 3, (k + 1) % 3) };
        match r.below(4) {
            0 => axis(a0, sgn(r)),
            1 => axis(a0, sgn(r)) + axis(a1, sgn(r)),
            2 => axis(a0, sgn(r)) + axis(a1, sgn(r) * if lat { 0.25 } else { r.uniform(0.02, 0.5) }),
            _ => axis(a0, sgn(r) * r.uniform(0.2, 1.0)) + axis(a1, sgn(r) * r.uniform(0.2, 1.0)),
        }
    };
    let speed = if lat { *r.pick(&[0.5, 1.0, 4.0]) } else { r.logu(0.2, 20.0) };
    let lead = (radc + radb) * if lat { *r.pick(&[1.5, 2.0]) } else { r.uniform(1.2, 2.5) };
    let (d, t0, max_toi): (V, V, f64) = match r.below(10) {
        0..=5 => { let d = dperp * speed; let t_pass = lead / d.norm();
                   (d, tp - d * t_pass, t_pass * *r.pick(&[2.0, 4.0, 1.5, 1.0 + 1.0 / 64.0, 8.0])) }
        6 | 7 => { let d = (dperp * *r.pick(&[0.0, 0.5, 1.0, 2.0]) - ek * if lat { *r.pick(&[0.5, 1.0]) } else { r.uniform(0.2, 1.5) }) * speed;
                   let t_pass = lead / d.norm();
                   (d, tp - d * t_pass, t_pass * *r.pick(&[1.0, 1.0 + 1.0 / 64.0])) }
        8 => { let d = (dperp + ek * *r.pick(&[0.0, 0.0, 0.25, 1.0])) * speed; (d, tp, lead / d.norm() * *r.pick(&[0.25, 1.0, 4.0])) }
        _ => (V::zeros(), tp, if lat { *r.pick(&[0.5, 1.0, 4.0]) } else { r.logu(0.1, 50.0) }),
    };
    // common world pose of the scene; the relative velocity is split between the two bodies
    let m = dx::gen_iso(r, lat, 5.0);
    let pos_c = m;
    let mut ql = q; ql.translation.vector = t0;
    let pos_b = m * ql;
    let w = if r.bool() { V::zeros() } else { dx::gen_v(r, lat, 2.0) };
    let (vel_c, vel_b) = (w, w + m * d);
    let o = ShapeCastOptions { max_time_of_impact: max_toi, target_distance: target, stop_at_penetration: r.below(4) != 0, compute_impact_geometry_on_penetration: r.bool() };
    let args = if r.bool() { format!("{} {} {} {} {} {} {}", dx::hiso(&pos_c), dx::hv(&vel_c), sc, dx::hiso(&pos_b), dx::hv(&vel_b), sb, hopts(&o)) }
               else { format!("{} {} {} {} {} {} {}", dx::hiso(&pos_b), dx::hv(&vel_b), sb, dx::hiso(&pos_c), dx::hv(&vel_c), sc, hopts(&o)) };
    vec![("e2e".to_string(), args)]
}

/// one BVH box against a posed ball / cuboid for the broad-phase test `cull`: the boxes are placed a chosen signed gap apart
/// along one axis at a "pass" point (overlapping, touching, inside / exactly at / just beyond the target distance, far),
/// aligned or corner-to-corner on the other axes; velocities tangential (exactly zero along the gap axis), approaching with
/// the interval ending at the pass point, starting at the pass point, zero, axis-aligned with signed zeros, random;
/// `max_time_of_impact` at / around the pass time or unbounded.
fn gen_cull_case(r: &mut Rng, lat: bool) -> (String, String) {
    let c = dx::gen_p(r, lat, 10.0);
    let mut h = if lat { gen_he(r, true) } else { V::from_fn(|_, _| r.logu(1e-2, 20.0)) };
    if r.below(6) == 0 { h[r.below(DIM as u64) as usize] = 0.0; }                 // flat box (axis-aligned segment / face)
    let (mins, maxs) = (c - h, c + h);
    let sb = if r.bool() { hshape_ball(if lat { r.pos_extent(true) } else { r.logu(1e-2, 20.0) }) }
             else { let he = if lat { gen_he(r, true) } else { V::from_fn(|_, _| r.logu(1e-2, 20.0)) }; hshape_cuboid(&he) };
    let g2 = mk(&sb);
    let mut q = dx::gen_iso(r, lat, 1.0); q.translation.vector = V::zeros();
    let hb = g2.compute_aabb(&q).half_extents();
    let target = if r.below(4) == 0 { 0.0 } else if lat { *r.pick(&[0.125, 0.25, 0.5, 1.0, 2.0]) } else { r.logu(1e-3, 10.0) };
    let k = r.below(DIM as u64) as usize;
    let side = if r.bool() { 1.0 } else { -1.0 };
    let ek = axis(k, side);
    let big = if lat { 4.0 } else { r.uniform(1.0, 30.0) };
    let gap = match r.below(9) {
        0 => -(h[k] + hb[k]) * 0.5, 1 => 0.0, 2 | 3 => target * 0.5, 4 => target, 5 => target * 1.25 + if target == 0.0 { 0.25 } else { 0.0 },
        6 => target * (1.0 - 1.0 / 1048576.0), 7 => target * (1.0 + 1.0 / 1048576.0) + if target == 0.0 { 1.0e-9 } else { 0.0 }, _ => target + big };
    // centre of box 2 at the pass point
    let mut tp = c.coords;
    for j in 0..DIM {
        let reach = h[j] + hb[j];
        tp[j] += if j == k { side * (reach + gap) } else { match r.below(4) {
            0 => 0.0, 1 => reach * if r.bool() { 1.0 } else { -1.0 },                     // aligned / boxes exactly touching on that axis
            2 => (reach + target) * if r.bool() { 1.0 } else { -1.0 },                  // exactly at the target on that axis too (corner tie)
            _ => reach * if lat { *r.pick(&[-0.5, 0.25, 0.75]) } else { r.uniform(-0.95, 0.95) } } };
    }
    let sgn = |r: &mut Rng| if r.bool() { 1.0 } else { -1.0 };
    let mut dperp = V::zeros();
    for j in 0..DIM { if j != k { dperp[j] = match r.below(4) { 0 => 0.0, 1 => -0.0, 2 => sgn(r), _ => if lat { r.lattice(8, 2) } else { r.uniform(-1.0, 1.0) } }; } }
    if dperp.norm() == 0.0 && r.below(3) != 0 { dperp[(k + 1) % DIM] = sgn(r); }
    let speed = if lat { *r.pick(&[0.25, 1.0, 4.0]) } else { r.logu(1e-2, 1e2) };
    let lead = if lat { *r.pick(&[2.0, 8.0, 32.0]) } else { r.uniform(0.5, 60.0) };
    let (d, t0, max_toi): (V, V, f64) = match r.below(12) {
        0..=3 => { let d = dperp * speed; let n = d.norm(); if n == 0.0 { (d, tp, lead) } else { let tpass = lead / n;
                   (d, tp - d * tpass, *r.pick(&[tpass, tpass * 2.0, tpass * 0.5, f64::MAX, tpass * 64.0])) } }
        4..=6 => { let d = (dperp * *r.pick(&[0.0, 0.5, 1.0]) - ek * if lat { *r.pick(&[0.5, 1.0]) } else { r.uniform(0.1, 2.0) }) * speed;
                   let tpass = lead / d.norm();
                   (d, tp - d * tpass, *r.pick(&[tpass, tpass * (1.0 + 1.0 / 64.0), tpass * 0.75, tpass * 4.0, f64::MAX])) }
        7 | 8 => { let d = (dperp + ek * *r.pick(&[0.0, -0.0, 0.25, 1.0])) * speed; (d, tp, if r.below(4) == 0 { f64::MAX } else { lead }) }
        9 => (V::zeros(), tp, lead),
        10 => { let d = axis(r.below(DIM as u64) as usize, sgn(r) * speed); (d, tp - d * lead, *r.pick(&[lead, lead * 2.0, lead * 0.5, f64::MAX])) }
        _ => { let d = dx::gen_v(r, lat, if lat { 1.0 } else { 20.0 }); (d, tp - d * lead, *r.pick(&[lead, lead * 2.0, f64::MAX])) }
    };
    q.translation.vector = t0;
    ("cull".into(), format!("{} {} {} {} {} {} {}", dx::hiso(&q), dx::hv(&d), sb, hx(max_toi), hx(target), dx::hp(&P::from(mins)), dx::hp(&P::from(maxs))))
}

/// Lattice starts over a height field ("first time of impact for ALL start poses" includes starts exactly on cell
/// boundaries): a crater-shaped terrain (low interior, border samples higher than the moving body, sometimes a tall interior
/// peak, removed / zig-zag cells) and a small body that starts INSIDE the terrain's bounding box with the centre of its box
/// exactly on a grid line (one horizontal axis), on a grid point (both axes), or at a half / quarter cell, and flies
/// horizontally (or slightly down / up) with zero, negative and positive velocity components along each axis - axis-aligned,
/// diagonal, 2:1, shallow - until it meets the wall or a bump three or more cells away.  The grid-line coordinates are the
/// ones the shape reports itself.  Scene poses: pure lattice translation (everything exact), lattice rotation, generic
/// rotation; the body with or without an own rotation; either argument order; both bodies moving.  Judged by the e2e
/// distance-sample oracle and the brute-force reduction over all triangles / segments.
fn gen_hf_lattice_case(r: &mut Rng, lat: bool, fam: &mut std::collections::BTreeMap<String, usize>) -> Vec<(String, String)> {
    let nh = HAXES.len();
    let ncell: Vec<usize> = (0..2).map(|_| if lat { *r.pick(&[4usize, 8, 6, 5, 4]) } else { 4 + r.below(5) as usize }).collect();
    let w: Vec<f64> = (0..2).map(|_| if lat { *r.pick(&[1.0, 2.0, 0.5, 1.0]) } else { r.uniform(0.7, 2.5) }).collect();
    let sy = *r.pick(&[1.0, 0.5, 2.0]);
    let wmin = w.iter().take(nh).cloned().fold(f64::MAX, f64::min);
    let bsz = wmin * if lat { 0.5 } else { r.uniform(0.3, 0.9) };
    let (sb, radb) = gen_small_body(r, lat, bsz);
    let target = if r.below(3) == 0 { if lat { 0.125 } else { r.uniform(0.02, 0.2) } } else { 0.0 };
    let clearance = if lat { 0.25 } else { r.uniform(0.05, 0.5) };
    let y0 = 0.5 * sy + radb + target + clearance;
    let wall = (y0 + radb + 1.0) / sy;
    let (nx, nz) = (ncell[0] + 1, if DIM == 3 { ncell[1] + 1 } else { 3 });
    let low: Vec<f64> = (0..nx * nz).map(|_| if lat { r.range(0, 2) as f64 * 0.25 } else { r.uniform(0.0, 0.5) }).collect();
    let peak = if r.below(3) == 0 { Some((1 + r.below(nx as u64 - 2) as usize, 1 + r.below(nz as u64 - 2) as usize)) } else { None };
    let hfun = |jx: usize, iz: usize| -> f64 {
        if jx == 0 || jx == nx - 1 || (DIM == 3 && (iz == 0 || iz == nz - 1)) || peak == Some((jx, iz)) { wall } else { low[jx * nz + iz] } };
    let mut st = Vec::new();
    for jx in 0..nx - 1 { for iz in 0..(if DIM == 3 { nz - 1 } else { 1 }) { if r.below(10) == 0 { st.push((jx, iz, *r.pick(&[1u8, 1, 2, 4, 6, 3, 5]))); } } }
    let tok = hf_grid_tok(nx, nz, &hfun, ncell[0] as f64 * w[0], sy, ncell[1] as f64 * w[1], &st);
    let ghf = mk(&tok);
    let lines = hf_lines(ghf.as_heightfield().unwrap());
    // horizontal velocity
    let sgn = |r: &mut Rng| if r.bool() { 1.0 } else { -1.0 };
    let mut vel = V::zeros();
    let vkind;
    if nh == 1 { vel[HAXES[0]] = sgn(r); vkind = "axis"; } else {
        let (a0, a1) = if r.bool() { (HAXES[0], HAXES[1 % nh]) } else { (HAXES[1 % nh], HAXES[0]) };
        match r.below(6) {
            0 | 1 => { vel[a0] = sgn(r); vkind = "axis"; }
            2 => { vel[a0] = sgn(r); vel[a1] = sgn(r); vkind = "diag"; }
            3 => { vel[a0] = sgn(r); vel[a1] = sgn(r) * 0.5; vkind = "2:1"; }
            4 => { vel[a0] = sgn(r); vel[a1] = sgn(r) / 16.0; vkind = "shallow"; }
            _ => { vel[a0] = sgn(r) * if lat { 0.75 } else { r.uniform(0.2, 1.0) }; vel[a1] = sgn(r) * if lat { 0.25 } else { r.uniform(0.2, 1.0) }; vkind = "oblique"; }
        }
    }
    // start: per axis a grid line with three or more cells ahead, or a half / quarter cell
    let mut start = V::zeros();
    let mut on_line = 0; let mut neg_on_line = false;
    let force_line = r.below(4) != 0;
    for (k, &ax) in HAXES.iter().enumerate() {
        let n = ncell[k] as i64;
        let l = if vel[ax] > 0.0 { r.range(1, n - 3) } else if vel[ax] < 0.0 { r.range(3, n - 1) } else { r.range(1, n - 1) } as usize;
        let frac: f64 = if (force_line && vel[ax] != 0.0) || r.below(3) == 0 { 0.0 } else if vel[ax] > 0.0 { *r.pick(&[0.5, 0.25]) } else if vel[ax] < 0.0 { *r.pick(&[-0.5, -0.25]) } else { *r.pick(&[0.0, 0.3, -0.3]) };   // no motion along this axis: keep the faces of the box off the grid lines (a box sliding exactly along a line only ties with the cells beyond it)
        let (a, b2) = (lines[k][l], if frac >= 0.0 { lines[k][l + 1] } else { lines[k][l - 1] });
        start[ax] = if frac == 0.0 { a } else { a + (b2 - a) * frac.abs() };
        if frac == 0.0 { on_line += 1; if vel[ax] < 0.0 { neg_on_line = true; } }
    }
    start[1] = y0;
    let hspeed = vel.norm();
    vel[1] = hspeed * *r.pick(&[0.0, 0.0, 0.0, -1.0 / 16.0, -1.0 / 64.0, 1.0 / 32.0]);
    vel *= if lat { *r.pick(&[0.5, 1.0, 4.0]) } else { r.logu(0.2, 20.0) };
    // scene pose
    let pk = r.below(4);
    let m = match pk { 0 | 1 => { let mut m = Iso::identity(); m.translation.vector = dx::gen_v(r, true, 5.0); if pk == 0 { m.translation.vector = V::zeros(); } m }
                       2 => dx::gen_iso(r, true, 5.0), _ => dx::gen_iso(r, false, 5.0) };
    let mut ql = if r.below(3) == 0 { let mut q = dx::gen_iso(r, lat, 0.0); q.translation.vector = V::zeros(); q } else { Iso::identity() };
    ql.translation.vector = start;
    let pos_hf = m; let pos_b = m * ql;
    let wv = if r.bool() { V::zeros() } else { dx::gen_v(r, true, 2.0) };
    let (vel_hf, vel_b) = (wv, wv + m * vel);
    *fam.entry(format!("hflat{} on-line={} neg-on-line={} vel={} pose={}", DIM, on_line, neg_on_line, vkind, ["identity", "translation", "lattice-rotation", "generic"][pk as usize])).or_insert(0) += 1;
    let huge = ShapeCastOptions { max_time_of_impact: 1.0e6, target_distance: target, stop_at_penetration: true, compute_impact_geometry_on_penetration: false };
    let bf = parts_cast(&pos_hf, &vel_hf, &parts(&*ghf), &pos_b, &vel_b, &parts(&*mk(&sb)), huge).ok().flatten();
    let maxes: Vec<f64> = match bf { Some(t) if t > 1e-9 => vec![t * 4.0, t * 1.25, 1.0e4], _ => vec![64.0] };
    let mut out = Vec::new();
    for (k, mx) in maxes.iter().enumerate() {
        if k >= 1 && r.below(3) != 0 { continue; }
        let o = ShapeCastOptions { max_time_of_impact: *mx, target_distance: target, stop_at_penetration: r.below(4) != 0, compute_impact_geometry_on_penetration: r.bool() };
        let args = if r.bool() { format!("{} {} {} {} {} {} {}", dx::hiso(&pos_hf), dx::hv(&vel_hf), tok, dx::hiso(&pos_b), dx::hv(&vel_b), sb, hopts(&o)) }
                   else { format!("{} {} {} {} {} {} {}", dx::hiso(&pos_b), dx::hv(&vel_b), sb, dx::hiso(&pos_hf), dx::hv(&vel_hf), tok, hopts(&o)) };
        out.push(("e2e".to_string(), args));
    }
    out
}

/// `shape::RoundShapeRef` is crate-private: the same support map, written out (used only to record what
/// `gjk::directional_distance` answers on the rounded first shape)
struct RoundRef<'a> { inner_shape: &'a dyn px::shape::SupportMap, border_radius: f64 }
impl px::shape::SupportMap for RoundRef<'_> {
    fn local_support_point(&self, dir: &V) -> P { self.local_support_point_toward(&Unit::new_normalize(*dir)) }
    fn local_support_point_toward(&self, dir: &Unit<V>) -> P { self.inner_shape.local_support_point_toward(dir) + **dir * self.border_radius }
}

/// the GJK-route cast with its three GJK-layer results recorded next to the arguments (`taps`), so that the model can
/// reproduce everything the function does around them: zero / tiny relative velocity, target 0 / > 0 (rounded shape),
/// `max_time_of_impact` below / at / above the GJK time, start-up contacts (touching, penetrating, within target) with all
/// four flag combinations, approaching / separating / tangential velocities
fn gen_smsm_case(r: &mut Rng, lat: bool) -> Option<(String, String)> {
    use px::query::gjk::{self, VoronoiSimplex};
    let zero = V::zeros();
    let (s1, rad1) = gen_gjk_shape(r, lat, &zero);
    let (s2, rad2) = gen_gjk_shape(r, lat, &zero);
    let (g1, g2) = (mk(&s1), mk(&s2));
    let (m1, m2) = (g1.as_support_map()?, g2.as_support_map()?);
    let mut o = gen_opts(r, lat);
    if r.below(3) == 0 { o.target_distance = 0.0; }
    let mut pos12 = dx::gen_iso(r, lat, 1.0);
    let dir = gen_unit(r, lat);
    let reach = rad1 + rad2 + o.target_distance;
    pos12.translation.vector = dir * (reach * *r.pick(&[0.0, 0.25, 0.5, 0.75, 1.0, 1.25, 2.0, 3.0]));
    let sc = if lat { *r.pick(&[0.25, 1.0, 4.0]) } else { r.logu(1e-2, 1e2) };
    let side = { let t = ortho(&dir); let n = t.norm(); if n > 0.0 { t / n } else { t } };
    let vel = match r.below(10) {
        0 => V::zeros(),
        1 => dir * 1.0e-17,                                   // below the relative_eq! threshold
        2 => -dir * (f64::EPSILON * *r.pick(&[0.5, 1.0, 2.0])),   // around it
        3 | 4 | 5 => -dir * sc,
        6 => dir * sc,
        7 => side * sc,
        8 => (-dir + side * *r.pick(&[0.25, 1.0])) * sc,
        _ => dx::gen_v(r, lat, if lat { 1.0 } else { 20.0 }),
    };
    let round = RoundRef { inner_shape: m1, border_radius: o.target_distance };
    // a start-up window hit with a positive time (0 < toi < 1e-5): speed the approach up
    let mut vel = vel;
    if r.below(5) == 0 {
        let d0 = if o.target_distance > 0.0 { gjk::directional_distance(&pos12, &round, m2, &vel, &mut VoronoiSimplex::new()) }
                 else { gjk::directional_distance(&pos12, m1, m2, &vel, &mut VoronoiSimplex::new()) };
        if let Some((t, _, _, _)) = d0 { if t > 1.0e-5 && t < 1.0e3 { vel *= t / *r.pick(&[1.0e-6, 5.0e-6, 2.0e-5, 1.0e-5]); } }
    }
    let dd_plain = gjk::directional_distance(&pos12, m1, m2, &vel, &mut VoronoiSimplex::new());
    let dd_round = gjk::directional_distance(&pos12, &round, m2, &vel, &mut VoronoiSimplex::new());
    // max_time_of_impact ties with the GJK time
    if let Some((t, _, _, _)) = if o.target_distance > 0.0 { dd_round } else { dd_plain } {
        if t > 0.0 && t.is_finite() { match r.below(6) { 0 => o.max_time_of_impact = t, 1 => o.max_time_of_impact = f64::from_bits(t.to_bits() - 1), 2 | 3 | 4 => o.max_time_of_impact = t * 2.0, _ => {} } }
    }
    let c_t = px::query::details::contact_support_map_support_map(&pos12, m1, m2, o.target_distance);
    let c_m = px::query::details::contact_support_map_support_map(&pos12, m1, m2, f64::MAX);
    let fc = |c: &Option<px::query::Contact>| match c { None => "0".to_string(),
        Some(c) => format!("1 {} {} {} {} {}", dx::hp(&c.point1), dx::hp(&c.point2), dx::hv(&c.normal1), dx::hv(&c.normal2), hx(c.dist)) };
    let fd = |d: &Option<(f64, V, P, P)>| match d { None => "0".to_string(), Some((t, n, w1, w2)) => format!("1 {} {} {} {}", hx(*t), dx::hv(n), dx::hp(w1), dx::hp(w2)) };
    Some(("smsm".into(), format!("{} {} {} {} {} {} {} {} shapes {} {}", dx::hiso(&pos12), dx::hv(&vel), hopts(&o), hx(vel.norm()), fc(&c_t), fd(&dd_plain), fd(&dd_round), fc(&c_m), s1, s2)))
}

pub fn gen(r: &mut Rng, thorough: bool) -> Vec<(String, String)> {
    let n = if thorough { 4000 } else { 400 };
    let mut v: Vec<(String, String)> = Vec::new();
    for it in 0..n {
        let lat = it % 2 == 0;
        // ---- ray / ball
        {
            let rad = if r.below(16) == 0 { 0.0 } else { r.pos_extent(lat) };
            let c = dx::gen_p(r, lat, 20.0);
            let off = gen_offset(r, lat, rad);
            let o = c + off;
            let d = gen_vel(r, lat, &off, rad);
            v.push(("ray_ball".into(), format!("{} {} {} {} {}", dx::hp(&c), hx(rad), dx::hp(&o), dx::hv(&d), b(r.bool()))));
        }
        // ---- ball / ball (direct, and through the free function with both bodies posed and moving)
        {
            let o = gen_opts(r, lat);
            let (r1, r2) = if r.below(24) == 0 { (0.0, 0.0) } else { (r.pos_extent(lat), r.pos_extent(lat)) };
            let reach = r1 + r2 + o.target_distance;
            let mut pos12 = dx::gen_iso(r, lat, 1.0);
            pos12.translation.vector = gen_offset(r, lat, reach);
            let vel = gen_vel(r, lat, &pos12.translation.vector, reach);
            // tie: max_time_of_impact exactly equal to (or one ulp below) the time of impact
            let mut o = o;
            if r.below(6) == 0 {
                let mut o2 = o; o2.max_time_of_impact = f64::MAX;
                if let Some(h) = cast_shapes_ball_ball(&pos12, &vel, &Ball::new(r1), &Ball::new(r2), o2) {
                    if h.time_of_impact > 0.0 && h.time_of_impact.is_finite() {
                        o.max_time_of_impact = if r.bool() { h.time_of_impact } else { f64::from_bits(h.time_of_impact.to_bits() - 1) };
                    }
                }
            }
            v.push(("ballball".into(), format!("{} {} {} {} {}", dx::hiso(&pos12), dx::hv(&vel), hx(r1), hx(r2), hopts(&o))));
            let pos1 = dx::gen_iso(r, lat, 20.0);
            let pos2 = pos1 * pos12;
            let vel1 = dx::gen_v(r, lat, 5.0);
            let vel2 = vel1 + pos1 * vel;
            v.push(("free".into(), format!("{} {} {} {} {} {} {}", dx::hiso(&pos1), dx::hv(&vel1), hshape_ball(r1), dx::hiso(&pos2), dx::hv(&vel2), hshape_ball(r2), hopts(&o))));
        }
        // ---- half-space / {ball, cuboid}, both argument orders, direct and through the free function
        for which in 0..2 {
            let o = gen_opts(r, lat);
            let nrm = gen_unit(r, lat);
            let mut pos12 = dx::gen_iso(r, lat, 1.0);
            let (tokens, ext) = if which == 0 {
                let rad = r.pos_extent(lat); (hshape_ball(rad), rad)
            } else {
                let he = gen_he(r, lat); let e = cuboid_extent(&he, &pos12, &nrm); (hshape_cuboid(&he), e)
            };
            pos12.translation.vector = place_vs_halfspace(r, lat, &nrm, ext, o.target_distance);
            // velocity: towards / away / tangential / zero / random
            let sc = if lat { *r.pick(&[0.25, 1.0, 4.0]) } else { r.logu(1e-3, 1e3) };
            let vel = match r.below(7) {
                0 => V::zeros(),
                1 => -nrm * sc,
                2 => nrm * sc,
                3 => ortho(&nrm) * sc,
                4 => -nrm * sc + ortho(&nrm) * sc,
                _ => dx::gen_v(r, lat, if lat { 1.0 } else { 50.0 }),
            };
            let shape_args = &tokens[2..];
            let mut o = o;
            if r.below(6) == 0 {
                let mut o2 = o; o2.max_time_of_impact = f64::MAX;
                let hs = HalfSpace::new(Unit::new_unchecked(nrm));
                let hit = if which == 0 { let mut a = Args::new(shape_args); cast_shapes_halfspace_support_map(&pos12, &vel, &hs, &Ball::new(a.f()), o2) }
                          else { let mut a = Args::new(shape_args); cast_shapes_halfspace_support_map(&pos12, &vel, &hs, &Cuboid::new(dx::v(&mut a)), o2) };
                if let Some(h) = hit {
                    if h.time_of_impact > 0.0 && h.time_of_impact.is_finite() {
                        o.max_time_of_impact = if r.bool() { h.time_of_impact } else { f64::from_bits(h.time_of_impact.to_bits() - 1) };
                    }
                }
            }
            let name = if which == 0 { "hs_ball" } else { "hs_cuboid" };
            v.push((name.into(), format!("{} {} {} {} {}", dx::hiso(&pos12), dx::hv(&vel), dx::hv(&nrm), shape_args, hopts(&o))));
            // mirrored: the support-mapped shape is shape 1; pos21 / vel21 are the exact images when the rotation is exact
            let pos21 = pos12.inverse();
            let vel21 = -(pos12.inverse_transform_vector(&vel));
            let name_m = if which == 0 { "ball_hs" } else { "cuboid_hs" };
            v.push((name_m.into(), format!("{} {} {} {} {}", dx::hiso(&pos21), dx::hv(&vel21), shape_args, dx::hv(&nrm), hopts(&o))));
            // free function, half-space first or second
            let pos1 = dx::gen_iso(r, lat, 20.0);
            let vel1 = dx::gen_v(r, lat, 5.0);
            if r.bool() {
                let pos2 = pos1 * pos12; let vel2 = vel1 + pos1 * vel;
                v.push(("free".into(), format!("{} {} {} {} {} {} {}", dx::hiso(&pos1), dx::hv(&vel1), hshape_hs(&nrm), dx::hiso(&pos2), dx::hv(&vel2), tokens, hopts(&o))));
            } else {
                let pos2 = pos1 * pos21; let vel2 = vel1 + pos1 * vel21;
                v.push(("free".into(), format!("{} {} {} {} {} {} {}", dx::hiso(&pos1), dx::hv(&vel1), tokens, dx::hiso(&pos2), dx::hv(&vel2), hshape_hs(&nrm), hopts(&o))));
            }
        }
        // ---- hit wrappers
        {
            let toi = if lat { r.lattice(16, 2).abs() } else { r.logu(1e-3, 1e2) };
            let h = format!("{} {} {} {} {} {}", hx(toi), dx::hp(&dx::gen_p(r, lat, 10.0)), dx::hp(&dx::gen_p(r, lat, 10.0)),
                            dx::hv(&gen_unit(r, lat)), dx::hv(&gen_unit(r, lat)), r.below(4));
            v.push(("swapped".into(), h.clone()));
            v.push(("transform1".into(), format!("{} {}", h, dx::hiso(&dx::gen_iso(r, lat, 20.0)))));
        }
        // ---- nonlinear motion with zero angular velocity
        {
            let start = dx::gen_iso(r, lat, 20.0);
            let lc = if r.below(4) == 0 { P::origin() } else { dx::gen_p(r, lat, 5.0) };
            let lv = if r.below(8) == 0 { V::zeros() } else { dx::gen_v(r, lat, 10.0) };
            let t = match r.below(6) { 0 => 0.0, 1 => -0.0, 2 => -1.5, _ => if lat { r.lattice(16, 2).abs() } else { r.logu(1e-3, 1e2) } };
            v.push(("nlpos".into(), format!("{} {} {} {}", dx::hiso(&start), dx::hp(&lc), dx::hv(&lv), hx(t))));
        }
        // ---- end-to-end (oracle-only): every pair among ball/cuboid/capsule/triangle/segment/convex/half-space
        if it % 2 == 0 || thorough {
            let lat2 = (it / 2) % 2 == 0;
            let (s1, rad1, hs1) = gen_e2e_shape(r, lat2, true);
            let (s2, rad2, _hs2) = gen_e2e_shape(r, lat2, !hs1);
            let mut o = gen_opts(r, lat2);
            if r.below(2) == 0 { o.target_distance = 0.0; }
            let pos1 = dx::gen_iso(r, lat2, 10.0);
            let mut pos2 = dx::gen_iso(r, lat2, 10.0);
            let reach = rad1 + rad2 + o.target_distance;
            let dir = gen_unit(r, lat2);
            let sep = match r.below(6) { 0 => 0.0, 1 => 0.5, 2 => 1.0, 3 => 1.5, 4 => 3.0, _ => 0.9 };
            pos2.translation.vector = pos1.translation.vector + dir * (reach * sep);
            let rel = pos2.translation.vector - pos1.translation.vector;
            let vel1 = if r.below(3) == 0 { V::zeros() } else { dx::gen_v(r, lat2, 3.0) };
            let vrel = gen_vel(r, lat2, &rel, reach * 0.5);
            // keep speeds moderate so that sample times resolve the motion
            let vrel = if vrel.norm() > 100.0 { vrel * (100.0 / vrel.norm()) } else { vrel };
            let vel2 = vel1 + vrel;
            if o.max_time_of_impact == f64::MAX { o.max_time_of_impact = 1.0e4; }
            let args = format!("{} {} {} {} {} {} {}", dx::hiso(&pos1), dx::hv(&vel1), s1, dx::hiso(&pos2), dx::hv(&vel2), s2, hopts(&o));
            v.push(("e2e".into(), args.clone()));
            if o.target_distance == 0.0 { v.push(("nl".into(), args)); }
        }
    }
    // ---- follow-up families (after the original stream, so that the latter is unchanged)
    let m = if thorough { 1200 } else { 120 };
    for it in 0..m {
        let lat = it % 2 == 0;
        if let Some(c) = gen_gap_case(r, lat) { v.push(c); }
        v.extend(gen_hf_case(r, lat));
        v.extend(gen_composite_case(r, lat));
    }
    // ---- second follow-up: grazing passes within the target distance (boxes never overlap), composites and terrains.
    // Drawn from a generator forked off the main one, so that every earlier family (here and in the other dimension, which
    // continues the main stream) keeps producing exactly the cases it produced before.
    let mut rg = Rng(r.0.rotate_left(17) ^ 0x6A09E667F3BCC909 ^ (DIM as u64));
    let r = &mut rg;
    for it in 0..m {
        let lat = it % 2 == 0;
        v.extend(gen_graze_case(r, lat, false));
        if it % 2 == 1 || (it / 2) % 2 == 0 { v.extend(gen_graze_case(r, lat, true)); }
        if it % 3 == 0 { v.extend(gen_graze_case(r, !lat, false)); }
    }
    // ---- the broad-phase box test of the composite cast, on explicit boxes (bit-exact model + exact oracle)
    for it in 0..(if thorough { 12000 } else { 1200 }) { v.push(gen_cull_case(r, it % 2 == 0)); }
    // ---- third follow-up: lattice starts over height fields (centre of the moving box exactly on grid lines / grid points)
    let mut fam = std::collections::BTreeMap::new();
    for it in 0..(if thorough { 2400 } else { 240 }) { v.extend(gen_hf_lattice_case(r, it % 4 != 3, &mut fam)); }
    // ---- the trace of the 3-D height-field cell walk (bit-exact model + exact covering oracle)
    v.extend(gen_hfwalk(r, thorough));
    v.extend(gen_hfbest(r, thorough));
    // ---- the exit conditions of the GJK-route cast around its GJK-layer calls (bit-exact glue model + clause oracle)
    for it in 0..(if thorough { 12000 } else { 1200 }) { if let Some(c) = gen_smsm_case(r, it % 2 == 0) { v.push(c); } }
    if std::env::var("C06_FAMILIES").is_ok() { for (k, n) in &fam { eprintln!("family {} {}", k, n); } }
    v
}
