//! C05: point projection on segment, ball, half-space, cuboid, capsule, triangle, cylinder, cone
//! (`PointQuery` / `PointQueryWithLocation`, local and posed forms, default methods).
//! Function names are `<shape>_<op>`; see lean/ParryModel/C05/Driver.lean.
use crate::util::*;

fn ffeat3(f: crate::p3::shape::FeatureId) -> String {
    use crate::p3::shape::FeatureId::*;
    match f { Vertex(i) => format!("V {}", i), Edge(i) => format!("E {}", i), Face(i) => format!("F {}", i), Unknown => "U".into() }
}
fn ffeat2(f: crate::p2::shape::FeatureId) -> String {
    use crate::p2::shape::FeatureId::*;
    match f { Vertex(i) => format!("V {}", i), Face(i) => format!("F {}", i), Unknown => "U".into() }
}

macro_rules! dim_ops {
    ($modname:ident, $pc:ident, $d:ident, $ffeat:ident) => {
        mod $modname {
            use super::*;
            use crate::$pc::query::{PointProjection, PointQuery, PointQueryWithLocation};
            use crate::$pc::shape::{Segment, SegmentPointLocation, Triangle, TrianglePointLocation};
            pub fn fpp(p: &PointProjection) -> String { format!("{} {}", b(p.is_inside), $d::fp(&p.point)) }
            pub fn op<S: PointQuery>(s: &S, op: &str, a: &mut Args) -> String {
                match op {
                    "proj" => { let p = $d::p(a); let so = a.b(); fpp(&s.project_local_point(&p, so)) }
                    "dist" => { let p = $d::p(a); let so = a.b(); ff(s.distance_to_local_point(&p, so)) }
                    "cont" => { let p = $d::p(a); b(s.contains_local_point(&p)).into() }
                    "feat" => { let p = $d::p(a); let (pp, f) = s.project_local_point_and_get_feature(&p); format!("{} {}", fpp(&pp), $ffeat(f)) }
                    "maxd" => { let p = $d::p(a); let so = a.b(); let d = a.f();
                        match s.project_local_point_with_max_dist(&p, so, d) { None => "none".into(), Some(pp) => format!("some {}", fpp(&pp)) } }
                    "wproj" => { let m = $d::iso(a); let p = $d::p(a); let so = a.b(); fpp(&s.project_point(&m, &p, so)) }
                    "wdist" => { let m = $d::iso(a); let p = $d::p(a); let so = a.b(); ff(s.distance_to_point(&m, &p, so)) }
                    "wcont" => { let m = $d::iso(a); let p = $d::p(a); b(s.contains_point(&m, &p)).into() }
                    _ => "nofn".into(),
                }
            }
            pub fn seg_loc(s: &Segment, a: &mut Args) -> String {
                let p = $d::p(a); let so = a.b();
                let (pp, l) = s.project_local_point_and_get_location(&p, so);
                let ls = match l { SegmentPointLocation::OnVertex(i) => format!("V {}", i),
                                   SegmentPointLocation::OnEdge(bc) => format!("E {} {}", ff(bc[0]), ff(bc[1])) };
                format!("{} {}", fpp(&pp), ls)
            }
            pub fn tri_loc(s: &Triangle, a: &mut Args) -> String {
                let p = $d::p(a); let so = a.b();
                let (pp, l) = s.project_local_point_and_get_location(&p, so);
                let ls = match l { TrianglePointLocation::OnVertex(i) => format!("V {}", i),
                                   TrianglePointLocation::OnEdge(i, bc) => format!("E {} {} {}", i, ff(bc[0]), ff(bc[1])),
                                   TrianglePointLocation::OnFace(i, bc) => format!("F {} {} {} {}", i, ff(bc[0]), ff(bc[1]), ff(bc[2])),
                                   TrianglePointLocation::OnSolid => "S".into() };
                format!("{} {}", fpp(&pp), ls)
            }
        }
    };
}
dim_ops!(o3, p3, d3, ffeat3);
dim_ops!(o2, p2, d2, ffeat2);

#[path = "c05m.rs"]
pub mod c05m;

pub fn exec(func: &str, a: &mut Args) -> String {
    if func.starts_with("tm_") || func.starts_with("hf_") { if let Some(r) = c05m::exec(func, a) { return r; } }
    let mut it = func.splitn(2, '_');
    let shape = it.next().unwrap_or("");
    let op = it.next().unwrap_or("");
    use crate::p2::shape as s2;
    use crate::p3::shape as s3;
    match shape {
        "seg3" => { let s = s3::Segment::new(d3::p(a), d3::p(a)); if op == "loc" { o3::seg_loc(&s, a) } else { o3::op(&s, op, a) } }
        "seg2" => { let s = s2::Segment::new(d2::p(a), d2::p(a)); if op == "loc" { o2::seg_loc(&s, a) } else { o2::op(&s, op, a) } }
        "tri3" => { let s = s3::Triangle::new(d3::p(a), d3::p(a), d3::p(a)); if op == "loc" { o3::tri_loc(&s, a) } else { o3::op(&s, op, a) } }
        "tri2" => { let s = s2::Triangle::new(d2::p(a), d2::p(a), d2::p(a)); if op == "loc" { o2::tri_loc(&s, a) } else { o2::op(&s, op, a) } }
        "ball3" => { let s = s3::Ball::new(a.f()); o3::op(&s, op, a) }
        "ball2" => { let s = s2::Ball::new(a.f()); o2::op(&s, op, a) }
        "hs3" => { let s = s3::HalfSpace::new(d3::na::Unit::new_unchecked(d3::v(a))); o3::op(&s, op, a) }
        "hs2" => { let s = s2::HalfSpace::new(d2::na::Unit::new_unchecked(d2::v(a))); o2::op(&s, op, a) }
        "cub3" => { let s = s3::Cuboid::new(d3::v(a)); o3::op(&s, op, a) }
        "cub2" => { let s = s2::Cuboid::new(d2::v(a)); o2::op(&s, op, a) }
        "cap3" => { let s = s3::Capsule::new(d3::p(a), d3::p(a), a.f()); o3::op(&s, op, a) }
        "cap2" => { let s = s2::Capsule::new(d2::p(a), d2::p(a), a.f()); o2::op(&s, op, a) }
        "cyl" => { let s = s3::Cylinder::new(a.f(), a.f()); o3::op(&s, op, a) }
        "cone" => { let s = s3::Cone::new(a.f(), a.f()); o3::op(&s, op, a) }
        "tet" => { let s = s3::Tetrahedron::new(d3::p(a), d3::p(a), d3::p(a), d3::p(a)); tet_op(&s, op, a) }
        _ => "nofn".into(),
    }
}

/// tetrahedron ops; the documented `unimplemented!()` (interior point, solid = false) is reported as the bare token `panic`
fn tet_op(s: &crate::p3::shape::Tetrahedron, op: &str, a: &mut Args) -> String {
    use crate::p3::query::{PointQuery, PointQueryWithLocation};
    use crate::p3::shape::TetrahedronPointLocation as L;
    let r = std::panic::catch_unwind(std::panic::AssertUnwindSafe(|| match op {
        "loc" => { let p = d3::p(a); let so = a.b();
            let (pp, l) = s.project_local_point_and_get_location(&p, so);
            let ls = match l { L::OnVertex(i) => format!("V {}", i), L::OnEdge(i, bc) => format!("E {} {} {}", i, ff(bc[0]), ff(bc[1])),
                               L::OnFace(i, bc) => format!("F {} {} {} {}", i, ff(bc[0]), ff(bc[1]), ff(bc[2])), L::OnSolid => "S".into() };
            format!("{} {}", o3::fpp(&pp), ls) }
        "dist" => { let p = d3::p(a); let so = a.b(); ff(s.distance_to_local_point(&p, so)) }
        "cont" => { let p = d3::p(a); b(s.contains_local_point(&p)).into() }
        "feat" => { let p = d3::p(a); let (pp, f) = s.project_local_point_and_get_feature(&p); format!("{} {}", o3::fpp(&pp), ffeat3(f)) }
        // the trait's default methods on top of the location form: proj, maxd, wproj, wdist, wcont
        _ => o3::op(s, op, a),
    }));
    r.unwrap_or_else(|_| "panic".into())
}

// ------------------------------------------------------------------ generators

/// multipliers that hit faces / edges / vertices / medial axes when applied to an extent
const MUL: [f64; 13] = [0.0, 0.25, 0.5, 0.75, 1.0, 1.25, 1.5, 2.0, -0.5, -1.0, -1.25, -2.0, -0.25];

fn v3(x: f64, y: f64, z: f64) -> d3::Vector<f64> { d3::Vector::new(x, y, z) }
fn v2(x: f64, y: f64) -> d2::Vector<f64> { d2::Vector::new(x, y) }

/// an exact unit vector (axis, Pythagorean) or a random normalised one
fn unit3(r: &mut Rng, lat: bool) -> d3::Vector<f64> {
    if lat {
        match r.below(3) {
            0 => { let mut v = [0.0; 3]; v[r.below(3) as usize] = if r.bool() { 1.0 } else { -1.0 }; v3(v[0], v[1], v[2]) }
            1 => { let mut v = [0.0; 3]; let i = r.below(3) as usize; let j = (i + 1 + r.below(2) as usize) % 3;
                   v[i] = if r.bool() { 0.6 } else { -0.6 }; v[j] = if r.bool() { 0.8 } else { -0.8 }; v3(v[0], v[1], v[2]) }
            _ => { let s = [1.0 / 3.0, 2.0 / 3.0, 2.0 / 3.0]; let k = r.below(3) as usize;
                   v3(s[k], s[(k + 1) % 3], -s[(k + 2) % 3]).normalize() }
        }
    } else {
        loop { let v = v3(r.uniform(-1.0, 1.0), r.uniform(-1.0, 1.0), r.uniform(-1.0, 1.0)); let n = v.norm(); if n > 0.1 && n <= 1.0 { return v / n; } }
    }
}
fn unit2(r: &mut Rng, lat: bool) -> d2::Vector<f64> {
    if lat { let (c, s) = d2::gen_rot(r, true); v2(c, s) } else { let a = r.uniform(-3.2, 3.2); v2(a.cos(), a.sin()) }
}

struct Out { v: Vec<(String, String)> }
impl Out {
    /// all local + posed operations for one (shape, local point)
    fn emit3(&mut self, r: &mut Rng, lat: bool, shape: &str, sargs: &str, p: &d3::Point<f64>, bound: f64, feat: bool) {
        let ph = d3::hp(p);
        for so in ["0", "1"] {
            self.v.push((format!("{}_proj", shape), format!("{} {} {}", sargs, ph, so)));
            self.v.push((format!("{}_dist", shape), format!("{} {} {}", sargs, ph, so)));
        }
        self.v.push((format!("{}_cont", shape), format!("{} {}", sargs, ph)));
        if feat { self.v.push((format!("{}_feat", shape), format!("{} {}", sargs, ph))); }
        let so = if r.bool() { "1" } else { "0" };
        let md = if lat { *r.pick(&[0.0, 0.25, 0.5, 1.0, 2.0]) * bound } else { r.uniform(0.0, 2.0 * bound) };
        self.v.push((format!("{}_maxd", shape), format!("{} {} {} {}", sargs, ph, so, hx(md))));
        let m = d3::gen_iso(r, lat, 100.0);
        let w = m * p;
        let mh = d3::hiso(&m);
        self.v.push((format!("{}_wproj", shape), format!("{} {} {} {}", sargs, mh, d3::hp(&w), so)));
        self.v.push((format!("{}_wdist", shape), format!("{} {} {} {}", sargs, mh, d3::hp(&w), if r.bool() { "1" } else { "0" })));
        self.v.push((format!("{}_wcont", shape), format!("{} {} {}", sargs, mh, d3::hp(&w))));
    }
    fn emit2(&mut self, r: &mut Rng, lat: bool, shape: &str, sargs: &str, p: &d2::Point<f64>, bound: f64, feat: bool) {
        let ph = d2::hp(p);
        for so in ["0", "1"] {
            self.v.push((format!("{}_proj", shape), format!("{} {} {}", sargs, ph, so)));
            self.v.push((format!("{}_dist", shape), format!("{} {} {}", sargs, ph, so)));
        }
        self.v.push((format!("{}_cont", shape), format!("{} {}", sargs, ph)));
        if feat { self.v.push((format!("{}_feat", shape), format!("{} {}", sargs, ph))); }
        let so = if r.bool() { "1" } else { "0" };
        let md = if lat { *r.pick(&[0.0, 0.25, 0.5, 1.0, 2.0]) * bound } else { r.uniform(0.0, 2.0 * bound) };
        self.v.push((format!("{}_maxd", shape), format!("{} {} {} {}", sargs, ph, so, hx(md))));
        let m = d2::gen_iso(r, lat, 100.0);
        let w = m * p;
        let mh = d2::hiso(&m);
        self.v.push((format!("{}_wproj", shape), format!("{} {} {} {}", sargs, mh, d2::hp(&w), so)));
        self.v.push((format!("{}_wdist", shape), format!("{} {} {} {}", sargs, mh, d2::hp(&w), if r.bool() { "1" } else { "0" })));
        self.v.push((format!("{}_wcont", shape), format!("{} {} {}", sargs, mh, d2::hp(&w))));
    }
}


// ------------------------------------------------------------------ structured Voronoi sweep for triangles
//
// The region classification of `Triangle::project_local_point_and_get_location` is a cascade of sign tests on dot / triple
// products; each conjunct of each test is decisive only in a narrow wedge around one vertex, and several of those wedges exist
// only when the angle at that vertex is obtuse (e.g. "behind `a` along `ab`, yet not in the Voronoi region of `a`").
// Random triangles and random points almost never land there.  The sweep below enumerates them: for every shape class (acute,
// right, obtuse, wide-obtuse at the first base vertex), every assignment of the base vertices to the roles `a`, `b`, `c` (6
// permutations: the distinguished angle at each role, both orientations) and every vertex `V` with outgoing edges `e1`, `e2`, the
// eight in-plane rays `±e1, ±e2, ±perp(e1), ±perp(e2)` from `V` are exactly the boundaries of the Voronoi cells and of the
// half-planes tested by the code around `V`; we take those rays (ties) and one ray strictly inside each of the eight wedges
// between angular neighbours, at several radii, and (3-D) at several heights above / below the plane.

/// base triangles (2-D frame): the distinguished angle is at vertex 0 — acute, right, 135°, ~160°
const TRI_BASE: [[[f64; 2]; 3]; 4] = [
    [[0.0, 0.0], [4.0, 0.0], [1.0, 3.0]],
    [[0.0, 0.0], [3.0, 0.0], [0.0, 2.0]],
    [[0.0, 0.0], [2.0, 0.0], [-2.0, 2.0]],
    [[0.0, 0.0], [4.0, 0.0], [-3.0, 1.0]],
];
/// role assignment: new vertex k = base[PERM[k]]; base vertex 0 becomes a, a, b, b, c, c (both orientations each)
const TRI_PERMS: [[usize; 3]; 6] = [[0, 1, 2], [0, 2, 1], [1, 0, 2], [2, 0, 1], [1, 2, 0], [2, 1, 0]];

fn tri_base(r: &mut Rng, lat: bool, shape: usize) -> [[f64; 2]; 3] {
    if lat { return TRI_BASE[shape]; }
    let (l1, l2) = (r.logu(0.5, 8.0), r.logu(0.5, 8.0));
    let deg = std::f64::consts::PI / 180.0;
    let c = match shape {
        0 => { let t = r.uniform(25.0, 85.0) * deg; [l2 * t.cos(), l2 * t.sin()] }
        1 => [0.0, l2],
        2 => { let t = r.uniform(95.0, 150.0) * deg; [l2 * t.cos(), l2 * t.sin()] }
        _ => { let t = r.uniform(150.0, 175.0) * deg; [l2 * t.cos(), l2 * t.sin()] }
    };
    [[0.0, 0.0], [l1, 0.0], c]
}

/// the 16 sweep directions around `v` (other vertices `p1`, `p2`): 8 boundary rays + 8 wedge interiors
fn sweep_dirs(v: [f64; 2], p1: [f64; 2], p2: [f64; 2]) -> Vec<[f64; 2]> {
    let e1 = [p1[0] - v[0], p1[1] - v[1]];
    let e2 = [p2[0] - v[0], p2[1] - v[1]];
    let mut rays: Vec<[f64; 2]> = Vec::new();
    for e in [e1, e2] {
        rays.push(e); rays.push([-e[0], -e[1]]); rays.push([-e[1], e[0]]); rays.push([e[1], -e[0]]);
    }
    rays.sort_by(|x, y| x[1].atan2(x[0]).partial_cmp(&y[1].atan2(y[0])).unwrap());
    let mut out = rays.clone();
    for i in 0..rays.len() {
        let (x, y) = (rays[i], rays[(i + 1) % rays.len()]);
        // normalise the longer one down by a power of two so that neither dominates (keeps lattice inputs exact)
        let (nx, ny) = ((x[0] * x[0] + x[1] * x[1]).sqrt(), (y[0] * y[0] + y[1] * y[1]).sqrt());
        let k = (nx / ny).log2().round();
        let sc = (2.0f64).powf(k);
        out.push([x[0] + y[0] * sc, x[1] + y[1] * sc]);
    }
    out
}

/// exact orthogonal frames (columns e1, e2, e3 of equal length) for lattice embeddings of the base plane in 3-D
const FRAMES3: [[[f64; 3]; 3]; 5] = [
    [[1.0, 0.0, 0.0], [0.0, 1.0, 0.0], [0.0, 0.0, 1.0]],
    [[0.0, 0.0, 1.0], [1.0, 0.0, 0.0], [0.0, 1.0, 0.0]],
    [[0.0, 1.0, 0.0], [0.0, 0.0, -1.0], [-1.0, 0.0, 0.0]],
    [[0.5, 1.0, 1.0], [1.0, 0.5, -1.0], [1.0, -1.0, 0.5]],
    [[0.75, 1.0, 0.0], [0.0, 0.0, 1.25], [1.0, -0.75, 0.0]],
];
const FRAMES2: [[[f64; 2]; 2]; 5] = [
    [[1.0, 0.0], [0.0, 1.0]],
    [[0.0, 1.0], [-1.0, 0.0]],
    [[0.75, 1.0], [-1.0, 0.75]],
    [[1.0, 1.0], [-1.0, 1.0]],
    [[-1.0, 0.0], [0.0, 1.0]],
];

fn tri_sweep(o: &mut Out, r: &mut Rng, lat: bool) {
    let mut cnt = 0usize;
    for shape in 0..TRI_BASE.len() {
        for perm in TRI_PERMS.iter() {
            let base = tri_base(r, lat, shape);
            let t = [base[perm[0]], base[perm[1]], base[perm[2]]];
            // embeddings (one per class)
            let f3 = *r.pick(&FRAMES3);
            let o3 = d3::gen_v(r, true, 0.0);
            let m3 = d3::gen_iso(r, false, 8.0);
            let emb3 = |x: f64, y: f64, h: f64| -> d3::Point<f64> {
                if lat { d3::Point::from(o3 + v3(f3[0][0], f3[0][1], f3[0][2]) * x + v3(f3[1][0], f3[1][1], f3[1][2]) * y + v3(f3[2][0], f3[2][1], f3[2][2]) * h) }
                else { m3 * d3::Point::new(x, y, h) }
            };
            let f2 = *r.pick(&FRAMES2);
            let o2 = d2::gen_v(r, true, 0.0);
            let m2 = d2::gen_iso(r, false, 8.0);
            let emb2 = |x: f64, y: f64| -> d2::Point<f64> {
                if lat { d2::Point::from(o2 + v2(f2[0][0], f2[0][1]) * x + v2(f2[1][0], f2[1][1]) * y) }
                else { m2 * d2::Point::new(x, y) }
            };
            let s3 = format!("{} {} {}", d3::hp(&emb3(t[0][0], t[0][1], 0.0)), d3::hp(&emb3(t[1][0], t[1][1], 0.0)), d3::hp(&emb3(t[2][0], t[2][1], 0.0)));
            let s2 = format!("{} {} {}", d2::hp(&emb2(t[0][0], t[0][1])), d2::hp(&emb2(t[1][0], t[1][1])), d2::hp(&emb2(t[2][0], t[2][1])));
            for vi in 0..3 {
                let v = t[vi];
                for d in sweep_dirs(v, t[(vi + 1) % 3], t[(vi + 2) % 3]) {
                    cnt += 1;
                    let so = if cnt % 2 == 0 { "1" } else { "0" };
                    // ---- 3-D
                    let rho = if lat { *r.pick(&[0.25, 0.5, 1.0, 2.0]) } else { r.logu(0.05, 4.0) };
                    let h = if lat { *r.pick(&[0.0, 0.0, 0.5, -1.0, 2.0]) } else if r.below(3) == 0 { 0.0 } else { r.uniform(-3.0, 3.0) };
                    let p3 = emb3(v[0] + d[0] * rho, v[1] + d[1] * rho, h);
                    o.v.push(("tri3_loc".into(), format!("{} {} {}", s3, d3::hp(&p3), so)));
                    if cnt % 3 == 0 {
                        match r.below(5) {
                            0 => o.v.push(("tri3_proj".into(), format!("{} {} {}", s3, d3::hp(&p3), so))),
                            1 => o.v.push(("tri3_dist".into(), format!("{} {} {}", s3, d3::hp(&p3), so))),
                            2 => o.v.push(("tri3_cont".into(), format!("{} {}", s3, d3::hp(&p3)))),
                            3 => o.v.push(("tri3_feat".into(), format!("{} {}", s3, d3::hp(&p3)))),
                            _ => { let m = d3::gen_iso(r, lat, 100.0);
                                   o.v.push(("tri3_wproj".into(), format!("{} {} {} {}", s3, d3::hiso(&m), d3::hp(&(m * p3)), so))) }
                        }
                    }
                    // ---- 2-D
                    let rho = if lat { *r.pick(&[0.25, 0.5, 1.0, 2.0]) } else { r.logu(0.05, 4.0) };
                    let p2 = emb2(v[0] + d[0] * rho, v[1] + d[1] * rho);
                    o.v.push(("tri2_loc".into(), format!("{} {} {}", s2, d2::hp(&p2), so)));
                    if cnt % 3 == 1 {
                        match r.below(5) {
                            0 => o.v.push(("tri2_proj".into(), format!("{} {} {}", s2, d2::hp(&p2), so))),
                            1 => o.v.push(("tri2_dist".into(), format!("{} {} {}", s2, d2::hp(&p2), so))),
                            2 => o.v.push(("tri2_cont".into(), format!("{} {}", s2, d2::hp(&p2)))),
                            3 => o.v.push(("tri2_feat".into(), format!("{} {}", s2, d2::hp(&p2)))),
                            _ => { let m = d2::gen_iso(r, lat, 100.0);
                                   o.v.push(("tri2_wproj".into(), format!("{} {} {} {}", s2, d2::hiso(&m), d2::hp(&(m * p2)), so))) }
                        }
                    }
                }
            }
        }
    }
}

/// base tetrahedra (exact small coordinates): corner, regular, needle (leaning apex), flat sliver (obtuse dihedral angles),
/// skew (obtuse face angles)
const TET_BASE: [[[f64; 3]; 4]; 5] = [
    [[0.0, 0.0, 0.0], [2.0, 0.0, 0.0], [0.0, 2.0, 0.0], [0.0, 0.0, 2.0]],
    [[1.0, 1.0, 1.0], [1.0, -1.0, -1.0], [-1.0, 1.0, -1.0], [-1.0, -1.0, 1.0]],
    [[0.0, 0.0, 0.0], [1.0, 0.0, 0.0], [0.0, 1.0, 0.0], [0.25, 0.25, 8.0]],
    [[0.0, 0.0, 0.0], [4.0, 0.0, 0.0], [0.0, 4.0, 0.0], [1.0, 1.0, 0.5]],
    [[0.0, 0.0, 0.0], [4.0, 0.0, 0.0], [-2.0, 1.0, 0.0], [0.0, 0.5, 3.0]],
];

/// structured Voronoi sweep of ONE tetrahedron (fu5): for every vertex, edge and face a point of the feature plus a non-negative
/// combination of the OUTWARD normals of the incident faces (the normal cone of the feature = its Voronoi region; zero weights put
/// the query point exactly on the boundary between two regions), at several distances; plus interior / on-boundary points.
/// The roles a, b, c, d are a random permutation of the geometric vertices, the pose is an exact lattice frame or a random
/// isometry.  Every point is sent through the location form (both flags) and one of the other methods.
fn tet_sweep(o: &mut Out, r: &mut Rng, lat: bool, fam: &mut std::collections::BTreeMap<String, usize>) {
    let bi = r.below(TET_BASE.len() as u64) as usize;
    let base = TET_BASE[bi];
    let mut perm = [0usize, 1, 2, 3];
    for i in (1..4).rev() { let j = r.below(i as u64 + 1) as usize; perm.swap(i, j); }
    let f3 = *r.pick(&FRAMES3);
    let o3 = d3::gen_v(r, true, 0.0);
    let m3 = d3::gen_iso(r, false, 8.0);
    let sc = if lat { *r.pick(&[0.5, 1.0, 2.0]) } else { r.logu(0.1, 8.0) };
    let emb = |q: d3::Vector<f64>| -> d3::Point<f64> {
        if lat { d3::Point::from(o3 + (v3(f3[0][0], f3[0][1], f3[0][2]) * q.x + v3(f3[1][0], f3[1][1], f3[1][2]) * q.y + v3(f3[2][0], f3[2][1], f3[2][2]) * q.z) * sc) }
        else { m3 * d3::Point::from(q * sc) }
    };
    let vtx: Vec<d3::Vector<f64>> = (0..4).map(|i| { let b = base[perm[i]]; v3(b[0], b[1], b[2]) }).collect();
    // outward normal of the face opposite to vertex k (not normalised: exact for the lattice bases)
    let nrm = |k: usize| -> d3::Vector<f64> {
        let f: Vec<usize> = (0..4).filter(|&i| i != k).collect();
        let n = (vtx[f[1]] - vtx[f[0]]).cross(&(vtx[f[2]] - vtx[f[0]]));
        let n = if n.dot(&(vtx[k] - vtx[f[0]])) > 0.0 { -n } else { n };
        if lat { n * 0.25 } else { n / n.norm() }
    };
    let sargs = format!("{} {} {} {}", d3::hp(&emb(vtx[0])), d3::hp(&emb(vtx[1])), d3::hp(&emb(vtx[2])), d3::hp(&emb(vtx[3])));
    let ext = 8.0 * sc * 1.5;
    let mut pts: Vec<(String, d3::Vector<f64>)> = Vec::new();
    let rad = |r: &mut Rng| if lat { *r.pick(&[0.25, 1.0, 4.0]) } else { r.logu(0.02, 6.0) };
    // vertices: weights on the normals of the three incident faces (= faces opposite to the other vertices)
    for v in 0..4 {
        let inc: Vec<usize> = (0..4).filter(|&k| k != v).collect();
        for w in [[1.0, 1.0, 1.0], [1.0, 0.0, 0.0], [0.0, 1.0, 0.0], [0.0, 0.0, 1.0], [1.0, 1.0, 0.0], [0.0, 2.0, 1.0], [3.0, 0.0, 1.0]] {
            let d = nrm(inc[0]) * w[0] + nrm(inc[1]) * w[1] + nrm(inc[2]) * w[2];
            pts.push((format!("tet-sweep vertex{}", if w.iter().filter(|x| **x == 0.0).count() > 0 { "-boundary" } else { "" }), vtx[v] + d * rad(r)));
        }
    }
    // edges (u, v): incident faces are those opposite to the two other vertices
    for u in 0..4 { for v in (u + 1)..4 {
        let oth: Vec<usize> = (0..4).filter(|&k| k != u && k != v).collect();
        for (t, w) in [(0.5, [1.0, 1.0]), (0.25, [1.0, 0.0]), (0.75, [0.0, 1.0]), (0.0, [1.0, 2.0]), (1.0, [2.0, 1.0]), (0.5, [3.0, 1.0])] {
            let b = vtx[u] + (vtx[v] - vtx[u]) * t;
            let d = nrm(oth[0]) * w[0] + nrm(oth[1]) * w[1];
            pts.push((format!("tet-sweep edge{}", if t == 0.0 || t == 1.0 || w[0] == 0.0 || w[1] == 0.0 { "-boundary" } else { "" }), b + d * rad(r)));
        }
    } }
    // faces (opposite to k)
    for k in 0..4 {
        let f: Vec<usize> = (0..4).filter(|&i| i != k).collect();
        for bc in [[0.25, 0.25, 0.5], [0.5, 0.5, 0.0], [0.5, 0.25, 0.25], [0.125, 0.75, 0.125], [1.0, 0.0, 0.0]] {
            let b = vtx[f[0]] * bc[0] + vtx[f[1]] * bc[1] + vtx[f[2]] * bc[2];
            let onb = bc.iter().any(|x| *x == 0.0);
            pts.push((format!("tet-sweep face{}", if onb { "-boundary" } else { "" }), b + nrm(k) * rad(r)));
            if !onb { pts.push(("tet-sweep on-face".into(), b)); pts.push(("tet-sweep below-face (interior)".into(), b - nrm(k) * if lat { 0.0625 } else { 0.01 })); }
        }
    }
    pts.push(("tet-sweep centre".into(), (vtx[0] + vtx[1] + vtx[2] + vtx[3]) * 0.25));
    let mut cnt = 0usize;
    for (name, q) in pts {
        *fam.entry(name).or_insert(0) += 1;
        cnt += 1;
        let p = emb(q);
        let ph = d3::hp(&p);
        for so in ["0", "1"] { o.v.push(("tet_loc".into(), format!("{} {} {}", sargs, ph, so))); }
        let so = if r.bool() { "1" } else { "0" };
        match cnt % 8 {
            0 => o.v.push(("tet_cont".into(), format!("{} {}", sargs, ph))),
            1 => o.v.push(("tet_dist".into(), format!("{} {} {}", sargs, ph, so))),
            2 => o.v.push(("tet_feat".into(), format!("{} {}", sargs, ph))),
            3 => o.v.push(("tet_proj".into(), format!("{} {} {}", sargs, ph, so))),
            4 => { let md = if lat { *r.pick(&[0.0, 0.125, 0.5, 1.0, 2.0]) * ext } else { r.uniform(0.0, ext) };
                   o.v.push(("tet_maxd".into(), format!("{} {} {} {}", sargs, ph, so, hx(md)))) }
            k => { let m = d3::gen_iso(r, lat, 100.0); let mh = d3::hiso(&m); let w = d3::hp(&(m * p));
                   match k { 5 => o.v.push(("tet_wproj".into(), format!("{} {} {} {}", sargs, mh, w, so))),
                             6 => o.v.push(("tet_wdist".into(), format!("{} {} {} {}", sargs, mh, w, so))),
                             _ => o.v.push(("tet_wcont".into(), format!("{} {} {}", sargs, mh, w))) } }
        }
    }
}

fn mul(r: &mut Rng) -> f64 { *r.pick(&MUL) }

pub fn gen(r: &mut Rng, thorough: bool) -> Vec<(String, String)> {
    let n = if thorough { 1000 } else { 100 };
    let mut o = Out { v: Vec::new() };
    for it in 0..n {
        let lat = it % 2 == 0;
        // mode of the query point: 0 = special (feature / tie), 1 = lattice or random near the shape, 2 = far
        let mode = r.below(3);

        // ---- ball
        {
            let rad = r.pos_extent(lat);
            let p3 = match mode {
                0 => { let u = unit3(r, true); d3::Point::from(u * (rad * *r.pick(&[0.0, 0.0, 0.5, 1.0, 1.0, 2.0]))) }
                1 => d3::gen_p(r, lat, 2.0 * rad),
                _ => d3::gen_p(r, lat, 50.0) };
            o.emit3(r, lat, "ball3", &hx(rad), &p3, rad, true);
            let p2 = match mode {
                0 => { let u = unit2(r, true); d2::Point::from(u * (rad * *r.pick(&[0.0, 0.0, 0.5, 1.0, 1.0, 2.0]))) }
                1 => d2::gen_p(r, lat, 2.0 * rad),
                _ => d2::gen_p(r, lat, 50.0) };
            o.emit2(r, lat, "ball2", &hx(rad), &p2, rad, true);
        }
        // ---- half-space
        {
            let n3 = unit3(r, lat);
            let p3 = if mode == 0 { // on the plane / on the normal line
                let t = unit3(r, true); let tp = t - n3 * n3.dot(&t);
                d3::Point::from(tp * r.lattice(8, 1) + n3 * *r.pick(&[0.0, 0.0, 1.0, -1.0, 0.5]))
            } else { d3::gen_p(r, lat, 20.0) };
            o.emit3(r, lat, "hs3", &d3::hv(&n3), &p3, 4.0, true);
            let n2 = unit2(r, lat);
            let p2 = if mode == 0 { d2::Point::from(v2(-n2.y, n2.x) * r.lattice(8, 1) + n2 * *r.pick(&[0.0, 0.0, 1.0, -1.0, 0.5])) }
                     else { d2::gen_p(r, lat, 20.0) };
            o.emit2(r, lat, "hs2", &d2::hv(&n2), &p2, 4.0, true);
        }
        // ---- cuboid
        {
            let he = d3::gen_he(r, lat);
            let p3 = match mode {
                0 => d3::Point::new(he.x * mul(r), he.y * mul(r), he.z * mul(r)),
                1 => { // interior medial-axis ties: equal distance to two faces
                    let d = he.min() * *r.pick(&[0.25, 0.5, 1.0]);
                    d3::Point::new((he.x - d) * if r.bool() { 1.0 } else { -1.0 }, (he.y - d) * if r.bool() { 1.0 } else { -1.0 },
                                   if r.bool() { he.z - d } else { he.z * mul(r).abs().min(1.0) }) }
                _ => d3::gen_p(r, lat, 3.0 * he.max()) };
            o.emit3(r, lat, "cub3", &d3::hv(&he), &p3, he.max(), true);
            let he2 = d2::gen_he(r, lat);
            let p2 = match mode {
                0 => d2::Point::new(he2.x * mul(r), he2.y * mul(r)),
                1 => { let d = he2.min() * *r.pick(&[0.25, 0.5, 1.0]);
                       d2::Point::new((he2.x - d) * if r.bool() { 1.0 } else { -1.0 }, (he2.y - d) * if r.bool() { 1.0 } else { -1.0 }) }
                _ => d2::gen_p(r, lat, 3.0 * he2.max()) };
            o.emit2(r, lat, "cub2", &d2::hv(&he2), &p2, he2.max(), true);
        }
        // ---- segment and capsule (same axis)
        {
            let a = d3::gen_p(r, lat, 10.0);
            let b = if r.below(25) == 0 { a } else { d3::gen_p(r, lat, 10.0) };
            let ab = b - a;
            let rad = r.pos_extent(lat);
            let side = { let u = unit3(r, true); let c = ab.cross(&u); if c.norm() > 0.0 { c } else { u } };
            let p3 = match mode {
                0 => a + ab * mul(r),                                       // on the supporting line (vertices, midpoint, beyond)
                1 => a + ab * mul(r) + side * *r.pick(&[0.25, 0.5, 1.0, 2.0]),  // off the line, above Voronoi boundaries
                _ => d3::gen_p(r, lat, 20.0) };
            let sargs = format!("{} {}", d3::hp(&a), d3::hp(&b));
            o.emit3(r, lat, "seg3", &sargs, &p3, 5.0, true);
            o.v.push(("seg3_loc".into(), format!("{} {} {}", sargs, d3::hp(&p3), if r.bool() { "1" } else { "0" })));
            // capsule: also points at distance exactly `rad` when the side vector can be normalised exactly
            let pc = if mode == 1 && lat { let ax = unit3(r, true); a + ab * mul(r) + ax * (rad * *r.pick(&[0.5, 1.0, 2.0])) } else { p3 };
            o.emit3(r, lat, "cap3", &format!("{} {}", sargs, hx(rad)), &pc, rad + 5.0, true);

            let a2 = d2::gen_p(r, lat, 10.0);
            let b2 = if r.below(25) == 0 { a2 } else { d2::gen_p(r, lat, 10.0) };
            let ab2 = b2 - a2;
            let nrm = v2(-ab2.y, ab2.x);
            let p2 = match mode {
                0 => a2 + ab2 * mul(r),
                1 => a2 + ab2 * mul(r) + nrm * *r.pick(&[0.25, 0.5, 1.0, -0.5, -1.0]),
                _ => d2::gen_p(r, lat, 20.0) };
            let sargs2 = format!("{} {}", d2::hp(&a2), d2::hp(&b2));
            o.emit2(r, lat, "seg2", &sargs2, &p2, 5.0, true);
            o.v.push(("seg2_loc".into(), format!("{} {} {}", sargs2, d2::hp(&p2), if r.bool() { "1" } else { "0" })));
            let pc2 = if mode == 1 && lat { let ax = unit2(r, true); a2 + ab2 * mul(r) + ax * (rad * *r.pick(&[0.5, 1.0, 2.0])) } else { p2 };
            o.emit2(r, lat, "cap2", &format!("{} {}", sargs2, hx(rad)), &pc2, rad + 5.0, true);
        }
        // ---- triangle
        {
            let a = d3::gen_p(r, lat, 8.0); let b = d3::gen_p(r, lat, 8.0);
            let c = if r.below(30) == 0 { a + (b - a) * 0.5 } else { d3::gen_p(r, lat, 8.0) };
            let (ab, ac) = (b - a, c - a);
            let nrm = ab.cross(&ac);
            let bary = a + ab * mul(r) + ac * mul(r);
            let p3 = match mode {
                0 => bary,                                                     // in the plane: vertices, edges, interior, outside
                1 => bary + nrm * *r.pick(&[0.125, 0.5, -0.25, 1.0]),         // above / below
                _ => d3::gen_p(r, lat, 16.0) };
            let sargs = format!("{} {} {}", d3::hp(&a), d3::hp(&b), d3::hp(&c));
            o.emit3(r, lat, "tri3", &sargs, &p3, 8.0, true);
            o.v.push(("tri3_loc".into(), format!("{} {} {}", sargs, d3::hp(&p3), if r.bool() { "1" } else { "0" })));

            let a2 = d2::gen_p(r, lat, 8.0); let b2 = d2::gen_p(r, lat, 8.0);
            let c2 = if r.below(30) == 0 { a2 + (b2 - a2) * 0.5 } else { d2::gen_p(r, lat, 8.0) };
            let (ab2, ac2) = (b2 - a2, c2 - a2);
            let p2 = match mode {
                0 => a2 + ab2 * mul(r) + ac2 * mul(r),
                1 => { // on the perpendicular through a vertex / an edge point (Voronoi region boundaries)
                    let (o0, e) = *r.pick(&[(a2, ab2), (a2, ac2), (b2, ab2), (b2, c2 - b2), (c2, ac2), (c2, c2 - b2)]);
                    o0 + e * *r.pick(&[0.0, 0.0, 0.5, 0.25]) + v2(-e.y, e.x) * *r.pick(&[0.5, -0.5, 1.0, -1.0, 0.125]) }
                _ => d2::gen_p(r, lat, 16.0) };
            let sargs2 = format!("{} {} {}", d2::hp(&a2), d2::hp(&b2), d2::hp(&c2));
            o.emit2(r, lat, "tri2", &sargs2, &p2, 8.0, true);
            for so in ["0", "1"] { o.v.push(("tri2_loc".into(), format!("{} {} {}", sargs2, d2::hp(&p2), so))); }
            // interior points (non-solid tail): barycentric with positive weights
            let (u, w) = if lat { (*r.pick(&[0.125, 0.25, 0.5]), *r.pick(&[0.125, 0.25, 0.375])) } else { let u = r.uniform(0.0, 1.0); (u, r.uniform(0.0, 1.0 - u)) };
            let pin = a2 + ab2 * u + ac2 * w;
            for so in ["0", "1"] { o.v.push(("tri2_loc".into(), format!("{} {} {}", sargs2, d2::hp(&pin), so))); }
            o.v.push(("tri2_proj".into(), format!("{} {} 0", sargs2, d2::hp(&pin))));
            o.v.push(("tri2_dist".into(), format!("{} {} 0", sargs2, d2::hp(&pin))));
        }
        // ---- cylinder and cone
        {
            let hh = r.pos_extent(lat); let rad = r.pos_extent(lat);
            let u = unit2(r, true);
            let p3 = match mode {
                0 => d3::Point::new(u.x * rad * mul(r).abs(), hh * mul(r), u.y * rad * mul(r).abs().min(1.0) * if r.bool() { 1.0 } else { 0.0 }),
                1 => { // interior ties: top == side, top == bottom, on the axis
                    let d = hh.min(rad) * *r.pick(&[0.25, 0.5, 1.0]);
                    let rho = *r.pick(&[0.0, rad - d, rad * 0.5]);
                    d3::Point::new(u.x * rho, *r.pick(&[0.0, hh - d, -(hh - d)]), u.y * rho) }
                _ => d3::gen_p(r, lat, 3.0 * hh.max(rad)) };
            let sargs = format!("{} {}", hx(hh), hx(rad));
            o.emit3(r, lat, "cyl", &sargs, &p3, hh.max(rad), false);
            // cone: apex (0,hh,0), rim radius rad at -hh; points on the slanted side: rho = rad*(hh-y)/(2hh)
            let pc = match mode {
                0 => { let t = *r.pick(&[0.0, 0.25, 0.5, 1.0]); let y = hh - 2.0 * hh * t; let rho = rad * t * *r.pick(&[0.0, 0.5, 1.0, 1.5]);
                       d3::Point::new(u.x * rho, y, u.y * rho) }
                1 => d3::Point::new(u.x * rad * mul(r).abs(), hh * mul(r), u.y * rad * mul(r).abs()),
                _ => d3::gen_p(r, lat, 3.0 * hh.max(rad)) };
            o.emit3(r, lat, "cone", &sargs, &pc, hh.max(rad), false);
        }
        // ---- tetrahedron
        {
            let a = d3::gen_p(r, lat, 6.0); let b = d3::gen_p(r, lat, 6.0); let c = d3::gen_p(r, lat, 6.0);
            let d = if r.below(30) == 0 { a + (b - a) * 0.5 + (c - a) * 0.25 } else { d3::gen_p(r, lat, 6.0) };
            let (ab, ac, ad) = (b - a, c - a, d - a);
            let w = [0.0, 0.25, 0.5, 1.0, -0.25, 1.25, 0.125];
            let p = match mode {
                0 => { // vertices, edge and face points, points beyond them (one or two zero weights)
                    let (u, v, t) = (*r.pick(&w), *r.pick(&w), if r.bool() { 0.0 } else { *r.pick(&w) });
                    a + ab * u + ac * v + ad * t }
                1 => { // interior (positive barycentrics) — the documented unimplemented!() for solid = false
                    let (u, v, t) = if lat { (*r.pick(&[0.125, 0.25]), *r.pick(&[0.125, 0.25]), *r.pick(&[0.125, 0.25, 0.375])) }
                                    else { let u = r.uniform(0.0, 0.5); let v = r.uniform(0.0, 0.5 - u * 0.5); (u, v, r.uniform(0.0, (1.0 - u - v).max(0.0))) };
                    a + ab * u + ac * v + ad * t }
                _ => d3::gen_p(r, lat, 12.0) };
            let sargs = format!("{} {} {} {}", d3::hp(&a), d3::hp(&b), d3::hp(&c), d3::hp(&d));
            for so in ["0", "1"] { o.v.push(("tet_loc".into(), format!("{} {} {}", sargs, d3::hp(&p), so))); }
            o.v.push(("tet_cont".into(), format!("{} {}", sargs, d3::hp(&p))));
            o.v.push(("tet_dist".into(), format!("{} {} {}", sargs, d3::hp(&p), if r.bool() { "1" } else { "0" })));
            o.v.push(("tet_feat".into(), format!("{} {}", sargs, d3::hp(&p))));
            // default methods (fu5): bounded and posed forms; the posed point is the image of the same local point
            // (a forked generator: the stream of the older families is unchanged)
            let mut rt = Rng(r.0 ^ 0xA5A5_0005_7E70_0001);
            let rt = &mut rt;
            let so = if rt.bool() { "1" } else { "0" };
            let ext = (ab.norm()).max(ac.norm()).max(ad.norm());
            let md = if lat { *rt.pick(&[0.0, 0.25, 0.5, 1.0, 2.0]) * ext } else { rt.uniform(0.0, 2.0 * ext) };
            o.v.push(("tet_proj".into(), format!("{} {} {}", sargs, d3::hp(&p), so)));
            o.v.push(("tet_maxd".into(), format!("{} {} {} {}", sargs, d3::hp(&p), so, hx(md))));
            let m = d3::gen_iso(rt, lat, 100.0);
            let w = m * p;
            let mh = d3::hiso(&m);
            o.v.push(("tet_wproj".into(), format!("{} {} {} {}", sargs, mh, d3::hp(&w), so)));
            o.v.push(("tet_wdist".into(), format!("{} {} {} {}", sargs, mh, d3::hp(&w), if rt.bool() { "1" } else { "0" })));
            o.v.push(("tet_wcont".into(), format!("{} {} {}", sargs, mh, d3::hp(&w))));
        }
    }
    // ---- structured Voronoi sweep (triangles): one lattice + one random pass (quick), ten of each (thorough)
    for _ in 0..(if thorough { 10 } else { 1 }) {
        tri_sweep(&mut o, r, true);
        tri_sweep(&mut o, r, false);
    }
    // ---- structured Voronoi sweep (tetrahedron, fu5): 3 lattice + 3 random tetrahedra (quick), 30 + 30 (thorough)
    {
        let mut fam = std::collections::BTreeMap::new();
        let mut rs = Rng(r.0 ^ 0xA5A5_0005_7E70_0002);       // forked: the stream of the older families is unchanged
        for i in 0..(if thorough { 60 } else { 6 }) { tet_sweep(&mut o, &mut rs, i % 2 == 0, &mut fam); }
        if std::env::var("VERIF_FAMILIES").is_ok() { for (k, c) in &fam { eprintln!("C05 family {} {}", k, c); } }
    }
    c05m::gen(r, thorough, &mut o.v);
    o.v
}
