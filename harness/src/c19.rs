//! C19: `scaled` of primitive shapes and discretizations (`to_trimesh`).
use crate::util::*;
use crate::p3::shape::{Ball, Capsule, Cone, Cuboid, Cylinder, HalfSpace, Segment, Triangle};
use crate::p3::na::Unit;
#[path = "c19_ext.rs"]
mod ext;
#[path = "c19_acc.rs"]
mod acc;
#[path = "c19_hf2.rs"]
mod hf2s;

type P3 = d3::Point<f64>;
fn fmesh(m: &(Vec<P3>, Vec<[u32; 3]>)) -> String {
    let mut s = format!("{}", m.0.len());
    for p in &m.0 { s.push(' '); s.push_str(&d3::fp(p)); }
    s.push_str(&format!(" {}", m.1.len()));
    for t in &m.1 { s.push_str(&format!(" {} {} {}", t[0], t[1], t[2])); }
    s
}

fn ftris(t: &[[u32; 3]]) -> String {
    let mut s = format!("{}", t.len());
    for t in t { s.push_str(&format!(" {} {} {}", t[0], t[1], t[2])); }
    s
}
fn fidx(m: &(Vec<P3>, Vec<[u32; 3]>)) -> String { format!("{} {}", m.0.len(), ftris(&m.1)) }

pub fn exec(func: &str, a: &mut Args) -> String {
    use crate::p3::transformation::utils as tu;
    match func {
        // index generators of transformation/utils.rs, called directly
        "rect_idx" => { let (ul, ur, dl, dr) = (a.u() as u32, a.u() as u32, a.u() as u32, a.u() as u32);
            let mut out = Vec::new(); tu::push_rectangle_indices(ul, ur, dl, dr, &mut out); ftris(&out) }
        "open_ring_idx" => { let (bl, bu, n) = (a.u() as u32, a.u() as u32, a.u() as u32);
            let mut out = Vec::new(); tu::push_open_ring_indices(bl, bu, n, &mut out); ftris(&out) }
        "ring_idx" => { let (bl, bu, n) = (a.u() as u32, a.u() as u32, a.u() as u32);
            let mut out = Vec::new(); tu::push_ring_indices(bl, bu, n, &mut out); ftris(&out) }
        "deg_open_top_idx" => { let (bc, pt, n) = (a.u() as u32, a.u() as u32, a.u() as u32);
            let mut out = Vec::new(); tu::push_degenerate_open_top_ring_indices(bc, pt, n, &mut out); ftris(&out) }
        "deg_top_idx" => { let (bc, pt, n) = (a.u() as u32, a.u() as u32, a.u() as u32);
            let mut out = Vec::new(); tu::push_degenerate_top_ring_indices(bc, pt, n, &mut out); ftris(&out) }
        "filled_circle_idx" => { let (bc, n) = (a.u() as u32, a.u() as u32);
            let mut out = Vec::new(); tu::push_filled_circle_indices(bc, n, &mut out); ftris(&out) }
        "reverse_cw_idx" => { let k = a.u(); let mut t: Vec<[u32; 3]> = (0..k).map(|_| [a.u() as u32, a.u() as u32, a.u() as u32]).collect();
            tu::reverse_clockwising(&mut t); ftris(&t) }
        "push_circle" => { let r = a.f(); let n = a.u() as u32; let dt = a.f(); let y = a.f(); let _full = a.b();
            let mut out: Vec<P3> = Vec::new(); tu::push_circle(r, n, dt, y, &mut out);
            let mut s = format!("{}", out.len()); for p in &out { s.push(' '); s.push_str(&d3::fp(p)); } s }
        // index buffers of the discretized primitives (the sizes do not influence the indices)
        "cone_indices" => { let n = a.u() as u32; fidx(&Cone::new(1.0, 0.5).to_trimesh(n)) }
        "cyl_indices" => { let n = a.u() as u32; fidx(&Cylinder::new(1.0, 0.5).to_trimesh(n)) }
        "ball_indices" => { let nt = a.u() as u32; let np = a.u() as u32; fidx(&Ball::new(0.5).to_trimesh(nt, np)) }
        "capsule_indices" => { let nt = a.u() as u32; let np = a.u() as u32; fidx(&Capsule::new_y(1.0, 0.5).to_trimesh(nt, np)) }
        "cuboid_scaled" => { let he = d3::v(a); let s = d3::v(a); d3::fv(&Cuboid::new(he).scaled(&s).half_extents) }
        "halfspace_scaled" => { let n = d3::v(a); let s = d3::v(a);
            match HalfSpace::new(Unit::new_unchecked(n)).scaled(&s) { None => "none".into(), Some(h) => format!("some {}", d3::fv(&h.normal)) } }
        "halfspace2_scaled" => { let n = d2::v(a); let s = d2::v(a);
            match crate::p2::shape::HalfSpace::new(Unit::new_unchecked(n)).scaled(&s) { None => "none".into(), Some(h) => format!("some {}", d2::fv(&h.normal)) } }
        "segment_scaled" => { let p = d3::p(a); let q = d3::p(a); let s = d3::v(a); let g = Segment::new(p, q).scaled(&s); format!("{} {}", d3::fp(&g.a), d3::fp(&g.b)) }
        "triangle_scaled" => { let p = d3::p(a); let q = d3::p(a); let r = d3::p(a); let s = d3::v(a); let g = Triangle::new(p, q, r).scaled(&s);
            format!("{} {} {}", d3::fp(&g.a), d3::fp(&g.b), d3::fp(&g.c)) }
        "ball_scaled_u" => { let r = a.f(); let s = a.f();
            match Ball::new(r).scaled(&d3::Vector::new(s, s, s), 8) { Some(e) => match e.left() { Some(b) => format!("ball {}", ff(b.radius)), None => "poly".into() }, None => "none".into() } }
        "ball_scaled_nu" => { let r = a.f(); let s = d3::v(a);
            match Ball::new(r).scaled(&s, 8) { Some(e) => match e.right() { Some(p) => { let pts = p.points(); format!("poly {} {}", pts.len(), pts.iter().map(d3::fp).collect::<Vec<_>>().join(" ")) }, None => "ball".into() }, None => "none".into() } }
        "capsule_scaled_u" => { let p = d3::p(a); let q = d3::p(a); let r = a.f(); let s = a.f();
            match Capsule::new(p, q, r).scaled(&d3::Vector::new(s, s, s), 8) { Some(e) => match e.left() { Some(c) => format!("capsule {} {} {}", d3::fp(&c.segment.a), d3::fp(&c.segment.b), ff(c.radius)), None => "poly".into() }, None => "none".into() } }
        "hf_triangles_at" => { let nr = a.u(); let nc = a.u(); let i = a.u(); let j = a.u();
            let n = a.u(); let hs: Vec<f64> = (0..n).map(|_| a.f()).collect(); let sc = d3::v(a);
            let zig = a.b(); let l = a.b(); let rr = a.b();
            use crate::p3::shape::{HeightField, HeightFieldCellStatus};
            let mut hf = HeightField::new(crate::p3::na::DMatrix::from_fn(nr, nc, |ii, jj| hs[ii * nc + jj]), sc);
            let mut st = HeightFieldCellStatus::empty();
            if zig { st |= HeightFieldCellStatus::ZIGZAG_SUBDIVISION; } if l { st |= HeightFieldCellStatus::LEFT_TRIANGLE_REMOVED; } if rr { st |= HeightFieldCellStatus::RIGHT_TRIANGLE_REMOVED; }
            if i + 1 < nr && j + 1 < nc { hf.set_cell_status(i, j, st); }
            let (t1, t2) = hf.triangles_at(i, j);
            let ft = |t: Option<Triangle>| match t { None => "none".to_string(), Some(t) => format!("t {} {} {}", d3::fp(&t.a), d3::fp(&t.b), d3::fp(&t.c)) };
            format!("{} {}", ft(t1), ft(t2)) }
        "capsule_scaled" => { let p = d3::p(a); let q = d3::p(a); let r = a.f(); let s = d3::v(a);
            match Capsule::new(p, q, r).scaled(&s, 8) { Some(e) => match e.left() { Some(c) => format!("capsule {} {} {}", d3::fp(&c.segment.a), d3::fp(&c.segment.b), ff(c.radius)), None => "poly".into() }, None => "none".into() } }
        "cylinder_scaled" => { let hh = a.f(); let r = a.f(); let s = d3::v(a);
            match Cylinder::new(hh, r).scaled(&s, 8) { Some(e) => match e.left() { Some(c) => format!("cyl {} {}", ff(c.half_height), ff(c.radius)), None => "poly".into() }, None => "none".into() } }
        "cylinder_scaled_xz" => { let hh = a.f(); let r = a.f(); let sx = a.f(); let sy = a.f();
            match Cylinder::new(hh, r).scaled(&d3::Vector::new(sx, sy, sx), 8) { Some(e) => match e.left() { Some(c) => format!("cyl {} {}", ff(c.half_height), ff(c.radius)), None => "poly".into() }, None => "none".into() } }
        "cone_scaled_xz" => { let hh = a.f(); let r = a.f(); let sx = a.f(); let sy = a.f();
            match Cone::new(hh, r).scaled(&d3::Vector::new(sx, sy, sx), 8) { Some(e) => match e.left() { Some(c) => format!("cone {} {}", ff(c.half_height), ff(c.radius)), None => "poly".into() }, None => "none".into() } }
        "cyl_trimesh" => { let hh = a.f(); let r = a.f(); let n = a.u() as u32; fmesh(&Cylinder::new(hh, r).to_trimesh(n)) }
        "cone_trimesh" => { let hh = a.f(); let r = a.f(); let n = a.u() as u32; fmesh(&Cone::new(hh, r).to_trimesh(n)) }
        "ball_trimesh" => { let r = a.f(); let nt = a.u() as u32; let np = a.u() as u32; fmesh(&Ball::new(r).to_trimesh(nt, np)) }
        "capsule_trimesh" => { let hh = a.f(); let r = a.f(); let nt = a.u() as u32; let np = a.u() as u32; fmesh(&Capsule::new_y(hh, r).to_trimesh(nt, np)) }
        "cuboid_trimesh" => { let he = d3::v(a); fmesh(&Cuboid::new(he).to_trimesh()) }
        _ => { if let Some(s) = ext::e3::exec(func, a) { s } else if let Some(s) = ext::e2::exec(func, a) { s } else if let Some(s) = acc::a3::exec(func, a) { s } else if let Some(s) = acc::a2::exec(func, a) { s } else if let Some(s) = hf2s::h2::exec(func, a) { s } else { "nofn".into() } }
    }
}

fn gen_scale(r: &mut Rng, lat: bool) -> f64 {
    if lat { *r.pick(&[-3.0, -2.0, -1.0, -0.5, -0.25, 0.25, 0.5, 1.0, 2.0, 3.0]) }
    else { r.logu(1e-2, 1e2) * if r.bool() { -1.0 } else { 1.0 } }
}
fn gen_scale3(r: &mut Rng, lat: bool) -> d3::Vector<f64> { d3::Vector::new(gen_scale(r, lat), gen_scale(r, lat), gen_scale(r, lat)) }
fn unit3(r: &mut Rng, lat: bool) -> d3::Vector<f64> {
    if lat { *r.pick(&[d3::Vector::new(1.0, 0.0, 0.0), d3::Vector::new(0.0, -1.0, 0.0), d3::Vector::new(0.6, 0.8, 0.0), d3::Vector::new(0.0, -0.6, 0.8),
        d3::Vector::new(2.0/3.0, 2.0/3.0, 1.0/3.0), d3::Vector::new(1.0, 1.0, 0.0).normalize(), d3::Vector::new(1.0, -1.0, 1.0).normalize()]) }
    else { loop { let v = d3::gen_v(r, false, 1.0); if v.norm() > 0.1 { return v.normalize(); } } }
}

/// index generators and index buffers: every subdivision count 3..=64 for cone/cylinder, a grid + random for the two-parameter ones
fn gen_topo(r: &mut Rng, thorough: bool, v: &mut Vec<(String, String)>) {
    for n in 3..=64u64 {
        v.push(("cone_indices".into(), format!("{}", n)));
        v.push(("cyl_indices".into(), format!("{}", n)));
    }
    let (gt, gp) = if thorough { (24, 16) } else { (10, 8) };
    for nt in 3..=gt { for np in 2..=gp {
        v.push(("ball_indices".into(), format!("{} {}", nt, np)));
        v.push(("capsule_indices".into(), format!("{} {}", nt, np)));
    } }
    for _ in 0..(if thorough { 300 } else { 40 }) {
        v.push(("ball_indices".into(), format!("{} {}", 3 + r.below(62), 2 + r.below(63))));
        v.push(("capsule_indices".into(), format!("{} {}", 3 + r.below(62), 2 + r.below(63))));
    }
    for it in 0..(if thorough { 1000 } else { 150 }) {
        let lat = it % 2 == 0;
        let n = if it < 64 { 1 + it } else { 1 + r.below(64) };
        let rad = r.pos_extent(lat); let y = if lat { r.lattice(16, 2) } else { r.uniform(-10.0, 10.0) };
        // dtheta exactly as the discretizers compute it: 2π/n (cone, ball) or 2π·(1/n) (cylinder); or an arbitrary step
        let two_pi = std::f64::consts::PI * 2.0;
        let (dt, full) = match r.below(3) { 0 => (two_pi / (n as f64), true), 1 => (two_pi * (1.0 / (n as f64)), true), _ => (r.uniform(-1.0, 1.0), false) };
        v.push(("push_circle".into(), format!("{} {} {} {} {}", hx(rad), n, hx(dt), hx(y), b(full))));
    }
    for it in 0..(if thorough { 2000 } else { 250 }) {
        let n = if it < 64 { 1 + it } else { 1 + r.below(64) };
        // bases: stacked circles (as used by the assemblies), far apart, or arbitrary (possibly overlapping)
        let bl = r.below(200);
        let bu = match r.below(4) { 0 => bl + n, 1 => bl + n + r.below(50), 2 => r.below(200), _ => if bl >= n { bl - n } else { bl + n } };
        v.push(("ring_idx".into(), format!("{} {} {}", bl, bu, n)));
        v.push(("open_ring_idx".into(), format!("{} {} {}", bl, bu, n)));
        let pt = match r.below(3) { 0 => bl + n, 1 => if bl > 0 { bl - 1 } else { bl + n }, _ => r.below(300) };
        v.push(("deg_top_idx".into(), format!("{} {} {}", bl, pt, n)));
        v.push(("deg_open_top_idx".into(), format!("{} {} {}", bl, pt, n)));
        v.push(("filled_circle_idx".into(), format!("{} {}", bl, n)));
        v.push(("rect_idx".into(), format!("{} {} {} {}", r.below(50), r.below(50), r.below(50), r.below(50))));
        let k = r.below(12);
        let tris: Vec<String> = (0..k).map(|_| format!("{} {} {}", r.below(100), r.below(100), r.below(100))).collect();
        v.push(("reverse_cw_idx".into(), format!("{} {}", k, tris.join(" ")).trim_end().to_string()));
    }
}

pub fn gen(r: &mut Rng, thorough: bool) -> Vec<(String, String)> {
    let n = if thorough { 3000 } else { 400 };
    let mut v = Vec::new();
    for it in 0..n {
        let lat = it % 2 == 0;
        let s = gen_scale3(r, lat);
        v.push(("cuboid_scaled".into(), format!("{} {}", d3::hv(&d3::gen_he(r, lat)), d3::hv(&s))));
        v.push(("halfspace_scaled".into(), format!("{} {}", d3::hv(&unit3(r, lat)), d3::hv(&s))));
        let n2 = if lat { *r.pick(&[d2::Vector::new(1.0, 0.0), d2::Vector::new(0.0, -1.0), d2::Vector::new(0.6, 0.8), d2::Vector::new(1.0, 1.0).normalize(), d2::Vector::new(-0.8, 0.6)]) }
                 else { let a = r.uniform(0.0, 6.28); d2::Vector::new(a.cos(), a.sin()) };
        v.push(("halfspace2_scaled".into(), format!("{} {} {}", d2::hv(&n2), hx(gen_scale(r, lat)), hx(gen_scale(r, lat)))));
        v.push(("segment_scaled".into(), format!("{} {} {}", d3::hp(&d3::gen_p(r, lat, 10.0)), d3::hp(&d3::gen_p(r, lat, 10.0)), d3::hv(&s))));
        v.push(("triangle_scaled".into(), format!("{} {} {} {}", d3::hp(&d3::gen_p(r, lat, 10.0)), d3::hp(&d3::gen_p(r, lat, 10.0)), d3::hp(&d3::gen_p(r, lat, 10.0)), d3::hv(&s))));
        let u = gen_scale(r, lat);
        v.push(("ball_scaled_u".into(), format!("{} {}", hx(r.pos_extent(lat)), hx(u))));
        v.push(("capsule_scaled_u".into(), format!("{} {} {} {}", d3::hp(&d3::gen_p(r, lat, 10.0)), d3::hp(&d3::gen_p(r, lat, 10.0)), hx(r.pos_extent(lat)), hx(u))));
        v.push(("cylinder_scaled_xz".into(), format!("{} {} {} {}", hx(r.pos_extent(lat)), hx(r.pos_extent(lat)), hx(gen_scale(r, lat)), hx(gen_scale(r, lat)))));
        v.push(("cone_scaled_xz".into(), format!("{} {} {} {}", hx(r.pos_extent(lat)), hx(r.pos_extent(lat)), hx(gen_scale(r, lat)), hx(gen_scale(r, lat).abs()))));
        // general dispatch: equal-magnitude scales of mixed sign, fully uniform, and non-uniform
        let m = if lat { *r.pick(&[0.5, 1.0, 2.0]) } else { r.logu(1e-1, 1e1) };
        let sg = |r: &mut Rng| if r.bool() { 1.0 } else { -1.0 };
        let sd = match r.below(3) { 0 => d3::Vector::new(m * sg(r), m * sg(r), m * sg(r)), 1 => d3::Vector::new(u, u, u), _ => s };
        v.push(("capsule_scaled".into(), format!("{} {} {} {}", d3::hp(&d3::gen_p(r, lat, 4.0)), d3::hp(&d3::gen_p(r, lat, 4.0)), hx(r.pos_extent(lat)), d3::hv(&sd))));
        v.push(("cylinder_scaled".into(), format!("{} {} {}", hx(r.pos_extent(lat)), hx(r.pos_extent(lat)), d3::hv(&sd))));
        if it % 2 == 0 {
            let nr = 2 + r.below(4) as usize; let nc = 2 + r.below(4) as usize;
            let hs: Vec<String> = (0..nr * nc).map(|_| hx(if lat { r.lattice(8, 1) } else { r.uniform(-3.0, 3.0) })).collect();
            let sc = if lat { d3::Vector::new(*r.pick(&[1.0, 2.0, 4.0, -2.0]), *r.pick(&[1.0, 0.25, -1.0]), *r.pick(&[1.0, 7.0, -2.0])) } else { d3::Vector::new(r.logu(0.1, 10.0), r.logu(0.1, 10.0), r.logu(0.1, 10.0)) };
            v.push(("hf_triangles_at".into(), format!("{} {} {} {} {} {} {} {} {} {}", nr, nc, r.below(nr as u64), r.below(nc as u64), nr * nc, hs.join(" "), d3::hv(&sc),
                b(r.bool()), b(r.below(5) == 0), b(r.below(5) == 0))));
        }
        if it % 8 == 0 {
            if s.x != s.y || s.x != s.z { v.push(("ball_scaled_nu".into(), format!("{} {}", hx(r.pos_extent(lat)), d3::hv(&s)))); }
            let nsub = 3 + r.below(if thorough { 62 } else { 30 });
            v.push(("cyl_trimesh".into(), format!("{} {} {}", hx(r.pos_extent(lat)), hx(r.pos_extent(lat)), nsub)));
            v.push(("cone_trimesh".into(), format!("{} {} {}", hx(r.pos_extent(lat)), hx(r.pos_extent(lat)), nsub)));
            v.push(("ball_trimesh".into(), format!("{} {} {}", hx(r.pos_extent(lat)), 3 + r.below(20), 3 + r.below(20))));
            v.push(("capsule_trimesh".into(), format!("{} {} {} {}", hx(r.pos_extent(lat)), hx(r.pos_extent(lat)), 3 + r.below(20), 2 + r.below(12))));
            v.push(("cuboid_trimesh".into(), d3::hv(&d3::gen_he(r, lat))));
        }
    }
    gen_topo(r, thorough, &mut v);
    ext::g::gen(r, thorough, &mut v);
    acc::g::gen(r, thorough, &mut v);
    hf2s::h2::gen(r, thorough, &mut v);
    v
}
