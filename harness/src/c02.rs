//! C02 (closed forms): contacts are self-consistent separating certificates and the four overlap verdicts agree.
//! The closed-form `details::` functions are shared with C03 (same protocol names, same real functions);
//! `v_closed` evaluates the four verdicts on a closed-form pair (bit-exact against the model),
//! `v_dispatch` the four verdicts through the real dispatcher on any supported pair (oracle-only).
use crate::util::*;
use super::c03::{self, Sh};
use crate::p3::query::{self, ClosestPoints, PointQuery};
use d3::{Isometry, Real, Vector};

fn last_float(s: &str) -> f64 { f64::from_bits(u64::from_str_radix(s.split_whitespace().last().unwrap(), 16).unwrap()) }

pub fn exec(func: &str, a: &mut Args) -> String {
    match func {
        "d_contact" | "d_distance" | "d_it" | "d_cp" | "q_contact" | "q_distance" | "q_it" | "q_cp"
        | "w_contact_ball_cp" | "x_contact" | "x_distance" | "x_it" | "x_cp" => c03::exec(func, a),
        "v_closed" => {
            let s1 = c03::sh(a); let s2 = c03::sh(a); let m = d3::iso(a); let margin = a.f(); let pred = a.f();
            let it = c03::d_it(&s1, &s2, &m);
            if it == "noroute" { return it; }
            let d = c03::d_distance(&s1, &s2, &m);
            let cp = c03::d_cp(&s1, &s2, &m, margin);
            if cp == "panic" { return cp; }
            let c = c03::d_contact(&s1, &s2, &m, pred);
            let dz = last_float(&d) == 0.0;
            let cn = c.starts_with("some") && last_float(&c) <= 0.0;
            format!("{} {} {} {}", it, b(dz), b(cp == "intersecting"), b(cn))
        }
        "v_dispatch" => {
            let s1 = c03::sh(a); let p1 = d3::iso(a); let s2 = c03::sh(a); let p2 = d3::iso(a); let margin = a.f(); let pred = a.f();
            let (g1, g2) = (c03::dynsh(&s1), c03::dynsh(&s2));
            let it = match query::intersection_test(&p1, &*g1, &p2, &*g2) { Ok(x) => x, Err(_) => return "unsupported".into() };
            let d = match query::distance(&p1, &*g1, &p2, &*g2) { Ok(x) => x, Err(_) => return "unsupported".into() };
            let cp = match query::closest_points(&p1, &*g1, &p2, &*g2, margin) { Ok(x) => x, Err(_) => return "unsupported".into() };
            let c = match query::contact(&p1, &*g1, &p2, &*g2, pred) { Ok(x) => x, Err(_) => return "unsupported".into() };
            let cn = c.map(|c| c.dist <= 0.0).unwrap_or(false);
            let cd = c.map(|c| c.dist).unwrap_or(f64::NAN);
            format!("{} {} {} {} {} {}", b(it), b(d == 0.0), b(cp == ClosestPoints::Intersecting), b(cn), ff(d), ff(cd))
        }
        // ---- closed-form SAT for two cuboids (bit-exact against the model): he1 he2 pos12
        "sat_normal" | "sat_edge" | "it_cc" => {
            use crate::p3::shape::Cuboid;
            let he1 = d3::v(a); let he2 = d3::v(a); let m = d3::iso(a);
            let (c1, c2) = (Cuboid::new(he1), Cuboid::new(he2));
            match func {
                "sat_normal" => { let (s, d) = query::sat::cuboid_cuboid_find_local_separating_normal_oneway(&c1, &c2, &m); format!("{} {}", ff(s), d3::fv(&d)) }
                "sat_edge" => { let (s, d) = query::sat::cuboid_cuboid_find_local_separating_edge_twoway(&c1, &c2, &m); format!("{} {}", ff(s), d3::fv(&d)) }
                _ => b(query::details::intersection_test_cuboid_cuboid(&m, &c1, &c2)).into(),
            }
        }
        // ---- contact self-consistency through the real dispatcher (any pair, composites included): the contact in the
        //      world frame followed by `@ m1 m2`, the point-query distance of each witness to its own shape
        "k_contact" => {
            let s1 = c03::sh(a); let p1 = d3::iso(a); let s2 = c03::sh(a); let p2 = d3::iso(a); let pred = a.f();
            let (g1, g2) = (c03::dynsh(&s1), c03::dynsh(&s2));
            match query::contact(&p1, &*g1, &p2, &*g2, pred) {
                Err(_) => "unsupported".into(),
                Ok(None) => "none".into(),
                Ok(Some(c)) => format!("{} @ {} {}", c03::fcontact(&Some(c)), ff(g1.distance_to_point(&p1, &c.point1, true)), ff(g2.distance_to_point(&p2, &c.point2, true))),
            }
        }
        "k2_contact" => {
            use crate::p2::query::PointQuery as _;
            let s1 = c03::two::sh(a); let p1 = d2::iso(a); let s2 = c03::two::sh(a); let p2 = d2::iso(a); let pred = a.f();
            let (g1, g2) = (c03::two::dynsh(&s1), c03::two::dynsh(&s2));
            match crate::p2::query::contact(&p1, &*g1, &p2, &*g2, pred) {
                Err(_) => "unsupported".into(),
                Ok(None) => "none".into(),
                Ok(Some(c)) => format!("{} @ {} {}", c03::two::fcontact(&Some(c)), ff(g1.distance_to_point(&p1, &c.point1, true)), ff(g2.distance_to_point(&p2, &c.point2, true))),
            }
        }
        _ => "nofn".into(),
    }
}

/// float SAT over the 15 axes of two boxes: (index of the axis, separation along it), largest first
fn sat15(he1: &Vector<Real>, p1: &Isometry<Real>, he2: &Vector<Real>, p2: &Isometry<Real>) -> Vec<(usize, f64)> {
    let a: Vec<Vector<Real>> = (0..3).map(|i| p1.rotation * Vector::ith(i, 1.0)).collect();
    let bb: Vec<Vector<Real>> = (0..3).map(|i| p2.rotation * Vector::ith(i, 1.0)).collect();
    let c = p2.translation.vector - p1.translation.vector;
    let mut axes: Vec<Vector<Real>> = Vec::new();
    axes.extend(a.iter().cloned()); axes.extend(bb.iter().cloned());
    for i in 0..3 { for j in 0..3 { axes.push(a[i].cross(&bb[j])); } }
    let mut out = Vec::new();
    for (k, l) in axes.iter().enumerate() {
        let n = l.norm();
        if n < 1e-6 { continue; }
        let l = l / n;
        let ra: f64 = (0..3).map(|i| he1[i] * a[i].dot(&l).abs()).sum();
        let rb: f64 = (0..3).map(|i| he2[i] * bb[i].dot(&l).abs()).sum();
        out.push((k, c.dot(&l).abs() - ra - rb));
    }
    out
}
/// edge-edge near miss: poses of two boxes whose ONLY separating axis is (edge i of box 1) x (edge j of box 2),
/// with the given signed gap along it (negative = slight penetration: then no axis separates)
fn gen_edge_edge(r: &mut Rng, lat: bool, i: usize, j: usize, gap: f64) -> Option<(Vector<Real>, Isometry<Real>, Vector<Real>, Isometry<Real>)> {
    for _ in 0..60 {
        let e = |r: &mut Rng| if lat { *r.pick(&[0.5, 1.0, 1.5, 2.0]) } else { r.uniform(0.3, 2.5) };
        let he1 = Vector::new(e(r), e(r), e(r)); let he2 = Vector::new(e(r), e(r), e(r));
        let t1 = if lat { Vector::new(c03::quarter(r, 40), c03::quarter(r, 40), c03::quarter(r, 40)) } else { d3::gen_v(r, false, 50.0) };
        let p1 = c03::iso_of(d3::gen_quat(r, lat), t1);
        let l2 = lat && r.bool(); let q2 = d3::gen_quat(r, l2);
        let ei = p1.rotation * Vector::ith(i, 1.0);
        let ej = c03::iso_of(q2, Vector::zeros()).rotation * Vector::ith(j, 1.0);
        let l = ei.cross(&ej);
        if l.norm() < 0.3 { continue; }
        let l = l.normalize() * if r.bool() { 1.0 } else { -1.0 };
        let rot2 = c03::iso_of(q2, Vector::zeros());
        let ra: f64 = (0..3).map(|k| he1[k] * (p1.rotation * Vector::ith(k, 1.0)).dot(&l).abs()).sum();
        let rb: f64 = (0..3).map(|k| he2[k] * (rot2.rotation * Vector::ith(k, 1.0)).dot(&l).abs()).sum();
        // slide along the two edges (orthogonal to l): the separation along l is unchanged
        let (s1, s2) = if lat { (c03::quarter(r, 1) * 0.5, c03::quarter(r, 1) * 0.5) } else { (r.uniform(-0.3, 0.3) * he1[i], r.uniform(-0.3, 0.3) * he2[j]) };
        let c = l * (ra + rb + gap) + ei * s1 + ej * s2;
        let p2 = c03::iso_of(q2, t1 + c);
        let sat = sat15(&he1, &p1, &he2, &p2);
        let target = 6 + 3 * i + j;
        let ok = sat.iter().all(|(k, v)| if *k == target { (*v - gap).abs() < 1e-9 } else { *v < -0.02 - gap.abs() });
        if ok && sat.iter().any(|(k, _)| *k == target) { return Some((he1, p1, he2, p2)); }
    }
    None
}

fn swap_pair(r: &mut Rng, a: (Sh, Isometry<Real>), bb: (Sh, Isometry<Real>)) -> ((Sh, Isometry<Real>), (Sh, Isometry<Real>)) { if r.bool() { (a, bb) } else { (bb, a) } }

pub fn gen(r: &mut Rng, thorough: bool) -> Vec<(String, String)> {
    let n = if thorough { 4000 } else { 400 };
    let mut v: Vec<(String, String)> = Vec::new();
    let closed: [u8; 3] = [0, 1, 2];
    let all: [u8; 6] = [0, 1, 2, 3, 4, 5];
    for it in 0..n {
        let lat = it % 2 == 0;
        for _ in 0..3 {
            let (s1, s2) = loop {
                let s1 = c03::gen_shape(r, lat, &closed); let s2 = c03::gen_shape(r, lat, &closed);
                let ok = match (&s1, &s2) { (Sh::Ball(_), Sh::Ball(_)) => true, (Sh::HalfSpace(_), Sh::HalfSpace(_)) => false, (Sh::HalfSpace(_), _) | (_, Sh::HalfSpace(_)) => true, _ => false };
                if ok { break (s1, s2); }
            };
            let (p1, p2, pos12) = c03::gen_poses(r, lat, &s1, &s2);
            let margin = c03::gen_param(r, lat); let pred = c03::gen_param(r, lat);
            let ss = format!("{} {} {}", c03::hsh(&s1), c03::hsh(&s2), d3::hiso(&pos12));
            v.push(("v_closed".into(), format!("{} {} {}", ss, hx(margin), hx(pred))));
            v.push(("d_contact".into(), format!("{} {}", ss, hx(pred))));
            v.push(("d_cp".into(), format!("{} {}", ss, hx(margin))));
            v.push(("d_distance".into(), ss.clone()));
            v.push(("d_it".into(), ss.clone()));
            v.push(("q_contact".into(), format!("{} {} {} {} {}", c03::hsh(&s1), d3::hiso(&p1), c03::hsh(&s2), d3::hiso(&p2), hx(pred))));
        }
        for _ in 0..3 {
            let (s1, s2) = loop {
                let s1 = c03::gen_shape(r, lat, &all); let s2 = c03::gen_shape(r, lat, &all);
                if !matches!((&s1, &s2), (Sh::HalfSpace(_), Sh::HalfSpace(_))) { break (s1, s2); }
            };
            let (p1, p2, _) = c03::gen_poses(r, lat, &s1, &s2);
            let margin = c03::gen_param(r, lat); let pred = c03::gen_param(r, lat);
            v.push(("v_dispatch".into(), format!("{} {} {} {} {} {}", c03::hsh(&s1), d3::hiso(&p1), c03::hsh(&s2), d3::hiso(&p2), hx(margin), hx(pred))));
        }
        // ---- cuboid/cuboid edge-edge near misses: one case per run of the loop for a rotating choice of the 9 edge pairs;
        //      gaps 1e-3 .. 0.5 and slight penetrations; referee = exact rational SAT over the 15 axes
        for _ in 0..2 {
            let k = (it * 2 + v.len()) % 9; let (i, j) = (k / 3, k % 3);
            let gap = *r.pick(&[1.0e-3, 1.0e-2, 0.05, 0.1, 0.25, 0.5, -1.0e-3, -1.0e-2, -0.1]);
            if let Some((he1, p1, he2, p2)) = gen_edge_edge(r, lat, i, j, gap) {
                let margin = c03::gen_param(r, lat); let pred = c03::gen_param(r, lat);
                let pos12 = p1.inv_mul(&p2);
                let cc = format!("{} {} {}", d3::hv(&he1), d3::hv(&he2), d3::hiso(&pos12));
                for f in ["sat_normal", "sat_edge", "it_cc"] { v.push((f.into(), cc.clone())); }
                let (a1, a2) = swap_pair(r, (Sh::Cuboid(he1), p1), (Sh::Cuboid(he2), p2));
                v.push(("v_dispatch".into(), format!("{} {} {} {} {} {}", c03::hsh(&a1.0), d3::hiso(&a1.1), c03::hsh(&a2.0), d3::hiso(&a2.1), hx(margin), hx(pred))));
            }
        }
        // ---- contact self-consistency on any pair, Compounds with rotated / translated parts included, both orders
        for _ in 0..2 {
            let comp = c03::gen_compound(r, lat);
            let other = match r.below(6) { 0 => c03::gen_compound(r, lat), 1 => c03::gen_shape(r, lat, &all), _ => c03::gen_part(r, lat) };
            let (p1, mut p2, _) = c03::gen_poses(r, lat, &comp, &other);
            if r.below(4) == 0 { p2.translation.vector = (p1 * c03::interior_point(r, lat, &comp)).coords; }
            let pred = c03::gen_param(r, lat).max(if lat { 0.5 } else { 0.3 });
            v.push(("k_contact".into(), format!("{} {} {} {} {}", c03::hsh(&comp), d3::hiso(&p1), c03::hsh(&other), d3::hiso(&p2), hx(pred))));
            v.push(("k_contact".into(), format!("{} {} {} {} {}", c03::hsh(&other), d3::hiso(&p2), c03::hsh(&comp), d3::hiso(&p1), hx(pred))));
        }
        {
            let (s1, s2) = loop {
                let s1 = c03::gen_shape(r, lat, &all); let s2 = c03::gen_shape(r, lat, &all);
                if !matches!((&s1, &s2), (Sh::HalfSpace(_), Sh::HalfSpace(_))) { break (s1, s2); }
            };
            let (p1, p2, _) = c03::gen_poses(r, lat, &s1, &s2);
            let pred = c03::gen_param(r, lat);
            v.push(("k_contact".into(), format!("{} {} {} {} {}", c03::hsh(&s1), d3::hiso(&p1), c03::hsh(&s2), d3::hiso(&p2), hx(pred))));
        }
        {   // generic cuboid pairs (face / vertex configurations, axis-aligned lattice poses with zero components)
            let he1 = d3::gen_he(r, lat); let he2 = d3::gen_he(r, lat);
            let (_, _, pos12) = c03::gen_poses(r, lat, &Sh::Cuboid(he1), &Sh::Cuboid(he2));
            let cc = format!("{} {} {}", d3::hv(&he1), d3::hv(&he2), d3::hiso(&pos12));
            for f in ["sat_normal", "sat_edge", "it_cc"] { v.push((f.into(), cc.clone())); }
        }
        c03::two::gen_k(r, lat, &mut v);
    }
    // ---- degenerate-but-valid corners (shared with C03): ball centre exactly on a feature of the other shape, both argument
    //      orders, rotated poses: the contact against the exact referee (x_contact), its self-consistency through the
    //      point query (k_contact), and the four verdicts (v_dispatch, x_*).  Appended after the main loop: the stream above is unchanged.
    let reps = if thorough { 60 } else { 6 };
    for rep in 0..reps {
        let lat = rep % 2 == 0;
        for k in 0..c03::N_CORNERS {
            let ((s1, p1), (s2, p2), par) = c03::gen_corner_case(r, lat, k);
            let margin = c03::gen_param(r, lat).min(10.0);
            for (a, pa, bb, pb) in [(&s1, &p1, &s2, &p2), (&s2, &p2, &s1, &p1)] {
                let sw = format!("{} {} {} {}", c03::hsh(a), d3::hiso(pa), c03::hsh(bb), d3::hiso(pb));
                v.push(("x_contact".into(), format!("{} {}", sw, hx(par))));
                v.push(("k_contact".into(), format!("{} {}", sw, hx(par))));
                v.push(("v_dispatch".into(), format!("{} {} {}", sw, hx(margin), hx(par))));
                v.push(("x_cp".into(), format!("{} {}", sw, hx(margin))));
                v.push(("x_distance".into(), sw.clone()));
                v.push(("x_it".into(), sw));
            }
            // the same corner through a Compound part
            if !matches!(s1, Sh::Ball(_)) {
                let (c1, q1) = c03::wrap_in_compound(r, lat, &s1, &p1);
                v.push(("k_contact".into(), format!("{} {} {} {} {}", c03::hsh(&c1), d3::hiso(&q1), c03::hsh(&s2), d3::hiso(&p2), hx(par))));
                v.push(("k_contact".into(), format!("{} {} {} {} {}", c03::hsh(&s2), d3::hiso(&p2), c03::hsh(&c1), d3::hiso(&q1), hx(par))));
            }
        }
    }
    v
}
