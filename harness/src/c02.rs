//! C02 (closed forms): contacts are self-consistent separating certificates and the four overlap verdicts agree.
//! The closed-form `details::` functions are shared with C03 (same protocol names, same real functions);
//! `v_closed` evaluates the four verdicts on a closed-form pair (bit-exact against the model),
//! `v_dispatch` the four verdicts through the real dispatcher on any supported pair (oracle-only).
use crate::util::*;
use super::c03::{self, Sh};
use crate::p3::query::{self, ClosestPoints, PointQuery};
use d3::{Isometry, Real, Vector};

fn last_float(s: &str) -> f64 { f64::from_bits(u64::from_str_radix(s.split_whitespace().last().unwrap(), 16).unwrap()) }

pub fn exec(func: &str, a: &mut Args) -> String {
    match func {
        "d_contact" | "d_distance" | "d_it" | "d_cp" | "q_contact" | "q_distance" | "q_it" | "q_cp"
        | "w_contact_ball_cp" | "x_contact" | "x_distance" | "x_it" | "x_cp" => c03::exec(func, a),
        "v_closed" => {
            let s1 = c03::sh(a); let s2 = c03::sh(a); let m = d3::iso(a); let margin = a.f(); let pred = a.f();
            let it = c03::d_it(&s1, &s2, &m);
            if it == "noroute" { return it; }
            let d = c03::d_distance(&s1, &s2, &m);
            let cp = c03::d_cp(&s1, &s2, &m, margin);
            if cp == "panic" { return cp; }
            let c = c03::d_contact(&s1, &s2, &m, pred);
            let dz = last_float(&d) == 0.0;
            let cn = c.starts_with("some") && last_float(&c) <= 0.0;
            format!("{} {} {} {}", it, b(dz), b(cp == "intersecting"), b(cn))
        }
        "v_dispatch" => {
            let s1 = c03::sh(a); let p1 = d3::iso(a); let s2 = c03::sh(a); let p2 = d3::iso(a); let margin = a.f(); let pred = a.f();
            let (g1, g2) = (c03::dynsh(&s1), c03::dynsh(&s2));
            let it = match query::intersection_test(&p1, &*g1, &p2, &*g2) { Ok(x) => x, Err(_) => return "unsupported".into() };
            let d = match query::distance(&p1, &*g1, &p2, &*g2) { Ok(x) => x, Err(_) => return "unsupported".into() };
            let cp = match query::closest_points(&p1, &*g1, &p2, &*g2, margin) { Ok(x) => x, Err(_) => return "unsupported".into() };
            let c = match query::contact(&p1, &*g1, &p2, &*g2, pred) { Ok(x) => x, Err(_) => return "unsupported".into() };
            let cn = c.map(|c| c.dist <= 0.0).unwrap_or(false);
            let cd = c.map(|c| c.dist).unwrap_or(f64::NAN);
            format!("{} {} {} {} {} {}", b(it), b(d == 0.0), b(cp == ClosestPoints::Intersecting), b(cn), ff(d), ff(cd))
        }
        // ---- closed-form SAT for two cuboids (bit-exact against the model): he1 he2 pos12
        "sat_normal" | "sat_edge" | "it_cc" => {
            use crate::p3::shape::Cuboid;
            let he1 = d3::v(a); let he2 = d3::v(a); let m = d3::iso(a);
            let (c1, c2) = (Cuboid::new(he1), Cuboid::new(he2));
            match func {
                "sat_normal" => { let (s, d) = query::sat::cuboid_cuboid_find_local_separating_normal_oneway(&c1, &c2, &m); format!("{} {}", ff(s), d3::fv(&d)) }
                "sat_edge" => { let (s, d) = query::sat::cuboid_cuboid_find_local_separating_edge_twoway(&c1, &c2, &m); format!("{} {}", ff(s), d3::fv(&d)) }
                _ => b(query::details::intersection_test_cuboid_cuboid(&m, &c1, &c2)).into(),
            }
        }
        // ---- follow-up 2: the four verdicts of any pair (composites with many parts included), BOTH argument orders:
        //      `<it> <distance> <intersecting | disjoint | within gap> <none | some dist>` ; the same for (2, 1)
        "v_comp" => {
            let s1 = c03::sh(a); let p1 = d3::iso(a); let s2 = c03::sh(a); let p2 = d3::iso(a); let margin = a.f(); let pred = a.f();
            let (g1, g2) = (c03::dynsh(&s1), c03::dynsh(&s2));
            let four = |pa: &Isometry<Real>, ga: &dyn crate::p3::shape::Shape, pb: &Isometry<Real>, gb: &dyn crate::p3::shape::Shape| -> Option<String> {
                let it = query::intersection_test(pa, ga, pb, gb).ok()?;
                let d = query::distance(pa, ga, pb, gb).ok()?;
                let cp = match query::closest_points(pa, ga, pb, gb, margin).ok()? {
                    ClosestPoints::Intersecting => "intersecting".to_string(), ClosestPoints::Disjoint => "disjoint".to_string(),
                    ClosestPoints::WithinMargin(x, y) => format!("within {}", ff((y - x).norm())) };
                let c = match query::contact(pa, ga, pb, gb, pred).ok()? { None => "none".to_string(), Some(c) => format!("some {}", ff(c.dist)) };
                Some(format!("{} {} {} {}", b(it), ff(d), cp, c))
            };
            match (four(&p1, &*g1, &p2, &*g2), four(&p2, &*g2, &p1, &*g1)) {
                (Some(x), Some(y)) => format!("{} ; {}", x, y),
                _ => "unsupported".into(),
            }
        }
        "v2_comp" => {
            use crate::p2::query as q2d;
            let s1 = c03::two::sh(a); let p1 = d2::iso(a); let s2 = c03::two::sh(a); let p2 = d2::iso(a); let margin = a.f(); let pred = a.f();
            let (g1, g2) = (c03::two::dynsh(&s1), c03::two::dynsh(&s2));
            let four = |pa: &d2::Isometry<Real>, ga: &dyn crate::p2::shape::Shape, pb: &d2::Isometry<Real>, gb: &dyn crate::p2::shape::Shape| -> Option<String> {
                let it = q2d::intersection_test(pa, ga, pb, gb).ok()?;
                let d = q2d::distance(pa, ga, pb, gb).ok()?;
                let cp = match q2d::closest_points(pa, ga, pb, gb, margin).ok()? {
                    q2d::ClosestPoints::Intersecting => "intersecting".to_string(), q2d::ClosestPoints::Disjoint => "disjoint".to_string(),
                    q2d::ClosestPoints::WithinMargin(x, y) => format!("within {}", ff((y - x).norm())) };
                let c = match q2d::contact(pa, ga, pb, gb, pred).ok()? { None => "none".to_string(), Some(c) => format!("some {}", ff(c.dist)) };
                Some(format!("{} {} {} {}", b(it), ff(d), cp, c))
            };
            match (four(&p1, &*g1, &p2, &*g2), four(&p2, &*g2, &p1, &*g1)) {
                (Some(x), Some(y)) => format!("{} ; {}", x, y),
                _ => "unsupported".into(),
            }
        }
        // ---- contact self-consistency through the real dispatcher (any pair, composites included): the contact in the
        //      world frame followed by `@ m1 m2`, the point-query distance of each witness to its own shape
        //      (follow-up 2: `e_contact` / `e2_contact` = same call on a convex pair, judged against the EXACT signed
        //      separation: distance when apart, minimum separating translation when overlapping)
        "k_contact" | "e_contact" => {
            let s1 = c03::sh(a); let p1 = d3::iso(a); let s2 = c03::sh(a); let p2 = d3::iso(a); let pred = a.f();
            let (g1, g2) = (c03::dynsh(&s1), c03::dynsh(&s2));
            match query::contact(&p1, &*g1, &p2, &*g2, pred) {
                Err(_) => "unsupported".into(),
                Ok(None) => "none".into(),
                Ok(Some(c)) => format!("{} @ {} {}", c03::fcontact(&Some(c)), ff(g1.distance_to_point(&p1, &c.point1, true)), ff(g2.distance_to_point(&p2, &c.point2, true))),
            }
        }
        // ---- follow-up 2: contact distance of two rectangles with parallel axes (closed-form model): he1 he2 t pos1
        "rect2_dist" => {
            let he1 = d2::v(a); let he2 = d2::v(a); let t = d2::v(a); let p1 = d2::iso(a);
            let p2 = p1 * d2::Isometry::translation(t.x, t.y);
            match crate::p2::query::contact(&p1, &crate::p2::shape::Cuboid::new(he1), &p2, &crate::p2::shape::Cuboid::new(he2), 1.0e6) {
                Ok(Some(c)) => ff(c.dist), Ok(None) => "none".into(), Err(_) => "unsupported".into(),
            }
        }
        "k2_contact" | "e2_contact" => {
            use crate::p2::query::PointQuery as _;
            let s1 = c03::two::sh(a); let p1 = d2::iso(a); let s2 = c03::two::sh(a); let p2 = d2::iso(a); let pred = a.f();
            let (g1, g2) = (c03::two::dynsh(&s1), c03::two::dynsh(&s2));
            match crate::p2::query::contact(&p1, &*g1, &p2, &*g2, pred) {
                Err(_) => "unsupported".into(),
                Ok(None) => "none".into(),
                Ok(Some(c)) => format!("{} @ {} {}", c03::two::fcontact(&Some(c)), ff(g1.distance_to_point(&p1, &c.point1, true)), ff(g2.distance_to_point(&p2, &c.point2, true))),
            }
        }
        "epa2" => fu4::exec_epa2(a),
        "epa2c" => fu4::exec_epa2c(a),
        "epa3" => fu4::exec_epa3(a),
        "epa3c" => fu4::exec_epa3c(a),
        "csm2" => fu5::exec_csm2(a),
        "csm3" => fu5::exec_csm3(a),
        _ => "nofn".into(),
    }
}

/// float SAT over the 15 axes of two boxes: (index of the axis, separation along it), largest first
fn sat15(he1: &Vector<Real>, p1: &Isometry<Real>, he2: &Vector<Real>, p2: &Isometry<Real>) -> Vec<(usize, f64)> {
    let a: Vec<Vector<Real>> = (0..3).map(|i| p1.rotation * Vector::ith(i, 1.0)).collect();
    let bb: Vec<Vector<Real>> = (0..3).map(|i| p2.rotation * Vector::ith(i, 1.0)).collect();
    let c = p2.translation.vector - p1.translation.vector;
    let mut axes: Vec<Vector<Real>> = Vec::new();
    axes.extend(a.iter().cloned()); axes.extend(bb.iter().cloned());
    for i in 0..3 { for j in 0..3 { axes.push(a[i].cross(&bb[j])); } }
    let mut out = Vec::new();
    for (k, l) in axes.iter().enumerate() {
        let n = l.norm();
        if n < 1e-6 { continue; }
        let l = l / n;
        let ra: f64 = (0..3).map(|i| he1[i] * a[i].dot(&l).abs()).sum();
        let rb: f64 = (0..3).map(|i| he2[i] * bb[i].dot(&l).abs()).sum();
        out.push((k, c.dot(&l).abs() - ra - rb));
    }
    out
}
/// edge-edge near miss: poses of two boxes whose ONLY separating axis is (edge i of box 1) x (edge j of box 2),
/// with the given signed gap along it (negative = slight penetration: then no axis separates)
fn gen_edge_edge(r: &mut Rng, lat: bool, i: usize, j: usize, gap: f64) -> Option<(Vector<Real>, Isometry<Real>, Vector<Real>, Isometry<Real>)> {
    for _ in 0..60 {
        let e = |r: &mut Rng| if lat { *r.pick(&[0.5, 1.0, 1.5, 2.0]) } else { r.uniform(0.3, 2.5) };
        let he1 = Vector::new(e(r), e(r), e(r)); let he2 = Vector::new(e(r), e(r), e(r));
        let t1 = if lat { Vector::new(c03::quarter(r, 40), c03::quarter(r, 40), c03::quarter(r, 40)) } else { d3::gen_v(r, false, 50.0) };
        let p1 = c03::iso_of(d3::gen_quat(r, lat), t1);
        let l2 = lat && r.bool(); let q2 = d3::gen_quat(r, l2);
        let ei = p1.rotation * Vector::ith(i, 1.0);
        let ej = c03::iso_of(q2, Vector::zeros()).rotation * Vector::ith(j, 1.0);
        let l = ei.cross(&ej);
        if l.norm() < 0.3 { continue; }
        let l = l.normalize() * if r.bool() { 1.0 } else { -1.0 };
        let rot2 = c03::iso_of(q2, Vector::zeros());
        let ra: f64 = (0..3).map(|k| he1[k] * (p1.rotation * Vector::ith(k, 1.0)).dot(&l).abs()).sum();
        let rb: f64 = (0..3).map(|k| he2[k] * (rot2.rotation * Vector::ith(k, 1.0)).dot(&l).abs()).sum();
        // slide along the two edges (orthogonal to l): the separation along l is unchanged
        let (s1, s2) = if lat { (c03::quarter(r, 1) * 0.5, c03::quarter(r, 1) * 0.5) } else { (r.uniform(-0.3, 0.3) * he1[i], r.uniform(-0.3, 0.3) * he2[j]) };
        let c = l * (ra + rb + gap) + ei * s1 + ej * s2;
        let p2 = c03::iso_of(q2, t1 + c);
        let sat = sat15(&he1, &p1, &he2, &p2);
        let target = 6 + 3 * i + j;
        let ok = sat.iter().all(|(k, v)| if *k == target { (*v - gap).abs() < 1e-9 } else { *v < -0.02 - gap.abs() });
        if ok && sat.iter().any(|(k, _)| *k == target) { return Some((he1, p1, he2, p2)); }
    }
    None
}

fn swap_pair(r: &mut Rng, a: (Sh, Isometry<Real>), bb: (Sh, Isometry<Real>)) -> ((Sh, Isometry<Real>), (Sh, Isometry<Real>)) { if r.bool() { (a, bb) } else { (bb, a) } }

pub fn gen(r: &mut Rng, thorough: bool) -> Vec<(String, String)> {
    let n = if thorough { 4000 } else { 400 };
    let mut v: Vec<(String, String)> = Vec::new();
    let closed: [u8; 3] = [0, 1, 2];
    let all: [u8; 6] = [0, 1, 2, 3, 4, 5];
    for it in 0..n {
        let lat = it % 2 == 0;
        for _ in 0..3 {
            let (s1, s2) = loop {
                let s1 = c03::gen_shape(r, lat, &closed); let s2 = c03::gen_shape(r, lat, &closed);
                let ok = match (&s1, &s2) { (Sh::Ball(_), Sh::Ball(_)) => true, (Sh::HalfSpace(_), Sh::HalfSpace(_)) => false, (Sh::HalfSpace(_), _) | (_, Sh::HalfSpace(_)) => true, _ => false };
                if ok { break (s1, s2); }
            };
            let (p1, p2, pos12) = c03::gen_poses(r, lat, &s1, &s2);
            let margin = c03::gen_param(r, lat); let pred = c03::gen_param(r, lat);
            let ss = format!("{} {} {}", c03::hsh(&s1), c03::hsh(&s2), d3::hiso(&pos12));
            v.push(("v_closed".into(), format!("{} {} {}", ss, hx(margin), hx(pred))));
            v.push(("d_contact".into(), format!("{} {}", ss, hx(pred))));
            v.push(("d_cp".into(), format!("{} {}", ss, hx(margin))));
            v.push(("d_distance".into(), ss.clone()));
            v.push(("d_it".into(), ss.clone()));
            v.push(("q_contact".into(), format!("{} {} {} {} {}", c03::hsh(&s1), d3::hiso(&p1), c03::hsh(&s2), d3::hiso(&p2), hx(pred))));
        }
        for _ in 0..3 {
            let (s1, s2) = loop {
                let s1 = c03::gen_shape(r, lat, &all); let s2 = c03::gen_shape(r, lat, &all);
                if !matches!((&s1, &s2), (Sh::HalfSpace(_), Sh::HalfSpace(_))) { break (s1, s2); }
            };
            let (p1, p2, _) = c03::gen_poses(r, lat, &s1, &s2);
            let margin = c03::gen_param(r, lat); let pred = c03::gen_param(r, lat);
            v.push(("v_dispatch".into(), format!("{} {} {} {} {} {}", c03::hsh(&s1), d3::hiso(&p1), c03::hsh(&s2), d3::hiso(&p2), hx(margin), hx(pred))));
        }
        // ---- cuboid/cuboid edge-edge near misses: one case per run of the loop for a rotating choice of the 9 edge pairs;
        //      gaps 1e-3 .. 0.5 and slight penetrations; referee = exact rational SAT over the 15 axes
        for _ in 0..2 {
            let k = (it * 2 + v.len()) % 9; let (i, j) = (k / 3, k % 3);
            let gap = *r.pick(&[1.0e-3, 1.0e-2, 0.05, 0.1, 0.25, 0.5, -1.0e-3, -1.0e-2, -0.1]);
            if let Some((he1, p1, he2, p2)) = gen_edge_edge(r, lat, i, j, gap) {
                let margin = c03::gen_param(r, lat); let pred = c03::gen_param(r, lat);
                let pos12 = p1.inv_mul(&p2);
                let cc = format!("{} {} {}", d3::hv(&he1), d3::hv(&he2), d3::hiso(&pos12));
                for f in ["sat_normal", "sat_edge", "it_cc"] { v.push((f.into(), cc.clone())); }
                let (a1, a2) = swap_pair(r, (Sh::Cuboid(he1), p1), (Sh::Cuboid(he2), p2));
                v.push(("v_dispatch".into(), format!("{} {} {} {} {} {}", c03::hsh(&a1.0), d3::hiso(&a1.1), c03::hsh(&a2.0), d3::hiso(&a2.1), hx(margin), hx(pred))));
            }
        }
        // ---- contact self-consistency on any pair, Compounds with rotated / translated parts included, both orders
        for _ in 0..2 {
            let comp = c03::gen_compound(r, lat);
            let other = match r.below(6) { 0 => c03::gen_compound(r, lat), 1 => c03::gen_shape(r, lat, &all), _ => c03::gen_part(r, lat) };
            let (p1, mut p2, _) = c03::gen_poses(r, lat, &comp, &other);
            if r.below(4) == 0 { p2.translation.vector = (p1 * c03::interior_point(r, lat, &comp)).coords; }
            let pred = c03::gen_param(r, lat).max(if lat { 0.5 } else { 0.3 });
            v.push(("k_contact".into(), format!("{} {} {} {} {}", c03::hsh(&comp), d3::hiso(&p1), c03::hsh(&other), d3::hiso(&p2), hx(pred))));
            v.push(("k_contact".into(), format!("{} {} {} {} {}", c03::hsh(&other), d3::hiso(&p2), c03::hsh(&comp), d3::hiso(&p1), hx(pred))));
        }
        {
            let (s1, s2) = loop {
                let s1 = c03::gen_shape(r, lat, &all); let s2 = c03::gen_shape(r, lat, &all);
                if !matches!((&s1, &s2), (Sh::HalfSpace(_), Sh::HalfSpace(_))) { break (s1, s2); }
            };
            let (p1, p2, _) = c03::gen_poses(r, lat, &s1, &s2);
            let pred = c03::gen_param(r, lat);
            v.push(("k_contact".into(), format!("{} {} {} {} {}", c03::hsh(&s1), d3::hiso(&p1), c03::hsh(&s2), d3::hiso(&p2), hx(pred))));
        }
        {   // generic cuboid pairs (face / vertex configurations, axis-aligned lattice poses with zero components)
            let he1 = d3::gen_he(r, lat); let he2 = d3::gen_he(r, lat);
            let (_, _, pos12) = c03::gen_poses(r, lat, &Sh::Cuboid(he1), &Sh::Cuboid(he2));
            let cc = format!("{} {} {}", d3::hv(&he1), d3::hv(&he2), d3::hiso(&pos12));
            for f in ["sat_normal", "sat_edge", "it_cc"] { v.push((f.into(), cc.clone())); }
        }
        c03::two::gen_k(r, lat, &mut v);
        fu2::gen(r, lat, &mut v);
    }
    // ---- degenerate-but-valid corners (shared with C03): ball centre exactly on a feature of the other shape, both argument
    //      orders, rotated poses: the contact against the exact referee (x_contact), its self-consistency through the
    //      point query (k_contact), and the four verdicts (v_dispatch, x_*).  Appended after the main loop: the stream above is unchanged.
    let reps = if thorough { 60 } else { 6 };
    for rep in 0..reps {
        let lat = rep % 2 == 0;
        for k in 0..c03::N_CORNERS {
            let ((s1, p1), (s2, p2), par) = c03::gen_corner_case(r, lat, k);
            let margin = c03::gen_param(r, lat).min(10.0);
            for (a, pa, bb, pb) in [(&s1, &p1, &s2, &p2), (&s2, &p2, &s1, &p1)] {
                let sw = format!("{} {} {} {}", c03::hsh(a), d3::hiso(pa), c03::hsh(bb), d3::hiso(pb));
                v.push(("x_contact".into(), format!("{} {}", sw, hx(par))));
                v.push(("k_contact".into(), format!("{} {}", sw, hx(par))));
                v.push(("v_dispatch".into(), format!("{} {} {}", sw, hx(margin), hx(par))));
                v.push(("x_cp".into(), format!("{} {}", sw, hx(margin))));
                v.push(("x_distance".into(), sw.clone()));
                v.push(("x_it".into(), sw));
            }
            // the same corner through a Compound part
            if !matches!(s1, Sh::Ball(_)) {
                let (c1, q1) = c03::wrap_in_compound(r, lat, &s1, &p1);
                v.push(("k_contact".into(), format!("{} {} {} {} {}", c03::hsh(&c1), d3::hiso(&q1), c03::hsh(&s2), d3::hiso(&p2), hx(par))));
                v.push(("k_contact".into(), format!("{} {} {} {} {}", c03::hsh(&s2), d3::hiso(&p2), c03::hsh(&c1), d3::hiso(&q1), hx(par))));
            }
        }
    }
    fu4::gen(r, thorough, &mut v);
    fu4::gen3(r, thorough, &mut v);
    fu5::gen2(r, thorough, &mut v);
    fu5::gen3(r, thorough, &mut v);
    v
}

// ================================================================== follow-up 2: structured families
/// Families added for the second follow-up:
///  * convex pairs whose GJK run ends with the origin ON a lower-dimensional simplex (the relative translation is a dyadic
///    convex combination of two / three support points of the configuration-space obstacle), so that EPA starts from a
///    1-D (2-D, 3-D) or 2-D (3-D) simplex; plus generic overlapping / grazing / separated convex pairs.  Judged against
///    the exact signed separation (`e_contact`, `e2_contact`).
///  * composites with 5..12 parts (their QBVH has several leaves): Compound rows / grids, open TriMesh grids, Polyline
///    chains, against a bar / ball / capsule put next to (or into) one chosen part from either side along any axis, so the
///    closest part is decided between neighbouring BVH nodes.  Four verdicts + distances, both argument orders (`v_comp`,
///    `v2_comp`).
pub mod fu2 {
    use crate::util::*;
    use super::c03::{self, Sh};
    use super::c03::two as t2;
    use crate::p3::query::gjk::{self as gjk3, CSOPoint as Cso3, GJKResult as Res3, VoronoiSimplex as Vs3};
    use crate::p2::query::gjk::{self as gjk2, CSOPoint as Cso2, GJKResult as Res2, VoronoiSimplex as Vs2};
    use d3::{Isometry, Point, Real, Vector};
    type Iso2 = d2::Isometry<Real>; type Vec2 = d2::Vector<Real>; type Pt2 = d2::Point<Real>;

    fn dy(r: &mut Rng) -> f64 { *r.pick(&[0.25, 0.5, 0.75, 1.0, 1.5, 2.0]) }
    fn q4(r: &mut Rng, k: i64) -> f64 { r.range(-k, k) as f64 * 0.25 }
    fn iso2_of(c: (f64, f64), t: Vec2) -> Iso2 {
        Iso2::from_parts(d2::na::Translation2::from(t), d2::na::Unit::new_unchecked(d2::na::Complex::new(c.0, c.1)))
    }
    fn exact_rot2(r: &mut Rng) -> (f64, f64) { *r.pick(&[(1.0, 0.0), (0.0, 1.0), (-1.0, 0.0), (0.0, -1.0)]) }

    // ------------------------------------------------------------ convex pairs (3-D)
    /// a polytope-like convex shape with dyadic data (lat) or random data: cuboid / triangle / segment / capsule
    fn convex3(r: &mut Rng, lat: bool) -> Sh {
        let c = |r: &mut Rng| if lat { q4(r, 6) } else { r.uniform(-1.5, 1.5) };
        let e = |r: &mut Rng| if lat { dy(r) } else { r.uniform(0.2, 2.0) };
        match r.below(6) {
            0 | 1 | 2 => Sh::Cuboid(Vector::new(e(r), e(r), e(r))),
            3 => loop { let (p, q, s) = (Point::new(c(r), c(r), c(r)), Point::new(c(r), c(r), c(r)), Point::new(c(r), c(r), c(r)));
                        if (q - p).cross(&(s - p)).norm() > 0.2 { break Sh::Triangle(p, q, s); } },
            4 => loop { let (p, q) = (Point::new(c(r), c(r), c(r)), Point::new(c(r), c(r), c(r))); if (q - p).norm() > 0.4 { break Sh::Segment(p, q); } },
            _ => loop { let (p, q) = (Point::new(c(r), c(r), c(r)), Point::new(c(r), c(r), c(r))); if (q - p).norm() > 0.4 { break Sh::Capsule(p, q, e(r).min(1.0)); } },
        }
    }
    fn lat_dir3(r: &mut Rng) -> Vector<Real> {
        loop { let v = Vector::new(r.range(-2, 2) as f64, r.range(-2, 2) as f64, r.range(-2, 2) as f64); if v.norm() > 0.0 { return v; } }
    }
    /// dimension of the GJK simplex when `contact` hands over to EPA (None: GJK did not report an intersection)
    pub fn gjk_dim3(s1: &Sh, s2: &Sh, pos12: &Isometry<Real>) -> Option<usize> {
        let (g1, g2) = (c03::dynsh(s1), c03::dynsh(s2));
        let (m1, m2) = (g1.as_support_map()?, g2.as_support_map()?);
        let dir = d3::na::Unit::try_new(pos12.translation.vector, f64::EPSILON).unwrap_or(Vector::x_axis());
        let mut sx = Vs3::new();
        sx.reset(Cso3::from_shapes(pos12, m1, m2, &dir));
        match gjk3::closest_points(pos12, m1, m2, 0.0, true, &mut sx) { Res3::Intersection => Some(sx.dimension()), _ => None }
    }
    /// relative pose (exact rotation, translation = dyadic convex combination of 2 or 3 support points of A - R·B):
    /// the origin of the configuration space then lies on the segment / triangle spanned by GJK's first support points
    pub fn gjk_simplex3(r: &mut Rng, lat: bool) -> Option<(Sh, Sh, Isometry<Real>, usize)> {
        for _ in 0..40 {
            let (s1, s2) = (convex3(r, lat), convex3(r, lat));
            let rot = if lat { c03::exact_quat(r) } else { d3::gen_quat(r, false) };
            let rel0 = c03::iso_of(rot, Vector::zeros());
            let (g1, g2) = (c03::dynsh(&s1), c03::dynsh(&s2));
            let (m1, m2) = (g1.as_support_map()?, g2.as_support_map()?);
            let sup = |d: &Vector<Real>| Cso3::from_shapes(&rel0, m1, m2, d).point.coords;
            let v1 = sup(&lat_dir3(r)); let v2 = sup(&lat_dir3(r)); let v3 = sup(&lat_dir3(r));
            if (v2 - v1).norm() < 1.0e-9 { continue; }
            let w = |r: &mut Rng| *r.pick(&[0.125, 0.25, 0.5, 0.75]);
            let t = if r.below(3) != 0 { let m = w(r); v1 + (v2 - v1) * m } else { let (m, n) = (w(r) * 0.5, w(r) * 0.5); v1 + (v2 - v1) * m + (v3 - v1) * n };
            let rel = c03::iso_of(rot, t);
            if let Some(d) = gjk_dim3(&s1, &s2, &rel) { if d < 3 || r.below(4) == 0 { return Some((s1, s2, rel, d)); } }
        }
        None
    }

    // ------------------------------------------------------------ convex pairs (2-D)
    fn convex2(r: &mut Rng, lat: bool) -> t2::Sh {
        let c = |r: &mut Rng| if lat { q4(r, 6) } else { r.uniform(-1.5, 1.5) };
        let e = |r: &mut Rng| if lat { dy(r) } else { r.uniform(0.2, 2.0) };
        match r.below(6) {
            0 | 1 | 2 => t2::Sh::Cuboid(Vec2::new(e(r), e(r))),
            3 => loop { let (p, q, s) = (Pt2::new(c(r), c(r)), Pt2::new(c(r), c(r)), Pt2::new(c(r), c(r)));
                        if (q - p).perp(&(s - p)).abs() > 0.2 { break t2::Sh::Triangle(p, q, s); } },
            4 => loop { let (p, q) = (Pt2::new(c(r), c(r)), Pt2::new(c(r), c(r))); if (q - p).norm() > 0.4 { break t2::Sh::Segment(p, q); } },
            _ => loop { let (p, q) = (Pt2::new(c(r), c(r)), Pt2::new(c(r), c(r))); if (q - p).norm() > 0.4 { break t2::Sh::Capsule(p, q, e(r).min(1.0)); } },
        }
    }
    fn lat_dir2(r: &mut Rng) -> Vec2 {
        loop { let v = Vec2::new(r.range(-2, 2) as f64, r.range(-2, 2) as f64); if v.norm() > 0.0 { return v; } }
    }
    fn gjk_dim2(s1: &t2::Sh, s2: &t2::Sh, pos12: &Iso2) -> Option<usize> {
        let (g1, g2) = (t2::dynsh(s1), t2::dynsh(s2));
        let (m1, m2) = (g1.as_support_map()?, g2.as_support_map()?);
        let dir = d2::na::Unit::try_new(pos12.translation.vector, f64::EPSILON).unwrap_or(Vec2::x_axis());
        let mut sx = Vs2::new();
        sx.reset(Cso2::from_shapes(pos12, m1, m2, &dir));
        match gjk2::closest_points(pos12, m1, m2, 0.0, true, &mut sx) { Res2::Intersection => Some(sx.dimension()), _ => None }
    }
    pub fn gjk_simplex2(r: &mut Rng, lat: bool) -> Option<(t2::Sh, t2::Sh, Iso2, usize)> {
        for _ in 0..40 {
            let (s1, s2) = (convex2(r, lat), convex2(r, lat));
            let rot = if lat { exact_rot2(r) } else { d2::gen_rot(r, false) };
            let rel0 = iso2_of(rot, Vec2::zeros());
            let (g1, g2) = (t2::dynsh(&s1), t2::dynsh(&s2));
            let (m1, m2) = (g1.as_support_map()?, g2.as_support_map()?);
            let sup = |d: &Vec2| Cso2::from_shapes(&rel0, m1, m2, d).point.coords;
            // two support points in opposite directions straddle the body of the configuration-space obstacle
            let d = lat_dir2(r);
            let v1 = sup(&d); let v2 = if r.bool() { sup(&-d) } else { sup(&lat_dir2(r)) };
            let m = *r.pick(&[0.125, 0.25, 0.5, 0.75]);
            if (v2 - v1).norm() < 1.0e-9 { continue; }
            let t = v1 + (v2 - v1) * m;
            let rel = iso2_of(rot, t);
            if let Some(dm) = gjk_dim2(&s1, &s2, &rel) { if dm < 2 || r.below(4) == 0 { return Some((s1, s2, rel, dm)); } }
        }
        None
    }
    /// generic 2-D convex pair at a chosen signed gap along a random direction (deep overlap .. grazing .. apart)
    pub fn near_pair2(r: &mut Rng, lat: bool) -> (t2::Sh, Iso2, t2::Sh, Iso2) {
        let pick = |r: &mut Rng| if r.below(5) == 0 { t2::Sh::Ball(if lat { dy(r) } else { r.uniform(0.2, 2.0) }) } else { convex2(r, lat) };
        let (s1, s2) = (pick(r), pick(r));
        let ts = if r.below(4) == 0 { 500.0 } else { 20.0 };
        let p1 = d2::gen_iso(r, lat, ts);
        let rot2 = d2::gen_rot(r, lat);
        let (g1, g2) = (t2::dynsh(&s1), t2::dynsh(&s2));
        let dir = { let (c, s) = d2::gen_rot(r, lat); Vec2::new(c, s) };
        let r2 = iso2_of(rot2, Vec2::zeros());
        let r1 = iso2_of((p1.rotation.re, p1.rotation.im), Vec2::zeros());
        let e1 = g1.as_support_map().map(|m| m.support_point(&r1, &dir).coords.dot(&dir)).unwrap_or(0.0);
        let e2 = g2.as_support_map().map(|m| m.support_point(&r2, &-dir).coords.dot(&-dir)).unwrap_or(0.0);
        let gap = if lat { *r.pick(&[-1.0, -0.5, -0.25, -0.125, 0.125, 0.25, 0.5, 1.0]) } else { r.uniform(-1.0, 1.0) };
        let lateral = Vec2::new(-dir.y, dir.x) * if lat { q4(r, 2) } else { r.uniform(-0.5, 0.5) };
        let p2 = iso2_of(rot2, p1.translation.vector + dir * (e1 + e2 + gap) + lateral);
        (s1, p1, s2, p2)
    }

    // ------------------------------------------------------------ composites with many parts (3-D)
    fn part3(r: &mut Rng, lat: bool) -> Sh {
        let e = |r: &mut Rng| if lat { *r.pick(&[0.25, 0.5, 0.75]) } else { r.uniform(0.2, 0.8) };
        match r.below(4) {
            0 => Sh::Ball(e(r)),
            1 | 2 => Sh::Cuboid(Vector::new(e(r), e(r), e(r))),
            _ => { let h = e(r); let mut a = Vector::zeros(); a[r.below(3) as usize] = h; Sh::Capsule(Point::from(-a), Point::from(a), e(r).min(0.5)) }
        }
    }
    fn unit3(i: usize, s: f64) -> Vector<Real> { let mut v = Vector::zeros(); v[i] = s; v }
    /// a composite with 5..=12 parts and the local centre + rough radius of every part
    pub fn many3(r: &mut Rng, lat: bool) -> (Sh, Vec<(Point<Real>, f64)>, usize) {
        let ax = r.below(3) as usize; let ay = (ax + 1 + r.below(2) as usize) % 3;
        if r.below(4) == 0 {
            // open TriMesh grid in the plane spanned by (ax, ay), heights along the third axis
            let az = 3 - ax - ay;
            let nx = 3 + r.below(3) as usize; let ny = 1 + r.below(2) as usize;
            let cs = if lat { *r.pick(&[1.0, 1.5, 2.0]) } else { r.uniform(0.8, 2.0) };
            let x0 = if lat { q4(r, 8) } else { r.uniform(-2.0, 2.0) } - cs * nx as f64 * 0.5; let y0 = if lat { q4(r, 8) } else { r.uniform(-2.0, 2.0) };
            let mut vs = Vec::new();
            for j in 0..=ny { for i in 0..=nx {
                let h = if lat { *r.pick(&[0.0, 0.25, 0.5, -0.25]) } else { r.uniform(-0.4, 0.4) };
                vs.push(Point::from(unit3(ax, x0 + cs * i as f64) + unit3(ay, y0 + cs * j as f64) + unit3(az, h)));
            } }
            let mut ts: Vec<[u32; 3]> = Vec::new();
            let id = |i: usize, j: usize| (j * (nx + 1) + i) as u32;
            for j in 0..ny { for i in 0..nx { ts.push([id(i, j), id(i + 1, j), id(i + 1, j + 1)]); ts.push([id(i, j), id(i + 1, j + 1), id(i, j + 1)]); } }
            let parts = ts.iter().map(|t| { let c = (vs[t[0] as usize].coords + vs[t[1] as usize].coords + vs[t[2] as usize].coords) / 3.0; (Point::from(c), 0.0) }).collect();
            (Sh::TriMesh(0, vs, ts), parts, az)
        } else {
            let n = 5 + r.below(8) as usize;
            let rows = if n >= 8 && r.bool() { 2 } else { 1 };
            let sp = if lat { *r.pick(&[2.0, 2.5, 3.0]) } else { r.uniform(1.8, 3.2) };
            let x0 = if lat { q4(r, 8) } else { r.uniform(-2.0, 2.0) } - sp * (n / rows) as f64 * 0.5;
            let mut ps = Vec::new(); let mut info = Vec::new();
            for k in 0..n {
                let (i, j) = (k / rows, k % rows);
                let jit = |r: &mut Rng| if lat { q4(r, 1) } else { r.uniform(-0.3, 0.3) };
                let c = unit3(ax, x0 + sp * i as f64 + jit(r)) + unit3(ay, sp * j as f64 + jit(r)) + unit3(3 - ax - ay, jit(r));
                let q = if lat { c03::exact_quat(r) } else if r.bool() { [0.0, 0.0, 0.0, 1.0] } else { d3::gen_quat(r, false) };
                let s = part3(r, lat);
                info.push((Point::from(c), c03::size(&s)));
                ps.push((c03::iso_of(q, c), s));
            }
            // shuffle the part order (the BVH must not depend on it, the generator should not rely on it)
            for i in (1..ps.len()).rev() { let j = r.below(i as u64 + 1) as usize; ps.swap(i, j); info.swap(i, j); }
            (Sh::Compound(ps), info, ax)
        }
    }
    /// the other shape: a bar / capsule elongated along `ax`, or a ball; returns the shape and its half-length along `ax`
    fn other3(r: &mut Rng, lat: bool, ax: usize) -> (Sh, f64) {
        let l = if lat { *r.pick(&[0.5, 0.75, 1.5, 2.5]) } else { r.uniform(0.3, 3.0) };
        let w = if lat { *r.pick(&[0.25, 0.5, 0.75]) } else { r.uniform(0.2, 0.8) };
        match r.below(5) {
            0 => (Sh::Ball(w), w),
            1 => (Sh::Capsule(Point::from(unit3(ax, -l)), Point::from(unit3(ax, l)), w), l + w),
            _ => { let mut he = Vector::new(w, w, w); he[ax] = l; (Sh::Cuboid(he), l) }
        }
    }
    /// (composite, its pose, other shape, its pose)
    pub fn comp_case3(r: &mut Rng, lat: bool) -> (Sh, Isometry<Real>, Sh, Isometry<Real>) {
        let (comp, info, ax0) = many3(r, lat);
        let mesh = matches!(comp, Sh::TriMesh(..));
        // approach axis: the layout axis in most cases (the neighbours compete), any axis otherwise
        let ax = if r.below(4) == 0 { r.below(3) as usize } else { ax0 };
        let (other, half) = other3(r, lat, if mesh { (ax0 + 1) % 3 } else { ax });
        let (c, rad) = *r.pick(&info);
        let sg = if r.bool() { 1.0 } else { -1.0 };
        let gap = if lat { *r.pick(&[-0.5, -0.25, 0.0625, 0.125, 0.25, 0.5, 1.0]) } else if r.below(3) == 0 { -r.uniform(0.05, 0.6) } else { r.logu(0.02, 1.5) };
        // extent of the chosen part along the approach axis (support of the real shape for compounds, 0 for a triangle)
        let ext = if let Sh::Compound(ps) = &comp {
            let k = info.iter().position(|x| x.0 == c).unwrap();
            let g = c03::dynsh(&ps[k].1);
            g.as_support_map().map(|m| m.support_point(&c03::iso_of([ps[k].0.rotation.i, ps[k].0.rotation.j, ps[k].0.rotation.k, ps[k].0.rotation.w], Vector::zeros()), &unit3(ax, sg)).coords[ax] * sg).unwrap_or(rad)
        } else { 0.0 };
        let oh = if mesh { match &other { Sh::Ball(w) => *w, Sh::Capsule(_, _, w) => *w, Sh::Cuboid(he) => he[ax], _ => 0.0 } } else if ax == ax0 || matches!(other, Sh::Ball(_)) { half } else { match &other { Sh::Capsule(_, _, w) => *w, Sh::Cuboid(he) => he[ax], _ => half } };
        let jit = |r: &mut Rng| if lat { q4(r, 1) * 0.5 } else { r.uniform(-0.2, 0.2) };
        let mut lc = c.coords + unit3(ax, sg * (ext + gap + oh));
        for k in 0..3 { if k != ax { lc[k] += jit(r); } }
        let orot = if r.below(4) != 0 { [0.0, 0.0, 0.0, 1.0] } else if lat { c03::exact_quat(r) } else { d3::gen_quat(r, false) };
        let ts = if r.below(4) == 0 { 500.0 } else { 20.0 };
        let p1 = if lat && r.bool() { c03::iso_of(c03::exact_quat(r), Vector::new(q4(r, 40), q4(r, 40), q4(r, 40))) } else { d3::gen_iso(r, lat, ts) };
        let p2 = p1 * c03::iso_of(orot, lc);
        (comp, p1, other, p2)
    }

    // ------------------------------------------------------------ composites with many parts (2-D)
    fn part2(r: &mut Rng, lat: bool) -> t2::Sh {
        let e = |r: &mut Rng| if lat { *r.pick(&[0.25, 0.5, 0.75]) } else { r.uniform(0.2, 0.8) };
        match r.below(4) {
            0 => t2::Sh::Ball(e(r)),
            1 | 2 => t2::Sh::Cuboid(Vec2::new(e(r), e(r))),
            _ => { let h = e(r); let mut a = Vec2::zeros(); a[r.below(2) as usize] = h; t2::Sh::Capsule(Pt2::from(-a), Pt2::from(a), e(r).min(0.5)) }
        }
    }
    fn unit2(i: usize, s: f64) -> Vec2 { let mut v = Vec2::zeros(); v[i] = s; v }
    fn size2(s: &t2::Sh) -> f64 { match s { t2::Sh::Ball(r) => *r, t2::Sh::Cuboid(h) => h.norm(), t2::Sh::Capsule(p, q, r) => p.coords.norm().max(q.coords.norm()) + r, _ => 0.0 } }
    pub fn many2(r: &mut Rng, lat: bool) -> (t2::Sh, Vec<(Pt2, f64)>, usize) {
        let ax = r.below(2) as usize; let ay = 1 - ax;
        if r.below(3) == 0 {
            // Polyline chain with 6..=12 vertices advancing along `ax`
            let n = 6 + r.below(7) as usize;
            let dx = if lat { *r.pick(&[1.0, 1.5, 2.0]) } else { r.uniform(0.8, 2.0) };
            let x0 = if lat { q4(r, 8) } else { r.uniform(-2.0, 2.0) } - dx * n as f64 * 0.5;
            let vs: Vec<Pt2> = (0..n).map(|i| { let h = if lat { q4(r, 3) } else { r.uniform(-0.8, 0.8) }; Pt2::from(unit2(ax, x0 + dx * i as f64) + unit2(ay, h)) }).collect();
            let info = (0..n - 1).map(|i| (d2::na::center(&vs[i], &vs[i + 1]), 0.0)).collect();
            (t2::Sh::Polyline(vs), info, ay)
        } else {
            let n = 5 + r.below(8) as usize;
            let rows = if n >= 8 && r.bool() { 2 } else { 1 };
            let sp = if lat { *r.pick(&[2.0, 2.5, 3.0]) } else { r.uniform(1.8, 3.2) };
            let x0 = if lat { q4(r, 8) } else { r.uniform(-2.0, 2.0) } - sp * (n / rows) as f64 * 0.5;
            let mut ps = Vec::new(); let mut info = Vec::new();
            for k in 0..n {
                let (i, j) = (k / rows, k % rows);
                let jit = |r: &mut Rng| if lat { q4(r, 1) } else { r.uniform(-0.3, 0.3) };
                let c = unit2(ax, x0 + sp * i as f64 + jit(r)) + unit2(ay, sp * j as f64 + jit(r));
                let rot = if lat { exact_rot2(r) } else if r.bool() { (1.0, 0.0) } else { d2::gen_rot(r, false) };
                let s = part2(r, lat);
                info.push((Pt2::from(c), size2(&s)));
                ps.push((iso2_of(rot, c), s));
            }
            for i in (1..ps.len()).rev() { let j = r.below(i as u64 + 1) as usize; ps.swap(i, j); info.swap(i, j); }
            (t2::Sh::Compound(ps), info, ax)
        }
    }
    pub fn comp_case2(r: &mut Rng, lat: bool) -> (t2::Sh, Iso2, t2::Sh, Iso2) {
        let (comp, info, ax0) = many2(r, lat);
        let line = matches!(comp, t2::Sh::Polyline(..));
        let ax = if r.below(4) == 0 { r.below(2) as usize } else { ax0 };
        let l = if lat { *r.pick(&[0.5, 0.75, 1.5, 2.5]) } else { r.uniform(0.3, 3.0) };
        let w = if lat { *r.pick(&[0.25, 0.5, 0.75]) } else { r.uniform(0.2, 0.8) };
        let lax = if line { 1 - ax0 } else { ax };   // elongation axis of the other shape
        let other = match r.below(5) {
            0 => t2::Sh::Ball(w),
            1 => t2::Sh::Capsule(Pt2::from(unit2(lax, -l)), Pt2::from(unit2(lax, l)), w),
            _ => { let mut he = Vec2::new(w, w); he[lax] = l; t2::Sh::Cuboid(he) }
        };
        let oh = match &other { t2::Sh::Ball(w) => *w, t2::Sh::Capsule(_, _, w) => if lax == ax { l + *w } else { *w }, t2::Sh::Cuboid(he) => he[ax], _ => 0.0 };
        let (c, rad) = *r.pick(&info);
        let sg = if r.bool() { 1.0 } else { -1.0 };
        let gap = if lat { *r.pick(&[-0.5, -0.25, 0.0625, 0.125, 0.25, 0.5, 1.0]) } else if r.below(3) == 0 { -r.uniform(0.05, 0.6) } else { r.logu(0.02, 1.5) };
        let ext = if let t2::Sh::Compound(ps) = &comp {
            let k = info.iter().position(|x| x.0 == c).unwrap();
            let g = t2::dynsh(&ps[k].1);
            g.as_support_map().map(|m| m.support_point(&iso2_of((ps[k].0.rotation.re, ps[k].0.rotation.im), Vec2::zeros()), &unit2(ax, sg)).coords[ax] * sg).unwrap_or(rad)
        } else { 0.0 };
        let mut lc = c.coords + unit2(ax, sg * (ext + gap + oh));
        lc[1 - ax] += if lat { q4(r, 1) * 0.5 } else { r.uniform(-0.2, 0.2) };
        let orot = if r.below(4) != 0 { (1.0, 0.0) } else if lat { exact_rot2(r) } else { d2::gen_rot(r, false) };
        let ts = if r.below(4) == 0 { 500.0 } else { 20.0 };
        let p1 = if lat && r.bool() { iso2_of(exact_rot2(r), Vec2::new(q4(r, 40), q4(r, 40))) } else { d2::gen_iso(r, lat, ts) };
        let p2 = p1 * iso2_of(orot, lc);
        (comp, p1, other, p2)
    }

    pub fn gen(r: &mut Rng, lat: bool, v: &mut Vec<(String, String)>) {
        let par = |r: &mut Rng| { let p = c03::gen_param(r, lat); if r.bool() { p.max(1.0) } else { p } };
        // ---- 3-D composites
        {
            let (comp, p1, other, p2) = comp_case3(r, lat);
            let (margin, pred) = (par(r), par(r));
            v.push(("v_comp".into(), format!("{} {} {} {} {} {}", c03::hsh(&comp), d3::hiso(&p1), c03::hsh(&other), d3::hiso(&p2), hx(margin), hx(pred))));
        }
        // ---- 2-D composites
        for _ in 0..2 {
            let (comp, p1, other, p2) = comp_case2(r, lat);
            let (margin, pred) = (par(r), par(r));
            v.push(("v2_comp".into(), format!("{} {} {} {} {} {}", t2::hsh(&comp), d2::hiso(&p1), t2::hsh(&other), d2::hiso(&p2), hx(margin), hx(pred))));
        }
        // ---- convex pairs, GJK ending on a lower-dimensional simplex: local frame (exact), then under a world pose
        if let Some((s1, s2, rel, _)) = gjk_simplex2(r, lat) {
            let p1 = match r.below(3) { 0 => Iso2::identity(), 1 => iso2_of(exact_rot2(r), Vec2::new(q4(r, 40), q4(r, 40))), _ => d2::gen_iso(r, lat, 50.0) };
            let p2 = p1 * rel;
            let (a, bb) = if r.bool() { ((s1, p1), (s2, p2)) } else { ((s2, p2), (s1, p1)) };
            v.push(("e2_contact".into(), format!("{} {} {} {} {}", t2::hsh(&a.0), d2::hiso(&a.1), t2::hsh(&bb.0), d2::hiso(&bb.1), hx(par(r)))));
        }
        if let Some((s1, s2, rel, _)) = gjk_simplex3(r, lat) {
            let p1 = match r.below(3) { 0 => Isometry::identity(), 1 => c03::iso_of(c03::exact_quat(r), Vector::new(q4(r, 40), q4(r, 40), q4(r, 40))), _ => d3::gen_iso(r, lat, 50.0) };
            let p2 = p1 * rel;
            let (a, bb) = if r.bool() { ((s1, p1), (s2, p2)) } else { ((s2, p2), (s1, p1)) };
            v.push(("e_contact".into(), format!("{} {} {} {} {}", c03::hsh(&a.0), d3::hiso(&a.1), c03::hsh(&bb.0), d3::hiso(&bb.1), hx(par(r)))));
        }
        // ---- rectangles with parallel axes (closed-form model): translation along a diagonal of the sum box (GJK ends on
        //      a segment), inside a symmetry axis, generic; overlapping / apart; local frame and under a world pose
        {
            let e = |r: &mut Rng| if lat { dy(r) } else { r.uniform(0.2, 2.0) };
            let (he1, he2) = (Vec2::new(e(r), e(r)), Vec2::new(e(r), e(r)));
            let hs = he1 + he2;
            let f = |r: &mut Rng| if lat { *r.pick(&[-1.5, -0.75, -0.5, -0.25, 0.0, 0.25, 0.5, 0.75, 1.5]) } else { r.uniform(-1.6, 1.6) };
            let fam = r.below(4);
            let t = match fam { 0 => { let k = f(r); Vec2::new(hs.x * k, hs.y * k * if r.bool() { 1.0 } else { -1.0 }) }
                                1 => if r.bool() { Vec2::new(hs.x * f(r), 0.0) } else { Vec2::new(0.0, hs.y * f(r)) },
                                _ => Vec2::new(hs.x * f(r), hs.y * f(r)) };
            // the diagonal family is posed exactly only: under an inexact world pose the origin ends within rounding of GJK's
            // segment and the known absolute-tolerance finding (see e2_contact) would show up as a model disagreement
            let p1 = match r.below(if fam == 0 { if lat { 2 } else { 1 } } else { 3 }) { 0 => Iso2::identity(), 1 => iso2_of(exact_rot2(r), Vec2::new(q4(r, 40), q4(r, 40))), _ => d2::gen_iso(r, lat, 50.0) };
            v.push(("rect2_dist".into(), format!("{} {} {} {}", d2::hv(&he1), d2::hv(&he2), d2::hv(&t), d2::hiso(&p1))));
        }
        // ---- generic convex pairs at a chosen signed gap
        {
            let (s1, p1, s2, p2) = near_pair2(r, lat);
            v.push(("e2_contact".into(), format!("{} {} {} {} {}", t2::hsh(&s1), d2::hiso(&p1), t2::hsh(&s2), d2::hiso(&p2), hx(par(r)))));
            let all: [u8; 5] = [0, 1, 3, 4, 5];
            let (s1, s2) = (c03::gen_shape(r, lat, &all), c03::gen_shape(r, lat, &all));
            let (p1, p2, _) = c03::gen_poses(r, lat, &s1, &s2);
            v.push(("e_contact".into(), format!("{} {} {} {} {}", c03::hsh(&s1), d3::hiso(&p1), c03::hsh(&s2), d3::hiso(&p2), hx(par(r)))));
        }
    }
}

// ================================================================== follow-up 4: the 2-D EPA run directly
/// `epa2`: `EPA::closest_points(pos12, g1, g2, simplex)` of parry2d on a given start simplex.
/// args: kind1 a1 b1 kind2 a2 b2 pos12 n (orig1 orig2){n}   (kind 0 = Cuboid(half extents a, b), 1 = Ball(radius a))
/// Families: `gjk` (the simplex on which the library's own GJK stopped with `Intersection`: what `contact()` feeds to EPA;
/// dimension 0, 1 or 2), `dirs` (CSO points of 2 or 3 chosen support directions: triangles of any orientation and shape around
/// or beside the origin, segments through or beside it), lattice (ties in the heap, faces at equal distance, parallel axes) and random.
pub mod fu4 {
    use crate::util::*;
    use crate::p2::query::gjk::{self as gjk2, CSOPoint as Cso2, GJKResult as Res2, VoronoiSimplex as Vs2};
    use crate::p2::query::epa::EPA;
    use crate::p2::shape::{Ball, Cuboid, SupportMap};
    type Iso2 = d2::Isometry<Real2>; type Vec2 = d2::Vector<Real2>; type Real2 = f64;

    pub fn shape(kind: usize, a: f64, b: f64) -> Box<dyn SupportMap> {
        if kind == 0 { Box::new(Cuboid::new(Vec2::new(a, b))) } else { Box::new(Ball::new(a)) }
    }
    pub fn exec_epa2(a: &mut Args) -> String {
        let (k1, a1, b1) = (a.u(), a.f(), a.f()); let (k2, a2, b2) = (a.u(), a.f(), a.f());
        let pos12 = d2::iso(a); let n = a.u();
        let (g1, g2) = (shape(k1, a1, b1), shape(k2, a2, b2));
        let mut sx = Vs2::new();
        for i in 0..n {
            let o1 = d2::p(a); let o2 = d2::p(a);
            let pt = Cso2::new(o1, o2);
            if i == 0 { sx.reset(pt); } else if !sx.add_point(pt) { return "degenerate-simplex".into(); }
        }
        let mut epa = EPA::new();
        match epa.closest_points(&pos12, &*g1, &*g2, &sx) {
            None => "none".into(),
            Some((p1, p2, nn)) => format!("{} {} {}", d2::fp(&p1), d2::fp(&p2), d2::fv(&nn)),
        }
    }
    /// `epa2c`: the real `contact_support_map_support_map(pos12, g1, g2, 1.0)` (its own GJK + EPA + assembly); the trailing
    /// simplex arguments are what the library's GJK ends on for these shapes (recorded by the generator) and are read by the model only
    pub fn exec_epa2c(a: &mut Args) -> String {
        let (k1, a1, b1) = (a.u(), a.f(), a.f()); let (k2, a2, b2) = (a.u(), a.f(), a.f());
        let pos12 = d2::iso(a);
        let (g1, g2) = (shape(k1, a1, b1), shape(k2, a2, b2));
        let c = crate::p2::query::details::contact_support_map_support_map(&pos12, &*g1, &*g2, 1.0);
        super::c03::two::fcontact(&c)
    }
    // ---- 3-D
    use crate::p3::query::gjk::{self as gjk3, CSOPoint as Cso3, GJKResult as Res3, VoronoiSimplex as Vs3};
    pub fn shape3(kind: usize, a: f64, b: f64, c: f64) -> Box<dyn crate::p3::shape::SupportMap> {
        if kind == 0 { Box::new(crate::p3::shape::Cuboid::new(d3::Vector::new(a, b, c))) } else { Box::new(crate::p3::shape::Ball::new(a)) }
    }
    /// `epa3`: `EPA::closest_points` of parry3d on a given start simplex.
    /// args: kind1 a1 b1 c1 kind2 a2 b2 c2 pos12 n (orig1 orig2){n}
    pub fn exec_epa3(a: &mut Args) -> String {
        let (k1, a1, b1, c1) = (a.u(), a.f(), a.f(), a.f()); let (k2, a2, b2, c2) = (a.u(), a.f(), a.f(), a.f());
        let pos12 = d3::iso(a); let n = a.u();
        let (g1, g2) = (shape3(k1, a1, b1, c1), shape3(k2, a2, b2, c2));
        let mut sx = Vs3::new();
        for i in 0..n {
            let o1 = d3::p(a); let o2 = d3::p(a);
            let pt = Cso3::new(o1, o2);
            if i == 0 { sx.reset(pt); } else if !sx.add_point(pt) { return "degenerate-simplex".into(); }
        }
        let mut epa = crate::p3::query::epa::EPA::new();
        match epa.closest_points(&pos12, &*g1, &*g2, &sx) {
            None => "none".into(),
            Some((p1, p2, nn)) => format!("{} {} {}", d3::fp(&p1), d3::fp(&p2), d3::fv(&nn)),
        }
    }
    /// `epa3c`: the real `contact_support_map_support_map(pos12, g1, g2, 1.0)` of parry3d (own GJK + EPA + assembly); the trailing
    /// simplex arguments (what the library's GJK ends on, recorded by the generator) are read by the model only
    pub fn exec_epa3c(a: &mut Args) -> String {
        let (k1, a1, b1, c1) = (a.u(), a.f(), a.f(), a.f()); let (k2, a2, b2, c2) = (a.u(), a.f(), a.f(), a.f());
        let pos12 = d3::iso(a);
        let (g1, g2) = (shape3(k1, a1, b1, c1), shape3(k2, a2, b2, c2));
        let c = crate::p3::query::details::contact_support_map_support_map(&pos12, &*g1, &*g2, 1.0);
        super::c03::fcontact(&c)
    }
    pub fn gen3(r: &mut Rng, thorough: bool, v: &mut Vec<(String, String)>) {
        let n = if thorough { 6000 } else { 600 };
        let mut fam = [0usize; 4];
        for it in 0..n {
            let lat = it % 2 == 0;
            let (k1, k2) = match r.below(6) { 0 => (0, 1), 1 => (1, 0), 2 => (1, 1), _ => (0, 0) };
            let he = |r: &mut Rng| if lat { *r.pick(&[0.25, 0.5, 1.0, 1.5, 2.0, 3.0]) } else { r.logu(0.05, 20.0) };
            let (a1, b1, c1, a2, b2, c2) = (he(r), he(r), he(r), he(r), he(r), he(r));
            let (g1, g2) = (shape3(k1, a1, b1, c1), shape3(k2, a2, b2, c2));
            let ext = |k: usize, a: f64, b: f64, c: f64| if k == 0 { d3::Vector::new(a, b, c) } else { d3::Vector::new(a, a, a) };
            let hs = ext(k1, a1, b1, c1) + ext(k2, a2, b2, c2);
            let f = |r: &mut Rng| if lat { *r.pick(&[-0.75, -0.5, -0.25, 0.0, 0.0, 0.25, 0.5, 0.75, 1.0]) } else { r.uniform(-1.0, 1.0) };
            let t = d3::Vector::new(hs.x * f(r), hs.y * f(r), hs.z * f(r));
            let mut pos12 = d3::gen_iso(r, lat, 1.0);
            if lat && r.below(3) != 0 { pos12 = d3::Isometry::identity(); }
            pos12.translation.vector = t;
            let sh = format!("{} {} {} {} {} {} {} {}", k1, hx(a1), hx(b1), hx(c1), k2, hx(a2), hx(b2), hx(c2));
            let dir = d3::na::Unit::try_new(pos12.translation.vector, f64::EPSILON).unwrap_or(d3::Vector::x_axis());
            let mut sx = Vs3::new();
            sx.reset(Cso3::from_shapes(&pos12, &*g1, &*g2, &dir));
            if let Res3::Intersection = gjk3::closest_points(&pos12, &*g1, &*g2, 1.0, true, &mut sx) {
                let pts: Vec<Cso3> = (0..sx.dimension() + 1).map(|i| *sx.point(i)).collect();
                let mut chk = Vs3::new(); let mut ok = true;
                for (i, p) in pts.iter().enumerate() { if i == 0 { chk.reset(*p); } else if !chk.add_point(*p) { ok = false; } }
                if !ok { continue; }
                fam[sx.dimension()] += 1;
                let mut s = format!("{} {} {}", sh, d3::hiso(&pos12), pts.len());
                for p in &pts { s += &format!(" {} {}", d3::hp(&p.orig1), d3::hp(&p.orig2)); }
                v.push(("epa3".into(), s.clone()));
                v.push(("epa3c".into(), s));
            }
        }
        if std::env::var("VERIF_DBG").is_ok() { eprintln!("C02 epa3 families: gjk-dim0={} dim1={} dim2={} dim3={}", fam[0], fam[1], fam[2], fam[3]); }
    }
    fn emit(v: &mut Vec<(String, String)>, sh: &str, pos12: &Iso2, pts: &[Cso2]) {
        let mut sx = Vs2::new();
        for (i, p) in pts.iter().enumerate() { if i == 0 { sx.reset(*p); } else if !sx.add_point(*p) { return; } }
        let mut s = format!("{} {} {}", sh, d2::hiso(pos12), pts.len());
        for p in pts { s += &format!(" {} {}", d2::hp(&p.orig1), d2::hp(&p.orig2)); }
        v.push(("epa2".into(), s));
    }
    pub fn gen(r: &mut Rng, thorough: bool, v: &mut Vec<(String, String)>) {
        let n = if thorough { 6000 } else { 600 };
        let mut fam = [0usize; 4];
        for it in 0..n {
            let lat = it % 2 == 0;
            let (k1, k2) = match r.below(6) { 0 => (0, 1), 1 => (1, 0), 2 => (1, 1), _ => (0, 0) };
            let he = |r: &mut Rng| if lat { *r.pick(&[0.25, 0.5, 1.0, 1.5, 2.0, 3.0]) } else { r.logu(0.05, 20.0) };
            let (a1, b1, a2, b2) = (he(r), he(r), he(r), he(r));
            let (g1, g2) = (shape(k1, a1, b1), shape(k2, a2, b2));
            let ext = |k: usize, a: f64, b: f64| if k == 0 { Vec2::new(a, b) } else { Vec2::new(a, a) };
            let hs = ext(k1, a1, b1) + ext(k2, a2, b2);
            // relative translation: overlapping by a chosen fraction (deep .. grazing), sometimes exactly centred / on an axis
            let f = |r: &mut Rng| if lat { *r.pick(&[-0.75, -0.5, -0.25, 0.0, 0.0, 0.25, 0.5, 0.75, 1.0]) } else { r.uniform(-1.0, 1.0) };
            let t = Vec2::new(hs.x * f(r), hs.y * f(r));
            let rot = if lat && r.below(3) != 0 { *r.pick(&[(1.0, 0.0), (0.0, 1.0), (-1.0, 0.0), (0.0, -1.0)]) } else { d2::gen_rot(r, lat) };
            let pos12 = Iso2::from_parts(d2::na::Translation2::from(t), d2::na::Unit::new_unchecked(d2::na::Complex::new(rot.0, rot.1)));
            let sh = format!("{} {} {} {} {} {}", k1, hx(a1), hx(b1), k2, hx(a2), hx(b2));
            // family `gjk`: the library's own start simplex
            {
                let dir = d2::na::Unit::try_new(pos12.translation.vector, f64::EPSILON).unwrap_or(Vec2::x_axis());
                let mut sx = Vs2::new();
                sx.reset(Cso2::from_shapes(&pos12, &*g1, &*g2, &dir));
                if let Res2::Intersection = gjk2::closest_points(&pos12, &*g1, &*g2, 1.0, true, &mut sx) {
                    let pts: Vec<Cso2> = (0..sx.dimension() + 1).map(|i| *sx.point(i)).collect();
                    fam[sx.dimension()] += 1;
                    let before = v.len();
                    emit(v, &sh, &pos12, &pts);
                    if v.len() > before { let args = v[before].1.clone(); v.push(("epa2c".into(), args)); }
                }
            }
            // family `dirs`: CSO points of chosen directions
            {
                let k = if r.below(4) == 0 { 2 } else { 3 };
                let a0 = if lat { (r.below(8) as f64) * std::f64::consts::FRAC_PI_4 } else { r.uniform(0.0, 6.3) };
                let mut pts = Vec::new();
                for j in 0..k {
                    let ang = a0 + (j as f64) * (if k == 3 { 2.0943951023931953 } else { 3.141592653589793 }) + if lat { 0.0 } else { r.uniform(-0.7, 0.7) };
                    let d = if lat { let (c, s) = (ang.cos().round(), ang.sin().round()); Vec2::new(c, s) } else { Vec2::new(ang.cos(), ang.sin()) };
                    if d.norm() == 0.0 { continue; }
                    pts.push(Cso2::from_shapes(&pos12, &*g1, &*g2, &d));
                }
                if pts.len() >= 2 { fam[3] += 1; emit(v, &sh, &pos12, &pts); }
            }
        }
        if std::env::var("VERIF_DBG").is_ok() { eprintln!("C02 epa2 families: gjk-dim0={} gjk-dim1={} gjk-dim2={} dirs={}", fam[0], fam[1], fam[2], fam[3]); }
    }
}

// ================================================================== follow-up 5: the complete contact_support_map_support_map
/// `csm2` / `csm3`: the real `details::contact_support_map_support_map(pos12, g1, g2, prediction)` of parry2d / parry3d on
/// Cuboid / Ball support maps; nothing but the shapes, `pos12` and `prediction` is an input (the model runs its own GJK, then EPA).
/// args: k1 a1 b1 [c1] k2 a2 b2 [c2] pos12 prediction
/// Families (VERIF_DBG=1 prints the distribution by outcome): `mix` (relative translation = a fraction in [-1.6, 1.6] of the sum
/// box: deep overlap .. grazing .. apart), `gap` (exact rotations, a chosen signed gap along one axis of the sum box: 0, the
/// prediction itself, just below / above it, small overlaps), `far` (several sizes apart), predictions 0 .. 10.
pub mod fu5 {
    use crate::util::*;
    use super::fu4::{shape, shape3};
    type Iso2 = d2::Isometry<f64>; type Vec2 = d2::Vector<f64>;

    pub fn exec_csm2(a: &mut Args) -> String {
        let (k1, a1, b1) = (a.u(), a.f(), a.f()); let (k2, a2, b2) = (a.u(), a.f(), a.f());
        let pos12 = d2::iso(a); let pred = a.f();
        let (g1, g2) = (shape(k1, a1, b1), shape(k2, a2, b2));
        let c = crate::p2::query::details::contact_support_map_support_map(&pos12, &*g1, &*g2, pred);
        super::c03::two::fcontact(&c)
    }
    pub fn exec_csm3(a: &mut Args) -> String {
        let (k1, a1, b1, c1) = (a.u(), a.f(), a.f(), a.f()); let (k2, a2, b2, c2) = (a.u(), a.f(), a.f(), a.f());
        let pos12 = d3::iso(a); let pred = a.f();
        let (g1, g2) = (shape3(k1, a1, b1, c1), shape3(k2, a2, b2, c2));
        let c = crate::p3::query::details::contact_support_map_support_map(&pos12, &*g1, &*g2, pred);
        super::c03::fcontact(&c)
    }
    fn kinds(r: &mut Rng) -> (usize, usize) { match r.below(6) { 0 => (0, 1), 1 => (1, 0), 2 => (1, 1), _ => (0, 0) } }
    fn pred_of(r: &mut Rng, lat: bool) -> f64 { if lat { *r.pick(&[0.0, 0.0, 0.125, 0.5, 1.0, 2.0, 10.0]) } else { *r.pick(&[0.0, 0.01, 0.3, 1.0, 7.5]) } }
    fn gap_of(r: &mut Rng, pred: f64) -> f64 { *r.pick(&[0.0, 0.0, pred, pred - 0.0625, pred + 0.0625, 0.125, 0.25, -0.0625, -0.125, -0.5, 2.0 * pred + 1.0]) }

    pub fn gen2(r: &mut Rng, thorough: bool, v: &mut Vec<(String, String)>) {
        let n = if thorough { 7000 } else { 700 };
        let mut fam = [[0usize; 3]; 3];
        for it in 0..n {
            let lat = it % 2 == 0;
            let (k1, k2) = kinds(r);
            let he = |r: &mut Rng| if lat { *r.pick(&[0.25, 0.5, 1.0, 1.5, 2.0, 3.0]) } else { r.logu(0.05, 20.0) };
            let (a1, b1, a2, b2) = (he(r), he(r), he(r), he(r));
            let ext = |k: usize, a: f64, b: f64| if k == 0 { Vec2::new(a, b) } else { Vec2::new(a, a) };
            let pred = pred_of(r, lat);
            let f = it % 3;
            let exact = f == 1 || (lat && r.below(3) != 0);
            let rot = if exact { *r.pick(&[(1.0, 0.0), (0.0, 1.0), (-1.0, 0.0), (0.0, -1.0)]) } else { d2::gen_rot(r, lat) };
            // extents of shape 2 seen from frame 1 (exact for the exact rotations; an estimate otherwise)
            let e2 = ext(k2, a2, b2); let e2 = Vec2::new((rot.0 * e2.x).abs() + (rot.1 * e2.y).abs(), (rot.1 * e2.x).abs() + (rot.0 * e2.y).abs());
            let hs = ext(k1, a1, b1) + e2;
            let t = match f {
                0 => { let g = |r: &mut Rng| if lat { *r.pick(&[-1.5, -1.25, -1.0, -0.75, -0.5, -0.25, 0.0, 0.0, 0.25, 0.5, 0.75, 1.0, 1.25, 1.5]) } else { r.uniform(-1.6, 1.6) };
                       Vec2::new(hs.x * g(r), hs.y * g(r)) }
                1 => { let ax = r.below(2) as usize; let s = if r.bool() { 1.0 } else { -1.0 };
                       let mut t = Vec2::zeros();
                       if k1 == 1 && k2 == 1 { let d = if lat { *r.pick(&[Vec2::new(1.0, 0.0), Vec2::new(0.0, -1.0), Vec2::new(0.6, 0.8), Vec2::new(-0.8, 0.6)]) } else { let a = r.uniform(0.0, 6.3); Vec2::new(a.cos(), a.sin()) };
                           t = d * (a1 + a2 + gap_of(r, pred)); }
                       else { t[ax] = s * (hs[ax] + gap_of(r, pred));
                              // the other coordinate: inside the face-face range when both are boxes (so that the gap IS the separation), anywhere for a ball
                              let o = 1 - ax; let m = if k1 == 0 && k2 == 0 { hs[o] } else if k1 == 0 { ext(k1, a1, b1)[o] } else { e2[o] };
                              t[o] = m * if lat { *r.pick(&[-1.0, -0.5, 0.0, 0.0, 0.25, 1.0]) } else { r.uniform(-1.0, 1.0) }; }
                       t }
                _ => { let a = r.uniform(0.0, 6.3); Vec2::new(a.cos(), a.sin()) * (hs.norm() * if lat { *r.pick(&[1.0, 1.5, 4.0]) } else { r.uniform(0.9, 5.0) }) }
            };
            let pos12 = Iso2::from_parts(d2::na::Translation2::from(t), d2::na::Unit::new_unchecked(d2::na::Complex::new(rot.0, rot.1)));
            let (g1, g2) = (shape(k1, a1, b1), shape(k2, a2, b2));
            let c = crate::p2::query::details::contact_support_map_support_map(&pos12, &*g1, &*g2, pred);
            fam[f][match c { None => 0, Some(c) if c.dist > 0.0 => 1, _ => 2 }] += 1;
            v.push(("csm2".into(), format!("{} {} {} {} {} {} {} {}", k1, hx(a1), hx(b1), k2, hx(a2), hx(b2), d2::hiso(&pos12), hx(pred))));
        }
        if std::env::var("VERIF_DBG").is_ok() { eprintln!("C02 csm2 families [none, separated, penetrating]: mix={:?} gap={:?} far={:?}", fam[0], fam[1], fam[2]); }
    }

    pub fn gen3(r: &mut Rng, thorough: bool, v: &mut Vec<(String, String)>) {
        let n = if thorough { 7000 } else { 700 };
        let mut fam = [[0usize; 3]; 3];
        for it in 0..n {
            let lat = it % 2 == 0;
            let (k1, k2) = kinds(r);
            let he = |r: &mut Rng| if lat { *r.pick(&[0.25, 0.5, 1.0, 1.5, 2.0, 3.0]) } else { r.logu(0.05, 20.0) };
            let (a1, b1, c1, a2, b2, c2) = (he(r), he(r), he(r), he(r), he(r), he(r));
            let ext = |k: usize, a: f64, b: f64, c: f64| if k == 0 { d3::Vector::new(a, b, c) } else { d3::Vector::new(a, a, a) };
            let pred = pred_of(r, lat);
            let f = it % 3;
            let exact = f == 1 || (lat && r.below(3) != 0);
            let mut pos12 = if exact { super::c03::iso_of(super::c03::exact_quat(r), d3::Vector::zeros()) } else { d3::gen_iso(r, lat, 1.0) };
            let rm = pos12.rotation.to_rotation_matrix(); let e2l = ext(k2, a2, b2, c2);
            let e2 = if k2 == 0 { rm.matrix().abs() * e2l } else { e2l };
            let e1 = ext(k1, a1, b1, c1);
            let hs = e1 + e2;
            let t = match f {
                0 => { let g = |r: &mut Rng| if lat { *r.pick(&[-1.5, -1.25, -1.0, -0.75, -0.5, -0.25, 0.0, 0.0, 0.25, 0.5, 0.75, 1.0, 1.25, 1.5]) } else { r.uniform(-1.6, 1.6) };
                       d3::Vector::new(hs.x * g(r), hs.y * g(r), hs.z * g(r)) }
                1 => { let ax = r.below(3) as usize; let s = if r.bool() { 1.0 } else { -1.0 };
                       let mut t = d3::Vector::zeros();
                       if k1 == 1 && k2 == 1 { let d = if lat { *r.pick(&[d3::Vector::new(1.0, 0.0, 0.0), d3::Vector::new(0.0, 0.0, -1.0), d3::Vector::new(0.6, 0.0, 0.8), d3::Vector::new(-0.8, 0.6, 0.0)]) } else { d3::Vector::new(r.uniform(-1.0, 1.0), r.uniform(-1.0, 1.0), r.uniform(-1.0, 1.0) + 1.0e-3).normalize() };
                           t = d * (a1 + a2 + gap_of(r, pred)); }
                       else { t[ax] = s * (hs[ax] + gap_of(r, pred));
                              for o in 0..3 { if o != ax {
                                  let m = if k1 == 0 && k2 == 0 { hs[o] } else if k1 == 0 { e1[o] } else { e2[o] };
                                  t[o] = m * if lat { *r.pick(&[-1.0, -0.5, 0.0, 0.0, 0.25, 1.0]) } else { r.uniform(-1.0, 1.0) }; } } }
                       t }
                _ => { let d = d3::Vector::new(r.uniform(-1.0, 1.0), r.uniform(-1.0, 1.0), r.uniform(-1.0, 1.0) + 1.0e-3).normalize();
                       d * (hs.norm() * if lat { *r.pick(&[1.0, 1.5, 4.0]) } else { r.uniform(0.9, 5.0) }) }
            };
            pos12.translation.vector = t;
            let (g1, g2) = (shape3(k1, a1, b1, c1), shape3(k2, a2, b2, c2));
            let c = crate::p3::query::details::contact_support_map_support_map(&pos12, &*g1, &*g2, pred);
            fam[f][match c { None => 0, Some(c) if c.dist > 0.0 => 1, _ => 2 }] += 1;
            v.push(("csm3".into(), format!("{} {} {} {} {} {} {} {} {} {}", k1, hx(a1), hx(b1), hx(c1), k2, hx(a2), hx(b2), hx(c2), d3::hiso(&pos12), hx(pred))));
        }
        if std::env::var("VERIF_DBG").is_ok() { eprintln!("C02 csm3 families [none, separated, penetrating]: mix={:?} gap={:?} far={:?}", fam[0], fam[1], fam[2]); }
    }
}
