//! C02 (closed forms): contacts are self-consistent separating certificates and the four overlap verdicts agree.
//! The closed-form `details::` functions are shared with C03 (same protocol names, same real functions);
//! `v_closed` evaluates the four verdicts on a closed-form pair (bit-exact against the model),
//! `v_dispatch` the four verdicts through the real dispatcher on any supported pair (oracle-only).
use crate::util::*;
use super::c03::{self, Sh};
use crate::p3::query::{self, ClosestPoints};

fn last_float(s: &str) -> f64 { f64::from_bits(u64::from_str_radix(s.split_whitespace().last().unwrap(), 16).unwrap()) }

pub fn exec(func: &str, a: &mut Args) -> String {
    match func {
        "d_contact" | "d_distance" | "d_it" | "d_cp" | "q_contact" | "q_distance" | "q_it" | "q_cp"
        | "w_contact_ball_cp" => c03::exec(func, a),
        "v_closed" => {
            let s1 = c03::sh(a); let s2 = c03::sh(a); let m = d3::iso(a); let margin = a.f(); let pred = a.f();
            let it = c03::d_it(&s1, &s2, &m);
            if it == "noroute" { return it; }
            let d = c03::d_distance(&s1, &s2, &m);
            let cp = c03::d_cp(&s1, &s2, &m, margin);
            if cp == "panic" { return cp; }
            let c = c03::d_contact(&s1, &s2, &m, pred);
            let dz = last_float(&d) == 0.0;
            let cn = c.starts_with("some") && last_float(&c) <= 0.0;
            format!("{} {} {} {}", it, b(dz), b(cp == "intersecting"), b(cn))
        }
        "v_dispatch" => {
            let s1 = c03::sh(a); let p1 = d3::iso(a); let s2 = c03::sh(a); let p2 = d3::iso(a); let margin = a.f(); let pred = a.f();
            let (g1, g2) = (c03::dynsh(&s1), c03::dynsh(&s2));
            let it = match query::intersection_test(&p1, &*g1, &p2, &*g2) { Ok(x) => x, Err(_) => return "unsupported".into() };
            let d = match query::distance(&p1, &*g1, &p2, &*g2) { Ok(x) => x, Err(_) => return "unsupported".into() };
            let cp = match query::closest_points(&p1, &*g1, &p2, &*g2, margin) { Ok(x) => x, Err(_) => return "unsupported".into() };
            let c = match query::contact(&p1, &*g1, &p2, &*g2, pred) { Ok(x) => x, Err(_) => return "unsupported".into() };
            let cn = c.map(|c| c.dist <= 0.0).unwrap_or(false);
            let cd = c.map(|c| c.dist).unwrap_or(f64::NAN);
            format!("{} {} {} {} {} {}", b(it), b(d == 0.0), b(cp == ClosestPoints::Intersecting), b(cn), ff(d), ff(cd))
        }
        _ => "nofn".into(),
    }
}

pub fn gen(r: &mut Rng, thorough: bool) -> Vec<(String, String)> {
    let n = if thorough { 4000 } else { 400 };
    let mut v: Vec<(String, String)> = Vec::new();
    let closed: [u8; 3] = [0, 1, 2];
    let all: [u8; 6] = [0, 1, 2, 3, 4, 5];
    for it in 0..n {
        let lat = it % 2 == 0;
        for _ in 0..3 {
            let (s1, s2) = loop {
                let s1 = c03::gen_shape(r, lat, &closed); let s2 = c03::gen_shape(r, lat, &closed);
                let ok = match (&s1, &s2) { (Sh::Ball(_), Sh::Ball(_)) => true, (Sh::HalfSpace(_), Sh::HalfSpace(_)) => false, (Sh::HalfSpace(_), _) | (_, Sh::HalfSpace(_)) => true, _ => false };
                if ok { break (s1, s2); }
            };
            let (p1, p2, pos12) = c03::gen_poses(r, lat, &s1, &s2);
            let margin = c03::gen_param(r, lat); let pred = c03::gen_param(r, lat);
            let ss = format!("{} {} {}", c03::hsh(&s1), c03::hsh(&s2), d3::hiso(&pos12));
            v.push(("v_closed".into(), format!("{} {} {}", ss, hx(margin), hx(pred))));
            v.push(("d_contact".into(), format!("{} {}", ss, hx(pred))));
            v.push(("d_cp".into(), format!("{} {}", ss, hx(margin))));
            v.push(("d_distance".into(), ss.clone()));
            v.push(("d_it".into(), ss.clone()));
            v.push(("q_contact".into(), format!("{} {} {} {} {}", c03::hsh(&s1), d3::hiso(&p1), c03::hsh(&s2), d3::hiso(&p2), hx(pred))));
        }
        for _ in 0..3 {
            let (s1, s2) = loop {
                let s1 = c03::gen_shape(r, lat, &all); let s2 = c03::gen_shape(r, lat, &all);
                if !matches!((&s1, &s2), (Sh::HalfSpace(_), Sh::HalfSpace(_))) { break (s1, s2); }
            };
            let (p1, p2, _) = c03::gen_poses(r, lat, &s1, &s2);
            let margin = c03::gen_param(r, lat); let pred = c03::gen_param(r, lat);
            v.push(("v_dispatch".into(), format!("{} {} {} {} {} {}", c03::hsh(&s1), d3::hiso(&p1), c03::hsh(&s2), d3::hiso(&p2), hx(margin), hx(pred))));
        }
    }
    v
}
