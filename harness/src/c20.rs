//! C20 (totality): C20's OWN generator of systematically degenerate-but-valid inputs, driven through the public query API.
//! Every case line is `C20 <fn> <class> <args…> | <labelled output>`; floats are printed with `ff` (16 hex digits, `nan`),
//! refusals as `none` / `unsup`, everything else as short labels.  The oracle (lean/ParryModel/C20/Driver.lean) demands that
//! every float of the output is finite and that there is no panic, plus closed-form expectations where they are cheap.
//!
//! Shape encoding (tokens): `ball r` | `cub he(D)` | `cap a(D) b(D) r` | `seg a(D) b(D)` | `tri a(D) b(D) c(D)` | `hs n(D)`
//!   | `hull n p(D)*` | 3-D only: `cyl hh r` | `cone hh r` | `rcub he(3) br`.
//! Functions (suffix 2 / 3 = dimension):
//!   dist cp ct it : `<cls> <s1> <s2> <iso12> <param>`         distance / closest_points(max_dist) / contact(prediction) / intersection_test
//!   cast          : `<cls> <s1> <s2> <iso12> <vel(D)> <max_toi> <target> <stop>`
//!   nl            : `<cls> <s1> <s2> <iso1> <lin1(D)> <ang1> <iso2> <lin2(D)> <ang2> <t1> <stop>`   (ang: 1 float in 2-D, 3 in 3-D)
//!   cm            : `<cls> <s1> <s2> <iso12> <prediction>`    DefaultQueryDispatcher.contact_manifolds, called twice (cold, warm)
//!   ray proj mass bv : single-shape queries;  trim segm : Triangle / Segment methods;  clip / clipn : clip_segment_segment[_with_normal]
use crate::util::*;

macro_rules! common {
    () => {
        use px::query::{self, DefaultQueryDispatcher, PersistentQueryDispatcher, QueryDispatcher, ClosestPoints, ShapeCastOptions, Ray, RayCast, PointQuery, NonlinearRigidMotion};
        use px::shape::{Shape, Ball, Cuboid, Capsule, Segment, Triangle, HalfSpace};
        use px::na::Unit;
        type Man = px::query::ContactManifold<u32, u32>;
        type V = Vector<Real>;

        fn z() -> V { V::zeros() }
        fn henc(v: &V) -> String { hv(v) }

        impl Sh {
            pub fn kind(&self) -> &'static str {
                match self { Sh::Ball(..) => "ball", Sh::Cub(..) => "cub", Sh::Cap(..) => "cap", Sh::Seg(..) => "seg", Sh::Tri(..) => "tri",
                             Sh::Hs(..) => "hs", Sh::Hull(..) => "hull", Sh::Cyl(..) => "cyl", Sh::Cone(..) => "cone", Sh::RCub(..) => "rcub", Sh::Tm(..) => "tm", Sh::Pl(..) => "pl", Sh::Comp(..) => "comp" }
            }
            /// the degenerate class of the shape itself ("" for a regular one); appended to the position class of a case
            pub fn degen(&self) -> &'static str {
                match self {
                    Sh::Seg(a, b) => if a == b { "+seg-zero-length" } else if collinear(&z(), a, b) { "+seg-through-origin" } else { "" },
                    Sh::Cap(a, b, _) => if a == b { "+cap-zero-length" } else { "" },
                    Sh::Tri(a, b, c) => if a == b && b == c { "+tri-point" } else if a == b || b == c || a == c { "+tri-coincident-vertices" }
                                        else if collinear(a, b, c) { "+tri-collinear" } else { "" },
                    Sh::Tm(ps) => if ps.windows(3).any(|w| w[0] == w[1] || w[1] == w[2] || w[0] == w[2]) { "+tm-coincident-vertices" }
                                  else if ps.windows(3).any(|w| collinear(&w[0], &w[1], &w[2])) { "+tm-flat-triangle" } else { "" },
                    Sh::Pl(ps) => if ps.windows(2).any(|w| w[0] == w[1]) { "+pl-zero-length-segment" } else { "" },
                    Sh::Comp(_, _, t) => if *t == z() { "+comp-coincident-parts" } else { "" },
                    _ => "",
                }
            }
            pub fn enc(&self) -> String {
                match self {
                    Sh::Ball(r) => format!("ball {}", hx(*r)),
                    Sh::Cub(h) => format!("cub {}", henc(h)),
                    Sh::Cap(a, b, r) => format!("cap {} {} {}", henc(a), henc(b), hx(*r)),
                    Sh::Seg(a, b) => format!("seg {} {}", henc(a), henc(b)),
                    Sh::Tri(a, b, c) => format!("tri {} {} {}", henc(a), henc(b), henc(c)),
                    Sh::Hs(n) => format!("hs {}", henc(n)),
                    Sh::Hull(ps) => format!("hull {} {}", ps.len(), ps.iter().map(henc).collect::<Vec<_>>().join(" ")),
                    Sh::Cyl(h, r) => format!("cyl {} {}", hx(*h), hx(*r)),
                    Sh::Cone(h, r) => format!("cone {} {}", hx(*h), hx(*r)),
                    Sh::RCub(h, r) => format!("rcub {} {}", henc(h), hx(*r)),
                    Sh::Tm(ps) => format!("tm {} {}", ps.len(), ps.iter().map(henc).collect::<Vec<_>>().join(" ")),
                    Sh::Pl(ps) => format!("pl {} {}", ps.len(), ps.iter().map(henc).collect::<Vec<_>>().join(" ")),
                    Sh::Comp(a, b, t) => format!("comp {} {} {}", a.enc(), b.enc(), henc(t)),
                }
            }
            pub fn parse(a: &mut Args) -> Sh {
                match a.tok() {
                    "ball" => Sh::Ball(a.f()),
                    "cub" => Sh::Cub(v(a)),
                    "cap" => { let p = v(a); let q = v(a); Sh::Cap(p, q, a.f()) }
                    "seg" => { let p = v(a); let q = v(a); Sh::Seg(p, q) }
                    "tri" => { let p = v(a); let q = v(a); let r = v(a); Sh::Tri(p, q, r) }
                    "hs" => Sh::Hs(v(a)),
                    "hull" => { let n = a.u(); Sh::Hull((0..n).map(|_| v(a)).collect()) }
                    "cyl" => { let h = a.f(); Sh::Cyl(h, a.f()) }
                    "cone" => { let h = a.f(); Sh::Cone(h, a.f()) }
                    "rcub" => { let h = v(a); Sh::RCub(h, a.f()) }
                    "tm" => { let n = a.u(); Sh::Tm((0..n).map(|_| v(a)).collect()) }
                    "pl" => { let n = a.u(); Sh::Pl((0..n).map(|_| v(a)).collect()) }
                    "comp" => { let x = Sh::parse(a); let y = Sh::parse(a); Sh::Comp(Box::new(x), Box::new(y), v(a)) }
                    t => panic!("bad shape kind {}", t),
                }
            }
            /// points of the shape that degenerate configurations are anchored at (vertices, edge midpoints, face centres, centre)
            pub fn feats(&self) -> Vec<V> {
                let mut o = vec![z()];
                match self {
                    Sh::Ball(r) => { for i in 0..DIM { let mut e = z(); e[i] = *r; o.push(e); o.push(-e); } }
                    Sh::Cub(h) | Sh::RCub(h, _) => {
                        // all sign/zero patterns: corners, edge midpoints, face centres
                        let n = 3usize.pow(DIM as u32);
                        for k in 0..n { let mut e = z(); let mut kk = k; for i in 0..DIM { e[i] = h[i] * ((kk % 3) as f64 - 1.0); kk /= 3; } o.push(e); }
                    }
                    Sh::Cap(a, b, r) => { o.push(*a); o.push(*b); o.push((a + b) * 0.5); let mut e = z(); e[DIM - 1] = *r; o.push(a + e); o.push((a + b) * 0.5 - e); }
                    Sh::Seg(a, b) => { o.push(*a); o.push(*b); o.push((a + b) * 0.5); o.push(a + (b - a) * 0.25); }
                    Sh::Tri(a, b, c) => { o.push(*a); o.push(*b); o.push(*c); o.push((a + b) * 0.5); o.push((b + c) * 0.5); o.push((c + a) * 0.5);
                                          o.push(((a + b) * 0.5 + c) * 0.5); }
                    Sh::Hs(_) => {}
                    Sh::Hull(ps) => { for p in ps { o.push(*p); } if ps.len() > 1 { o.push((ps[0] + ps[1]) * 0.5); } }
                    Sh::Cyl(h, r) => { let mut t = z(); t[1] = *h; let mut e = z(); e[0] = *r; o.push(t); o.push(-t); o.push(e); o.push(t + e); o.push(-t - e); }
                    Sh::Cone(h, r) => { let mut t = z(); t[1] = *h; let mut e = z(); e[0] = *r; o.push(t); o.push(-t); o.push(-t + e); o.push(e * 0.5); }
                    Sh::Tm(ps) | Sh::Pl(ps) => { for p in ps { o.push(*p); } if ps.len() > 1 { o.push((ps[0] + ps[1]) * 0.5); } if ps.len() > 2 { o.push(((ps[0] + ps[1]) * 0.5 + ps[2]) * 0.5); } }
                    Sh::Comp(a, b, t) => { o.extend(a.feats()); o.extend(b.feats().into_iter().map(|p| p + t)); }
                }
                o
            }
        }

        fn collinear(a: &V, b: &V, c: &V) -> bool { let u = b - a; let w = c - a; u.dot(&u) * w.dot(&w) - u.dot(&w) * u.dot(&w) == 0.0 }
        fn fres(r: Result<String, query::Unsupported>) -> String { match r { Ok(s) => s, Err(_) => "unsup".into() } }
        fn fman(ms: &[Man]) -> String {
            let mut s = format!("nm {}", ms.len());
            for m in ms {
                s += &format!(" n1 {} n2 {} np {}", fv(&m.local_n1), fv(&m.local_n2), m.points.len());
                for p in &m.points { s += &format!(" {} {} {}", fp(&p.local_p1), fp(&p.local_p2), ff(p.dist)); }
            }
            s
        }
        fn fhit(h: Option<query::ShapeCastHit>) -> String {
            match h { None => "none".into(),
                      Some(h) => format!("toi {} w1 {} w2 {} n1 {} n2 {} st{:?}", ff(h.time_of_impact), fp(&h.witness1), fp(&h.witness2), fv(&h.normal1), fv(&h.normal2), h.status) }
        }

        pub fn exec(func: &str, a: &mut Args) -> String {
            let _cls = a.tok();
            match func {
                "dist" | "cp" | "ct" | "it" | "cm" => {
                    let s1 = Sh::parse(a); let s2 = Sh::parse(a); let m = iso(a); let par = a.f();
                    let (g1, g2) = match (s1.build(), s2.build()) { (Some(x), Some(y)) => (x, y), _ => return "noshape".into() };
                    let d = DefaultQueryDispatcher;
                    match func {
                        "dist" => fres(d.distance(&m, &*g1, &*g2).map(|x| format!("d {}", ff(x)))),
                        "it" => fres(d.intersection_test(&m, &*g1, &*g2).map(|x| format!("i{}", b(x)))),
                        "cp" => fres(d.closest_points(&m, &*g1, &*g2, par).map(|c| match c {
                            ClosestPoints::Intersecting => "inter".into(), ClosestPoints::Disjoint => "disj".into(),
                            ClosestPoints::WithinMargin(p, q) => format!("within {} {}", fp(&p), fp(&q)) })),
                        "ct" => fres(d.contact(&m, &*g1, &*g2, par).map(|c| match c { None => "none".into(),
                            Some(c) => format!("p1 {} p2 {} n1 {} n2 {} d {}", fp(&c.point1), fp(&c.point2), fv(&c.normal1), fv(&c.normal2), ff(c.dist)) })),
                        _ => {
                            let mut ms: Vec<Man> = Vec::new(); let mut ws = None;
                            if d.contact_manifolds(&m, &*g1, &*g2, par, &mut ms, &mut ws).is_err() { return "unsup".into(); }
                            let cold = fman(&ms);
                            // warm call: same pose again (the cached / tracked route)
                            if d.contact_manifolds(&m, &*g1, &*g2, par, &mut ms, &mut ws).is_err() { return "unsup".into(); }
                            format!("cold {} warm {}", cold, fman(&ms))
                        }
                    }
                }
                "cast" => {
                    let s1 = Sh::parse(a); let s2 = Sh::parse(a); let m = iso(a); let vel = v(a);
                    let opt = ShapeCastOptions { max_time_of_impact: a.f(), target_distance: a.f(), stop_at_penetration: a.b(), compute_impact_geometry_on_penetration: true };
                    let (g1, g2) = match (s1.build(), s2.build()) { (Some(x), Some(y)) => (x, y), _ => return "noshape".into() };
                    fres(DefaultQueryDispatcher.cast_shapes(&m, &vel, &*g1, &*g2, opt).map(fhit))
                }
                "nl" => {
                    let s1 = Sh::parse(a); let s2 = Sh::parse(a);
                    let m1 = iso(a); let l1 = v(a); let w1 = ang(a); let m2 = iso(a); let l2 = v(a); let w2 = ang(a);
                    let t1 = a.f(); let stop = a.b();
                    let (g1, g2) = match (s1.build(), s2.build()) { (Some(x), Some(y)) => (x, y), _ => return "noshape".into() };
                    let mo1 = NonlinearRigidMotion::new(m1, Point::origin(), l1, w1);
                    let mo2 = NonlinearRigidMotion::new(m2, Point::origin(), l2, w2);
                    fres(query::cast_shapes_nonlinear(&mo1, &*g1, &mo2, &*g2, 0.0, t1, stop).map(fhit))
                }
                "ray" => {
                    let s = Sh::parse(a); let o = p(a); let dir = v(a); let mx = a.f(); let solid = a.b();
                    let g = match s.build() { Some(x) => x, None => return "noshape".into() };
                    let ray = Ray::new(o, dir);
                    let t = g.cast_local_ray(&ray, mx, solid);
                    let n = g.cast_local_ray_and_get_normal(&ray, mx, solid);
                    format!("{} {} i{}", match t { None => "none".into(), Some(t) => format!("t {}", ff(t)) },
                            match n { None => "none".into(), Some(h) => format!("t {} n {}", ff(h.time_of_impact), fv(&h.normal)) },
                            b(g.intersects_local_ray(&ray, mx)))
                }
                "proj" => {
                    let s = Sh::parse(a); let pt = p(a); let solid = a.b();
                    let g = match s.build() { Some(x) => x, None => return "noshape".into() };
                    let pr = g.project_local_point(&pt, solid);
                    let (pf, _f) = g.project_local_point_and_get_feature(&pt);
                    format!("in{} {} feat in{} {} d {} c{}", b(pr.is_inside), fp(&pr.point), b(pf.is_inside), fp(&pf.point),
                            ff(g.distance_to_local_point(&pt, solid)), b(g.contains_local_point(&pt)))
                }
                "mass" => {
                    let s = Sh::parse(a); let dens = a.f();
                    let g = match s.build() { Some(x) => x, None => return "noshape".into() };
                    fmass(&g.mass_properties(dens))
                }
                "bv" => {
                    let s = Sh::parse(a); let m = iso(a);
                    let g = match s.build() { Some(x) => x, None => return "noshape".into() };
                    let bb = g.compute_aabb(&m); let bs = g.compute_bounding_sphere(&m);
                    let lb = g.compute_local_aabb(); let ls = g.compute_local_bounding_sphere();
                    format!("aabb {} {} bs {} {} laabb {} {} lbs {} {}", fp(&bb.mins), fp(&bb.maxs), fp(&bs.center), ff(bs.radius),
                            fp(&lb.mins), fp(&lb.maxs), fp(&ls.center), ff(ls.radius))
                }
                "trim" => { let pa = p(a); let pb = p(a); let pc = p(a); trim(&Triangle::new(pa, pb, pc)) }
                "segm" => { let pa = p(a); let pb = p(a); segm(&Segment::new(pa, pb)) }
                "clip" => {
                    let a1 = p(a); let b1 = p(a); let a2 = p(a); let b2 = p(a);
                    fclip(query::details::clip_segment_segment((a1, b1), (a2, b2)))
                }
                "clipn" => clipn(a),
                "pff" | "pfv" => pfeat(func, a),
                "clipal" => {
                    let mins = p(a); let maxs = p(a); let o = p(a); let d = v(a);
                    match query::details::clip_aabb_line(&px::bounding_volume::Aabb::new(mins, maxs), &o, &d) {
                        None => "none".into(),
                        Some((n, f)) => format!("near {} {} s{} far {} {} s{}", ff(n.0), fv(&n.1), n.2, ff(f.0), fv(&f.1), f.2),
                    }
                }
                "cliphp" => {
                    let c = p(a); let n = v(a); let k = a.u(); let poly: Vec<_> = (0..k).map(|_| p(a)).collect();
                    let mut res = vec![Point::origin()];
                    query::details::clip_halfspace_polygon(&c, &n, &poly, &mut res);
                    format!("k {} {}", res.len(), res.iter().map(fp).collect::<Vec<_>>().join(" "))
                }
                "sup" => {
                    let s = Sh::parse(a); let d = v(a);
                    let g = match s.build() { Some(x) => x, None => return "noshape".into() };
                    let sm = match g.as_support_map() { Some(x) => x, None => return "nosupportmap".into() };
                    let un = Unit::try_new(d, 0.0);
                    format!("sp {} spt {}", fp(&sm.local_support_point(&d)), match un { None => "none".into(), Some(u) => fp(&sm.local_support_point_toward(&u)) })
                }
                _ => "nofn".into(),
            }
        }

        fn fclip(r: Option<((Point<Real>, Point<Real>, usize, usize), (Point<Real>, Point<Real>, usize, usize))>) -> String {
            match r { None => "none".into(),
                      Some((ca, cb)) => format!("ca {} {} f{} f{} cb {} {} f{} f{}", fp(&ca.0), fp(&ca.1), ca.2, ca.3, fp(&cb.0), fp(&cb.1), cb.2, cb.3) }
        }

        // ------------------------------------------------------------------ generator
        fn lat(r: &mut Rng) -> f64 { *r.pick(&[0.0, 0.0, 0.5, -0.5, 1.0, -1.0, 1.5, 2.0, -2.0, 0.25, -0.75, 3.0]) }
        fn latv(r: &mut Rng) -> V { V::from_fn(|_, _| lat(r)) }
        fn ext(r: &mut Rng) -> f64 { *r.pick(&[0.25, 0.5, 1.0, 1.5, 2.0]) }
        fn axis(r: &mut Rng) -> V { let mut e = z(); e[r.below(DIM as u64) as usize] = if r.bool() { 1.0 } else { -1.0 }; e }
        /// oblique exact direction (not axis aligned)
        fn oblique(r: &mut Rng) -> V { loop { let d = V::from_fn(|_, _| *r.pick(&[1.0, -1.0, 2.0, -0.5, 0.0, 3.0])); if d.iter().filter(|x| **x != 0.0).count() >= 2 { return d; } } }

        /// segments: zero-length (at / off the origin), through the origin, oblique, axis-aligned
        fn gen_seg(r: &mut Rng) -> Sh {
            match r.below(6) {
                0 => { let q = latv(r); Sh::Seg(q, q) }                         // zero length
                1 => Sh::Seg(z(), z()),                                          // zero length at the origin
                2 => { let d = oblique(r); Sh::Seg(-d, d * ext(r)) }             // through the origin, oblique
                3 => { let d = oblique(r); Sh::Seg(z(), d) }                     // starts at the origin
                4 => { let e = axis(r); let q = latv(r); Sh::Seg(q, q + e * ext(r)) }
                _ => { let q = latv(r); Sh::Seg(q, q + oblique(r)) }
            }
        }
        /// triangles: flat (collinear distinct, two coincident, all coincident), through the origin, regular
        fn gen_tri(r: &mut Rng) -> Sh {
            let q = if r.bool() { z() } else { latv(r) };
            let d = oblique(r);
            match r.below(8) {
                0 => Sh::Tri(q, q + d, q + d * 2.0),                             // collinear, oblique
                1 => Sh::Tri(q, q + d * 2.0, q + d),                             // collinear, c between a and b
                2 => Sh::Tri(q, q, q + d),                                       // a == b
                3 => Sh::Tri(q, q + d, q + d),                                   // b == c
                4 => Sh::Tri(q + d, q, q + d),                                   // a == c
                5 => Sh::Tri(q, q, q),                                           // a point
                6 => { let e = oblique(r); Sh::Tri(-d, d, e) }                   // origin on edge ab (maybe flat when e ∥ d)
                _ => { let e = oblique(r); Sh::Tri(q, q + d, q + e) }
            }
        }
        fn gen_cap(r: &mut Rng) -> Sh {
            let rad = ext(r);
            match r.below(4) {
                0 => { let q = latv(r); Sh::Cap(q, q, rad) }                     // zero-length axis
                1 => Sh::Cap(z(), z(), rad),
                2 => { let d = oblique(r); Sh::Cap(-d, d, rad) }
                _ => { let e = axis(r); Sh::Cap(-e * ext(r), e * ext(r), rad) }
            }
        }
        fn gen_shape(r: &mut Rng) -> Sh {
            match r.below(12) {
                0 | 1 => Sh::Ball(ext(r)),
                2 | 3 => Sh::Cub(V::from_fn(|_, _| ext(r))),
                4 => gen_cap(r),
                5 | 6 => gen_seg(r),
                7 | 8 => gen_tri(r),
                9 => Sh::Hs(axis(r)),
                10 => gen_composite(r),
                _ => gen_extra(r),
            }
        }
        /// composites with degenerate parts: meshes with flat / repeated-vertex triangles, polylines with zero-length segments,
        /// compounds whose parts coincide
        fn gen_composite(r: &mut Rng) -> Sh {
            let q = if r.bool() { z() } else { latv(r) };
            let d = oblique(r); let e = oblique(r);
            match r.below(6) {
                0 => Sh::Tm(vec![q, q + d, q + e, q + d + e]),                       // a quad (flat when e ∥ d)
                1 => Sh::Tm(vec![q, q + d, q + d * 2.0, q + e]),                     // first triangle collinear
                2 => Sh::Tm(vec![q, q + d, q + d, q + e]),                           // repeated vertex
                3 => Sh::Pl(vec![q, q + d, q + d, q + d + e]),                       // zero-length segment
                4 => Sh::Pl(vec![q, q + d, q + d * 2.0, q + e]),                     // collinear joint
                _ => { let t = if r.bool() { z() } else { axis(r) * ext(r) };
                       let a = if r.bool() { Sh::Ball(ext(r)) } else { Sh::Cub(V::from_fn(|_, _| ext(r))) };
                       let b = match r.below(3) { 0 => gen_seg(r), 1 => gen_cap(r), _ => Sh::Ball(ext(r)) };
                       Sh::Comp(Box::new(a), Box::new(b), t) }
            }
        }
        fn gen_iso12(r: &mut Rng, s1: &Sh, s2: &Sh) -> (Isometry<Real>, &'static str) {
            let rot_id = r.below(3) == 0;
            let mut m = if rot_id { Isometry::identity() } else { gen_iso(r, true, 1.0) };
            let f1 = s1.feats(); let f2 = s2.feats();
            let (t, cls): (V, &'static str) = match r.below(6) {
                0 => (z(), "coincident"),
                1 => { let p1 = *r.pick(&f1); (p1, "origin2-on-feature1") }
                2 => { let p1 = *r.pick(&f1); let p2 = *r.pick(&f2); (p1 - m.rotation * p2, "feature-on-feature") }
                3 => { let p1 = *r.pick(&f1); let p2 = *r.pick(&f2); let d = *r.pick(&[0.5, 1.0, 0.25, 2.0]); (p1 - m.rotation * p2 + axis(r) * d, "lattice-offset") }
                4 => { let p1 = *r.pick(&f1); let p2 = *r.pick(&f2); let d = *r.pick(&[1e-300, 1e-160, 1e-17, 1e-9, 4.0e-8]); (p1 - m.rotation * p2 + axis(r) * d, "tiny-offset") }
                _ => { let p1 = *r.pick(&f1); let p2 = *r.pick(&f2); (p1 - m.rotation * p2 + oblique(r) * *r.pick(&[0.5, 0.25, 1.0]), "oblique-offset") }
            };
            m.translation.vector = t;
            (m, cls)
        }

        pub fn gen(r: &mut Rng, thorough: bool, out: &mut Vec<(String, String)>) {
            let k = if thorough { 10 } else { 1 };
            // ---- pair queries
            for _ in 0..700 * k {
                let s1 = gen_shape(r); let s2 = gen_shape(r);
                let (m, cls) = gen_iso12(r, &s1, &s2);
                let head = format!("{}{}{} {} {} {}", cls, s1.degen(), s2.degen(), s1.enc(), s2.enc(), hiso(&m));
                let par = *r.pick(&[0.0, 0.0, 1e-9, 0.5, 2.0]);
                for f in ["dist", "cp", "ct", "it", "cm"] { out.push((format!("{}{}", f, DIM), format!("{} {}", head, hx(par)))); }
                let vel = match r.below(5) { 0 => z(), 1 => axis(r) * 1e-300, 2 => axis(r) * 1e12, 3 => axis(r), _ => oblique(r) };
                let mx = *r.pick(&[0.0, 1.0, 10.0, 1e6]); let tg = *r.pick(&[0.0, 0.0, 0.5, 1e-9]);
                out.push((format!("cast{}", DIM), format!("{} {} {} {} {}", head, hv(&vel), hx(mx), hx(tg), b(r.bool()))));
            }
            for _ in 0..120 * k {
                let s1 = gen_shape(r); let s2 = gen_shape(r);
                let (m, cls) = gen_iso12(r, &s1, &s2);
                let l1 = match r.below(3) { 0 => z(), 1 => axis(r), _ => oblique(r) * 0.5 };
                let l2 = match r.below(3) { 0 => z(), 1 => axis(r) * 1e-9, _ => oblique(r) };
                out.push((format!("nl{}", DIM), format!("{}{}{} {} {} {} {} {} {} {} {} {} {}", cls, s1.degen(), s2.degen(), s1.enc(), s2.enc(), hiso(&Isometry::identity()), hv(&l1), gen_ang(r),
                                                      hiso(&m), hv(&l2), gen_ang(r), hx(*r.pick(&[0.0, 1.0, 4.0])), b(r.bool()))));
            }
            // ---- convex/ball manifolds and pfm/pfm manifolds with thin shapes through their own origin (exact on-feature centres)
            for _ in 0..300 * k {
                let s1 = match r.below(4) { 0 => gen_seg(r), 1 => gen_tri(r), 2 => Sh::Cub(V::from_fn(|_, _| ext(r))), _ => gen_extra(r) };
                let s2 = match r.below(3) { 0 => Sh::Ball(ext(r)), 1 => gen_seg(r), _ => gen_shape(r) };
                let (m, cls) = gen_iso12(r, &s1, &s2);
                let (a1, a2, mm) = if r.below(4) == 0 { (&s2, &s1, m.inverse()) } else { (&s1, &s2, m) };
                out.push((format!("cm{}", DIM), format!("{}{}{} {} {} {} {}", cls, a1.degen(), a2.degen(), a1.enc(), a2.enc(), hiso(&mm), hx(*r.pick(&[0.0, 0.5, 1e-9])))));
            }
            // ---- single-shape queries
            for _ in 0..500 * k {
                let s = gen_shape(r);
                let f = s.feats();
                let anchor = *r.pick(&f);
                let (o, cls) = match r.below(4) { 0 => (anchor, "origin-on-feature"), 1 => (z(), "origin-at-centre"),
                                                  2 => (anchor + axis(r) * *r.pick(&[1.0, 0.5, 1e-300, 1e-9]), "axis-offset"), _ => (anchor + oblique(r), "oblique-offset") };
                let dir = match r.below(7) { 0 => z(), 1 => axis(r) * 1e-300, 2 => axis(r) * 1e150, 3 => axis(r), 4 => anchor - o, 5 => -o, _ => oblique(r) };
                out.push((format!("ray{}", DIM), format!("{}{} {} {} {} {} {}", cls, s.degen(), s.enc(), hv(&o), hv(&dir), hx(*r.pick(&[0.0, 1.0, 1e6, f64::MAX])), b(r.bool()))));
                out.push((format!("proj{}", DIM), format!("{}{} {} {} {}", cls, s.degen(), s.enc(), hv(&o), b(r.bool()))));
                if !matches!(s, Sh::Hs(_)) {
                    out.push((format!("mass{}", DIM), format!("{}{} {} {}", s.kind(), s.degen(), s.enc(), hx(*r.pick(&[0.0, 1.0, 2.5, 1e-300])))));
                    let m = gen_iso(r, true, 2.0);
                    out.push((format!("bv{}", DIM), format!("{}{} {} {}", s.kind(), s.degen(), s.enc(), hiso(&m))));
                }
            }
            // ---- Triangle / Segment methods
            for _ in 0..300 * k {
                let t = gen_tri(r); if let Sh::Tri(a, b2, c) = &t { out.push((format!("trim{}", DIM), format!("triangle{} {} {} {}", t.degen(), hv(a), hv(b2), hv(c)))); }
                let sg = gen_seg(r); if let Sh::Seg(a, b2) = &sg { out.push((format!("segm{}", DIM), format!("segment{} {} {}", sg.degen(), hv(a), hv(b2)))); }
            }
            // ---- clip_aabb_line / clip_halfspace_polygon / support points: flat boxes, origin on faces, zero / axis-parallel / tiny directions
            for _ in 0..300 * k {
                let c = latv(r); let flat = r.below(3) == 0;
                let he = V::from_fn(|i, _| if flat && i == 0 { 0.0 } else { ext(r) });
                let (mins, maxs) = (c - he, c + he);
                let corner = V::from_fn(|i, _| if r.bool() { mins[i] } else { maxs[i] });
                let (o, cls) = match r.below(4) { 0 => (corner, "origin-on-corner"), 1 => (c, "origin-at-centre"),
                                                  2 => (corner + axis(r) * *r.pick(&[1.0, 1e-300, 0.5]), "axis-offset"), _ => (corner + oblique(r), "oblique-offset") };
                let d = match r.below(6) { 0 => z(), 1 => axis(r), 2 => axis(r) * 1e-300, 3 => axis(r) * 1e150, 4 => c - o, _ => oblique(r) };
                let cls = format!("{}{}", cls, if flat { "+aabb-flat" } else { "" });
                out.push((format!("clipal{}", DIM), format!("{} {} {} {} {}", cls, hv(&mins), hv(&maxs), hv(&o), hv(&d))));
                let s = gen_shape(r);
                out.push((format!("sup{}", DIM), format!("direction{} {} {}", s.degen(), s.enc(), hv(&d))));
                // polygon: triangle / quad with repeated or collinear vertices; plane through vertices
                let t = gen_tri(r);
                if let Sh::Tri(pa, pb, pc) = &t {
                    let poly = if r.bool() { vec![*pa, *pb, *pc] } else { vec![*pa, *pb, *pb, *pc, (pa + pc) * 0.5] };
                    let n = match r.below(4) { 0 => z(), 1 => axis(r), 2 => pb - pa, _ => oblique(r) };
                    let cen = *r.pick(&poly);
                    out.push((format!("cliphp{}", DIM), format!("polygon{} {} {} {} {}", t.degen(), hv(&cen), hv(&n), poly.len(), poly.iter().map(hv).collect::<Vec<_>>().join(" "))));
                }
            }
            // ---- clip helpers: zero-length / perpendicular / end-point-on-end-point configurations
            for _ in 0..400 * k {
                let (a1, b1) = match gen_seg(r) { Sh::Seg(a, b2) => (a, b2), _ => unreachable!() };
                let d1 = b1 - a1;
                // seg2 anchored at an end point / the middle of seg1, displaced along an exact "normal-ish" direction
                let anchor = *r.pick(&[a1, b1, (a1 + b1) * 0.5]);
                let off = match r.below(3) { 0 => z(), 1 => perp(&d1, r), _ => oblique(r) };
                let (a2, b2, cls) = match r.below(5) {
                    0 => (anchor + off, anchor + off, "seg2-zero-length"),
                    1 => { let n = perp(&d1, r); (anchor + off, anchor + off + n, "seg2-perpendicular") }
                    2 => (anchor + off, anchor + off + d1, "seg2-parallel"),
                    3 => (anchor + off - d1 * 0.5, anchor + off, "seg2-ends-at-anchor"),
                    _ => (anchor + off, anchor + off + oblique(r), "seg2-oblique"),
                };
                let (a2, b2) = if r.bool() { (a2, b2) } else { (b2, a2) };
                let cls: &str = &format!("{}{}", cls, if a1 == b1 { "+seg1-zero-length" } else { "" });
                out.push((format!("clip{}", DIM), format!("{} {} {} {} {}", cls, hv(&a1), hv(&b1), hv(&a2), hv(&b2))));
                gen_clipn(r, cls, &a1, &b1, &a2, &b2, out);
            }
        }
    };
}

pub mod m3 {
    use crate::util::*;
    use crate::util::d3::*;
    use crate::p3 as px;
    const DIM: usize = 3;
    #[derive(Clone, Debug)]
    pub enum Sh { Ball(f64), Cub(V), Cap(V, V, f64), Seg(V, V), Tri(V, V, V), Hs(V), Hull(Vec<V>), Cyl(f64, f64), Cone(f64, f64), RCub(V, f64), Tm(Vec<V>), Pl(Vec<V>), Comp(Box<Sh>, Box<Sh>, V) }
    impl Sh {
        pub fn build(&self) -> Option<Box<dyn Shape>> {
            use px::shape::*;
            Some(match self {
                Sh::Ball(r) => Box::new(Ball::new(*r)),
                Sh::Cub(h) => Box::new(Cuboid::new(*h)),
                Sh::Cap(a, b, r) => Box::new(Capsule::new(Point::from(*a), Point::from(*b), *r)),
                Sh::Seg(a, b) => Box::new(Segment::new(Point::from(*a), Point::from(*b))),
                Sh::Tri(a, b, c) => Box::new(Triangle::new(Point::from(*a), Point::from(*b), Point::from(*c))),
                Sh::Hs(n) => Box::new(HalfSpace::new(Unit::new_unchecked(*n))),
                Sh::Hull(ps) => { let pts: Vec<_> = ps.iter().map(|p| Point::from(*p)).collect(); Box::new(ConvexPolyhedron::from_convex_hull(&pts)?) }
                Sh::Cyl(h, r) => Box::new(Cylinder::new(*h, *r)),
                Sh::Cone(h, r) => Box::new(Cone::new(*h, *r)),
                Sh::RCub(h, r) => Box::new(RoundCuboid { inner_shape: Cuboid::new(*h), border_radius: *r }),
                Sh::Tm(ps) => { let pts: Vec<_> = ps.iter().map(|p| Point::from(*p)).collect();
                                let idx: Vec<[u32; 3]> = (0..ps.len().saturating_sub(2)).map(|i| [i as u32, i as u32 + 1, i as u32 + 2]).collect();
                                Box::new(TriMesh::new(pts, idx).ok()?) }
                Sh::Pl(ps) => { if ps.len() < 2 { return None; } Box::new(Polyline::new(ps.iter().map(|p| Point::from(*p)).collect(), None)) }
                Sh::Comp(a, b, t) => { let ga = a.build()?; let gb = b.build()?;
                                       Box::new(Compound::new(vec![(Isometry::identity(), SharedShape(ga.into())), (Isometry::from_parts((*t).into(), Default::default()), SharedShape(gb.into()))])) }
            })
        }
    }
    fn ang(a: &mut Args) -> V { v(a) }
    fn gen_ang(r: &mut Rng) -> String { let w = match r.below(3) { 0 => V::zeros(), 1 => V::new(0.0, 0.0, 1.0), _ => V::new(0.5, -1.0, 0.25) }; hv(&w) }
    fn gen_extra(r: &mut Rng) -> Sh {
        match r.below(4) {
            0 => Sh::Cyl(ext(r), ext(r)),
            1 => Sh::Cone(ext(r), ext(r)),
            2 => Sh::RCub(V::new(ext(r), ext(r), ext(r)), 0.25),
            // tetrahedron with a vertex at its local origin
            _ => Sh::Hull(vec![V::zeros(), V::new(ext(r), 0.0, 0.0), V::new(0.0, ext(r), 0.0), V::new(0.0, 0.0, ext(r))]),
        }
    }
    /// an exact vector perpendicular to `d` (any vector when d = 0)
    fn perp(d: &V, r: &mut Rng) -> V {
        let c = d.cross(&V::new(1.0, 2.0, -1.0));
        if c == V::zeros() { d.cross(&V::new(0.0, 1.0, 0.0)) + if *d == V::zeros() { oblique(r) } else { V::zeros() } } else { c }
    }
    fn fmass(m: &px::mass_properties::MassProperties) -> String {
        let q = m.principal_inertia_local_frame.coords;
        format!("im {} com {} iis {} frame {} {} {} {} m {} pi {}", ff(m.inv_mass), fp(&m.local_com), fv(&m.inv_principal_inertia_sqrt),
                ff(q[0]), ff(q[1]), ff(q[2]), ff(q[3]), ff(m.mass()), fv(&m.principal_inertia()))
    }
    fn trim(t: &px::shape::Triangle) -> String {
        let (c, rad) = t.circumcircle();
        let bs = t.local_bounding_sphere();
        format!("area {} per {} cen {} cc {} {} sn {} n {} rn {} bs {} {} ad{} a90 {}", ff(t.area()), ff(t.perimeter()), fp(&t.center()), fp(&c), ff(rad), fv(&t.scaled_normal()),
                match t.normal() { None => "none".into(), Some(n) => fv(&n) }, fv(&t.robust_normal()), fp(&bs.center), ff(bs.radius), b(t.is_affinely_dependent()), t.angle_closest_to_90())
    }
    fn segm(s: &px::shape::Segment) -> String {
        format!("len {} sd {} dir {} pn {}", ff(s.length()), fv(&s.scaled_direction()), match s.direction() { None => "none".into(), Some(n) => fv(&n) },
                match s.planar_normal(2) { None => "none".into(), Some(n) => fv(&n) })
    }
    fn clipn(_a: &mut Args) -> String { "nofn".into() }
    fn pfeat(_f: &str, _a: &mut Args) -> String { "nofn".into() }
    fn gen_clipn(_r: &mut Rng, _cls: &str, _a1: &V, _b1: &V, _a2: &V, _b2: &V, _out: &mut Vec<(String, String)>) {}
    common!();
}

pub mod m2 {
    use crate::util::*;
    use crate::util::d2::*;
    use crate::p2 as px;
    const DIM: usize = 2;
    #[derive(Clone, Debug)]
    pub enum Sh { Ball(f64), Cub(V), Cap(V, V, f64), Seg(V, V), Tri(V, V, V), Hs(V), Hull(Vec<V>), Cyl(f64, f64), Cone(f64, f64), RCub(V, f64), Tm(Vec<V>), Pl(Vec<V>), Comp(Box<Sh>, Box<Sh>, V) }
    impl Sh {
        pub fn build(&self) -> Option<Box<dyn Shape>> {
            use px::shape::*;
            Some(match self {
                Sh::Ball(r) => Box::new(Ball::new(*r)),
                Sh::Cub(h) => Box::new(Cuboid::new(*h)),
                Sh::Cap(a, b, r) => Box::new(Capsule::new(Point::from(*a), Point::from(*b), *r)),
                Sh::Seg(a, b) => Box::new(Segment::new(Point::from(*a), Point::from(*b))),
                Sh::Tri(a, b, c) => Box::new(Triangle::new(Point::from(*a), Point::from(*b), Point::from(*c))),
                Sh::Hs(n) => Box::new(HalfSpace::new(Unit::new_unchecked(*n))),
                Sh::Hull(ps) => { let pts: Vec<_> = ps.iter().map(|p| Point::from(*p)).collect(); Box::new(ConvexPolygon::from_convex_hull(&pts)?) }
                Sh::RCub(h, r) => Box::new(RoundCuboid { inner_shape: Cuboid::new(*h), border_radius: *r }),
                Sh::Cyl(..) | Sh::Cone(..) => return None,
                Sh::Tm(ps) => { let pts: Vec<_> = ps.iter().map(|p| Point::from(*p)).collect();
                                let idx: Vec<[u32; 3]> = (0..ps.len().saturating_sub(2)).map(|i| [i as u32, i as u32 + 1, i as u32 + 2]).collect();
                                Box::new(TriMesh::new(pts, idx).ok()?) }
                Sh::Pl(ps) => { if ps.len() < 2 { return None; } Box::new(Polyline::new(ps.iter().map(|p| Point::from(*p)).collect(), None)) }
                Sh::Comp(a, b, t) => { let ga = a.build()?; let gb = b.build()?;
                                       Box::new(Compound::new(vec![(Isometry::identity(), SharedShape(ga.into())), (Isometry::from_parts((*t).into(), Default::default()), SharedShape(gb.into()))])) }
            })
        }
    }
    fn ang(a: &mut Args) -> Real { a.f() }
    fn gen_ang(r: &mut Rng) -> String { hx(*r.pick(&[0.0, 1.0, -0.5])) }
    fn gen_extra(r: &mut Rng) -> Sh {
        match r.below(3) {
            0 => Sh::RCub(V::new(ext(r), ext(r)), 0.25),
            // polygons with a vertex at the local origin
            1 => Sh::Hull(vec![V::zeros(), V::new(ext(r), 0.0), V::new(0.0, ext(r))]),
            _ => Sh::Hull(vec![V::zeros(), V::new(2.0, 0.5), V::new(2.5, 2.0), V::new(0.5, 1.5)]),
        }
    }
    fn perp(d: &V, r: &mut Rng) -> V { if *d == V::zeros() { oblique(r) } else { V::new(-d.y, d.x) } }
    fn fmass(m: &px::mass_properties::MassProperties) -> String {
        format!("im {} com {} iis {} m {} pi {}", ff(m.inv_mass), fp(&m.local_com), ff(m.inv_principal_inertia_sqrt), ff(m.mass()), ff(m.principal_inertia()))
    }
    fn trim(t: &px::shape::Triangle) -> String {
        let (c, rad) = t.circumcircle();
        let bs = t.local_bounding_sphere();
        format!("area {} per {} cen {} cc {} {} bs {} {} uai {} a90 {}", ff(t.area()), ff(t.perimeter()), fp(&t.center()), fp(&c), ff(rad), fp(&bs.center), ff(bs.radius),
                ff(t.unit_angular_inertia()), t.angle_closest_to_90())
    }
    fn segm(s: &px::shape::Segment) -> String {
        format!("len {} sd {} dir {} sn {} n {}", ff(s.length()), fv(&s.scaled_direction()), match s.direction() { None => "none".into(), Some(n) => fv(&n) },
                fv(&s.scaled_normal()), match s.normal() { None => "none".into(), Some(n) => fv(&n) })
    }
    /// `clipn2 <cls> a1 b1 a2 b2 normal`
    fn clipn(a: &mut Args) -> String {
        let a1 = p(a); let b1 = p(a); let a2 = p(a); let b2 = p(a); let n = v(a);
        fclip(px::query::details::clip_segment_segment_with_normal((a1, b1), (a2, b2), n))
    }
    /// `pff2 <cls> a1 b1 a2 b2 iso12 n1 flipped` : PolygonalFeature::face_face_contacts;  `pfv2 <cls> a1 b1 v2 iso12 sep1 flipped` : face_vertex_contacts
    fn pfeat(func: &str, a: &mut Args) -> String {
        use px::shape::{PolygonalFeature, Segment};
        let mut man: px::query::ContactManifold<u32, u32> = px::query::ContactManifold::new();
        if func == "pff" {
            let a1 = p(a); let b1 = p(a); let a2 = p(a); let b2 = p(a); let m = iso(a); let n = v(a); let fl = a.b();
            let f1 = PolygonalFeature::from(Segment::new(a1, b1)); let f2 = PolygonalFeature::from(Segment::new(a2, b2));
            PolygonalFeature::face_face_contacts(&m, &f1, &n, &f2, &mut man, fl);
        } else {
            let a1 = p(a); let b1 = p(a); let v2 = p(a); let m = iso(a); let sep = v(a); let fl = a.b();
            let f1 = PolygonalFeature::from(Segment::new(a1, b1));
            let mut f2 = PolygonalFeature::from(Segment::new(v2, v2)); f2.num_vertices = 1;
            PolygonalFeature::face_vertex_contacts(&m, &f1, &sep, &f2, &mut man, fl);
        }
        let mut s = format!("np {}", man.points.len());
        for q in &man.points { s += &format!(" {} {} {}", fp(&q.local_p1), fp(&q.local_p2), ff(q.dist)); }
        s
    }
    /// normals: unit (exact) — the perpendicular of seg1, the direction of seg2 (seg2 parallel to the normal), axes, 3-4-5
    fn gen_clipn(r: &mut Rng, cls: &str, a1: &V, b1: &V, a2: &V, b2: &V, out: &mut Vec<(String, String)>) {
        let cands = [V::new(0.0, 1.0), V::new(1.0, 0.0), V::new(0.0, -1.0), V::new(-1.0, 0.0), V::new(0.6, 0.8), V::new(-0.8, 0.6)];
        for _ in 0..2 {
            let n = *r.pick(&cands);
            out.push(("clipn2".into(), format!("{} {} {} {} {} {}", cls, hv(a1), hv(b1), hv(a2), hv(b2), hv(&n))));
            let m = if r.bool() { Isometry::identity() } else { gen_iso(r, true, 1.0) };
            out.push(("pff2".into(), format!("{} {} {} {} {} {} {} {}", cls, hv(a1), hv(b1), hv(a2), hv(b2), hiso(&m), hv(&n), b(r.bool()))));
            out.push(("pfv2".into(), format!("{} {} {} {} {} {} {}", cls, hv(a1), hv(b1), hv(a2), hiso(&m), hv(&n), b(r.bool()))));
        }
    }
    common!();
}

pub fn exec(func: &str, a: &mut Args) -> String {
    if let Some(f) = func.strip_suffix('3') { m3::exec(f, a) } else if let Some(f) = func.strip_suffix('2') { m2::exec(f, a) } else { "nofn".into() }
}

pub fn gen(r: &mut Rng, thorough: bool) -> Vec<(String, String)> {
    let mut out = Vec::new();
    m3::gen(r, thorough, &mut out);
    m2::gen(r, thorough, &mut out);
    out
}
