//! C08 extension (round fu5): EVERY public build path and deep degenerate trees.
//! Two more history operations (usable in every history-driven protocol function):
//!   S <fb> <n> {<id> <box>}^n <dil>                       `clear_and_rebuild_with_splitter(.., CenterDataSplitter { enable_fallback_split: fb }, dil)`
//!   N <base> <refuse> <eps> <n> {<id> <box>}^n <dil>      `clear_and_rebuild_with_splitter(.., QbvhNonOverlappingDataSplitter { canonical_split, epsilon: eps }, dil)`
//!        the user callback cuts leaf `id` into (id, left piece) and (fresh id, right piece), fresh ids `base, base+1, …`;
//!        it refuses to cut (answers `Negative`) when `refuse > 0 && id % refuse == 0`.  The user's record of the pieces is
//!        printed in callback order as `K <id> <box>` items of the state dump (they ARE the current boxes of those leaves).
//! One more protocol function:
//!   bquery <hist> <k> {<box>}^k     full state dump of the history, then `intersect_aabb(box)` (ordered) on the final tree
use super::*;
use crate::p3::partitioning::{CenterDataSplitter, QbvhNonOverlappingDataSplitter};
use crate::p3::query::SplitResult;
use std::cell::RefCell;

fn fbox(b: &Aabb) -> String { box6(b).iter().map(|x| cf(*x)).collect::<Vec<_>>().join(" ") }

pub fn build_with_splitter(op: &str, a: &mut Args, q: &mut Qbvh<u32>, cur: &mut Vec<Aabb>) -> String {
    let (fb, base, refuse, eps) = if op == "S" { (a.b(), 0usize, 0usize, 0.0) } else { let b = a.u(); let r = a.u(); let e = a.f(); (false, b, r, e) };
    let n = a.u();
    let mut items = Vec::new();
    for _ in 0..n { let id = a.u(); let b = rd_box(a); items.push((id as u32, b)); }
    let dil = a.f();
    for (id, b) in &items {
        let id = *id as usize;
        if cur.len() <= id { cur.resize(id + 1, Aabb::new_invalid()); }
        cur[id] = *b;
    }
    if op == "S" {
        q.clear_and_rebuild_with_splitter(items.into_iter(), CenterDataSplitter { enable_fallback_split: fb }, dil);
        return String::new();
    }
    let st = RefCell::new((base, String::new()));
    let curc = RefCell::new(cur);
    let splitter = QbvhNonOverlappingDataSplitter {
        canonical_split: |id: u32, _dim: usize, _at: f64, _eps: f64, l: Aabb, r: Aabb| {
            if refuse > 0 && (id as usize) % refuse == 0 { return SplitResult::Negative; }
            let mut s = st.borrow_mut();
            let mut c = curc.borrow_mut();
            // a build that keeps cutting for ever (never seen on the unchanged tree) must not eat the machine's memory
            if s.0 >= base + 20000 { panic!("more than 20000 cuts"); }
            let nid = s.0; s.0 += 1;
            let need = nid.max(id as usize) + 1;
            if c.len() < need { c.resize(need, Aabb::new_invalid()); }
            c[id as usize] = l; c[nid] = r;
            let _ = write!(s.1, " K {} {} K {} {}", id, fbox(&l), nid, fbox(&r));
            SplitResult::Pair((id, l), (nid as u32, r))
        },
        epsilon: eps,
    };
    q.clear_and_rebuild_with_splitter(items.into_iter(), splitter, dil);
    st.into_inner().1
}

pub fn exec(func: &str, a: &mut Args) -> String {
    match func {
        "bquery" => {
            let (q, _, s) = replay_cur(a, true);
            let q = match q { Some(q) => q, None => return s };
            let k = a.u();
            let mut out = s;
            for _ in 0..k {
                let b = rd_box(a);
                let r = catch_unwind(AssertUnwindSafe(|| { let mut ids = Vec::new(); q.intersect_aabb(&b, &mut ids); ids }));
                match r { Ok(ids) => { out += " Q"; for i in ids { out += &format!(" {}", i); } out += " ;"; }
                          Err(_) => { out += " PANIC ;"; } }
            }
            out
        }
        _ => "nofn".into(),
    }
}

// ---------------------------------------------------------------- generators

impl Hist {
    fn items_str(items: &[(usize, Aabb)]) -> String {
        let mut s = format!("{}", items.len());
        for (id, b) in items { s += &format!(" {} {}", id, hb(b)); }
        s
    }
    fn set_items(&mut self, items: &[(usize, Aabb)]) {
        for l in self.live.iter_mut() { *l = false; }
        for (id, b) in items { self.live[*id] = true; self.boxes[*id] = *b; }
    }
    /// `clear_and_rebuild_with_splitter` with the centre splitter
    fn rebuild_center(&mut self, fb: bool, items: &[(usize, Aabb)], dil: f64) {
        self.set_items(items);
        self.ops.push(format!("S {} {} {}", b(fb), Self::items_str(items), hx(dil)));
    }
    /// … with the non-overlapping splitter and the cutting callback
    fn rebuild_nonoverlapping(&mut self, base: usize, refuse: usize, eps: f64, items: &[(usize, Aabb)], dil: f64) {
        self.set_items(items);
        self.ops.push(format!("N {} {} {} {} {}", base, refuse, hx(eps), Self::items_str(items), hx(dil)));
    }
}

/// Pairwise disjoint boxes: cells of a jittered grid (some missing), long planks spanning several cells in layers of their
/// own above the cells (along x or along y), and pillars spanning all layers beside the grid.  Every plank / pillar
/// straddles the planes the splitter snaps to, so the non-overlapping splitter has to cut it.
fn disjoint_layout(r: &mut Rng, lat: bool, big: bool) -> Vec<Aabb> {
    let nx = 2 + r.below(if big { 7 } else { 5 }) as usize;
    let ny = 2 + r.below(if big { 7 } else { 5 }) as usize;
    let nz = 1 + r.below(2) as usize;
    let s = if lat { *r.pick(&[1.0, 2.0, 0.5]) } else { r.uniform(0.5, 3.0) };
    let off = if lat { d3::Vector::new(r.range(-8, 8) as f64 * 0.5, r.range(-8, 8) as f64 * 0.5, r.range(-4, 4) as f64 * 0.5) }
              else { d3::Vector::new(r.uniform(-20.0, 20.0), r.uniform(-20.0, 20.0), r.uniform(-5.0, 5.0)) };
    let mut v = Vec::new();
    let mut span = |r: &mut Rng| -> (f64, f64) {   // (start, length) inside one pitch
        if lat { (*r.pick(&[0.0, 0.125]) * s, *r.pick(&[0.5, 0.75]) * s) } else { (r.uniform(0.0, 0.2) * s, r.uniform(0.3, 0.78) * s) }
    };
    for i in 0..nx { for j in 0..ny { for k in 0..nz {
        if r.below(6) == 0 { continue; }
        let (ax, lx) = span(r); let (ay, ly) = span(r); let (az, lz) = span(r);
        let p = d3::Point::new(i as f64 * s + ax, j as f64 * s + ay, k as f64 * s + az) + off;
        v.push(Aabb::new(p, p + d3::Vector::new(lx, ly, lz)));
    } } }
    let nlayers = 1 + r.below(2) as usize;
    for l in 0..nlayers {
        let z0 = (nz + l) as f64 * s;
        let along_x = r.bool();
        let rows = if along_x { ny } else { nx };
        let len = if along_x { nx } else { ny };
        for row in 0..rows {
            if r.below(4) == 0 { continue; }
            let i0 = r.below(len as u64 - 1) as usize;
            let i1 = i0 + 1 + r.below((len - 1 - i0) as u64) as usize;
            let (a0, _) = span(r); let (_, l1) = span(r); let (ar, lr) = span(r); let (az, lz) = span(r);
            let (lo, hi) = (i0 as f64 * s + a0, i1 as f64 * s + l1);
            let (mins, maxs) = if along_x { (d3::Point::new(lo, row as f64 * s + ar, z0 + az), d3::Point::new(hi, row as f64 * s + ar + lr, z0 + az + lz)) }
                               else { (d3::Point::new(row as f64 * s + ar, lo, z0 + az), d3::Point::new(row as f64 * s + ar + lr, hi, z0 + az + lz)) };
            v.push(Aabb::new(mins + off, maxs + off));
        }
    }
    if r.bool() {
        for j in 0..ny {
            if r.bool() { continue; }
            let (ax, lx) = span(r); let (ay, ly) = span(r);
            let top = (nz + nlayers) as f64 * s;
            v.push(Aabb::new(d3::Point::new(nx as f64 * s + ax, j as f64 * s + ay, 0.0) + off, d3::Point::new(nx as f64 * s + ax + lx, j as f64 * s + ay + ly, top) + off));
        }
    }
    v
}

fn shuffled_ids(r: &mut Rng, n: usize, nids: usize) -> Vec<usize> {
    let mut ids: Vec<usize> = (0..nids).collect();
    for i in 0..ids.len() { let j = i + r.below((ids.len() - i) as u64) as usize; ids.swap(i, j); }
    ids.truncate(n);
    ids
}

/// boxes of one of the existing families with pairwise different centres (the centre splitter WITHOUT the fallback split
/// recurses for ever on more than four boxes with one common centre — the documented reason for the fallback flag)
fn distinct_centre_boxes(r: &mut Rng, n: usize, lat: bool) -> Vec<Aabb> {
    let fam = *r.pick(&[0u64, 0, 2, 4, 5]);
    let mut v: Vec<Aabb> = Vec::new();
    let mut tries = 0;
    while v.len() < n && tries < 20 * n + 20 {
        tries += 1;
        let f = if fam == 5 { *r.pick(&[0u64, 2, 4]) } else { fam };
        let b = gen_box(r, f, lat);
        if v.iter().any(|o| o.center() == b.center()) { continue; }
        v.push(b);
    }
    v
}

/// follow-up updates after a build: the tree must stay valid and complete under refit / rebalance / insert / remove
fn follow_up(r: &mut Rng, h: &mut Hist, lat: bool, fresh0: usize) {
    let m = gen_margin(r, lat);
    if r.bool() { h.refit(m); if r.bool() { h.rebalance(m); } }
    let live: Vec<usize> = (0..h.live.len()).filter(|i| h.live[*i]).collect();
    for _ in 0..r.below(6) { if live.is_empty() { break; } let id = *r.pick(&live); let b = moved(r, &h.boxes[id].clone(), lat); h.ins(id, b); }
    for _ in 0..r.below(4) { if live.is_empty() { break; } let id = *r.pick(&live); h.rem(id); }
    for k in 0..r.below(5) as usize { let b = gen_box(r, 0, lat); h.ins(fresh0 + k, b); }
    let m = gen_margin(r, lat); h.refit(m);
    if r.bool() { h.rebalance(m); h.refit(m); }
}

/// queries for `bquery`: through the centres of input boxes (thin probes), slabs across the layout, everything
fn probe_queries(r: &mut Rng, boxes: &[Aabb], lat: bool, n: usize) -> String {
    let mut s = format!("{}", n);
    for k in 0..n {
        let qb = if k == 0 || boxes.is_empty() { Aabb::new(d3::Point::new(-1e3, -1e3, -1e3), d3::Point::new(1e3, 1e3, 1e3)) } else {
            let b = boxes[r.below(boxes.len() as u64) as usize];
            match r.below(5) {
                0 => Aabb::from_half_extents(b.center(), d3::Vector::repeat(if lat { 0.0625 } else { 0.01 })),
                1 => { let t = r.unit(); let p = b.mins + (b.maxs - b.mins) * (if lat { (t * 4.0).floor() / 4.0 } else { t }); Aabb::new(p, p) }
                2 => { let ax = r.below(3) as usize; let mut lo = d3::Point::new(-1e3, -1e3, -1e3); let mut hi = d3::Point::new(1e3, 1e3, 1e3);
                       lo[ax] = b.maxs[ax] - if lat { 0.125 } else { 0.05 }; hi[ax] = b.maxs[ax]; Aabb::new(lo, hi) }
                3 => Aabb::new(b.maxs, b.maxs),
                _ => moved(r, &b, lat),
            }
        };
        s += &format!(" {}", hb(&qb));
    }
    s
}

/// every public build path on one layout
fn gen_build(r: &mut Rng, thorough: bool, it: usize) -> (String, String) {
    let lat = it % 2 == 0;
    let mut h = Hist::new(4096);
    // half of the time the tree is not empty before the build (pending dirty nodes, parked free-list ids)
    if r.bool() {
        for id in 0..(3 + r.below(20) as usize) { let b = gen_box(r, 0, lat); h.ins(id, b); }
        if r.bool() { let m = gen_margin(r, lat); h.refit(m); h.rebalance(m); }
    }
    let dil = *r.pick(&[0.0, 0.0, 0.01, 0.25]);
    let boxes: Vec<Aabb>;
    match it % 4 {
        0 | 1 => {
            // the non-overlapping splitter on pairwise disjoint boxes, cutting callback
            boxes = disjoint_layout(r, lat, thorough);
            let n = boxes.len();
            let base = n + r.below(4) as usize;
            let ids = shuffled_ids(r, n, base);
            let items: Vec<(usize, Aabb)> = ids.iter().zip(boxes.iter()).map(|(i, b)| (*i, *b)).collect();
            let refuse = if r.below(4) == 0 { 2 + r.below(3) as usize } else { 0 };
            let eps = if lat { *r.pick(&[0.0, 1.0e-9, 0.0625]) } else { *r.pick(&[0.0, 1.0e-9, 1.0e-3]) };
            h.rebuild_nonoverlapping(base, refuse, eps, &items, dil);
        }
        _ => {
            // the centre splitter with / without the fallback split
            let fb = it % 4 == 2;
            let n = *r.pick(&[0usize, 1, 4, 5, 9, 16, 17, 40, 64]) + r.below(3) as usize;
            boxes = if fb { let fam = r.below(5); (0..n).map(|_| gen_box(r, fam, lat)).collect() } else if r.bool() { disjoint_layout(r, lat, false) } else { distinct_centre_boxes(r, n, lat) };
            let n = boxes.len();
            let ids = shuffled_ids(r, n, n + 3);
            let items: Vec<(usize, Aabb)> = ids.iter().zip(boxes.iter()).map(|(i, b)| (*i, *b)).collect();
            h.rebuild_center(fb, &items, dil);
        }
    }
    if r.below(3) != 0 { follow_up(r, &mut h, lat, boxes.len() + 260); }
    if it % 3 == 0 {
        let m = gen_margin(r, lat); h.refit(m);
        let q = probe_queries(r, &boxes, lat, 6);
        ("bquery".to_string(), format!("{} {}", h.args(), q))
    } else { ((if it % 3 == 1 { "hist" } else { "topo" }).to_string(), h.args()) }
}

/// Deep degenerate trees from a build: groups of three boxes on a geometric progression about the origin — `(g, g)`,
/// `(g, g·δ)`, `(g·δ, g)` along two axes, `g = A·ρ^k` — so that at EVERY level the mean split (with or without the
/// fallback) peels a few boxes off into three lanes and sends the bulk on in the fourth (which lane: the signs), 18-35
/// levels deep.  Then the deepest leaves move (CHANGED path below FULL_REBUILD_DEPTH), refit, rebalance (full-rebuild
/// fallback), and `rounds` follow-up rounds on the SAME workspace: a shallow leaf moves, refit, rebalance — model
/// comparison and invariant oracle after each.
fn deep_degenerate_history(r: &mut Rng, thorough: bool, it: usize) -> (String, String) {
    let lat = it % 2 == 0;
    let groups = if thorough { 56 + r.below(40) as usize } else { 46 + r.below(16) as usize };
    let n = 3 * groups;
    let (sx, sy) = match it % 4 { 0 => (-1.0, -1.0), 1 => (1.0, -1.0), 2 => (-1.0, 1.0), _ => if r.bool() { (1.0, 1.0) } else { (-1.0, -1.0) } };
    let rho = if lat { *r.pick(&[0.25, 0.125]) } else { r.uniform(0.12, 0.28) };
    let a0 = if lat { 512.0 } else { r.uniform(200.0, 900.0) };
    let delta = if lat { 1.0 / 4096.0 } else { r.uniform(1.0e-4, 1.0e-3) };
    let perm = *r.pick(&[[0usize, 1, 2], [1, 2, 0], [2, 0, 1], [0, 2, 1]]);
    let mut boxes = Vec::new();
    let mut g = a0;
    for _ in 0..groups {
        for (fx, fy) in [(1.0, 1.0), (1.0, delta), (delta, 1.0)] {
            let j = |r: &mut Rng| if lat { 1.0 } else { 1.0 + r.uniform(-0.01, 0.01) };
            let mut c = d3::Point::origin();
            c[perm[0]] = sx * g * fx * j(r); c[perm[1]] = sy * g * fy * j(r); c[perm[2]] = 0.0;
            let he = if r.below(5) == 0 { d3::Vector::zeros() } else { d3::Vector::repeat(g * delta * 0.25) };
            boxes.push(Aabb::new(c - he, c + he));
        }
        g *= rho;
    }
    let mut h = Hist::new(n + 8);
    let items: Vec<(usize, Aabb)> = (0..n).map(|i| (i, boxes[i])).collect();
    match it % 3 { 0 => h.rebuild(&items, 0.0), 1 => h.rebuild_center(true, &items, 0.0), _ => h.rebuild_center(false, &items, 0.0) }
    let nudge = |r: &mut Rng, b: &Aabb| -> Aabb { let e = (b.maxs - b.mins).norm().max(1e-12); let s = d3::Vector::new(r.uniform(-1.0, 1.0), r.uniform(-1.0, 1.0), 0.0) * (e * 0.25);
                                                  let s = if lat { d3::Vector::new(e, 0.0, 0.0) * 0.25 } else { s }; Aabb::new(b.mins + s, b.maxs + s) };
    // the deepest leaves and a shallow one change
    for id in [n - 1, n - 2, 0] { let b = nudge(r, &h.boxes[id].clone()); h.ins(id, b); }
    let m = if lat { 0.0 } else { gen_margin(r, lat) * 1e-3 };
    h.refit(m); h.rebalance(m);
    let rounds = 6 + r.below(3) as usize;
    for k in 0..rounds {
        let id = r.below(4) as usize + if k % 3 == 2 { 8 } else { 0 };
        let b = nudge(r, &h.boxes[id].clone()); h.ins(id, b);
        if k == 3 { h.rem(5); }
        h.refit(m); h.rebalance(m);
    }
    h.refit(m);
    ("hist".to_string(), h.args())
}

pub fn gen(r: &mut Rng, thorough: bool) -> Vec<(String, String)> {
    let mut v = Vec::new();
    let nb = if thorough { 240 } else { 48 };
    for it in 0..nb { v.push(gen_build(r, thorough, it)); }
    let nd = if thorough { 16 } else { 4 };
    for it in 0..nd { v.push(deep_degenerate_history(r, thorough, it)); }
    v
}
