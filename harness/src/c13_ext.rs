//! C13 growth (fu4): `with_inertia_matrix` after `symmetric_eigen`, inverse tensors, `set_mass`, assign operators, folds,
//! `Shape::mass_properties` dispatch through `dyn Shape`.
use super::*;
type M3 = d3::na::Matrix3<f64>;

fn m3(a: &mut Args) -> M3 { let v: Vec<f64> = (0..9).map(|_| a.f()).collect(); M3::from_row_slice(&v) }
fn hm3(m: &M3) -> String { (0..3).map(|i| (0..3).map(|j| hx(m[(i, j)])).collect::<Vec<_>>().join(" ")).collect::<Vec<_>>().join(" ") }
fn quat(a: &mut Args) -> d3::na::UnitQuaternion<f64> {
    let (i, j, k, w) = (a.f(), a.f(), a.f(), a.f());
    d3::na::Unit::new_unchecked(d3::na::Quaternion::new(w, i, j, k))
}
fn same(x: f64, y: f64) -> bool { x.to_bits() == y.to_bits() || (x == 0.0 && y == 0.0) || (x.is_nan() && y.is_nan()) }

pub fn exec(func: &str, a: &mut Args) -> String {
    match func {
        // with_inertia_matrix(com, mass, M); the case also carries nalgebra's `M.symmetric_eigen()` (values, vectors row-major)
        // for the Lean model of the post-processing — checked here to be what the real call sees
        "mp3_wim" => { let c = d3::p(a); let m = a.f(); let mt = m3(a); let vals = d3::v(a); let vecs = m3(a);
            let e = mt.symmetric_eigen();
            let fresh = (0..3).all(|i| same(e.eigenvalues[i], vals[i])) && (0..3).all(|i| (0..3).all(|j| same(e.eigenvectors[(i, j)], vecs[(i, j)])));
            if !fresh { "stale-eigen".into() } else { fmp3(&MP3::with_inertia_matrix(c, m, mt)) } }
        // the nalgebra primitives behind the principal frame, on ARBITRARY rotation matrices (all four branches, exact ties)
        "quat_from_rotmat" => { let m = m3(a);
            let mut q = d3::na::UnitQuaternion::from_rotation_matrix(&d3::na::Rotation3::from_matrix_unchecked(m));
            let n = q.renormalize();
            format!("{} {}", fquat(&q), ff(n)) }
        "mp3_reconstruct_inv" => { let p = mp3(a); fm3(&p.reconstruct_inverse_inertia_matrix()) }
        "mp3_world_inv_sqrt" => { let p = mp3(a); let q = quat(a); let s = p.world_inv_inertia_sqrt(&q);
            format!("{} {} {} {} {} {}", ff(s.m11), ff(s.m12), ff(s.m13), ff(s.m22), ff(s.m23), ff(s.m33)) }
        "mp3_set_mass" => { let mut p = mp3(a); let m = a.f(); let adj = a.b(); p.set_mass(m, adj);
            format!("{} {} {}", fmp3(&p), ff(p.mass()), d3::fv(&p.principal_inertia())) }
        "mp2_set_mass" => { let mut p = mp2(a); let m = a.f(); let adj = a.b(); p.set_mass(m, adj);
            format!("{} {} {}", fmp2(&p), ff(p.mass()), ff(p.principal_inertia())) }
        // `+=`, `-=`, `zero()`, `zero().is_zero()`
        "mp2_assign" => { let x = mp2(a); let y = mp2(a); let mut s = x; s += y; let mut d = x; d -= y;
            let z = d2::na::zero::<MP2>();
            format!("{} {} {} {}", fmp2(&s), fmp2(&d), fmp2(&z), b(z == d2::na::zero::<MP2>())) }
        "mp3_assign" => { let x = mp3(a); let y = mp3(a); let mut s = x; s += y; let mut d = x; d -= y;
            let z = d3::na::zero::<MP3>();
            format!("{} {} {}", fmc3(&s), fmc3(&d), fmp3(&z)) }
        // fold of `+` from `zero()` (what `AddAssign` in a loop does) — to be compared with `Sum`
        "mp2_fold" => { let n = a.u(); let v: Vec<MP2> = (0..n).map(|_| mp2(a)).collect();
            fmp2(&v.into_iter().fold(d2::na::zero::<MP2>(), |s, p| s + p)) }
        _ => shape_exec(func, a),
    }
}

/// `Shape::mass_properties` through `&dyn Shape` for every 3-D / 2-D shape kind
fn shape_exec(func: &str, a: &mut Args) -> String {
    match func {
        "shape3" => {
            use crate::p3::shape::*;
            let d = a.f(); let kind = a.u();
            let s: Box<dyn Shape> = match kind {
                0 => Box::new(Ball::new(a.f())),
                1 => Box::new(Cuboid::new(d3::v(a))),
                2 => { let hh = a.f(); let r = a.f(); Box::new(Cylinder::new(hh, r)) }
                3 => { let hh = a.f(); let r = a.f(); Box::new(Cone::new(hh, r)) }
                4 => { let (p, q) = (d3::p(a), d3::p(a)); Box::new(Triangle::new(p, q, d3::p(a))) }
                5 => { let (p, q) = (d3::p(a), d3::p(a)); Box::new(Segment::new(p, q)) }
                6 => { let n = d3::v(a); Box::new(HalfSpace::new(d3::na::Unit::new_normalize(n))) }
                7 => { let n = a.u(); let v: Vec<P3> = (0..n).map(|_| d3::p(a)).collect(); Box::new(Polyline::new(v, None)) }
                8 => { let (nr, nc) = (a.u(), a.u()); let h: Vec<f64> = (0..nr * nc).map(|_| a.f()).collect(); let sc = d3::v(a);
                       Box::new(HeightField::new(d3::na::DMatrix::from_row_slice(nr, nc, &h), sc)) }
                10 => { let he = d3::v(a); let br = a.f(); Box::new(RoundCuboid { inner_shape: Cuboid::new(he), border_radius: br }) }
                11 => { let hh = a.f(); let r = a.f(); let br = a.f(); Box::new(RoundCylinder { inner_shape: Cylinder::new(hh, r), border_radius: br }) }
                12 => { let hh = a.f(); let r = a.f(); let br = a.f(); Box::new(RoundCone { inner_shape: Cone::new(hh, r), border_radius: br }) }
                _ => { let (p, q, r3) = (d3::p(a), d3::p(a), d3::p(a)); let br = a.f(); Box::new(RoundTriangle { inner_shape: Triangle::new(p, q, r3), border_radius: br }) }
            };
            fmp3(&s.mass_properties(d))
        }
        // Capsule through `&dyn Shape` (the principal frame goes through acos/sin/cos: judged by from_capsule3_frame)
        "shape3_capsule" => {
            use crate::p3::shape::*;
            let d = a.f(); let (p, q) = (d3::p(a), d3::p(a)); let r = a.f();
            let c = Capsule::new(p, q, r); let s: &dyn Shape = &c; let m = s.mass_properties(d);
            format!("{} {} {}", d3::fp(&m.local_com), ff(m.inv_mass), d3::fv(&m.inv_principal_inertia_sqrt))
        }
        "shape2" => {
            use crate::p2::shape::*;
            let d = a.f(); let kind = a.u();
            let s: Box<dyn Shape> = match kind {
                0 => Box::new(Ball::new(a.f())),
                1 => Box::new(Cuboid::new(d2::v(a))),
                4 => { let (p, q) = (d2::p(a), d2::p(a)); Box::new(Triangle::new(p, q, d2::p(a))) }
                5 => { let (p, q) = (d2::p(a), d2::p(a)); Box::new(Segment::new(p, q)) }
                6 => { let n = d2::v(a); Box::new(HalfSpace::new(d2::na::Unit::new_normalize(n))) }
                7 => { let n = a.u(); let v: Vec<P2> = (0..n).map(|_| d2::p(a)).collect(); Box::new(Polyline::new(v, None)) }
                8 => { let n = a.u(); let h: Vec<f64> = (0..n).map(|_| a.f()).collect(); let sc = d2::v(a);
                       Box::new(HeightField::new(d2::na::DVector::from_vec(h), sc)) }
                10 => { let he = d2::v(a); let br = a.f(); Box::new(RoundCuboid { inner_shape: Cuboid::new(he), border_radius: br }) }
                _ => { let (p, q, r3) = (d2::p(a), d2::p(a), d2::p(a)); let br = a.f(); Box::new(RoundTriangle { inner_shape: Triangle::new(p, q, r3), border_radius: br }) }
            };
            fmp2(&s.mass_properties(d))
        }
        // Compound (3-D) of balls / cuboids / cylinders through `Shape::mass_properties`: mass, com, principal inertias
        "compound3_shape" | "compound3_pin" => {
            use crate::p3::shape::*;
            let d = a.f(); let n = a.u();
            let mut shapes: Vec<(d3::Isometry<f64>, SharedShape)> = Vec::new();
            for _ in 0..n {
                let m = d3::iso(a);
                match a.u() {
                    0 => { let r = a.f(); shapes.push((m, SharedShape::new(Ball::new(r)))); }
                    1 => { let he = d3::v(a); shapes.push((m, SharedShape::new(Cuboid::new(he)))); }
                    2 => { let hh = a.f(); let r = a.f(); shapes.push((m, SharedShape::new(Cylinder::new(hh, r)))); }
                    _ => { let hh = a.f(); let r = a.f(); shapes.push((m, SharedShape::new(Cone::new(hh, r)))); }
                }
            }
            if shapes.is_empty() { "none".into() } else {
                let c = Compound::new(shapes); let s: &dyn Shape = &c; let m = s.mass_properties(d);
                if func == "compound3_shape" { fmc3(&m) } else { format!("{} {}", fmc3(&m), d3::fv(&m.principal_inertia())) } }
        }
        // Compound (2-D) of 1..9 placed parts of FIVE kinds (ball / cuboid / convex polygon / triangle / zero-area Segment; composite parts are rejected by Compound::new) through `&dyn Shape`
        "compound2_shape" => {
            use crate::p2::shape::{Ball, Compound, ConvexPolygon, Cuboid, Segment, Shape, SharedShape, Triangle};
            let d = a.f(); let n = a.u();
            let mut shapes: Vec<(d2::Isometry<f64>, SharedShape)> = Vec::new();
            let mut rejected = false;
            for _ in 0..n {
                let m = d2::iso(a);
                match a.u() {
                    0 => { let r = a.f(); shapes.push((m, SharedShape::new(Ball::new(r)))); }
                    1 => { let he = d2::v(a); shapes.push((m, SharedShape::new(Cuboid::new(he)))); }
                    2 => { let v = pts2(a);
                        match ConvexPolygon::from_convex_polyline_unmodified(v) { Some(p) => shapes.push((m, SharedShape::new(p))), None => rejected = true } }
                    3 => { let (p, q) = (d2::p(a), d2::p(a)); shapes.push((m, SharedShape::new(Triangle::new(p, q, d2::p(a))))); }
                    _ => { let (p, q) = (d2::p(a), d2::p(a)); shapes.push((m, SharedShape::new(Segment::new(p, q)))); }
                }
            }
            if rejected || shapes.is_empty() { "none".into() } else {
                let c = Compound::new(shapes); let s: &dyn Shape = &c; fmp2(&s.mass_properties(d)) }
        }
        // `transform_by` commutes with `+` (3-D): `(x + y).transform_by(m)` and `x.transform_by(m) + y.transform_by(m)`;
        // mass and centre of both sides, then the two reconstructed tensors
        "mp3_tadd" => { let x = mp3(a); let y = mp3(a); let m = d3::iso(a);
            let l = (x + y).transform_by(&m); let r = x.transform_by(&m) + y.transform_by(&m);
            format!("{} {}", fmc3(&l), fmc3(&r)) }
        "mp3_tadd_tensor" => { let x = mp3(a); let y = mp3(a); let m = d3::iso(a);
            let l = (x + y).transform_by(&m); let r = x.transform_by(&m) + y.transform_by(&m);
            format!("{} {}", fm3(&l.reconstruct_inertia_matrix()), fm3(&r.reconstruct_inertia_matrix())) }
        // world-space accessors: `world_com(pos)` (2-D, 3-D) and the 2-D `world_inv_inertia_sqrt(rot)`
        "mp2_world" => { let p = mp2(a); let m = d2::iso(a);
            format!("{} {}", d2::fp(&p.world_com(&m)), ff(p.world_inv_inertia_sqrt(&m.rotation))) }
        "mp3_world_com" => { let p = mp3(a); let m = d3::iso(a); d3::fp(&p.world_com(&m)) }
        _ => "nofn".into(),
    }
}

// ------------------------------------------------------------------ generators

/// symmetric 3x3 matrices for `with_inertia_matrix`.  Families (tag printed by `dbg_families`):
/// 0 R diag(d) Rᵀ with well separated d; 1 two equal / nearly equal eigenvalues; 2 all equal (multiple of 1);
/// 3 diagonal in every order (det of the eigenvector matrix of either sign); 4 block diagonal; 5 a zero or slightly
/// negative eigenvalue (what `Sub` produces); 6 tensor of a real `+` / `Sum` (shifted point masses); 7 rotations by ~180°
/// (trace of the eigenvector matrix ≤ 0: the three non-trace branches of `from_rotation_matrix`)
pub fn gen_sym(r: &mut Rng, lat: bool, fam: u64) -> M3 {
    let q = d3::gen_quat(r, lat);
    let rot = d3::na::UnitQuaternion::new_unchecked(d3::na::Quaternion::new(q[3], q[0], q[1], q[2])).to_rotation_matrix().into_inner();
    let ev = |r: &mut Rng| if lat { *r.pick(&[0.25, 1.0, 2.25, 4.0, 16.0]) } else { r.logu(1e-2, 1e2) };
    let conj = |rot: &M3, d: V3| { let m = rot * M3::from_diagonal(&d) * rot.transpose(); sym(&m) };
    match fam {
        0 => { let a = ev(r); conj(&rot, V3::new(a, a * 2.5 + 1.0, a * 7.0 + 3.0)) }
        1 => { let a = ev(r); let b = ev(r); let e = if lat { 0.0 } else { *r.pick(&[0.0, 1e-13, 1e-9, 1e-5]) * a };
               let d = match r.below(3) { 0 => V3::new(a, a + e, b), 1 => V3::new(b, a, a + e), _ => V3::new(a + e, b, a) }; conj(&rot, d) }
        2 => { let a = ev(r); M3::from_diagonal(&V3::new(a, a, a)) }
        3 => { let d = [ev(r), ev(r) + 20.0, ev(r) + 50.0]; let p = [[0, 1, 2], [0, 2, 1], [1, 0, 2], [1, 2, 0], [2, 0, 1], [2, 1, 0]][r.below(6) as usize];
               M3::from_diagonal(&V3::new(d[p[0]], d[p[1]], d[p[2]])) }
        4 => { let (a, b2, c, o) = (ev(r) + 1.0, ev(r) + 1.0, ev(r), if lat { 0.5 } else { r.uniform(-1.0, 1.0) });
               match r.below(3) { 0 => M3::new(a, o, 0.0, o, b2, 0.0, 0.0, 0.0, c), 1 => M3::new(c, 0.0, 0.0, 0.0, a, o, 0.0, o, b2), _ => M3::new(a, 0.0, o, 0.0, c, 0.0, o, 0.0, b2) } }
        5 => { let a = ev(r); let z = *r.pick(&[0.0, -1e-12, -1e-7, 0.0, -0.5]) * a;
               let d = match r.below(3) { 0 => V3::new(z, a, a * 3.0), 1 => V3::new(a, z, a * 2.0), _ => V3::new(a * 2.0, a, z) }; conj(&rot, d) }
        6 => { // Σ m_k (|c_k|² 1 − c_k c_kᵀ) + own tensors, about the common centre
               let n = 2 + r.below(3); let mut m = M3::zeros();
               for _ in 0..n { let c = d3::gen_v(r, lat, 4.0); let w = ev(r); m += (M3::from_diagonal_element(c.norm_squared()) - c * c.transpose()) * w + M3::from_diagonal_element(ev(r) * 0.1); }
               sym(&m) }
        _ => { // eigenvector matrix near a half-turn about a coordinate axis or a diagonal axis
               let ax = match r.below(4) { 0 => V3::new(1.0, 0.0, 0.0), 1 => V3::new(0.0, 1.0, 0.0), 2 => V3::new(0.0, 0.0, 1.0), _ => V3::new(1.0, 1.0, 1.0) };
               let ang = std::f64::consts::PI - if lat { 0.0 } else { r.uniform(0.0, 0.3) };
               let rot = d3::na::UnitQuaternion::from_axis_angle(&d3::na::Unit::new_normalize(ax + if lat { V3::zeros() } else { d3::gen_v(r, false, 0.2) }), ang).to_rotation_matrix().into_inner();
               let a = ev(r); conj(&rot, V3::new(a, a * 2.0 + 1.0, a * 5.0 + 2.0)) }
    }
}
fn sym(m: &M3) -> M3 { let mut s = *m; for i in 0..3 { for j in 0..i { s[(j, i)] = s[(i, j)]; } } s }

fn wim_case(r: &mut Rng, lat: bool, fam: u64) -> String {
    let m = gen_sym(r, lat, fam);
    let e = m.symmetric_eigen();
    let com = d3::gen_p(r, lat, 10.0);
    let mass = if r.below(8) == 0 { 0.0 } else if lat { *r.pick(&[0.5, 1.0, 3.0]) } else { r.logu(1e-2, 1e3) };
    format!("{} {} {} {} {}", d3::hp(&com), hx(mass), hm3(&m), d3::hv(&e.eigenvalues), hm3(&e.eigenvectors))
}

fn hpts3v(v: &[P3]) -> String { format!("{} {}", v.len(), v.iter().map(d3::hp).collect::<Vec<_>>().join(" ")) }

pub fn gen(r: &mut Rng, thorough: bool, v: &mut Vec<(String, String)>) {
    let n = if thorough { 3000 } else { 300 };
    for it in 0..n {
        let lat = it % 2 == 0;
        let d = density(r, lat);
        v.push(("mp3_wim".into(), wim_case(r, lat, (it as u64 / 2) % 8)));
        { // rotation matrices: lattice quaternions (half / quarter / third turns: trace 0 or -1, tied diagonal entries),
          // random ones, and random ones composed with a half-turn (trace <= 0)
          let q = d3::gen_quat(r, lat);
          let mut u = d3::na::UnitQuaternion::new_unchecked(d3::na::Quaternion::new(q[3], q[0], q[1], q[2]));
          if it % 4 >= 2 { let k = r.below(3) as usize; let mut ax = V3::zeros(); ax[k] = 1.0;
              u = u * d3::na::UnitQuaternion::new_unchecked(d3::na::Quaternion::new(0.0, ax.x, ax.y, ax.z)); }
          v.push(("quat_from_rotmat".into(), hm3(&u.to_rotation_matrix().into_inner()))); }
        let x3 = gen_mp3(r, lat); let y3 = gen_mp3(r, lat);
        v.push(("mp3_reconstruct_inv".into(), hmp3(&x3)));
        let q = d3::gen_quat(r, lat);
        v.push(("mp3_world_inv_sqrt".into(), format!("{} {} {} {} {}", hmp3(&x3), hx(q[0]), hx(q[1]), hx(q[2]), hx(q[3]))));
        let nm = if lat { *r.pick(&[0.0, 0.5, 1.0, 3.0]) } else { r.logu(1e-2, 1e3) };
        v.push(("mp3_set_mass".into(), format!("{} {} {}", hmp3(&x3), hx(nm), b(r.below(4) != 0))));
        let x2 = gen_mp2(r, lat); let y2 = gen_mp2(r, lat);
        v.push(("mp2_set_mass".into(), format!("{} {} {}", hmp2(&x2), hx(nm), b(r.below(4) != 0))));
        // assign operators: half `(z + y) -= y` histories
        let (ax, ay) = if r.bool() { (x2, y2) } else { let z = gen_full_mp2(r, lat); (z + y2, y2) };
        v.push(("mp2_assign".into(), format!("{} {}", hmp2(&ax), hmp2(&ay))));
        let (bx, by) = if r.bool() { (x3, y3) } else { let z = gen_full_mp3(r, lat); (z + y3, y3) };
        v.push(("mp3_assign".into(), format!("{} {}", hmp3(&bx), hmp3(&by))));
        let k = r.below(7) as usize;
        let ms: Vec<MP2> = (0..k).map(|_| gen_mp2(r, lat)).collect();
        let fs = format!("{} {}", k, ms.iter().map(hmp2).collect::<Vec<_>>().join(" "));
        v.push(("mp2_fold".into(), fs.clone()));
        v.push(("mp2_sum".into(), fs));
        // ---- Shape::mass_properties through `dyn Shape`
        let he3 = d3::gen_he(r, lat); let (hh, rad) = (r.pos_extent(lat), r.pos_extent(lat));
        let br = if r.below(4) == 0 { 0.0 } else if lat { *r.pick(&[0.125, 0.25, 0.5]) } else { r.logu(1e-2, 1.0) };
        let t3: Vec<P3> = (0..3).map(|_| d3::gen_p(r, lat, 4.0)).collect();
        let s3 = match it % 13 {
            0 => format!("0 {}", hx(rad)),
            1 => format!("1 {}", d3::hv(&he3)),
            2 => format!("2 {} {}", hx(hh), hx(rad)),
            3 => format!("3 {} {}", hx(hh), hx(rad)),
            4 => format!("4 {}", t3.iter().map(d3::hp).collect::<Vec<_>>().join(" ")),
            5 => format!("5 {} {}", d3::hp(&t3[0]), d3::hp(&t3[1])),
            6 => { let mut nrm = d3::gen_v(r, lat, 1.0); if nrm.norm() == 0.0 { nrm = V3::new(0.0, 1.0, 0.0); } format!("6 {}", d3::hv(&nrm)) }
            7 => { let np = 2 + r.below(4) as usize; let pv: Vec<P3> = (0..np).map(|_| d3::gen_p(r, lat, 4.0)).collect(); format!("7 {}", hpts3v(&pv)) }
            8 => { let (nr, nc) = (2 + r.below(2) as usize, 2 + r.below(3) as usize);
                   let h: Vec<String> = (0..nr * nc).map(|_| hx(r.coord(lat, 1.0))).collect(); format!("8 {} {} {} {}", nr, nc, h.join(" "), d3::hv(&he3)) }
            9 => format!("10 {} {}", d3::hv(&he3), hx(0.0)),
            10 => format!("10 {} {}", d3::hv(&he3), hx(br)),
            11 => if r.bool() { format!("11 {} {} {}", hx(hh), hx(rad), hx(br)) } else { format!("12 {} {} {}", hx(hh), hx(rad), hx(br)) },
            _ => format!("13 {} {}", t3.iter().map(d3::hp).collect::<Vec<_>>().join(" "), hx(br)),
        };
        v.push(("shape3".into(), format!("{} {}", hx(d), s3)));
        if it % 3 == 0 {
            let pb = match r.below(4) { 0 => t3[0], 1 => t3[0] + V3::new(0.0, hh, 0.0), 2 => t3[0] + V3::new(2.0, -1.0, 2.0) * hh, _ => t3[1] };
            v.push(("shape3_capsule".into(), format!("{} {} {} {}", hx(d), d3::hp(&t3[0]), d3::hp(&pb), hx(rad))));
        }
        let he2 = d2::gen_he(r, lat);
        let t2 = gen_tri2(r, lat);
        let s2 = match it % 9 {
            0 => format!("0 {}", hx(rad)),
            1 => format!("1 {}", d2::hv(&he2)),
            2 => format!("4 {}", htri(&t2)),
            3 => format!("5 {} {}", d2::hp(&t2[0]), d2::hp(&t2[1])),
            4 => { let mut nrm = d2::gen_v(r, lat, 1.0); if nrm.norm() == 0.0 { nrm = d2::Vector::new(0.0, 1.0); } format!("6 {}", d2::hv(&nrm)) }
            5 => { let np = 2 + r.below(4) as usize; let pv: Vec<P2> = (0..np).map(|_| d2::gen_p(r, lat, 4.0)).collect(); format!("7 {}", hpts(&pv)) }
            6 => { let nh = 2 + r.below(4) as usize; let h: Vec<String> = (0..nh).map(|_| hx(r.coord(lat, 1.0))).collect(); format!("8 {} {} {}", nh, h.join(" "), d2::hv(&he2)) }
            7 => format!("10 {} {}", d2::hv(&he2), hx(br)),
            _ => format!("13 {} {}", htri(&t2), hx(br)),
        };
        v.push(("shape2".into(), format!("{} {}", hx(d), s2)));
        // ---- Compound (3-D) with 1..7 parts, incl. coincident parts and exact quarter turns
        { let np = 1 + r.below(7) as usize; let mut parts: Vec<String> = Vec::new();
          for _ in 0..np {
              let pm = d3::gen_iso(r, lat, if lat { 4.0 } else { 20.0 });
              let body = match r.below(4) {
                  0 => format!("0 {}", hx(r.pos_extent(lat))),
                  1 => format!("1 {}", d3::hv(&d3::gen_he(r, lat))),
                  2 => format!("2 {} {}", hx(r.pos_extent(lat)), hx(r.pos_extent(lat))),
                  _ => format!("3 {} {}", hx(r.pos_extent(lat)), hx(r.pos_extent(lat))),
              };
              parts.push(format!("{} {}", d3::hiso(&pm), body));
          }
          let cs = format!("{} {} {}", hx(d), np, parts.join(" "));
          v.push(("compound3_shape".into(), cs.clone()));
          v.push(("compound3_pin".into(), cs)); }
        // ---- Compound (2-D), 1..9 parts of five kinds (most cases have MORE than 4 parts), through `&dyn Shape`
        { let np = if it % 4 == 0 { 1 + r.below(4) as usize } else { 5 + r.below(5) as usize }; let mut parts: Vec<String> = Vec::new();
          for _ in 0..np {
              let pm = d2::gen_iso(r, lat, if lat { 4.0 } else { 20.0 });
              let body = match r.below(5) {
                  0 => format!("0 {}", hx(r.pos_extent(lat))),
                  1 => format!("1 {}", d2::hv(&d2::gen_he(r, lat))),
                  2 => { let mut pv = gen_convex(r, lat, thorough);
                         let area2: f64 = (0..pv.len()).map(|i| { let (p, q) = (pv[i], pv[(i + 1) % pv.len()]); p.x * q.y - p.y * q.x }).sum();
                         if area2 < 0.0 { pv.reverse(); }
                         format!("2 {}", hpts(&pv)) }
                  3 => format!("3 {}", htri(&gen_tri2(r, lat))),
                  _ => { let t = gen_tri2(r, lat); format!("4 {} {}", d2::hp(&t[0]), d2::hp(&t[1])) }
              };
              parts.push(format!("{} {}", d2::hiso(&pm), body));
          }
          v.push(("compound2_shape".into(), format!("{} {} {}", hx(d), np, parts.join(" ")))); }
        // ---- transform_by vs + (3-D): rotations AND translations, zero() / massless operands included by gen_mp3
        { let (xa, ya) = if r.bool() { (x3, y3) } else { (gen_full_mp3(r, lat), gen_full_mp3(r, lat)) };
          let mi = d3::gen_iso(r, lat, if lat { 4.0 } else { 50.0 });
          let ts = format!("{} {} {}", hmp3(&xa), hmp3(&ya), d3::hiso(&mi));
          v.push(("mp3_tadd".into(), ts.clone()));
          v.push(("mp3_tadd_tensor".into(), ts)); }
        // ---- world-space accessors
        { let mi2 = d2::gen_iso(r, lat, 100.0);
          v.push(("mp2_world".into(), format!("{} {}", hmp2(&x2), d2::hiso(&mi2))));
          let mi3 = d3::gen_iso(r, lat, 100.0);
          v.push(("mp3_world_com".into(), format!("{} {}", hmp3(&x3), d3::hiso(&mi3)))); }
    }
}
