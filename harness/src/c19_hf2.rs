// C19 (round fu5): the SCALED 2-D HeightField must behave as the scaled shape for the cell walk of its ray cast.
// `hf2_scaled_ray`: build a 2-D HeightField (own scale of any sign, removed segments), scale it through `scaled` (VIA 0),
// `Shape::scale_dyn` (VIA 1) or by constructing it with the product scale (VIA 2), and cast one local ray.
//   hf2_scaled_ray  n h[n] sx sy nrem (i)*nrem  s(2) VIA  o(2) d(2) max solid        (wire format of the heightfield = C04's `rc_hf2`)
//   output: none | some toi nx ny (f|v)<id>
// `hf2_scaled_box`: the bounding box kept by `set_scale` (same head, no ray):  mins(2) maxs(2)
// `include!`d by c19.rs (module `hf2s`).
use crate::util::*;

pub mod h2 {
    use super::*;
    use crate::p2::query::{Ray, RayCast};
    use crate::p2::shape::*;
    type P2 = d2::Point<f64>;

    fn feat(f: FeatureId) -> String { match f { FeatureId::Vertex(i) => format!("v{}", i), FeatureId::Face(i) => format!("f{}", i), FeatureId::Unknown => "u".into() } }

    fn scaled_hf(a: &mut Args) -> Option<HeightField> {
        let n = a.u(); let hs: Vec<f64> = (0..n).map(|_| a.f()).collect(); let sc = d2::v(a);
        let nrem = a.u(); let rem: Vec<usize> = (0..nrem).map(|_| a.u()).collect();
        let s = d2::v(a); let via = a.u();
        let mk = |sc: d2::Vector<f64>| { let mut hf = HeightField::new(crate::p2::na::DVector::from_vec(hs.clone()), sc); for i in &rem { hf.set_segment_removed(*i, true); } hf };
        Some(match via {
            0 => mk(sc).scaled(&s),
            1 => match mk(sc).scale_dyn(&s, 8) { None => return None, Some(b) => b.as_heightfield()?.clone() },
            _ => mk(sc.component_mul(&s)),
        })
    }

    pub fn exec(func: &str, a: &mut Args) -> Option<String> {
        Some(match func {
            "hf2_scaled_ray" => {
                let hf = match scaled_hf(a) { Some(h) => h, None => return Some("noshape".into()) };
                let o = d2::p(a); let d = d2::v(a); let m = a.f(); let solid = a.b();
                match hf.cast_local_ray_and_get_normal(&Ray::new(o, d), m, solid) {
                    None => "none".into(),
                    Some(i) => format!("some {} {} {}", ff(i.time_of_impact), d2::fv(&i.normal), feat(i.feature)),
                }
            }
            // `map_elements_in_local_aabb` of the scaled field: hf2_scaled_elems <head> NB (mins(2) maxs(2))*
            //   output: segs K (a(2) b(2))*  boxes NB (k (id a(2) b(2))*)*
            "hf2_scaled_elems" => {
                let hf = match scaled_hf(a) { Some(h) => h, None => return Some("noshape".into()) };
                let nb = a.u();
                let mut o = format!("segs {}", hf.segments().count());
                for g in hf.segments() { o.push_str(&format!(" {} {}", d2::fp(&g.a), d2::fp(&g.b))); }
                o.push_str(&format!(" boxes {}", nb));
                for _ in 0..nb {
                    let lo = d2::p(a); let hi = d2::p(a);
                    let mut got: Vec<(u32, Segment)> = Vec::new();
                    hf.map_elements_in_local_aabb(&crate::p2::bounding_volume::Aabb::new(lo, hi), &mut |i, g| got.push((i, *g)));
                    o.push_str(&format!(" {}", got.len()));
                    for (i, g) in got { o.push_str(&format!(" {} {} {}", i, d2::fp(&g.a), d2::fp(&g.b))); }
                }
                o
            }
            "hf2_scaled_box" => {
                let hf = match scaled_hf(a) { Some(h) => h, None => return Some("noshape".into()) };
                let bx = hf.root_aabb();
                format!("{} {}", d2::fp(&bx.mins), d2::fp(&bx.maxs))
            }
            _ => return None,
        })
    }

    // ------------------------------------------------------------------------------------------ generator
    type V2 = d2::Vector<f64>;
    fn sg(r: &mut Rng) -> f64 { if r.bool() { 1.0 } else { -1.0 } }

    pub fn gen(r: &mut Rng, thorough: bool, v: &mut Vec<(String, String)>) {
        let n_it = if thorough { 1600 } else { 160 };
        let mut fam = [0usize; 8];
        for it in 0..n_it {
            let lat = it % 2 == 0;
            let n = 2 + r.below(8) as usize;
            let pat = r.below(5);
            let hs: Vec<f64> = (0..n).map(|i| match pat { 0 => 0.5, 1 => (i % 2) as f64 * 0.5 - 0.25, _ => if lat { r.range(-4, 4) as f64 * 0.25 } else { r.uniform(-1.0, 1.0) } }).collect();
            // the field's own scale: any sign on both axes
            let sc = if lat { V2::new(*r.pick(&[1.0, 2.0, 4.0, 8.0]) * sg(r), *r.pick(&[0.5, 1.0, 2.0]) * sg(r)) } else { V2::new(r.logu(0.3, 10.0) * sg(r), r.logu(0.3, 3.0) * sg(r)) };
            // the scale factor: every sign pattern in turn, magnitudes uniform / anisotropic over the domain
            let pattern = (it / 2) % 4;
            let mag = |r: &mut Rng| if lat { *r.pick(&[0.015625, 0.25, 0.5, 1.0, 2.0, 3.0, 16.0]) } else { r.logu(1e-2, 1e2) };
            let (mx, my) = if r.below(3) == 0 { let m = mag(r); (m, m) } else { (mag(r), mag(r)) };
            let s = V2::new(if pattern & 1 != 0 { -mx } else { mx }, if pattern & 2 != 0 { -my } else { my });
            let via = (it / 8) % 3;
            let mut rem = Vec::new();
            if r.below(3) == 0 { for i in 0..n - 1 { if r.below(3) == 0 { rem.push(i); } } }
            let head = format!("{} {} {} {}{} {} {}", n, hxs(hs.iter()), d2::hv(&sc), rem.len(), rem.iter().map(|i| format!(" {}", i)).collect::<String>(), d2::hv(&s), via);
            if it % 4 == 0 { v.push(("hf2_scaled_box".into(), head.clone())); }
            if it % 2 == 1 || it % 8 == 0 {
                // query boxes around points of the scaled cells (thin, cell-sized, field-sized), all inside the domain
                let tot = sc.component_mul(&s);
                let vt = |i: usize| -> V2 { V2::new((-0.5 + i as f64 / (n - 1) as f64) * tot.x, hs[i] * tot.y) };
                let mut t = String::from("3");
                for _ in 0..3 { let k = r.below(n as u64 - 1) as usize; let w = if lat { 0.25 * r.below(5) as f64 } else { r.unit() };
                    let c = vt(k) + (vt(k + 1) - vt(k)) * w;
                    let cw = (tot.x / (n - 1) as f64).abs();
                    let h = V2::new(cw * *r.pick(&[0.0625, 0.5, 1.5, 4.0]), (tot.y.abs() + 0.01) * *r.pick(&[0.0625, 0.5, 2.0]));
                    t.push_str(&format!(" {} {}", d2::hv(&(c - h)), d2::hv(&(c + h)))); }
                v.push(("hf2_scaled_elems".into(), format!("{} {}", head, t)));
            }
            let tot = sc.component_mul(&s);
            let vtx = |i: usize| -> P2 { P2::new((-0.5 + i as f64 / (n - 1) as f64) * tot.x, hs[i] * tot.y) };
            let (mut ymin, mut ymax) = (f64::MAX, -f64::MAX);
            for i in 0..n { let y = vtx(i).y; ymin = ymin.min(y); ymax = ymax.max(y); }
            let hw = 0.5 * tot.x.abs(); let hh = (ymax - ymin).max(0.25 * tot.y.abs());
            for _ in 0..4 {
                let k = r.below(n as u64 - 1) as usize; let (pa, pb) = (vtx(k), vtx(k + 1));
                let t = if lat { *r.pick(&[0.0, 0.25, 0.5, 1.0]) } else { r.unit() };
                let p = pa + (pb - pa) * t;
                let f = r.below(8) as usize; fam[f] += 1;
                let (o, d) = match f {
                    // aimed at a point of a cell from anywhere around the field (crosses several cells, either way)
                    0 | 1 => { let off = V2::new(hw * if lat { r.lattice(12, 2) } else { r.uniform(-3.0, 3.0) }, hh * if lat { r.lattice(12, 2) } else { r.uniform(-3.0, 3.0) });
                               let off = if off.norm_squared() == 0.0 { V2::new(hw, hh) } else { off }; (p + off, -off) }
                    // vertical ray over a vertex / inside a cell
                    2 => { let up = r.bool(); let gap = hh * if lat { r.range(-1, 6) as f64 * 0.5 } else { r.uniform(-0.5, 3.0) };
                           if up { (P2::new(p.x, ymin - gap), V2::new(0.0, 1.0)) } else { (P2::new(p.x, ymax + gap), V2::new(0.0, -1.0)) } }
                    // nearly horizontal ray at a height inside the relief: from outside through a side face, or from inside, either way
                    3 | 4 => { let x0 = if r.bool() { hw * 2.0 * if lat { *r.pick(&[-1.0, -0.75, 0.75, 1.0]) } else { r.uniform(-1.5, 1.5) } } else { p.x };
                               let dirx = if x0 > hw { -1.0 } else if x0 < -hw { 1.0 } else { sg(r) };
                               let ymid = if lat { (ymin + ymax) * 0.5 } else { r.uniform(ymin, ymax) };
                               (P2::new(x0, ymid), V2::new(dirx * hw, hh * if lat { *r.pick(&[0.0, 0.0, 0.125, -0.125]) } else { r.uniform(-0.2, 0.2) })) }
                    // starting on the surface
                    5 => (p, V2::new(hw * if lat { r.lattice(8, 2) } else { r.uniform(-1.0, 1.0) }, hh * if lat { r.lattice(8, 2) } else { r.uniform(-1.0, 1.0) })),
                    // from a far cell towards this one, skimming over the relief
                    6 => { let j = r.below(n as u64) as usize; let q = vtx(j); let o = P2::new(q.x, ymax + hh * if lat { 0.5 } else { r.uniform(0.1, 1.0) }); (o, p - o) }
                    _ => (p + V2::new(hw * r.uniform(-2.0, 2.0), hh * r.uniform(-2.0, 2.0)), V2::new(hw * r.uniform(-1.0, 1.0), hh * r.uniform(-1.0, 1.0))),
                };
                let d = if d.norm_squared() == 0.0 { V2::new(hw, 0.25 * hh) } else { d };
                let d = d * *r.pick(&[0.25, 1.0, 1.0, 4.0]);
                let m = match r.below(4) { 0 => *r.pick(&[0.5, 1.0, 2.0, 8.0]), _ => f64::MAX };
                v.push(("hf2_scaled_ray".into(), format!("{} {} {} {} {}", head, d2::hp(&o), d2::hv(&d), hx(m), b(r.bool()))));
            }
        }
        // 3-D heightfields (own scale of any sign, removed / zigzag cells), scaled with every sign pattern: the cells a box touches
        let n3 = if thorough { 800 } else { 80 };
        for it in 0..n3 {
            use crate::util::d3;
            type W3 = d3::Vector<f64>;
            let lat = it % 2 == 0;
            let pattern = (it / 2) % 8;
            let sc = super::super::acc::g::scale3(r, lat, pattern as u64);
            let via = (it / 16) % 2;
            let nr = 2 + r.below(4) as usize; let nc = 2 + r.below(4) as usize;
            let hs: Vec<f64> = (0..nr * nc).map(|_| if lat { r.lattice(8, 1) } else { r.uniform(-2.0, 2.0) }).collect();
            let e = |r: &mut Rng| if lat { *r.pick(&[0.25, 0.5, 1.0, 1.5, 2.0, 3.0]) } else { r.logu(1e-1, 1e1) };
            let hsc = W3::new(e(r) * sg(r), e(r) * sg(r), e(r) * sg(r));
            let mut s = format!("{} {}", nr, nc);
            for h in &hs { s.push(' '); s.push_str(&hx(*h)); }
            s.push(' '); s.push_str(&d3::hv(&hsc));
            s.push_str(&format!(" {}", (nr - 1) * (nc - 1)));
            for _ in 0..(nr - 1) * (nc - 1) { let st = if r.below(3) == 0 { r.below(8) } else { r.below(2) }; s.push_str(&format!(" {}", st)); }
            let tot = hsc.component_mul(&sc);
            let node = |i: usize, j: usize| W3::new((-0.5 + j as f64 / (nc as f64 - 1.0)) * tot.x, hs[i * nc + j] * tot.y, (-0.5 + i as f64 / (nr as f64 - 1.0)) * tot.z);
            let mut t = String::from("3");
            for _ in 0..3 { let (i, j) = (r.below(nr as u64 - 1) as usize, r.below(nc as u64 - 1) as usize);
                let (wa, wb) = (0.1 + 0.4 * r.unit(), 0.1 + 0.4 * r.unit());
                let c = node(i, j) * (1.0 - wa - wb) + node(i + 1, j) * wa + node(i, j + 1) * wb;
                let h = W3::new(tot.x.abs() / (nc as f64 - 1.0) * *r.pick(&[0.0625, 0.5, 1.5]), (tot.y.abs() + 0.01) * *r.pick(&[0.0625, 0.5, 4.0]), tot.z.abs() / (nr as f64 - 1.0) * *r.pick(&[0.0625, 0.5, 1.5]));
                t.push_str(&format!(" {} {}", d3::hv(&(c - h)), d3::hv(&(c + h)))); }
            v.push(("hf3_scaled_elems".into(), format!("{} {} {} {}", s, d3::hv(&sc), via, t)));
        }
        if std::env::var("VERIF_FAMILIES").is_ok() { eprintln!("C19 hf2_scaled_ray families {:?}", fam); }
    }
}
