// C19 growth: `scale_dyn` of every shape kind through a shape-descriptor protocol, the general dispatch of
// `Cone::scaled`, discretizations (`to_trimesh` / `to_outline` / `to_polyline`) of every shape kind incl. capsules with
// oblique axes and heightfields with removed cells.  `include!`d by c19.rs (module `ext`).
//
// Shape descriptors (3-D):
//   ball R | cuboid HX HY HZ | capsule A(3) B(3) R | cone HH R | cyl HH R | seg A B | tri A B C | hs N(3)
//   poly K pts                       (input only; built with ConvexPolyhedron::from_convex_hull)
//   polyh K pts NT tris NF (first_vertex normal(3))*        (output only)
//   trimesh NV verts NT idx | polyline NV verts NE idx
//   hf NR NC heights(NR*NC, row-major) SX SY SZ NS statuses((NR-1)*(NC-1), row-major, bits zigzag=1 left=2 right=4)
//   hfo <hf body> NTRI tris(9 floats each)                  (output only: what `triangles()` yields)
//   rcuboid HE(3) BR | rcyl HH R BR | rcone HH R BR | rtri A B C BR | rpolyh BR <polyh body>
//   compound K (iso3 desc)*
// 2-D: ball R | cuboid HX HY | capsule A(2) B(2) R | seg A B | tri A B C | hs N(2) | polygon K pts (input: from_convex_hull)
//   polygono K pts K normals (output) | polyline NV verts NE idx | hf N heights SX SY N-1 removed-flags
//   hfo <hf body> NSEG segs(4 floats each) | rcuboid HE BR | rpolygono BR <polygono body> | compound K (iso2 desc)*
use crate::util::*;

pub mod e3 {
    use super::*;
    use crate::p3::na::{self, DMatrix, Unit};
    use crate::p3::shape::*;
    type P3 = d3::Point<f64>;

    pub fn sh(a: &mut Args) -> Box<dyn Shape> {
        match a.tok() {
            "ball" => Box::new(Ball::new(a.f())),
            "cuboid" => Box::new(Cuboid::new(d3::v(a))),
            "capsule" => { let p = d3::p(a); let q = d3::p(a); Box::new(Capsule::new(p, q, a.f())) }
            "cone" => { let hh = a.f(); Box::new(Cone::new(hh, a.f())) }
            "cyl" => { let hh = a.f(); Box::new(Cylinder::new(hh, a.f())) }
            "seg" => { let p = d3::p(a); let q = d3::p(a); Box::new(Segment::new(p, q)) }
            "tri" => { let p = d3::p(a); let q = d3::p(a); let r = d3::p(a); Box::new(Triangle::new(p, q, r)) }
            "hs" => Box::new(HalfSpace::new(Unit::new_unchecked(d3::v(a)))),
            "poly" => { let k = a.u(); let pts: Vec<P3> = (0..k).map(|_| d3::p(a)).collect();
                Box::new(ConvexPolyhedron::from_convex_hull(&pts).expect("convex hull")) }
            "trimesh" => { let nv = a.u(); let vs: Vec<P3> = (0..nv).map(|_| d3::p(a)).collect();
                let nt = a.u(); let ts: Vec<[u32; 3]> = (0..nt).map(|_| [a.u() as u32, a.u() as u32, a.u() as u32]).collect();
                Box::new(TriMesh::new(vs, ts).expect("trimesh")) }
            "polyline" => { let nv = a.u(); let vs: Vec<P3> = (0..nv).map(|_| d3::p(a)).collect();
                let ne = a.u(); let es: Vec<[u32; 2]> = (0..ne).map(|_| [a.u() as u32, a.u() as u32]).collect();
                Box::new(Polyline::new(vs, Some(es))) }
            "hf" => Box::new(hf(a)),
            "rcuboid" => { let he = d3::v(a); Box::new(RoundShape { inner_shape: Cuboid::new(he), border_radius: a.f() }) }
            "rcyl" => { let hh = a.f(); let r = a.f(); Box::new(RoundShape { inner_shape: Cylinder::new(hh, r), border_radius: a.f() }) }
            "rcone" => { let hh = a.f(); let r = a.f(); Box::new(RoundShape { inner_shape: Cone::new(hh, r), border_radius: a.f() }) }
            "rtri" => { let p = d3::p(a); let q = d3::p(a); let r = d3::p(a); Box::new(RoundShape { inner_shape: Triangle::new(p, q, r), border_radius: a.f() }) }
            "compound" => { let k = a.u();
                let parts: Vec<_> = (0..k).map(|_| { let m = d3::iso(a); let s = sh(a); (m, SharedShape(s.into())) }).collect();
                Box::new(Compound::new(parts)) }
            t => panic!("bad shape tag {}", t),
        }
    }

    pub fn hf(a: &mut Args) -> HeightField {
        let nr = a.u(); let nc = a.u();
        let hs: Vec<f64> = (0..nr * nc).map(|_| a.f()).collect();
        let sc = d3::v(a);
        let mut h = HeightField::new(DMatrix::from_fn(nr, nc, |i, j| hs[i * nc + j]), sc);
        let ns = a.u();
        assert_eq!(ns, (nr - 1) * (nc - 1));
        for i in 0..nr - 1 { for j in 0..nc - 1 {
            let st = a.u() as u8;
            h.set_cell_status(i, j, HeightFieldCellStatus::from_bits_truncate(st));
        } }
        h
    }

    fn fpts(ps: &[P3]) -> String { let mut s = format!("{}", ps.len()); for p in ps { s.push(' '); s.push_str(&d3::fp(p)); } s }

    fn fpolyh(p: &ConvexPolyhedron) -> String {
        let (_, idx) = p.to_trimesh();
        let mut s = fpts(p.points());
        s.push_str(&format!(" {}", idx.len()));
        for t in &idx { s.push_str(&format!(" {} {} {}", t[0], t[1], t[2])); }
        s.push_str(&format!(" {}", p.faces().len()));
        for f in p.faces() {
            let first = p.vertices_adj_to_face()[f.first_vertex_or_edge as usize];
            s.push_str(&format!(" {} {}", first, d3::fv(&f.normal)));
        }
        s
    }

    fn fhf(h: &HeightField, with_tris: bool) -> String {
        let (nr, nc) = (h.heights().nrows(), h.heights().ncols());
        let mut s = format!("{} {}", nr, nc);
        for i in 0..nr { for j in 0..nc { s.push(' '); s.push_str(&ff(h.heights()[(i, j)])); } }
        s.push(' '); s.push_str(&d3::fv(h.scale()));
        s.push_str(&format!(" {}", (nr - 1) * (nc - 1)));
        for i in 0..nr - 1 { for j in 0..nc - 1 { s.push_str(&format!(" {}", h.cell_status(i, j).bits())); } }
        if with_tris {
            let ts: Vec<Triangle> = h.triangles().collect();
            s.push_str(&format!(" {}", ts.len()));
            for t in &ts { s.push_str(&format!(" {} {} {}", d3::fp(&t.a), d3::fp(&t.b), d3::fp(&t.c))); }
        }
        s
    }

    pub fn fsh(s: &dyn Shape) -> String {
        match s.as_typed_shape() {
            TypedShape::Ball(b) => format!("ball {}", ff(b.radius)),
            TypedShape::Cuboid(c) => format!("cuboid {}", d3::fv(&c.half_extents)),
            TypedShape::Capsule(c) => format!("capsule {} {} {}", d3::fp(&c.segment.a), d3::fp(&c.segment.b), ff(c.radius)),
            TypedShape::Cone(c) => format!("cone {} {}", ff(c.half_height), ff(c.radius)),
            TypedShape::Cylinder(c) => format!("cyl {} {}", ff(c.half_height), ff(c.radius)),
            TypedShape::Segment(g) => format!("seg {} {}", d3::fp(&g.a), d3::fp(&g.b)),
            TypedShape::Triangle(t) => format!("tri {} {} {}", d3::fp(&t.a), d3::fp(&t.b), d3::fp(&t.c)),
            TypedShape::HalfSpace(h) => format!("hs {}", d3::fv(&h.normal)),
            TypedShape::ConvexPolyhedron(p) => format!("polyh {}", fpolyh(p)),
            TypedShape::TriMesh(m) => { let mut s = format!("trimesh {} {}", fpts(m.vertices()), m.indices().len());
                for t in m.indices() { s.push_str(&format!(" {} {} {}", t[0], t[1], t[2])); } s }
            TypedShape::Polyline(m) => { let mut s = format!("polyline {} {}", fpts(m.vertices()), m.indices().len());
                for t in m.indices() { s.push_str(&format!(" {} {}", t[0], t[1])); } s }
            TypedShape::HeightField(h) => format!("hfo {}", fhf(h, true)),
            TypedShape::RoundCuboid(r) => format!("rcuboid {} {}", d3::fv(&r.inner_shape.half_extents), ff(r.border_radius)),
            TypedShape::RoundCylinder(r) => format!("rcyl {} {} {}", ff(r.inner_shape.half_height), ff(r.inner_shape.radius), ff(r.border_radius)),
            TypedShape::RoundCone(r) => format!("rcone {} {} {}", ff(r.inner_shape.half_height), ff(r.inner_shape.radius), ff(r.border_radius)),
            TypedShape::RoundTriangle(r) => format!("rtri {} {} {} {}", d3::fp(&r.inner_shape.a), d3::fp(&r.inner_shape.b), d3::fp(&r.inner_shape.c), ff(r.border_radius)),
            TypedShape::RoundConvexPolyhedron(r) => format!("rpolyh {} {}", ff(r.border_radius), fpolyh(&r.inner_shape)),
            TypedShape::Compound(c) => { let mut s = format!("compound {}", c.shapes().len());
                for (m, sub) in c.shapes() { s.push(' '); s.push_str(&d3::fiso(m)); s.push(' '); s.push_str(&fsh(&*sub.0)); } s }
            _ => "unknown-shape".into(),
        }
    }

    pub fn fmesh(m: &(Vec<P3>, Vec<[u32; 3]>)) -> String {
        let mut s = fpts(&m.0);
        s.push_str(&format!(" {}", m.1.len()));
        for t in &m.1 { s.push_str(&format!(" {} {} {}", t[0], t[1], t[2])); }
        s
    }
    pub fn foutline(m: &(Vec<P3>, Vec<[u32; 2]>)) -> String {
        let mut s = fpts(&m.0);
        s.push_str(&format!(" {}", m.1.len()));
        for t in &m.1 { s.push_str(&format!(" {} {}", t[0], t[1])); }
        s
    }

    pub fn exec(func: &str, a: &mut Args) -> Option<String> {
        Some(match func {
            // Shape::scale_dyn of any shape kind
            "scale_dyn3" | "scale_dyn3_wf" => { let s = sh(a); let sc = d3::v(a); let n = a.u() as u32;
                match s.scale_dyn(&sc, n) { None => "none".into(), Some(r) => fsh(&*r) } }
            // general dispatch of Cone::scaled; the fallback's vertices are printed
            "cone_scaled" => { let hh = a.f(); let r = a.f(); let sc = d3::v(a); let n = a.u() as u32;
                match Cone::new(hh, r).scaled(&sc, n) { None => "none".into(),
                    Some(e) => match (e.as_ref().left(), e.as_ref().right()) {
                        (Some(c), _) => format!("cone {} {}", ff(c.half_height), ff(c.radius)),
                        (_, Some(p)) => format!("poly {}", fpts(p.points())),
                        _ => "none".into() } } }
            // discretizations of capsules with arbitrary axes
            "capsule3_trimesh" => { let p = d3::p(a); let q = d3::p(a); let r = a.f(); let nt = a.u() as u32; let np = a.u() as u32;
                fmesh(&Capsule::new(p, q, r).to_trimesh(nt, np)) }
            "capsule3_outline" => { let p = d3::p(a); let q = d3::p(a); let r = a.f(); let n = a.u() as u32;
                foutline(&Capsule::new(p, q, r).to_outline(n)) }
            "capsule3_rot" => { let p = d3::p(a); let q = d3::p(a);
                let rot = Capsule::new(p, q, 1.0).rotation_wrt_y(); let c = rot.as_ref().coords;
                format!("{} {} {} {}", ff(c[0]), ff(c[1]), ff(c[2]), ff(c[3])) }
            "ball_outline" => { let r = a.f(); let n = a.u() as u32; foutline(&Ball::new(r).to_outline(n)) }
            "cyl_outline" => { let hh = a.f(); let r = a.f(); let n = a.u() as u32; foutline(&Cylinder::new(hh, r).to_outline(n)) }
            "cone_outline" => { let hh = a.f(); let r = a.f(); let n = a.u() as u32; foutline(&Cone::new(hh, r).to_outline(n)) }
            "cuboid_outline" => { let he = d3::v(a); foutline(&Cuboid::new(he).to_outline()) }
            "rcyl_outline" => { let hh = a.f(); let r = a.f(); let br = a.f(); let n = a.u() as u32; let bn = a.u() as u32;
                foutline(&RoundShape { inner_shape: Cylinder::new(hh, r), border_radius: br }.to_outline(n, bn)) }
            "rcone_outline" => { let hh = a.f(); let r = a.f(); let br = a.f(); let n = a.u() as u32; let bn = a.u() as u32;
                foutline(&RoundShape { inner_shape: Cone::new(hh, r), border_radius: br }.to_outline(n, bn)) }
            "rcuboid_outline" => { let he = d3::v(a); let br = a.f(); let n = a.u() as u32;
                foutline(&RoundShape { inner_shape: Cuboid::new(he), border_radius: br }.to_outline(n)) }
            // to_trimesh of the centred primitives, judged also for "every triangle within the discretisation error"
            "ball_trimesh_e" => { let r = a.f(); let nt = a.u() as u32; let np = a.u() as u32; fmesh(&Ball::new(r).to_trimesh(nt, np)) }
            "cyl_trimesh_e" => { let hh = a.f(); let r = a.f(); let n = a.u() as u32; fmesh(&Cylinder::new(hh, r).to_trimesh(n)) }
            "cone_trimesh_e" => { let hh = a.f(); let r = a.f(); let n = a.u() as u32; fmesh(&Cone::new(hh, r).to_trimesh(n)) }
            "cuboid_trimesh_e" => { let he = d3::v(a); fmesh(&Cuboid::new(he).to_trimesh()) }
            // the point buffers of Polyline / TriMesh::scaled (`pt.coords.component_mul_assign(scale)`), bit-exact
            "points_scaled3" => { let k = a.u(); let pts: Vec<P3> = (0..k).map(|_| d3::p(a)).collect(); let sc = d3::v(a);
                let pl = Polyline::new(pts.clone(), None).scaled(&sc);
                let idx: Vec<[u32; 3]> = (0..k as u32 - 2).map(|i| [i, i + 1, i + 2]).collect();
                let tm = TriMesh::new(pts, idx).expect("trimesh").scaled(&sc);
                format!("{} {}", fpts(pl.vertices()), fpts(tm.vertices())) }
            "poly_trimesh" => { let k = a.u(); let pts: Vec<P3> = (0..k).map(|_| d3::p(a)).collect();
                fmesh(&ConvexPolyhedron::from_convex_hull(&pts).expect("convex hull").to_trimesh()) }
            "hf3_trimesh" => { let h = hf(a); fmesh(&h.to_trimesh()) }
            _ => return None,
        })
    }
    // silence unused warnings for helper re-exports
    #[allow(unused)] fn _u() { let _ = na::zero::<f64>(); }
}

pub mod e2 {
    use super::*;
    use crate::p2::na::{DVector, Unit};
    use crate::p2::shape::*;
    type P2 = d2::Point<f64>;

    pub fn sh(a: &mut Args) -> Box<dyn Shape> {
        match a.tok() {
            "ball" => Box::new(Ball::new(a.f())),
            "cuboid" => Box::new(Cuboid::new(d2::v(a))),
            "capsule" => { let p = d2::p(a); let q = d2::p(a); Box::new(Capsule::new(p, q, a.f())) }
            "seg" => { let p = d2::p(a); let q = d2::p(a); Box::new(Segment::new(p, q)) }
            "tri" => { let p = d2::p(a); let q = d2::p(a); let r = d2::p(a); Box::new(Triangle::new(p, q, r)) }
            "hs" => Box::new(HalfSpace::new(Unit::new_unchecked(d2::v(a)))),
            "polygon" => { let k = a.u(); let pts: Vec<P2> = (0..k).map(|_| d2::p(a)).collect();
                Box::new(ConvexPolygon::from_convex_hull(&pts).expect("convex hull")) }
            "polyline" => { let nv = a.u(); let vs: Vec<P2> = (0..nv).map(|_| d2::p(a)).collect();
                let ne = a.u(); let es: Vec<[u32; 2]> = (0..ne).map(|_| [a.u() as u32, a.u() as u32]).collect();
                Box::new(Polyline::new(vs, Some(es))) }
            "hf" => Box::new(hf(a)),
            "rcuboid" => { let he = d2::v(a); Box::new(RoundShape { inner_shape: Cuboid::new(he), border_radius: a.f() }) }
            "compound" => { let k = a.u();
                let parts: Vec<_> = (0..k).map(|_| { let m = d2::iso(a); let s = sh(a); (m, SharedShape(s.into())) }).collect();
                Box::new(Compound::new(parts)) }
            t => panic!("bad shape tag {}", t),
        }
    }

    pub fn hf(a: &mut Args) -> HeightField {
        let n = a.u();
        let hs: Vec<f64> = (0..n).map(|_| a.f()).collect();
        let sc = d2::v(a);
        let mut h = HeightField::new(DVector::from_vec(hs), sc);
        let ns = a.u();
        assert_eq!(ns, n - 1);
        for i in 0..ns { let rm = a.b(); h.set_segment_removed(i, rm); }
        h
    }

    fn fpts(ps: &[P2]) -> String { let mut s = format!("{}", ps.len()); for p in ps { s.push(' '); s.push_str(&d2::fp(p)); } s }
    fn fpolygon(p: &ConvexPolygon) -> String {
        let mut s = fpts(p.points());
        s.push_str(&format!(" {}", p.normals().len()));
        for n in p.normals() { s.push(' '); s.push_str(&d2::fv(n)); }
        s
    }
    fn fhf(h: &HeightField) -> String {
        let n = h.heights().len();
        let mut s = format!("{}", n);
        for i in 0..n { s.push(' '); s.push_str(&ff(h.heights()[i])); }
        s.push(' '); s.push_str(&d2::fv(h.scale()));
        s.push_str(&format!(" {}", n - 1));
        for i in 0..n - 1 { s.push(' '); s.push_str(b(h.is_segment_removed(i))); }
        let segs: Vec<Segment> = h.segments().collect();
        s.push_str(&format!(" {}", segs.len()));
        for g in &segs { s.push_str(&format!(" {} {}", d2::fp(&g.a), d2::fp(&g.b))); }
        s
    }

    pub fn fsh(s: &dyn Shape) -> String {
        match s.as_typed_shape() {
            TypedShape::Ball(b) => format!("ball {}", ff(b.radius)),
            TypedShape::Cuboid(c) => format!("cuboid {}", d2::fv(&c.half_extents)),
            TypedShape::Capsule(c) => format!("capsule {} {} {}", d2::fp(&c.segment.a), d2::fp(&c.segment.b), ff(c.radius)),
            TypedShape::Segment(g) => format!("seg {} {}", d2::fp(&g.a), d2::fp(&g.b)),
            TypedShape::Triangle(t) => format!("tri {} {} {}", d2::fp(&t.a), d2::fp(&t.b), d2::fp(&t.c)),
            TypedShape::HalfSpace(h) => format!("hs {}", d2::fv(&h.normal)),
            TypedShape::ConvexPolygon(p) => format!("polygono {}", fpolygon(p)),
            TypedShape::Polyline(m) => { let mut s = format!("polyline {} {}", fpts(m.vertices()), m.indices().len());
                for t in m.indices() { s.push_str(&format!(" {} {}", t[0], t[1])); } s }
            TypedShape::HeightField(h) => format!("hfo {}", fhf(h)),
            TypedShape::RoundCuboid(r) => format!("rcuboid {} {}", d2::fv(&r.inner_shape.half_extents), ff(r.border_radius)),
            TypedShape::RoundConvexPolygon(r) => format!("rpolygono {} {}", ff(r.border_radius), fpolygon(&r.inner_shape)),
            TypedShape::Compound(c) => { let mut s = format!("compound {}", c.shapes().len());
                for (m, sub) in c.shapes() { s.push_str(&format!(" {} {} {} {}", ff(m.rotation.re), ff(m.rotation.im), d2::fv(&m.translation.vector), fsh(&*sub.0))); } s }
            _ => "unknown-shape".into(),
        }
    }

    pub fn exec(func: &str, a: &mut Args) -> Option<String> {
        Some(match func {
            "scale_dyn2" | "scale_dyn2_wf" => { let s = sh(a); let sc = d2::v(a); let n = a.u() as u32;
                match s.scale_dyn(&sc, n) { None => "none".into(), Some(r) => fsh(&*r) } }
            // 2-D HeightField::to_polyline, removed segments included
            "hf2_polyline" => { let h = hf(a); let (vs, idx) = h.to_polyline();
                let mut s = fpts(&vs); s.push_str(&format!(" {}", idx.len()));
                for t in &idx { s.push_str(&format!(" {} {}", t[0], t[1])); } s }
            "capsule2_polyline" => { let p = d2::p(a); let q = d2::p(a); let r = a.f(); let n = a.u() as u32;
                fpts(&Capsule::new(p, q, r).to_polyline(n)) }
            "capsule2_rot" => { let p = d2::p(a); let q = d2::p(a);
                let rot = Capsule::new(p, q, 1.0).rotation_wrt_y(); format!("{} {}", ff(rot.re), ff(rot.im)) }
            "ball2_polyline" => { let r = a.f(); let n = a.u() as u32; fpts(&Ball::new(r).to_polyline(n)) }
            "cuboid2_polyline" => { let he = d2::v(a); fpts(&Cuboid::new(he).to_polyline()) }
            "rcuboid2_polyline" => { let he = d2::v(a); let br = a.f(); let n = a.u() as u32;
                fpts(&RoundShape { inner_shape: Cuboid::new(he), border_radius: br }.to_polyline(n)) }
            // a round convex polygon AFTER scale_dyn, discretized: the offset points are built from the stored normals, so the
            // vertices leave the boundary when `scaled` does not transform the normals properly
            "rpolygon2_scaled_polyline" => { let k = a.u(); let pts: Vec<P2> = (0..k).map(|_| d2::p(a)).collect(); let br = a.f();
                let sc = d2::v(a); let n = a.u() as u32;
                let poly = ConvexPolygon::from_convex_hull(&pts).expect("convex hull");
                let round = RoundShape { inner_shape: poly, border_radius: br };
                match round.scale_dyn(&sc, n) { None => "none".into(), Some(r) => match r.as_typed_shape() {
                    TypedShape::RoundConvexPolygon(rp) => { let mut s = fpts(&rp.to_polyline(n)); s.push(' '); s.push_str(&fpts(rp.inner_shape.points())); s }
                    _ => "unknown-shape".into() } } }
            "rpolygon2_polyline" => { let k = a.u(); let pts: Vec<P2> = (0..k).map(|_| d2::p(a)).collect(); let br = a.f(); let n = a.u() as u32;
                let poly = ConvexPolygon::from_convex_hull(&pts).expect("convex hull");
                let mut s = fpts(&RoundShape { inner_shape: poly.clone(), border_radius: br }.to_polyline(n));
                // the hull the real code built is part of the observable output (its vertex order is the code's)
                s.push(' '); s.push_str(&fpts(poly.points())); s }
            _ => return None,
        })
    }
}

// ---------------------------------------------------------------------------------------------- generators
pub mod g {
    use super::*;
    type V3 = d3::Vector<f64>;

    fn mag(r: &mut Rng, lat: bool) -> f64 { if lat { *r.pick(&[0.25, 0.5, 1.0, 2.0, 3.0]) } else { r.logu(1e-1, 1e1) } }
    fn sg(r: &mut Rng) -> f64 { if r.bool() { 1.0 } else { -1.0 } }
    /// scale vectors, every sign pattern: uniform, x == z (the cone/cylinder-preserving family) with any y, equal magnitudes of
    /// mixed signs, general
    pub fn scale3(r: &mut Rng, lat: bool) -> V3 {
        match r.below(5) {
            0 => { let m = mag(r, lat) * sg(r); V3::new(m, m, m) }
            1 | 2 => { let x = mag(r, lat) * sg(r); V3::new(x, mag(r, lat) * sg(r), x) }
            3 => { let m = mag(r, lat); V3::new(m * sg(r), m * sg(r), m * sg(r)) }
            _ => V3::new(mag(r, lat) * sg(r), mag(r, lat) * sg(r), mag(r, lat) * sg(r)),
        }
    }
    pub fn scale2(r: &mut Rng, lat: bool) -> d2::Vector<f64> {
        match r.below(3) {
            0 => { let m = mag(r, lat) * sg(r); d2::Vector::new(m, m) }
            1 => { let m = mag(r, lat); d2::Vector::new(m * sg(r), m * sg(r)) }
            _ => d2::Vector::new(mag(r, lat) * sg(r), mag(r, lat) * sg(r)),
        }
    }
    fn ext(r: &mut Rng, lat: bool) -> f64 { if lat { *r.pick(&[0.25, 0.5, 1.0, 1.5, 2.0, 3.0]) } else { r.logu(1e-1, 1e1) } }

    /// capsule end points: axis-aligned, perpendicular, oblique to Y (incl. reversed and off-centre)
    pub fn capsule_ends3(r: &mut Rng, lat: bool) -> (d3::Point<f64>, d3::Point<f64>) {
        let c = match r.below(3) { 0 => d3::Vector::zeros(), _ => d3::gen_v(r, lat, 3.0) };
        let d = match r.below(6) {
            0 => V3::new(0.0, ext(r, lat), 0.0),
            1 => V3::new(ext(r, lat) * sg(r), 0.0, 0.0),
            2 => V3::new(ext(r, lat) * sg(r), 0.0, ext(r, lat) * sg(r)),
            // oblique: neither parallel nor perpendicular to Y
            3 => V3::new(ext(r, lat) * sg(r), ext(r, lat) * sg(r), 0.0),
            _ => V3::new(ext(r, lat) * sg(r), ext(r, lat) * sg(r), ext(r, lat) * sg(r)),
        };
        (d3::Point::from(c - d * 0.5), d3::Point::from(c + d * 0.5))
    }
    pub fn capsule_ends2(r: &mut Rng, lat: bool) -> (d2::Point<f64>, d2::Point<f64>) {
        let c = match r.below(3) { 0 => d2::Vector::zeros(), _ => d2::gen_v(r, lat, 3.0) };
        let d = match r.below(4) {
            0 => d2::Vector::new(0.0, ext(r, lat) * sg(r)),
            1 => d2::Vector::new(ext(r, lat) * sg(r), 0.0),
            _ => d2::Vector::new(ext(r, lat) * sg(r), ext(r, lat) * sg(r)),
        };
        (d2::Point::from(c - d * 0.5), d2::Point::from(c + d * 0.5))
    }

    fn pts3(r: &mut Rng, lat: bool, k: usize) -> String {
        let mut s = format!("{}", k);
        for _ in 0..k { s.push(' '); s.push_str(&d3::hp(&d3::gen_p(r, lat, 2.0))); }
        s
    }
    /// a convex point set in general position: a jittered octahedron / box corners subset (hull keeps them all)
    pub fn hull_pts3(r: &mut Rng, lat: bool) -> String {
        let base: Vec<[f64; 3]> = match r.below(3) {
            0 => vec![[1.0, 0.0, 0.0], [-1.0, 0.0, 0.0], [0.0, 1.0, 0.0], [0.0, -1.0, 0.0], [0.0, 0.0, 1.0], [0.0, 0.0, -1.0]],
            1 => vec![[1.0, 1.0, 1.0], [-1.0, -1.0, 1.0], [-1.0, 1.0, -1.0], [1.0, -1.0, -1.0]],
            _ => vec![[1.0, 1.0, 1.0], [-1.0, 1.0, 1.0], [1.0, -1.0, 1.0], [-1.0, -1.0, 1.0], [1.0, 1.0, -1.0], [-1.0, 1.0, -1.0], [1.0, -1.0, -1.0], [-1.0, -1.0, -1.0]],
        };
        let e = [ext(r, lat), ext(r, lat), ext(r, lat)];
        let off = if r.bool() { [0.0; 3] } else { [r.coord(lat, 1.0), r.coord(lat, 1.0), r.coord(lat, 1.0)] };
        let mut s = format!("{}", base.len());
        // jitter only the simplicial families (octahedron, tetrahedron): a jittered box has four nearly coplanar corners per
        // face and the choice of the diagonal is the hull algorithm's tolerance question (C12), not a discretization question
        let jit = !lat && base.len() != 8;
        for b in &base {
            let j = if jit { 0.05 } else { 0.0 };
            let p = d3::Point::new(b[0] * e[0] * (1.0 + j * r.unit()) + off[0], b[1] * e[1] * (1.0 + j * r.unit()) + off[1], b[2] * e[2] * (1.0 + j * r.unit()) + off[2]);
            s.push(' '); s.push_str(&d3::hp(&p));
        }
        s
    }
    pub fn hf3(r: &mut Rng, lat: bool) -> String {
        let nr = 2 + r.below(3) as usize; let nc = 2 + r.below(3) as usize;
        let mut s = format!("{} {}", nr, nc);
        for _ in 0..nr * nc { s.push(' '); s.push_str(&hx(if lat { r.lattice(8, 1) } else { r.uniform(-2.0, 2.0) })); }
        let sc = V3::new(ext(r, lat) * sg(r), ext(r, lat) * sg(r), ext(r, lat) * sg(r));
        s.push(' '); s.push_str(&d3::hv(&sc));
        s.push_str(&format!(" {}", (nr - 1) * (nc - 1)));
        // interior holes: every status 0..7 (zigzag / left / right removed), about a third of the cells touched
        for _ in 0..(nr - 1) * (nc - 1) { let st = if r.below(3) == 0 { r.below(8) } else { r.below(2) }; s.push_str(&format!(" {}", st)); }
        s
    }
    pub fn hf2(r: &mut Rng, lat: bool) -> String {
        let n = 2 + r.below(7) as usize;
        let mut s = format!("{}", n);
        for _ in 0..n { s.push(' '); s.push_str(&hx(if lat { r.lattice(8, 1) } else { r.uniform(-2.0, 2.0) })); }
        let sc = d2::Vector::new(ext(r, lat) * sg(r), ext(r, lat) * sg(r));
        s.push(' '); s.push_str(&d2::hv(&sc));
        s.push_str(&format!(" {}", n - 1));
        // removed segments: none / random / a single interior hole / all but the ends
        let mode = r.below(4);
        let hole = if n > 3 { 1 + r.below(n as u64 - 3) as usize } else { 0 };
        for i in 0..n - 1 {
            let rm = match mode { 0 => false, 1 => r.below(3) == 0, 2 => i == hole, _ => i != 0 && i != n - 2 };
            s.push(' '); s.push_str(b(rm));
        }
        s
    }

    fn solid3(r: &mut Rng, lat: bool, k: u64) -> String {
        match k {
            0 => format!("ball {}", hx(ext(r, lat))),
            1 => format!("cuboid {}", d3::hv(&V3::new(ext(r, lat), ext(r, lat), ext(r, lat)))),
            2 => { let (p, q) = capsule_ends3(r, lat); format!("capsule {} {} {}", d3::hp(&p), d3::hp(&q), hx(ext(r, lat))) }
            3 => format!("cone {} {}", hx(ext(r, lat)), hx(ext(r, lat))),
            _ => format!("cyl {} {}", hx(ext(r, lat)), hx(ext(r, lat))),
        }
    }
    pub fn shape3(r: &mut Rng, lat: bool) -> String {
        match r.below(22) {
            k @ 0..=4 => solid3(r, lat, k),
            5 => solid3(r, lat, 3), 6 => solid3(r, lat, 2),
            7 => format!("seg {} {}", d3::hp(&d3::gen_p(r, lat, 3.0)), d3::hp(&d3::gen_p(r, lat, 3.0))),
            8 => format!("tri {} {} {}", d3::hp(&d3::gen_p(r, lat, 3.0)), d3::hp(&d3::gen_p(r, lat, 3.0)), d3::hp(&d3::gen_p(r, lat, 3.0))),
            9 => { let n = if lat { *r.pick(&[V3::new(1.0, 0.0, 0.0), V3::new(0.0, -1.0, 0.0), V3::new(0.6, 0.8, 0.0), V3::new(0.0, -0.6, 0.8)]) }
                           else { loop { let v = d3::gen_v(r, false, 1.0); if v.norm() > 0.1 { break v.normalize(); } } };
                   format!("hs {}", d3::hv(&n)) }
            10 | 11 => format!("poly {}", hull_pts3(r, lat)),
            12 => { // closed tetrahedron / open fan
                let vs = pts3(r, lat, 4);
                if r.bool() { format!("trimesh {} 4 0 1 2 0 3 1 1 3 2 2 3 0", vs) } else { format!("trimesh {} 2 0 1 2 0 2 3", vs) } }
            13 => { let k = 2 + r.below(4) as usize; let vs = pts3(r, lat, k);
                let mut s = format!("polyline {} {}", vs, k - 1); for i in 0..k - 1 { s.push_str(&format!(" {} {}", i, i + 1)); } s }
            14 | 15 => format!("hf {}", hf3(r, lat)),
            16 => format!("rcuboid {} {}", d3::hv(&V3::new(ext(r, lat), ext(r, lat), ext(r, lat))), hx(ext(r, lat) * 0.25)),
            17 => format!("rcyl {} {} {}", hx(ext(r, lat)), hx(ext(r, lat)), hx(ext(r, lat) * 0.25)),
            18 => format!("rcone {} {} {}", hx(ext(r, lat)), hx(ext(r, lat)), hx(ext(r, lat) * 0.25)),
            19 => format!("rtri {} {} {} {}", d3::hp(&d3::gen_p(r, lat, 3.0)), d3::hp(&d3::gen_p(r, lat, 3.0)), d3::hp(&d3::gen_p(r, lat, 3.0)), hx(ext(r, lat) * 0.25)),
            _ => { // compound of solids; the parts are translated, and rotated only by rotations that a scale commutes with
                   // is not required here: every rotation family is generated, the oracle judges in world space
                let k = 1 + r.below(3) as usize;
                let mut s = format!("compound {}", k);
                for _ in 0..k {
                    let m = if r.below(3) == 0 { d3::gen_iso(r, lat, 3.0) }
                            else { let t = d3::gen_v(r, lat, 3.0); d3::Isometry::from_parts(d3::na::Translation3::from(t), d3::na::UnitQuaternion::identity()) };
                    let kk = r.below(5);
                    s.push(' '); s.push_str(&d3::hiso(&m)); s.push(' '); s.push_str(&solid3(r, lat, kk));
                }
                s }
        }
    }
    fn hull_pts2(r: &mut Rng, lat: bool) -> String {
        let k = 3 + r.below(4) as usize;
        let (ex, ey) = (ext(r, lat), ext(r, lat));
        let off = if r.bool() { (0.0, 0.0) } else { (r.coord(lat, 1.0), r.coord(lat, 1.0)) };
        // points on an ellipse at distinct Pythagorean / regular angles: convex position
        let dirs: [(f64, f64); 8] = [(1.0, 0.0), (0.6, 0.8), (0.0, 1.0), (-0.8, 0.6), (-1.0, 0.0), (-0.6, -0.8), (0.0, -1.0), (0.8, -0.6)];
        let start = r.below(8) as usize;
        let mut s = format!("{}", k);
        for i in 0..k { let d = dirs[(start + i * 8 / k) % 8];
            s.push(' '); s.push_str(&d2::hp(&d2::Point::new(d.0 * ex + off.0, d.1 * ey + off.1))); }
        s
    }
    fn solid2(r: &mut Rng, lat: bool, k: u64) -> String {
        match k {
            0 => format!("ball {}", hx(ext(r, lat))),
            1 => format!("cuboid {}", d2::hv(&d2::Vector::new(ext(r, lat), ext(r, lat)))),
            _ => { let (p, q) = capsule_ends2(r, lat); format!("capsule {} {} {}", d2::hp(&p), d2::hp(&q), hx(ext(r, lat))) }
        }
    }
    pub fn shape2(r: &mut Rng, lat: bool) -> String {
        match r.below(13) {
            k @ 0..=2 => solid2(r, lat, k),
            3 => solid2(r, lat, 2),
            4 => format!("seg {} {}", d2::hp(&d2::gen_p(r, lat, 3.0)), d2::hp(&d2::gen_p(r, lat, 3.0))),
            5 => format!("tri {} {} {}", d2::hp(&d2::gen_p(r, lat, 3.0)), d2::hp(&d2::gen_p(r, lat, 3.0)), d2::hp(&d2::gen_p(r, lat, 3.0))),
            6 => { let n = if lat { *r.pick(&[d2::Vector::new(1.0, 0.0), d2::Vector::new(0.0, -1.0), d2::Vector::new(0.6, 0.8), d2::Vector::new(-0.8, 0.6)]) }
                           else { let a = r.uniform(0.0, 6.28); d2::Vector::new(a.cos(), a.sin()) };
                   format!("hs {}", d2::hv(&n)) }
            7 | 8 => format!("polygon {}", hull_pts2(r, lat)),
            9 => { let k = 2 + r.below(4) as usize; let mut s = format!("polyline {}", k);
                for _ in 0..k { s.push(' '); s.push_str(&d2::hp(&d2::gen_p(r, lat, 3.0))); }
                s.push_str(&format!(" {}", k - 1)); for i in 0..k - 1 { s.push_str(&format!(" {} {}", i, i + 1)); } s }
            10 => format!("hf {}", hf2(r, lat)),
            11 => format!("rcuboid {} {}", d2::hv(&d2::Vector::new(ext(r, lat), ext(r, lat))), hx(ext(r, lat) * 0.25)),
            _ => { let k = 1 + r.below(3) as usize;
                let mut s = format!("compound {}", k);
                for _ in 0..k {
                    let m = if r.below(3) == 0 { d2::gen_iso(r, lat, 3.0) }
                            else { let t = d2::gen_v(r, lat, 3.0); d2::Isometry::from_parts(d2::na::Translation2::from(t), d2::na::UnitComplex::identity()) };
                    let kk = r.below(3);
                    s.push(' '); s.push_str(&d2::hiso(&m)); s.push(' '); s.push_str(&solid2(r, lat, kk));
                }
                s }
        }
    }

    pub fn gen(r: &mut Rng, thorough: bool, v: &mut Vec<(String, String)>) {
        let n = if thorough { 1200 } else { 120 };
        for it in 0..n {
            let lat = it % 2 == 0;
            let nsub = 6 + r.below(5);
            let c3 = format!("{} {} {}", shape3(r, lat), d3::hv(&scale3(r, lat)), nsub);
            let c2 = format!("{} {} {}", shape2(r, lat), d2::hv(&scale2(r, lat)), nsub);
            // the same case twice: membership / data transfer, and well-formedness (normals, orientation) of polygonal outputs
            v.push(("scale_dyn3".into(), c3.clone())); v.push(("scale_dyn3_wf".into(), c3));
            v.push(("scale_dyn2".into(), c2.clone())); v.push(("scale_dyn2_wf".into(), c2));
            v.push(("cone_scaled".into(), format!("{} {} {} {}", hx(ext(r, lat)), hx(ext(r, lat)), d3::hv(&scale3(r, lat)), 3 + r.below(14))));
            // discretizations of capsules with every axis family
            let (p, q) = capsule_ends3(r, lat);
            v.push(("capsule3_rot".into(), format!("{} {}", d3::hp(&p), d3::hp(&q))));
            v.push(("capsule3_trimesh".into(), format!("{} {} {} {} {}", d3::hp(&p), d3::hp(&q), hx(ext(r, lat)), 3 + r.below(10), 2 + r.below(9))));
            v.push(("capsule3_outline".into(), format!("{} {} {} {}", d3::hp(&p), d3::hp(&q), hx(ext(r, lat)), 4 + r.below(14))));
            let (p, q) = capsule_ends2(r, lat);
            v.push(("capsule2_rot".into(), format!("{} {}", d2::hp(&p), d2::hp(&q))));
            v.push(("capsule2_polyline".into(), format!("{} {} {} {}", d2::hp(&p), d2::hp(&q), hx(ext(r, lat)), 1 + r.below(12))));
            v.push(("hf2_polyline".into(), hf2(r, lat)));
            if it % 2 == 0 { v.push(("hf3_trimesh".into(), hf3(r, it % 4 == 0))); }
            if it % 4 == 0 {
                let lat = it % 8 == 0;
                v.push(("ball_outline".into(), format!("{} {}", hx(ext(r, lat)), 3 + r.below(20))));
                v.push(("cyl_outline".into(), format!("{} {} {}", hx(ext(r, lat)), hx(ext(r, lat)), 4 + r.below(20))));
                v.push(("cone_outline".into(), format!("{} {} {}", hx(ext(r, lat)), hx(ext(r, lat)), 4 + r.below(20))));
                v.push(("cuboid_outline".into(), d3::hv(&V3::new(ext(r, lat), ext(r, lat), ext(r, lat)))));
                v.push(("rcyl_outline".into(), format!("{} {} {} {} {}", hx(ext(r, lat)), hx(ext(r, lat)), hx(ext(r, lat) * 0.25), 4 + r.below(12), 1 + r.below(6))));
                v.push(("rcone_outline".into(), format!("{} {} {} {} {}", hx(ext(r, lat)), hx(ext(r, lat)), hx(ext(r, lat) * 0.25), 4 + r.below(12), 1 + r.below(6))));
                v.push(("rcuboid_outline".into(), format!("{} {} {}", d3::hv(&V3::new(ext(r, lat), ext(r, lat), ext(r, lat))), hx(ext(r, lat) * 0.25), 1 + r.below(6))));
                v.push(("poly_trimesh".into(), hull_pts3(r, lat)));
                v.push(("ball_trimesh_e".into(), format!("{} {} {}", hx(ext(r, lat)), 3 + r.below(14), 2 + r.below(14))));
                v.push(("cyl_trimesh_e".into(), format!("{} {} {}", hx(ext(r, lat)), hx(ext(r, lat)), 3 + r.below(30))));
                v.push(("cone_trimesh_e".into(), format!("{} {} {}", hx(ext(r, lat)), hx(ext(r, lat)), 3 + r.below(30))));
                v.push(("cuboid_trimesh_e".into(), d3::hv(&V3::new(ext(r, lat), ext(r, lat), ext(r, lat)))));
                let k = 3 + r.below(5) as usize;
                let mut ps = format!("{}", k); for _ in 0..k { ps.push(' '); ps.push_str(&d3::hp(&d3::gen_p(r, lat, 10.0))); }
                v.push(("points_scaled3".into(), format!("{} {}", ps, d3::hv(&scale3(r, lat)))));
                v.push(("ball2_polyline".into(), format!("{} {}", hx(ext(r, lat)), 3 + r.below(20))));
                v.push(("cuboid2_polyline".into(), d2::hv(&d2::Vector::new(ext(r, lat), ext(r, lat)))));
                v.push(("rcuboid2_polyline".into(), format!("{} {} {}", d2::hv(&d2::Vector::new(ext(r, lat), ext(r, lat))), hx(ext(r, lat) * 0.25), 1 + r.below(6))));
                v.push(("rpolygon2_polyline".into(), format!("{} {} {}", hull_pts2(r, lat), hx(ext(r, lat) * 0.25), 1 + r.below(6))));
                v.push(("rpolygon2_scaled_polyline".into(), format!("{} {} {} {}", hull_pts2(r, lat), hx(ext(r, lat) * 0.25), d2::hv(&scale2(r, lat)), 1 + r.below(6))));
            }
        }
    }
}
