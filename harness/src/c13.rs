//! C13: mass properties (2-D crate: triangle / polygon / trimesh / closed forms / algebra; 3-D closed forms and algebra).
use crate::util::*;
use crate::p2::mass_properties::details::{convex_polygon_area_and_center_of_mass, trimesh_area_and_center_of_mass};
use crate::p2::mass_properties::MassProperties as MP2;
use crate::p2::shape::Triangle as Tri2;
use std::panic::{catch_unwind, AssertUnwindSafe};

use crate::p3::mass_properties::MassProperties as MP3;
use crate::p3::mass_properties::details::{tetrahedron_unit_inertia_tensor_wrt_point, trimesh_signed_volume_and_center_of_mass};
use crate::p3::shape::Tetrahedron as Tet3;
type P3 = d3::Point<f64>;
type P2 = d2::Point<f64>;
type V3 = d3::Vector<f64>;

fn fquat(q: &d3::na::UnitQuaternion<f64>) -> String { let c = q.as_ref().coords; format!("{} {} {} {}", ff(c[0]), ff(c[1]), ff(c[2]), ff(c[3])) }
fn hquat(q: &d3::na::UnitQuaternion<f64>) -> String { let c = q.as_ref().coords; format!("{} {} {} {}", hx(c[0]), hx(c[1]), hx(c[2]), hx(c[3])) }
fn fmp3(m: &MP3) -> String { format!("{} {} {} {}", d3::fp(&m.local_com), ff(m.inv_mass), d3::fv(&m.inv_principal_inertia_sqrt), fquat(&m.principal_inertia_local_frame)) }
fn hmp3(m: &MP3) -> String { format!("{} {} {} {}", d3::hp(&m.local_com), hx(m.inv_mass), d3::hv(&m.inv_principal_inertia_sqrt), hquat(&m.principal_inertia_local_frame)) }
fn mp3(a: &mut Args) -> MP3 {
    let c = d3::p(a); let im = a.f(); let ii = d3::v(a);
    let (i, j, k, w) = (a.f(), a.f(), a.f(), a.f());
    MP3 { local_com: c, inv_mass: im, inv_principal_inertia_sqrt: ii,
          principal_inertia_local_frame: d3::na::Unit::new_unchecked(d3::na::Quaternion::new(w, i, j, k)) }
}
/// row-major print of a 3x3 matrix
fn fm3(m: &d3::na::Matrix3<f64>) -> String {
    (0..3).map(|i| (0..3).map(|j| ff(m[(i, j)])).collect::<Vec<_>>().join(" ")).collect::<Vec<_>>().join(" ")
}
/// observable pair: mass(), local_com (the tensor goes through `symmetric_eigen` and is printed by the `*_tensor` functions)
fn fmc3(m: &MP3) -> String { format!("{} {}", ff(m.mass()), d3::fp(&m.local_com)) }

/// `local_com inv_mass` (bit-exact part of a 3-D result that went through `with_inertia_matrix`)
fn fci3(m: &MP3) -> String { format!("{} {}", d3::fp(&m.local_com), ff(m.inv_mass)) }
fn pts3(a: &mut Args) -> Vec<P3> { let n = a.u(); (0..n).map(|_| d3::p(a)).collect() }

fn fmp2(m: &MP2) -> String { format!("{} {} {}", d2::fp(&m.local_com), ff(m.inv_mass), ff(m.inv_principal_inertia_sqrt)) }
fn hmp2(m: &MP2) -> String { format!("{} {} {}", d2::hp(&m.local_com), hx(m.inv_mass), hx(m.inv_principal_inertia_sqrt)) }
fn mp2(a: &mut Args) -> MP2 {
    let c = d2::p(a); let im = a.f(); let ii = a.f();
    MP2 { local_com: c, inv_mass: im, inv_principal_inertia_sqrt: ii }
}
fn tri2(a: &mut Args) -> Tri2 { Tri2::new(d2::p(a), d2::p(a), d2::p(a)) }
fn pts2(a: &mut Args) -> Vec<P2> { let n = a.u(); (0..n).map(|_| d2::p(a)).collect() }
fn idx(a: &mut Args) -> Vec<[u32; 3]> { let n = a.u(); (0..n).map(|_| [a.u() as u32, a.u() as u32, a.u() as u32]).collect() }
/// contract panics (empty slice `unwrap`, out-of-bounds index) are printed as the bare token `panic`
fn guarded<F: FnOnce() -> String>(f: F) -> String {
    match catch_unwind(AssertUnwindSafe(f)) { Ok(s) => s, Err(_) => "panic".into() }
}

pub fn exec(func: &str, a: &mut Args) -> String {
    match func {
        "tri_area" => { let t = tri2(a); ff(t.area()) }
        "tri_center" => { let t = tri2(a); d2::fp(&t.center()) }
        "tri_unit_inertia" => { let t = tri2(a); ff(t.unit_angular_inertia()) }
        "from_triangle" => { let d = a.f(); let t = tri2(a); fmp2(&MP2::from_triangle(d, &t.a, &t.b, &t.c)) }
        "poly_area_com" => { let v = pts2(a); guarded(|| { let (ar, c) = convex_polygon_area_and_center_of_mass(&v); format!("{} {}", ff(ar), d2::fp(&c)) }) }
        "from_convex_polygon" => { let d = a.f(); let v = pts2(a); guarded(|| fmp2(&MP2::from_convex_polygon(d, &v))) }
        "trimesh_area_com" => { let v = pts2(a); let i = idx(a); guarded(|| { let (ar, c) = trimesh_area_and_center_of_mass(&v, &i); format!("{} {}", ff(ar), d2::fp(&c)) }) }
        "from_trimesh2" => { let d = a.f(); let v = pts2(a); let i = idx(a); guarded(|| fmp2(&MP2::from_trimesh(d, &v, &i))) }
        "from_ball2" => { let d = a.f(); let r = a.f(); fmp2(&MP2::from_ball(d, r)) }
        "from_cuboid2" => { let d = a.f(); let he = d2::v(a); fmp2(&MP2::from_cuboid(d, he)) }
        "from_capsule2" => { let d = a.f(); let p = d2::p(a); let q = d2::p(a); let r = a.f(); fmp2(&MP2::from_capsule(d, p, q, r)) }
        "from_compound2" => {
            use crate::p2::shape::{Ball, Compound, ConvexPolygon, Cuboid, Shape, SharedShape};
            let d = a.f(); let n = a.u();
            let mut shapes: Vec<(d2::Isometry<f64>, SharedShape)> = Vec::new();
            let mut rejected = false;
            for _ in 0..n {
                let m = d2::iso(a);
                match a.u() {
                    0 => { let r = a.f(); shapes.push((m, SharedShape::new(Ball::new(r)))); }
                    1 => { let he = d2::v(a); shapes.push((m, SharedShape::new(Cuboid::new(he)))); }
                    _ => { let v = pts2(a);
                        match ConvexPolygon::from_convex_polyline_unmodified(v) { Some(p) => shapes.push((m, SharedShape::new(p))), None => rejected = true } }
                }
            }
            if rejected || shapes.is_empty() { "none".into() } else { fmp2(&Compound::new(shapes).mass_properties(d)) }
        }
        "mp2_new" => { let c = d2::p(a); let m = a.f(); let i = a.f(); let p = MP2::new(c, m, i);
            format!("{} {} {}", fmp2(&p), ff(p.mass()), ff(p.principal_inertia())) }
        "mp2_transform" => { let p = mp2(a); let m = d2::iso(a); fmp2(&p.transform_by(&m)) }
        "mp2_is_zero" => { let p = mp2(a); b(num_is_zero2(&p)).into() }
        "mp2_add" => { let x = mp2(a); let y = mp2(a); fmp2(&(x + y)) }
        "mp2_sub" => { let x = mp2(a); let y = mp2(a); fmp2(&(x - y)) }
        "mp2_sum" => { let n = a.u(); let v: Vec<MP2> = (0..n).map(|_| mp2(a)).collect(); fmp2(&v.into_iter().sum::<MP2>()) }
        "from_ball3" => { let d = a.f(); let r = a.f(); fmp3(&MP3::from_ball(d, r)) }
        "from_cuboid3" => { let d = a.f(); let he = d3::v(a); fmp3(&MP3::from_cuboid(d, he)) }
        "from_cylinder" => { let d = a.f(); let hh = a.f(); let r = a.f(); fmp3(&MP3::from_cylinder(d, hh, r)) }
        "from_cone" => { let d = a.f(); let hh = a.f(); let r = a.f(); fmp3(&MP3::from_cone(d, hh, r)) }
        "from_capsule3" => { let d = a.f(); let p = d3::p(a); let q = d3::p(a); let r = a.f(); let m = MP3::from_capsule(d, p, q, r);
            format!("{} {} {}", d3::fp(&m.local_com), ff(m.inv_mass), d3::fv(&m.inv_principal_inertia_sqrt)) }
        "from_capsule3_frame" => { let d = a.f(); let p = d3::p(a); let q = d3::p(a); let r = a.f(); let m = MP3::from_capsule(d, p, q, r);
            fquat(&m.principal_inertia_local_frame) }
        "mp3_new" => { let c = d3::p(a); let m = a.f(); let i = d3::v(a); let p = MP3::new(c, m, i);
            format!("{} {} {}", fmp3(&p), ff(p.mass()), d3::fv(&p.principal_inertia())) }
        "mp3_reconstruct" => { let p = mp3(a); fm3(&p.reconstruct_inertia_matrix()) }
        "mp3_transform" => { let p = mp3(a); let m = d3::iso(a); fmp3(&p.transform_by(&m)) }
        "mp3_add" => { let x = mp3(a); let y = mp3(a); fmc3(&(x + y)) }
        "mp3_sub" => { let x = mp3(a); let y = mp3(a); fmc3(&(x - y)) }
        "mp3_sum" => { let n = a.u(); let v: Vec<MP3> = (0..n).map(|_| mp3(a)).collect(); fmc3(&v.into_iter().sum::<MP3>()) }
        "mp3_add_tensor" => { let x = mp3(a); let y = mp3(a); fm3(&(x + y).reconstruct_inertia_matrix()) }
        "mp3_sub_tensor" => { let x = mp3(a); let y = mp3(a); fm3(&(x - y).reconstruct_inertia_matrix()) }
        "mp3_sum_tensor" => { let n = a.u(); let v: Vec<MP3> = (0..n).map(|_| mp3(a)).collect(); fm3(&v.into_iter().sum::<MP3>().reconstruct_inertia_matrix()) }
        // ---------------- 3-D triangle meshes (mass_properties_trimesh3d.rs)
        "tet_signed_volume" => { let (p, q, r, s) = (d3::p(a), d3::p(a), d3::p(a), d3::p(a)); ff(Tet3::new(p, q, r, s).signed_volume()) }
        "tet_unit_inertia" => { let o = d3::p(a); let (p, q, r, s) = (d3::p(a), d3::p(a), d3::p(a), d3::p(a));
            fm3(&tetrahedron_unit_inertia_tensor_wrt_point(&o, &p, &q, &r, &s)) }
        "trimesh3_vol_com" => { let v = pts3(a); let i = idx(a); guarded(|| { let (vol, c) = trimesh_signed_volume_and_center_of_mass(&v, &i); format!("{} {}", ff(vol), d3::fp(&c)) }) }
        "from_trimesh3" => { let d = a.f(); let v = pts3(a); let i = idx(a); guarded(|| fci3(&MP3::from_trimesh(d, &v, &i))) }
        "from_trimesh3_tensor" => { let d = a.f(); let v = pts3(a); let i = idx(a); guarded(|| { let m = MP3::from_trimesh(d, &v, &i);
            format!("{} {} {}", fm3(&m.reconstruct_inertia_matrix()), d3::fv(&m.principal_inertia()), fquat(&m.principal_inertia_local_frame)) }) }
        "from_trimesh3_flip" => { let d = a.f(); let v = pts3(a); let i = idx(a); guarded(|| {
            let fl: Vec<[u32; 3]> = i.iter().map(|t| [t[0], t[2], t[1]]).collect();
            let (m1, m2) = (MP3::from_trimesh(d, &v, &i), MP3::from_trimesh(d, &v, &fl));
            format!("{} {} {} {}", fmc3(&m1), fm3(&m1.reconstruct_inertia_matrix()), fmc3(&m2), fm3(&m2.reconstruct_inertia_matrix())) }) }
        "trimesh3_shape" => { use crate::p3::shape::{Shape, TriMesh};
            let d = a.f(); let v = pts3(a); let i = idx(a);
            guarded(|| match TriMesh::new(v, i) { Ok(tm) => fci3(&tm.mass_properties(d)), Err(_) => "none".into() }) }
        "convex3_shape" => { use crate::p3::shape::{ConvexPolyhedron, Shape};
            let d = a.f(); let v = pts3(a); let i = idx(a);
            guarded(|| match ConvexPolyhedron::from_convex_mesh(v, &i) {
                Some(cp) => { let m = cp.mass_properties(d); format!("{} {} {} {}", fci3(&m), fm3(&m.reconstruct_inertia_matrix()), d3::fv(&m.principal_inertia()), fquat(&m.principal_inertia_local_frame)) }
                None => "none".into() }) }
        _ => ext::exec(func, a),
    }
}

#[path = "c13_ext.rs"]
mod ext;

/// `Zero::is_zero` is `*self == Self::zero()`; the trait is not re-exported, `na::zero` reaches `Zero::zero`
fn num_is_zero2(p: &MP2) -> bool { *p == d2::na::zero::<MP2>() }

// ------------------------------------------------------------------ generators

fn density(r: &mut Rng, lat: bool) -> f64 { if lat { *r.pick(&[0.5, 1.0, 2.0, 4.0]) } else { r.logu(1e-2, 1e2) } }

fn gen_tri2(r: &mut Rng, lat: bool) -> [P2; 3] {
    if lat {
        let a = d2::gen_p(r, true, 1.0);
        match r.below(8) {
            0 => { // collinear / coincident (degenerate but valid input)
                let d = d2::gen_v(r, true, 1.0);
                [a, a + d, a + d * *r.pick(&[0.0, 0.5, 1.0, 2.0, -1.0])] }
            1 => { // the unit right triangle family (the documented counter-example), at the origin or shifted
                let s = *r.pick(&[0.5, 1.0, 2.0, 3.0]);
                let o = if r.bool() { P2::origin() } else { a };
                let t = [o, o + d2::Vector::new(s, 0.0), o + d2::Vector::new(0.0, s)];
                let k = r.below(3) as usize; [t[k], t[(k + 1) % 3], t[(k + 2) % 3]] }
            _ => [a, d2::gen_p(r, true, 1.0), d2::gen_p(r, true, 1.0)],
        }
    } else {
        let c = d2::gen_p(r, false, 50.0);
        let s = r.logu(1e-2, 1e2);
        let mut t = [c; 3];
        for p in t.iter_mut() { *p = c + d2::Vector::new(r.uniform(-s, s), r.uniform(-s, s)); }
        t
    }
}
fn htri(t: &[P2; 3]) -> String { format!("{} {} {}", d2::hp(&t[0]), d2::hp(&t[1]), d2::hp(&t[2])) }
fn hpts(v: &[P2]) -> String { if v.is_empty() { "0".into() } else { format!("{} {}", v.len(), v.iter().map(d2::hp).collect::<Vec<_>>().join(" ")) } }

/// convex polygons: lattice templates (incl. collinear vertices) under exact symmetries, or points on a rotated ellipse
fn gen_convex(r: &mut Rng, lat: bool, thorough: bool) -> Vec<P2> {
    let mut v: Vec<P2>;
    if lat {
        let w = *r.pick(&[0.5, 1.0, 2.0, 3.0, 6.0]); let h = *r.pick(&[0.5, 1.0, 2.0, 3.0, 6.0]);
        let c = if r.below(3) == 0 { d2::Vector::zeros() } else { d2::gen_v(r, true, 1.0) };
        v = match r.below(6) {
            0 => vec![P2::new(0.0, 0.0), P2::new(w, 0.0), P2::new(w, h), P2::new(0.0, h)],
            1 => vec![P2::new(-w, -h), P2::new(w, -h), P2::new(w, h), P2::new(-w, h)],
            2 => vec![P2::new(0.0, 0.0), P2::new(w, 0.0), P2::new(0.0, h)],
            3 => { let k = 0.25 * w.min(h); // octagon with cut corners
                vec![P2::new(k, 0.0), P2::new(w - k, 0.0), P2::new(w, k), P2::new(w, h - k), P2::new(w - k, h), P2::new(k, h), P2::new(0.0, h - k), P2::new(0.0, k)] }
            4 => vec![P2::new(0.0, 0.0), P2::new(w * 0.5, 0.0), P2::new(w, 0.0), P2::new(w, h), P2::new(w * 0.5, h), P2::new(0.0, h), P2::new(0.0, h * 0.5)], // collinear vertices
            _ => vec![P2::new(0.0, 0.0), P2::new(w, 0.0), P2::new(w + 0.5, h), P2::new(0.5, h)], // parallelogram
        };
        let rot = r.below(4);
        for p in v.iter_mut() {
            for _ in 0..rot { *p = P2::new(-p.y, p.x); }
            *p += c;
        }
    } else {
        let n = 3 + r.below(if thorough { 10 } else { 6 }) as usize;
        let c = d2::gen_p(r, false, 50.0);
        let (rx, ry) = (r.logu(1e-2, 1e2), 0.0);
        let ry = if ry == 0.0 { rx * r.logu(0.1, 10.0) } else { ry };
        let th = r.uniform(0.0, 6.28);
        let mut angs: Vec<f64> = (0..n).map(|_| r.uniform(0.0, std::f64::consts::TAU)).collect();
        angs.sort_by(|a, b| a.partial_cmp(b).unwrap());
        v = angs.iter().map(|t| { let (x, y) = (rx * t.cos(), ry * t.sin());
            c + d2::Vector::new(th.cos() * x - th.sin() * y, th.sin() * x + th.cos() * y) }).collect();
    }
    let k = r.below(v.len() as u64) as usize; v.rotate_left(k);
    if r.bool() { v.reverse(); }
    v
}

/// non-overlapping triangle soups: grids with random diagonals, fans of convex polygons; random corner order and orientation
fn gen_mesh(r: &mut Rng, lat: bool, thorough: bool) -> (Vec<P2>, Vec<[u32; 3]>) {
    let mut v: Vec<P2> = Vec::new(); let mut t: Vec<[u32; 3]> = Vec::new();
    match r.below(3) {
        0 => { // grid
            let nx = 1 + r.below(if thorough { 4 } else { 3 }) as usize; let ny = 1 + r.below(3) as usize;
            let (dx, dy) = if lat { (*r.pick(&[0.5, 1.0, 2.0, 3.0]), *r.pick(&[0.5, 1.0, 2.0, 6.0])) } else { (r.logu(1e-2, 1e1), r.logu(1e-2, 1e1)) };
            for j in 0..=ny { for i in 0..=nx { v.push(P2::new(i as f64 * dx, j as f64 * dy)); } }
            let id = |i: usize, j: usize| (j * (nx + 1) + i) as u32;
            for j in 0..ny { for i in 0..nx {
                let (a, b, c, d) = (id(i, j), id(i + 1, j), id(i + 1, j + 1), id(i, j + 1));
                if r.bool() { t.push([a, b, c]); t.push([a, c, d]); } else { t.push([a, b, d]); t.push([b, c, d]); }
            } }
        }
        1 => { // fan of a convex polygon from its first vertex
            v = gen_convex(r, lat, thorough);
            for i in 1..v.len() - 1 { t.push([0, i as u32, i as u32 + 1]); }
        }
        _ => { // fan around an interior point (the vertex average)
            v = gen_convex(r, lat, thorough);
            let n = v.len();
            let c = v.iter().fold(d2::Vector::zeros(), |s, p| s + p.coords) / n as f64;
            v.push(P2::from(c));
            for i in 0..n { t.push([n as u32, i as u32, ((i + 1) % n) as u32]); }
        }
    }
    // rigid placement
    let m = d2::gen_iso(r, lat, if lat { 4.0 } else { 50.0 });
    if r.below(3) != 0 { for p in v.iter_mut() { *p = m * *p; } }
    // random corner order / orientation per triangle
    for tr in t.iter_mut() {
        let k = r.below(3) as usize; tr.rotate_left(k);
        if r.below(4) == 0 { tr.swap(1, 2); }
    }
    (v, t)
}
fn hmesh(v: &[P2], t: &[[u32; 3]]) -> String {
    format!("{} {} {}", hpts(v), t.len(), t.iter().map(|x| format!("{} {} {}", x[0], x[1], x[2])).collect::<Vec<_>>().join(" "))
}

fn gen_mp2(r: &mut Rng, lat: bool) -> MP2 {
    let k = r.below(12);
    if k == 0 { return d2::na::zero::<MP2>(); }
    let com = d2::gen_p(r, lat, 50.0);
    let mass = if lat { *r.pick(&[0.5, 1.0, 2.0, 3.0, 4.0]) } else { r.logu(1e-2, 1e3) };
    let inertia = if lat { *r.pick(&[0.25, 1.0, 2.25, 4.0, 16.0]) } else { r.logu(1e-3, 1e4) };
    match k {
        1 => MP2::new(com, 0.0, inertia),          // massless with inertia
        2 => MP2::new(com, mass, 0.0),             // point mass
        3 => MP2::new(com, 0.0, 0.0),              // nothing, but not `zero()` unless com = 0
        4 => MP2::new(P2::origin(), mass, inertia),
        _ => MP2::new(com, mass, inertia),
    }
}

/// positive mass and inertia
fn gen_full_mp2(r: &mut Rng, lat: bool) -> MP2 {
    let com = d2::gen_p(r, lat, 50.0);
    let mass = if lat { *r.pick(&[0.5, 1.0, 2.0, 3.0, 4.0]) } else { r.logu(1e-2, 1e3) };
    let inertia = if lat { *r.pick(&[0.25, 1.0, 2.25, 4.0, 16.0]) } else { r.logu(1e-3, 1e4) };
    MP2::new(com, mass, inertia)
}

/// 3-D mass properties with moderate magnitudes (the `+ - sum` comparison is relative to the tensor norm)
fn gen_mp3(r: &mut Rng, lat: bool) -> MP3 {
    let k = r.below(12);
    if k == 0 { return d3::na::zero::<MP3>(); }
    let com = d3::gen_p(r, lat, 10.0);
    let mass = if lat { *r.pick(&[0.5, 1.0, 2.0, 3.0, 4.0]) } else { r.logu(1e-1, 1e2) };
    let pi = |r: &mut Rng| if lat { *r.pick(&[0.25, 1.0, 2.25, 4.0, 16.0]) } else { r.logu(1e-2, 1e2) };
    let i = V3::new(pi(r), pi(r), pi(r));
    let q = d3::gen_quat(r, lat);
    let frame = d3::na::Unit::new_unchecked(d3::na::Quaternion::new(q[3], q[0], q[1], q[2]));
    match k {
        1 => MP3::with_principal_inertia_frame(com, 0.0, i, frame),
        2 => MP3::with_principal_inertia_frame(com, mass, V3::zeros(), frame),
        3 => MP3::new(com, mass, i),
        4 => MP3::with_principal_inertia_frame(d3::Point::origin(), mass, V3::new(i.x, i.x, i.x), frame),
        _ => MP3::with_principal_inertia_frame(com, mass, i, frame),
    }
}
fn gen_full_mp3(r: &mut Rng, lat: bool) -> MP3 {
    loop { let m = gen_mp3(r, lat); if m.inv_mass != 0.0 && m.inv_principal_inertia_sqrt.iter().all(|e| *e != 0.0) { return m; } }
}


// ------------------------------------------------------------------ 3-D closed meshes

type Mesh3 = (Vec<P3>, Vec<[u32; 3]>);
fn hpts3(v: &[P3]) -> String { if v.is_empty() { "0".into() } else { format!("{} {}", v.len(), v.iter().map(d3::hp).collect::<Vec<_>>().join(" ")) } }
fn hmesh3(m: &Mesh3) -> String {
    if m.1.is_empty() { return format!("{} 0", hpts3(&m.0)); }
    format!("{} {} {}", hpts3(&m.0), m.1.len(), m.1.iter().map(|x| format!("{} {} {}", x[0], x[1], x[2])).collect::<Vec<_>>().join(" "))
}
/// a quad `a b c d` (counter-clockwise seen from outside) as two triangles, either diagonal
fn quad(t: &mut Vec<[u32; 3]>, r: &mut Rng, a: u32, b: u32, c: u32, d: u32) {
    if r.bool() { t.push([a, b, c]); t.push([a, c, d]); } else { t.push([a, b, d]); t.push([b, c, d]); }
}
/// box `[-h, h]`, 8 vertices (index bit 0/1/2 = +x/+y/+z), 12 outward triangles
fn box_mesh(r: &mut Rng, h: V3) -> Mesh3 {
    let v: Vec<P3> = (0..8).map(|i| P3::new(if i & 1 != 0 { h.x } else { -h.x }, if i & 2 != 0 { h.y } else { -h.y }, if i & 4 != 0 { h.z } else { -h.z })).collect();
    let mut t = Vec::new();
    for f in [[0, 2, 3, 1], [4, 5, 7, 6], [0, 1, 5, 4], [2, 6, 7, 3], [0, 4, 6, 2], [1, 3, 7, 5]] { quad(&mut t, r, f[0], f[1], f[2], f[3]); }
    (v, t)
}
/// planar polygon in the `(x, z)` plane for prisms / bipyramids: lattice templates (rectangle, right triangle, the
/// non-convex L, a hexagon with collinear vertices) or points on an ellipse
fn ring(r: &mut Rng, lat: bool, thorough: bool) -> Vec<(f64, f64)> {
    if lat {
        let w = *r.pick(&[0.5, 1.0, 2.0, 3.0]); let h = *r.pick(&[0.5, 1.0, 2.0, 6.0]);
        match r.below(5) {
            0 => vec![(-w, -h), (w, -h), (w, h), (-w, h)],
            1 => vec![(0.0, 0.0), (w, 0.0), (0.0, h)],
            2 => vec![(0.0, 0.0), (2.0 * w, 0.0), (2.0 * w, h), (w, h), (w, 2.0 * h), (0.0, 2.0 * h)],
            3 => vec![(0.0, 0.0), (w, 0.0), (2.0 * w, 0.0), (2.0 * w, h), (w, h), (0.0, h)],
            _ => vec![(w, 0.0), (0.0, h), (-w, 0.0), (0.0, -h)],
        }
    } else {
        let n = 3 + r.below(if thorough { 8 } else { 5 }) as usize;
        let (rx, rz) = (r.logu(0.1, 10.0), r.logu(0.1, 10.0));
        let mut angs: Vec<f64> = (0..n).map(|_| r.uniform(0.0, std::f64::consts::TAU)).collect();
        angs.sort_by(|a, b| a.partial_cmp(b).unwrap());
        angs.iter().map(|t| (rx * t.cos(), rz * t.sin())).collect()
    }
}
/// prism over `ring` between `y = -h` and `y = h`: caps are fans from vertex 0 (a valid closed surface for any simple ring)
fn prism_mesh(r: &mut Rng, ring: &[(f64, f64)], h: f64) -> Mesh3 {
    let n = ring.len() as u32;
    let mut v: Vec<P3> = ring.iter().map(|p| P3::new(p.0, -h, p.1)).collect();
    v.extend(ring.iter().map(|p| P3::new(p.0, h, p.1)));
    let mut t = Vec::new();
    for i in 1..n - 1 { t.push([n, n + i, n + i + 1]); t.push([0, i + 1, i]); }
    for i in 0..n { let j = (i + 1) % n; quad(&mut t, r, i, j, n + j, n + i); }
    (v, t)
}
/// two apexes over a ring (apexes may be off-axis: possibly non-convex, still closed)
fn bipyramid_mesh(ring: &[(f64, f64)], top: P3, bot: P3) -> Mesh3 {
    let n = ring.len() as u32;
    let mut v: Vec<P3> = ring.iter().map(|p| P3::new(p.0, 0.0, p.1)).collect();
    v.push(top); v.push(bot);
    let mut t = Vec::new();
    for i in 0..n { let j = (i + 1) % n; t.push([n, i, j]); t.push([n + 1, j, i]); }
    (v, t)
}
fn tetra_mesh(p: [P3; 4]) -> Mesh3 { (p.to_vec(), vec![[0, 1, 2], [0, 3, 1], [0, 2, 3], [1, 3, 2]]) }
/// 1 -> 4 midpoint subdivision with shared midpoints (stays closed), or 1 -> 3 centroid split
fn subdivide(r: &mut Rng, m: Mesh3) -> Mesh3 {
    let (mut v, t) = m;
    let mut out = Vec::new();
    if r.bool() {
        let mut mids: std::collections::HashMap<(u32, u32), u32> = std::collections::HashMap::new();
        let mut mid = |v: &mut Vec<P3>, a: u32, b: u32| -> u32 {
            let k = (a.min(b), a.max(b));
            *mids.entry(k).or_insert_with(|| { let (p, q) = (v[k.0 as usize], v[k.1 as usize]); v.push(P3::from((p.coords + q.coords) * 0.5)); v.len() as u32 - 1 })
        };
        for [a, b, c] in t {
            let (ab, bc, ca) = (mid(&mut v, a, b), mid(&mut v, b, c), mid(&mut v, c, a));
            out.extend([[a, ab, ca], [ab, b, bc], [ca, bc, c], [ab, bc, ca]]);
        }
    } else {
        for [a, b, c] in t {
            let g = P3::from((v[a as usize].coords + v[b as usize].coords + v[c as usize].coords) / 3.0);
            v.push(g); let k = v.len() as u32 - 1;
            out.extend([[a, b, k], [b, c, k], [c, a, k]]);
        }
    }
    (v, out)
}
fn append_mesh(a: &mut Mesh3, b: Mesh3) {
    let off = a.0.len() as u32;
    a.0.extend(b.0);
    a.1.extend(b.1.into_iter().map(|t| [t[0] + off, t[1] + off, t[2] + off]));
}
fn flip_all(m: &mut Mesh3) { for t in m.1.iter_mut() { t.swap(1, 2); } }
/// wind a single closed body outwards (positive signed volume)
fn outward(mut m: Mesh3) -> Mesh3 {
    let vol: f64 = m.1.iter().map(|t| { let (a, b, c) = (m.0[t[0] as usize].coords, m.0[t[1] as usize].coords, m.0[t[2] as usize].coords); a.dot(&b.cross(&c)) }).sum();
    if vol < 0.0 { flip_all(&mut m); }
    m
}

/// closed triangle meshes of either orientation.  Returns `(mesh, convex_and_outward)`.
/// Families: boxes, tetrahedra, prisms (convex / L-shaped), bipyramids, parry's own `to_trimesh` of the five primitives,
/// hollow boxes (outer shell outward + cavity inward), two disjoint bodies; optionally subdivided; then: whole mesh wound
/// INWARDS with probability 1/2, a single triangle flipped (inconsistent soup) with probability 1/12, corner rotation,
/// triangle order shuffled, rigid placement.
fn gen_mesh3(r: &mut Rng, lat: bool, thorough: bool) -> (Mesh3, bool) {
    use crate::p3::shape::{Ball, Capsule, Cone, Cuboid, Cylinder};
    let ext = |r: &mut Rng| if lat { *r.pick(&[0.25, 0.5, 1.0, 1.5, 2.0, 3.0]) } else { r.logu(0.05, 20.0) };
    let mut convex = true;
    let mut m: Mesh3 = match r.below(9) {
        0 => { let h = V3::new(ext(r), ext(r), ext(r)); box_mesh(r, h) }
        1 => { let s = if lat { 1.0 } else { r.logu(0.05, 20.0) };
               let mut p = [P3::origin(); 4];
               for q in p.iter_mut() { *q = if lat { d3::gen_p(r, true, 1.0) } else { P3::new(r.uniform(-s, s), r.uniform(-s, s), r.uniform(-s, s)) }; }
               if lat && r.below(3) == 0 { let a = ext(r); p = [P3::origin(), P3::new(a, 0.0, 0.0), P3::new(0.0, a, 0.0), P3::new(0.0, 0.0, a)]; }
               convex = false; // orientation is arbitrary
               tetra_mesh(p) }
        2 => { let rg = ring(r, lat, thorough); convex = !(lat && rg.len() == 6 && rg[3].0 < rg[2].0 && rg[3].1 == rg[2].1 && rg[4].1 > rg[3].1 && rg[4].0 == rg[3].0 && rg[1].1 == 0.0 && rg[2].0 == rg[1].0 && rg[3].0 * 2.0 == rg[2].0);
               let h = ext(r); outward(prism_mesh(r, &rg, h)) }
        3 => { let rg = ring(r, lat, thorough); let (h1, h2) = (ext(r), ext(r));
               let off = if r.bool() { V3::zeros() } else { convex = false; V3::new(r.coord(lat, 2.0), 0.0, r.coord(lat, 2.0)) };
               if rg.len() == 6 { convex = false; }
               let c = rg.iter().fold((0.0, 0.0), |s, p| (s.0 + p.0, s.1 + p.1)); let c = P3::new(c.0 / rg.len() as f64, 0.0, c.1 / rg.len() as f64);
               outward(bipyramid_mesh(&rg, c + V3::new(0.0, h1, 0.0) + off, c - V3::new(0.0, h2, 0.0) - off)) }
        4 => Cuboid::new(V3::new(ext(r), ext(r), ext(r))).to_trimesh(),
        5 => { let n = 3 + r.below(if thorough { 8 } else { 4 }) as u32;
               match r.below(4) {
                   0 => Ball::new(ext(r)).to_trimesh(n, n),
                   1 => Cylinder::new(ext(r), ext(r)).to_trimesh(n),
                   2 => Cone::new(ext(r), ext(r)).to_trimesh(n),
                   _ => Capsule::new_y(ext(r), ext(r)).to_trimesh(n.max(4), n.max(4)),
               } }
        6 => { // hollow box: cavity wound inwards
               convex = false;
               let h = V3::new(ext(r), ext(r), ext(r));
               let mut o = box_mesh(r, h);
               let k = *r.pick(&[0.25, 0.5, 0.75]);
               let mut c = box_mesh(r, h * k); flip_all(&mut c);
               let sh = if r.bool() { V3::zeros() } else { V3::new(h.x * (1.0 - k) * 0.5, 0.0, -h.z * (1.0 - k) * 0.25) };
               for p in c.0.iter_mut() { *p += sh; }
               append_mesh(&mut o, c); o }
        7 => { // two disjoint bodies
               convex = false;
               let h = V3::new(ext(r), ext(r), ext(r));
               let mut o = box_mesh(r, h);
               let mut b = if r.bool() { let h2 = V3::new(ext(r), ext(r), ext(r)); box_mesh(r, h2) } else { let rg = ring(r, lat, thorough); let hh = ext(r); outward(prism_mesh(r, &rg, hh)) };
               let sh = V3::new(h.x + 25.0, r.coord(lat, 4.0), r.coord(lat, 4.0));
               for p in b.0.iter_mut() { *p += sh; }
               append_mesh(&mut o, b); o }
        _ => { // the reviewers' shape: cube / 1x2x3 box at the origin or shifted
               let h = if r.bool() { V3::new(1.0, 2.0, 3.0) } else { let a = ext(r); V3::new(a, a, a) };
               let mut b = box_mesh(r, h);
               if r.bool() { let sh = V3::new(30.0, 20.0, 10.0); for p in b.0.iter_mut() { *p += sh; } }
               b }
    };
    if m.1.len() <= (if thorough { 60 } else { 30 }) && r.below(4) == 0 { m = subdivide(r, m); }
    // orientation
    if r.bool() { flip_all(&mut m); convex = false; }
    if r.below(12) == 0 && !m.1.is_empty() { let k = r.below(m.1.len() as u64) as usize; m.1[k].swap(1, 2); convex = false; }
    for tr in m.1.iter_mut() { let k = r.below(3) as usize; tr.rotate_left(k); }
    for i in (1..m.1.len()).rev() { let j = r.below(i as u64 + 1) as usize; m.1.swap(i, j); }
    // rigid placement
    if r.below(3) != 0 {
        let iso = d3::gen_iso(r, lat, if lat { 4.0 } else { 50.0 });
        for p in m.0.iter_mut() { *p = iso * *p; }
    }
    (m, convex)
}

pub fn gen(r: &mut Rng, thorough: bool) -> Vec<(String, String)> {
    let n = if thorough { 4000 } else { 400 };
    let mut v: Vec<(String, String)> = Vec::new();
    for it in 0..n {
        let lat = it % 2 == 0;
        let d = density(r, lat);
        // triangles
        let t = gen_tri2(r, lat);
        for f in ["tri_area", "tri_center", "tri_unit_inertia"] { v.push((f.into(), htri(&t))); }
        v.push(("from_triangle".into(), format!("{} {}", hx(d), htri(&t))));
        // convex polygons
        let poly = if r.below(150) == 0 { Vec::new() } else { gen_convex(r, lat, thorough) };
        v.push(("poly_area_com".into(), hpts(&poly)));
        v.push(("from_convex_polygon".into(), format!("{} {}", hx(d), hpts(&poly))));
        // 2-D meshes
        let (mv, mut mt) = gen_mesh(r, lat, thorough);
        if r.below(40) == 0 { let k = r.below(mt.len() as u64) as usize; mt[k][r.below(3) as usize] = mv.len() as u32 + r.below(3) as u32; }
        v.push(("trimesh_area_com".into(), hmesh(&mv, &mt)));
        v.push(("from_trimesh2".into(), format!("{} {}", hx(d), hmesh(&mv, &mt))));
        // closed forms
        let rad = r.pos_extent(lat);
        v.push(("from_ball2".into(), format!("{} {}", hx(d), hx(rad))));
        v.push(("from_cuboid2".into(), format!("{} {}", hx(d), d2::hv(&d2::gen_he(r, lat)))));
        let ca = d2::gen_p(r, lat, 10.0);
        let cb = match r.below(6) { 0 => ca, 1 => ca + d2::Vector::new(0.0, r.pos_extent(lat)), 2 => ca + d2::Vector::new(3.0, 4.0) * r.pos_extent(lat), _ => d2::gen_p(r, lat, 10.0) };
        v.push(("from_capsule2".into(), format!("{} {} {} {}", hx(d), d2::hp(&ca), d2::hp(&cb), hx(rad))));
        // algebra
        let (x, y) = (gen_mp2(r, lat), gen_mp2(r, lat));
        let mass = if lat { *r.pick(&[0.0, 0.5, 1.0, 3.0]) } else { r.logu(1e-2, 1e3) };
        let inertia = if lat { *r.pick(&[0.0, 0.25, 1.0, 2.0, 9.0]) } else { r.logu(1e-3, 1e4) };
        v.push(("mp2_new".into(), format!("{} {} {}", d2::hp(&d2::gen_p(r, lat, 50.0)), hx(mass), hx(inertia))));
        let m = d2::gen_iso(r, lat, 100.0);
        v.push(("mp2_transform".into(), format!("{} {}", hmp2(&x), d2::hiso(&m))));
        v.push(("mp2_is_zero".into(), hmp2(&x)));
        v.push(("mp2_add".into(), format!("{} {}", hmp2(&x), hmp2(&y))));
        // sub: half `(x+y) - y`, half unrelated pairs
        match r.below(4) {
            0 => v.push(("mp2_sub".into(), format!("{} {}", hmp2(&x), hmp2(&y)))),
            1 => { let z = gen_full_mp2(r, lat); v.push(("mp2_sub".into(), format!("{} {}", hmp2(&((z + x) + y)), hmp2(&y)))); }
            _ => { let z = gen_full_mp2(r, lat); v.push(("mp2_sub".into(), format!("{} {}", hmp2(&(z + y)), hmp2(&y)))); }
        }
        let k = r.below(6) as usize;
        let ms: Vec<MP2> = (0..k).map(|_| gen_mp2(r, lat)).collect();
        v.push(("mp2_sum".into(), format!("{} {}", k, ms.iter().map(hmp2).collect::<Vec<_>>().join(" "))));
        // compound of 1..4 placed parts (ball / cuboid / CCW convex polygon), through `Shape::mass_properties`
        { let np = 1 + r.below(4) as usize; let mut parts: Vec<String> = Vec::new();
          for _ in 0..np {
              let pm = d2::gen_iso(r, lat, if lat { 4.0 } else { 20.0 });
              let body = match r.below(3) {
                  0 => format!("0 {}", hx(r.pos_extent(lat))),
                  1 => format!("1 {}", d2::hv(&d2::gen_he(r, lat))),
                  _ => { let mut pv = gen_convex(r, false, thorough);
                         // `from_convex_polyline_unmodified` wants counter-clockwise input
                         let area2: f64 = (0..pv.len()).map(|i| { let (p, q) = (pv[i], pv[(i + 1) % pv.len()]); p.x * q.y - p.y * q.x }).sum();
                         if area2 < 0.0 { pv.reverse(); }
                         format!("2 {}", hpts(&pv)) }
              };
              parts.push(format!("{} {}", d2::hiso(&pm), body));
          }
          v.push(("from_compound2".into(), format!("{} {} {}", hx(d), np, parts.join(" ")))); }
        // ---------------- 3-D
        v.push(("from_ball3".into(), format!("{} {}", hx(d), hx(rad))));
        v.push(("from_cuboid3".into(), format!("{} {}", hx(d), d3::hv(&d3::gen_he(r, lat)))));
        let hh = r.pos_extent(lat);
        v.push(("from_cylinder".into(), format!("{} {} {}", hx(d), hx(hh), hx(rad))));
        v.push(("from_cone".into(), format!("{} {} {}", hx(d), hx(hh), hx(rad))));
        let pa = d3::gen_p(r, lat, 10.0);
        let pb = match r.below(7) { 0 => pa, 1 => pa + V3::new(0.0, r.pos_extent(lat), 0.0), 2 => pa - V3::new(0.0, r.pos_extent(lat), 0.0),
            3 => pa + V3::new(1.0, 2.0, 2.0) * r.pos_extent(lat), 4 => pa + V3::new(r.pos_extent(lat), 0.0, 0.0), _ => d3::gen_p(r, lat, 10.0) };
        let cap = format!("{} {} {} {}", hx(d), d3::hp(&pa), d3::hp(&pb), hx(rad));
        v.push(("from_capsule3".into(), cap.clone()));
        v.push(("from_capsule3_frame".into(), cap));
        let pin = if lat { V3::new(*r.pick(&[0.0, 0.25, 1.0, 9.0]), *r.pick(&[0.25, 1.0, 2.0]), *r.pick(&[0.0, 4.0, 3.0])) } else { V3::new(r.logu(1e-3, 1e4), r.logu(1e-3, 1e4), r.logu(1e-3, 1e4)) };
        v.push(("mp3_new".into(), format!("{} {} {}", d3::hp(&d3::gen_p(r, lat, 50.0)), hx(mass), d3::hv(&pin))));
        let (x3, y3) = (gen_mp3(r, lat), gen_mp3(r, lat));
        let m3 = d3::gen_iso(r, lat, 20.0);
        v.push(("mp3_reconstruct".into(), hmp3(&x3)));
        v.push(("mp3_transform".into(), format!("{} {}", hmp3(&x3), d3::hiso(&m3))));
        v.push(("mp3_add".into(), format!("{} {}", hmp3(&x3), hmp3(&y3))));
        v.push(("mp3_add_tensor".into(), format!("{} {}", hmp3(&x3), hmp3(&y3))));
        { let z = gen_full_mp3(r, lat);
          let big = if r.bool() { z + y3 } else { (z + x3) + y3 };
          v.push(("mp3_sub".into(), format!("{} {}", hmp3(&big), hmp3(&y3))));
          v.push(("mp3_sub_tensor".into(), format!("{} {}", hmp3(&big), hmp3(&y3)))); }
        let k3 = r.below(5) as usize;
        let ms3: Vec<MP3> = (0..k3).map(|_| gen_mp3(r, lat)).collect();
        let sum3 = format!("{} {}", k3, ms3.iter().map(hmp3).collect::<Vec<_>>().join(" "));
        v.push(("mp3_sum".into(), sum3.clone()));
        v.push(("mp3_sum_tensor".into(), sum3));
        if k3 > 0 {
            let tm: Vec<MP3> = ms3.iter().map(|p| p.transform_by(&m3)).collect();
            let sum3 = format!("{} {}", k3, tm.iter().map(hmp3).collect::<Vec<_>>().join(" "));
            v.push(("mp3_sum".into(), sum3.clone()));
            v.push(("mp3_sum_tensor".into(), sum3));
        }
        // ---------------- 3-D triangle meshes: closed surfaces of either orientation
        { let (mut m, convex) = gen_mesh3(r, lat, thorough);
          let tp: Vec<P3> = (0..5).map(|_| if lat { d3::gen_p(r, true, 1.0) } else { d3::gen_p(r, false, 10.0) }).collect();
          v.push(("tet_signed_volume".into(), tp[1..].iter().map(d3::hp).collect::<Vec<_>>().join(" ")));
          let o = if r.below(3) == 0 { tp[1] } else { tp[0] };
          v.push(("tet_unit_inertia".into(), format!("{} {}", d3::hp(&o), tp[1..].iter().map(d3::hp).collect::<Vec<_>>().join(" "))));
          if convex && r.bool() { v.push(("convex3_shape".into(), format!("{} {}", hx(d), hmesh3(&m)))); }
          match r.below(60) {
              0 => { if !m.1.is_empty() { let k = r.below(m.1.len() as u64) as usize; m.1[k][r.below(3) as usize] = m.0.len() as u32 + r.below(3) as u32; } }
              1 => { m = (Vec::new(), Vec::new()); }
              2 => { m.1.clear(); }
              3 => { for p in m.0.iter_mut() { p.y = 0.0; } }   // flat: zero volume
              _ => {}
          }
          let hm = hmesh3(&m);
          v.push(("trimesh3_vol_com".into(), hm.clone()));
          for f in ["from_trimesh3", "from_trimesh3_tensor", "from_trimesh3_flip"] { v.push((f.into(), format!("{} {}", hx(d), hm))); }
          if it % 4 < 2 { v.push(("trimesh3_shape".into(), format!("{} {}", hx(d), hm))); }
        }
        // covariance / tessellation identities on real outputs: transform of parts then sum
        if k > 0 {
            let tm: Vec<MP2> = ms.iter().map(|p| p.transform_by(&m)).collect();
            v.push(("mp2_sum".into(), format!("{} {}", k, tm.iter().map(hmp2).collect::<Vec<_>>().join(" "))));
        }
    }
    // growth families (appended so that the stream above is unchanged)
    ext::gen(r, thorough, &mut v);
    v
}
