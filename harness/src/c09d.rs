//! C09 growth: `find_root_intervals(_to)` on concrete `IntervalFunction`s, `Interval::sin/cos`.
use crate::util::*;
use crate::p3::utils::{find_root_intervals, find_root_intervals_to, Interval, IntervalFunction};

/// polynomial of degree <= 4 in the power basis; the same expressions as `Model.polyEval/polyEvalI/polyGradI`
pub struct Poly(pub [f64; 5]);
impl IntervalFunction<f64> for Poly {
    fn eval(&self, t: f64) -> f64 { let c = &self.0; c[0] + t * (c[1] + t * (c[2] + t * (c[3] + t * c[4]))) }
    fn eval_interval(&self, t: Interval<f64>) -> Interval<f64> {
        let c = &self.0;
        let t2 = t * t; let t3 = t2 * t; let t4 = t3 * t;
        (((t * c[1] + c[0]) + t2 * c[2]) + t3 * c[3]) + t4 * c[4]
    }
    fn eval_interval_gradient(&self, t: Interval<f64>) -> Interval<f64> {
        let c = &self.0;
        let t2 = t * t; let t3 = t2 * t;
        ((t * (2.0 * c[2]) + c[1]) + t2 * (3.0 * c[3])) + t3 * (4.0 * c[4])
    }
}
/// the `roots_sin` test function of interval.rs, in f64
pub struct Sin;
impl IntervalFunction<f64> for Sin {
    fn eval(&self, t: f64) -> f64 { t.sin() }
    fn eval_interval(&self, t: Interval<f64>) -> Interval<f64> { t.sin() }
    fn eval_interval_gradient(&self, t: Interval<f64>) -> Interval<f64> { t.cos() }
}
fn fres(r: &[Interval<f64>]) -> String {
    let mut s = format!("{}", r.len());
    for i in r { s.push(' '); s.push_str(&ff(i.0)); s.push(' '); s.push_str(&ff(i.1)); }
    s
}

pub fn exec(func: &str, a: &mut Args) -> Option<String> {
    Some(match func {
        // roots_poly c0..c4 lo hi minw minimg maxrec [k roots… : oracle only]
        "roots_poly" => { let c = [a.f(), a.f(), a.f(), a.f(), a.f()]; let init = Interval(a.f(), a.f()); let mw = a.f(); let mi = a.f(); let mr = a.u();
            fres(&find_root_intervals(&Poly(c), init, mw, mi, mr)) }
        // same through `find_root_intervals_to` with a non-empty `results` (must be kept) and junk `candidates` (must be cleared)
        "roots_poly_to" => { let c = [a.f(), a.f(), a.f(), a.f(), a.f()]; let init = Interval(a.f(), a.f()); let mw = a.f(); let mi = a.f(); let mr = a.u();
            let mut results = vec![Interval(7.0, 7.5)]; let mut cands = vec![(Interval(-1.0e3, 1.0e3), 0usize), (init, 1usize)];
            find_root_intervals_to(&Poly(c), init, mw, mi, mr, &mut results, &mut cands);
            format!("{} {}", cands.len(), fres(&results)) }
        "roots_sin" => { let init = Interval(a.f(), a.f()); let mw = a.f(); let mi = a.f(); let mr = a.u();
            fres(&find_root_intervals(&Sin, init, mw, mi, mr)) }
        "interval_sin" => { let x = Interval(a.f(), a.f()); let r = x.sin(); format!("{} {}", ff(r.0), ff(r.1)) }
        "interval_cos" => { let x = Interval(a.f(), a.f()); let r = x.cos(); format!("{} {}", ff(r.0), ff(r.1)) }
        "interval_sin_cos" => { let x = Interval(a.f(), a.f()); let (s, c) = x.sin_cos(); format!("{} {} {} {}", ff(s.0), ff(s.1), ff(c.0), ff(c.1)) }
        _ => return None,
    })
}

/// coefficients of `lead * prod (t - r_i)` (exact in f64 for small dyadic roots)
fn from_roots(lead: f64, roots: &[f64]) -> [f64; 5] {
    let mut c = [0.0f64; 5]; c[0] = lead;
    let mut deg = 0;
    for r in roots {
        // multiply by (t - r)
        let mut n = [0.0f64; 5];
        for i in 0..=deg { n[i + 1] += c[i]; n[i] -= c[i] * r; }
        c = n; deg += 1;
    }
    c
}

pub fn gen(r: &mut Rng, thorough: bool, v: &mut Vec<(String, String)>) {
    let n = if thorough { 4000 } else { 400 };
    for it in 0..n {
        let lat = it % 2 == 0;
        // ---- polynomial with known rational roots (degree 1..4, double roots, roots at the interval ends)
        let deg = 1 + r.below(4) as usize;
        let mut roots: Vec<f64> = (0..deg).map(|_| if lat { r.lattice(12, 2) } else { (r.uniform(-4.0, 4.0) * 64.0).round() / 64.0 }).collect();
        if deg >= 2 && r.below(3) == 0 { roots[1] = roots[0]; }              // double root
        if deg == 4 && r.below(6) == 0 { roots[2] = roots[0]; roots[1] = roots[0]; } // triple root
        let lead = *r.pick(&[1.0, -1.0, 0.5, 2.0, -3.0]);
        let mut c = from_roots(lead, &roots);
        // sometimes an irreducible quadratic factor (t^2 + s): fewer real roots than the degree
        let mut real_roots = roots.clone();
        if deg <= 2 && r.below(4) == 0 { let s = *r.pick(&[0.25, 1.0, 2.0]); let mut n = [0.0f64; 5]; for i in 0..3 { n[i + 2] += c[i]; n[i] += c[i] * s; } c = n; }
        if r.below(12) == 0 { c = [*r.pick(&[1.0, -2.0, 0.5]), 0.0, 0.0, 0.0, 0.0]; real_roots.clear(); }   // constant: no root
        let (lo, hi) = match r.below(5) {
            0 => { let a = roots[0]; (a, a + r.range(1, 8) as f64 * 0.5) }      // a root at the left end
            1 => { let b = roots[deg - 1]; (b - r.range(1, 8) as f64 * 0.5, b) } // a root at the right end
            2 => { let a = r.lattice(8, 1); (a, a) }                             // degenerate init
            3 => (-r.range(1, 6) as f64, r.range(1, 6) as f64),
            _ => { let c = roots[r.below(deg as u64) as usize]; let w = r.logu(0.1, 10.0); let a = c - w * r.unit(); (a, a + w) } // a root strictly inside
        };
        let (mw, mi, mr) = match r.below(4) {
            0 => (1.0e-5, 1.0e-5, r.below(6) as usize),                          // small budgets, tight thresholds
            1 => (*r.pick(&[1.0e-3, 0.25, 1.0]), *r.pick(&[1.0e-9, 1.0e-3, 0.5]), r.below(12) as usize),
            2 => (1.0e-5, 1.0e-5, 100),                                          // the defaults of the test in interval.rs
            _ => (r.logu(1e-8, 1.0), r.logu(1e-8, 1.0), 1 + r.below(40) as usize),
        };
        let args = format!("{} {} {} {} {} {} {} {}", hxs(c.iter()), hx(lo), hx(hi), hx(mw), hx(mi), mr, real_roots.len(), hxs(real_roots.iter()));
        v.push(((if it % 4 == 3 { "roots_poly_to" } else { "roots_poly" }).into(), args));
        // ---- sin
        if it % 2 == 0 {
            let a = if lat { r.range(-8, 8) as f64 * 0.5 } else { r.uniform(-20.0, 20.0) };
            let w = if r.below(8) == 0 { 0.0 } else { r.logu(0.05, 12.0) };
            let (mw, mi, mr) = match r.below(3) { 0 => (1.0e-5, 1.0e-5, 100usize), 1 => (1.0e-5, 1.0e-5, r.below(6) as usize), _ => (r.logu(1e-8, 1.0), r.logu(1e-8, 1.0), r.below(30) as usize) };
            v.push(("roots_sin".into(), format!("{} {} {} {} {}", hx(a), hx(a + w), hx(mw), hx(mi), mr)));
        }
        // ---- Interval::sin / cos: lattice around the critical points k*pi/2, widths near 2*pi
        for _ in 0..3 {
            let hp = std::f64::consts::FRAC_PI_2;
            let (a, b) = match r.below(6) {
                0 => { let k = r.range(-40, 40) as f64; let a = k * hp + *r.pick(&[0.0, 1e-9, -1e-9, 0.25, -0.25, 1e-15, -1e-15]); (a, a + *r.pick(&[0.0, 1e-9, 0.5, hp, 2.0 * hp, 3.0 * hp, 1.0])) }
                1 => { let a = r.uniform(-50.0, 50.0); let w = std::f64::consts::TAU + *r.pick(&[0.0, -1e-9, 1e-9, -1e-15, 1e-15, -0.125, 0.125, -4.0e-16, 4.0e-16]); (a, a + w) }
                2 => { let k = r.range(-400, 400) as f64; let l = r.range(0, 5) as f64; (k * hp, (k + l) * hp) }   // both ends on critical points
                3 => { let a = r.lattice(64, 3); (a, a + r.range(0, 28) as f64 * 0.25) }
                4 => { let a = r.uniform(-1000.0, 1000.0); (a, a + r.logu(1e-6, 7.0)) }
                _ => { let a = r.uniform(-7.0, 7.0); (a, a + r.uniform(0.0, 7.0)) }
            };
            let f = match r.below(5) { 0 | 1 => "interval_sin", 2 | 3 => "interval_cos", _ => "interval_sin_cos" };
            v.push((f.into(), format!("{} {}", hx(a), hx(b))));
        }
    }
}
