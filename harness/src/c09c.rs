//! C09 growth, 2-D: generated mechanically from c09b.rs (same protocol, `sh2_*` / `co2_*`), plus `aabb2_scaled`.
use crate::util::*;
use crate::p2::bounding_volume::{Aabb, BoundingSphere, BoundingVolume};
use crate::p2::na::{self, DVector};
use crate::p2::shape::{Ball, Capsule, Compound, ConvexPolygon, Cuboid, HalfSpace, HeightField, Polyline, RoundShape, Segment, Shape, SharedShape, TriMesh, Triangle};
use d2::{Isometry, Point, Real, Vector};


#[derive(Clone, Debug)]
pub enum Sh {
    Ball(f64), Cuboid(Vector<Real>), Capsule(Point<Real>, Point<Real>, f64), Segment(Point<Real>, Point<Real>),
    Triangle(Point<Real>, Point<Real>, Point<Real>), Poly(Vec<Point<Real>>),
    HalfSpace(Vector<Real>), Round(Box<Sh>, f64),
}
pub fn sh(a: &mut Args) -> Sh {
    match a.tok() {
        "ball" => Sh::Ball(a.f()),
        "cuboid" => Sh::Cuboid(d2::v(a)),
        "capsule" => { let p = d2::p(a); let q = d2::p(a); Sh::Capsule(p, q, a.f()) }
        "segment" => { let p = d2::p(a); let q = d2::p(a); Sh::Segment(p, q) }
        "triangle" => { let p = d2::p(a); let q = d2::p(a); let r = d2::p(a); Sh::Triangle(p, q, r) }
        "poly" => { let n = a.u(); Sh::Poly((0..n).map(|_| d2::p(a)).collect()) }
        "halfspace" => Sh::HalfSpace(d2::v(a)),
        "round" => { let i = sh(a); Sh::Round(Box::new(i), a.f()) }
        k => panic!("shape kind {}", k),
    }
}
pub fn hsh(s: &Sh) -> String {
    match s {
        Sh::Ball(r) => format!("ball {}", hx(*r)),
        Sh::Cuboid(he) => format!("cuboid {}", d2::hv(he)),
        Sh::Capsule(p, q, r) => format!("capsule {} {} {}", d2::hp(p), d2::hp(q), hx(*r)),
        Sh::Segment(p, q) => format!("segment {} {}", d2::hp(p), d2::hp(q)),
        Sh::Triangle(p, q, r) => format!("triangle {} {} {}", d2::hp(p), d2::hp(q), d2::hp(r)),
        Sh::Poly(ps) => format!("poly {} {}", ps.len(), ps.iter().map(d2::hp).collect::<Vec<_>>().join(" ")),
        Sh::HalfSpace(n) => format!("halfspace {}", d2::hv(n)),
        Sh::Round(i, br) => format!("round {} {}", hsh(i), hx(*br)),
    }
}
fn poly(ps: &[Point<Real>]) -> ConvexPolygon { ConvexPolygon::from_convex_hull(ps).expect("hull") }
pub fn dynsh(s: &Sh) -> Box<dyn Shape> {
    match s {
        Sh::Ball(r) => Box::new(Ball::new(*r)),
        Sh::Cuboid(he) => Box::new(Cuboid::new(*he)),
        Sh::Capsule(p, q, r) => Box::new(Capsule::new(*p, *q, *r)),
        Sh::Segment(p, q) => Box::new(Segment::new(*p, *q)),
        Sh::Triangle(p, q, r) => Box::new(Triangle::new(*p, *q, *r)),
        Sh::Poly(ps) => Box::new(poly(ps)),
        Sh::HalfSpace(n) => Box::new(HalfSpace::new(na::Unit::new_unchecked(*n))),
        Sh::Round(i, br) => match &**i {
            Sh::Cuboid(he) => Box::new(RoundShape { inner_shape: Cuboid::new(*he), border_radius: *br }),
            Sh::Triangle(p, q, r) => Box::new(RoundShape { inner_shape: Triangle::new(*p, *q, *r), border_radius: *br }),
            Sh::Poly(ps) => Box::new(RoundShape { inner_shape: poly(ps), border_radius: *br }),
            k => panic!("round inner {:?}", k),
        },
    }
}
/// the points the real `ConvexPolygon` holds (observed data: `<n> <pts> ;;` prefix of the output)
fn observed(s: &Sh) -> String {
    let ps = match s { Sh::Poly(ps) => Some(ps), Sh::Round(i, _) => match &**i { Sh::Poly(ps) => Some(ps), _ => None }, _ => None };
    match ps {
        None => String::new(),
        Some(ps) => match ConvexPolygon::from_convex_hull(ps) {
            Some(c) => format!("{} {} ;; ", c.points().len(), c.points().iter().map(d2::hp).collect::<Vec<_>>().join(" ")),
            None => "0 ;; ".into(),
        },
    }
}
pub fn faabb(b: &Aabb) -> String { format!("{} {}", d2::fp(&b.mins), d2::fp(&b.maxs)) }
pub fn haabb(b: &Aabb) -> String { format!("{} {}", d2::hp(&b.mins), d2::hp(&b.maxs)) }
pub fn fsph(s: &BoundingSphere) -> String { format!("{} {}", d2::fp(s.center()), ff(s.radius())) }

/// inherent methods (`X::aabb(&pos)` …); RoundShape has none: the trait methods are its only entry points
fn inh_aabb(s: &Sh, m: &Isometry<Real>) -> Aabb {
    match s {
        Sh::Ball(r) => Ball::new(*r).aabb(m), Sh::Cuboid(he) => Cuboid::new(*he).aabb(m),
        Sh::Capsule(p, q, r) => Capsule::new(*p, *q, *r).aabb(m), Sh::Segment(p, q) => Segment::new(*p, *q).aabb(m),
        Sh::Triangle(p, q, r) => Triangle::new(*p, *q, *r).aabb(m),
        Sh::Poly(ps) => poly(ps).aabb(m),
        Sh::HalfSpace(n) => HalfSpace::new(na::Unit::new_unchecked(*n)).aabb(m),
        Sh::Round(..) => dynsh(s).compute_aabb(m),
    }
}
fn inh_local_aabb(s: &Sh) -> Aabb {
    match s {
        Sh::Ball(r) => Ball::new(*r).local_aabb(), Sh::Cuboid(he) => Cuboid::new(*he).local_aabb(),
        Sh::Capsule(p, q, r) => Capsule::new(*p, *q, *r).local_aabb(), Sh::Segment(p, q) => Segment::new(*p, *q).local_aabb(),
        Sh::Triangle(p, q, r) => Triangle::new(*p, *q, *r).local_aabb(),
        Sh::Poly(ps) => poly(ps).local_aabb(),
        Sh::HalfSpace(n) => HalfSpace::new(na::Unit::new_unchecked(*n)).local_aabb(),
        Sh::Round(..) => dynsh(s).compute_local_aabb(),
    }
}
fn inh_bsphere(s: &Sh, m: &Isometry<Real>) -> BoundingSphere {
    match s {
        Sh::Ball(r) => Ball::new(*r).bounding_sphere(m), Sh::Cuboid(he) => Cuboid::new(*he).bounding_sphere(m),
        Sh::Capsule(p, q, r) => Capsule::new(*p, *q, *r).bounding_sphere(m), Sh::Segment(p, q) => Segment::new(*p, *q).bounding_sphere(m),
        Sh::Triangle(p, q, r) => Triangle::new(*p, *q, *r).bounding_sphere(m),
        Sh::Poly(ps) => poly(ps).bounding_sphere(m),
        Sh::HalfSpace(n) => HalfSpace::new(na::Unit::new_unchecked(*n)).bounding_sphere(m),
        Sh::Round(..) => dynsh(s).compute_bounding_sphere(m),
    }
}

// ---------------------------------------------------------------- composites
#[derive(Clone, Debug)]
pub enum Co {
    TriMesh(Vec<Point<Real>>, Vec<[u32; 3]>),
    Polyline(Vec<Point<Real>>, Vec<[u32; 2]>),
    Compound(Vec<(Isometry<Real>, Sh)>),
    /// heights, scale
    HeightField(Vec<f64>, Vector<Real>),
}
pub fn co(a: &mut Args) -> Co {
    match a.tok() {
        "trimesh" => { let nv = a.u(); let vs = (0..nv).map(|_| d2::p(a)).collect(); let nt = a.u();
            Co::TriMesh(vs, (0..nt).map(|_| [a.u() as u32, a.u() as u32, a.u() as u32]).collect()) }
        "polyline" => { let nv = a.u(); let vs = (0..nv).map(|_| d2::p(a)).collect(); let ns = a.u();
            Co::Polyline(vs, (0..ns).map(|_| [a.u() as u32, a.u() as u32]).collect()) }
        "compound" => { let n = a.u(); Co::Compound((0..n).map(|_| { let m = d2::iso(a); let s = sh(a); (m, s) }).collect()) }
        "heightfield" => { let n = a.u(); let hs = (0..n).map(|_| a.f()).collect(); Co::HeightField(hs, d2::v(a)) }
        k => panic!("composite kind {}", k),
    }
}
pub fn hco(c: &Co) -> String {
    match c {
        Co::TriMesh(vs, is) => format!("trimesh {} {} {} {}", vs.len(), vs.iter().map(d2::hp).collect::<Vec<_>>().join(" "), is.len(),
            is.iter().map(|t| format!("{} {} {}", t[0], t[1], t[2])).collect::<Vec<_>>().join(" ")),
        Co::Polyline(vs, is) => format!("polyline {} {} {} {}", vs.len(), vs.iter().map(d2::hp).collect::<Vec<_>>().join(" "), is.len(),
            is.iter().map(|t| format!("{} {}", t[0], t[1])).collect::<Vec<_>>().join(" ")),
        Co::Compound(ps) => format!("compound {} {}", ps.len(), ps.iter().map(|(m, s)| format!("{} {}", d2::hiso(m), hsh(s))).collect::<Vec<_>>().join(" ")),
        Co::HeightField(hs, sc) => format!("heightfield {} {} {}", hs.len(), hxs(hs.iter()), d2::hv(sc)),
    }
}
pub fn dynco(c: &Co) -> Box<dyn Shape> {
    match c {
        Co::TriMesh(vs, is) => Box::new(TriMesh::new(vs.clone(), is.clone()).expect("trimesh")),
        Co::Polyline(vs, is) => Box::new(Polyline::new(vs.clone(), Some(is.clone()))),
        Co::Compound(ps) => Box::new(Compound::new(ps.iter().map(|(m, s)| (*m, SharedShape(std::sync::Arc::from(dynsh(s))))).collect())),
        Co::HeightField(hs, sc) => Box::new(HeightField::new(DVector::from_column_slice(hs), *sc)),
    }
}
/// `.scaled(scale)` of the composite kinds that have it, then the local box
fn co_scaled_local_aabb(c: &Co, s: &Vector<Real>) -> Aabb {
    match c {
        Co::TriMesh(vs, is) => *TriMesh::new(vs.clone(), is.clone()).expect("trimesh").scaled(s).local_aabb(),
        Co::Polyline(vs, is) => *Polyline::new(vs.clone(), Some(is.clone())).scaled(s).local_aabb(),
        Co::HeightField(hs, sc) => HeightField::new(DVector::from_column_slice(hs), *sc).scaled(s).local_aabb(),
        Co::Compound(..) => panic!("compound has no scaled"),
    }
}

pub fn exec(func: &str, a: &mut Args) -> Option<String> {
    Some(match func {
        "sh2_aabb" => { let s = sh(a); let m = d2::iso(a); format!("{}{}", observed(&s), faabb(&dynsh(&s).compute_aabb(&m))) }
        "sh2_aabb_inh" => { let s = sh(a); let m = d2::iso(a); format!("{}{}", observed(&s), faabb(&inh_aabb(&s, &m))) }
        "sh2_local_aabb" => { let s = sh(a); format!("{}{}", observed(&s), faabb(&dynsh(&s).compute_local_aabb())) }
        "sh2_local_aabb_inh" => { let s = sh(a); format!("{}{}", observed(&s), faabb(&inh_local_aabb(&s))) }
        "sh2_bsphere" => { let s = sh(a); let m = d2::iso(a); format!("{}{}", observed(&s), fsph(&dynsh(&s).compute_bounding_sphere(&m))) }
        "sh2_bsphere_inh" => { let s = sh(a); let m = d2::iso(a); format!("{}{}", observed(&s), fsph(&inh_bsphere(&s, &m))) }
        "sh2_local_bsphere" => { let s = sh(a); format!("{}{}", observed(&s), fsph(&dynsh(&s).compute_local_bounding_sphere())) }
        "sh2_swept" => { let s = sh(a); let m1 = d2::iso(a); let m2 = d2::iso(a); format!("{}{}", observed(&s), faabb(&dynsh(&s).compute_swept_aabb(&m1, &m2))) }
        "co2_local_aabb" => { let c = co(a); faabb(&dynco(&c).compute_local_aabb()) }
        "co2_aabb" => { let c = co(a); let m = d2::iso(a); faabb(&dynco(&c).compute_aabb(&m)) }
        "co2_swept" => { let c = co(a); let m1 = d2::iso(a); let m2 = d2::iso(a); faabb(&dynco(&c).compute_swept_aabb(&m1, &m2)) }
        "co2_bsphere" => { let c = co(a); let m = d2::iso(a); fsph(&dynco(&c).compute_bounding_sphere(&m)) }
        "co2_scaled_aabb" => { let c = co(a); let s = d2::v(a); faabb(&co_scaled_local_aabb(&c, &s)) }
        "aabb2_scaled" => { let x = Aabb::new(d2::p(a), d2::p(a)); let s = d2::v(a); faabb(&x.scaled(&s)) }
        _ => return None,
    })
}

// ---------------------------------------------------------------- generators
fn gen_conv_pts(r: &mut Rng, lat: bool) -> Vec<Point<Real>> {
    // points in (mostly) convex position: an affine image of the octahedron / tetrahedron / cube corners, plus interior points
    let n = 4 + r.below(6) as usize;
    let mut ps: Vec<Point<Real>> = (0..n).map(|_| d2::gen_p(r, lat, 10.0)).collect();
    if r.below(3) == 0 { let c = ps[0]; ps.push(c); }          // duplicate
    if r.below(3) == 0 { let m = na::center(&ps[0], &ps[1]); ps.push(m); } // a point that is not a hull vertex
    ps
}
pub fn gen_sh(r: &mut Rng, lat: bool, kind: u64) -> Sh {
    match kind {
        0 => Sh::Ball(r.pos_extent(lat)),
        1 => Sh::Cuboid(d2::gen_he(r, lat)),
        2 => Sh::Capsule(d2::gen_p(r, lat, 10.0), d2::gen_p(r, lat, 10.0), r.pos_extent(lat)),
        3 => Sh::Segment(d2::gen_p(r, lat, 10.0), d2::gen_p(r, lat, 10.0)),
        4 => Sh::Triangle(d2::gen_p(r, lat, 10.0), d2::gen_p(r, lat, 10.0), d2::gen_p(r, lat, 10.0)),
        5 | 6 => Sh::Cuboid(d2::gen_he(r, lat)),
        7 => Sh::Poly(gen_conv_pts(r, lat)),
        8 => { let v = d2::gen_v(r, lat, 1.0); let n = v.norm(); Sh::HalfSpace(if n > 1e-3 { v / n } else { Vector::y() }) }
        _ => { let inner = match r.below(3) { 0 => gen_sh(r, lat, 1), 1 => gen_sh(r, lat, 4), _ => gen_sh(r, lat, 7) };
               Sh::Round(Box::new(inner), if r.below(8) == 0 { 0.0 } else { r.pos_extent(lat) }) }
    }
}
pub fn gen_trimesh(r: &mut Rng, lat: bool) -> Co {
    let nv = 3 + r.below(10) as usize;
    let vs: Vec<Point<Real>> = (0..nv).map(|_| d2::gen_p(r, lat, 20.0)).collect();
    let nt = 1 + r.below(12) as usize;
    let mut is = Vec::new();
    for _ in 0..nt {
        let i = r.below(nv as u64) as u32; let mut j = r.below(nv as u64) as u32; let mut k = r.below(nv as u64) as u32;
        if j == i { j = (i + 1) % nv as u32; } if k == i || k == j { k = (0..nv as u32).find(|x| *x != i && *x != j).unwrap(); }
        is.push([i, j, k]);
    }
    Co::TriMesh(vs, is)
}
pub fn gen_polyline(r: &mut Rng, lat: bool) -> Co {
    let nv = 2 + r.below(12) as usize;
    let vs: Vec<Point<Real>> = (0..nv).map(|_| d2::gen_p(r, lat, 20.0)).collect();
    let is: Vec<[u32; 2]> = if r.bool() { (0..nv as u32 - 1).map(|i| [i, i + 1]).collect() }
        else { (0..1 + r.below(8)).map(|_| { let i = r.below(nv as u64) as u32; let j = (i + 1 + r.below(nv as u64 - 1) as u32) % nv as u32; [i, j] }).collect() };
    Co::Polyline(vs, is)
}
fn gen_compound(r: &mut Rng, lat: bool) -> Co {
    let n = 1 + r.below(5) as usize;
    Co::Compound((0..n).map(|_| { let k = *r.pick(&[0u64, 1, 2, 3, 4, 5, 6, 9]); (d2::gen_iso(r, lat, 10.0), gen_sh(r, lat, k)) }).collect())
}
pub fn gen_scale(r: &mut Rng, lat: bool) -> Vector<Real> {
    let sg = |r: &mut Rng| if r.bool() { -1.0 } else { 1.0 };
    if lat { Vector::new(*r.pick(&[-3.0, -2.0, -1.0, -0.5, 0.5, 1.0, 2.0]), *r.pick(&[-2.0, -1.0, -0.25, 0.5, 1.0, 3.0])) }
    else { Vector::new(r.logu(1e-1, 1e1) * sg(r), r.logu(1e-1, 1e1) * sg(r)) }
}
pub fn gen_heightfield(r: &mut Rng, lat: bool, neg: bool) -> Co {
    let n = 2 + r.below(8) as usize;
    let hs: Vec<f64> = (0..n).map(|_| if lat { r.lattice(12, 2) } else { r.uniform(-5.0, 5.0) }).collect();
    let mut sc = gen_scale(r, lat);
    if !neg { sc = sc.abs(); }
    Co::HeightField(hs, sc)
}

pub fn gen(r: &mut Rng, thorough: bool, v: &mut Vec<(String, String)>) {
    let n = if thorough { 2400 } else { 240 };
    for it in 0..n {
        let lat = it % 2 == 0;
        let m = d2::gen_iso(r, lat, 100.0);
        let m2 = d2::gen_iso(r, lat, 100.0);
        for kind in 0..10u64 {
            // support-map kinds (cone, cylinder, round) get more weight
            let reps = if kind == 5 || kind == 6 || kind == 9 { 2 } else { 1 };
            for _ in 0..reps {
                let s = gen_sh(r, lat, kind);
                let hs = hsh(&s);
                let trait_first = r.bool();
                v.push(((if trait_first { "sh2_aabb" } else { "sh2_aabb_inh" }).into(), format!("{} {}", hs, d2::hiso(&m))));
                if it % 3 == 0 { v.push(((if trait_first { "sh2_aabb_inh" } else { "sh2_aabb" }).into(), format!("{} {}", hs, d2::hiso(&m)))); }
                if it % 4 == 1 { v.push(((if trait_first { "sh2_local_aabb" } else { "sh2_local_aabb_inh" }).into(), hs.clone())); }
                if it % 4 == 2 { v.push(((if trait_first { "sh2_bsphere" } else { "sh2_bsphere_inh" }).into(), format!("{} {}", hs, d2::hiso(&m)))); }
                if it % 8 == 3 { v.push(("sh2_local_bsphere".into(), hs.clone())); }
                if it % 4 == 3 { v.push(("sh2_swept".into(), format!("{} {} {}", hs, d2::hiso(&m), d2::hiso(&m2)))); }
            }
        }
        let c = match it % 4 { 0 => gen_trimesh(r, lat), 1 => gen_polyline(r, lat), 2 => gen_compound(r, lat), _ => { let neg = r.below(3) == 0; gen_heightfield(r, lat, neg) } };
        let hc = hco(&c);
        v.push(("co2_local_aabb".into(), hc.clone()));
        v.push(("co2_aabb".into(), format!("{} {}", hc, d2::hiso(&m))));
        if it % 2 == 0 { v.push(("co2_bsphere".into(), format!("{} {}", hc, d2::hiso(&m)))); }
        if it % 5 == 0 { v.push(("co2_swept".into(), format!("{} {} {}", hc, d2::hiso(&m), d2::hiso(&m2)))); }
        if it % 4 != 2 { v.push(("co2_scaled_aabb".into(), format!("{} {}", hc, d2::hv(&gen_scale(r, lat))))); }
        // boxes NOT centred at the origin, negative scale components
        let c2 = d2::gen_p(r, lat, 50.0); let he2 = d2::gen_he(r, lat);
        v.push(("aabb2_scaled".into(), format!("{} {} {}", d2::hp(&(c2 - he2)), d2::hp(&(c2 + he2)), d2::hv(&gen_scale(r, lat)))));
    }
}
