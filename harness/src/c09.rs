//! C09: intervals, Aabb, bounding spheres.
use crate::util::*;
use crate::p3::bounding_volume::{Aabb, BoundingVolume};
use crate::p3::utils::Interval;
use crate::p3::shape::{Ball, Capsule, Cone, Cuboid, Cylinder, Segment, Triangle};
use crate::p3::bounding_volume::{BoundingSphere, SimdAabb};
use crate::p3::math::SimdReal;
use crate::p3::simba::simd::SimdValue;
#[path = "c09b.rs"]
pub mod c09b;
#[path = "c09c.rs"]
pub mod c09c;
#[path = "c09d.rs"]
pub mod c09d;
#[path = "c09e.rs"]
pub mod c09e;

fn aabb(a: &mut Args) -> Aabb { Aabb::new(d3::p(a), d3::p(a)) }
fn faabb(b: &Aabb) -> String { format!("{} {}", d3::fp(&b.mins), d3::fp(&b.maxs)) }
fn haabb(b: &Aabb) -> String { format!("{} {}", d3::hp(&b.mins), d3::hp(&b.maxs)) }
fn aabb2(a: &mut Args) -> crate::p2::bounding_volume::Aabb { crate::p2::bounding_volume::Aabb::new(d2::p(a), d2::p(a)) }
fn faabb2(b: &crate::p2::bounding_volume::Aabb) -> String { format!("{} {}", d2::fp(&b.mins), d2::fp(&b.maxs)) }
fn fint(x: Interval<f64>) -> String { format!("{} {}", ff(x.0), ff(x.1)) }
fn interval(a: &mut Args) -> Interval<f64> { Interval(a.f(), a.f()) }

pub fn exec(func: &str, a: &mut Args) -> String {
    if let Some(r) = c09b::exec(func, a) { return r; }
    if let Some(r) = c09c::exec(func, a) { return r; }
    if let Some(r) = c09d::exec(func, a) { return r; }
    if let Some(r) = c09e::exec(func, a) { return r; }
    match func {
        "interval_add" => { let x = interval(a); let y = interval(a); fint(x + y) }
        "interval_sub" => { let x = interval(a); let y = interval(a); fint(x - y) }
        "interval_mul" => { let x = interval(a); let y = interval(a); fint(x * y) }
        "interval_muls" => { let x = interval(a); let r = a.f(); fint(x * r) }
        "interval_neg" => { let x = interval(a); fint(-x) }
        "interval_intersect" => { let x = interval(a); let y = interval(a);
            match x.intersect(y) { None => "none".into(), Some(r) => format!("some {}", fint(r)) } }
        "aabb_merged" => { let x = aabb(a); let y = aabb(a); faabb(&x.merged(&y)) }
        "aabb_loosened" => { let x = aabb(a); let m = a.f(); faabb(&x.loosened(m)) }
        "aabb_intersects" => { let x = aabb(a); let y = aabb(a); b(x.intersects(&y)).into() }
        "aabb_contains" => { let x = aabb(a); let y = aabb(a); b(x.contains(&y)).into() }
        "aabb_contains_point" => { let x = aabb(a); let p = d3::p(a); b(x.contains_local_point(&p)).into() }
        "aabb_intersection" => { let x = aabb(a); let y = aabb(a);
            match x.intersection(&y) { None => "none".into(), Some(r) => format!("some {}", faabb(&r)) } }
        "aabb_scaled" => { let x = aabb(a); let s = d3::v(a); faabb(&x.scaled(&s)) }
        "aabb_scaled_wrt_center" => { let x = aabb(a); let s = d3::v(a); faabb(&x.scaled_wrt_center(&s)) }
        "aabb_transform" => { let x = aabb(a); let m = d3::iso(a); faabb(&x.transform_by(&m)) }
        "aabb2_transform" => { let x = aabb2(a); let m = d2::iso(a); faabb2(&x.transform_by(&m)) }
        "aabb_bounding_sphere" => { let x = aabb(a); let s = x.bounding_sphere(); format!("{} {}", d3::fp(s.center()), ff(s.radius())) }
        "aabb_from_points" => { let n = a.u(); let pts: Vec<_> = (0..n).map(|_| d3::p(a)).collect(); faabb(&Aabb::from_points(&pts)) }
        "ball_aabb" => { let r = a.f(); let m = d3::iso(a); faabb(&Ball::new(r).aabb(&m)) }
        "cuboid_aabb" => { let he = d3::v(a); let m = d3::iso(a); faabb(&Cuboid::new(he).aabb(&m)) }
        "cuboid_aabb2" => { let he = d2::v(a); let m = d2::iso(a); faabb2(&crate::p2::shape::Cuboid::new(he).aabb(&m)) }
        "capsule_aabb" => { let p = d3::p(a); let q = d3::p(a); let r = a.f(); let m = d3::iso(a); faabb(&Capsule::new(p, q, r).aabb(&m)) }
        "triangle_aabb" => { let p = d3::p(a); let q = d3::p(a); let r = d3::p(a); let m = d3::iso(a); faabb(&Triangle::new(p, q, r).aabb(&m)) }
        "ball_bsphere" => { let r = a.f(); let m = d3::iso(a); fsph(&Ball::new(r).bounding_sphere(&m)) }
        "cuboid_bsphere" => { let he = d3::v(a); let m = d3::iso(a); fsph(&Cuboid::new(he).bounding_sphere(&m)) }
        "capsule_bsphere" => { let p = d3::p(a); let q = d3::p(a); let r = a.f(); let m = d3::iso(a); fsph(&Capsule::new(p, q, r).bounding_sphere(&m)) }
        "cone_bsphere" => { let hh = a.f(); let r = a.f(); let m = d3::iso(a); fsph(&Cone::new(hh, r).bounding_sphere(&m)) }
        "cyl_bsphere" => { let hh = a.f(); let r = a.f(); let m = d3::iso(a); fsph(&Cylinder::new(hh, r).bounding_sphere(&m)) }
        "triangle_bsphere" => { let p = d3::p(a); let q = d3::p(a); let r = d3::p(a); let m = d3::iso(a); fsph(&Triangle::new(p, q, r).bounding_sphere(&m)) }
        "segment_bsphere" => { let p = d3::p(a); let q = d3::p(a); let m = d3::iso(a); fsph(&Segment::new(p, q).bounding_sphere(&m)) }
        "bsphere_merged" => { let x = sph(a); let y = sph(a); fsph(&x.merged(&y)) }
        "bsphere_intersects" => { let x = sph(a); let y = sph(a); b(x.intersects(&y)).into() }
        "bsphere_contains" => { let x = sph(a); let y = sph(a); b(x.contains(&y)).into() }
        "simd_contains" => { let x = simd(a); let y = simd(a); fmask(x.contains(&y)) }
        "simd_intersects" => { let x = simd(a); let y = simd(a); fmask(x.intersects(&y)) }
        "simd_contains_point" => { let x = simd(a); let p = d3::p(a); fmask(x.contains_local_point(&crate::p3::na::Point3::splat(p))) }
        "simd_scaled" => { let x = simd(a); let s = d3::v(a); fsimd(&x.scaled(&crate::p3::na::Vector3::splat(s))) }
        "simd_loosen" => { let mut x = simd(a); let m = a.f(); x.loosen(SimdReal::splat(m)); fsimd(&x) }
        "simd_dilate" => { let mut x = simd(a); let f = a.f(); x.dilate_by_factor(SimdReal::splat(f)); fsimd(&x) }
        "simd_merged" => { let x = simd(a); faabb(&x.to_merged_aabb()) }
        "simd_dist_point" => { let x = simd(a); let p = d3::p(a); let d = x.distance_to_local_point(&crate::p3::na::Point3::splat(p));
            (0..4).map(|i| ff(d.extract(i))).collect::<Vec<_>>().join(" ") }
        "interval_div" => { let x = interval(a); let y = interval(a); let (p, q) = x / y;
            match q { None => format!("{} {} none", fx(p.0), fx(p.1)), Some(q) => format!("{} {} {} {}", fx(p.0), fx(p.1), fx(q.0), fx(q.1)) } }
        _ => "nofn".into(),
    }
}

fn fx(x: f64) -> String { if x.is_infinite() { hx(x) } else { ff(x) } }
fn sph(a: &mut Args) -> BoundingSphere { BoundingSphere::new(d3::p(a), a.f()) }
fn fsph(s: &BoundingSphere) -> String { format!("{} {}", d3::fp(s.center()), ff(s.radius())) }
fn hsph(s: &BoundingSphere) -> String { format!("{} {}", d3::hp(s.center()), hx(s.radius())) }
fn simd(a: &mut Args) -> SimdAabb { SimdAabb::from([aabb(a), aabb(a), aabb(a), aabb(a)]) }
fn fsimd(x: &SimdAabb) -> String { (0..4).map(|i| faabb(&x.extract(i))).collect::<Vec<_>>().join(" ") }
fn fmask(m: crate::p3::math::SimdBool) -> String { (0..4).map(|i| b(m.extract(i))).collect::<Vec<_>>().join(" ") }

fn gen_interval(r: &mut Rng, lat: bool) -> (f64, f64) {
    if lat {
        // every sign pattern incl. zero endpoints
        let a = r.range(-4, 4) as f64 * *r.pick(&[0.25, 0.5, 1.0, 2.5]);
        let w = r.range(0, 6) as f64 * *r.pick(&[0.25, 0.5, 1.0, 2.0]);
        (a, a + w)
    } else {
        let a = r.uniform(-100.0, 100.0); let w = r.logu(1e-3, 1e2);
        (a, a + w)
    }
}
fn gen_aabb(r: &mut Rng, lat: bool) -> Aabb {
    let c = d3::gen_p(r, lat, 50.0);
    let he = d3::gen_he(r, lat);
    if r.below(20) == 0 { Aabb::new(c, c) } else { Aabb::new(c - he, c + he) }
}

pub fn gen(r: &mut Rng, thorough: bool) -> Vec<(String, String)> {
    let n = if thorough { 6000 } else { 600 };
    let mut v = Vec::new();
    for it in 0..n {
        let lat = it % 2 == 0;
        let (a1, a2) = gen_interval(r, lat); let (b1, b2) = gen_interval(r, lat);
        let ab = format!("{} {} {} {}", hx(a1), hx(a2), hx(b1), hx(b2));
        for f in ["interval_add", "interval_sub", "interval_mul", "interval_intersect"] { v.push((f.to_string(), ab.clone())); }
        v.push(("interval_neg".into(), format!("{} {}", hx(a1), hx(a2))));
        v.push(("interval_muls".into(), format!("{} {} {}", hx(a1), hx(a2), hx(if lat { r.lattice(8, 2) } else { r.uniform(-10.0, 10.0) }))));
        let x = gen_aabb(r, lat);
        let y = if r.below(4) == 0 { // related box: shifted copy / nested / touching
            let s = d3::gen_v(r, true, 1.0); Aabb::new(x.mins + s, x.maxs + s) } else { gen_aabb(r, lat) };
        let xy = format!("{} {}", haabb(&x), haabb(&y));
        for f in ["aabb_merged", "aabb_intersects", "aabb_contains", "aabb_intersection"] { v.push((f.to_string(), xy.clone())); }
        v.push(("aabb_loosened".into(), format!("{} {}", haabb(&x), hx(if lat { r.range(0, 8) as f64 * 0.25 } else { r.logu(1e-3, 10.0) }))));
        let p = if r.bool() { x.mins + (x.maxs - x.mins).component_mul(&d3::Vector::new(*r.pick(&[0.0, 0.5, 1.0, 1.25, -0.25]), *r.pick(&[0.0, 0.5, 1.0]), *r.pick(&[0.0, 0.5, 1.0]))) } else { d3::gen_p(r, lat, 50.0) };
        v.push(("aabb_contains_point".into(), format!("{} {}", haabb(&x), d3::hp(&p))));
        let s = if lat { d3::Vector::new(*r.pick(&[-3.0, -2.0, -1.0, -0.5, -0.25, 0.25, 0.5, 1.0, 2.0, 3.0]), *r.pick(&[-2.0, -1.0, 0.5, 1.0, 3.0]), *r.pick(&[-0.25, -1.0, 1.0, 2.0])) }
                else { d3::Vector::new(r.logu(1e-2, 1e2) * if r.bool() { -1.0 } else { 1.0 }, r.logu(1e-2, 1e2) * if r.bool() { -1.0 } else { 1.0 }, r.logu(1e-2, 1e2) * if r.bool() { -1.0 } else { 1.0 }) };
        v.push(("aabb_scaled".into(), format!("{} {}", haabb(&x), d3::hv(&s))));
        v.push(("aabb_scaled_wrt_center".into(), format!("{} {}", haabb(&x), d3::hv(&s))));
        let m = d3::gen_iso(r, lat, 100.0);
        v.push(("aabb_transform".into(), format!("{} {}", haabb(&x), d3::hiso(&m))));
        v.push(("aabb_bounding_sphere".into(), haabb(&x)));
        let np = 1 + r.below(6) as usize;
        let pts: Vec<String> = (0..np).map(|_| d3::hp(&d3::gen_p(r, lat, 50.0))).collect();
        v.push(("aabb_from_points".into(), format!("{} {}", np, pts.join(" "))));
        v.push(("ball_aabb".into(), format!("{} {}", hx(r.pos_extent(lat)), d3::hiso(&m))));
        v.push(("cuboid_aabb".into(), format!("{} {}", d3::hv(&d3::gen_he(r, lat)), d3::hiso(&m))));
        v.push(("capsule_aabb".into(), format!("{} {} {} {}", d3::hp(&d3::gen_p(r, lat, 10.0)), d3::hp(&d3::gen_p(r, lat, 10.0)), hx(r.pos_extent(lat)), d3::hiso(&m))));
        v.push(("triangle_aabb".into(), format!("{} {} {} {}", d3::hp(&d3::gen_p(r, lat, 10.0)), d3::hp(&d3::gen_p(r, lat, 10.0)), d3::hp(&d3::gen_p(r, lat, 10.0)), d3::hiso(&m))));
        // part 2: bounding spheres, SIMD lanes, interval division
        v.push(("ball_bsphere".into(), format!("{} {}", hx(r.pos_extent(lat)), d3::hiso(&m))));
        v.push(("cuboid_bsphere".into(), format!("{} {}", d3::hv(&d3::gen_he(r, lat)), d3::hiso(&m))));
        v.push(("capsule_bsphere".into(), format!("{} {} {} {}", d3::hp(&d3::gen_p(r, lat, 10.0)), d3::hp(&d3::gen_p(r, lat, 10.0)), hx(r.pos_extent(lat)), d3::hiso(&m))));
        v.push(("cone_bsphere".into(), format!("{} {} {}", hx(r.pos_extent(lat)), hx(r.pos_extent(lat)), d3::hiso(&m))));
        v.push(("cyl_bsphere".into(), format!("{} {} {}", hx(r.pos_extent(lat)), hx(r.pos_extent(lat)), d3::hiso(&m))));
        v.push(("triangle_bsphere".into(), format!("{} {} {} {}", d3::hp(&d3::gen_p(r, lat, 10.0)), d3::hp(&d3::gen_p(r, lat, 10.0)), d3::hp(&d3::gen_p(r, lat, 10.0)), d3::hiso(&m))));
        v.push(("segment_bsphere".into(), format!("{} {} {}", d3::hp(&d3::gen_p(r, lat, 10.0)), d3::hp(&d3::gen_p(r, lat, 10.0)), d3::hiso(&m))));
        let s1 = BoundingSphere::new(d3::gen_p(r, lat, 10.0), r.pos_extent(lat));
        let s2 = if r.below(6) == 0 { BoundingSphere::new(*s1.center(), r.pos_extent(lat)) } else { BoundingSphere::new(d3::gen_p(r, lat, 10.0), r.pos_extent(lat)) };
        for f in ["bsphere_merged", "bsphere_intersects", "bsphere_contains"] { v.push((f.to_string(), format!("{} {}", hsph(&s1), hsph(&s2)))); }
        // SIMD lanes: each lane pairs a box with a related box (inside / protruding through one face / disjoint / invalid sentinel)
        let mut xs = Vec::new(); let mut ys = Vec::new();
        for _ in 0..4 {
            let bx = gen_aabb(r, lat);
            let he = bx.half_extents(); let c = bx.center();
            let by = match r.below(6) {
                0 => Aabb::new_invalid(),
                1 => gen_aabb(r, lat),
                _ => { // shrink, then push one face out (or not)
                    let mut mins = c - he * 0.5; let mut maxs = c + he * 0.5;
                    let ax = r.below(3) as usize;
                    match r.below(4) { 0 => maxs[ax] = c[ax] + he[ax] * 1.5, 1 => mins[ax] = c[ax] - he[ax] * 1.5, 2 => maxs[ax] = c[ax] + he[ax], _ => {} }
                    Aabb::new(mins, maxs) }
            };
            if r.below(12) == 0 { xs.push(Aabb::new_invalid()); } else { xs.push(bx); }
            ys.push(by);
        }
        let sx = xs.iter().map(haabb).collect::<Vec<_>>().join(" ");
        let sy = ys.iter().map(haabb).collect::<Vec<_>>().join(" ");
        v.push(("simd_contains".into(), format!("{} {}", sx, sy)));
        v.push(("simd_intersects".into(), format!("{} {}", sx, sy)));
        v.push(("simd_contains_point".into(), format!("{} {}", sx, d3::hp(&p))));
        v.push(("simd_scaled".into(), format!("{} {}", sy.replace(&haabb(&Aabb::new_invalid()), &haabb(&x)), d3::hv(&s))));
        let mg = if lat { r.range(0, 8) as f64 * 0.25 } else { r.logu(1e-3, 10.0) };
        v.push(("simd_loosen".into(), format!("{} {}", sy.replace(&haabb(&Aabb::new_invalid()), &haabb(&x)), hx(mg))));
        v.push(("simd_dilate".into(), format!("{} {}", sx, hx(*r.pick(&[0.0, 0.01, 0.25, 1.0])))));
        v.push(("simd_merged".into(), sx.clone()));
        v.push(("simd_dist_point".into(), format!("{} {}", sy.replace(&haabb(&Aabb::new_invalid()), &haabb(&x)), d3::hp(&p))));
        if !(b1 == 0.0 && b2 == 0.0) { v.push(("interval_div".into(), ab.clone())); }
        let m2 = d2::gen_iso(r, lat, 100.0);
        let c2 = d2::gen_p(r, lat, 50.0); let he2 = d2::gen_he(r, lat);
        v.push(("aabb2_transform".into(), format!("{} {} {}", d2::hp(&(c2 - he2)), d2::hp(&(c2 + he2)), d2::hiso(&m2))));
        v.push(("cuboid_aabb2".into(), format!("{} {}", d2::hv(&he2), d2::hiso(&m2))));
    }
    c09b::gen(r, thorough, &mut v);
    c09c::gen(r, thorough, &mut v);
    c09d::gen(r, thorough, &mut v);
    c09e::gen(r, thorough, &mut v);
    v
}
