//! C09: intervals, Aabb, bounding spheres.
use crate::util::*;
use crate::p3::bounding_volume::{Aabb, BoundingVolume};
use crate::p3::utils::Interval;
use crate::p3::shape::{Ball, Capsule, Cuboid, Triangle};

fn aabb(a: &mut Args) -> Aabb { Aabb::new(d3::p(a), d3::p(a)) }
fn faabb(b: &Aabb) -> String { format!("{} {}", d3::fp(&b.mins), d3::fp(&b.maxs)) }
fn haabb(b: &Aabb) -> String { format!("{} {}", d3::hp(&b.mins), d3::hp(&b.maxs)) }
fn aabb2(a: &mut Args) -> crate::p2::bounding_volume::Aabb { crate::p2::bounding_volume::Aabb::new(d2::p(a), d2::p(a)) }
fn faabb2(b: &crate::p2::bounding_volume::Aabb) -> String { format!("{} {}", d2::fp(&b.mins), d2::fp(&b.maxs)) }
fn fint(x: Interval<f64>) -> String { format!("{} {}", ff(x.0), ff(x.1)) }
fn interval(a: &mut Args) -> Interval<f64> { Interval(a.f(), a.f()) }

pub fn exec(func: &str, a: &mut Args) -> String {
    match func {
        "interval_add" => { let x = interval(a); let y = interval(a); fint(x + y) }
        "interval_sub" => { let x = interval(a); let y = interval(a); fint(x - y) }
        "interval_mul" => { let x = interval(a); let y = interval(a); fint(x * y) }
        "interval_muls" => { let x = interval(a); let r = a.f(); fint(x * r) }
        "interval_neg" => { let x = interval(a); fint(-x) }
        "interval_intersect" => { let x = interval(a); let y = interval(a);
            match x.intersect(y) { None => "none".into(), Some(r) => format!("some {}", fint(r)) } }
        "aabb_merged" => { let x = aabb(a); let y = aabb(a); faabb(&x.merged(&y)) }
        "aabb_loosened" => { let x = aabb(a); let m = a.f(); faabb(&x.loosened(m)) }
        "aabb_intersects" => { let x = aabb(a); let y = aabb(a); b(x.intersects(&y)).into() }
        "aabb_contains" => { let x = aabb(a); let y = aabb(a); b(x.contains(&y)).into() }
        "aabb_contains_point" => { let x = aabb(a); let p = d3::p(a); b(x.contains_local_point(&p)).into() }
        "aabb_intersection" => { let x = aabb(a); let y = aabb(a);
            match x.intersection(&y) { None => "none".into(), Some(r) => format!("some {}", faabb(&r)) } }
        "aabb_scaled" => { let x = aabb(a); let s = d3::v(a); faabb(&x.scaled(&s)) }
        "aabb_scaled_wrt_center" => { let x = aabb(a); let s = d3::v(a); faabb(&x.scaled_wrt_center(&s)) }
        "aabb_transform" => { let x = aabb(a); let m = d3::iso(a); faabb(&x.transform_by(&m)) }
        "aabb2_transform" => { let x = aabb2(a); let m = d2::iso(a); faabb2(&x.transform_by(&m)) }
        "aabb_bounding_sphere" => { let x = aabb(a); let s = x.bounding_sphere(); format!("{} {}", d3::fp(s.center()), ff(s.radius())) }
        "aabb_from_points" => { let n = a.u(); let pts: Vec<_> = (0..n).map(|_| d3::p(a)).collect(); faabb(&Aabb::from_points(&pts)) }
        "ball_aabb" => { let r = a.f(); let m = d3::iso(a); faabb(&Ball::new(r).aabb(&m)) }
        "cuboid_aabb" => { let he = d3::v(a); let m = d3::iso(a); faabb(&Cuboid::new(he).aabb(&m)) }
        "cuboid_aabb2" => { let he = d2::v(a); let m = d2::iso(a); faabb2(&crate::p2::shape::Cuboid::new(he).aabb(&m)) }
        "capsule_aabb" => { let p = d3::p(a); let q = d3::p(a); let r = a.f(); let m = d3::iso(a); faabb(&Capsule::new(p, q, r).aabb(&m)) }
        "triangle_aabb" => { let p = d3::p(a); let q = d3::p(a); let r = d3::p(a); let m = d3::iso(a); faabb(&Triangle::new(p, q, r).aabb(&m)) }
        _ => "nofn".into(),
    }
}

fn gen_interval(r: &mut Rng, lat: bool) -> (f64, f64) {
    if lat {
        // every sign pattern incl. zero endpoints
        let a = r.range(-4, 4) as f64 * *r.pick(&[0.25, 0.5, 1.0, 2.5]);
        let w = r.range(0, 6) as f64 * *r.pick(&[0.25, 0.5, 1.0, 2.0]);
        (a, a + w)
    } else {
        let a = r.uniform(-100.0, 100.0); let w = r.logu(1e-3, 1e2);
        (a, a + w)
    }
}
fn gen_aabb(r: &mut Rng, lat: bool) -> Aabb {
    let c = d3::gen_p(r, lat, 50.0);
    let he = d3::gen_he(r, lat);
    if r.below(20) == 0 { Aabb::new(c, c) } else { Aabb::new(c - he, c + he) }
}

pub fn gen(r: &mut Rng, thorough: bool) -> Vec<(String, String)> {
    let n = if thorough { 6000 } else { 600 };
    let mut v = Vec::new();
    for it in 0..n {
        let lat = it % 2 == 0;
        let (a1, a2) = gen_interval(r, lat); let (b1, b2) = gen_interval(r, lat);
        let ab = format!("{} {} {} {}", hx(a1), hx(a2), hx(b1), hx(b2));
        for f in ["interval_add", "interval_sub", "interval_mul", "interval_intersect"] { v.push((f.to_string(), ab.clone())); }
        v.push(("interval_neg".into(), format!("{} {}", hx(a1), hx(a2))));
        v.push(("interval_muls".into(), format!("{} {} {}", hx(a1), hx(a2), hx(if lat { r.lattice(8, 2) } else { r.uniform(-10.0, 10.0) }))));
        let x = gen_aabb(r, lat);
        let y = if r.below(4) == 0 { // related box: shifted copy / nested / touching
            let s = d3::gen_v(r, true, 1.0); Aabb::new(x.mins + s, x.maxs + s) } else { gen_aabb(r, lat) };
        let xy = format!("{} {}", haabb(&x), haabb(&y));
        for f in ["aabb_merged", "aabb_intersects", "aabb_contains", "aabb_intersection"] { v.push((f.to_string(), xy.clone())); }
        v.push(("aabb_loosened".into(), format!("{} {}", haabb(&x), hx(if lat { r.range(0, 8) as f64 * 0.25 } else { r.logu(1e-3, 10.0) }))));
        let p = if r.bool() { x.mins + (x.maxs - x.mins).component_mul(&d3::Vector::new(*r.pick(&[0.0, 0.5, 1.0, 1.25, -0.25]), *r.pick(&[0.0, 0.5, 1.0]), *r.pick(&[0.0, 0.5, 1.0]))) } else { d3::gen_p(r, lat, 50.0) };
        v.push(("aabb_contains_point".into(), format!("{} {}", haabb(&x), d3::hp(&p))));
        let s = if lat { d3::Vector::new(*r.pick(&[-3.0, -2.0, -1.0, -0.5, -0.25, 0.25, 0.5, 1.0, 2.0, 3.0]), *r.pick(&[-2.0, -1.0, 0.5, 1.0, 3.0]), *r.pick(&[-0.25, -1.0, 1.0, 2.0])) }
                else { d3::Vector::new(r.logu(1e-2, 1e2) * if r.bool() { -1.0 } else { 1.0 }, r.logu(1e-2, 1e2) * if r.bool() { -1.0 } else { 1.0 }, r.logu(1e-2, 1e2) * if r.bool() { -1.0 } else { 1.0 }) };
        v.push(("aabb_scaled".into(), format!("{} {}", haabb(&x), d3::hv(&s))));
        v.push(("aabb_scaled_wrt_center".into(), format!("{} {}", haabb(&x), d3::hv(&s))));
        let m = d3::gen_iso(r, lat, 100.0);
        v.push(("aabb_transform".into(), format!("{} {}", haabb(&x), d3::hiso(&m))));
        v.push(("aabb_bounding_sphere".into(), haabb(&x)));
        let np = 1 + r.below(6) as usize;
        let pts: Vec<String> = (0..np).map(|_| d3::hp(&d3::gen_p(r, lat, 50.0))).collect();
        v.push(("aabb_from_points".into(), format!("{} {}", np, pts.join(" "))));
        v.push(("ball_aabb".into(), format!("{} {}", hx(r.pos_extent(lat)), d3::hiso(&m))));
        v.push(("cuboid_aabb".into(), format!("{} {}", d3::hv(&d3::gen_he(r, lat)), d3::hiso(&m))));
        v.push(("capsule_aabb".into(), format!("{} {} {} {}", d3::hp(&d3::gen_p(r, lat, 10.0)), d3::hp(&d3::gen_p(r, lat, 10.0)), hx(r.pos_extent(lat)), d3::hiso(&m))));
        v.push(("triangle_aabb".into(), format!("{} {} {} {}", d3::hp(&d3::gen_p(r, lat, 10.0)), d3::hp(&d3::gen_p(r, lat, 10.0)), d3::hp(&d3::gen_p(r, lat, 10.0)), d3::hiso(&m))));
        let m2 = d2::gen_iso(r, lat, 100.0);
        let c2 = d2::gen_p(r, lat, 50.0); let he2 = d2::gen_he(r, lat);
        v.push(("aabb2_transform".into(), format!("{} {} {}", d2::hp(&(c2 - he2)), d2::hp(&(c2 + he2)), d2::hiso(&m2))));
        v.push(("cuboid_aabb2".into(), format!("{} {}", d2::hv(&he2), d2::hiso(&m2))));
    }
    v
}
