import ParryModel.Vec
/-!
# Shapes as data + shapes as sets (`Mem`): the *specification* side shared by C01–C10, C19.
`Mem` is written from the documentation of each shape; it is the part of every geometric theorem a reader
must trust.  Import-free (Prop-valued definitions over the lawless `Num`).
-/
namespace Model
variable {K : Type} [Num K]

structure Ball (K : Type) where
  r : K
structure Cuboid2 (K : Type) where
  he : V2 K
structure Cuboid3 (K : Type) where
  he : V3 K
structure Segment2 (K : Type) where
  a : V2 K
  b : V2 K
structure Segment3 (K : Type) where
  a : V3 K
  b : V3 K
structure Triangle2 (K : Type) where
  a : V2 K
  b : V2 K
  c : V2 K
structure Triangle3 (K : Type) where
  a : V3 K
  b : V3 K
  c : V3 K
structure Capsule2 (K : Type) where
  a : V2 K
  b : V2 K
  r : K
structure Capsule3 (K : Type) where
  a : V3 K
  b : V3 K
  r : K
/-- cone with apex at `+hh·y`, base disc of radius `r` at `-hh·y` -/
structure Cone (K : Type) where
  hh : K
  r : K
/-- cylinder along `y`, half-height `hh`, radius `r` -/
structure Cylinder (K : Type) where
  hh : K
  r : K
/-- half-space `{p | n·p ≤ 0}` -/
structure HalfSpace2 (K : Type) where
  n : V2 K
structure HalfSpace3 (K : Type) where
  n : V3 K

def Ball.Mem2 (s : Ball K) (p : V2 K) : Prop := p.normSq ≤ s.r * s.r
def Ball.Mem3 (s : Ball K) (p : V3 K) : Prop := p.normSq ≤ s.r * s.r
def Cuboid2.Mem (s : Cuboid2 K) (p : V2 K) : Prop :=
  (-s.he.x ≤ p.x ∧ p.x ≤ s.he.x) ∧ (-s.he.y ≤ p.y ∧ p.y ≤ s.he.y)
def Cuboid3.Mem (s : Cuboid3 K) (p : V3 K) : Prop :=
  (-s.he.x ≤ p.x ∧ p.x ≤ s.he.x) ∧ (-s.he.y ≤ p.y ∧ p.y ≤ s.he.y) ∧ (-s.he.z ≤ p.z ∧ p.z ≤ s.he.z)
/-- `a + t (b - a)`, `t ∈ [0,1]` -/
def Segment2.Mem (s : Segment2 K) (p : V2 K) : Prop :=
  ∃ t : K, 0 ≤ t ∧ t ≤ 1 ∧ p = s.a.add ((s.b.sub s.a).smul t)
def Segment3.Mem (s : Segment3 K) (p : V3 K) : Prop :=
  ∃ t : K, 0 ≤ t ∧ t ≤ 1 ∧ p = s.a.add ((s.b.sub s.a).smul t)
/-- barycentric: `a + u (b-a) + v (c-a)`, `u,v ≥ 0`, `u+v ≤ 1` -/
def Triangle2.Mem (s : Triangle2 K) (p : V2 K) : Prop :=
  ∃ u v : K, 0 ≤ u ∧ 0 ≤ v ∧ u + v ≤ 1 ∧ p = (s.a.add ((s.b.sub s.a).smul u)).add ((s.c.sub s.a).smul v)
def Triangle3.Mem (s : Triangle3 K) (p : V3 K) : Prop :=
  ∃ u v : K, 0 ≤ u ∧ 0 ≤ v ∧ u + v ≤ 1 ∧ p = (s.a.add ((s.b.sub s.a).smul u)).add ((s.c.sub s.a).smul v)
def Capsule2.Mem (s : Capsule2 K) (p : V2 K) : Prop :=
  ∃ q, (Segment2.mk s.a s.b).Mem q ∧ (p.sub q).normSq ≤ s.r * s.r
def Capsule3.Mem (s : Capsule3 K) (p : V3 K) : Prop :=
  ∃ q, (Segment3.mk s.a s.b).Mem q ∧ (p.sub q).normSq ≤ s.r * s.r
/-- cylinder: `|y| ≤ hh`, `x²+z² ≤ r²` -/
def Cylinder.Mem (s : Cylinder K) (p : V3 K) : Prop :=
  (-s.hh ≤ p.y ∧ p.y ≤ s.hh) ∧ p.x * p.x + p.z * p.z ≤ s.r * s.r
/-- cone: `|y| ≤ hh` and radial distance `ρ` with `ρ · 2hh ≤ r (hh - y)`; stated without sqrt:
there is `ρ ≥ 0` with `ρ² = x²+z²` — equivalently `(x²+z²)(2hh)² ≤ r²(hh-y)²` for `hh>0`. -/
def Cone.Mem (s : Cone K) (p : V3 K) : Prop :=
  (-s.hh ≤ p.y ∧ p.y ≤ s.hh) ∧
  (p.x * p.x + p.z * p.z) * ((two * s.hh) * (two * s.hh)) ≤ (s.r * s.r) * ((s.hh - p.y) * (s.hh - p.y))
def HalfSpace2.Mem (s : HalfSpace2 K) (p : V2 K) : Prop := s.n.dot p ≤ 0
def HalfSpace3.Mem (s : HalfSpace3 K) (p : V3 K) : Prop := s.n.dot p ≤ 0
/-- convex hull of a finite point list: non-negative weights summing to one -/
def hullMem3 (pts : List (V3 K)) (p : V3 K) : Prop :=
  ∃ w : List K, w.length = pts.length ∧ (∀ x ∈ w, 0 ≤ x) ∧ w.foldl (· + ·) 0 = 1 ∧
    p = (List.zipWith (fun q x => q.smul x) pts w).foldl V3.add V3.zero
def hullMem2 (pts : List (V2 K)) (p : V2 K) : Prop :=
  ∃ w : List K, w.length = pts.length ∧ (∀ x ∈ w, 0 ≤ x) ∧ w.foldl (· + ·) 0 = 1 ∧
    p = (List.zipWith (fun q x => q.smul x) pts w).foldl V2.add V2.zero
/-- Minkowski sum with a ball of radius `r` (RoundShape) -/
def roundMem3 (S : V3 K → Prop) (r : K) (p : V3 K) : Prop := ∃ q, S q ∧ (p.sub q).normSq ≤ r * r
def roundMem2 (S : V2 K → Prop) (r : K) (p : V2 K) : Prop := ∃ q, S q ∧ (p.sub q).normSq ≤ r * r

end Model
