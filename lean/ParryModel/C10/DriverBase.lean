import ParryModel.Proto
import ParryModel.C10.Model
/-!
C10 protocol handlers: model evaluation at `Float` (bit-exact correspondence) and exact-`Rat` oracles that
re-judge the implementation's output: membership in the shape + `dir·p` equal to the exact maximum of
`dir·q` over the shape (closed form / brute force over vertices).  Coordinates are never compared by the
oracles (ties are legitimate).  Protocol function names are `<shape>_<mode>` (see `harness/src/c10.rs`).
-/
namespace C10
open Model Model.C10 Proto

/-! ### parsing / printing helpers -/
def po3 : P (V3 Float) := do let x ← pfo; let y ← pfo; let z ← pfo; pure ⟨x, y, z⟩
def po2 : P (V2 Float) := do let x ← pfo; let y ← pfo; pure ⟨x, y⟩
def finite2 (v : V2 Float) : Bool := FloatIO.isFinite v.x && FloatIO.isFinite v.y
def fin (x : Float) : Bool := FloatIO.isFinite x
def finiteIso3 (m : Iso3 Float) : Bool := fin m.qi && fin m.qj && fin m.qk && fin m.qw && finite3 m.t
def finiteIso2 (m : Iso2 Float) : Bool := fin m.re && fin m.im && finite2 m.t

def withOut {α} (p : P α) (out : List String) (k : α → String) : String :=
  match out with
  | "panic" :: _ => "fail panic"
  | _ => match run p out with
    | some a => k a
    | none => "fail unparsable-output"

def fo3 : Option (V3 Float) → String
  | some p => fv3 p
  | none => "panic"
def fo2 : Option (V2 Float) → String
  | some p => fv2 p
  | none => "panic"

/-! ### exact helpers -/
def l1n3 (d : V3 Rat) : Rat := rabs d.x + rabs d.y + rabs d.z
def l1n2 (d : V2 Rat) : Rat := rabs d.x + rabs d.y
def rmax (a b : Rat) : Rat := if a < b then b else a
def rmin (a b : Rat) : Rat := if b < a then b else a
def tol : Rat := tolDefault
/-- `a ≤ b` up to `tol·scale` -/
def leS (a b scale : Rat) : Bool := a ≤ b + tol * scale

/-- rational square root with relative error below `2^-49` (integer square root of the scaled numerator);
only used by the oracles, far below their tolerance `1e-9`. -/
def rsqrt (x : Rat) : Rat :=
  if x ≤ 0 then 0 else
    let n : Nat := x.num.toNat * x.den          -- x = n / den²
    let bits := Nat.log2 n
    let k : Nat := if bits < 100 then (100 - bits + 1) / 2 else 0
    ((Nat.sqrt (n * 4 ^ k) : Nat) : Rat) / ((x.den * 2 ^ k : Nat) : Rat)

/-- embed 2-D data in the plane `z = 0` so that one set of exact oracles serves both dimensions -/
def up (v : V2 Rat) : V3 Rat := ⟨v.x, v.y, 0⟩
def norm3 (v : V3 Rat) : Rat := rsqrt v.normSq
def linf3 (v : V3 Rat) : Rat := rmax (rabs v.x) (rmax (rabs v.y) (rabs v.z))

/-- squared distance from `p` to the segment `[a,b]` (exact) -/
def distSqSeg (a b p : V3 Rat) : Rat :=
  let ab := b.sub a; let ap := p.sub a
  let l := ab.normSq
  if l = 0 then ap.normSq else
    let t := rmax 0 (rmin 1 (ap.dot ab / l))
    (ap.sub (ab.smul t)).normSq

/-- tolerant membership in the triangle `abc` (exact barycentric coordinates by least squares; falls back to
the three edges when the triangle is degenerate) -/
def memTri (a b c p : V3 Rat) (slack : Rat) : Bool :=
  let e1 := b.sub a; let e2 := c.sub a; let w := p.sub a
  let d11 := e1.dot e1; let d12 := e1.dot e2; let d22 := e2.dot e2
  let w1 := w.dot e1; let w2 := w.dot e2
  let det := d11 * d22 - d12 * d12
  let onEdges := distSqSeg a b p ≤ slack * slack || distSqSeg a c p ≤ slack * slack || distSqSeg b c p ≤ slack * slack
  if det ≤ 0 then onEdges else
    let u := (d22 * w1 - d12 * w2) / det
    let v := (d11 * w2 - d12 * w1) / det
    let res := (w.sub (e1.smul u)).sub (e2.smul v)
    onEdges || (decide (-tol ≤ u) && decide (-tol ≤ v) && decide (u + v ≤ 1 + tol) && decide (res.normSq ≤ slack * slack))

/-- **Exact specification of a convex set for the oracle**: tolerant membership, exact support value
`h(d) = max_{q∈S} d·q`, and a size bound used to scale tolerances. -/
structure Spec where
  /-- `none` = valid; `some why` = outside the property's domain (oracle skips) -/
  invalid : Option String := none
  mem : V3 Rat → Rat → Bool
  h : V3 Rat → Rat
  ext : Rat

def judge (s : Spec) (D Pt : V3 Rat) (extra : Rat) : String :=
  let size := s.ext + extra
  let scale := l1n3 D * size
  if !s.mem Pt (tol * (1 + size)) then "fail not-a-member"
  else
    let mx := s.h D; let dp := D.dot Pt
    if !leS mx dp scale then s!"fail not-maximal max={mx} got={dp}"
    else if !leS dp mx (2 * l1n3 D * (1 + size)) then s!"fail exceeds-shape-maximum max={mx} got={dp}"
    else "pass"

/-- Minkowski sum with a ball of radius `r`.  A support point `p` of `S ⊕ B(r)` in direction `d` is exactly
`q + r·d/|d|` with `q` a support point of `S` (the ball's maximiser is unique), so `p - r·d/|d|` is judged
against `S`: necessary and sufficient, no over-demand. -/
def judgeRound (s : Spec) (r : Rat) (D Pt : V3 Rat) (extra : Rat) : String :=
  if r < 0 then "skip negative-radius" else
  let n := norm3 D
  if n = 0 then "skip zero-direction" else
  match judge s D (Pt.sub (D.smul (r / n))) (extra + r) with
  | "fail not-a-member" => "fail not-a-support-point-of-the-rounded-shape (p - r*dir/|dir| is outside the core shape)"
  | v => v

def specPoint (c : V3 Rat) : Spec :=
  { mem := fun p sl => (p.sub c).normSq ≤ sl * sl, h := fun d => d.dot c, ext := linf3 c }
def specCuboid (H : V3 Rat) : Spec :=
  { invalid := if H.x < 0 || H.y < 0 || H.z < 0 then some "negative-half-extent" else none
    mem := fun p sl => rabs p.x ≤ H.x + sl && rabs p.y ≤ H.y + sl && rabs p.z ≤ H.z + sl
    h := fun d => rabs d.x * H.x + rabs d.y * H.y + rabs d.z * H.z
    ext := linf3 H }
def specSegment (a b : V3 Rat) : Spec :=
  { mem := fun p sl => distSqSeg a b p ≤ sl * sl
    h := fun d => rmax (d.dot a) (d.dot b)
    ext := rmax (linf3 a) (linf3 b) }
def specTriangle (a b c : V3 Rat) : Spec :=
  { mem := fun p sl => memTri a b c p sl
    h := fun d => rmax (d.dot a) (rmax (d.dot b) (d.dot c))
    ext := rmax (linf3 a) (rmax (linf3 b) (linf3 c)) }
def specCylinder (hh r : Rat) : Spec :=
  { invalid := if hh < 0 || r < 0 then some "negative-extent" else none
    mem := fun p sl => rabs p.y ≤ hh + sl && p.x * p.x + p.z * p.z ≤ (r + sl) * (r + sl)
    h := fun d => r * rsqrt (d.x * d.x + d.z * d.z) + rabs d.y * hh
    ext := rmax hh r }
/-- cone with apex `(0,hh,0)` and base disc of radius `r` at `y = -hh`: `ρ·2hh ≤ r·(hh - y)` -/
def specCone (hh r : Rat) : Spec :=
  { invalid := if hh ≤ 0 || r < 0 then some "degenerate-cone" else none
    mem := fun p sl => rabs p.y ≤ hh + sl &&
      rsqrt (p.x * p.x + p.z * p.z) * (2 * hh) ≤ r * (hh - p.y) + sl * (2 * hh + r)
    h := fun d => rmax (d.y * hh) (r * rsqrt (d.x * d.x + d.z * d.z) - d.y * hh)
    ext := rmax hh r }
/-- convex hull of a point list.  Membership is tested as "is one of the listed points" (the documented
contract of `point_cloud_support_point`; every maximiser set of a linear functional contains a vertex). -/
def specCloud (pts : List (V3 Rat)) : Spec :=
  { invalid := if pts.isEmpty then some "empty-cloud" else none
    mem := fun p sl => pts.any fun v => (p.sub v).normSq ≤ sl * sl
    h := fun d => match pts with
      | [] => 0
      | v :: vs => vs.foldl (fun m w => rmax m (d.dot w)) (d.dot v)
    ext := pts.foldl (fun m w => rmax m (linf3 w)) 0 }

/-! ### shapes of the protocol -/

/-- everything the handler needs about one parsed shape -/
structure Shape3 where
  loc : V3 Float → Option (V3 Float)
  toward : V3 Float → Option (V3 Float)
  posed : Iso3 Float → V3 Float → Option (V3 Float)
  ptoward : Iso3 Float → V3 Float → Option (V3 Float)
  finiteArgs : Bool
  /-- oracle on exact data: direction, returned point, extra scale -/
  judge : V3 Rat → V3 Rat → Rat → String
  /-- which norm the documented algorithm takes of the direction: 0 = none, 1 = `|dir|` (normalise-then-scale
  shapes), 2 = `|(dir.x, dir.z)|` (cone, cylinder).  Used only to recognise *legitimate binary64 underflow*: the
  oracle skips a near-zero direction iff that squared norm is zero or subnormal in `Float` (`tinySq`) although it is non-zero in
  exact arithmetic. -/
  uf : Nat := 0

/-- the squared norm the algorithm takes has left the normal range of binary64 (zero or *subnormal*, below `2^-1022`):
gradual underflow has already discarded mantissa bits of the square, so the normalised direction carries a relative
error far above the oracle tolerance (seen: `dir.z = 2^-529`, `dir.z² = 2^-1058` keeps 16 bits, cone rim point off by
`4.5e-8·r`).  Same phenomenon as the exact-zero case; the oracles skip both as `direction-underflows`. -/
def tinySq (x : Float) : Bool := x < 2.2250738585072014e-308

/-- a shape that uses the trait defaults for `_toward` / posed variants -/
def dflt3 (loc : V3 Float → Option (V3 Float)) (finiteArgs : Bool) (j : V3 Rat → V3 Rat → Rat → String) : Shape3 :=
  { loc := loc, toward := loc
    posed := fun m d => (loc (m.invRot d)).map m.act
    ptoward := fun m d => (loc (m.invRot d)).map m.act
    finiteArgs := finiteArgs, judge := j }

def sjudge (s : Spec) : V3 Rat → V3 Rat → Rat → String := fun D Pt extra =>
  match s.invalid with
  | some why => "skip " ++ why
  | none => judge s D Pt extra
def rjudge (s : Spec) (r : Rat) : V3 Rat → V3 Rat → Rat → String := fun D Pt extra =>
  match s.invalid with
  | some why => "skip " ++ why
  | none => judgeRound s r D Pt extra

/-- RoundShape / DilatedShape over an inner shape given by its `local_support_point_toward` -/
def round3 (innerToward : V3 Float → Option (V3 Float)) (br : Float) (dilated : Bool) (finiteArgs : Bool)
    (j : V3 Rat → V3 Rat → Rat → String) : Shape3 :=
  let tw : V3 Float → Option (V3 Float) := fun d => (innerToward d).map fun p => p.add (d.smul br)
  let lc : V3 Float → Option (V3 Float) := fun d => tw (normalize3 d)
  if dilated then
    -- DilatedShape overrides the posed variants: shape.support_point_toward(m, dir) + dir * radius
    let ptw : Iso3 Float → V3 Float → Option (V3 Float) := fun m d =>
      (innerToward (m.invRot d)).map fun p => (m.act p).add (d.smul br)
    { loc := lc, toward := tw, posed := fun m d => ptw m (normalize3 d), ptoward := ptw
      finiteArgs := finiteArgs && fin br, judge := j, uf := 1 }
  else
    { loc := lc, toward := tw
      posed := fun m d => (lc (m.invRot d)).map m.act
      ptoward := fun m d => (tw (m.invRot d)).map m.act
      finiteArgs := finiteArgs && fin br, judge := j, uf := 1 }

def ppts3 : P (List (V3 Float)) := plist pv3
def ppts2 : P (List (V2 Float)) := plist pv2
def pidx : P Unit := do let n ← pnat; for _ in [0:3*n] do let _ ← pnat
def up2 (f : V2 Float) : V3 Rat := up (q2 f)

def parseShape3 (shape : String) : Option (P Shape3) :=
  match shape with
  | "ball" => some do
      let r ← pf
      pure { loc := fun d => some (ballLocal3 r d), toward := fun d => some (ballToward3 r d)
             posed := fun m d => some (ballPosed3 r m d), ptoward := fun m d => some (ballPosedToward3 r m d)
             finiteArgs := fin r, judge := rjudge (specPoint ⟨0, 0, 0⟩) (q r), uf := 1 }
  | "cuboid" => some do
      let he ← pv3
      pure (dflt3 (fun d => some (cuboidLocal3 he d)) (finite3 he) (sjudge (specCuboid (q3 he))))
  | "capsule" => some do
      let a ← pv3; let b ← pv3; let r ← pf
      let tw := fun d => some (capsuleToward3 a b r d)
      pure { loc := fun d => some (capsuleLocal3 a b r d), toward := tw
             posed := fun m d => some (m.act (capsuleLocal3 a b r (m.invRot d)))
             ptoward := fun m d => some (m.act (capsuleToward3 a b r (m.invRot d)))
             finiteArgs := finite3 a && finite3 b && fin r, judge := rjudge (specSegment (q3 a) (q3 b)) (q r), uf := 1 }
  | "segment" => some do
      let a ← pv3; let b ← pv3
      pure (dflt3 (fun d => some (segmentLocal3 a b d)) (finite3 a && finite3 b) (sjudge (specSegment (q3 a) (q3 b))))
  | "triangle" => some do
      let a ← pv3; let b ← pv3; let c ← pv3
      pure (dflt3 (fun d => some (triangleLocal3 a b c d)) (finite3 a && finite3 b && finite3 c)
        (sjudge (specTriangle (q3 a) (q3 b) (q3 c))))
  | "cone" => some do
      let hh ← pf; let r ← pf
      pure { dflt3 (fun d => some (coneLocal hh r d)) (fin hh && fin r) (sjudge (specCone (q hh) (q r))) with uf := 2 }
  | "cylinder" => some do
      let hh ← pf; let r ← pf
      pure { dflt3 (fun d => some (cylinderLocal hh r d)) (fin hh && fin r) (sjudge (specCylinder (q hh) (q r))) with uf := 2 }
  | "polyhedron" => some do
      let pts ← ppts3; pidx
      pure (dflt3 (fun d => cloudPoint3 d pts) (pts.all finite3) (sjudge (specCloud (pts.map q3))))
  | "roundcuboid" => some do
      let he ← pv3; let br ← pf
      pure (round3 (fun d => some (cuboidLocal3 he d)) br false (finite3 he) (rjudge (specCuboid (q3 he)) (q br)))
  | "roundtriangle" => some do
      let a ← pv3; let b ← pv3; let c ← pv3; let br ← pf
      pure (round3 (fun d => some (triangleLocal3 a b c d)) br false (finite3 a && finite3 b && finite3 c)
        (rjudge (specTriangle (q3 a) (q3 b) (q3 c)) (q br)))
  | "roundcylinder" => some do
      let hh ← pf; let r ← pf; let br ← pf
      pure (round3 (fun d => some (cylinderLocal hh r d)) br false (fin hh && fin r) (rjudge (specCylinder (q hh) (q r)) (q br)))
  | "roundcone" => some do
      let hh ← pf; let r ← pf; let br ← pf
      pure (round3 (fun d => some (coneLocal hh r d)) br false (fin hh && fin r) (rjudge (specCone (q hh) (q r)) (q br)))
  | "roundpolyhedron" => some do
      let pts ← ppts3; pidx; let br ← pf
      pure (round3 (fun d => cloudPoint3 d pts) br false (pts.all finite3) (rjudge (specCloud (pts.map q3)) (q br)))
  | "dilatedcuboid" => some do
      let he ← pv3; let br ← pf
      pure (round3 (fun d => some (cuboidLocal3 he d)) br true (finite3 he) (rjudge (specCuboid (q3 he)) (q br)))
  | "dilatedcapsule" => some do
      let a ← pv3; let b ← pv3; let r ← pf; let br ← pf
      -- the two radii add up: segment ⊕ B(r) ⊕ B(br) = segment ⊕ B(r + br)
      pure (round3 (fun d => some (capsuleToward3 a b r d)) br true (finite3 a && finite3 b && fin r)
        (if q r < 0 then fun _ _ _ => "skip negative-radius" else rjudge (specSegment (q3 a) (q3 b)) (q r + q br)))
  | "constantpoint" => some do
      let p ← pv3
      pure { loc := fun d => some (constantPointLocal p d), toward := fun d => some (constantPointLocal p d)
             posed := fun m d => some (constantPointPosed p m d), ptoward := fun m d => some (constantPointPosed p m d)
             finiteArgs := finite3 p, judge := sjudge (specPoint (q3 p)) }
  | "constantorigin" => some do
      pure { loc := fun d => some (constantOriginLocal d), toward := fun d => some (constantOriginLocal d)
             posed := fun m d => some (constantOriginPosed m d), ptoward := fun m d => some (constantOriginPosed m d)
             finiteArgs := true, judge := sjudge (specPoint ⟨0, 0, 0⟩) }
  | _ => none

/-- 2-D shapes: the model runs in `V2`, the oracle in the plane `z = 0` of the 3-D specs -/
structure Shape2 where
  loc : V2 Float → Option (V2 Float)
  toward : V2 Float → Option (V2 Float)
  posed : Iso2 Float → V2 Float → Option (V2 Float)
  ptoward : Iso2 Float → V2 Float → Option (V2 Float)
  finiteArgs : Bool
  judge : V3 Rat → V3 Rat → Rat → String
  /-- 1 = the algorithm normalises the direction (see `Shape3.uf`) -/
  uf : Nat := 0

def dflt2 (loc : V2 Float → Option (V2 Float)) (finiteArgs : Bool) (j : V3 Rat → V3 Rat → Rat → String) : Shape2 :=
  { loc := loc, toward := loc
    posed := fun m d => (loc (m.invRot d)).map m.act
    ptoward := fun m d => (loc (m.invRot d)).map m.act
    finiteArgs := finiteArgs, judge := j }
def round2 (innerToward : V2 Float → Option (V2 Float)) (br : Float) (finiteArgs : Bool)
    (j : V3 Rat → V3 Rat → Rat → String) : Shape2 :=
  let tw : V2 Float → Option (V2 Float) := fun d => (innerToward d).map fun p => p.add (d.smul br)
  let lc : V2 Float → Option (V2 Float) := fun d => tw (normalize2 d)
  { loc := lc, toward := tw
    posed := fun m d => (lc (m.invRot d)).map m.act
    ptoward := fun m d => (tw (m.invRot d)).map m.act
    finiteArgs := finiteArgs && fin br, judge := j, uf := 1 }
/-- the plane `z = 0` as a slab of the 3-D cuboid spec: half-extent 0 in `z` -/
def specCuboid2 (H : V2 Rat) : Spec := specCuboid ⟨H.x, H.y, 0⟩

def parseShape2 (shape : String) : Option (P Shape2) :=
  match shape with
  | "ball2" => some do
      let r ← pf
      pure { loc := fun d => some (ballLocal2 r d), toward := fun d => some (ballToward2 r d)
             posed := fun m d => some (ballPosed2 r m d), ptoward := fun m d => some (ballPosedToward2 r m d)
             finiteArgs := fin r, judge := rjudge (specPoint ⟨0, 0, 0⟩) (q r), uf := 1 }
  | "cuboid2" => some do
      let he ← pv2
      pure (dflt2 (fun d => some (cuboidLocal2 he d)) (finite2 he) (sjudge (specCuboid2 (q2 he))))
  | "capsule2" => some do
      let a ← pv2; let b ← pv2; let r ← pf
      pure { loc := fun d => some (capsuleLocal2 a b r d), toward := fun d => some (capsuleToward2 a b r d)
             posed := fun m d => some (m.act (capsuleLocal2 a b r (m.invRot d)))
             ptoward := fun m d => some (m.act (capsuleToward2 a b r (m.invRot d)))
             finiteArgs := finite2 a && finite2 b && fin r, judge := rjudge (specSegment (up2 a) (up2 b)) (q r), uf := 1 }
  | "segment2" => some do
      let a ← pv2; let b ← pv2
      pure (dflt2 (fun d => some (segmentLocal2 a b d)) (finite2 a && finite2 b) (sjudge (specSegment (up2 a) (up2 b))))
  | "triangle2" => some do
      let a ← pv2; let b ← pv2; let c ← pv2
      pure (dflt2 (fun d => some (triangleLocal2 a b c d)) (finite2 a && finite2 b && finite2 c)
        (sjudge (specTriangle (up2 a) (up2 b) (up2 c))))
  | "polygon" => some do
      let pts ← ppts2
      pure (dflt2 (fun d => cloudPoint2 d pts) (pts.all finite2) (sjudge (specCloud (pts.map up2))))
  | "roundcuboid2" => some do
      let he ← pv2; let br ← pf
      pure (round2 (fun d => some (cuboidLocal2 he d)) br (finite2 he) (rjudge (specCuboid2 (q2 he)) (q br)))
  | "roundpolygon" => some do
      let pts ← ppts2; let br ← pf
      pure (round2 (fun d => cloudPoint2 d pts) br (pts.all finite2) (rjudge (specCloud (pts.map up2)) (q br)))
  | _ => none

/-! ### the four modes -/

/-- the exact direction rescaled so that its largest component is ±1 (scale-free judgement) -/
def rescale (D : V3 Rat) : V3 Rat := D.smul (1 / linf3 D)

/-- directions the property quantifies over: every non-zero one, however small (near-zero directions are judged
like any other, on the exact rational direction rescaled by `1/|dir|_∞`); unit ones for the `_toward` variants -/
def dirVerdict (D : V3 Rat) (unitRequired : Bool) : Option String :=
  let n2 := D.normSq
  if n2 = 0 then some "skip zero-direction"
  else if unitRequired && (rabs (n2 - 1) > 1 / 10 ^ 9) then some "skip non-unit-direction"
  else none

def mode3 (sh : P Shape3) (mode : String) : Option Handler :=
  let posedMode := mode == "posed" || mode == "ptoward"
  let unitMode := mode == "toward" || mode == "ptoward"
  let parse : P (Shape3 × Iso3 Float × V3 Float) := do
    let s ← sh
    let m ← if posedMode then piso3 else pure Iso3.identity
    let d ← pv3; pend
    pure (s, m, d)
  if !(mode == "local" || posedMode || unitMode) then none else some {
    model := fun a => run (do
      let (s, m, d) ← parse
      pure (fo3 (match mode with
        | "local" => s.loc d
        | "toward" => s.toward d
        | "posed" => s.posed m d
        | _ => s.ptoward m d))) a
    oracle := fun a o => match run parse a with
      | none => "skip bad-args"
      | some (s, m, d) =>
        if !(s.finiteArgs && finiteIso3 m && finite3 d) then "skip nonfinite-input" else
        match dirVerdict (q3 d) unitMode with
        | some v => v
        | none =>
          let D := rescale (q3 d)
          let M := qiso3 m
          let Dl := if posedMode then M.invRot D else D
          -- legitimate underflow: the squared norm the algorithm takes is 0.0 or subnormal in binary64 (`tinySq`)
          let dl : V3 Float := if posedMode then m.invRot d else d
          let under := match s.uf with
            | 1 => tinySq d.normSq || tinySq dl.normSq
            | 2 => tinySq (⟨dl.x, 0, dl.z⟩ : V3 Float).normSq && (Dl.x != 0 || Dl.z != 0)
            | _ => false
          if under then "skip direction-underflows" else
          withOut po3 o fun p =>
            if !finite3 p then "fail nonfinite-output" else
            if posedMode then s.judge Dl (M.invAct (q3 p)) (linf3 M.t)
            else s.judge D (q3 p) 0 }

def mode2 (sh : P Shape2) (mode : String) : Option Handler :=
  let posedMode := mode == "posed" || mode == "ptoward"
  let unitMode := mode == "toward" || mode == "ptoward"
  let parse : P (Shape2 × Iso2 Float × V2 Float) := do
    let s ← sh
    let m ← if posedMode then piso2 else pure Iso2.identity
    let d ← pv2; pend
    pure (s, m, d)
  if !(mode == "local" || posedMode || unitMode) then none else some {
    model := fun a => run (do
      let (s, m, d) ← parse
      pure (fo2 (match mode with
        | "local" => s.loc d
        | "toward" => s.toward d
        | "posed" => s.posed m d
        | _ => s.ptoward m d))) a
    oracle := fun a o => match run parse a with
      | none => "skip bad-args"
      | some (s, m, d) =>
        if !(s.finiteArgs && finiteIso2 m && finite2 d) then "skip nonfinite-input" else
        match dirVerdict (up (q2 d)) unitMode with
        | some v => v
        | none =>
          let D3 := rescale (up (q2 d))
          let D : V2 Rat := ⟨D3.x, D3.y⟩
          let M := qiso2 m
          let dl : V2 Float := if posedMode then m.invRot d else d
          let under := s.uf == 1 && (tinySq d.normSq || tinySq dl.normSq)
          if under then "skip direction-underflows" else
          withOut po2 o fun p =>
            if !finite2 p then "fail nonfinite-output" else
            if posedMode then s.judge (up (M.invRot D)) (up (M.invAct (q2 p))) (rmax (rabs M.t.x) (rabs M.t.y))
            else s.judge (up D) (up (q2 p)) 0 }

/-- `point_cloud_support_point_id` / `point_cloud_support_point` on raw clouds -/
def cloudHandler (mode : String) : Option Handler :=
  let parse : P (List (V3 Float) × V3 Float) := do let pts ← ppts3; let d ← pv3; pend; pure (pts, d)
  match mode with
  | "id" => some {
      model := fun a => run (do
        let (pts, d) ← parse
        pure (match cloudId3 d pts with | some i => toString i | none => "panic")) a
      oracle := fun a o => match run parse a with
        | none => "skip bad-args"
        | some (pts, d) =>
          if !(pts.all finite3 && finite3 d) then "skip nonfinite-input" else
          if pts.isEmpty then "skip empty-cloud" else
          withOut pnat o fun i =>
            match pts[i]? with
            | none => "fail index-out-of-range"
            | some p => sjudge (specCloud (pts.map q3)) (q3 d) (q3 p) 0 }
  | "point" => some {
      model := fun a => run (do let (pts, d) ← parse; pure (fo3 (cloudPoint3 d pts))) a
      oracle := fun a o => match run parse a with
        | none => "skip bad-args"
        | some (pts, d) =>
          if !(pts.all finite3 && finite3 d) then "skip nonfinite-input" else
          withOut po3 o fun p =>
            if !finite3 p then "fail nonfinite-output" else sjudge (specCloud (pts.map q3)) (q3 d) (q3 p) 0 }
  | _ => none


/-! ### feature maps -/

def ffeat3 (f : Feature3 Float) : String :=
  let n := f.verts.length
  String.intercalate " " ([toString n] ++ f.verts.map fv3 ++ f.vids.map (fun c => s!"v{c}") ++
    f.eids.map (fun c => s!"e{c}") ++ [s!"f{f.fid}"])
def ffeat2 (f : Feature2 Float) : String :=
  let n := f.verts.length
  String.intercalate " " ([toString n] ++ f.verts.map fv2 ++ f.vids.map (fun c => s!"v{c}") ++ [s!"f{f.fid}"])

/-- a feature id token `v12` / `e3` / `f9` with the expected kind letter -/
def pid (kind : Char) : P Nat := do
  let t ← tok
  match t.toList with
  | c :: rest => if c == kind then (match (String.ofList rest).toNat? with | some n => pure n | none => failure) else failure
  | [] => failure
def prep {α} (p : P α) : Nat → P (List α)
  | 0 => pure []
  | k + 1 => do let x ← p; let xs ← prep p k; pure (x :: xs)
/-- parsed implementation output of a 3-D feature -/
def pofeat3 : P (Feature3 Float) := do
  let n ← pnat
  let vs ← prep po3 n; let vi ← prep (pid 'v') n; let ei ← prep (pid 'e') n; let f ← pid 'f'; pend
  pure { verts := vs, vids := vi, eids := ei, fid := f }
def pofeat2 : P (Feature2 Float) := do
  let n ← pnat
  let vs ← prep po2 n; let vi ← prep (pid 'v') n; let f ← pid 'f'; pend
  pure { verts := vs, vids := vi, fid := f }

def close3 (a b : V3 Rat) (sl : Rat) : Bool := (a.sub b).normSq ≤ sl * sl
def unitOk (D : V3 Rat) : Bool := rabs (D.normSq - 1) ≤ 1 / 10 ^ 9
def approxEq (a b sl : Rat) : Bool := rabs (a - b) ≤ sl
/-- some listed vertex attains the support value `h` of the shape in direction `D` -/
def attains (vs : List (V3 Rat)) (D : V3 Rat) (h scale : Rat) : Bool := vs.any fun v => leS h (D.dot v) scale

/-- cuboid faces (3-D with `dim = 3`, 2-D embedded with `he.z = 0`, `dim = 2`): the returned vertices are the
`2^(dim-1)` distinct corners of one face whose axis carries the largest `|dir_k|`, on the side of `sign dir_k`,
and one of them is a support point.  Returns the face `(axis, negative)` for the id checks. -/
def cuboidFaceGeom (dim : Nat) (H D : V3 Rat) (vs : List (V3 Rat)) : Except String (Nat × Bool) :=
  let ext := linf3 H; let sl := tol * (1 + ext); let scale := l1n3 D * ext
  let isCorner := fun (v : V3 Rat) => (List.range dim).all fun i => approxEq (rabs (v.get i)) (H.get i) sl
  if vs.length != 2 ^ (dim - 1) then .error s!"fail wrong-vertex-count {vs.length}" else
  if !vs.all isCorner then .error "fail vertex-not-a-corner" else
  let amax := (List.range dim).foldl (fun m i => rmax m (rabs (D.get i))) 0
  let cand := (List.range dim).filter fun k => rabs (D.get k) = amax &&
      vs.all fun v => approxEq (v.get k * (if D.get k < 0 then -1 else 1)) (H.get k) sl
  match cand with
  | [] => .error "fail not-on-the-supporting-face"
  | k :: _ =>
    let distinct := vs.zipIdx.all fun (v, i) => vs.zipIdx.all fun (w, j) => i == j || !close3 v w sl
    if (List.range dim).all (fun i => H.get i > 2 * sl) && !distinct then .error "fail repeated-vertex" else
    if !attains vs D ((List.range dim).foldl (fun a i => a + rabs (D.get i) * H.get i) 0) scale then .error "fail no-support-point-on-face" else
    .ok (k, decide (D.get k < 0))

/-- documented id scheme of `Cuboid::support_face` (3-D): vertex code = `2·(4·[x<0] + 2·[y<0] + [z<0])`,
edge code = `0b11000000 | (hi << 3) | lo` of the end vertices' sign patterns, face code = `10 + axis (+3 if
the normal is negative)`. -/
def cuboidIds3 (f : Feature3 Float) (axis : Nat) (neg : Bool) : String :=
  let pat := fun (v : V3 Float) => (if q v.x < 0 then 4 else 0) + (if q v.y < 0 then 2 else 0) + (if q v.z < 0 then 1 else 0)
  let pats := f.verts.map pat
  if f.vids != pats.map (· * 2) then s!"fail vid-does-not-encode-vertex-signs expected={pats.map (· * 2)} got={f.vids}" else
  let n := pats.length
  let eexp := (List.range n).map fun i =>
    let a := pats.getD i 0; let b := pats.getD ((i + 1) % n) 0
    192 + (Nat.max a b) * 8 + Nat.min a b
  if f.eids != eexp then s!"fail eid-is-not-the-packed-pair-of-its-end-vertices expected={eexp} got={f.eids}" else
  let fexp := 10 + axis + (if neg then 3 else 0)
  if f.fid != fexp then s!"fail fid-does-not-encode-face-normal expected={fexp} got={f.fid}" else "pass"

/-- documented id scheme of the 2-D cuboid: vertex code = `[x<0] + 2·[y<0]`, face code = `(hi << 2) | lo | 0b110000` -/
def cuboidIds2 (f : Feature2 Float) : String :=
  let pats := f.verts.map fun (v : V2 Float) => (if q v.x < 0 then 1 else 0) + (if q v.y < 0 then 2 else 0)
  if f.vids != pats then s!"fail vid-does-not-encode-vertex-signs expected={pats} got={f.vids}" else
  let a := pats.getD 0 0; let b := pats.getD 1 0
  let fexp := (Nat.max a b) * 4 + Nat.min a b + 48
  if f.fid != fexp then s!"fail fid-is-not-the-packed-pair-of-its-vertices expected={fexp} got={f.fid}" else "pass"

/-- generic judgement for the curved shapes' features: all vertices in the shape, one of them a support point -/
def featJudge (s : Spec) (D : V3 Rat) (vs : List (V3 Rat)) : Option String :=
  let sl := tol * (1 + s.ext)
  if !vs.all (fun v => s.mem v sl) then some "fail vertex-not-a-member"
  else if !attains vs D (s.h D) (l1n3 D * s.ext) then some "fail no-support-point-on-feature"
  else none

/-- consecutive vertices `pts[i], pts[i+1 mod n]` of a counter-clockwise convex polygon, one of them a support
vertex (⇔ the edge is a supporting face: its normal cone contains `dir` on one side) -/
def polyEdgeJudge (pts : List (V3 Rat)) (D : V3 Rat) (vs : List (V3 Rat)) (ids : Option (List Nat × Nat)) : String :=
  let n := pts.length
  let ext := pts.foldl (fun m w => rmax m (linf3 w)) 0; let sl := tol * (1 + ext)
  let cross := fun (a b c : V3 Rat) => (b.x - a.x) * (c.y - a.y) - (b.y - a.y) * (c.x - a.x)
  let ccw := (List.range n).all fun i =>
    cross (pts.getD i ⟨0,0,0⟩) (pts.getD ((i + 1) % n) ⟨0,0,0⟩) (pts.getD ((i + 2) % n) ⟨0,0,0⟩) > 0
  if !ccw then "skip not-strictly-ccw-convex" else
  match vs with
  | [v1, v2] =>
    match (List.range n).find? (fun i => close3 (pts.getD i ⟨0,0,0⟩) v1 sl && close3 (pts.getD ((i + 1) % n) ⟨0,0,0⟩) v2 sl) with
    | none => "fail not-an-edge-of-the-polygon"
    | some i =>
      let mx := (specCloud pts).h D
      if !attains vs D mx (l1n3 D * ext) then "fail no-support-point-on-face" else
      match ids with
      | some (vids, fid) =>
        -- ConvexPolygon: vertex code 2·index, face code 2·index+1; Triangle: vertex code index, face code index
        if vids.length != 2 then "fail wrong-id-count" else
        let i1 := vids.getD 0 0; let i2 := vids.getD 1 0
        if (i1 == 2 * i && i2 == 2 * ((i + 1) % n) && fid == 2 * i + 1) || (i1 == i && i2 == (i + 1) % n && fid == i) then "pass"
        else s!"fail ids-do-not-name-the-returned-edge edge={i} vids={vids} fid={fid}"
      | none => "pass"
  | _ => "fail wrong-vertex-count"

def fh3 {α : Type} (parse : P (α × V3 Float)) (model : α → V3 Float → String) (orc : α → V3 Rat → Feature3 Float → String)
    (finiteA : α → Bool) (needUnit : Bool) : Handler :=
  { model := fun a => run (do let (x, d) ← parse; pend; pure (model x d)) a
    oracle := fun a o => match run parse a with
      | none => "skip bad-args"
      | some (x, d) =>
        if !(finiteA x && finite3 d) then "skip nonfinite-input" else
        withOut pofeat3 o fun f =>
          if !f.verts.all finite3 then "fail nonfinite-output" else
          match dirVerdict (q3 d) needUnit with
          | some v => v
          | none => orc x (q3 d) f }
def fh2 {α : Type} (parse : P (α × V2 Float)) (model : α → V2 Float → String) (orc : α → V3 Rat → Feature2 Float → String)
    (finiteA : α → Bool) (needUnit : Bool) : Handler :=
  { model := fun a => run (do let (x, d) ← parse; pend; pure (model x d)) a
    oracle := fun a o => match run parse a with
      | none => "skip bad-args"
      | some (x, d) =>
        if !(finiteA x && finite2 d) then "skip nonfinite-input" else
        withOut pofeat2 o fun f =>
          if !f.verts.all finite2 then "fail nonfinite-output" else
          match dirVerdict (up (q2 d)) needUnit with
          | some v => v
          | none => orc x (up (q2 d)) f }
def fseg {α : Type} (parse : P (α × V3 Float)) (model : α → V3 Float → V3 Float × V3 Float)
    (orc : α → V3 Rat → V3 Rat → V3 Rat → String) (finiteA : α → Bool) : Handler :=
  { model := fun a => run (do let (x, d) ← parse; pend; let (p1, p2) := model x d; pure s!"{fv3 p1} {fv3 p2}") a
    oracle := fun a o => match run parse a with
      | none => "skip bad-args"
      | some (x, d) =>
        if !(finiteA x && finite3 d) then "skip nonfinite-input" else
        withOut (do let p1 ← po3; let p2 ← po3; pend; pure (p1, p2)) o fun (p1, p2) =>
          if !(finite3 p1 && finite3 p2) then "fail nonfinite-output" else
          match dirVerdict (q3 d) false with
          | some v => v
          | none => orc x (q3 d) (q3 p1) (q3 p2) }

def featureHandler (fn : String) : Option Handler :=
  let cuboidOrc3 : V3 Float → V3 Rat → Feature3 Float → String := fun he D f =>
    let H := q3 he
    if H.x ≤ 0 || H.y ≤ 0 || H.z ≤ 0 then "skip non-positive-half-extent" else
    match cuboidFaceGeom 3 H D (f.verts.map q3) with
    | .error e => e
    | .ok (axis, neg) => cuboidIds3 f axis neg
  let cuboidOrc2 : V2 Float → V3 Rat → Feature2 Float → String := fun he D f =>
    let H := q2 he
    if H.x ≤ 0 || H.y ≤ 0 then "skip non-positive-half-extent" else
    match cuboidFaceGeom 2 ⟨H.x, H.y, 0⟩ D (f.verts.map up2) with
    | .error e => e
    | .ok _ => cuboidIds2 f
  let tri3 : P ((V3 Float × V3 Float × V3 Float) × V3 Float) := do
    let a ← pv3; let b ← pv3; let c ← pv3; let d ← pv3; pure ((a, b, c), d)
  let tri2 : P ((V2 Float × V2 Float × V2 Float) × V2 Float) := do
    let a ← pv2; let b ← pv2; let c ← pv2; let d ← pv2; pure ((a, b, c), d)
  let negMax : Float := -1.7976931348623157e308
  match fn with
  | "cuboid_face" => some (fh3 (do let he ← pv3; let d ← pv3; pure (he, d)) (fun he d => ffeat3 (cuboidSupportFace3 he d)) cuboidOrc3 finite3 false)
  | "cuboid_feature" => some (fh3 (do let he ← pv3; let d ← pv3; pure (he, d)) (fun he d => ffeat3 (cuboidSupportFace3 he d)) cuboidOrc3 finite3 true)
  | "cuboid2_face" => some (fh2 (do let he ← pv2; let d ← pv2; pure (he, d)) (fun he d => ffeat2 (cuboidSupportFace2 he d)) cuboidOrc2 finite2 false)
  | "cuboid2_feature" => some (fh2 (do let he ← pv2; let d ← pv2; pure (he, d)) (fun he d => ffeat2 (cuboidSupportFace2 he d)) cuboidOrc2 finite2 true)
  | "cuboid_edge" => some (fseg (do let he ← pv3; let d ← pv3; pure (he, d)) (fun he d => cuboidSupportEdge3 he d)
      (fun he D p1 p2 =>
        let H := q3 he
        if H.x < 0 || H.y < 0 || H.z < 0 then "skip negative-half-extent" else
        let ext := linf3 H; let sl := tol * (1 + ext)
        let isCorner := fun (v : V3 Rat) => (List.range 3).all fun i => approxEq (rabs (v.get i)) (H.get i) sl
        if !(isCorner p1 && isCorner p2) then "fail vertex-not-a-corner" else
        let amin := rmin (rabs D.x) (rmin (rabs D.y) (rabs D.z))
        -- the edge runs along an axis of least |dir_k|: the end points differ (by sign) only there
        let okAxis := (List.range 3).any fun k => rabs (D.get k) = amin &&
          approxEq (p1.get k) (-(p2.get k)) sl && (List.range 3).all fun i => i == k || approxEq (p1.get i) (p2.get i) sl
        if !okAxis then "fail not-an-edge-along-the-least-axis" else
        if !attains [p1, p2] D ((specCuboid H).h D) (l1n3 D * ext) then "fail no-support-point-on-edge" else "pass")
      finite3)
  | "triangle_feature" => some (fh3 tri3 (fun (a, b, c) _ => ffeat3 (triangleSupportFace3 a b c))
      (fun (a, b, c) D f =>
        let T := [q3 a, q3 b, q3 c]; let vs := f.verts.map q3
        let ext := T.foldl (fun m w => rmax m (linf3 w)) 0; let sl := tol * (1 + ext)
        if vs.length != 3 then "fail wrong-vertex-count" else
        if !(vs.all fun v => T.any fun t => close3 v t sl) then "fail vertex-not-a-triangle-vertex" else
        if !(T.all fun t => vs.any fun v => close3 v t sl) then "fail triangle-vertex-missing" else
        if !attains vs D ((specCloud T).h D) (l1n3 D * ext) then "fail no-support-point-on-face" else
        if f.vids == [0, 1, 2] && f.eids == [0, 1, 2] && f.fid == 0 then "pass" else "fail unexpected-ids")
      (fun (a, b, c) => finite3 a && finite3 b && finite3 c) true)
  | "triangle_edge" => some (fseg tri3 (fun (a, b, c) d => triangleSupportEdge3 a b c d)
      (fun (a, b, c) D p1 p2 =>
        let T := [q3 a, q3 b, q3 c]
        let ext := T.foldl (fun m w => rmax m (linf3 w)) 0; let sl := tol * (1 + ext)
        if !([p1, p2].all fun v => T.any fun t => close3 v t sl) then "fail vertex-not-a-triangle-vertex" else
        if !attains [p1, p2] D ((specCloud T).h D) (l1n3 D * ext) then "fail no-support-point-on-edge" else "pass")
      (fun (a, b, c) => finite3 a && finite3 b && finite3 c))
  | "triangle2_feature" => some (fh2 tri2 (fun (a, b, c) d => ffeat2 (triangleSupportFace2 negMax a b c d))
      (fun (a, b, c) D f => polyEdgeJudge [up2 a, up2 b, up2 c] D (f.verts.map up2) (some (f.vids, f.fid)))
      (fun (a, b, c) => finite2 a && finite2 b && finite2 c) true)
  | "segment_feature" => some (fh3 (do let a ← pv3; let b ← pv3; let d ← pv3; pure ((a, b), d)) (fun (a, b) _ => ffeat3 (segmentFeature3 a b))
      (fun (a, b) D f =>
        let vs := f.verts.map q3; let A := q3 a; let B := q3 b
        let ext := rmax (linf3 A) (linf3 B); let sl := tol * (1 + ext)
        match vs with
        | [v1, v2] =>
          if !((close3 v1 A sl && close3 v2 B sl) || (close3 v1 B sl && close3 v2 A sl)) then "fail not-the-segment-end-points" else
          if !attains vs D ((specSegment A B).h D) (l1n3 D * ext) then "fail no-support-point-on-feature" else "pass"
        | _ => "fail wrong-vertex-count")
      (fun (a, b) => finite3 a && finite3 b) true)
  | "segment2_feature" => some (fh2 (do let a ← pv2; let b ← pv2; let d ← pv2; pure ((a, b), d)) (fun (a, b) _ => ffeat2 (segmentFeature2 a b))
      (fun (a, b) D f =>
        let vs := f.verts.map up2; let A := up2 a; let B := up2 b
        let ext := rmax (linf3 A) (linf3 B); let sl := tol * (1 + ext)
        match vs with
        | [v1, v2] =>
          if !((close3 v1 A sl && close3 v2 B sl) || (close3 v1 B sl && close3 v2 A sl)) then "fail not-the-segment-end-points" else
          if !attains vs D ((specSegment A B).h D) (l1n3 D * ext) then "fail no-support-point-on-feature" else "pass"
        | _ => "fail wrong-vertex-count")
      (fun (a, b) => finite2 a && finite2 b) true)
  | "cylinder_feature" => some (fh3 (do let hh ← pf; let r ← pf; let d ← pv3; pure ((hh, r), d)) (fun (hh, r) d => ffeat3 (cylinderFeature hh r d))
      (fun (hh, r) D f =>
        let s := specCylinder (q hh) (q r)
        match s.invalid with
        | some why => "skip " ++ why
        | none =>
          let vs := f.verts.map q3; let sl := tol * (1 + s.ext); let R := q r; let HH := q hh
          match featJudge s D vs with
          | some e => e
          | none =>
            let onRim := vs.all fun v => approxEq (v.x * v.x + v.z * v.z) (R * R) (sl * (1 + 2 * R))
            if !onRim then "fail vertex-not-on-the-rim-circle" else
            match vs with
            | [v1, v2] => -- a generator of the curved part: same (x,z), the two caps
              if approxEq v1.x v2.x sl && approxEq v1.z v2.z sl && approxEq (rabs v1.y) HH sl && approxEq v1.y (-v2.y) sl then "pass"
              else "fail not-a-generator-segment"
            | [v1, v2, v3, v4] => -- a square inscribed in one cap circle
              let sameY := [v2, v3, v4].all fun v => approxEq v.y v1.y sl
              let sq := approxEq (v1.x + v3.x) 0 sl && approxEq (v1.z + v3.z) 0 sl && approxEq (v2.x + v4.x) 0 sl &&
                approxEq (v2.z + v4.z) 0 sl && approxEq (v1.x * v2.x + v1.z * v2.z) 0 (sl * (1 + R))
              if sameY && approxEq (rabs v1.y) HH sl && sq then "pass" else "fail not-an-inscribed-cap-square"
            | _ => "fail wrong-vertex-count")
      (fun (hh, r) => fin hh && fin r) true)
  | "cone_feature" => some (fh3 (do let hh ← pf; let r ← pf; let d ← pv3; pure ((hh, r), d)) (fun (hh, r) d => ffeat3 (coneFeature hh r d))
      (fun (hh, r) D f =>
        let s := specCone (q hh) (q r)
        match s.invalid with
        | some why => "skip " ++ why
        | none =>
          let vs := f.verts.map q3; let sl := tol * (1 + s.ext); let R := q r; let HH := q hh
          match featJudge s D vs with
          | some e => e
          | none =>
            match vs with
            | [v1, v2] => -- a generator: base rim point and apex
              if approxEq (v1.x * v1.x + v1.z * v1.z) (R * R) (sl * (1 + 2 * R)) && approxEq v1.y (-HH) sl && close3 v2 ⟨0, HH, 0⟩ sl then "pass"
              else "fail not-a-generator-segment"
            | [v1, v2, v3, v4] =>
              let onRim := vs.all fun v => approxEq (v.x * v.x + v.z * v.z) (R * R) (sl * (1 + 2 * R)) && approxEq v.y (-HH) sl
              let sq := approxEq (v1.x + v3.x) 0 sl && approxEq (v1.z + v3.z) 0 sl && approxEq (v2.x + v4.x) 0 sl &&
                approxEq (v2.z + v4.z) 0 sl && approxEq (v1.x * v2.x + v1.z * v2.z) 0 (sl * (1 + R))
              if onRim && sq then "pass" else "fail not-an-inscribed-base-square"
            | _ => "fail wrong-vertex-count")
      (fun (hh, r) => fin hh && fin r) true)
  | "polygon_feature" => some (fh2 (do let pts ← ppts2; let d ← pv2; pure (pts, d))
      (fun pts d => match polygonFeature pts d with | some f => ffeat2 f | none => "panic")
      (fun pts D f => polyEdgeJudge (pts.map up2) D (f.verts.map up2) (some (f.vids, f.fid)))
      (fun pts => pts.all finite2) true)
  | _ => none

def handlerBase (fn : String) : Option Handler :=
  match featureHandler fn with
  | some h => some h
  | none =>
  match fn.splitOn "_" with
  | [shape, mode] =>
    if shape == "cloud" then cloudHandler mode else
    match parseShape3 shape with
    | some sh => mode3 sh mode
    | none => match parseShape2 shape with
      | some sh => mode2 sh mode
      | none => none
  | _ => none

end C10
