import ParryModel.Field
import ParryModel.C10.Model
/-!
# C10 helper lemmas (pure ordered-field facts and list inductions; not property obligations)
-/
set_option linter.unusedSectionVars false

namespace C10
open Model Model.C10

variable {K : Type} [Field K] [LinearOrder K] [IsStrictOrderedRing K]

theorem le_of_mul_self_le {a b : K} (hb : 0 ≤ b) (h : a * a ≤ b * b) : a ≤ b := by
  by_contra hc; push Not at hc; nlinarith

/-- Cauchy–Schwarz in `K³`, as a difference of squares (Lagrange identity) -/
theorem cs3 (a1 a2 a3 b1 b2 b3 : K) :
    (a1*b1 + a2*b2 + a3*b3) * (a1*b1 + a2*b2 + a3*b3) ≤ (a1*a1 + a2*a2 + a3*a3) * (b1*b1 + b2*b2 + b3*b3) := by
  nlinarith [sq_nonneg (a1*b2 - a2*b1), sq_nonneg (a1*b3 - a3*b1), sq_nonneg (a2*b3 - a3*b2)]

theorem cs2 (a1 a2 b1 b2 : K) :
    (a1*b1 + a2*b2) * (a1*b1 + a2*b2) ≤ (a1*a1 + a2*a2) * (b1*b1 + b2*b2) := by
  nlinarith [sq_nonneg (a1*b2 - a2*b1)]

/-- `a·b ≤ |a| r` whenever `|b| ≤ r` (with `n = |a|` given by `n ≥ 0`, `n² = |a|²`) -/
theorem dot_le3 (a1 a2 a3 b1 b2 b3 n r : K) (hn : 0 ≤ n) (hr : 0 ≤ r)
    (hnn : n * n = a1*a1 + a2*a2 + a3*a3) (hb : b1*b1 + b2*b2 + b3*b3 ≤ r * r) :
    a1*b1 + a2*b2 + a3*b3 ≤ n * r := by
  apply le_of_mul_self_le (mul_nonneg hn hr)
  calc _ ≤ (a1*a1 + a2*a2 + a3*a3) * (b1*b1 + b2*b2 + b3*b3) := cs3 ..
    _ ≤ (n * n) * (r * r) := by
        rw [hnn]; exact mul_le_mul_of_nonneg_left hb (by nlinarith [mul_self_nonneg a1, mul_self_nonneg a2, mul_self_nonneg a3])
    _ = n * r * (n * r) := by ring

theorem dot_le2 (a1 a2 b1 b2 n r : K) (hn : 0 ≤ n) (hr : 0 ≤ r)
    (hnn : n * n = a1*a1 + a2*a2) (hb : b1*b1 + b2*b2 ≤ r * r) :
    a1*b1 + a2*b2 ≤ n * r := by
  apply le_of_mul_self_le (mul_nonneg hn hr)
  calc _ ≤ (a1*a1 + a2*a2) * (b1*b1 + b2*b2) := cs2 ..
    _ ≤ (n * n) * (r * r) := by
        rw [hnn]; exact mul_le_mul_of_nonneg_left hb (by nlinarith [mul_self_nonneg a1, mul_self_nonneg a2])
    _ = n * r * (n * r) := by ring

/-- the norm of a non-zero vector is positive -/
theorem norm_pos_of {sq : K → K} (h : LawfulSqrt sq) {s : K} (hs : 0 < s) : 0 < sq s := by
  have h1 := h.nonneg s hs.le
  have h2 := h.sq_mul s hs.le
  rcases h1.lt_or_eq with h3 | h3
  · exact h3
  · rw [← h3] at h2; simp at h2; linarith

theorem sumsq3_pos {x y z : K} (h : x ≠ 0 ∨ y ≠ 0 ∨ z ≠ 0) : 0 < x*x + y*y + z*z := by
  rcases h with h | h | h
  · have := mul_self_pos.mpr h; nlinarith [mul_self_nonneg y, mul_self_nonneg z]
  · have := mul_self_pos.mpr h; nlinarith [mul_self_nonneg x, mul_self_nonneg z]
  · have := mul_self_pos.mpr h; nlinarith [mul_self_nonneg x, mul_self_nonneg y]

theorem sumsq2_pos {x y : K} (h : x ≠ 0 ∨ y ≠ 0) : 0 < x*x + y*y := by
  rcases h with h | h
  · have := mul_self_pos.mpr h; nlinarith [mul_self_nonneg y]
  · have := mul_self_pos.mpr h; nlinarith [mul_self_nonneg x]

/-! ## point clouds: the argmax loop -/

section cloud
variable (sq : K → K)

/-- invariant of the `for` loop of `point_cloud_support_point_id`, with `pre` the points already visited:
the result indexes a point that dominates every point, and every earlier point is strictly worse
(first strict maximum). -/
theorem cloudGo3_spec (dir : V3 K) :
    letI := fieldNum K sq
    ∀ (ps pre : List (V3 K)) (best : Nat) (bd : K),
      (∃ pb, pre[best]? = some pb ∧ pb.dot dir = bd) →
      (∀ q ∈ pre, q.dot dir ≤ bd) →
      (∀ j, j < best → ∀ q, pre[j]? = some q → q.dot dir < bd) →
      ∃ pr, (pre ++ ps)[cloudGo3 dir ps pre.length best bd]? = some pr ∧
        (∀ q ∈ pre ++ ps, q.dot dir ≤ pr.dot dir) ∧
        (∀ j, j < cloudGo3 dir ps pre.length best bd → ∀ q, (pre ++ ps)[j]? = some q → q.dot dir < pr.dot dir) := by
  intro ps
  induction ps with
  | nil =>
    intro pre best bd ⟨pb, hpb, hbd⟩ hall hfirst
    refine ⟨pb, by simpa [cloudGo3] using hpb, ?_, ?_⟩
    · intro q hq; rw [hbd]; exact hall q (by simpa using hq)
    · intro j hj q hq; rw [hbd]; exact hfirst j (by simpa [cloudGo3] using hj) q (by simpa using hq)
  | cons p ps ih =>
    intro pre best bd ⟨pb, hpb, hbd⟩ hall hfirst
    have hlt : best < pre.length := (List.getElem?_eq_some_iff.1 hpb).1
    have happ : pre ++ p :: ps = (pre ++ [p]) ++ ps := by simp
    have hlen : (pre ++ [p]).length = pre.length + 1 := by simp
    unfold cloudGo3
    simp only []
    split_ifs with c
    · -- new strict maximum at index `pre.length`
      have := ih (pre ++ [p]) pre.length (@V3.dot K (fieldNum K sq) p dir)
        ⟨p, by simp, rfl⟩
        (by
          intro q hq
          rcases List.mem_append.1 hq with h | h
          · exact (hall q h).trans c.le
          · have : q = p := by simpa using h
            subst this; exact le_refl _)
        (by
          intro j hj q hq
          rw [List.getElem?_append_left hj] at hq
          exact lt_of_le_of_lt (hall q (List.mem_of_getElem? hq)) c)
      rw [hlen] at this; rw [happ]; exact this
    · have := ih (pre ++ [p]) best bd
        ⟨pb, by rw [List.getElem?_append_left hlt]; exact hpb, hbd⟩
        (by
          intro q hq
          rcases List.mem_append.1 hq with h | h
          · exact hall q h
          · have : q = p := by simpa using h
            subst this; exact not_lt.1 c)
        (by
          intro j hj q hq
          rw [List.getElem?_append_left (hj.trans hlt)] at hq
          exact hfirst j hj q hq)
      rw [hlen] at this; rw [happ]; exact this

theorem cloudGo2_spec (dir : V2 K) :
    letI := fieldNum K sq
    ∀ (ps pre : List (V2 K)) (best : Nat) (bd : K),
      (∃ pb, pre[best]? = some pb ∧ pb.dot dir = bd) →
      (∀ q ∈ pre, q.dot dir ≤ bd) →
      (∀ j, j < best → ∀ q, pre[j]? = some q → q.dot dir < bd) →
      ∃ pr, (pre ++ ps)[cloudGo2 dir ps pre.length best bd]? = some pr ∧
        (∀ q ∈ pre ++ ps, q.dot dir ≤ pr.dot dir) ∧
        (∀ j, j < cloudGo2 dir ps pre.length best bd → ∀ q, (pre ++ ps)[j]? = some q → q.dot dir < pr.dot dir) := by
  intro ps
  induction ps with
  | nil =>
    intro pre best bd ⟨pb, hpb, hbd⟩ hall hfirst
    refine ⟨pb, by simpa [cloudGo2] using hpb, ?_, ?_⟩
    · intro q hq; rw [hbd]; exact hall q (by simpa using hq)
    · intro j hj q hq; rw [hbd]; exact hfirst j (by simpa [cloudGo2] using hj) q (by simpa using hq)
  | cons p ps ih =>
    intro pre best bd ⟨pb, hpb, hbd⟩ hall hfirst
    have hlt : best < pre.length := (List.getElem?_eq_some_iff.1 hpb).1
    have happ : pre ++ p :: ps = (pre ++ [p]) ++ ps := by simp
    have hlen : (pre ++ [p]).length = pre.length + 1 := by simp
    unfold cloudGo2
    simp only []
    split_ifs with c
    · have := ih (pre ++ [p]) pre.length (@V2.dot K (fieldNum K sq) p dir)
        ⟨p, by simp, rfl⟩
        (by
          intro q hq
          rcases List.mem_append.1 hq with h | h
          · exact (hall q h).trans c.le
          · have : q = p := by simpa using h
            subst this; exact le_refl _)
        (by
          intro j hj q hq
          rw [List.getElem?_append_left hj] at hq
          exact lt_of_le_of_lt (hall q (List.mem_of_getElem? hq)) c)
      rw [hlen] at this; rw [happ]; exact this
    · have := ih (pre ++ [p]) best bd
        ⟨pb, by rw [List.getElem?_append_left hlt]; exact hpb, hbd⟩
        (by
          intro q hq
          rcases List.mem_append.1 hq with h | h
          · exact hall q h
          · have : q = p := by simpa using h
            subst this; exact not_lt.1 c)
        (by
          intro j hj q hq
          rw [List.getElem?_append_left (hj.trans hlt)] at hq
          exact hfirst j hj q hq)
      rw [hlen] at this; rw [happ]; exact this

end cloud

/-! ## convex hulls (`hullMem3`): a linear functional is bounded by its maximum over the generators, and every
generator is in the hull -/

section hull3
variable (sq : K → K)

theorem hull3_bound_aux (dir : V3 K) (M : K) :
    letI := fieldNum K sq
    ∀ (pts : List (V3 K)) (w : List K) (acc : V3 K) (accw : K),
      w.length = pts.length → (∀ x ∈ w, 0 ≤ x) → (∀ v ∈ pts, dir.dot v ≤ M) →
      dir.dot ((List.zipWith (fun q x => q.smul x) pts w).foldl V3.add acc) - M * w.foldl (· + ·) accw
        ≤ dir.dot acc - M * accw := by
  intro pts
  induction pts with
  | nil => intro w acc accw hl _ _; cases w with
    | nil => simp
    | cons x xs => simp at hl
  | cons p ps ih =>
    intro w acc accw hl hw hM
    cases w with
    | nil => simp at hl
    | cons x xs =>
      simp only [List.zipWith_cons_cons, List.foldl_cons]
      have h1 := ih xs (@V3.add K (fieldNum K sq) acc (@V3.smul K (fieldNum K sq) p x)) (accw + x)
        (by simpa using hl) (fun y hy => hw y (List.mem_cons_of_mem _ hy)) (fun v hv => hM v (List.mem_cons_of_mem _ hv))
      have hx : 0 ≤ x := hw x (List.mem_cons_self ..)
      have hp := hM p (List.mem_cons_self ..)
      refine h1.trans ?_
      simp only [V3.dot, V3.add, V3.smul] at hp ⊢
      nlinarith [mul_nonneg hx (sub_nonneg.2 hp)]

/-- `dir·q ≤ M` for every `q` in the hull as soon as it holds for the generators -/
theorem hull3_le (dir : V3 K) (M : K) (pts : List (V3 K)) (q : V3 K) :
    letI := fieldNum K sq
    hullMem3 pts q → (∀ v ∈ pts, dir.dot v ≤ M) → dir.dot q ≤ M := by
  rintro ⟨w, hl, hw, hs, rfl⟩ hM
  have := hull3_bound_aux sq dir M pts w (@V3.zero K (fieldNum K sq)) 0 hl hw hM
  rw [hs] at this
  simp only [V3.dot, V3.zero] at this ⊢
  linarith

/-- indicator weights of index `i` -/
def indW {α : Type} : List α → Nat → List K
  | [], _ => []
  | _ :: ps, 0 => 1 :: List.replicate ps.length 0
  | _ :: ps, i + 1 => 0 :: indW ps i

theorem indW_length {α : Type} : ∀ (l : List α) (i : Nat), (indW (K := K) l i).length = l.length
  | [], _ => rfl
  | _ :: ps, 0 => by simp [indW]
  | _ :: ps, i + 1 => by simp [indW, indW_length ps i]

theorem indW_nonneg {α : Type} : ∀ (l : List α) (i : Nat), ∀ x ∈ indW (K := K) l i, 0 ≤ x
  | [], _ => by simp [indW]
  | _ :: ps, 0 => by
    intro x hx; simp only [indW, List.mem_cons, List.mem_replicate] at hx
    rcases hx with rfl | ⟨_, rfl⟩ <;> simp
  | _ :: ps, i + 1 => by
    intro x hx; simp only [indW, List.mem_cons] at hx
    rcases hx with rfl | h
    · exact le_refl _
    · exact indW_nonneg ps i x h

theorem foldl_add_replicate_zero (n : Nat) (a : K) : (List.replicate n (0:K)).foldl (· + ·) a = a := by
  induction n generalizing a with
  | zero => rfl
  | succ n ih => simp [List.replicate_succ, ih]

theorem indW_sum {α : Type} : ∀ (l : List α) (i : Nat) (a : K), i < l.length →
    (indW (K := K) l i).foldl (· + ·) a = a + 1
  | [], _, _, h => by simp at h
  | _ :: ps, 0, a, _ => by simp [indW, foldl_add_replicate_zero]
  | _ :: ps, i + 1, a, h => by
    simp only [indW, List.foldl_cons, add_zero]
    exact indW_sum ps i a (by simpa using h)

theorem zip3_replicate_zero (ps : List (V3 K)) (acc : V3 K) :
    letI := fieldNum K sq
    (List.zipWith (fun q x => q.smul x) ps (List.replicate ps.length (0:K))).foldl V3.add acc = acc := by
  induction ps generalizing acc with
  | nil => rfl
  | cons p ps ih =>
    simp only [List.length_cons, List.replicate_succ, List.zipWith_cons_cons, List.foldl_cons]
    have : @V3.add K (fieldNum K sq) acc (@V3.smul K (fieldNum K sq) p 0) = acc := by
      cases acc; simp [V3.add, V3.smul]
    rw [this]; exact ih acc

theorem indW_comb3 :
    letI := fieldNum K sq
    ∀ (l : List (V3 K)) (i : Nat) (acc p : V3 K), l[i]? = some p →
      (List.zipWith (fun q x => q.smul x) l (indW (K := K) l i)).foldl V3.add acc = acc.add p
  | [], _, _, _, h => by simp at h
  | q :: ps, 0, acc, p, h => by
    have : q = p := by simpa using h
    subst this
    simp only [indW, List.zipWith_cons_cons, List.foldl_cons]
    rw [zip3_replicate_zero sq]
    cases acc; cases q; simp [V3.add, V3.smul]
  | q :: ps, i + 1, acc, p, h => by
    simp only [indW, List.zipWith_cons_cons, List.foldl_cons]
    have : @V3.add K (fieldNum K sq) acc (@V3.smul K (fieldNum K sq) q 0) = acc := by
      cases acc; simp [V3.add, V3.smul]
    rw [this]
    exact indW_comb3 ps i acc p (by simpa using h)

/-- every listed point belongs to the hull of the list -/
theorem hull3_of_getElem (pts : List (V3 K)) (i : Nat) (p : V3 K) (h : pts[i]? = some p) :
    letI := fieldNum K sq
    hullMem3 pts p := by
  have hi : i < pts.length := (List.getElem?_eq_some_iff.1 h).1
  refine ⟨indW pts i, indW_length pts i, indW_nonneg pts i, ?_, ?_⟩
  · rw [indW_sum pts i 0 hi]; simp
  · rw [indW_comb3 sq pts i _ p h]
    cases p; simp [V3.add, V3.zero]

end hull3

/-! ## the same in 2-D -/

section hull2
variable (sq : K → K)

theorem hull2_bound_aux (dir : V2 K) (M : K) :
    letI := fieldNum K sq
    ∀ (pts : List (V2 K)) (w : List K) (acc : V2 K) (accw : K),
      w.length = pts.length → (∀ x ∈ w, 0 ≤ x) → (∀ v ∈ pts, dir.dot v ≤ M) →
      dir.dot ((List.zipWith (fun q x => q.smul x) pts w).foldl V2.add acc) - M * w.foldl (· + ·) accw
        ≤ dir.dot acc - M * accw := by
  intro pts
  induction pts with
  | nil => intro w acc accw hl _ _; cases w with
    | nil => simp
    | cons x xs => simp at hl
  | cons p ps ih =>
    intro w acc accw hl hw hM
    cases w with
    | nil => simp at hl
    | cons x xs =>
      simp only [List.zipWith_cons_cons, List.foldl_cons]
      have h1 := ih xs (@V2.add K (fieldNum K sq) acc (@V2.smul K (fieldNum K sq) p x)) (accw + x)
        (by simpa using hl) (fun y hy => hw y (List.mem_cons_of_mem _ hy)) (fun v hv => hM v (List.mem_cons_of_mem _ hv))
      have hx : 0 ≤ x := hw x (List.mem_cons_self ..)
      have hp := hM p (List.mem_cons_self ..)
      refine h1.trans ?_
      simp only [V2.dot, V2.add, V2.smul] at hp ⊢
      nlinarith [mul_nonneg hx (sub_nonneg.2 hp)]

/-- `dir·q ≤ M` for every `q` in the hull as soon as it holds for the generators -/
theorem hull2_le (dir : V2 K) (M : K) (pts : List (V2 K)) (q : V2 K) :
    letI := fieldNum K sq
    hullMem2 pts q → (∀ v ∈ pts, dir.dot v ≤ M) → dir.dot q ≤ M := by
  rintro ⟨w, hl, hw, hs, rfl⟩ hM
  have := hull2_bound_aux sq dir M pts w (@V2.zero K (fieldNum K sq)) 0 hl hw hM
  rw [hs] at this
  simp only [V2.dot, V2.zero] at this ⊢
  linarith

theorem zip2_replicate_zero (ps : List (V2 K)) (acc : V2 K) :
    letI := fieldNum K sq
    (List.zipWith (fun q x => q.smul x) ps (List.replicate ps.length (0:K))).foldl V2.add acc = acc := by
  induction ps generalizing acc with
  | nil => rfl
  | cons p ps ih =>
    simp only [List.length_cons, List.replicate_succ, List.zipWith_cons_cons, List.foldl_cons]
    have : @V2.add K (fieldNum K sq) acc (@V2.smul K (fieldNum K sq) p 0) = acc := by
      cases acc; simp [V2.add, V2.smul]
    rw [this]; exact ih acc

theorem indW_comb2 :
    letI := fieldNum K sq
    ∀ (l : List (V2 K)) (i : Nat) (acc p : V2 K), l[i]? = some p →
      (List.zipWith (fun q x => q.smul x) l (indW (K := K) l i)).foldl V2.add acc = acc.add p
  | [], _, _, _, h => by simp at h
  | q :: ps, 0, acc, p, h => by
    have : q = p := by simpa using h
    subst this
    simp only [indW, List.zipWith_cons_cons, List.foldl_cons]
    rw [zip2_replicate_zero sq]
    cases acc; cases q; simp [V2.add, V2.smul]
  | q :: ps, i + 1, acc, p, h => by
    simp only [indW, List.zipWith_cons_cons, List.foldl_cons]
    have : @V2.add K (fieldNum K sq) acc (@V2.smul K (fieldNum K sq) q 0) = acc := by
      cases acc; simp [V2.add, V2.smul]
    rw [this]
    exact indW_comb2 ps i acc p (by simpa using h)

/-- every listed point belongs to the hull of the list -/
theorem hull2_of_getElem (pts : List (V2 K)) (i : Nat) (p : V2 K) (h : pts[i]? = some p) :
    letI := fieldNum K sq
    hullMem2 pts p := by
  have hi : i < pts.length := (List.getElem?_eq_some_iff.1 h).1
  refine ⟨indW pts i, indW_length pts i, indW_nonneg pts i, ?_, ?_⟩
  · rw [indW_sum pts i 0 hi]; simp
  · rw [indW_comb2 sq pts i _ p h]
    cases p; simp [V2.add, V2.zero]

end hull2

end C10
