import ParryModel.Field
import ParryModel.C10.Model
/-!
# C10 helper lemmas (pure ordered-field facts and list inductions; not property obligations)
-/
namespace C10
open Model Model.C10

variable {K : Type} [Field K] [LinearOrder K] [IsStrictOrderedRing K]

theorem le_of_mul_self_le {a b : K} (hb : 0 ≤ b) (h : a * a ≤ b * b) : a ≤ b := by
  by_contra hc; push Not at hc; nlinarith

/-- Cauchy–Schwarz in `K³`, as a difference of squares (Lagrange identity) -/
theorem cs3 (a1 a2 a3 b1 b2 b3 : K) :
    (a1*b1 + a2*b2 + a3*b3) * (a1*b1 + a2*b2 + a3*b3) ≤ (a1*a1 + a2*a2 + a3*a3) * (b1*b1 + b2*b2 + b3*b3) := by
  nlinarith [sq_nonneg (a1*b2 - a2*b1), sq_nonneg (a1*b3 - a3*b1), sq_nonneg (a2*b3 - a3*b2)]

theorem cs2 (a1 a2 b1 b2 : K) :
    (a1*b1 + a2*b2) * (a1*b1 + a2*b2) ≤ (a1*a1 + a2*a2) * (b1*b1 + b2*b2) := by
  nlinarith [sq_nonneg (a1*b2 - a2*b1)]

/-- `a·b ≤ |a| r` whenever `|b| ≤ r` (with `n = |a|` given by `n ≥ 0`, `n² = |a|²`) -/
theorem dot_le3 (a1 a2 a3 b1 b2 b3 n r : K) (hn : 0 ≤ n) (hr : 0 ≤ r)
    (hnn : n * n = a1*a1 + a2*a2 + a3*a3) (hb : b1*b1 + b2*b2 + b3*b3 ≤ r * r) :
    a1*b1 + a2*b2 + a3*b3 ≤ n * r := by
  apply le_of_mul_self_le (mul_nonneg hn hr)
  calc _ ≤ (a1*a1 + a2*a2 + a3*a3) * (b1*b1 + b2*b2 + b3*b3) := cs3 ..
    _ ≤ (n * n) * (r * r) := by
        rw [hnn]; exact mul_le_mul_of_nonneg_left hb (by nlinarith [mul_self_nonneg a1, mul_self_nonneg a2, mul_self_nonneg a3])
    _ = n * r * (n * r) := by ring

theorem dot_le2 (a1 a2 b1 b2 n r : K) (hn : 0 ≤ n) (hr : 0 ≤ r)
    (hnn : n * n = a1*a1 + a2*a2) (hb : b1*b1 + b2*b2 ≤ r * r) :
    a1*b1 + a2*b2 ≤ n * r := by
  apply le_of_mul_self_le (mul_nonneg hn hr)
  calc _ ≤ (a1*a1 + a2*a2) * (b1*b1 + b2*b2) := cs2 ..
    _ ≤ (n * n) * (r * r) := by
        rw [hnn]; exact mul_le_mul_of_nonneg_left hb (by nlinarith [mul_self_nonneg a1, mul_self_nonneg a2])
    _ = n * r * (n * r) := by ring

/-- the norm of a non-zero vector is positive -/
theorem norm_pos_of {sq : K → K} (h : LawfulSqrt sq) {s : K} (hs : 0 < s) : 0 < sq s := by
  have h1 := h.nonneg s hs.le
  have h2 := h.sq_mul s hs.le
  rcases h1.lt_or_eq with h3 | h3
  · exact h3
  · rw [← h3] at h2; simp at h2; linarith

theorem sumsq3_pos {x y z : K} (h : x ≠ 0 ∨ y ≠ 0 ∨ z ≠ 0) : 0 < x*x + y*y + z*z := by
  rcases h with h | h | h
  · have := mul_self_pos.mpr h; nlinarith [mul_self_nonneg y, mul_self_nonneg z]
  · have := mul_self_pos.mpr h; nlinarith [mul_self_nonneg x, mul_self_nonneg z]
  · have := mul_self_pos.mpr h; nlinarith [mul_self_nonneg x, mul_self_nonneg y]

theorem sumsq2_pos {x y : K} (h : x ≠ 0 ∨ y ≠ 0) : 0 < x*x + y*y := by
  rcases h with h | h
  · have := mul_self_pos.mpr h; nlinarith [mul_self_nonneg y]
  · have := mul_self_pos.mpr h; nlinarith [mul_self_nonneg x]

end C10
