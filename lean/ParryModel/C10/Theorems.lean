import ParryModel.Field
import ParryModel.C10.Model
/-!
# C10 property theorems: support maps return a member of the shape maximising `dir·p`.
All statements are about the model functions of `C10/Model.lean` at the lawful instance `fieldNum K sq`
(any linearly ordered field `K`; `sq` its square-root operation, constrained by `LawfulSqrt` where used).
Specifications: the `Mem` predicates of `Shapes.lean` and `IsSupport*` below.
-/
namespace C10
open Model Model.C10

variable {K : Type} [Field K] [LinearOrder K] [IsStrictOrderedRing K] (sq : K → K)

/-- **The specification.** `p` is a support point of the set `S` in direction `dir`:
`p ∈ S` and `dir·q ≤ dir·p` for every `q ∈ S`. -/
def IsSupport3 (S : V3 K → Prop) (dir p : V3 K) : Prop :=
  letI := fieldNum K sq
  S p ∧ ∀ q, S q → dir.dot q ≤ dir.dot p
def IsSupport2 (S : V2 K → Prop) (dir p : V2 K) : Prop :=
  letI := fieldNum K sq
  S p ∧ ∀ q, S q → dir.dot q ≤ dir.dot p

/-- at an ordered field `copysign mag sgn` is `-|mag|` for `sgn < 0` and `|mag|` otherwise
(the IEEE negative-zero clause `1/sgn < 0` is subsumed by `sgn < 0`). -/
theorem copysign_field (mag sgn : K) :
    letI := fieldNum K sq
    copysign mag sgn = if sgn < 0 then -|mag| else |mag| := by
  simp only [copysign, fieldNum_nabs]
  have h : (sgn < 0 ∨ 1 / sgn < 0) ↔ sgn < 0 := by
    constructor
    · rintro (h | h)
      · exact h
      · exact one_div_neg.mp h
    · exact Or.inl
  simp only [h]

private theorem cs_mem (h d : K) (hh : 0 ≤ h) :
    -h ≤ (if d < 0 then -|h| else |h|) ∧ (if d < 0 then -|h| else |h|) ≤ h := by
  rw [abs_of_nonneg hh]; split_ifs <;> constructor <;> linarith

private theorem cs_max (h d x : K) (hh : 0 ≤ h) (hx : -h ≤ x ∧ x ≤ h) :
    d * x ≤ d * (if d < 0 then -|h| else |h|) := by
  rw [abs_of_nonneg hh]
  split_ifs with c
  · nlinarith [hx.1]
  · push Not at c; nlinarith [hx.2]

/-- **C10 (cuboid, 3-D)**: for every cuboid with non-negative half-extents and *every* direction (zero
included), `Cuboid::local_support_point` returns a point of the cuboid that maximises `dir·p` over the
cuboid. -/
theorem cuboid_support3 (he dir : V3 K) (hx : 0 ≤ he.x) (hy : 0 ≤ he.y) (hz : 0 ≤ he.z) :
    letI := fieldNum K sq
    IsSupport3 sq (Cuboid3.mk he).Mem dir (cuboidLocal3 he dir) := by
  simp only [IsSupport3, Cuboid3.Mem, cuboidLocal3, copysign_field, V3.dot]
  refine ⟨⟨cs_mem _ _ hx, cs_mem _ _ hy, cs_mem _ _ hz⟩, ?_⟩
  rintro q ⟨h1, h2, h3⟩
  have a := cs_max he.x dir.x q.x hx h1
  have b := cs_max he.y dir.y q.y hy h2
  have c := cs_max he.z dir.z q.z hz h3
  linarith

example : (0:ℚ) ≤ (⟨1, 2, 3⟩ : V3 ℚ).x ∧ (0:ℚ) ≤ (⟨1, 2, 3⟩ : V3 ℚ).y ∧ (0:ℚ) ≤ (⟨1, 2, 3⟩ : V3 ℚ).z := by
  norm_num

/-- **C10 (cuboid, 2-D)**. -/
theorem cuboid_support2 (he dir : V2 K) (hx : 0 ≤ he.x) (hy : 0 ≤ he.y) :
    letI := fieldNum K sq
    IsSupport2 sq (Cuboid2.mk he).Mem dir (cuboidLocal2 he dir) := by
  simp only [IsSupport2, Cuboid2.Mem, cuboidLocal2, copysign_field, V2.dot]
  refine ⟨⟨cs_mem _ _ hx, cs_mem _ _ hy⟩, ?_⟩
  rintro q ⟨h1, h2⟩
  have a := cs_max he.x dir.x q.x hx h1
  have b := cs_max he.y dir.y q.y hy h2
  linarith

end C10
