import ParryModel.C10.Theorems1
import ParryModel.C10.Theorems2
/-! C10 property theorems: `Theorems1.lean` (support maps, cuboid/triangle/segment/cylinder/cone/polygon features) and
`Theorems2.lean` (ConvexPolyhedron features and feature ids, CSO points, guards). -/
