import ParryModel.C10.DriverBase
import ParryModel.C10.DriverPoly
/-! C10 protocol dispatch: `DriverPoly.lean` (ConvexPolyhedron features, CSO points) first, then `DriverBase.lean`. -/
namespace C10
open Proto

def handler (fn : String) : Option Handler :=
  match polyHandler fn with
  | some h => some h
  | none => handlerBase fn

end C10
