import ParryModel.Proto
import ParryModel.C10.Model
/-!
C10 protocol handlers: model evaluation at `Float` (bit-exact correspondence) and exact-`Rat` oracles that
re-judge the implementation's output: membership in the shape + `dir·p` equal to the exact maximum of
`dir·q` over the shape (closed form / brute force over vertices).  Coordinates are never compared by the
oracles (ties are legitimate).
-/
namespace C10
open Model Model.C10 Proto

/-! ### parsing / printing helpers -/
def po3 : P (V3 Float) := do let x ← pfo; let y ← pfo; let z ← pfo; pure ⟨x, y, z⟩
def po2 : P (V2 Float) := do let x ← pfo; let y ← pfo; pure ⟨x, y⟩
def finite2 (v : V2 Float) : Bool := FloatIO.isFinite v.x && FloatIO.isFinite v.y
def fin (x : Float) : Bool := FloatIO.isFinite x

def withOut {α} (p : P α) (out : List String) (k : α → String) : String :=
  match out with
  | "panic" :: _ => "fail panic"
  | _ => match run p out with
    | some a => k a
    | none => "fail unparsable-output"

/-! ### exact helpers -/
def l1n3 (d : V3 Rat) : Rat := rabs d.x + rabs d.y + rabs d.z
def l1n2 (d : V2 Rat) : Rat := rabs d.x + rabs d.y
def rmax (a b : Rat) : Rat := if a < b then b else a
def tol : Rat := tolDefault
/-- `a ≤ b` up to `tol·scale` -/
def leS (a b scale : Rat) : Bool := a ≤ b + tol * scale
/-- `√s ≤ e` up to `tol·scale`, decided without computing a square root -/
def sqrtLeS (s e scale : Rat) : Bool :=
  let e' := e + tol * scale
  0 ≤ e' && s ≤ e' * e'
/-- `e ≤ √s` up to `tol·scale` -/
def leSqrtS (e s scale : Rat) : Bool :=
  let e' := e - tol * scale
  e' ≤ 0 || e' * e' ≤ s

/-- verdict of a support-point oracle: `mem` = the point is in the shape (tolerant), `mx` = exact maximum of
`dir·q` over the shape, `dp` = `dir·p` for the returned point. -/
def judge (mem : Bool) (mx dp scale : Rat) : String :=
  if !mem then "fail not-a-member"
  else if !leS mx dp scale then s!"fail not-maximal max={mx} got={dp}"
  else "pass"

def cuboidOracle3 (he dir : V3 Float) (p : V3 Float) : String :=
  if !(finite3 he && finite3 dir) then "skip nonfinite-input" else
  if !finite3 p then "fail nonfinite-output" else
  let H := q3 he; let D := q3 dir; let Pt := q3 p
  if H.x < 0 || H.y < 0 || H.z < 0 then "skip negative-half-extent" else
  let ext := rmax H.x (rmax H.y H.z)
  let mem := leS (rabs Pt.x) H.x ext && leS (rabs Pt.y) H.y ext && leS (rabs Pt.z) H.z ext
  judge mem (rabs D.x * H.x + rabs D.y * H.y + rabs D.z * H.z) (D.dot Pt) (l1n3 D * ext)

def cuboidOracle2 (he dir : V2 Float) (p : V2 Float) : String :=
  if !(finite2 he && finite2 dir) then "skip nonfinite-input" else
  if !finite2 p then "fail nonfinite-output" else
  let H := q2 he; let D := q2 dir; let Pt := q2 p
  if H.x < 0 || H.y < 0 then "skip negative-half-extent" else
  let ext := rmax H.x H.y
  let mem := leS (rabs Pt.x) H.x ext && leS (rabs Pt.y) H.y ext
  judge mem (rabs D.x * H.x + rabs D.y * H.y) (D.dot Pt) (l1n2 D * ext)

def handler (fn : String) : Option Handler :=
  match fn with
  | "cuboid_local" => some {
      model := fun a => run (do let he ← pv3; let d ← pv3; pend; pure (fv3 (cuboidLocal3 he d))) a
      oracle := fun a o => match run (do let he ← pv3; let d ← pv3; pure (he, d)) a with
        | some (he, d) => withOut po3 o (cuboidOracle3 he d)
        | none => "skip bad-args" }
  | "cuboid2_local" => some {
      model := fun a => run (do let he ← pv2; let d ← pv2; pend; pure (fv2 (cuboidLocal2 he d))) a
      oracle := fun a o => match run (do let he ← pv2; let d ← pv2; pure (he, d)) a with
        | some (he, d) => withOut po2 o (cuboidOracle2 he d)
        | none => "skip bad-args" }
  | _ => none

end C10
