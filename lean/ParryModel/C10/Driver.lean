import ParryModel.Proto
import ParryModel.C10.Model
/-!
C10 protocol handlers: model evaluation at `Float` (bit-exact correspondence) and exact-`Rat` oracles that
re-judge the implementation's output: membership in the shape + `dir·p` equal to the exact maximum of
`dir·q` over the shape (closed form / brute force over vertices).  Coordinates are never compared by the
oracles (ties are legitimate).  Protocol function names are `<shape>_<mode>` (see `harness/src/c10.rs`).
-/
namespace C10
open Model Model.C10 Proto

/-! ### parsing / printing helpers -/
def po3 : P (V3 Float) := do let x ← pfo; let y ← pfo; let z ← pfo; pure ⟨x, y, z⟩
def po2 : P (V2 Float) := do let x ← pfo; let y ← pfo; pure ⟨x, y⟩
def finite2 (v : V2 Float) : Bool := FloatIO.isFinite v.x && FloatIO.isFinite v.y
def fin (x : Float) : Bool := FloatIO.isFinite x
def finiteIso3 (m : Iso3 Float) : Bool := fin m.qi && fin m.qj && fin m.qk && fin m.qw && finite3 m.t
def finiteIso2 (m : Iso2 Float) : Bool := fin m.re && fin m.im && finite2 m.t

def withOut {α} (p : P α) (out : List String) (k : α → String) : String :=
  match out with
  | "panic" :: _ => "fail panic"
  | _ => match run p out with
    | some a => k a
    | none => "fail unparsable-output"

def fo3 : Option (V3 Float) → String
  | some p => fv3 p
  | none => "panic"
def fo2 : Option (V2 Float) → String
  | some p => fv2 p
  | none => "panic"

/-! ### exact helpers -/
def l1n3 (d : V3 Rat) : Rat := rabs d.x + rabs d.y + rabs d.z
def l1n2 (d : V2 Rat) : Rat := rabs d.x + rabs d.y
def rmax (a b : Rat) : Rat := if a < b then b else a
def rmin (a b : Rat) : Rat := if b < a then b else a
def tol : Rat := tolDefault
/-- `a ≤ b` up to `tol·scale` -/
def leS (a b scale : Rat) : Bool := a ≤ b + tol * scale

/-- rational square root with relative error below `2^-49` (integer square root of the scaled numerator);
only used by the oracles, far below their tolerance `1e-9`. -/
def rsqrt (x : Rat) : Rat :=
  if x ≤ 0 then 0 else
    let n : Nat := x.num.toNat * x.den          -- x = n / den²
    let bits := Nat.log2 n
    let k : Nat := if bits < 100 then (100 - bits + 1) / 2 else 0
    ((Nat.sqrt (n * 4 ^ k) : Nat) : Rat) / ((x.den * 2 ^ k : Nat) : Rat)

/-- embed 2-D data in the plane `z = 0` so that one set of exact oracles serves both dimensions -/
def up (v : V2 Rat) : V3 Rat := ⟨v.x, v.y, 0⟩
def norm3 (v : V3 Rat) : Rat := rsqrt v.normSq
def linf3 (v : V3 Rat) : Rat := rmax (rabs v.x) (rmax (rabs v.y) (rabs v.z))

/-- squared distance from `p` to the segment `[a,b]` (exact) -/
def distSqSeg (a b p : V3 Rat) : Rat :=
  let ab := b.sub a; let ap := p.sub a
  let l := ab.normSq
  if l = 0 then ap.normSq else
    let t := rmax 0 (rmin 1 (ap.dot ab / l))
    (ap.sub (ab.smul t)).normSq

/-- tolerant membership in the triangle `abc` (exact barycentric coordinates by least squares; falls back to
the three edges when the triangle is degenerate) -/
def memTri (a b c p : V3 Rat) (slack : Rat) : Bool :=
  let e1 := b.sub a; let e2 := c.sub a; let w := p.sub a
  let d11 := e1.dot e1; let d12 := e1.dot e2; let d22 := e2.dot e2
  let w1 := w.dot e1; let w2 := w.dot e2
  let det := d11 * d22 - d12 * d12
  let onEdges := distSqSeg a b p ≤ slack * slack || distSqSeg a c p ≤ slack * slack || distSqSeg b c p ≤ slack * slack
  if det ≤ 0 then onEdges else
    let u := (d22 * w1 - d12 * w2) / det
    let v := (d11 * w2 - d12 * w1) / det
    let res := (w.sub (e1.smul u)).sub (e2.smul v)
    onEdges || (decide (-tol ≤ u) && decide (-tol ≤ v) && decide (u + v ≤ 1 + tol) && decide (res.normSq ≤ slack * slack))

/-- **Exact specification of a convex set for the oracle**: tolerant membership, exact support value
`h(d) = max_{q∈S} d·q`, and a size bound used to scale tolerances. -/
structure Spec where
  /-- `none` = valid; `some why` = outside the property's domain (oracle skips) -/
  invalid : Option String := none
  mem : V3 Rat → Rat → Bool
  h : V3 Rat → Rat
  ext : Rat

def judge (s : Spec) (D Pt : V3 Rat) (extra : Rat) : String :=
  let size := s.ext + extra
  let scale := l1n3 D * size
  if !s.mem Pt (tol * (1 + size)) then "fail not-a-member"
  else
    let mx := s.h D; let dp := D.dot Pt
    if !leS mx dp scale then s!"fail not-maximal max={mx} got={dp}"
    else if !leS dp mx (2 * l1n3 D * (1 + size)) then s!"fail exceeds-shape-maximum max={mx} got={dp}"
    else "pass"

/-- Minkowski sum with a ball of radius `r`.  A support point `p` of `S ⊕ B(r)` in direction `d` is exactly
`q + r·d/|d|` with `q` a support point of `S` (the ball's maximiser is unique), so `p - r·d/|d|` is judged
against `S`: necessary and sufficient, no over-demand. -/
def judgeRound (s : Spec) (r : Rat) (D Pt : V3 Rat) (extra : Rat) : String :=
  if r < 0 then "skip negative-radius" else
  let n := norm3 D
  if n = 0 then "skip zero-direction" else
  judge s D (Pt.sub (D.smul (r / n))) (extra + r)

def specPoint (c : V3 Rat) : Spec :=
  { mem := fun p sl => (p.sub c).normSq ≤ sl * sl, h := fun d => d.dot c, ext := linf3 c }
def specCuboid (H : V3 Rat) : Spec :=
  { invalid := if H.x < 0 || H.y < 0 || H.z < 0 then some "negative-half-extent" else none
    mem := fun p sl => rabs p.x ≤ H.x + sl && rabs p.y ≤ H.y + sl && rabs p.z ≤ H.z + sl
    h := fun d => rabs d.x * H.x + rabs d.y * H.y + rabs d.z * H.z
    ext := linf3 H }
def specSegment (a b : V3 Rat) : Spec :=
  { mem := fun p sl => distSqSeg a b p ≤ sl * sl
    h := fun d => rmax (d.dot a) (d.dot b)
    ext := rmax (linf3 a) (linf3 b) }
def specTriangle (a b c : V3 Rat) : Spec :=
  { mem := fun p sl => memTri a b c p sl
    h := fun d => rmax (d.dot a) (rmax (d.dot b) (d.dot c))
    ext := rmax (linf3 a) (rmax (linf3 b) (linf3 c)) }
def specCylinder (hh r : Rat) : Spec :=
  { invalid := if hh < 0 || r < 0 then some "negative-extent" else none
    mem := fun p sl => rabs p.y ≤ hh + sl && p.x * p.x + p.z * p.z ≤ (r + sl) * (r + sl)
    h := fun d => r * rsqrt (d.x * d.x + d.z * d.z) + rabs d.y * hh
    ext := rmax hh r }
/-- cone with apex `(0,hh,0)` and base disc of radius `r` at `y = -hh`: `ρ·2hh ≤ r·(hh - y)` -/
def specCone (hh r : Rat) : Spec :=
  { invalid := if hh ≤ 0 || r < 0 then some "degenerate-cone" else none
    mem := fun p sl => rabs p.y ≤ hh + sl &&
      rsqrt (p.x * p.x + p.z * p.z) * (2 * hh) ≤ r * (hh - p.y) + sl * (2 * hh + r)
    h := fun d => rmax (d.y * hh) (r * rsqrt (d.x * d.x + d.z * d.z) - d.y * hh)
    ext := rmax hh r }
/-- convex hull of a point list.  Membership is tested as "is one of the listed points" (the documented
contract of `point_cloud_support_point`; every maximiser set of a linear functional contains a vertex). -/
def specCloud (pts : List (V3 Rat)) : Spec :=
  { invalid := if pts.isEmpty then some "empty-cloud" else none
    mem := fun p sl => pts.any fun v => (p.sub v).normSq ≤ sl * sl
    h := fun d => match pts with
      | [] => 0
      | v :: vs => vs.foldl (fun m w => rmax m (d.dot w)) (d.dot v)
    ext := pts.foldl (fun m w => rmax m (linf3 w)) 0 }

/-! ### shapes of the protocol -/

/-- everything the handler needs about one parsed shape -/
structure Shape3 where
  loc : V3 Float → Option (V3 Float)
  toward : V3 Float → Option (V3 Float)
  posed : Iso3 Float → V3 Float → Option (V3 Float)
  ptoward : Iso3 Float → V3 Float → Option (V3 Float)
  finiteArgs : Bool
  /-- oracle on exact data: direction, returned point, extra scale -/
  judge : V3 Rat → V3 Rat → Rat → String

/-- a shape that uses the trait defaults for `_toward` / posed variants -/
def dflt3 (loc : V3 Float → Option (V3 Float)) (finiteArgs : Bool) (j : V3 Rat → V3 Rat → Rat → String) : Shape3 :=
  { loc := loc, toward := loc
    posed := fun m d => (loc (m.invRot d)).map m.act
    ptoward := fun m d => (loc (m.invRot d)).map m.act
    finiteArgs := finiteArgs, judge := j }

def sjudge (s : Spec) : V3 Rat → V3 Rat → Rat → String := fun D Pt extra =>
  match s.invalid with
  | some why => "skip " ++ why
  | none => judge s D Pt extra
def rjudge (s : Spec) (r : Rat) : V3 Rat → V3 Rat → Rat → String := fun D Pt extra =>
  match s.invalid with
  | some why => "skip " ++ why
  | none => judgeRound s r D Pt extra

/-- RoundShape / DilatedShape over an inner shape given by its `local_support_point_toward` -/
def round3 (innerToward : V3 Float → Option (V3 Float)) (br : Float) (dilated : Bool) (finiteArgs : Bool)
    (j : V3 Rat → V3 Rat → Rat → String) : Shape3 :=
  let tw : V3 Float → Option (V3 Float) := fun d => (innerToward d).map fun p => p.add (d.smul br)
  let lc : V3 Float → Option (V3 Float) := fun d => tw (normalize3 d)
  if dilated then
    -- DilatedShape overrides the posed variants: shape.support_point_toward(m, dir) + dir * radius
    let ptw : Iso3 Float → V3 Float → Option (V3 Float) := fun m d =>
      (innerToward (m.invRot d)).map fun p => (m.act p).add (d.smul br)
    { loc := lc, toward := tw, posed := fun m d => ptw m (normalize3 d), ptoward := ptw
      finiteArgs := finiteArgs && fin br, judge := j }
  else
    { loc := lc, toward := tw
      posed := fun m d => (lc (m.invRot d)).map m.act
      ptoward := fun m d => (tw (m.invRot d)).map m.act
      finiteArgs := finiteArgs && fin br, judge := j }

def ppts3 : P (List (V3 Float)) := plist pv3
def ppts2 : P (List (V2 Float)) := plist pv2
def pidx : P Unit := do let n ← pnat; for _ in [0:3*n] do let _ ← pnat
def up2 (f : V2 Float) : V3 Rat := up (q2 f)

def parseShape3 (shape : String) : Option (P Shape3) :=
  match shape with
  | "ball" => some do
      let r ← pf
      pure { loc := fun d => some (ballLocal3 r d), toward := fun d => some (ballToward3 r d)
             posed := fun m d => some (ballPosed3 r m d), ptoward := fun m d => some (ballPosedToward3 r m d)
             finiteArgs := fin r, judge := rjudge (specPoint ⟨0, 0, 0⟩) (q r) }
  | "cuboid" => some do
      let he ← pv3
      pure (dflt3 (fun d => some (cuboidLocal3 he d)) (finite3 he) (sjudge (specCuboid (q3 he))))
  | "capsule" => some do
      let a ← pv3; let b ← pv3; let r ← pf
      let tw := fun d => some (capsuleToward3 a b r d)
      pure { loc := fun d => some (capsuleLocal3 a b r d), toward := tw
             posed := fun m d => some (m.act (capsuleLocal3 a b r (m.invRot d)))
             ptoward := fun m d => some (m.act (capsuleToward3 a b r (m.invRot d)))
             finiteArgs := finite3 a && finite3 b && fin r, judge := rjudge (specSegment (q3 a) (q3 b)) (q r) }
  | "segment" => some do
      let a ← pv3; let b ← pv3
      pure (dflt3 (fun d => some (segmentLocal3 a b d)) (finite3 a && finite3 b) (sjudge (specSegment (q3 a) (q3 b))))
  | "triangle" => some do
      let a ← pv3; let b ← pv3; let c ← pv3
      pure (dflt3 (fun d => some (triangleLocal3 a b c d)) (finite3 a && finite3 b && finite3 c)
        (sjudge (specTriangle (q3 a) (q3 b) (q3 c))))
  | "cone" => some do
      let hh ← pf; let r ← pf
      pure (dflt3 (fun d => some (coneLocal hh r d)) (fin hh && fin r) (sjudge (specCone (q hh) (q r))))
  | "cylinder" => some do
      let hh ← pf; let r ← pf
      pure (dflt3 (fun d => some (cylinderLocal hh r d)) (fin hh && fin r) (sjudge (specCylinder (q hh) (q r))))
  | "polyhedron" => some do
      let pts ← ppts3; pidx
      pure (dflt3 (fun d => cloudPoint3 d pts) (pts.all finite3) (sjudge (specCloud (pts.map q3))))
  | "roundcuboid" => some do
      let he ← pv3; let br ← pf
      pure (round3 (fun d => some (cuboidLocal3 he d)) br false (finite3 he) (rjudge (specCuboid (q3 he)) (q br)))
  | "roundtriangle" => some do
      let a ← pv3; let b ← pv3; let c ← pv3; let br ← pf
      pure (round3 (fun d => some (triangleLocal3 a b c d)) br false (finite3 a && finite3 b && finite3 c)
        (rjudge (specTriangle (q3 a) (q3 b) (q3 c)) (q br)))
  | "roundcylinder" => some do
      let hh ← pf; let r ← pf; let br ← pf
      pure (round3 (fun d => some (cylinderLocal hh r d)) br false (fin hh && fin r) (rjudge (specCylinder (q hh) (q r)) (q br)))
  | "roundcone" => some do
      let hh ← pf; let r ← pf; let br ← pf
      pure (round3 (fun d => some (coneLocal hh r d)) br false (fin hh && fin r) (rjudge (specCone (q hh) (q r)) (q br)))
  | "roundpolyhedron" => some do
      let pts ← ppts3; pidx; let br ← pf
      pure (round3 (fun d => cloudPoint3 d pts) br false (pts.all finite3) (rjudge (specCloud (pts.map q3)) (q br)))
  | "dilatedcuboid" => some do
      let he ← pv3; let br ← pf
      pure (round3 (fun d => some (cuboidLocal3 he d)) br true (finite3 he) (rjudge (specCuboid (q3 he)) (q br)))
  | "dilatedcapsule" => some do
      let a ← pv3; let b ← pv3; let r ← pf; let br ← pf
      -- the two radii add up: segment ⊕ B(r) ⊕ B(br) = segment ⊕ B(r + br)
      pure (round3 (fun d => some (capsuleToward3 a b r d)) br true (finite3 a && finite3 b && fin r)
        (if q r < 0 then fun _ _ _ => "skip negative-radius" else rjudge (specSegment (q3 a) (q3 b)) (q r + q br)))
  | "constantpoint" => some do
      let p ← pv3
      pure { loc := fun d => some (constantPointLocal p d), toward := fun d => some (constantPointLocal p d)
             posed := fun m d => some (constantPointPosed p m d), ptoward := fun m d => some (constantPointPosed p m d)
             finiteArgs := finite3 p, judge := sjudge (specPoint (q3 p)) }
  | "constantorigin" => some do
      pure { loc := fun d => some (constantOriginLocal d), toward := fun d => some (constantOriginLocal d)
             posed := fun m d => some (constantOriginPosed m d), ptoward := fun m d => some (constantOriginPosed m d)
             finiteArgs := true, judge := sjudge (specPoint ⟨0, 0, 0⟩) }
  | _ => none

/-- 2-D shapes: the model runs in `V2`, the oracle in the plane `z = 0` of the 3-D specs -/
structure Shape2 where
  loc : V2 Float → Option (V2 Float)
  toward : V2 Float → Option (V2 Float)
  posed : Iso2 Float → V2 Float → Option (V2 Float)
  ptoward : Iso2 Float → V2 Float → Option (V2 Float)
  finiteArgs : Bool
  judge : V3 Rat → V3 Rat → Rat → String

def dflt2 (loc : V2 Float → Option (V2 Float)) (finiteArgs : Bool) (j : V3 Rat → V3 Rat → Rat → String) : Shape2 :=
  { loc := loc, toward := loc
    posed := fun m d => (loc (m.invRot d)).map m.act
    ptoward := fun m d => (loc (m.invRot d)).map m.act
    finiteArgs := finiteArgs, judge := j }
def round2 (innerToward : V2 Float → Option (V2 Float)) (br : Float) (finiteArgs : Bool)
    (j : V3 Rat → V3 Rat → Rat → String) : Shape2 :=
  let tw : V2 Float → Option (V2 Float) := fun d => (innerToward d).map fun p => p.add (d.smul br)
  let lc : V2 Float → Option (V2 Float) := fun d => tw (normalize2 d)
  { loc := lc, toward := tw
    posed := fun m d => (lc (m.invRot d)).map m.act
    ptoward := fun m d => (tw (m.invRot d)).map m.act
    finiteArgs := finiteArgs && fin br, judge := j }
/-- the plane `z = 0` as a slab of the 3-D cuboid spec: half-extent 0 in `z` -/
def specCuboid2 (H : V2 Rat) : Spec := specCuboid ⟨H.x, H.y, 0⟩

def parseShape2 (shape : String) : Option (P Shape2) :=
  match shape with
  | "ball2" => some do
      let r ← pf
      pure { loc := fun d => some (ballLocal2 r d), toward := fun d => some (ballToward2 r d)
             posed := fun m d => some (ballPosed2 r m d), ptoward := fun m d => some (ballPosedToward2 r m d)
             finiteArgs := fin r, judge := rjudge (specPoint ⟨0, 0, 0⟩) (q r) }
  | "cuboid2" => some do
      let he ← pv2
      pure (dflt2 (fun d => some (cuboidLocal2 he d)) (finite2 he) (sjudge (specCuboid2 (q2 he))))
  | "capsule2" => some do
      let a ← pv2; let b ← pv2; let r ← pf
      pure { loc := fun d => some (capsuleLocal2 a b r d), toward := fun d => some (capsuleToward2 a b r d)
             posed := fun m d => some (m.act (capsuleLocal2 a b r (m.invRot d)))
             ptoward := fun m d => some (m.act (capsuleToward2 a b r (m.invRot d)))
             finiteArgs := finite2 a && finite2 b && fin r, judge := rjudge (specSegment (up2 a) (up2 b)) (q r) }
  | "segment2" => some do
      let a ← pv2; let b ← pv2
      pure (dflt2 (fun d => some (segmentLocal2 a b d)) (finite2 a && finite2 b) (sjudge (specSegment (up2 a) (up2 b))))
  | "triangle2" => some do
      let a ← pv2; let b ← pv2; let c ← pv2
      pure (dflt2 (fun d => some (triangleLocal2 a b c d)) (finite2 a && finite2 b && finite2 c)
        (sjudge (specTriangle (up2 a) (up2 b) (up2 c))))
  | "polygon" => some do
      let pts ← ppts2
      pure (dflt2 (fun d => cloudPoint2 d pts) (pts.all finite2) (sjudge (specCloud (pts.map up2))))
  | "roundcuboid2" => some do
      let he ← pv2; let br ← pf
      pure (round2 (fun d => some (cuboidLocal2 he d)) br (finite2 he) (rjudge (specCuboid2 (q2 he)) (q br)))
  | "roundpolygon" => some do
      let pts ← ppts2; let br ← pf
      pure (round2 (fun d => cloudPoint2 d pts) br (pts.all finite2) (rjudge (specCloud (pts.map up2)) (q br)))
  | _ => none

/-! ### the four modes -/

/-- directions the property quantifies over: non-zero, and not so small that `|dir|²` underflows -/
def dirVerdict (D : V3 Rat) (unitRequired : Bool) : Option String :=
  let n2 := D.normSq
  if n2 = 0 then some "skip zero-direction"
  else if n2 < 1 / 10 ^ 200 then some "skip direction-underflows"
  else if unitRequired && (rabs (n2 - 1) > 1 / 10 ^ 9) then some "skip non-unit-direction"
  else none

def mode3 (sh : P Shape3) (mode : String) : Option Handler :=
  let posedMode := mode == "posed" || mode == "ptoward"
  let unitMode := mode == "toward" || mode == "ptoward"
  let parse : P (Shape3 × Iso3 Float × V3 Float) := do
    let s ← sh
    let m ← if posedMode then piso3 else pure Iso3.identity
    let d ← pv3; pend
    pure (s, m, d)
  if !(mode == "local" || posedMode || unitMode) then none else some {
    model := fun a => run (do
      let (s, m, d) ← parse
      pure (fo3 (match mode with
        | "local" => s.loc d
        | "toward" => s.toward d
        | "posed" => s.posed m d
        | _ => s.ptoward m d))) a
    oracle := fun a o => match run parse a with
      | none => "skip bad-args"
      | some (s, m, d) =>
        if !(s.finiteArgs && finiteIso3 m && finite3 d) then "skip nonfinite-input" else
        withOut po3 o fun p =>
          if !finite3 p then "fail nonfinite-output" else
          let D := q3 d
          match dirVerdict D unitMode with
          | some v => v
          | none =>
            if posedMode then
              let M := qiso3 m
              s.judge (M.invRot D) (M.invAct (q3 p)) (linf3 M.t)
            else s.judge D (q3 p) 0 }

def mode2 (sh : P Shape2) (mode : String) : Option Handler :=
  let posedMode := mode == "posed" || mode == "ptoward"
  let unitMode := mode == "toward" || mode == "ptoward"
  let parse : P (Shape2 × Iso2 Float × V2 Float) := do
    let s ← sh
    let m ← if posedMode then piso2 else pure Iso2.identity
    let d ← pv2; pend
    pure (s, m, d)
  if !(mode == "local" || posedMode || unitMode) then none else some {
    model := fun a => run (do
      let (s, m, d) ← parse
      pure (fo2 (match mode with
        | "local" => s.loc d
        | "toward" => s.toward d
        | "posed" => s.posed m d
        | _ => s.ptoward m d))) a
    oracle := fun a o => match run parse a with
      | none => "skip bad-args"
      | some (s, m, d) =>
        if !(s.finiteArgs && finiteIso2 m && finite2 d) then "skip nonfinite-input" else
        withOut po2 o fun p =>
          if !finite2 p then "fail nonfinite-output" else
          let D := q2 d
          match dirVerdict (up D) unitMode with
          | some v => v
          | none =>
            if posedMode then
              let M := qiso2 m
              s.judge (up (M.invRot D)) (up (M.invAct (q2 p))) (rmax (rabs M.t.x) (rabs M.t.y))
            else s.judge (up D) (up (q2 p)) 0 }

/-- `point_cloud_support_point_id` / `point_cloud_support_point` on raw clouds -/
def cloudHandler (mode : String) : Option Handler :=
  let parse : P (List (V3 Float) × V3 Float) := do let pts ← ppts3; let d ← pv3; pend; pure (pts, d)
  match mode with
  | "id" => some {
      model := fun a => run (do
        let (pts, d) ← parse
        pure (match cloudId3 d pts with | some i => toString i | none => "panic")) a
      oracle := fun a o => match run parse a with
        | none => "skip bad-args"
        | some (pts, d) =>
          if !(pts.all finite3 && finite3 d) then "skip nonfinite-input" else
          if pts.isEmpty then "skip empty-cloud" else
          withOut pnat o fun i =>
            match pts[i]? with
            | none => "fail index-out-of-range"
            | some p => sjudge (specCloud (pts.map q3)) (q3 d) (q3 p) 0 }
  | "point" => some {
      model := fun a => run (do let (pts, d) ← parse; pure (fo3 (cloudPoint3 d pts))) a
      oracle := fun a o => match run parse a with
        | none => "skip bad-args"
        | some (pts, d) =>
          if !(pts.all finite3 && finite3 d) then "skip nonfinite-input" else
          withOut po3 o fun p =>
            if !finite3 p then "fail nonfinite-output" else sjudge (specCloud (pts.map q3)) (q3 d) (q3 p) 0 }
  | _ => none

def handler (fn : String) : Option Handler :=
  match fn.splitOn "_" with
  | [shape, mode] =>
    if shape == "cloud" then cloudHandler mode else
    match parseShape3 shape with
    | some sh => mode3 sh mode
    | none => match parseShape2 shape with
      | some sh => mode2 sh mode
      | none => none
  | _ => none

end C10
