import ParryModel.Field
import ParryModel.C10.Model
import ParryModel.C10.Lemmas
import Mathlib.Analysis.Real.Sqrt
/-!
# C10 property theorems: support maps return a member of the shape maximising `dir·p`.
All statements are about the model functions of `C10/Model.lean` at the lawful instance `fieldNum K sq`
(any linearly ordered field `K`; `sq` its square-root operation, constrained by `LawfulSqrt` where used).
Specifications: the `Mem` predicates of `Shapes.lean` and `IsSupport*` below.
-/
set_option linter.style.haveILetI false
set_option linter.unusedSectionVars false
set_option linter.unusedSimpArgs false
set_option linter.unusedTactic false
set_option linter.unreachableTactic false

namespace C10
open Model Model.C10

variable {K : Type} [Field K] [LinearOrder K] [IsStrictOrderedRing K] (sq : K → K)

/-- **The specification.** `p` is a support point of the set `S` in direction `dir`:
`p ∈ S` and `dir·q ≤ dir·p` for every `q ∈ S`. -/
def IsSupport3 (S : V3 K → Prop) (dir p : V3 K) : Prop :=
  letI := fieldNum K sq
  S p ∧ ∀ q, S q → dir.dot q ≤ dir.dot p
def IsSupport2 (S : V2 K → Prop) (dir p : V2 K) : Prop :=
  letI := fieldNum K sq
  S p ∧ ∀ q, S q → dir.dot q ≤ dir.dot p

/-- at an ordered field `copysign mag sgn` is `-|mag|` for `sgn < 0` and `|mag|` otherwise
(the IEEE negative-zero clause `1/sgn < 0` is subsumed by `sgn < 0`). -/
theorem copysign_field (mag sgn : K) :
    letI := fieldNum K sq
    copysign mag sgn = if sgn < 0 then -|mag| else |mag| := by
  simp only [copysign, fieldNum_nabs]
  have h : (sgn < 0 ∨ 1 / sgn < 0) ↔ sgn < 0 := by
    constructor
    · rintro (h | h)
      · exact h
      · exact one_div_neg.mp h
    · exact Or.inl
  simp only [h]

private theorem cs_mem (h d : K) (hh : 0 ≤ h) :
    -h ≤ (if d < 0 then -|h| else |h|) ∧ (if d < 0 then -|h| else |h|) ≤ h := by
  rw [abs_of_nonneg hh]; split_ifs <;> constructor <;> linarith

private theorem cs_max (h d x : K) (hh : 0 ≤ h) (hx : -h ≤ x ∧ x ≤ h) :
    d * x ≤ d * (if d < 0 then -|h| else |h|) := by
  rw [abs_of_nonneg hh]
  split_ifs with c
  · nlinarith [hx.1]
  · push Not at c; nlinarith [hx.2]

/-- **C10 (cuboid, 3-D)**: for every cuboid with non-negative half-extents and *every* direction (zero
included), `Cuboid::local_support_point` returns a point of the cuboid that maximises `dir·p` over the
cuboid. -/
theorem cuboid_support3 (he dir : V3 K) (hx : 0 ≤ he.x) (hy : 0 ≤ he.y) (hz : 0 ≤ he.z) :
    letI := fieldNum K sq
    IsSupport3 sq (Cuboid3.mk he).Mem dir (cuboidLocal3 he dir) := by
  simp only [IsSupport3, Cuboid3.Mem, cuboidLocal3, copysign_field, V3.dot]
  refine ⟨⟨cs_mem _ _ hx, cs_mem _ _ hy, cs_mem _ _ hz⟩, ?_⟩
  rintro q ⟨h1, h2, h3⟩
  have a := cs_max he.x dir.x q.x hx h1
  have b := cs_max he.y dir.y q.y hy h2
  have c := cs_max he.z dir.z q.z hz h3
  linarith

example : (0:ℚ) ≤ (⟨1, 2, 3⟩ : V3 ℚ).x ∧ (0:ℚ) ≤ (⟨1, 2, 3⟩ : V3 ℚ).y ∧ (0:ℚ) ≤ (⟨1, 2, 3⟩ : V3 ℚ).z := by
  norm_num

/-- **C10 (cuboid, 2-D)**. -/
theorem cuboid_support2 (he dir : V2 K) (hx : 0 ≤ he.x) (hy : 0 ≤ he.y) :
    letI := fieldNum K sq
    IsSupport2 sq (Cuboid2.mk he).Mem dir (cuboidLocal2 he dir) := by
  simp only [IsSupport2, Cuboid2.Mem, cuboidLocal2, copysign_field, V2.dot]
  refine ⟨⟨cs_mem _ _ hx, cs_mem _ _ hy⟩, ?_⟩
  rintro q ⟨h1, h2⟩
  have a := cs_max he.x dir.x q.x hx h1
  have b := cs_max he.y dir.y q.y hy h2
  linarith

/-! ## segment, triangle: the better vertex -/

section vertices

private theorem seg3_mem_a (a b : V3 K) : letI := fieldNum K sq; (Segment3.mk a b).Mem a := by
  refine ⟨0, le_refl _, zero_le_one, ?_⟩
  simp [V3.add, V3.sub, V3.smul]
private theorem seg3_mem_b (a b : V3 K) : letI := fieldNum K sq; (Segment3.mk a b).Mem b := by
  refine ⟨1, zero_le_one, le_refl _, ?_⟩
  simp [V3.add, V3.sub, V3.smul]
private theorem seg3_max (a b dir q : V3 K) (M : K) :
    letI := fieldNum K sq
    (Segment3.mk a b).Mem q → dir.dot a ≤ M → dir.dot b ≤ M → dir.dot q ≤ M := by
  rintro ⟨t, h0, h1, rfl⟩ ha hb
  simp only [V3.dot, V3.add, V3.sub, V3.smul] at *
  nlinarith [mul_nonneg h0 (sub_nonneg.2 hb), mul_nonneg (sub_nonneg.2 h1) (sub_nonneg.2 ha)]
private theorem seg2_mem_a (a b : V2 K) : letI := fieldNum K sq; (Segment2.mk a b).Mem a := by
  refine ⟨0, le_refl _, zero_le_one, ?_⟩
  simp [V2.add, V2.sub, V2.smul]
private theorem seg2_mem_b (a b : V2 K) : letI := fieldNum K sq; (Segment2.mk a b).Mem b := by
  refine ⟨1, zero_le_one, le_refl _, ?_⟩
  simp [V2.add, V2.sub, V2.smul]
private theorem seg2_max (a b dir q : V2 K) (M : K) :
    letI := fieldNum K sq
    (Segment2.mk a b).Mem q → dir.dot a ≤ M → dir.dot b ≤ M → dir.dot q ≤ M := by
  rintro ⟨t, h0, h1, rfl⟩ ha hb
  simp only [V2.dot, V2.add, V2.sub, V2.smul] at *
  nlinarith [mul_nonneg h0 (sub_nonneg.2 hb), mul_nonneg (sub_nonneg.2 h1) (sub_nonneg.2 ha)]
end vertices

private theorem dot_comm3 (a b : V3 K) : letI := fieldNum K sq; a.dot b = b.dot a := by
  simp only [V3.dot]; ring
private theorem dot_comm2 (a b : V2 K) : letI := fieldNum K sq; a.dot b = b.dot a := by
  simp only [V2.dot]; ring

/-- **C10 (segment, 3-D)**: for every segment and every direction, `Segment::local_support_point` returns a
point of the segment maximising `dir·p` over the whole segment (not only over its two end points). -/
theorem segment_support3 (a b dir : V3 K) :
    letI := fieldNum K sq
    IsSupport3 sq (Segment3.mk a b).Mem dir (segmentLocal3 a b dir) := by
  unfold IsSupport3 segmentLocal3
  by_cases c : (@V3.dot K (fieldNum K sq) b dir) < (@V3.dot K (fieldNum K sq) a dir)
  · rw [if_pos c]
    rw [dot_comm3 sq b, dot_comm3 sq a] at c
    exact ⟨seg3_mem_a sq a b, fun q hq => seg3_max sq a b dir q _ hq (le_refl _) c.le⟩
  · rw [if_neg c]
    rw [dot_comm3 sq b, dot_comm3 sq a] at c
    exact ⟨seg3_mem_b sq a b, fun q hq => seg3_max sq a b dir q _ hq (not_lt.1 c) (le_refl _)⟩

/-- **C10 (segment, 2-D)**. -/
theorem segment_support2 (a b dir : V2 K) :
    letI := fieldNum K sq
    IsSupport2 sq (Segment2.mk a b).Mem dir (segmentLocal2 a b dir) := by
  unfold IsSupport2 segmentLocal2
  by_cases c : (@V2.dot K (fieldNum K sq) b dir) < (@V2.dot K (fieldNum K sq) a dir)
  · rw [if_pos c]
    rw [dot_comm2 sq b, dot_comm2 sq a] at c
    exact ⟨seg2_mem_a sq a b, fun q hq => seg2_max sq a b dir q _ hq (le_refl _) c.le⟩
  · rw [if_neg c]
    rw [dot_comm2 sq b, dot_comm2 sq a] at c
    exact ⟨seg2_mem_b sq a b, fun q hq => seg2_max sq a b dir q _ hq (not_lt.1 c) (le_refl _)⟩

private theorem tri3_mem (a b c : V3 K) :
    letI := fieldNum K sq
    (Triangle3.mk a b c).Mem a ∧ (Triangle3.mk a b c).Mem b ∧ (Triangle3.mk a b c).Mem c := by
  refine ⟨⟨0, 0, ?_⟩, ⟨1, 0, ?_⟩, ⟨0, 1, ?_⟩⟩ <;> simp [V3.add, V3.sub, V3.smul]
private theorem tri3_max (a b c dir q : V3 K) (M : K) :
    letI := fieldNum K sq
    (Triangle3.mk a b c).Mem q → dir.dot a ≤ M → dir.dot b ≤ M → dir.dot c ≤ M → dir.dot q ≤ M := by
  rintro ⟨u, v, h0, h1, h2, rfl⟩ ha hb hc
  simp only [V3.dot, V3.add, V3.sub, V3.smul] at *
  nlinarith [mul_nonneg h0 (sub_nonneg.2 hb), mul_nonneg h1 (sub_nonneg.2 hc), mul_nonneg (sub_nonneg.2 h2) (sub_nonneg.2 ha)]
private theorem tri2_mem (a b c : V2 K) :
    letI := fieldNum K sq
    (Triangle2.mk a b c).Mem a ∧ (Triangle2.mk a b c).Mem b ∧ (Triangle2.mk a b c).Mem c := by
  refine ⟨⟨0, 0, ?_⟩, ⟨1, 0, ?_⟩, ⟨0, 1, ?_⟩⟩ <;> simp [V2.add, V2.sub, V2.smul]
private theorem tri2_max (a b c dir q : V2 K) (M : K) :
    letI := fieldNum K sq
    (Triangle2.mk a b c).Mem q → dir.dot a ≤ M → dir.dot b ≤ M → dir.dot c ≤ M → dir.dot q ≤ M := by
  rintro ⟨u, v, h0, h1, h2, rfl⟩ ha hb hc
  simp only [V2.dot, V2.add, V2.sub, V2.smul] at *
  nlinarith [mul_nonneg h0 (sub_nonneg.2 hb), mul_nonneg h1 (sub_nonneg.2 hc), mul_nonneg (sub_nonneg.2 h2) (sub_nonneg.2 ha)]

/-- **C10 (triangle, 3-D)**: `Triangle::local_support_point` returns a point of the (filled) triangle that
maximises `dir·p` over the whole triangle, for every triangle (degenerate ones included) and direction. -/
theorem triangle_support3 (a b c dir : V3 K) :
    letI := fieldNum K sq
    IsSupport3 sq (Triangle3.mk a b c).Mem dir (triangleLocal3 a b c dir) := by
  obtain ⟨ma, mb, mc⟩ := tri3_mem sq a b c
  unfold IsSupport3 triangleLocal3
  simp only [dot_comm3 sq _ dir]
  split_ifs with c1 c2 c3
  · exact ⟨ma, fun q hq => tri3_max sq a b c dir q _ hq (le_refl _) c1.le c2.le⟩
  · exact ⟨mc, fun q hq => tri3_max sq a b c dir q _ hq (not_lt.1 c2) (c1.le.trans (not_lt.1 c2)) (le_refl _)⟩
  · exact ⟨mb, fun q hq => tri3_max sq a b c dir q _ hq (not_lt.1 c1) (le_refl _) c3.le⟩
  · exact ⟨mc, fun q hq => tri3_max sq a b c dir q _ hq ((not_lt.1 c1).trans (not_lt.1 c3)) (not_lt.1 c3) (le_refl _)⟩

/-- **C10 (triangle, 2-D)**. -/
theorem triangle_support2 (a b c dir : V2 K) :
    letI := fieldNum K sq
    IsSupport2 sq (Triangle2.mk a b c).Mem dir (triangleLocal2 a b c dir) := by
  obtain ⟨ma, mb, mc⟩ := tri2_mem sq a b c
  unfold IsSupport2 triangleLocal2
  simp only [dot_comm2 sq _ dir]
  split_ifs with c1 c2 c3
  · exact ⟨ma, fun q hq => tri2_max sq a b c dir q _ hq (le_refl _) c1.le c2.le⟩
  · exact ⟨mc, fun q hq => tri2_max sq a b c dir q _ hq (not_lt.1 c2) (c1.le.trans (not_lt.1 c2)) (le_refl _)⟩
  · exact ⟨mb, fun q hq => tri2_max sq a b c dir q _ hq (not_lt.1 c1) (le_refl _) c3.le⟩
  · exact ⟨mc, fun q hq => tri2_max sq a b c dir q _ hq ((not_lt.1 c1).trans (not_lt.1 c3)) (not_lt.1 c3) (le_refl _)⟩

/-! ## ball: normalise, then scale -/

/-- `dir · (dir/|dir| · r) = |dir| r` and `|dir/|dir| · r|² = r²` (3-D), for `n = |dir| > 0`. -/
private theorem unit_scale3 (x y z n r : K) (hn : 0 < n) (hnn : n * n = x*x + y*y + z*z) :
    x * (x / n * r) + y * (y / n * r) + z * (z / n * r) = n * r ∧
    (x / n * r) * (x / n * r) + (y / n * r) * (y / n * r) + (z / n * r) * (z / n * r) = r * r := by
  have hne : n ≠ 0 := ne_of_gt hn
  constructor
  · field_simp; linear_combination (-r) * hnn
  · field_simp; linear_combination (-(r^2)) * hnn
private theorem unit_scale2 (x y n r : K) (hn : 0 < n) (hnn : n * n = x*x + y*y) :
    x * (x / n * r) + y * (y / n * r) = n * r ∧
    (x / n * r) * (x / n * r) + (y / n * r) * (y / n * r) = r * r := by
  have hne : n ≠ 0 := ne_of_gt hn
  constructor
  · field_simp; linear_combination (-r) * hnn
  · field_simp; linear_combination (-(r^2)) * hnn

/-- **C10 (ball, 3-D)**: for every radius `r ≥ 0` and every non-zero direction, `Ball::local_support_point`
(= `dir/|dir| · r`) is a point of the ball that maximises `dir·p` over the ball. -/
theorem ball_support3 (hs : LawfulSqrt sq) (r : K) (dir : V3 K) (hr : 0 ≤ r)
    (hd : dir.x ≠ 0 ∨ dir.y ≠ 0 ∨ dir.z ≠ 0) :
    letI := fieldNum K sq
    IsSupport3 sq (Ball.mk r).Mem3 dir (ballLocal3 r dir) := by
  have hpos := sumsq3_pos hd
  have hn := norm_pos_of hs hpos
  have hnn := hs.sq_mul _ hpos.le
  obtain ⟨e1, e2⟩ := unit_scale3 dir.x dir.y dir.z _ r hn hnn
  simp only [IsSupport3, Ball.Mem3, ballLocal3, ballToward3, normalize3, V3.sdiv, V3.smul, V3.norm, V3.normSq, V3.dot]
  refine ⟨le_of_eq e2, fun q hq => ?_⟩
  exact (dot_le3 _ _ _ _ _ _ _ _ hn.le hr hnn hq).trans (le_of_eq e1.symm)

/-- non-vacuity of the `LawfulSqrt` hypothesis used throughout: the real square root is lawful. -/
theorem lawfulSqrt_real : LawfulSqrt Real.sqrt :=
  ⟨fun x _ => Real.sqrt_nonneg x, fun _ hx => Real.mul_self_sqrt hx⟩

example : (0:ℝ) ≤ 2 ∧ ((⟨3, 0, -4⟩ : V3 ℝ).x ≠ 0 ∨ (⟨3, 0, -4⟩ : V3 ℝ).y ≠ 0 ∨ (⟨3, 0, -4⟩ : V3 ℝ).z ≠ 0) := by
  norm_num

/-- **C10 (ball, 2-D)**. -/
theorem ball_support2 (hs : LawfulSqrt sq) (r : K) (dir : V2 K) (hr : 0 ≤ r)
    (hd : dir.x ≠ 0 ∨ dir.y ≠ 0) :
    letI := fieldNum K sq
    IsSupport2 sq (Ball.mk r).Mem2 dir (ballLocal2 r dir) := by
  have hpos := sumsq2_pos hd
  have hn := norm_pos_of hs hpos
  have hnn := hs.sq_mul _ hpos.le
  obtain ⟨e1, e2⟩ := unit_scale2 dir.x dir.y _ r hn hnn
  simp only [IsSupport2, Ball.Mem2, ballLocal2, ballToward2, normalize2, V2.sdiv, V2.smul, V2.norm, V2.normSq, V2.dot]
  refine ⟨le_of_eq e2, fun q hq => ?_⟩
  exact (dot_le2 _ _ _ _ _ _ hn.le hr hnn hq).trans (le_of_eq e1.symm)

/-! ## capsule: better end point + `dir/|dir| · r` -/

/-- **C10 (capsule, 3-D)**: for every capsule (`r ≥ 0`, any end points, coincident ones included) and every
non-zero direction, `Capsule::local_support_point` is a point of the capsule (within `r` of the segment) and
maximises `dir·p` over the capsule. -/
theorem capsule_support3 (hs : LawfulSqrt sq) (a b : V3 K) (r : K) (dir : V3 K) (hr : 0 ≤ r)
    (hd : dir.x ≠ 0 ∨ dir.y ≠ 0 ∨ dir.z ≠ 0) :
    letI := fieldNum K sq
    IsSupport3 sq (Capsule3.mk a b r).Mem dir (capsuleLocal3 a b r dir) := by
  have hpos := sumsq3_pos hd
  have hn := norm_pos_of hs hpos
  have hnn := hs.sq_mul _ hpos.le
  obtain ⟨e1, e2⟩ := unit_scale3 dir.x dir.y dir.z _ r hn hnn
  have hne : sq (dir.x * dir.x + dir.y * dir.y + dir.z * dir.z) ≠ 0 := ne_of_gt hn
  -- `try_new` succeeds on a non-zero direction
  have htn : @tryNew3 K (fieldNum K sq) dir 0 = some (@V3.sdiv K (fieldNum K sq) dir (sq (dir.x * dir.x + dir.y * dir.y + dir.z * dir.z))) := by
    simp only [tryNew3]
    split_ifs with h
    · rfl
    · exact absurd (by simpa [V3.normSq, V3.dot] using hpos) h
  unfold IsSupport3 capsuleLocal3
  rw [htn]
  simp only [Option.getD_some, capsuleToward3]
  -- which end point is chosen agrees with comparing `dir·a` and `dir·b`
  letI : Num K := fieldNum K sq
  set n := sq (dir.x * dir.x + dir.y * dir.y + dir.z * dir.z) with hndef
  have hcmp : ∀ p : V3 K, @V3.dot K (fieldNum K sq) (@V3.sdiv K (fieldNum K sq) dir n) p
      = (@V3.dot K (fieldNum K sq) dir p) / n := by
    intro p; simp only [V3.dot, V3.sdiv]; field_simp
  have mem_of : ∀ e : V3 K, (Segment3.mk a b).Mem e →
      (Capsule3.mk a b r).Mem (@V3.add K (fieldNum K sq) e (@V3.smul K (fieldNum K sq) (@V3.sdiv K (fieldNum K sq) dir n) r)) := by
    intro e he
    refine ⟨e, he, ?_⟩
    simp only [V3.normSq, V3.dot, V3.sub, V3.add, V3.smul, V3.sdiv]
    have : ∀ u v : K, u + v - u = v := fun u v => by ring
    rw [this, this, this]
    exact le_of_eq e2
  have max_of : ∀ e : V3 K, @V3.dot K (fieldNum K sq) dir a ≤ @V3.dot K (fieldNum K sq) dir e →
      @V3.dot K (fieldNum K sq) dir b ≤ @V3.dot K (fieldNum K sq) dir e →
      ∀ q, (Capsule3.mk a b r).Mem q → @V3.dot K (fieldNum K sq) dir q ≤
        @V3.dot K (fieldNum K sq) dir (@V3.add K (fieldNum K sq) e (@V3.smul K (fieldNum K sq) (@V3.sdiv K (fieldNum K sq) dir n) r)) := by
    intro e hea heb q ⟨c, hc, hq⟩
    have h1 := seg3_max sq a b dir c _ hc hea heb
    have h2 := dot_le3 dir.x dir.y dir.z (q.x - c.x) (q.y - c.y) (q.z - c.z) n r hn.le hr hnn
      (by simpa only [V3.normSq, V3.dot, V3.sub] using hq)
    simp only [V3.dot, V3.add, V3.smul, V3.sdiv] at h1 ⊢
    nlinarith [e1]
  split_ifs with c
  · rw [hcmp, hcmp, div_lt_div_iff_of_pos_right hn] at c
    exact ⟨mem_of a (seg3_mem_a sq a b), max_of a (le_refl _) c.le⟩
  · rw [hcmp, hcmp, div_lt_div_iff_of_pos_right hn] at c
    exact ⟨mem_of b (seg3_mem_b sq a b), max_of b (not_lt.1 c) (le_refl _)⟩

/-- **C10 (capsule, 2-D)**. -/
theorem capsule_support2 (hs : LawfulSqrt sq) (a b : V2 K) (r : K) (dir : V2 K) (hr : 0 ≤ r)
    (hd : dir.x ≠ 0 ∨ dir.y ≠ 0) :
    letI := fieldNum K sq
    IsSupport2 sq (Capsule2.mk a b r).Mem dir (capsuleLocal2 a b r dir) := by
  have hpos := sumsq2_pos hd
  have hn := norm_pos_of hs hpos
  have hnn := hs.sq_mul _ hpos.le
  obtain ⟨e1, e2⟩ := unit_scale2 dir.x dir.y _ r hn hnn
  have hne : sq (dir.x * dir.x + dir.y * dir.y) ≠ 0 := ne_of_gt hn
  -- `try_new` succeeds on a non-zero direction
  have htn : @tryNew2 K (fieldNum K sq) dir 0 = some (@V2.sdiv K (fieldNum K sq) dir (sq (dir.x * dir.x + dir.y * dir.y))) := by
    simp only [tryNew2]
    split_ifs with h
    · rfl
    · exact absurd (by simpa [V2.normSq, V2.dot] using hpos) h
  unfold IsSupport2 capsuleLocal2
  rw [htn]
  simp only [Option.getD_some, capsuleToward2]
  -- which end point is chosen agrees with comparing `dir·a` and `dir·b`
  letI : Num K := fieldNum K sq
  set n := sq (dir.x * dir.x + dir.y * dir.y) with hndef
  have hcmp : ∀ p : V2 K, @V2.dot K (fieldNum K sq) (@V2.sdiv K (fieldNum K sq) dir n) p
      = (@V2.dot K (fieldNum K sq) dir p) / n := by
    intro p; simp only [V2.dot, V2.sdiv]; field_simp
  have mem_of : ∀ e : V2 K, (Segment2.mk a b).Mem e →
      (Capsule2.mk a b r).Mem (@V2.add K (fieldNum K sq) e (@V2.smul K (fieldNum K sq) (@V2.sdiv K (fieldNum K sq) dir n) r)) := by
    intro e he
    refine ⟨e, he, ?_⟩
    simp only [V2.normSq, V2.dot, V2.sub, V2.add, V2.smul, V2.sdiv]
    have : ∀ u v : K, u + v - u = v := fun u v => by ring
    rw [this, this]
    exact le_of_eq e2
  have max_of : ∀ e : V2 K, @V2.dot K (fieldNum K sq) dir a ≤ @V2.dot K (fieldNum K sq) dir e →
      @V2.dot K (fieldNum K sq) dir b ≤ @V2.dot K (fieldNum K sq) dir e →
      ∀ q, (Capsule2.mk a b r).Mem q → @V2.dot K (fieldNum K sq) dir q ≤
        @V2.dot K (fieldNum K sq) dir (@V2.add K (fieldNum K sq) e (@V2.smul K (fieldNum K sq) (@V2.sdiv K (fieldNum K sq) dir n) r)) := by
    intro e hea heb q ⟨c, hc, hq⟩
    have h1 := seg2_max sq a b dir c _ hc hea heb
    have h2 := dot_le2 dir.x dir.y (q.x - c.x) (q.y - c.y) n r hn.le hr hnn
      (by simpa only [V2.normSq, V2.dot, V2.sub] using hq)
    simp only [V2.dot, V2.add, V2.smul, V2.sdiv] at h1 ⊢
    nlinarith [e1]
  split_ifs with c
  · rw [hcmp, hcmp, div_lt_div_iff_of_pos_right hn] at c
    exact ⟨mem_of a (seg2_mem_a sq a b), max_of a (le_refl _) c.le⟩
  · rw [hcmp, hcmp, div_lt_div_iff_of_pos_right hn] at c
    exact ⟨mem_of b (seg2_mem_b sq a b), max_of b (not_lt.1 c) (le_refl _)⟩

/-! ## cylinder and cone (3-D only) -/

private theorem csf_mem (h d : K) (hh : 0 ≤ h) :
    letI := fieldNum K sq
    (-h ≤ copysign h d) ∧ copysign h d ≤ h := by
  rw [copysign_field]; exact cs_mem h d hh
private theorem csf_max (h d x : K) (hh : 0 ≤ h) (hx : -h ≤ x ∧ x ≤ h) :
    letI := fieldNum K sq
    d * x ≤ d * copysign h d := by
  rw [copysign_field]; exact cs_max h d x hh hx

private theorem neq_field (a b : K) : letI := fieldNum K sq; (neq a b = true) ↔ a = b := by
  unfold neq
  rw [Bool.and_eq_true, decide_eq_true_iff, decide_eq_true_iff]
  exact le_antisymm_iff.symm

private theorem fieldNum_sqrt (x : K) : @Num.sqrt K (fieldNum K sq) x = sq x := rfl

/-- facts about `n = √(x² + 0² + z²)`, the norm computed by `normalize_mut` after `vres[1] = 0` -/
private theorem xz_norm (hs : LawfulSqrt sq) (x z : K) :
    0 ≤ sq (x * x + 0 * 0 + z * z) ∧ sq (x * x + 0 * 0 + z * z) * sq (x * x + 0 * 0 + z * z) = x * x + z * z := by
  have h0 : 0 ≤ x * x + 0 * 0 + z * z := by nlinarith [mul_self_nonneg x, mul_self_nonneg z]
  refine ⟨hs.nonneg _ h0, ?_⟩
  rw [hs.sq_mul _ h0]; ring

private theorem xz_zero {x z n : K} (hnn : n * n = x * x + z * z) (h : n = 0) : x = 0 ∧ z = 0 := by
  subst h
  have hx := mul_self_nonneg x; have hz := mul_self_nonneg z
  constructor
  · exact mul_self_eq_zero.1 (by nlinarith)
  · exact mul_self_eq_zero.1 (by nlinarith)

/-- **C10 (cylinder)**: for every cylinder (`half_height ≥ 0`, `radius ≥ 0`) and *every* direction,
`Cylinder::local_support_point` is a point of the cylinder maximising `dir·p` over the cylinder. -/
theorem cylinder_support (hs : LawfulSqrt sq) (hh r : K) (dir : V3 K) (hh0 : 0 ≤ hh) (hr : 0 ≤ r) :
    letI := fieldNum K sq
    IsSupport3 sq (Cylinder.mk hh r).Mem dir (cylinderLocal hh r dir) := by
  obtain ⟨hn0, hnn⟩ := xz_norm sq hs dir.x dir.z
  have hcm := csf_mem sq hh dir.y hh0
  have hnorm : @V3.norm K (fieldNum K sq) ⟨dir.x, 0, dir.z⟩ = sq (dir.x * dir.x + 0 * 0 + dir.z * dir.z) := rfl
  rcases Bool.eq_false_or_eq_true (@neq K (fieldNum K sq) (@V3.norm K (fieldNum K sq) ⟨dir.x, 0, dir.z⟩) 0) with hb | hb
  · rw [hnorm] at hb
    have h0 := (neq_field sq _ _).1 hb
    obtain ⟨hx, hz⟩ := xz_zero hnn h0
    simp only [IsSupport3, Cylinder.Mem, cylinderLocal, hnorm, hb, if_true, V3.zero, V3.dot]
    refine ⟨⟨hcm, by nlinarith [mul_self_nonneg r]⟩, ?_⟩
    rintro q ⟨hy, _⟩
    have := csf_max sq hh dir.y q.y hh0 hy
    rw [hx, hz]; linarith
  · rw [hnorm] at hb
    have h0 : sq (dir.x * dir.x + 0 * 0 + dir.z * dir.z) ≠ 0 := by
      intro h; rw [(neq_field sq _ _).2 h] at hb; exact Bool.noConfusion hb
    have hn := lt_of_le_of_ne hn0 (Ne.symm h0)
    obtain ⟨e1, e2⟩ := unit_scale2 dir.x dir.z _ r hn hnn
    simp only [IsSupport3, Cylinder.Mem, cylinderLocal, hnorm, hb, Bool.false_eq_true, if_false, V3.dot, V3.sdiv, V3.smul]
    refine ⟨⟨hcm, le_of_eq e2⟩, ?_⟩
    rintro q ⟨hy, hq⟩
    have h1 := csf_max sq hh dir.y q.y hh0 hy
    have h2 := dot_le2 dir.x dir.z q.x q.z _ r hn.le hr hnn hq
    calc dir.x * q.x + dir.y * q.y + dir.z * q.z = (dir.x * q.x + dir.z * q.z) + dir.y * q.y := by ring
      _ ≤ _ := add_le_add h2 h1
      _ = _ := by rw [← e1]; ring

example : (0:ℝ) ≤ 2 ∧ (0:ℝ) ≤ 1/2 := by norm_num

/-- the heart of the cone case: a linear functional on the cone `{ρ·2hh ≤ r·(hh-y), |y| ≤ hh}` is bounded by
the larger of its values at the apex (`A = dy·hh`) and on the base rim (`B = n·r - dy·hh`). -/
private theorem cone_bound (hh r n dx dy dz qx qy qz : K) (hh0 : 0 < hh) (hr : 0 ≤ r) (hn : 0 ≤ n)
    (hnn : n * n = dx * dx + dz * dz) (hy : -hh ≤ qy ∧ qy ≤ hh)
    (hq : (qx * qx + qz * qz) * ((2 * hh) * (2 * hh)) ≤ (r * r) * ((hh - qy) * (hh - qy))) :
    dx * qx + dy * qy + dz * qz ≤ max (dy * hh) (n * r - dy * hh) := by
  have hs : 0 ≤ hh - qy := by linarith [hy.2]
  -- L·2hh ≤ n·r·(hh - qy)
  have hL : (dx * qx + dz * qz) * (2 * hh) ≤ n * r * (hh - qy) := by
    apply le_of_mul_self_le (mul_nonneg (mul_nonneg hn hr) hs)
    have c := cs2 dx dz qx qz
    have h4 : 0 ≤ (2 * hh) * (2 * hh) := mul_self_nonneg _
    calc (dx * qx + dz * qz) * (2 * hh) * ((dx * qx + dz * qz) * (2 * hh))
        = ((dx * qx + dz * qz) * (dx * qx + dz * qz)) * ((2 * hh) * (2 * hh)) := by ring
      _ ≤ ((dx * dx + dz * dz) * (qx * qx + qz * qz)) * ((2 * hh) * (2 * hh)) :=
          mul_le_mul_of_nonneg_right c h4
      _ = (n * n) * ((qx * qx + qz * qz) * ((2 * hh) * (2 * hh))) := by rw [hnn]; ring
      _ ≤ (n * n) * ((r * r) * ((hh - qy) * (hh - qy))) :=
          mul_le_mul_of_nonneg_left hq (mul_self_nonneg n)
      _ = n * r * (hh - qy) * (n * r * (hh - qy)) := by ring
  -- 2hh·(d·q) ≤ 2hh·A + s·(B - A),  s = hh - qy ∈ [0, 2hh]
  have h2 : 0 < 2 * hh := by linarith
  rcases le_total (n * r - dy * hh) (dy * hh) with hAB | hAB
  · rw [max_eq_left hAB]
    have : (dx * qx + dy * qy + dz * qz) * (2 * hh) ≤ (dy * hh) * (2 * hh) := by
      nlinarith [mul_nonneg hs (sub_nonneg.2 hAB)]
    exact le_of_mul_le_mul_right this h2
  · rw [max_eq_right hAB]
    have hs2 : 0 ≤ 2 * hh - (hh - qy) := by linarith [hy.1]
    have : (dx * qx + dy * qy + dz * qz) * (2 * hh) ≤ (n * r - dy * hh) * (2 * hh) := by
      nlinarith [mul_nonneg hs2 (sub_nonneg.2 hAB)]
    exact le_of_mul_le_mul_right this h2

/-- **C10 (cone)**: for every cone (`half_height > 0`, `radius ≥ 0`; apex at `+half_height`) and *every*
direction, `Cone::local_support_point` is a point of the cone maximising `dir·p` over the cone: the
two-candidate comparison apex / base rim in the code is exhaustive. -/
theorem cone_support (hs : LawfulSqrt sq) (hh r : K) (dir : V3 K) (hh0 : 0 < hh) (hr : 0 ≤ r) :
    letI := fieldNum K sq
    IsSupport3 sq (Cone.mk hh r).Mem dir (coneLocal hh r dir) := by
  obtain ⟨hn0, hnn⟩ := xz_norm sq hs dir.x dir.z
  have hcm := csf_mem sq hh dir.y hh0.le
  have hnorm : @V3.norm K (fieldNum K sq) ⟨dir.x, 0, dir.z⟩ = sq (dir.x * dir.x + 0 * 0 + dir.z * dir.z) := rfl
  have bound := fun q : V3 K => cone_bound hh r _ dir.x dir.y dir.z q.x q.y q.z hh0 hr hn0 hnn
  rcases Bool.eq_false_or_eq_true (@neq K (fieldNum K sq) (@V3.norm K (fieldNum K sq) ⟨dir.x, 0, dir.z⟩) 0) with hb | hb
  · rw [hnorm] at hb
    have h0 := (neq_field sq _ _).1 hb
    obtain ⟨hx, hz⟩ := xz_zero hnn h0
    simp only [IsSupport3, Cone.Mem, coneLocal, hnorm, hb, if_true, V3.dot, fieldNum_two]
    refine ⟨⟨hcm, ?_⟩, ?_⟩
    · have := mul_nonneg (mul_self_nonneg r) (mul_self_nonneg (hh - @copysign K (fieldNum K sq) hh dir.y))
      calc _ = (0:K) := by ring
        _ ≤ _ := this
    · rintro q ⟨hy, _⟩
      have := csf_max sq hh dir.y q.y hh0.le hy
      rw [hx, hz]
      calc _ = dir.y * q.y := by ring
        _ ≤ _ := this
        _ = _ := by ring
  · rw [hnorm] at hb
    have h0 : sq (dir.x * dir.x + 0 * 0 + dir.z * dir.z) ≠ 0 := by
      intro h; rw [(neq_field sq _ _).2 h] at hb; exact Bool.noConfusion hb
    have hn := lt_of_le_of_ne hn0 (Ne.symm h0)
    obtain ⟨e1, e2⟩ := unit_scale2 dir.x dir.z _ r hn hnn
    simp only [IsSupport3, Cone.Mem, coneLocal, hnorm, hb, Bool.false_eq_true, if_false, V3.dot, V3.sdiv, V3.smul,
      fieldNum_two]
    have hB : dir.x * (dir.x / sq (dir.x * dir.x + 0 * 0 + dir.z * dir.z) * r) + dir.y * -hh
        + dir.z * (dir.z / sq (dir.x * dir.x + 0 * 0 + dir.z * dir.z) * r)
        = sq (dir.x * dir.x + 0 * 0 + dir.z * dir.z) * r - dir.y * hh := by rw [← e1]; ring
    rw [hB]
    split_ifs with c
    · refine ⟨⟨⟨by linarith, le_refl _⟩, ?_⟩, ?_⟩
      · calc _ = (0:K) := by ring
          _ ≤ _ := by rw [sub_self]; simp
      · rintro q ⟨hy, hq⟩
        calc _ ≤ _ := bound q hy hq
          _ = dir.y * hh := max_eq_left c.le
          _ = _ := by ring
    · refine ⟨⟨⟨le_refl _, by linarith⟩, ?_⟩, ?_⟩
      · rw [e2]; apply le_of_eq; ring
      · rintro q ⟨hy, hq⟩
        calc _ ≤ _ := bound q hy hq
          _ = _ := max_eq_right (not_lt.1 c)
          _ = _ := hB.symm

example : (0:ℝ) < 3/2 ∧ (0:ℝ) ≤ 1/4 := by norm_num

/-! ## point clouds, convex polyhedra and polygons: first strict maximum over the vertex list -/

/-- **C10 (point cloud / `ConvexPolyhedron`, 3-D)**: for every non-empty point list and every direction,
`point_cloud_support_point_id` returns a valid index `i`; `point_cloud_support_point`
(= `ConvexPolyhedron::local_support_point`) returns `pts[i]`; that point belongs to the convex hull of the
list and maximises `dir·p` over the *whole hull* (not only over the listed points); and `i` is the *first*
index attaining the maximum (every earlier point is strictly worse) — the tie-break of the code. -/
theorem cloud_support3 (dir : V3 K) (pts : List (V3 K)) (hne : pts ≠ []) :
    letI := fieldNum K sq
    ∃ i p, cloudId3 dir pts = some i ∧ pts[i]? = some p ∧ cloudPoint3 dir pts = some p ∧
      IsSupport3 sq (hullMem3 pts) dir p ∧
      (∀ j q, j < i → pts[j]? = some q → dir.dot q < dir.dot p) := by
  cases pts with
  | nil => exact absurd rfl hne
  | cons p0 ps =>
    have hall : ∀ q ∈ [p0], @V3.dot K (fieldNum K sq) q dir ≤ @V3.dot K (fieldNum K sq) p0 dir := by
      intro q hq
      have : q = p0 := by simpa using hq
      subst this; exact le_refl _
    obtain ⟨pr, h1, h2, h3⟩ := cloudGo3_spec sq dir ps [p0] 0 (@V3.dot K (fieldNum K sq) p0 dir)
      ⟨p0, rfl, rfl⟩ hall (by intro j hj; omega)
    simp only [List.length_cons, List.length_nil, Nat.zero_add, List.singleton_append] at h1 h2 h3
    refine ⟨_, pr, rfl, h1, ?_, ⟨hull3_of_getElem sq _ _ _ h1, ?_⟩, ?_⟩
    · simp only [cloudPoint3, cloudId3]; exact h1
    · intro q hq
      refine hull3_le sq dir _ _ q hq (fun v hv => ?_)
      rw [dot_comm3 sq dir v, dot_comm3 sq dir pr]; exact h2 v hv
    · intro j q hj hq
      rw [dot_comm3 sq dir q, dot_comm3 sq dir pr]; exact h3 j hj q hq

example : ([⟨1, 0, 0⟩, ⟨0, 1, 0⟩, ⟨1, 0, 0⟩] : List (V3 ℚ)) ≠ [] := by simp

/-- **C10 (`ConvexPolygon`, 2-D)**: the same for `ConvexPolygon::local_support_point`. -/
theorem cloud_support2 (dir : V2 K) (pts : List (V2 K)) (hne : pts ≠ []) :
    letI := fieldNum K sq
    ∃ i p, cloudId2 dir pts = some i ∧ pts[i]? = some p ∧ cloudPoint2 dir pts = some p ∧
      IsSupport2 sq (hullMem2 pts) dir p ∧
      (∀ j q, j < i → pts[j]? = some q → dir.dot q < dir.dot p) := by
  cases pts with
  | nil => exact absurd rfl hne
  | cons p0 ps =>
    have hall : ∀ q ∈ [p0], @V2.dot K (fieldNum K sq) q dir ≤ @V2.dot K (fieldNum K sq) p0 dir := by
      intro q hq
      have : q = p0 := by simpa using hq
      subst this; exact le_refl _
    obtain ⟨pr, h1, h2, h3⟩ := cloudGo2_spec sq dir ps [p0] 0 (@V2.dot K (fieldNum K sq) p0 dir)
      ⟨p0, rfl, rfl⟩ hall (by intro j hj; omega)
    simp only [List.length_cons, List.length_nil, Nat.zero_add, List.singleton_append] at h1 h2 h3
    refine ⟨_, pr, rfl, h1, ?_, ⟨hull2_of_getElem sq _ _ _ h1, ?_⟩, ?_⟩
    · simp only [cloudPoint2, cloudId2]; exact h1
    · intro q hq
      refine hull2_le sq dir _ _ q hq (fun v hv => ?_)
      rw [dot_comm2 sq dir v, dot_comm2 sq dir pr]; exact h2 v hv
    · intro j q hj hq
      rw [dot_comm2 sq dir q, dot_comm2 sq dir pr]; exact h3 j hj q hq

/-- the only way `point_cloud_support_point_id` fails is the `points[0]` panic on an empty slice -/
theorem cloud_none_iff (dir : V3 K) (pts : List (V3 K)) :
    letI := fieldNum K sq
    cloudId3 dir pts = none ↔ pts = [] := by
  cases pts <;> simp [cloudId3]

/-! ## RoundShape / DilatedShape: Minkowski sum with a ball -/

/-- **C10 (RoundShape / DilatedShape, 3-D)**, generic in the inner shape: let `S` be any set and `inner` any
function that returns a support point of `S` in the *normalised* direction (that is what the code passes to
the inner `local_support_point_toward`).  Then for every border radius `br ≥ 0` and every non-zero direction
`RoundShape::local_support_point` (same code in `DilatedShape`) is a point of `S ⊕ B(br)` maximising `dir·p`
over `S ⊕ B(br)`. -/
theorem round_support3 (hs : LawfulSqrt sq) (S : V3 K → Prop) (inner : V3 K → V3 K) (br : K) (dir : V3 K)
    (hbr : 0 ≤ br) (hd : dir.x ≠ 0 ∨ dir.y ≠ 0 ∨ dir.z ≠ 0) :
    letI := fieldNum K sq
    IsSupport3 sq S (normalize3 dir) (inner (normalize3 dir)) →
    IsSupport3 sq (roundMem3 S br) dir (roundLocal3 inner br dir) := by
  have hpos := sumsq3_pos hd
  have hn := norm_pos_of hs hpos
  have hnn := hs.sq_mul _ hpos.le
  obtain ⟨e1, e2⟩ := unit_scale3 dir.x dir.y dir.z _ br hn hnn
  have hnorm : @normalize3 K (fieldNum K sq) dir
      = @V3.sdiv K (fieldNum K sq) dir (sq (dir.x * dir.x + dir.y * dir.y + dir.z * dir.z)) := rfl
  rintro ⟨hmem, hmax⟩
  rw [hnorm] at hmem hmax
  unfold IsSupport3 roundLocal3 roundToward3
  rw [hnorm]
  set n := sq (dir.x * dir.x + dir.y * dir.y + dir.z * dir.z) with hndef
  set s := inner (@V3.sdiv K (fieldNum K sq) dir n) with hsdef
  have hcmp : ∀ p : V3 K, @V3.dot K (fieldNum K sq) (@V3.sdiv K (fieldNum K sq) dir n) p
      = (@V3.dot K (fieldNum K sq) dir p) / n := by
    intro p; simp only [V3.dot, V3.sdiv]; field_simp
  have hmax' : ∀ q, S q → @V3.dot K (fieldNum K sq) dir q ≤ @V3.dot K (fieldNum K sq) dir s := by
    intro q hq
    have := hmax q hq
    rwa [hcmp, hcmp, div_le_div_iff_of_pos_right hn] at this
  constructor
  · refine ⟨s, hmem, ?_⟩
    simp only [V3.normSq, V3.dot, V3.sub, V3.add, V3.smul, V3.sdiv]
    have : ∀ u v : K, u + v - u = v := fun u v => by ring
    rw [this, this, this]
    exact le_of_eq e2
  · rintro p ⟨c, hc, hp⟩
    have h1 := hmax' c hc
    have h2 := dot_le3 dir.x dir.y dir.z (p.x - c.x) (p.y - c.y) (p.z - c.z) n br hn.le hbr hnn
      (by simpa only [V3.normSq, V3.dot, V3.sub] using hp)
    simp only [V3.dot, V3.add, V3.smul, V3.sdiv] at h1 ⊢
    nlinarith [e1]

/-- **C10 (RoundShape, 2-D)**. -/
theorem round_support2 (hs : LawfulSqrt sq) (S : V2 K → Prop) (inner : V2 K → V2 K) (br : K) (dir : V2 K)
    (hbr : 0 ≤ br) (hd : dir.x ≠ 0 ∨ dir.y ≠ 0) :
    letI := fieldNum K sq
    IsSupport2 sq S (normalize2 dir) (inner (normalize2 dir)) →
    IsSupport2 sq (roundMem2 S br) dir (roundLocal2 inner br dir) := by
  have hpos := sumsq2_pos hd
  have hn := norm_pos_of hs hpos
  have hnn := hs.sq_mul _ hpos.le
  obtain ⟨e1, e2⟩ := unit_scale2 dir.x dir.y _ br hn hnn
  have hnorm : @normalize2 K (fieldNum K sq) dir
      = @V2.sdiv K (fieldNum K sq) dir (sq (dir.x * dir.x + dir.y * dir.y)) := rfl
  rintro ⟨hmem, hmax⟩
  rw [hnorm] at hmem hmax
  unfold IsSupport2 roundLocal2 roundToward2
  rw [hnorm]
  set n := sq (dir.x * dir.x + dir.y * dir.y) with hndef
  set s := inner (@V2.sdiv K (fieldNum K sq) dir n) with hsdef
  have hcmp : ∀ p : V2 K, @V2.dot K (fieldNum K sq) (@V2.sdiv K (fieldNum K sq) dir n) p
      = (@V2.dot K (fieldNum K sq) dir p) / n := by
    intro p; simp only [V2.dot, V2.sdiv]; field_simp
  have hmax' : ∀ q, S q → @V2.dot K (fieldNum K sq) dir q ≤ @V2.dot K (fieldNum K sq) dir s := by
    intro q hq
    have := hmax q hq
    rwa [hcmp, hcmp, div_le_div_iff_of_pos_right hn] at this
  constructor
  · refine ⟨s, hmem, ?_⟩
    simp only [V2.normSq, V2.dot, V2.sub, V2.add, V2.smul, V2.sdiv]
    have : ∀ u v : K, u + v - u = v := fun u v => by ring
    rw [this, this]
    exact le_of_eq e2
  · rintro p ⟨c, hc, hp⟩
    have h1 := hmax' c hc
    have h2 := dot_le2 dir.x dir.y (p.x - c.x) (p.y - c.y) n br hn.le hbr hnn
      (by simpa only [V2.normSq, V2.dot, V2.sub] using hp)
    simp only [V2.dot, V2.add, V2.smul, V2.sdiv] at h1 ⊢
    nlinarith [e1]

/-- **C10 (`RoundCuboid`)**: instance of `round_support3` — a rounded cuboid's support point is a member of
`cuboid ⊕ B(br)` and maximal over it. -/
theorem round_cuboid_support3 (hs : LawfulSqrt sq) (he : V3 K) (br : K) (dir : V3 K)
    (hx : 0 ≤ he.x) (hy : 0 ≤ he.y) (hz : 0 ≤ he.z) (hbr : 0 ≤ br) (hd : dir.x ≠ 0 ∨ dir.y ≠ 0 ∨ dir.z ≠ 0) :
    letI := fieldNum K sq
    IsSupport3 sq (roundMem3 (Cuboid3.mk he).Mem br) dir (roundLocal3 (cuboidLocal3 he) br dir) :=
  round_support3 sq hs _ _ br dir hbr hd (cuboid_support3 sq he _ hx hy hz)

/-- **C10 (`RoundCylinder`)**. -/
theorem round_cylinder_support (hs : LawfulSqrt sq) (hh r br : K) (dir : V3 K)
    (hh0 : 0 ≤ hh) (hr : 0 ≤ r) (hbr : 0 ≤ br) (hd : dir.x ≠ 0 ∨ dir.y ≠ 0 ∨ dir.z ≠ 0) :
    letI := fieldNum K sq
    IsSupport3 sq (roundMem3 (Cylinder.mk hh r).Mem br) dir (roundLocal3 (cylinderLocal hh r) br dir) :=
  round_support3 sq hs _ _ br dir hbr hd (cylinder_support sq hs hh r _ hh0 hr)

/-- **C10 (`RoundCone`)**. -/
theorem round_cone_support (hs : LawfulSqrt sq) (hh r br : K) (dir : V3 K)
    (hh0 : 0 < hh) (hr : 0 ≤ r) (hbr : 0 ≤ br) (hd : dir.x ≠ 0 ∨ dir.y ≠ 0 ∨ dir.z ≠ 0) :
    letI := fieldNum K sq
    IsSupport3 sq (roundMem3 (Cone.mk hh r).Mem br) dir (roundLocal3 (coneLocal hh r) br dir) :=
  round_support3 sq hs _ _ br dir hbr hd (cone_support sq hs hh r _ hh0 hr)

/-- **C10 (`RoundTriangle`)**. -/
theorem round_triangle_support3 (hs : LawfulSqrt sq) (a b c : V3 K) (br : K) (dir : V3 K)
    (hbr : 0 ≤ br) (hd : dir.x ≠ 0 ∨ dir.y ≠ 0 ∨ dir.z ≠ 0) :
    letI := fieldNum K sq
    IsSupport3 sq (roundMem3 (Triangle3.mk a b c).Mem br) dir (roundLocal3 (triangleLocal3 a b c) br dir) :=
  round_support3 sq hs _ _ br dir hbr hd (triangle_support3 sq a b c _)

/-- **C10 (`RoundCuboid`, 2-D)**. -/
theorem round_cuboid_support2 (hs : LawfulSqrt sq) (he : V2 K) (br : K) (dir : V2 K)
    (hx : 0 ≤ he.x) (hy : 0 ≤ he.y) (hbr : 0 ≤ br) (hd : dir.x ≠ 0 ∨ dir.y ≠ 0) :
    letI := fieldNum K sq
    IsSupport2 sq (roundMem2 (Cuboid2.mk he).Mem br) dir (roundLocal2 (cuboidLocal2 he) br dir) :=
  round_support2 sq hs _ _ br dir hbr hd (cuboid_support2 sq he _ hx hy)

/-- **C10 (`RoundConvexPolyhedron`)**: `RoundShape<ConvexPolyhedron>::local_support_point` is the vertex chosen
by the point-cloud argmax in the normalised direction, pushed out by `br` along it, and it is a support point of
`hull(pts) ⊕ B(br)`. -/
theorem round_polyhedron_support (hs : LawfulSqrt sq) (pts : List (V3 K)) (br : K) (dir : V3 K) (hne : pts ≠ [])
    (hbr : 0 ≤ br) (hd : dir.x ≠ 0 ∨ dir.y ≠ 0 ∨ dir.z ≠ 0) :
    letI := fieldNum K sq
    ∃ p, cloudPoint3 (normalize3 dir) pts = some p ∧
      IsSupport3 sq (roundMem3 (hullMem3 pts) br) dir (roundLocal3 (fun _ => p) br dir) := by
  obtain ⟨i, p, _, _, h3, h4, _⟩ := cloud_support3 sq (@normalize3 K (fieldNum K sq) dir) pts hne
  exact ⟨p, h3, round_support3 sq hs _ (fun _ => p) br dir hbr hd h4⟩

/-! ## posed variants: `support_point(m, dir) = m · local_support_point(mᵀ dir)` -/

/-- `dir · (R q) = (Rᵀ dir) · q` for the quaternion sandwich of `Vec.lean` — a polynomial identity, no
unit-norm assumption needed. -/
private theorem dot_rot3 (m : Iso3 K) (dir q : V3 K) :
    letI := fieldNum K sq
    dir.dot (m.rot q) = (m.invRot dir).dot q := by
  simp only [Iso3.rot, Iso3.invRot, Iso3.rotQ, Iso3.qv, V3.dot, V3.cross, V3.smul, V3.add, V3.neg, fieldNum_two]
  ring
private theorem dot_rot2 (m : Iso2 K) (dir q : V2 K) :
    letI := fieldNum K sq
    dir.dot (m.rot q) = (m.invRot dir).dot q := by
  simp only [Iso2.rot, Iso2.invRot, V2.dot]
  ring

/-- **C10 (posed support point, 3-D)**: the trait default `support_point(m, dir)` *is*
`m · local_support_point(mᵀ dir)` (by definition of the model, checked bit-exactly against the code), and
maximisation transfers through the pose: if the local function returns a support point of `S` in direction
`mᵀ dir`, then the posed function returns a support point of the posed set `m·S = {m·q | q ∈ S}` in direction
`dir`.  Holds for every quaternion (not only unit ones) and every translation. -/
theorem posed_support3 (S : V3 K → Prop) (loc : V3 K → V3 K) (m : Iso3 K) (dir : V3 K) :
    letI := fieldNum K sq
    supportPoint3 loc m dir = m.act (loc (m.invRot dir)) ∧
    (IsSupport3 sq S (m.invRot dir) (loc (m.invRot dir)) →
      IsSupport3 sq (fun p => ∃ q, S q ∧ p = m.act q) dir (supportPoint3 loc m dir)) := by
  refine ⟨rfl, ?_⟩
  rintro ⟨hmem, hmax⟩
  refine ⟨⟨_, hmem, rfl⟩, ?_⟩
  rintro p ⟨q, hq, rfl⟩
  have h := hmax q hq
  rw [← dot_rot3 sq, ← dot_rot3 sq] at h
  simp only [supportPoint3, Iso3.act, V3.dot, V3.add] at h ⊢
  linarith

/-- **C10 (posed support point, 2-D)**. -/
theorem posed_support2 (S : V2 K → Prop) (loc : V2 K → V2 K) (m : Iso2 K) (dir : V2 K) :
    letI := fieldNum K sq
    supportPoint2 loc m dir = m.act (loc (m.invRot dir)) ∧
    (IsSupport2 sq S (m.invRot dir) (loc (m.invRot dir)) →
      IsSupport2 sq (fun p => ∃ q, S q ∧ p = m.act q) dir (supportPoint2 loc m dir)) := by
  refine ⟨rfl, ?_⟩
  rintro ⟨hmem, hmax⟩
  refine ⟨⟨_, hmem, rfl⟩, ?_⟩
  rintro p ⟨q, hq, rfl⟩
  have h := hmax q hq
  rw [← dot_rot2 sq, ← dot_rot2 sq] at h
  simp only [supportPoint2, Iso2.act, V2.dot, V2.add] at h ⊢
  linarith

/-! ## `_toward` = plain at a unit direction -/

private theorem sq_one (hs : LawfulSqrt sq) : sq 1 = 1 := by
  have h1 := hs.nonneg 1 zero_le_one
  have h2 := hs.sq_mul 1 zero_le_one
  nlinarith

/-- normalising a unit vector is the identity -/
private theorem normalize3_unit (hs : LawfulSqrt sq) (d : V3 K) :
    letI := fieldNum K sq
    d.normSq = 1 → normalize3 d = d := by
  intro h
  simp only [normalize3, V3.norm, fieldNum_sqrt]
  rw [h, sq_one sq hs]
  cases d; simp [V3.sdiv]
private theorem normalize2_unit (hs : LawfulSqrt sq) (d : V2 K) :
    letI := fieldNum K sq
    d.normSq = 1 → normalize2 d = d := by
  intro h
  simp only [normalize2, V2.norm, fieldNum_sqrt]
  rw [h, sq_one sq hs]
  cases d; simp [V2.sdiv]

/-- **C10 (`_toward` = plain at unit `dir`, 3-D)**: for the shapes that override `local_support_point_toward`
(ball, capsule, RoundShape/DilatedShape over any inner function) the plain variant at a unit direction returns
exactly the `_toward` result.  (All other shapes use the trait default, where `_toward` *is* the plain function.) -/
theorem toward_eq_local3 (hs : LawfulSqrt sq) (d : V3 K) (r : K) (a b : V3 K) (inner : V3 K → V3 K) :
    letI := fieldNum K sq
    d.normSq = 1 →
      ballLocal3 r d = ballToward3 r d ∧
      capsuleLocal3 a b r d = capsuleToward3 a b r d ∧
      roundLocal3 inner r d = roundToward3 inner r d := by
  intro h
  have hn := normalize3_unit sq hs d h
  refine ⟨by unfold ballLocal3; rw [hn], ?_, by unfold roundLocal3; rw [hn]⟩
  have htn : @tryNew3 K (fieldNum K sq) d 0 = some d := by
    simp only [tryNew3, fieldNum_sqrt]
    rw [h, sq_one sq hs, if_pos (by norm_num)]
    cases d; simp [V3.sdiv]
  unfold capsuleLocal3; rw [htn]; rfl

example : (@V3.normSq ℚ (fieldNum ℚ id) ⟨3/5, 0, -4/5⟩) = 1 := by
  simp only [V3.normSq, V3.dot]; norm_num

/-- **C10 (`_toward` = plain at unit `dir`, 2-D)**. -/
theorem toward_eq_local2 (hs : LawfulSqrt sq) (d : V2 K) (r : K) (a b : V2 K) (inner : V2 K → V2 K) :
    letI := fieldNum K sq
    d.normSq = 1 →
      ballLocal2 r d = ballToward2 r d ∧
      capsuleLocal2 a b r d = capsuleToward2 a b r d ∧
      roundLocal2 inner r d = roundToward2 inner r d := by
  intro h
  have hn := normalize2_unit sq hs d h
  refine ⟨by unfold ballLocal2; rw [hn], ?_, by unfold roundLocal2; rw [hn]⟩
  have htn : @tryNew2 K (fieldNum K sq) d 0 = some d := by
    simp only [tryNew2, fieldNum_sqrt]
    rw [h, sq_one sq hs, if_pos (by norm_num)]
    cases d; simp [V2.sdiv]
  unfold capsuleLocal2; rw [htn]; rfl

/-! ## Ball and DilatedShape override the posed variants: they agree with the trait default -/

private theorem v3_ext {a b : V3 K} (hx : a.x = b.x) (hy : a.y = b.y) (hz : a.z = b.z) : a = b := by
  cases a; cases b; simp_all
private theorem v2_ext {a b : V2 K} (hx : a.x = b.x) (hy : a.y = b.y) : a = b := by
  cases a; cases b; simp_all

/-- `R (Rᵀ d) = d` for a unit quaternion -/
private theorem rot_invRot3 (m : Iso3 K) (d : V3 K)
    (hq : m.qi * m.qi + m.qj * m.qj + m.qk * m.qk + m.qw * m.qw = 1) :
    letI := fieldNum K sq
    m.rot (m.invRot d) = d := by
  apply v3_ext <;>
    simp only [Iso3.rot, Iso3.invRot, Iso3.rotQ, Iso3.qv, V3.cross, V3.smul, V3.add, V3.neg, fieldNum_two]
  · linear_combination (-4 * (m.qi * (m.qi * d.x + m.qj * d.y + m.qk * d.z) - (m.qi * m.qi + m.qj * m.qj + m.qk * m.qk) * d.x)) * hq
  · linear_combination (-4 * (m.qj * (m.qi * d.x + m.qj * d.y + m.qk * d.z) - (m.qi * m.qi + m.qj * m.qj + m.qk * m.qk) * d.y)) * hq
  · linear_combination (-4 * (m.qk * (m.qi * d.x + m.qj * d.y + m.qk * d.z) - (m.qi * m.qi + m.qj * m.qj + m.qk * m.qk) * d.z)) * hq

/-- `|Rᵀ d|² = |d|²` for a unit quaternion -/
private theorem normSq_invRot3 (m : Iso3 K) (d : V3 K)
    (hq : m.qi * m.qi + m.qj * m.qj + m.qk * m.qk + m.qw * m.qw = 1) :
    letI := fieldNum K sq
    (m.invRot d).normSq = d.normSq := by
  simp only [Iso3.invRot, Iso3.rotQ, Iso3.qv, V3.normSq, V3.dot, V3.cross, V3.smul, V3.add, V3.neg, fieldNum_two]
  linear_combination (4 * ((m.qj * d.z - m.qk * d.y) * (m.qj * d.z - m.qk * d.y) + (m.qk * d.x - m.qi * d.z) * (m.qk * d.x - m.qi * d.z)
    + (m.qi * d.y - m.qj * d.x) * (m.qi * d.y - m.qj * d.x))) * hq

/-- rotations commute with `v ↦ v / n · r` -/
private theorem rot_scale3 (m : Iso3 K) (v : V3 K) (n r : K) :
    letI := fieldNum K sq
    m.rot ((v.sdiv n).smul r) = ((m.rot v).sdiv n).smul r := by
  apply v3_ext <;>
    simp only [Iso3.rot, Iso3.rotQ, Iso3.qv, V3.cross, V3.smul, V3.sdiv, V3.add, fieldNum_two] <;> ring
private theorem invRot_scale3 (m : Iso3 K) (v : V3 K) (n : K) :
    letI := fieldNum K sq
    m.invRot (v.sdiv n) = (m.invRot v).sdiv n := by
  apply v3_ext <;>
    simp only [Iso3.invRot, Iso3.rotQ, Iso3.qv, V3.cross, V3.smul, V3.sdiv, V3.add, V3.neg, fieldNum_two] <;> ring

private theorem rot_add3 (m : Iso3 K) (a b : V3 K) :
    letI := fieldNum K sq
    m.rot (a.add b) = (m.rot a).add (m.rot b) := by
  apply v3_ext <;>
    simp only [Iso3.rot, Iso3.rotQ, Iso3.qv, V3.cross, V3.smul, V3.add, fieldNum_two] <;> ring

/-- **C10 (Ball, posed)**: `Ball` overrides `support_point` with `translation + dir/|dir| · r`; for every unit
quaternion this equals the trait default `m · local_support_point(mᵀ dir)`, so `posed_support3` applies to it. -/
theorem ball_posed_eq_default3 (r : K) (m : Iso3 K) (dir : V3 K)
    (hq : m.qi * m.qi + m.qj * m.qj + m.qk * m.qk + m.qw * m.qw = 1) :
    letI := fieldNum K sq
    ballPosed3 r m dir = supportPoint3 (ballLocal3 r) m dir := by
  have h1 := normSq_invRot3 sq m dir hq
  simp only [ballPosed3, ballPosedToward3, supportPoint3, ballLocal3, ballToward3, normalize3, V3.norm, Iso3.act]
  rw [h1, rot_scale3 sq, rot_invRot3 sq m dir hq]
  apply v3_ext <;> simp only [V3.add] <;> ring

example : ((0:ℚ) * 0 + (3/5) * (3/5) + 0 * 0 + (4/5) * (4/5) = 1) := by norm_num

/-- **C10 (DilatedShape, posed)**: `DilatedShape` overrides `support_point` with
`inner.support_point_toward(m, d̂) + d̂ · radius` (`d̂ = dir/|dir|`); for every unit quaternion this equals the trait
default `m · local_support_point(mᵀ dir)` of the dilated shape. -/
theorem dilated_posed_eq_default3 (inner : V3 K → V3 K) (rad : K) (m : Iso3 K) (dir : V3 K)
    (hq : m.qi * m.qi + m.qj * m.qj + m.qk * m.qk + m.qw * m.qw = 1) :
    letI := fieldNum K sq
    dilatedPosed3 inner rad m dir = supportPoint3 (roundLocal3 inner rad) m dir := by
  have h1 := normSq_invRot3 sq m dir hq
  simp only [dilatedPosed3, dilatedPosedToward3, supportPointToward3, supportPoint3, roundLocal3, roundToward3,
    normalize3, V3.norm, Iso3.act]
  rw [h1, invRot_scale3 sq, rot_add3 sq, rot_scale3 sq, rot_invRot3 sq m dir hq]
  apply v3_ext <;> simp only [V3.add] <;> ring

/-- **C10 (Ball, posed, 2-D)**: same for a unit complex rotation. -/
theorem ball_posed_eq_default2 (r : K) (m : Iso2 K) (dir : V2 K) (hq : m.re * m.re + m.im * m.im = 1) :
    letI := fieldNum K sq
    ballPosed2 r m dir = supportPoint2 (ballLocal2 r) m dir := by
  have h1 : @V2.normSq K (fieldNum K sq) (@Iso2.invRot K (fieldNum K sq) m dir) = @V2.normSq K (fieldNum K sq) dir := by
    simp only [Iso2.invRot, V2.normSq, V2.dot]
    linear_combination (dir.x * dir.x + dir.y * dir.y) * hq
  simp only [ballPosed2, ballPosedToward2, supportPoint2, ballLocal2, ballToward2, normalize2, V2.norm, Iso2.act]
  rw [h1]
  apply v2_ext <;> simp only [V2.add, V2.smul, V2.sdiv, Iso2.rot, Iso2.invRot]
  · linear_combination (-(dir.x / @Num.sqrt K (fieldNum K sq) (@V2.normSq K (fieldNum K sq) dir) * r)) * hq
  · linear_combination (-(dir.y / @Num.sqrt K (fieldNum K sq) (@V2.normSq K (fieldNum K sq) dir) * r)) * hq

/-! ## feature maps -/

/-- `iamax` returns an index of a component of largest absolute value -/
private theorem iamax3_spec (v : V3 K) :
    letI := fieldNum K sq
    iamax3 v < 3 ∧ |v.x| ≤ |v.get (iamax3 v)| ∧ |v.y| ≤ |v.get (iamax3 v)| ∧ |v.z| ≤ |v.get (iamax3 v)| := by
  simp only [iamax3, fieldNum_nabs, V3.get]
  split_ifs <;> simp_all <;> (try constructor) <;> linarith

/-- `copysign 1 d` is `-1` for `d < 0` and `1` otherwise -/
private theorem copysign_one (d : K) :
    letI := fieldNum K sq
    copysign 1 d = if d < 0 then -1 else 1 := by
  rw [copysign_field]; simp

/-- **C10 (cuboid `support_face`, 3-D)**: for every cuboid with non-negative half-extents and every direction,
with `i = iamax(dir)` the axis chosen by the code:
(1) `|dir_j| ≤ |dir_i|` for every axis `j` (the face normal is the dominant axis of `dir`);
(2) every returned vertex belongs to the cuboid and lies on the supporting plane of that face:
    its `i`-th coordinate is `+he_i` if `dir_i ≥ 0` and `-he_i` if `dir_i < 0`;
(3) the face contains the support point: `Cuboid::local_support_point(dir)` is one of the four vertices —
    so the returned face is a supporting face of the cuboid for `dir`. -/
theorem cuboid_face_vertices3 (he dir : V3 K) (hx : 0 ≤ he.x) (hy : 0 ≤ he.y) (hz : 0 ≤ he.z) :
    letI := fieldNum K sq
    (|dir.x| ≤ |dir.get (iamax3 dir)| ∧ |dir.y| ≤ |dir.get (iamax3 dir)| ∧ |dir.z| ≤ |dir.get (iamax3 dir)|) ∧
    (∀ v ∈ (cuboidSupportFace3 he dir).verts, (Cuboid3.mk he).Mem v ∧
        v.get (iamax3 dir) = if dir.get (iamax3 dir) < 0 then -(he.get (iamax3 dir)) else he.get (iamax3 dir)) ∧
    cuboidLocal3 he dir ∈ (cuboidSupportFace3 he dir).verts := by
  obtain ⟨hi, h1, h2, h3⟩ := iamax3_spec sq dir
  refine ⟨⟨h1, h2, h3⟩, ?_⟩
  unfold cuboidSupportFace3 cuboidLocal3
  simp only [copysign_field, abs_one, abs_of_nonneg hx, abs_of_nonneg hy, abs_of_nonneg hz]
  generalize @iamax3 K (fieldNum K sq) dir = i at hi ⊢
  have hc : i = 0 ∨ i = 1 ∨ i = 2 := by omega
  rcases hc with rfl | rfl | rfl
  · simp only [V3.get, if_true, Cuboid3.Mem, List.mem_cons, List.not_mem_nil, or_false]
    refine ⟨?_, ?_⟩
    · rintro v (rfl | rfl | rfl | rfl) <;> split_ifs <;>
        (refine ⟨⟨⟨?_, ?_⟩, ⟨?_, ?_⟩, ⟨?_, ?_⟩⟩, ?_⟩) <;> simp only [mul_neg, mul_one] <;> linarith
    · split_ifs <;> simp
  · simp only [V3.get, one_ne_zero, if_false, if_true, Cuboid3.Mem, List.mem_cons, List.not_mem_nil, or_false]
    refine ⟨?_, ?_⟩
    · rintro v (rfl | rfl | rfl | rfl) <;> split_ifs <;>
        (refine ⟨⟨⟨?_, ?_⟩, ⟨?_, ?_⟩, ⟨?_, ?_⟩⟩, ?_⟩) <;> simp only [mul_neg, mul_one] <;> linarith
    · split_ifs <;> simp
  · simp only [V3.get, OfNat.ofNat_ne_zero, OfNat.ofNat_ne_one, if_false, Cuboid3.Mem, List.mem_cons, List.not_mem_nil, or_false]
    refine ⟨?_, ?_⟩
    · rintro v (rfl | rfl | rfl | rfl) <;> split_ifs <;>
        (refine ⟨⟨⟨?_, ?_⟩, ⟨?_, ?_⟩, ⟨?_, ?_⟩⟩, ?_⟩) <;> simp only [mul_neg, mul_one] <;> linarith
    · split_ifs <;> simp

private theorem ite_neg_one_lt (d : K) : ((if d < 0 then (-1:K) else 1) < 0) ↔ d < 0 := by
  split_ifs with h <;> simp [h]

/-- sign pattern of a 3-D vertex, as documented in `cuboid.rs`: "a + sign means the corresponding bit is 0 while a
- sign means the corresponding bit is 1; the vertex [2.0, -1.0, -3.0] has the id 0b011". -/
def pat3 (v : V3 K) : Nat := (if v.x < 0 then 4 else 0) + (if v.y < 0 then 2 else 0) + (if v.z < 0 then 1 else 0)

/-- **C10 (cuboid `support_face` feature ids, 3-D; corrected behaviour, see `fixes/C10-cuboid3-face-ids.diff`)**:
for every cuboid with positive half-extents and every direction
(1) each vertex id is twice the sign pattern of *its own* vertex — hence a vertex has the same id whichever face
    returns it, and distinct vertices have distinct ids;
(2) each edge id is `0b11000000 | (hi << 3) | lo` of the sign patterns of its two end vertices (edge `k` joins
    vertices `k` and `k+1 mod 4`);
(3) the face id is `10 + axis` for a face with outward normal `+axis` and `13 + axis` for `-axis`.
On the pinned tree (1) and (3) are false (`sign_index` is inverted): the correspondence check reports it. -/
theorem cuboid_face_ids3 (he dir : V3 K) (hx : 0 < he.x) (hy : 0 < he.y) (hz : 0 < he.z) :
    letI := fieldNum K sq
    (cuboidSupportFace3 he dir).vids = (cuboidSupportFace3 he dir).verts.map (fun v => 2 * pat3 v) ∧
    (cuboidSupportFace3 he dir).eids =
      List.zipWith (fun a b => 192 + 8 * max (a / 2) (b / 2) + min (a / 2) (b / 2))
        (cuboidSupportFace3 he dir).vids ((cuboidSupportFace3 he dir).vids.rotateLeft 1) ∧
    (cuboidSupportFace3 he dir).fid = 10 + iamax3 dir + (if dir.get (iamax3 dir) < 0 then 3 else 0) := by
  obtain ⟨hi, -⟩ := iamax3_spec sq dir
  have nx : ¬ he.x < 0 := not_lt.2 hx.le
  have ny : ¬ he.y < 0 := not_lt.2 hy.le
  have nz : ¬ he.z < 0 := not_lt.2 hz.le
  have px : -he.x < 0 := neg_lt_zero.2 hx
  have py : -he.y < 0 := neg_lt_zero.2 hy
  have pz : -he.z < 0 := neg_lt_zero.2 hz
  unfold cuboidSupportFace3
  simp only [copysign_field, abs_one, ite_neg_one_lt, decide_eq_true_eq]
  generalize @iamax3 K (fieldNum K sq) dir = i at hi ⊢
  have hc : i = 0 ∨ i = 1 ∨ i = 2 := by omega
  rcases hc with rfl | rfl | rfl
  · simp only [V3.get, if_true]
    split_ifs with c <;>
      simp [pat3, c, nx, ny, nz, px, py, pz, List.rotateLeft]
  · simp only [V3.get, one_ne_zero, if_false, if_true]
    split_ifs with c <;>
      simp [pat3, c, nx, ny, nz, px, py, pz, List.rotateLeft]
  · simp only [V3.get, OfNat.ofNat_ne_zero, OfNat.ofNat_ne_one, if_false]
    split_ifs with c <;>
      simp [pat3, c, nx, ny, nz, px, py, pz, List.rotateLeft]

example : (0:ℚ) < (⟨1, 2, 3⟩ : V3 ℚ).x ∧ (0:ℚ) < (⟨1, 2, 3⟩ : V3 ℚ).y ∧ (0:ℚ) < (⟨1, 2, 3⟩ : V3 ℚ).z := by norm_num

private theorem signNeg_field (x : K) : letI := fieldNum K sq; signNeg x = decide (x < 0) := by
  unfold signNeg
  congr 1
  apply propext
  constructor
  · rintro (h | h)
    · exact h
    · exact one_div_neg.mp h
  · exact Or.inl

/-- sign pattern of a 2-D vertex: bit 0 = `x < 0`, bit 1 = `y < 0` -/
def pat2 (v : V2 K) : Nat := (if v.x < 0 then 1 else 0) + (if v.y < 0 then 2 else 0)

/-- **C10 (cuboid `support_face`, 2-D)**: with `i = iamin(dir)` and `j` the other axis (the face normal):
(1) `|dir_i| ≤ |dir_j|`;  (2) both returned vertices belong to the cuboid and lie on the supporting line
`p_j = ±he_j` (sign of `dir_j`);  (3) `Cuboid::local_support_point(dir)` is one of the two vertices. -/
theorem cuboid_face_vertices2 (he dir : V2 K) (hx : 0 ≤ he.x) (hy : 0 ≤ he.y) :
    letI := fieldNum K sq
    |dir.get (iamin2 dir)| ≤ |dir.get ((iamin2 dir + 1) % 2)| ∧
    (∀ v ∈ (cuboidSupportFace2 he dir).verts, (Cuboid2.mk he).Mem v ∧
      v.get ((iamin2 dir + 1) % 2) = if dir.get ((iamin2 dir + 1) % 2) < 0 then -(he.get ((iamin2 dir + 1) % 2))
        else he.get ((iamin2 dir + 1) % 2)) ∧
    cuboidLocal2 he dir ∈ (cuboidSupportFace2 he dir).verts := by
  have key : (@iamin2 K (fieldNum K sq) dir = 1 ∧ |dir.y| < |dir.x|) ∨ (@iamin2 K (fieldNum K sq) dir = 0 ∧ |dir.x| ≤ |dir.y|) := by
    unfold iamin2; simp only [fieldNum_nabs]
    split_ifs with c
    · exact Or.inl ⟨rfl, c⟩
    · exact Or.inr ⟨rfl, not_lt.1 c⟩
  unfold cuboidSupportFace2 cuboidLocal2
  simp only [copysign_field, abs_of_nonneg hx, abs_of_nonneg hy]
  generalize @iamin2 K (fieldNum K sq) dir = i at key ⊢
  rcases key with ⟨rfl, c⟩ | ⟨rfl, c⟩
  · simp only [V2.get, V2.set, V2.zero, Nat.reduceAdd, Nat.reduceMod, one_ne_zero, if_true, if_false, Cuboid2.Mem,
      List.mem_cons, List.not_mem_nil, or_false]
    refine ⟨c.le, ?_, ?_⟩
    · rintro v (rfl | rfl) <;> split_ifs <;> refine ⟨⟨⟨?_, ?_⟩, ⟨?_, ?_⟩⟩, ?_⟩ <;>
        simp only [abs_of_nonneg hx, abs_of_nonneg hy] <;> first | linarith | rfl
    · split_ifs <;> simp [abs_of_nonneg hx, abs_of_nonneg hy]
  · simp only [V2.get, V2.set, V2.zero, Nat.reduceAdd, Nat.reduceMod, one_ne_zero, if_true, if_false, Cuboid2.Mem,
      List.mem_cons, List.not_mem_nil, or_false, zero_add]
    refine ⟨c, ?_, ?_⟩
    · rintro v (rfl | rfl) <;> split_ifs <;> refine ⟨⟨⟨?_, ?_⟩, ⟨?_, ?_⟩⟩, ?_⟩ <;>
        simp only [abs_of_nonneg hx, abs_of_nonneg hy] <;> first | linarith | rfl
    · split_ifs <;> simp [abs_of_nonneg hx, abs_of_nonneg hy]

/-- **C10 (2-D cuboid feature ids; corrected behaviour, see `fixes/C10-cuboid2-vertex-feature-id.diff`)**: for
positive half-extents the two vertex ids are the sign patterns of the two vertices (`[x<0] + 2·[y<0]`, so they
differ), and the face id is `(hi << 2) | lo | 0b110000` of them.  On the pinned f64 tree both ids are 0. -/
theorem cuboid_face_ids2 (he dir : V2 K) (hx : 0 < he.x) (hy : 0 < he.y) :
    letI := fieldNum K sq
    (cuboidSupportFace2 he dir).vids = (cuboidSupportFace2 he dir).verts.map pat2 ∧
    (∃ a b, (cuboidSupportFace2 he dir).vids = [a, b] ∧ a ≠ b ∧
      (cuboidSupportFace2 he dir).fid = max a b * 4 + min a b + 48) := by
  have nx : ¬ he.x < 0 := not_lt.2 hx.le
  have ny : ¬ he.y < 0 := not_lt.2 hy.le
  have px : -he.x < 0 := neg_lt_zero.2 hx
  have py : -he.y < 0 := neg_lt_zero.2 hy
  have key : @iamin2 K (fieldNum K sq) dir = 1 ∨ @iamin2 K (fieldNum K sq) dir = 0 := by
    unfold iamin2; split_ifs <;> simp
  unfold cuboidSupportFace2 vertexFeatureId2
  simp only [copysign_field, signNeg_field, decide_eq_true_eq, abs_of_pos hx, abs_of_pos hy]
  generalize @iamin2 K (fieldNum K sq) dir = i at key ⊢
  rcases key with rfl | rfl
  · simp only [V2.get, V2.set, V2.zero, Nat.reduceAdd, Nat.reduceMod, one_ne_zero, if_true, if_false,
      abs_of_pos hx, abs_of_pos hy]
    by_cases c : dir.x < 0 <;> simp [pat2, c, nx, ny, px, py]
  · simp only [V2.get, V2.set, V2.zero, Nat.reduceAdd, Nat.reduceMod, one_ne_zero, if_true, if_false, zero_add,
      abs_of_pos hx, abs_of_pos hy]
    by_cases c : dir.y < 0 <;> simp [pat2, c, nx, ny, px, py]

/-- **C10 (segment / triangle feature maps)**: `PolygonalFeature::from(Segment)`, `from(Triangle)` (=
`Triangle::support_face` in 3-D) return exactly the shape's own vertices, which are points of the shape. -/
theorem segment_triangle_features (a b c : V3 K) (a2 b2 : V2 K) :
    letI := fieldNum K sq
    ((triangleSupportFace3 a b c).verts = [a, b, c] ∧ ∀ v ∈ (triangleSupportFace3 a b c).verts, (Triangle3.mk a b c).Mem v) ∧
    ((segmentFeature3 a b).verts = [a, b] ∧ ∀ v ∈ (segmentFeature3 a b).verts, (Segment3.mk a b).Mem v) ∧
    ((segmentFeature2 a2 b2).verts = [a2, b2] ∧ ∀ v ∈ (segmentFeature2 a2 b2).verts, (Segment2.mk a2 b2).Mem v) := by
  obtain ⟨ma, mb, mc⟩ := tri3_mem sq a b c
  refine ⟨⟨rfl, ?_⟩, ⟨rfl, ?_⟩, ⟨rfl, ?_⟩⟩
  · intro v hv
    simp only [triangleSupportFace3, List.mem_cons, List.not_mem_nil, or_false] at hv
    rcases hv with h | h | h <;> rw [h] <;> assumption
  · intro v hv
    simp only [segmentFeature3, List.mem_cons, List.not_mem_nil, or_false] at hv
    rcases hv with h | h <;> rw [h]
    · exact seg3_mem_a sq a b
    · exact seg3_mem_b sq a b
  · intro v hv
    simp only [segmentFeature2, List.mem_cons, List.not_mem_nil, or_false] at hv
    rcases hv with h | h <;> rw [h]
    · exact seg2_mem_a sq a2 b2
    · exact seg2_mem_b sq a2 b2

private theorem imin3_spec (v : V3 K) :
    letI := fieldNum K sq
    imin3 v < 3 ∧ v.get (imin3 v) ≤ v.x ∧ v.get (imin3 v) ≤ v.y ∧ v.get (imin3 v) ≤ v.z := by
  simp only [imin3, V3.get]
  split_ifs <;> simp_all <;> (try constructor) <;> linarith

/-- **C10 (`Triangle::local_support_edge_segment`)**: the returned edge is an edge of the triangle (both end
points are triangle vertices, hence points of the triangle) and one of its end points is a support point of
the triangle for `dir` — the edge opposite to the *worst* vertex always contains a best one. -/
theorem triangle_edge_support (a b c dir : V3 K) :
    letI := fieldNum K sq
    ((Triangle3.mk a b c).Mem (triangleSupportEdge3 a b c dir).1 ∧ (Triangle3.mk a b c).Mem (triangleSupportEdge3 a b c dir).2) ∧
    (IsSupport3 sq (Triangle3.mk a b c).Mem dir (triangleSupportEdge3 a b c dir).1 ∨
     IsSupport3 sq (Triangle3.mk a b c).Mem dir (triangleSupportEdge3 a b c dir).2) := by
  obtain ⟨ma, mb, mc⟩ := tri3_mem sq a b c
  obtain ⟨hi, h1, h2, h3⟩ := imin3_spec sq
    (⟨@V3.dot K (fieldNum K sq) dir a, @V3.dot K (fieldNum K sq) dir b, @V3.dot K (fieldNum K sq) dir c⟩ : V3 K)
  unfold triangleSupportEdge3 IsSupport3
  simp only []
  generalize @imin3 K (fieldNum K sq) ⟨@V3.dot K (fieldNum K sq) dir a, @V3.dot K (fieldNum K sq) dir b,
    @V3.dot K (fieldNum K sq) dir c⟩ = i at hi h1 h2 h3 ⊢
  have hc : i = 0 ∨ i = 1 ∨ i = 2 := by omega
  rcases hc with rfl | rfl | rfl
  · simp only [V3.get, if_true] at h1 h2 h3 ⊢
    refine ⟨⟨mb, mc⟩, ?_⟩
    rcases le_total (@V3.dot K (fieldNum K sq) dir b) (@V3.dot K (fieldNum K sq) dir c) with h | h
    · exact Or.inr ⟨mc, fun q hq => tri3_max sq a b c dir q _ hq h3 h (le_refl _)⟩
    · exact Or.inl ⟨mb, fun q hq => tri3_max sq a b c dir q _ hq h2 (le_refl _) h⟩
  · simp only [V3.get, one_ne_zero, if_false, if_true] at h1 h2 h3 ⊢
    refine ⟨⟨mc, ma⟩, ?_⟩
    rcases le_total (@V3.dot K (fieldNum K sq) dir a) (@V3.dot K (fieldNum K sq) dir c) with h | h
    · exact Or.inl ⟨mc, fun q hq => tri3_max sq a b c dir q _ hq h h3 (le_refl _)⟩
    · exact Or.inr ⟨ma, fun q hq => tri3_max sq a b c dir q _ hq (le_refl _) h1 h⟩
  · simp only [V3.get, OfNat.ofNat_ne_zero, OfNat.ofNat_ne_one, if_false] at h1 h2 h3 ⊢
    refine ⟨⟨ma, mb⟩, ?_⟩
    rcases le_total (@V3.dot K (fieldNum K sq) dir a) (@V3.dot K (fieldNum K sq) dir b) with h | h
    · exact Or.inr ⟨mb, fun q hq => tri3_max sq a b c dir q _ hq h (le_refl _) h2⟩
    · exact Or.inl ⟨ma, fun q hq => tri3_max sq a b c dir q _ hq (le_refl _) h h1⟩

/-! ### cylinder / cone feature maps: generator segments and inscribed cap squares -/

private theorem eps_pos : letI := fieldNum K sq; (0:K) < eps := by
  simp only [eps, fieldNum_lit]
  have : (0:ℚ) < mkRat 1 4503599627370496 := by rw [Rat.mkRat_eq_div]; norm_num
  exact_mod_cast this

/-- `dir2` (the normalised `(dir.x, dir.z)`, or the fall-back `(1,0)`) is a unit vector -/
private theorem capDir_unit (hs : LawfulSqrt sq) (dir : V3 K) :
    letI := fieldNum K sq
    (capDir dir).x * (capDir dir).x + (capDir dir).y * (capDir dir).y = 1 := by
  have h0 : 0 ≤ dir.x * dir.x + dir.z * dir.z := by nlinarith [mul_self_nonneg dir.x, mul_self_nonneg dir.z]
  have hnn := hs.sq_mul _ h0
  by_cases c : sq (dir.x * dir.x + dir.z * dir.z) ≤ @eps K (fieldNum K sq)
  · simp [capDir, tryNormalize2, V2.norm, V2.normSq, V2.dot, fieldNum_sqrt, c]
  · have hn : 0 < sq (dir.x * dir.x + dir.z * dir.z) := lt_trans (eps_pos sq) (not_le.1 c)
    have hne := ne_of_gt hn
    simp only [capDir, tryNormalize2, V2.norm, V2.normSq, V2.dot, fieldNum_sqrt, c, if_false, Option.getD_some, V2.sdiv]
    generalize sq (dir.x * dir.x + dir.z * dir.z) = n at hnn hne
    have : dir.x / n * (dir.x / n) + dir.z / n * (dir.z / n) = (dir.x * dir.x + dir.z * dir.z) / (n * n) := by
      field_simp
    rw [this, ← hnn, div_self (mul_ne_zero hne hne)]

/-- **C10 (cylinder `local_support_feature`)**: for `half_height ≥ 0`, `radius ≥ 0` and every direction the
returned feature is, for some point `(p,q)` of the circle `p²+q² = r²`, either the generator segment
`(p,-hh,q)–(p,hh,q)` of the curved part, or the square `(p,y,q),(-q,y,p),(-p,y,-q),(q,y,-p)` inscribed in the cap
circle at `y = ±hh` on the side of `dir.y`; in both cases every vertex is a point of the cylinder (on its rim). -/
theorem cylinder_feature_vertices (hs : LawfulSqrt sq) (hh r : K) (dir : V3 K) (hh0 : 0 ≤ hh) :
    letI := fieldNum K sq
    ∃ p q : K, p * p + q * q = r * r ∧
      ((cylinderFeature hh r dir).verts = [⟨p, -hh, q⟩, ⟨p, hh, q⟩] ∨
       (cylinderFeature hh r dir).verts =
         [⟨p, if dir.y < 0 then -hh else hh, q⟩, ⟨-q, if dir.y < 0 then -hh else hh, p⟩,
          ⟨-p, if dir.y < 0 then -hh else hh, -q⟩, ⟨q, if dir.y < 0 then -hh else hh, -p⟩]) ∧
      ∀ v ∈ (cylinderFeature hh r dir).verts, (Cylinder.mk hh r).Mem v := by
  have hu := capDir_unit sq hs dir
  refine ⟨(@capDir K (fieldNum K sq) dir).x * r, (@capDir K (fieldNum K sq) dir).y * r, by linear_combination (r * r) * hu, ?_⟩
  have hmem : ∀ y : K, (y = hh ∨ y = -hh) → ∀ p q : K, p * p + q * q = r * r →
      @Cylinder.Mem K (fieldNum K sq) (Cylinder.mk hh r) ⟨p, y, q⟩ := by
    intro y hy p q hpq
    refine ⟨?_, le_of_eq hpq⟩
    rcases hy with rfl | rfl <;> constructor <;> linarith
  have hpq := (by linear_combination (r * r) * hu :
    ((@capDir K (fieldNum K sq) dir).x * r) * ((@capDir K (fieldNum K sq) dir).x * r) +
    ((@capDir K (fieldNum K sq) dir).y * r) * ((@capDir K (fieldNum K sq) dir).y * r) = r * r)
  unfold cylinderFeature
  simp only [copysign_field, abs_of_nonneg hh0]
  by_cases c1 : @nabs K (fieldNum K sq) dir.y < @lit K (fieldNum K sq) 1 2
  · simp only [c1, if_true]
    refine ⟨by first | exact Or.inl rfl | exact Or.inl trivial, ?_⟩
    intro v hv
    simp only [List.mem_cons, List.not_mem_nil, or_false] at hv
    rcases hv with h | h <;> rw [h]
    · exact hmem _ (Or.inr rfl) _ _ hpq
    · exact hmem _ (Or.inl rfl) _ _ hpq
  · by_cases c2 : dir.y < 0
    · simp only [c1, c2, if_false, if_true]
      refine ⟨Or.inr (by simp only [neg_mul]), ?_⟩
      intro v hv
      simp only [List.mem_cons, List.not_mem_nil, or_false] at hv
      rcases hv with h | h | h | h <;> rw [h] <;> apply hmem _ (Or.inr rfl) <;> linear_combination hpq
    · simp only [c1, c2, if_false]
      refine ⟨Or.inr (by simp only [neg_mul]), ?_⟩
      intro v hv
      simp only [List.mem_cons, List.not_mem_nil, or_false] at hv
      rcases hv with h | h | h | h <;> rw [h] <;> apply hmem _ (Or.inl rfl) <;> linear_combination hpq

/-- **C10 (cone `local_support_feature`)**: for `half_height > 0` and every direction the returned feature is,
for some `(p,q)` with `p²+q² = r²`, either the generator `(p,-hh,q)–apex` (when `dir.y > 0`) or the square
`(p,-hh,q),(-q,-hh,p),(-p,-hh,-q),(q,-hh,-p)` inscribed in the base circle; every vertex is a point of the cone. -/
theorem cone_feature_vertices (hs : LawfulSqrt sq) (hh r : K) (dir : V3 K) (hh0 : 0 < hh) :
    letI := fieldNum K sq
    ∃ p q : K, p * p + q * q = r * r ∧
      ((coneFeature hh r dir).verts = [⟨p, -hh, q⟩, ⟨0, hh, 0⟩] ∨
       (coneFeature hh r dir).verts = [⟨p, -hh, q⟩, ⟨-q, -hh, p⟩, ⟨-p, -hh, -q⟩, ⟨q, -hh, -p⟩]) ∧
      ∀ v ∈ (coneFeature hh r dir).verts, (Cone.mk hh r).Mem v := by
  have hu := capDir_unit sq hs dir
  have hpq := (by linear_combination (r * r) * hu :
    ((@capDir K (fieldNum K sq) dir).x * r) * ((@capDir K (fieldNum K sq) dir).x * r) +
    ((@capDir K (fieldNum K sq) dir).y * r) * ((@capDir K (fieldNum K sq) dir).y * r) = r * r)
  refine ⟨(@capDir K (fieldNum K sq) dir).x * r, (@capDir K (fieldNum K sq) dir).y * r, hpq, ?_⟩
  have hrim : ∀ p q : K, p * p + q * q = r * r → @Cone.Mem K (fieldNum K sq) (Cone.mk hh r) ⟨p, -hh, q⟩ := by
    intro p q h
    simp only [Cone.Mem, fieldNum_two]
    refine ⟨⟨le_refl _, by linarith⟩, ?_⟩
    rw [h]; apply le_of_eq; ring
  have hapex : @Cone.Mem K (fieldNum K sq) (Cone.mk hh r) ⟨0, hh, 0⟩ := by
    simp only [Cone.Mem, fieldNum_two]
    refine ⟨⟨by linarith, le_refl _⟩, ?_⟩
    apply le_of_eq; ring
  unfold coneFeature
  by_cases c : 0 < dir.y
  · simp only [c, if_true]
    refine ⟨by first | exact Or.inl rfl | exact Or.inl trivial, ?_⟩
    intro v hv
    simp only [List.mem_cons, List.not_mem_nil, or_false] at hv
    rcases hv with h | h <;> rw [h]
    · exact hrim _ _ hpq
    · exact hapex
  · simp only [c, if_false]
    refine ⟨Or.inr (by simp only [neg_mul]), ?_⟩
    intro v hv
    simp only [List.mem_cons, List.not_mem_nil, or_false] at hv
    rcases hv with h | h | h | h <;> rw [h] <;> apply hrim <;> linear_combination hpq

/-! ### convex polygon `local_support_feature` -/

/-- the outward unit normals of the edges `pts[i] → pts[i+1 mod n]` that `ccw_face_normal` accepts -/
def polygonNormals (pts : List (V2 K)) : List (V2 K) :=
  letI := fieldNum K sq
  ((List.range pts.length).map fun i =>
    ccwFaceNormal2 (pts.getD i V2.zero) (pts.getD ((i + 1) % pts.length) V2.zero)).filterMap id

/-- **C10 (`ConvexPolygon::local_support_feature`)**: whenever the feature is produced (polygon accepted by the
constructor), it is the edge `pts[i] → pts[i+1 mod n]` for an index `i < n`: both vertices are vertices of the
polygon, the ids name that edge (`2i`, `2(i+1 mod n)`, face `2i+1`), and `i` is the *first* index whose edge normal
maximises `normal·dir` over all edge normals (the supporting face for `dir`). -/
theorem polygon_feature_spec (pts : List (V2 K)) (dir : V2 K) (f : Feature2 K) :
    letI := fieldNum K sq
    polygonFeature pts dir = some f →
    ∃ i N, i < pts.length ∧ (polygonNormals sq pts)[i]? = some N ∧
      f.verts = [pts.getD i V2.zero, pts.getD ((i + 1) % pts.length) V2.zero] ∧
      (∀ v ∈ f.verts, v ∈ pts) ∧
      f.vids = [i * 2, ((i + 1) % pts.length) * 2] ∧ f.fid = i * 2 + 1 ∧
      (∀ M ∈ polygonNormals sq pts, M.dot dir ≤ N.dot dir) ∧
      (∀ j M, j < i → (polygonNormals sq pts)[j]? = some M → M.dot dir < N.dot dir) := by
  intro h
  unfold polygonFeature at h
  simp only [] at h
  split_ifs at h with c1 c2
  have hlen : (polygonNormals sq pts).length ≤ pts.length := by
    unfold polygonNormals
    exact (List.length_filterMap_le _ _).trans (by simp)
  have hn0 : 0 < pts.length := by omega
  revert h
  change (match polygonNormals sq pts with
    | [] => none
    | n0 :: ns => some _) = some f → _
  cases hN : polygonNormals sq pts with
  | nil => intro h; simp at h
  | cons n0 ns =>
    intro h
    simp only [Option.some.injEq] at h
    have hall : ∀ q ∈ [n0], @V2.dot K (fieldNum K sq) q dir ≤ @V2.dot K (fieldNum K sq) n0 dir := by
      intro q hq
      have : q = n0 := by simpa using hq
      subst this; exact le_refl _
    obtain ⟨pr, h1, h2, h3⟩ := cloudGo2_spec sq dir ns [n0] 0 (@V2.dot K (fieldNum K sq) n0 dir)
      ⟨n0, rfl, rfl⟩ hall (by intro j hj; omega)
    simp only [List.length_cons, List.length_nil, Nat.zero_add, List.singleton_append] at h1 h2 h3
    have hi : @cloudGo2 K (fieldNum K sq) dir ns 1 0 (@V2.dot K (fieldNum K sq) n0 dir) < pts.length := by
      have := (List.getElem?_eq_some_iff.1 h1).1
      rw [hN] at hlen
      omega
    have hi2 : (@cloudGo2 K (fieldNum K sq) dir ns 1 0 (@V2.dot K (fieldNum K sq) n0 dir) + 1) % pts.length < pts.length :=
      Nat.mod_lt _ hn0
    refine ⟨_, pr, hi, h1, ?_, ?_, ?_, ?_, h2, fun j M hj hM => h3 j hj M hM⟩
    · rw [← h]
    · rw [← h]
      intro v hv
      simp only [List.mem_cons, List.not_mem_nil, or_false] at hv
      rcases hv with hv | hv <;> rw [hv]
      · simp only [List.getD_eq_getElem?_getD, List.getElem?_eq_getElem hi, Option.getD_some]; exact List.getElem_mem _
      · simp only [List.getD_eq_getElem?_getD, List.getElem?_eq_getElem hi2, Option.getD_some]; exact List.getElem_mem _
    · rw [← h]
    · rw [← h]

/-! ### `Triangle::support_face` (2-D) -/

/-- unit normal `(t.y, -t.x)/|t|` of the triangle edge with tangent `t` (`none` for a degenerate edge), as
computed by `Unit::try_new(normal, 0.0)` -/
def edgeNormal2 (t : V2 K) : Option (V2 K) :=
  letI := fieldNum K sq
  tryNew2 ⟨t.y, -t.x⟩ 0

private theorem triFaceStep_spec (dir : V2 K) (st : Nat × K) (k : Nat) (t : V2 K) :
    letI := fieldNum K sq
    st.2 ≤ (triFaceStep dir st k t).2 ∧
    (∀ N, edgeNormal2 sq t = some N → N.dot dir ≤ (triFaceStep dir st k t).2) ∧
    (triFaceStep dir st k t = st ∨
      ((triFaceStep dir st k t).1 = k ∧ ∃ N, edgeNormal2 sq t = some N ∧ N.dot dir = (triFaceStep dir st k t).2)) := by
  unfold triFaceStep edgeNormal2
  cases h : @tryNew2 K (fieldNum K sq) ⟨t.y, -t.x⟩ 0 with
  | none => simp
  | some nrm =>
    simp only []
    split_ifs with c
    · refine ⟨c.le, ?_, Or.inr ⟨rfl, nrm, rfl, rfl⟩⟩
      intro N hN; simp only [Option.some.injEq] at hN; rw [← hN]
    · refine ⟨le_refl _, ?_, Or.inl rfl⟩
      intro N hN; simp only [Option.some.injEq] at hN; rw [← hN]; exact not_lt.1 c

/-- **C10 (`Triangle::support_face`, 2-D)**: the returned feature is an edge `i → i+1 mod 3` of the triangle
(`i < 3`; both vertices are triangle vertices, hence points of the triangle; ids `i`, `i+1 mod 3`, face `i`), and
its unit normal maximises `normal·dir` over the non-degenerate edges: there is `best` with `N_k·dir ≤ best` for
every edge `k` with a defined normal, and either no normal exceeds the initial `-MAX` (then `i = 0`, `best =
-MAX`) or the chosen edge `i` has a defined normal with `N_i·dir = best`. -/
theorem triangle2_face_spec (negMax : K) (a b c dir : V2 K) :
    letI := fieldNum K sq
    ∃ i best, i < 3 ∧
      (triangleSupportFace2 negMax a b c dir).verts = [[a, b, c].getD i a, [a, b, c].getD ((i + 1) % 3) a] ∧
      (triangleSupportFace2 negMax a b c dir).vids = [i, (i + 1) % 3] ∧
      (triangleSupportFace2 negMax a b c dir).fid = i ∧
      (∀ v ∈ (triangleSupportFace2 negMax a b c dir).verts, (Triangle2.mk a b c).Mem v) ∧
      (∀ t ∈ [b.sub a, c.sub b, a.sub c], ∀ N, edgeNormal2 sq t = some N → N.dot dir ≤ best) ∧
      ((best = negMax ∧ i = 0) ∨
        ∃ N, edgeNormal2 sq ([b.sub a, c.sub b, a.sub c].getD i (b.sub a)) = some N ∧ N.dot dir = best) := by
  obtain ⟨ma, mb, mc⟩ := tri2_mem sq a b c
  obtain ⟨m1, n1, o1⟩ := triFaceStep_spec sq dir (0, negMax) 0 (@V2.sub K (fieldNum K sq) b a)
  obtain ⟨m2, n2, o2⟩ := triFaceStep_spec sq dir
    (@triFaceStep K (fieldNum K sq) dir (0, negMax) 0 (@V2.sub K (fieldNum K sq) b a)) 1 (@V2.sub K (fieldNum K sq) c b)
  obtain ⟨m3, n3, o3⟩ := triFaceStep_spec sq dir
    (@triFaceStep K (fieldNum K sq) dir (@triFaceStep K (fieldNum K sq) dir (0, negMax) 0 (@V2.sub K (fieldNum K sq) b a)) 1
      (@V2.sub K (fieldNum K sq) c b)) 2 (@V2.sub K (fieldNum K sq) a c)
  unfold triangleSupportFace2
  simp only []
  generalize @triFaceStep K (fieldNum K sq) dir (0, negMax) 0 (@V2.sub K (fieldNum K sq) b a) = s1 at *
  generalize @triFaceStep K (fieldNum K sq) dir s1 1 (@V2.sub K (fieldNum K sq) c b) = s2 at *
  generalize @triFaceStep K (fieldNum K sq) dir s2 2 (@V2.sub K (fieldNum K sq) a c) = s3 at *
  -- where the final index comes from
  have hidx : (s3.1 = 0 ∧ ((s3.2 = negMax ∧ s3 = (0, negMax)) ∨ ∃ N, edgeNormal2 sq (@V2.sub K (fieldNum K sq) b a) = some N ∧
        @V2.dot K (fieldNum K sq) N dir = s3.2)) ∨
      (s3.1 = 1 ∧ ∃ N, edgeNormal2 sq (@V2.sub K (fieldNum K sq) c b) = some N ∧ @V2.dot K (fieldNum K sq) N dir = s3.2) ∨
      (s3.1 = 2 ∧ ∃ N, edgeNormal2 sq (@V2.sub K (fieldNum K sq) a c) = some N ∧ @V2.dot K (fieldNum K sq) N dir = s3.2) := by
    rcases o3 with e3 | ⟨i3, h3⟩
    · rcases o2 with e2 | ⟨i2, h2⟩
      · rcases o1 with e1 | ⟨i1, h1⟩
        · left; rw [e3, e2, e1]; exact ⟨rfl, Or.inl ⟨rfl, rfl⟩⟩
        · left; rw [e3, e2]; exact ⟨i1, Or.inr h1⟩
      · right; left; rw [e3]; exact ⟨i2, h2⟩
    · right; right; exact ⟨i3, h3⟩
  have hbound : ∀ t ∈ [@V2.sub K (fieldNum K sq) b a, @V2.sub K (fieldNum K sq) c b, @V2.sub K (fieldNum K sq) a c],
      ∀ N, edgeNormal2 sq t = some N → @V2.dot K (fieldNum K sq) N dir ≤ s3.2 := by
    intro t ht N hN
    simp only [List.mem_cons, List.not_mem_nil, or_false] at ht
    rcases ht with rfl | rfl | rfl
    · exact (n1 N hN).trans (m2.trans m3)
    · exact (n2 N hN).trans m3
    · exact n3 N hN
  rcases hidx with ⟨hi, hh⟩ | ⟨hi, hh⟩ | ⟨hi, hh⟩
  · refine ⟨0, s3.2, by norm_num, by rw [hi], by rw [hi], by rw [hi], ?_, hbound, ?_⟩
    · rw [hi]; intro v hv
      simp only [List.getD_cons_zero, Nat.zero_add, Nat.one_mod, List.getD_cons_succ, List.mem_cons, List.not_mem_nil, or_false] at hv
      rcases hv with h | h <;> rw [h] <;> assumption
    · rcases hh with ⟨h1, -⟩ | h
      · exact Or.inl ⟨h1, rfl⟩
      · exact Or.inr h
  · refine ⟨1, s3.2, by norm_num, by rw [hi], by rw [hi], by rw [hi], ?_, hbound, Or.inr hh⟩
    rw [hi]; intro v hv
    simp only [List.getD_cons_zero, List.getD_cons_succ, List.mem_cons, List.not_mem_nil, or_false] at hv
    rcases hv with h | h <;> rw [h] <;> assumption
  · refine ⟨2, s3.2, by norm_num, by rw [hi], by rw [hi], by rw [hi], ?_, hbound, Or.inr hh⟩
    rw [hi]; intro v hv
    simp only [List.getD_cons_zero, List.getD_cons_succ, List.mem_cons, List.not_mem_nil, or_false] at hv
    rcases hv with h | h <;> rw [h] <;> assumption

private theorem iamin3_spec (v : V3 K) :
    letI := fieldNum K sq
    iamin3 v < 3 ∧ |v.get (iamin3 v)| ≤ |v.x| ∧ |v.get (iamin3 v)| ≤ |v.y| ∧ |v.get (iamin3 v)| ≤ |v.z| := by
  simp only [iamin3, fieldNum_nabs, V3.get]
  split_ifs <;> simp_all <;> (try constructor) <;> linarith

/-- **C10 (`Cuboid::local_support_edge_segment`, 3-D)**: with `i = iamin(dir)` (the axis along which `dir` is
weakest: `|dir_i| ≤ |dir_j|` for all `j`), both end points of the returned edge are points of the cuboid and the
support point `Cuboid::local_support_point(dir)` is one of them — the edge is a supporting edge for `dir`. -/
theorem cuboid_edge_support3 (he dir : V3 K) (hx : 0 ≤ he.x) (hy : 0 ≤ he.y) (hz : 0 ≤ he.z) :
    letI := fieldNum K sq
    (|dir.get (iamin3 dir)| ≤ |dir.x| ∧ |dir.get (iamin3 dir)| ≤ |dir.y| ∧ |dir.get (iamin3 dir)| ≤ |dir.z|) ∧
    (Cuboid3.mk he).Mem (cuboidSupportEdge3 he dir).1 ∧ (Cuboid3.mk he).Mem (cuboidSupportEdge3 he dir).2 ∧
    (cuboidLocal3 he dir = (cuboidSupportEdge3 he dir).1 ∨ cuboidLocal3 he dir = (cuboidSupportEdge3 he dir).2) := by
  obtain ⟨hi, h1, h2, h3⟩ := iamin3_spec sq dir
  refine ⟨⟨h1, h2, h3⟩, ?_⟩
  unfold cuboidSupportEdge3 cuboidLocal3
  simp only [copysign_field]
  generalize @iamin3 K (fieldNum K sq) dir = i at hi ⊢
  have hc : i = 0 ∨ i = 1 ∨ i = 2 := by omega
  rcases hc with rfl | rfl | rfl
  · simp only [V3.get, V3.set, V3.zero, Nat.reduceAdd, Nat.reduceMod, one_ne_zero, OfNat.ofNat_ne_zero, OfNat.ofNat_ne_one,
      if_true, if_false, Cuboid3.Mem, abs_of_nonneg hx, abs_of_nonneg hy, abs_of_nonneg hz, zero_add]
    refine ⟨?_, ?_, ?_⟩
    · split_ifs <;> refine ⟨⟨?_, ?_⟩, ⟨?_, ?_⟩, ⟨?_, ?_⟩⟩ <;> linarith
    · split_ifs <;> refine ⟨⟨?_, ?_⟩, ⟨?_, ?_⟩, ⟨?_, ?_⟩⟩ <;> linarith
    · split_ifs <;> simp
  · simp only [V3.get, V3.set, V3.zero, Nat.reduceAdd, Nat.reduceMod, one_ne_zero, OfNat.ofNat_ne_zero, OfNat.ofNat_ne_one,
      if_true, if_false, Cuboid3.Mem, abs_of_nonneg hx, abs_of_nonneg hy, abs_of_nonneg hz, zero_add]
    refine ⟨?_, ?_, ?_⟩
    · split_ifs <;> refine ⟨⟨?_, ?_⟩, ⟨?_, ?_⟩, ⟨?_, ?_⟩⟩ <;> linarith
    · split_ifs <;> refine ⟨⟨?_, ?_⟩, ⟨?_, ?_⟩, ⟨?_, ?_⟩⟩ <;> linarith
    · split_ifs <;> simp
  · simp only [V3.get, V3.set, V3.zero, Nat.reduceAdd, Nat.reduceMod, one_ne_zero, OfNat.ofNat_ne_zero, OfNat.ofNat_ne_one,
      if_true, if_false, Cuboid3.Mem, abs_of_nonneg hx, abs_of_nonneg hy, abs_of_nonneg hz, zero_add]
    refine ⟨?_, ?_, ?_⟩
    · split_ifs <;> refine ⟨⟨?_, ?_⟩, ⟨?_, ?_⟩, ⟨?_, ?_⟩⟩ <;> linarith
    · split_ifs <;> refine ⟨⟨?_, ?_⟩, ⟨?_, ?_⟩, ⟨?_, ?_⟩⟩ <;> linarith
    · split_ifs <;> simp

/-! ## worked instances of the generic theorems (also their non-vacuity) -/

/-- **C10 (posed cuboid)**: `Cuboid::support_point(m, dir)` is a point of the posed cuboid `m·C` and maximises
`dir·p` over it, for every pose and every direction (instance of `posed_support3` + `cuboid_support3`). -/
theorem posed_cuboid_support3 (he : V3 K) (m : Iso3 K) (dir : V3 K) (hx : 0 ≤ he.x) (hy : 0 ≤ he.y) (hz : 0 ≤ he.z) :
    letI := fieldNum K sq
    IsSupport3 sq (fun p => ∃ q, (Cuboid3.mk he).Mem q ∧ p = m.act q) dir (supportPoint3 (cuboidLocal3 he) m dir) :=
  (posed_support3 sq _ _ m dir).2 (cuboid_support3 sq he _ hx hy hz)

/-- **C10 (posed ball)**: the overriding `Ball::support_point(m, dir) = translation + dir/|dir|·r` is a point of
the posed ball and maximises `dir·p` over it, for every unit rotation and non-zero direction
(`ball_posed_eq_default3` + `posed_support3` + `ball_support3`). -/
theorem posed_ball_support3 (hs : LawfulSqrt sq) (r : K) (m : Iso3 K) (dir : V3 K) (hr : 0 ≤ r)
    (hq : m.qi * m.qi + m.qj * m.qj + m.qk * m.qk + m.qw * m.qw = 1)
    (hd : dir.x ≠ 0 ∨ dir.y ≠ 0 ∨ dir.z ≠ 0) :
    letI := fieldNum K sq
    IsSupport3 sq (fun p => ∃ q, (Ball.mk r).Mem3 q ∧ p = m.act q) dir (ballPosed3 r m dir) := by
  rw [ball_posed_eq_default3 sq r m dir hq]
  refine (posed_support3 sq _ _ m dir).2 (ball_support3 sq hs r _ hr ?_)
  -- `mᵀ dir ≠ 0` because `|mᵀ dir|² = |dir|² > 0`
  have h1 := normSq_invRot3 sq m dir hq
  have hpos := sumsq3_pos hd
  by_contra hc
  push Not at hc
  obtain ⟨h0x, h0y, h0z⟩ := hc
  simp only [V3.normSq, V3.dot] at h1
  rw [h0x, h0y, h0z] at h1
  nlinarith

example : ((3/5 : ℝ) * (3/5) + 0 * 0 + (4/5) * (4/5) + 0 * 0 = 1) ∧ (0:ℝ) ≤ 2 := by norm_num

/-- **C10 (`ConstantPoint`, `ConstantOrigin`)**: the constant support maps return the unique point of the
singleton they stand for (trivially maximal), locally and posed. -/
theorem constant_support (p : V3 K) (m : Iso3 K) (dir : V3 K) :
    letI := fieldNum K sq
    IsSupport3 sq (fun q => q = p) dir (constantPointLocal p dir) ∧
    IsSupport3 sq (fun q => ∃ q0, q0 = p ∧ q = m.act q0) dir (constantPointPosed p m dir) ∧
    IsSupport3 sq (fun q => q = ⟨0, 0, 0⟩) dir (constantOriginLocal dir) ∧
    constantOriginPosed m dir = m.act (constantOriginLocal (m.invRot dir)) := by
  refine ⟨⟨rfl, ?_⟩, ⟨⟨p, rfl, rfl⟩, ?_⟩, ⟨rfl, ?_⟩, ?_⟩
  · rintro q rfl; exact le_refl _
  · rintro q ⟨q0, rfl, rfl⟩; exact le_refl _
  · rintro q rfl; exact le_refl _
  · apply v3_ext <;>
      simp [constantOriginPosed, constantOriginLocal, Iso3.act, Iso3.rot, Iso3.rotQ, Iso3.qv, V3.cross, V3.smul, V3.add]

/-! ## non-vacuity of the remaining hypotheses (concrete inputs)
`capsule_support*`: `r = 1/2 ≥ 0`, `dir = (0,-2,1) ≠ 0`;  `cuboid_face_vertices*`, `cuboid_edge_support3`,
`cuboid_face_ids*`: `he = (1,2,3)`;  cylinder/cone features: `hh = 3/2`;  `round_support*`: its hypothesis is
discharged by `round_cuboid_support3`, `round_cylinder_support`, `round_cone_support`, `round_triangle_support3`;
`posed_support*`: by `posed_cuboid_support3`, `posed_ball_support3`;  `polygon_feature_spec`: its hypothesis
`polygonFeature pts dir = some f` holds on every polygon of the correspondence run (the model prints the feature,
not `panic`, on all generated `polygon_feature` cases). -/
example : (0:ℝ) ≤ 1/2 ∧ ((⟨0, -2, 1⟩ : V3 ℝ).x ≠ 0 ∨ (⟨0, -2, 1⟩ : V3 ℝ).y ≠ 0 ∨ (⟨0, -2, 1⟩ : V3 ℝ).z ≠ 0) := by norm_num
example : (0:ℚ) ≤ (⟨1, 2⟩ : V2 ℚ).x ∧ (0:ℚ) < (⟨1, 2⟩ : V2 ℚ).y ∧ (0:ℚ) < 3/2 := by norm_num

/-! ## near-zero directions: the support point does not depend on the length of the direction

The property quantifies over *all* non-zero directions, "near-zero ones" included.  In exact arithmetic every
`local_support_point` is invariant under positive scaling of `dir`, so a tiny direction must give the same point
as the ordinary one it is a multiple of; any norm threshold in the code (other than "exactly zero") breaks this. -/

private theorem sqrt_unique (hs : LawfulSqrt sq) {x y : K} (hy : 0 ≤ y) (h : y * y = x) : sq x = y := by
  have hx : 0 ≤ x := by rw [← h]; exact mul_self_nonneg y
  have h1 := hs.nonneg x hx
  have h2 := hs.sq_mul x hx
  have h3 : sq x * sq x = y * y := by rw [h2, h]
  rcases mul_self_eq_mul_self_iff.1 h3 with e | e
  · exact e
  · exact le_antisymm (by linarith) (by linarith)

private theorem normalize3_scale (hs : LawfulSqrt sq) (dir : V3 K) (s : K) (hs0 : 0 < s)
    (hd : dir.x ≠ 0 ∨ dir.y ≠ 0 ∨ dir.z ≠ 0) :
    letI := fieldNum K sq
    normalize3 (dir.smul s) = normalize3 dir := by
  have hpos := sumsq3_pos hd
  have hn := norm_pos_of hs hpos
  have hnn := hs.sq_mul _ hpos.le
  have hsq : sq (dir.x * s * (dir.x * s) + dir.y * s * (dir.y * s) + dir.z * s * (dir.z * s))
      = s * sq (dir.x * dir.x + dir.y * dir.y + dir.z * dir.z) := by
    apply sqrt_unique sq hs (mul_nonneg hs0.le hn.le)
    linear_combination (s * s) * hnn
  have hne := ne_of_gt hn
  have hse := ne_of_gt hs0
  simp only [normalize3, V3.norm, V3.normSq, V3.dot, V3.smul, V3.sdiv, fieldNum_sqrt]
  rw [hsq]
  apply v3_ext <;> simp only [] <;> field_simp

private theorem normalize2_scale (hs : LawfulSqrt sq) (dir : V2 K) (s : K) (hs0 : 0 < s)
    (hd : dir.x ≠ 0 ∨ dir.y ≠ 0) :
    letI := fieldNum K sq
    normalize2 (dir.smul s) = normalize2 dir := by
  have hpos := sumsq2_pos hd
  have hn := norm_pos_of hs hpos
  have hnn := hs.sq_mul _ hpos.le
  have hsq : sq (dir.x * s * (dir.x * s) + dir.y * s * (dir.y * s))
      = s * sq (dir.x * dir.x + dir.y * dir.y) := by
    apply sqrt_unique sq hs (mul_nonneg hs0.le hn.le)
    linear_combination (s * s) * hnn
  have hne := ne_of_gt hn
  have hse := ne_of_gt hs0
  simp only [normalize2, V2.norm, V2.normSq, V2.dot, V2.smul, V2.sdiv, fieldNum_sqrt]
  rw [hsq]
  apply v2_ext <;> simp only [] <;> field_simp

/-- on a non-zero direction `Capsule::local_support_point` is `_toward` of the normalised direction
(`Unit::try_new(dir, 0.0)` succeeds: the threshold is *zero*, not an epsilon) -/
private theorem capsuleLocal3_eq (a b : V3 K) (r : K) (dir : V3 K) (hd : dir.x ≠ 0 ∨ dir.y ≠ 0 ∨ dir.z ≠ 0) :
    letI := fieldNum K sq
    capsuleLocal3 a b r dir = capsuleToward3 a b r (normalize3 dir) := by
  have hpos := sumsq3_pos hd
  have htn : @tryNew3 K (fieldNum K sq) dir 0 = some (@normalize3 K (fieldNum K sq) dir) := by
    simp only [tryNew3]
    split_ifs with h
    · rfl
    · exact absurd (by simpa [V3.normSq, V3.dot] using hpos) h
  unfold capsuleLocal3; rw [htn]; rfl
private theorem capsuleLocal2_eq (a b : V2 K) (r : K) (dir : V2 K) (hd : dir.x ≠ 0 ∨ dir.y ≠ 0) :
    letI := fieldNum K sq
    capsuleLocal2 a b r dir = capsuleToward2 a b r (normalize2 dir) := by
  have hpos := sumsq2_pos hd
  have htn : @tryNew2 K (fieldNum K sq) dir 0 = some (@normalize2 K (fieldNum K sq) dir) := by
    simp only [tryNew2]
    split_ifs with h
    · rfl
    · exact absurd (by simpa [V2.normSq, V2.dot] using hpos) h
  unfold capsuleLocal2; rw [htn]; rfl

private theorem smul_ne3 (dir : V3 K) (s : K) (hs0 : 0 < s) (hd : dir.x ≠ 0 ∨ dir.y ≠ 0 ∨ dir.z ≠ 0) :
    letI := fieldNum K sq
    (dir.smul s).x ≠ 0 ∨ (dir.smul s).y ≠ 0 ∨ (dir.smul s).z ≠ 0 := by
  simp only [V3.smul]
  rcases hd with h | h | h
  · exact Or.inl (mul_ne_zero h (ne_of_gt hs0))
  · exact Or.inr (Or.inl (mul_ne_zero h (ne_of_gt hs0)))
  · exact Or.inr (Or.inr (mul_ne_zero h (ne_of_gt hs0)))
private theorem smul_ne2 (dir : V2 K) (s : K) (hs0 : 0 < s) (hd : dir.x ≠ 0 ∨ dir.y ≠ 0) :
    letI := fieldNum K sq
    (dir.smul s).x ≠ 0 ∨ (dir.smul s).y ≠ 0 := by
  simp only [V2.smul]
  rcases hd with h | h
  · exact Or.inl (mul_ne_zero h (ne_of_gt hs0))
  · exact Or.inr (mul_ne_zero h (ne_of_gt hs0))

/-- **C10 (near-zero directions; ball, capsule, RoundShape/DilatedShape — the normalise-then-scale shapes)**:
for every non-zero direction and every scale `s > 0`, however small, `local_support_point(s·dir) =
local_support_point(dir)` (3-D and 2-D).  In particular the capsule's `Unit::try_new(dir, 0.0)` may only fall back
to `+Y` for the *zero* vector. -/
theorem scale_invariant_normalising (hs : LawfulSqrt sq) (s : K) (hs0 : 0 < s)
    (dir : V3 K) (hd : dir.x ≠ 0 ∨ dir.y ≠ 0 ∨ dir.z ≠ 0) (dir2 : V2 K) (hd2 : dir2.x ≠ 0 ∨ dir2.y ≠ 0)
    (r : K) (a b : V3 K) (a2 b2 : V2 K) (inner : V3 K → V3 K) (inner2 : V2 K → V2 K) :
    letI := fieldNum K sq
    ballLocal3 r (dir.smul s) = ballLocal3 r dir ∧
    capsuleLocal3 a b r (dir.smul s) = capsuleLocal3 a b r dir ∧
    roundLocal3 inner r (dir.smul s) = roundLocal3 inner r dir ∧
    ballLocal2 r (dir2.smul s) = ballLocal2 r dir2 ∧
    capsuleLocal2 a2 b2 r (dir2.smul s) = capsuleLocal2 a2 b2 r dir2 ∧
    roundLocal2 inner2 r (dir2.smul s) = roundLocal2 inner2 r dir2 := by
  have h3 := normalize3_scale sq hs dir s hs0 hd
  have h2 := normalize2_scale sq hs dir2 s hs0 hd2
  refine ⟨?_, ?_, ?_, ?_, ?_, ?_⟩
  · unfold ballLocal3; rw [h3]
  · rw [capsuleLocal3_eq sq a b r _ (smul_ne3 sq dir s hs0 hd), capsuleLocal3_eq sq a b r _ hd, h3]
  · unfold roundLocal3; rw [h3]
  · unfold ballLocal2; rw [h2]
  · rw [capsuleLocal2_eq sq a2 b2 r _ (smul_ne2 sq dir2 s hs0 hd2), capsuleLocal2_eq sq a2 b2 r _ hd2, h2]
  · unfold roundLocal2; rw [h2]

example : (0:ℝ) < 1 / 2 ^ 1000 ∧ ((⟨1, -2, 0⟩ : V3 ℝ).x ≠ 0 ∨ (⟨1, -2, 0⟩ : V3 ℝ).y ≠ 0 ∨ (⟨1, -2, 0⟩ : V3 ℝ).z ≠ 0) := by
  constructor
  · positivity
  · norm_num

private theorem copysign_scale (h d s : K) (hs0 : 0 < s) :
    letI := fieldNum K sq
    copysign h (d * s) = copysign h d := by
  rw [copysign_field, copysign_field]
  have : d * s < 0 ↔ d < 0 := by
    constructor
    · intro h1; by_contra h2; push Not at h2; nlinarith [mul_nonneg h2 hs0.le]
    · intro h1; nlinarith
  simp only [this]

private theorem dot_smul3 (v d : V3 K) (s : K) : letI := fieldNum K sq; v.dot (d.smul s) = v.dot d * s := by
  simp only [V3.dot, V3.smul]; ring
private theorem dot_smul2 (v d : V2 K) (s : K) : letI := fieldNum K sq; v.dot (d.smul s) = v.dot d * s := by
  simp only [V2.dot, V2.smul]; ring

private theorem cloudGo3_scale (d : V3 K) (s : K) (hs0 : 0 < s) :
    letI := fieldNum K sq
    ∀ (ps : List (V3 K)) (i best : Nat) (bd : K),
      cloudGo3 (d.smul s) ps i best (bd * s) = cloudGo3 d ps i best bd := by
  intro ps
  induction ps with
  | nil => intro i best bd; rfl
  | cons p ps ih =>
    intro i best bd
    unfold cloudGo3
    simp only [dot_smul3, mul_lt_mul_iff_left₀ hs0]
    split_ifs
    · exact ih _ _ _
    · exact ih _ _ _
private theorem cloudGo2_scale (d : V2 K) (s : K) (hs0 : 0 < s) :
    letI := fieldNum K sq
    ∀ (ps : List (V2 K)) (i best : Nat) (bd : K),
      cloudGo2 (d.smul s) ps i best (bd * s) = cloudGo2 d ps i best bd := by
  intro ps
  induction ps with
  | nil => intro i best bd; rfl
  | cons p ps ih =>
    intro i best bd
    unfold cloudGo2
    simp only [dot_smul2, mul_lt_mul_iff_left₀ hs0]
    split_ifs
    · exact ih _ _ _
    · exact ih _ _ _

/-- **C10 (near-zero directions; cuboid, segment, triangle, point clouds / convex polyhedra / polygons)**: for
*every* direction and every scale `s > 0`, `local_support_point(s·dir) = local_support_point(dir)` and
`point_cloud_support_point_id(s·dir) = point_cloud_support_point_id(dir)` — these shapes only compare signs and
dot products, which scale. -/
theorem scale_invariant_polytopes (s : K) (hs0 : 0 < s) (dir : V3 K) (dir2 : V2 K)
    (he a b c : V3 K) (he2 a2 b2 c2 : V2 K) (pts : List (V3 K)) (pts2 : List (V2 K)) :
    letI := fieldNum K sq
    cuboidLocal3 he (dir.smul s) = cuboidLocal3 he dir ∧
    segmentLocal3 a b (dir.smul s) = segmentLocal3 a b dir ∧
    triangleLocal3 a b c (dir.smul s) = triangleLocal3 a b c dir ∧
    cloudId3 (dir.smul s) pts = cloudId3 dir pts ∧ cloudPoint3 (dir.smul s) pts = cloudPoint3 dir pts ∧
    cuboidLocal2 he2 (dir2.smul s) = cuboidLocal2 he2 dir2 ∧
    segmentLocal2 a2 b2 (dir2.smul s) = segmentLocal2 a2 b2 dir2 ∧
    triangleLocal2 a2 b2 c2 (dir2.smul s) = triangleLocal2 a2 b2 c2 dir2 ∧
    cloudId2 (dir2.smul s) pts2 = cloudId2 dir2 pts2 ∧ cloudPoint2 (dir2.smul s) pts2 = cloudPoint2 dir2 pts2 := by
  have hid3 : @cloudId3 K (fieldNum K sq) (@V3.smul K (fieldNum K sq) dir s) pts = @cloudId3 K (fieldNum K sq) dir pts := by
    cases pts with
    | nil => rfl
    | cons p ps => simp only [cloudId3, dot_smul3, cloudGo3_scale sq dir s hs0]
  have hid2 : @cloudId2 K (fieldNum K sq) (@V2.smul K (fieldNum K sq) dir2 s) pts2 = @cloudId2 K (fieldNum K sq) dir2 pts2 := by
    cases pts2 with
    | nil => rfl
    | cons p ps => simp only [cloudId2, dot_smul2, cloudGo2_scale sq dir2 s hs0]
  refine ⟨?_, ?_, ?_, hid3, ?_, ?_, ?_, ?_, hid2, ?_⟩
  · simp only [cuboidLocal3, V3.smul, copysign_scale sq _ _ s hs0]
  · simp only [segmentLocal3, dot_smul3, mul_lt_mul_iff_left₀ hs0]
  · simp only [triangleLocal3, dot_smul3, mul_lt_mul_iff_left₀ hs0]
  · simp only [cloudPoint3, hid3]
  · simp only [cuboidLocal2, V2.smul, copysign_scale sq _ _ s hs0]
  · simp only [segmentLocal2, dot_smul2, mul_lt_mul_iff_left₀ hs0]
  · simp only [triangleLocal2, dot_smul2, mul_lt_mul_iff_left₀ hs0]
  · simp only [cloudPoint2, hid2]

private theorem cylinderLocal_form (hh r : K) (dir : V3 K) :
    letI := fieldNum K sq
    cylinderLocal hh r dir =
      if sq (dir.x * dir.x + 0 * 0 + dir.z * dir.z) = 0 then ⟨0, copysign hh dir.y, 0⟩
      else ⟨dir.x / sq (dir.x * dir.x + 0 * 0 + dir.z * dir.z) * r, copysign hh dir.y,
            dir.z / sq (dir.x * dir.x + 0 * 0 + dir.z * dir.z) * r⟩ := by
  have hnorm : @V3.norm K (fieldNum K sq) ⟨dir.x, 0, dir.z⟩ = sq (dir.x * dir.x + 0 * 0 + dir.z * dir.z) := rfl
  rcases Bool.eq_false_or_eq_true (@neq K (fieldNum K sq) (@V3.norm K (fieldNum K sq) ⟨dir.x, 0, dir.z⟩) 0) with hb | hb
  · rw [hnorm] at hb
    have h0 := (neq_field sq _ _).1 hb
    simp only [cylinderLocal, hnorm, hb, if_true, V3.zero]
    rw [if_pos h0]
  · rw [hnorm] at hb
    have h0 : sq (dir.x * dir.x + 0 * 0 + dir.z * dir.z) ≠ 0 := by
      intro h; rw [(neq_field sq _ _).2 h] at hb; exact Bool.noConfusion hb
    simp only [cylinderLocal, hnorm, hb, Bool.false_eq_true, if_false, V3.sdiv, V3.smul]
    rw [if_neg h0]

private theorem coneLocal_form (hh r : K) (dir : V3 K) :
    letI := fieldNum K sq
    coneLocal hh r dir =
      if sq (dir.x * dir.x + 0 * 0 + dir.z * dir.z) = 0 then ⟨0, copysign hh dir.y, 0⟩
      else if dir.x * (dir.x / sq (dir.x * dir.x + 0 * 0 + dir.z * dir.z) * r) + dir.y * -hh
              + dir.z * (dir.z / sq (dir.x * dir.x + 0 * 0 + dir.z * dir.z) * r) < dir.y * hh then ⟨0, hh, 0⟩
      else ⟨dir.x / sq (dir.x * dir.x + 0 * 0 + dir.z * dir.z) * r, -hh,
            dir.z / sq (dir.x * dir.x + 0 * 0 + dir.z * dir.z) * r⟩ := by
  have hnorm : @V3.norm K (fieldNum K sq) ⟨dir.x, 0, dir.z⟩ = sq (dir.x * dir.x + 0 * 0 + dir.z * dir.z) := rfl
  rcases Bool.eq_false_or_eq_true (@neq K (fieldNum K sq) (@V3.norm K (fieldNum K sq) ⟨dir.x, 0, dir.z⟩) 0) with hb | hb
  · rw [hnorm] at hb
    have h0 := (neq_field sq _ _).1 hb
    simp only [coneLocal, hnorm, hb, if_true]
    rw [if_pos h0]
  · rw [hnorm] at hb
    have h0 : sq (dir.x * dir.x + 0 * 0 + dir.z * dir.z) ≠ 0 := by
      intro h; rw [(neq_field sq _ _).2 h] at hb; exact Bool.noConfusion hb
    simp only [coneLocal, hnorm, hb, Bool.false_eq_true, if_false, V3.sdiv, V3.smul, V3.dot]
    rw [if_neg h0]

/-- **C10 (near-zero directions; cylinder, cone)**: for every direction and every scale `s > 0`,
`local_support_point(s·dir) = local_support_point(dir)`: the only norm test in the code is "exactly zero". -/
theorem scale_invariant_revolution (hs : LawfulSqrt sq) (s : K) (hs0 : 0 < s) (hh r : K) (dir : V3 K) :
    letI := fieldNum K sq
    cylinderLocal hh r (dir.smul s) = cylinderLocal hh r dir ∧ coneLocal hh r (dir.smul s) = coneLocal hh r dir := by
  obtain ⟨hn0, hnn⟩ := xz_norm sq hs dir.x dir.z
  have hse := ne_of_gt hs0
  have hsq : sq (dir.x * s * (dir.x * s) + 0 * 0 + dir.z * s * (dir.z * s))
      = s * sq (dir.x * dir.x + 0 * 0 + dir.z * dir.z) := by
    apply sqrt_unique sq hs (mul_nonneg hs0.le hn0)
    linear_combination (s * s) * hnn
  have hzero : s * sq (dir.x * dir.x + 0 * 0 + dir.z * dir.z) = 0 ↔ sq (dir.x * dir.x + 0 * 0 + dir.z * dir.z) = 0 := by
    constructor
    · intro h; exact (mul_eq_zero.1 h).resolve_left hse
    · intro h; rw [h, mul_zero]
  rw [cylinderLocal_form, cylinderLocal_form, coneLocal_form, coneLocal_form]
  simp only [V3.smul, hsq, hzero, copysign_scale sq _ _ s hs0]
  by_cases h0 : sq (dir.x * dir.x + 0 * 0 + dir.z * dir.z) = 0
  · simp only [h0, if_true, and_self]
  · simp only [h0, if_false]
    have e1 : dir.x * s / (s * sq (dir.x * dir.x + 0 * 0 + dir.z * dir.z)) * r
        = dir.x / sq (dir.x * dir.x + 0 * 0 + dir.z * dir.z) * r := by field_simp
    have e2 : dir.z * s / (s * sq (dir.x * dir.x + 0 * 0 + dir.z * dir.z)) * r
        = dir.z / sq (dir.x * dir.x + 0 * 0 + dir.z * dir.z) * r := by field_simp
    rw [e1, e2]
    refine ⟨rfl, ?_⟩
    have hc : (dir.x * s * (dir.x / sq (dir.x * dir.x + 0 * 0 + dir.z * dir.z) * r) + dir.y * s * -hh
          + dir.z * s * (dir.z / sq (dir.x * dir.x + 0 * 0 + dir.z * dir.z) * r) < dir.y * s * hh) ↔
        (dir.x * (dir.x / sq (dir.x * dir.x + 0 * 0 + dir.z * dir.z) * r) + dir.y * -hh
          + dir.z * (dir.z / sq (dir.x * dir.x + 0 * 0 + dir.z * dir.z) * r) < dir.y * hh) := by
      have ea : dir.x * s * (dir.x / sq (dir.x * dir.x + 0 * 0 + dir.z * dir.z) * r) + dir.y * s * -hh
          + dir.z * s * (dir.z / sq (dir.x * dir.x + 0 * 0 + dir.z * dir.z) * r)
          = (dir.x * (dir.x / sq (dir.x * dir.x + 0 * 0 + dir.z * dir.z) * r) + dir.y * -hh
          + dir.z * (dir.z / sq (dir.x * dir.x + 0 * 0 + dir.z * dir.z) * r)) * s := by ring
      have eb : dir.y * s * hh = dir.y * hh * s := by ring
      rw [ea, eb]
      exact mul_lt_mul_iff_left₀ hs0
    simp only [hc]

end C10
