import ParryModel.C10.Theorems
#print axioms C10.copysign_field
#print axioms C10.cuboid_support3
#print axioms C10.cuboid_support2
