import ParryModel.C10.Model
import ParryModel.C12.ModelPoly
/-!
# C10 model, second part: `ConvexPolyhedron` feature maps and the exotic support maps of GJK

* `PolygonalFeatureMap for ConvexPolyhedron::local_support_feature` (`shape/convex_polyhedron.rs`): linear scan over the
  face normals (first strict maximum of `normal·dir`), then the first `min(num, 4)` entries of the face's rows of
  `vertices_adj_to_face` / `edges_adj_to_face`.
* `ConvexPolyhedron::support_feature_id_toward` (`support_feature_id_toward_eps` with `eps = π/180`): support vertex by
  the point-cloud scan, then its adjacent faces (`normal·dir ≥ cos eps`), then its adjacent edges
  (`|edge.dir·dir| ≤ sin eps`), else the vertex.
* `CSOPoint::from_shapes{,_toward}` (`query/gjk/cso_point.rs`): `sp1 = g1.local_support_point(dir)`,
  `sp2 = g2.support_point(pos12, -dir)`, `point = sp1 - sp2`.

The adjacency tables are the ones computed by the model of `ConvexPolyhedron::from_convex_mesh` in
`C12/ModelPoly.lean` (structure `Model.Poly`), so the correspondence runs the real constructor against the modelled one.
Every Rust index that can panic is an explicit `none`.
-/
namespace Model.C10
open Model
variable {K : Type} [Num K]

/-! ## `local_support_feature` -/

/-- the scan `best_fid = 0; best_dot = faces[0].normal.dot(dir); for (fid, face) in faces[1..] { if new_dot > best_dot … }`:
the same recursion as `point_cloud_support_point_id` on the list of face normals.  `none` = the `faces[0]` panic. -/
def polyBestFace (p : Poly K) (dir : V3 K) : Option Nat := cloudId3 dir (p.faces.toList.map (·.normal))

/-- the slice `a[i1 .. i1 + n]`; `none` = the Rust slice is out of range (panic) -/
def sliceFrom (a : Array Nat) : Nat → Nat → Option (List Nat)
  | _, 0 => some []
  | i1, n + 1 =>
    match a[i1]?, sliceFrom a (i1 + 1) n with
    | some x, some xs => some (x :: xs)
    | _, _ => none

/-- `self.points[*vid as usize]` for every id of the slice; `none` = index panic -/
def lookupPts (pts : Array (V3 K)) : List Nat → Option (List (V3 K))
  | [] => some []
  | i :: rest =>
    match pts[i]?, lookupPts pts rest with
    | some v, some vs => some (v :: vs)
    | _, _ => none

/-- `ConvexPolyhedron::local_support_feature`; the codes are the payloads of `PackedFeatureId::{vertex,edge,face}`.
`num_vertices = face.num_vertices_or_edges.min(4)`; the zip of the two slices `[i1..i2]`. -/
def polySupportFeature (p : Poly K) (dir : V3 K) : Option (Feature3 K) :=
  match polyBestFace p dir with
  | none => none
  | some best =>
    match p.faces[best]? with
    | none => none
    | some face =>
      let nv := Nat.min face.num 4
      match sliceFrom p.verticesAdjToFace face.first nv, sliceFrom p.edgesAdjToFace face.first nv with
      | some vids, some eids =>
        match lookupPts p.pts vids with
        | none => none
        | some verts => some { verts := verts, vids := vids, eids := eids, fid := best }
      | _, _ => none

/-! ## `support_feature_id_toward` -/

inductive FeatId where
  | vertex (i : Nat)
  | edge (i : Nat)
  | face (i : Nat)
deriving Repr, DecidableEq

/-- `(PI / 180.0).sin_cos()` in binary64 (checked against the running code by the protocol function `poly_sincos`):
`sin = 0x1.1df0b2b89dd1ep-6`, `cos = 0x1.ffec097f5af8ap-1`. -/
def sinDeg : K := lit 2515156836085391 144115188075855872
def cosDeg : K := lit 4502913707333573 4503599627370496

/-- "Check faces": the first face of the row with `normal·dir ≥ ceps`.  Outer `none` = index panic. -/
def scanFaces (p : Poly K) (dir : V3 K) (ceps : K) (first : Nat) : List Nat → Option (Option Nat)
  | [] => some none
  | i :: rest =>
    match p.facesAdjToVertex[first + i]? with
    | none => none
    | some fid =>
      match p.faces[fid]? with
      | none => none
      | some f => if ceps ≤ f.normal.dot dir then some (some fid) else scanFaces p dir ceps first rest

/-- "Check edges": the first edge of the row with `|edge.dir·dir| ≤ seps`. -/
def scanEdges (p : Poly K) (dir : V3 K) (seps : K) (first : Nat) : List Nat → Option (Option Nat)
  | [] => some none
  | i :: rest =>
    match p.edgesAdjToVertex[first + i]? with
    | none => none
    | some eid =>
      match p.edges[eid]? with
      | none => none
      | some e => if nabs (e.dir.dot dir) ≤ seps then some (some eid) else scanEdges p dir seps first rest

/-- `support_feature_id_toward_eps` with `(seps, ceps) = eps.sin_cos()` -/
def polyFeatureIdEps (p : Poly K) (dir : V3 K) (seps ceps : K) : Option FeatId :=
  match cloudId3 dir p.pts.toList with
  | none => none
  | some sid =>
    match p.vertices[sid]? with
    | none => none
    | some vtx =>
      match scanFaces p dir ceps vtx.first (List.range vtx.num) with
      | none => none
      | some (some fid) => some (.face fid)
      | some none =>
        match scanEdges p dir seps vtx.first (List.range vtx.num) with
        | none => none
        | some (some eid) => some (.edge eid)
        | some none => some (.vertex sid)

/-- `ConvexPolyhedron::support_feature_id_toward` -/
def polyFeatureId (p : Poly K) (dir : V3 K) : Option FeatId := polyFeatureIdEps p dir sinDeg cosDeg

/-- `ConvexPolyhedron::feature_normal`; outer `none` = index panic, inner `none` = `None` -/
def polyFeatureNormal (p : Poly K) : FeatId → Option (Option (V3 K))
  | .face i => (faceNormal p i).map some
  | .edge i => (edgeNormal p i).map some
  | .vertex i => vertexNormal p i

/-! ## `CSOPoint::from_shapes` -/

/-- `CSOPoint { point, orig1, orig2 }` -/
structure CSOPoint (K : Type) where
  point : V3 K
  orig1 : V3 K
  orig2 : V3 K

/-- `CSOPoint::new(orig1, orig2)`: `point = orig1 - orig2` -/
def csoNew (o1 o2 : V3 K) : CSOPoint K := { point := o1.sub o2, orig1 := o1, orig2 := o2 }

/-- `CSOPoint::from_shapes(pos12, g1, g2, dir)` with `loc1 = g1.local_support_point` and
`posed2 = g2.support_point` (the trait default `supportPoint3 loc2`, or the shape's override). -/
def csoFromShapes (loc1 : V3 K → V3 K) (posed2 : Iso3 K → V3 K → V3 K) (pos12 : Iso3 K) (dir : V3 K) : CSOPoint K :=
  csoNew (loc1 dir) (posed2 pos12 dir.neg)

/-- `CSOPoint::from_shapes_toward`: the same with the `_toward` methods on a `Unit` direction (`-*dir` is re-wrapped by
`Unit::new_unchecked` through `Neg for Unit`). -/
def csoFromShapesToward (toward1 : V3 K → V3 K) (ptoward2 : Iso3 K → V3 K → V3 K) (pos12 : Iso3 K) (dir : V3 K) : CSOPoint K :=
  csoNew (toward1 dir) (ptoward2 pos12 dir.neg)

/-! ## `ConvexPolygon::support_feature_id_toward` / `feature_normal` (2-D, `shape/convex_polygon.rs`) -/

/-- the `normals` of a polygon built by `from_convex_polyline_unmodified` (see `polygonFeature`); `none` = constructor
failure -/
def polygonNormalsOpt (pts : List (V2 K)) : Option (List (V2 K)) :=
  let n := pts.length
  if n ≤ 2 then none else
  let normals := (List.range n).map fun i => ccwFaceNormal2 (pts.getD i V2.zero) (pts.getD ((i + 1) % n) V2.zero)
  if normals.any Option.isNone then none else some (normals.filterMap id)

/-- "Check faces": `for i in 0..normals.len() { if normals[i].dot(dir) >= ceps { return Face(i) } }` -/
def scanNormals2 (dir : V2 K) (ceps : K) : List (V2 K) → Nat → Option Nat
  | [], _ => none
  | n :: ns, i => if ceps ≤ n.dot dir then some i else scanNormals2 dir ceps ns (i + 1)

/-- `ConvexPolygon::support_feature_id_toward` with `ceps = cos(π/180)`; outer `none` = panic / constructor failure -/
def polygonFeatureIdEps (pts : List (V2 K)) (dir : V2 K) (ceps : K) : Option FeatId :=
  match polygonNormalsOpt pts with
  | none => none
  | some ns =>
    match scanNormals2 dir ceps ns 0 with
    | some i => some (.face i)
    | none => (cloudId2 dir pts).map .vertex
def polygonFeatureId (pts : List (V2 K)) (dir : V2 K) : Option FeatId := polygonFeatureIdEps pts dir cosDeg

/-- `ConvexPolygon::feature_normal`: a face normal, or `normalize(normals[id - 1 (cyclic)] + normals[id])` for a vertex;
outer `none` = index panic, inner `none` = `None` (edges do not exist in 2-D) -/
def polygonFeatureNormal (pts : List (V2 K)) (f : FeatId) : Option (Option (V2 K)) :=
  match polygonNormalsOpt pts with
  | none => none
  | some ns =>
    match f with
    | .face i => (ns[i]?).map some
    | .vertex id2 =>
      let id1 := if id2 = 0 then ns.length - 1 else id2 - 1
      match ns[id1]?, ns[id2]? with
      | some n1, some n2 => some (some (normalize2 (n1.add n2)))
      | _, _ => none
    | .edge _ => some none

end Model.C10
