import ParryModel.C10.DriverBase
import ParryModel.C10.ModelPoly
/-!
C10 protocol handlers, second part (see `harness/src/c10_poly.rs`):

* `polyhedron_feature` — `ConvexPolyhedron::local_support_feature`: model = `fromConvexMesh` (C12 model of the constructor)
  followed by `polySupportFeature`; oracle = the returned vertices are the points named by their ids, all distinct, they span a
  supporting plane of the solid (no point of the solid beyond it), no triangle of the input mesh has a unit normal with a
  larger `normal·dir`, and every edge id names the edge joining its two end vertices (edge numbering recomputed from the
  triangle list: order of first appearance).
* `polyhedron_featid` — `support_feature_id_toward` + `feature_normal`: a vertex must be a support vertex; an edge must be
  an edge of the solid with a support vertex as an end point, within one degree of orthogonal to `dir`; a face normal must
  be within one degree of `dir`, be a supporting direction whose face contains a support vertex; the returned normal must
  be a unit vector of the normal cone of the feature.
* `cso_local`, `cso_toward` (first two arguments: the shape kinds) — `CSOPoint::from_shapes{,_toward}`: `orig1` is judged as a support point of shape 1 in `dir`,
  `orig2` as a support point of the posed shape 2 in `-dir`, `point = orig1 - orig2` (so `point` is a support point of the
  configuration-space obstacle in `dir`).
* `poly_sincos` — the two constants `sin(π/180)`, `cos(π/180)` used by the model.
-/
namespace C10
open Model Model.C10 Proto

def ptris : P (List (Nat × Nat × Nat)) := plist (do let a ← pnat; let b ← pnat; let c ← pnat; pure (a, b, c))

def fid (f : FeatId) : String :=
  match f with
  | .vertex i => s!"v{i}"
  | .edge i => s!"e{i}"
  | .face i => s!"f{i}"

/-! ### exact helpers for polyhedra -/

/-- edge numbering of `from_convex_mesh`: sorted vertex pairs in order of first appearance over the sides
`(0,1), (1,2), (2,0)` of the triangles -/
def edgeTable (tris : List (Nat × Nat × Nat)) : List (Nat × Nat) :=
  tris.foldl (fun acc t =>
    [(t.1, t.2.1), (t.2.1, t.2.2), (t.2.2, t.1)].foldl (fun (acc : List (Nat × Nat)) (ab : Nat × Nat) =>
      let k := (Nat.min ab.1 ab.2, Nat.max ab.1 ab.2)
      if acc.contains k then acc else acc ++ [k]) acc) []

def zero3 : V3 Rat := ⟨0, 0, 0⟩
def triNormal (pts : List (V3 Rat)) (t : Nat × Nat × Nat) : V3 Rat :=
  let a := pts.getD t.1 zero3; let b := pts.getD t.2.1 zero3; let c := pts.getD t.2.2 zero3
  (b.sub a).cross (c.sub a)

/-- the face structure is numerically ambiguous: two triangles sharing a side are nearly but not exactly coplanar
(`1 - 1e-6 < cos < 1`; the constructor merges triangles when the cosine of their unit normals exceeds `1 - sqrt(eps)`),
or a triangle is degenerate.  The oracles skip such solids. -/
def ambiguous (pts : List (V3 Rat)) (tris : List (Nat × Nat × Nat)) : Bool :=
  let ns := tris.map (triNormal pts)
  ns.any (fun n => n.normSq = 0) ||
  (tris.zip ns).zipIdx.any fun ((t1, n1), i) => (tris.zip ns).zipIdx.any fun ((t2, n2), j) =>
    i < j &&
    (let v1 := [t1.1, t1.2.1, t1.2.2]; (v1.filter fun x => x == t2.1 || x == t2.2.1 || x == t2.2.2).length ≥ 2) &&
    (let d := n1.dot n2; let c := n1.cross n2
     c.normSq != 0 && d > 0 && d * d > (1 - 1 / 1000000) * (1 - 1 / 1000000) * n1.normSq * n2.normSq)

def extOf (pts : List (V3 Rat)) : Rat := pts.foldl (fun m w => rmax m (linf3 w)) 0
def hOf (pts : List (V3 Rat)) (d : V3 Rat) : Rat := (specCloud pts).h d

/-- `n` is a supporting direction at `v`: no point of the solid beyond the plane through `v` -/
def supportingAt (pts : List (V3 Rat)) (n v : V3 Rat) (sl : Rat) : Bool := pts.all fun q => n.dot (q.sub v) ≤ sl

def polyFeatOracle (pts : List (V3 Rat)) (tris : List (Nat × Nat × Nat)) (D : V3 Rat) (f : Feature3 Float) : String :=
  if ambiguous pts tris then "skip near-coplanar-or-degenerate-triangles" else
  let ext := extOf pts; let sl := tol * (1 + ext)
  let vs := f.verts.map q3
  let n := vs.length
  if n < 3 || n > 4 then s!"fail wrong-vertex-count {n}" else
  if f.vids.length != n || f.eids.length != n then "fail wrong-id-count" else
  if !((vs.zip f.vids).all fun (v, i) => match pts[i]? with | some p => p.x == v.x && p.y == v.y && p.z == v.z | none => false) then
    "fail vertex-is-not-the-point-named-by-its-id" else
  if !f.vids.Nodup then "fail repeated-vertex" else
  let v0 := vs.getD 0 zero3
  -- Newell normal of the returned polygon (outward for a counter-clockwise face)
  let N := (List.range n).foldl (fun (acc : V3 Rat) i =>
    acc.add (((vs.getD i zero3).sub v0).cross ((vs.getD ((i + 1) % n) zero3).sub v0))) zero3
  if N.normSq = 0 then "skip collinear-face-vertices" else
  let Nn := norm3 N
  if !(vs.all fun v => rabs (N.dot (v.sub v0)) ≤ sl * Nn) then "fail vertices-not-coplanar" else
  if !supportingAt pts N v0 (sl * Nn) then "fail not-a-supporting-face (a point of the solid lies beyond the plane of the returned vertices)" else
  -- no face of the solid is closer to the direction
  let cosF := N.dot D / Nn
  let better := tris.any fun t =>
    let Nt := triNormal pts t
    Nt.dot D / norm3 Nt > cosF + tol * norm3 D
  if better then "fail another-face-has-a-larger-normal-dot-dir" else
  -- edge ids
  let et := edgeTable tris
  let onPlane := (pts.filter fun q => rabs (N.dot (q.sub v0)) ≤ sl * Nn).length
  let eok := (List.range n).all fun k =>
    let a := f.vids.getD k 0; let b := f.vids.getD ((k + 1) % n) 0
    match et[f.eids.getD k 0]? with
    | none => false
    | some (x, y) =>
      if k + 1 < n || onPlane == n then x == Nat.min a b && y == Nat.max a b
      else x == a || y == a             -- truncated face (`min(4)`): the last edge leaves the last returned vertex
  if !eok then s!"fail eid-is-not-the-edge-joining-its-end-vertices vids={f.vids} eids={f.eids}" else
  if f.fid ≥ tris.length then "fail face-id-out-of-range" else "pass"

/-- parsed output of `polyhedron_featid`: kind letter, id, optional normal -/
def pofeatid : P (Char × Nat × Option (V3 Float)) := do
  let t ← tok
  match t.toList with
  | c :: rest =>
    match (String.ofList rest).toNat? with
    | none => failure
    | some i =>
      let s ← get
      match s with
      | ["none"] => pure (c, i, none)
      | _ => do let v ← po3; pend; pure (c, i, some v)
  | [] => failure

def polyFeatIdOracle (pts : List (V3 Rat)) (tris : List (Nat × Nat × Nat)) (D : V3 Rat) (o : Char × Nat × Option (V3 Float)) : String :=
  if ambiguous pts tris then "skip near-coplanar-or-degenerate-triangles" else
  let ext := extOf pts; let sl := tol * (1 + ext)
  let mx := hOf pts D; let scale := l1n3 D * ext
  let Dn := norm3 D
  let (kind, id, nrm) := o
  let unitN (n : V3 Rat) : Bool := rabs (n.normSq - 1) ≤ 1 / 10 ^ 9
  let sinD : Rat := 2515156836085391 / 144115188075855872
  let cosD : Rat := 4502913707333573 / 4503599627370496
  -- the other side of the documented tolerance: when the support vertex is unique (every other point is worse by a
  -- margin), a face through it within one degree of `dir` must be reported as a face, and (for a vertex result) so must an
  -- edge through it within one degree of orthogonal to `dir`
  let tops := (List.range pts.length).filter fun i => leS mx (D.dot (pts.getD i zero3)) (1000 * scale)
  let missed : Option String :=
    match tops with
    | [s] =>
      let S := pts.getD s zero3
      let has := fun (t : Nat × Nat × Nat) (x : Nat) => t.1 == x || t.2.1 == x || t.2.2 == x
      if kind != 'f' && (tris.any fun t => has t s &&
          (let Nt := triNormal pts t; Nt.dot D > (cosD + tol) * norm3 Nt * Dn)) then
        some "fail a-face-through-the-support-vertex-is-within-one-degree-of-dir-but-was-not-returned"
      else if kind == 'v' && ((edgeTable tris).any fun (a, b) => (a == s || b == s) &&
          (let ab := (pts.getD b zero3).sub (pts.getD a zero3)
           let adj := tris.filter fun t => has t a && has t b
           (match adj with | [t1, t2] => decide (((triNormal pts t1).cross (triNormal pts t2)).normSq != 0) | _ => false) &&
           rabs (ab.dot D) < (sinD - tol) * norm3 ab * Dn)) then
        some "fail an-edge-through-the-support-vertex-is-within-one-degree-of-orthogonal-to-dir-but-a-vertex-was-returned"
      else none
    | _ => none
  match missed with
  | some e => e
  | none =>
  match kind with
  | 'v' =>
    match pts[id]? with
    | none => "fail vertex-id-out-of-range"
    | some P =>
      if !leS mx (D.dot P) scale then "fail vertex-feature-is-not-a-support-vertex" else
      match nrm with
      | none => "pass"        -- a point on no face contour has no normal
      | some nf =>
        let N := q3 nf
        if !finite3 nf || !unitN N then "fail vertex-normal-not-unit" else
        if !supportingAt pts N P sl then "fail vertex-normal-outside-the-normal-cone" else "pass"
  | 'e' =>
    match (edgeTable tris)[id]? with
    | none => "fail edge-id-out-of-range"
    | some (a, b) =>
      let A := pts.getD a zero3; let B := pts.getD b zero3
      if !(leS mx (D.dot A) scale || leS mx (D.dot B) scale) then "fail edge-feature-has-no-support-vertex" else
      let ab := B.sub A
      if !(rabs (ab.dot D) ≤ (sinD + tol) * norm3 ab * Dn) then "fail edge-not-within-one-degree-of-orthogonal-to-dir" else
      -- a real edge: its two triangles are not coplanar
      let adj := tris.filter fun t => [t.1, t.2.1, t.2.2].contains a && [t.1, t.2.1, t.2.2].contains b
      if (match adj with | [t1, t2] => decide (((triNormal pts t1).cross (triNormal pts t2)).normSq = 0) | _ => true) then
        "fail edge-feature-is-not-an-edge-of-the-solid" else
      match nrm with
      | none => "fail edge-normal-missing"
      | some nf =>
        let N := q3 nf
        if !finite3 nf || !unitN N then "fail edge-normal-not-unit" else
        if !(supportingAt pts N A sl && supportingAt pts N B sl) then "fail edge-normal-outside-the-normal-cone" else "pass"
  | 'f' =>
    match nrm with
    | none => "fail face-normal-missing"
    | some nf =>
      let N := q3 nf
      if !finite3 nf || !unitN N then "fail face-normal-not-unit" else
      if !(N.dot D ≥ (cosD - tol) * Dn) then "fail face-not-within-one-degree-of-dir" else
      let hN := hOf pts N
      let onFace := pts.filter fun q => N.dot q ≥ hN - sl
      if onFace.length < 3 then "fail face-normal-is-not-the-normal-of-a-face" else
      if !(onFace.any fun q => leS mx (D.dot q) scale) then "fail face-feature-does-not-contain-a-support-vertex" else "pass"
  | _ => "fail unknown-feature-kind"

def polyArgs : P (List (V3 Float) × List (Nat × Nat × Nat) × V3 Float) := do
  let pts ← ppts3; let tris ← ptris; let d ← pv3; pend; pure (pts, tris, d)

def buildPoly (pts : List (V3 Float)) (tris : List (Nat × Nat × Nat)) : Option (Poly Float) :=
  match fromConvexMesh pts.toArray tris with
  | .ok p => some p
  | _ => none

def polyOracleWrap {α} (po : P α) (k : List (V3 Rat) → List (Nat × Nat × Nat) → V3 Rat → α → String) :
    List String → List String → String := fun a o =>
  match run polyArgs a with
  | none => "skip bad-args"
  | some (pts, tris, d) =>
    if !(pts.all finite3 && finite3 d) then "skip nonfinite-input" else
    if !(tris.all fun t => t.1 < pts.length && t.2.1 < pts.length && t.2.2 < pts.length) then "skip bad-indices" else
    match dirVerdict (q3 d) true with
    | some v => v
    | none => withOut po o fun x => k (pts.map q3) tris (q3 d) x

/-! ### CSO points -/

def underflows (s : Shape3) (d dl : V3 Float) (Dl : V3 Rat) : Bool :=
  match s.uf with
  | 1 => tinySq d.normSq || tinySq dl.normSq
  | 2 => tinySq (⟨dl.x, 0, dl.z⟩ : V3 Float).normSq && (Dl.x != 0 || Dl.z != 0)
  | _ => false

def csoHandler (mode : String) : Option Handler :=
    if !(mode == "local" || mode == "toward") then none else
    let toward := mode == "toward"
    let parse : P (Shape3 × Shape3 × Iso3 Float × V3 Float) := do
      let n1 ← tok; let n2 ← tok
      match parseShape3 n1, parseShape3 n2 with
      | some p1, some p2 => do let s1 ← p1; let s2 ← p2; let m ← piso3; let d ← pv3; pend; pure (s1, s2, m, d)
      | _, _ => failure
    some {
      model := fun a => run (do
        let (s1, s2, m, d) ← parse
        let o1 := if toward then s1.toward d else s1.loc d
        let o2 := if toward then s2.ptoward m d.neg else s2.posed m d.neg
        pure (match o1, o2 with
          | some a1, some a2 => let c := csoNew a1 a2; s!"{fv3 c.point} {fv3 c.orig1} {fv3 c.orig2}"
          | _, _ => "panic")) a
      oracle := fun a o => match run parse a with
        | none => "skip bad-args"
        | some (s1, s2, m, d) =>
          if !(s1.finiteArgs && s2.finiteArgs && finiteIso3 m && finite3 d) then "skip nonfinite-input" else
          match dirVerdict (q3 d) toward with
          | some v => v
          | none =>
            let D := rescale (q3 d)
            let M := qiso3 m
            let D2 := M.invRot D.neg
            if underflows s1 d d D || underflows s2 d.neg (m.invRot d.neg) D2 then "skip direction-underflows" else
            withOut (do let p ← po3; let a1 ← po3; let a2 ← po3; pend; pure (p, a1, a2)) o fun (p, a1, a2) =>
              if !(finite3 p && finite3 a1 && finite3 a2) then "fail nonfinite-output" else
              match s1.judge D (q3 a1) 0 with
              | "pass" =>
                (match s2.judge D2 (M.invAct (q3 a2)) (linf3 M.t) with
                 | "pass" =>
                   let P := q3 p; let E := (q3 a1).sub (q3 a2)
                   let sz := 1 + linf3 (q3 a1) + linf3 (q3 a2)
                   if (P.sub E).normSq ≤ (tol * sz) * (tol * sz) then "pass" else "fail point-is-not-orig1-minus-orig2"
                 | v => if v.startsWith "skip" then v else "fail orig2: " ++ v)
              | v => if v.startsWith "skip" then v else "fail orig1: " ++ v }


/-! ### ConvexPolygon feature ids (2-D) -/

def pofeatid2 : P (Char × Nat × Option (V2 Float)) := do
  let t ← tok
  match t.toList with
  | c :: rest =>
    match (String.ofList rest).toNat? with
    | none => failure
    | some i =>
      let s ← get
      match s with
      | ["none"] => pure (c, i, none)
      | _ => do let v ← po2; pend; pure (c, i, some v)
  | [] => failure

/-- counter-clockwise strictly convex polygon `pts` (in the plane `z = 0`), unit direction `D` -/
def polygonFeatIdOracle (pts : List (V3 Rat)) (D : V3 Rat) (o : Char × Nat × Option (V2 Float)) : String :=
  let n := pts.length
  let ext := extOf pts; let sl := tol * (1 + ext)
  let cross := fun (a b c : V3 Rat) => (b.x - a.x) * (c.y - a.y) - (b.y - a.y) * (c.x - a.x)
  let ccw := (List.range n).all fun i =>
    cross (pts.getD i zero3) (pts.getD ((i + 1) % n) zero3) (pts.getD ((i + 2) % n) zero3) > 0
  if n < 3 || !ccw then "skip not-strictly-ccw-convex" else
  let cosD : Rat := 4502913707333573 / 4503599627370496
  let Dn := norm3 D
  let enormal := fun (i : Nat) => let t := (pts.getD ((i + 1) % n) zero3).sub (pts.getD i zero3); (⟨t.y, -t.x, 0⟩ : V3 Rat)
  let cosOf := fun (i : Nat) => let N := enormal i; N.dot D / (norm3 N * Dn)
  let (kind, id, nrm) := o
  match nrm with
  | none => "fail feature-normal-missing"
  | some nf =>
    if !finite2 nf then "fail nonfinite-output" else
    let N := up2 nf
    if rabs (N.normSq - 1) > 1 / 10 ^ 9 then "fail feature-normal-not-unit" else
    match kind with
    | 'f' =>
      if id ≥ n then "fail face-id-out-of-range" else
      if !(cosOf id ≥ cosD - tol) then "fail face-not-within-one-degree-of-dir" else
      let E := enormal id
      if (N.sub (E.smul (1 / norm3 E))).normSq > sl * sl then "fail face-normal-is-not-the-normal-of-that-edge" else "pass"
    | 'v' =>
      match pts[id]? with
      | none => "fail vertex-id-out-of-range"
      | some P =>
        if !leS (hOf pts D) (D.dot P) (l1n3 D * ext) then "fail vertex-feature-is-not-a-support-vertex" else
        if (List.range n).any (fun i => cosOf i > cosD + tol) then "fail a-face-is-within-one-degree-of-dir-but-a-vertex-was-returned" else
        if !supportingAt pts N P sl then "fail vertex-normal-outside-the-normal-cone" else "pass"
    | _ => "fail unknown-feature-kind"

def polyHandler (fn : String) : Option Handler :=
  match fn with
  | "poly_sincos" => some {
      model := fun _ => some s!"{ff (sinDeg : Float)} {ff (cosDeg : Float)}"
      oracle := fun _ o => withOut (do let s ← pf; let c ← pf; pend; pure (s, c)) o fun (s, c) =>
        let S := q s; let C := q c
        -- sin²+cos² = 1 and sin/cos = tan(π/180) = 0.017455064928217585…
        if rabs (S * S + C * C - 1) ≤ 1 / 10 ^ 15 && rabs (S / C - 17455064928217585 / 10 ^ 18) ≤ 1 / 10 ^ 15 then "pass"
        else "fail not-the-sine-and-cosine-of-one-degree" }
  | "polyhedron_feature" => some {
      model := fun a => run (do
        let (pts, tris, d) ← polyArgs
        pure (match buildPoly pts tris with
          | none => "panic"
          | some p => match polySupportFeature p d with | some f => ffeat3 f | none => "panic")) a
      oracle := polyOracleWrap pofeat3 fun pts tris D f =>
        if !f.verts.all finite3 then "fail nonfinite-output" else polyFeatOracle pts tris D f }
  | "polygon_featid" => some {
      model := fun a => run (do
        let pts ← ppts2; let d ← pv2; pend
        pure (match polygonFeatureId pts d with
          | none => "panic"
          | some f =>
            match polygonFeatureNormal pts f with
            | none => "panic"
            | some none => s!"{fid f} none"
            | some (some n) => s!"{fid f} {fv2 n}")) a
      oracle := fun a o => match run (do let pts ← ppts2; let d ← pv2; pend; pure (pts, d)) a with
        | none => "skip bad-args"
        | some (pts, d) =>
          if !(pts.all finite2 && finite2 d) then "skip nonfinite-input" else
          match dirVerdict (up (q2 d)) true with
          | some v => v
          | none => withOut pofeatid2 o fun x => polygonFeatIdOracle (pts.map up2) (up (q2 d)) x }
  | "polyhedron_featid" => some {
      model := fun a => run (do
        let (pts, tris, d) ← polyArgs
        pure (match buildPoly pts tris with
          | none => "panic"
          | some p =>
            match polyFeatureId p d with
            | none => "panic"
            | some f =>
              match polyFeatureNormal p f with
              | none => "panic"
              | some none => s!"{fid f} none"
              | some (some n) => s!"{fid f} {fv3 n}")) a
      oracle := polyOracleWrap pofeatid polyFeatIdOracle }
  | "cso_local" => csoHandler "local"
  | "cso_toward" => csoHandler "toward"
  | _ => none

end C10
