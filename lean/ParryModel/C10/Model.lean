import ParryModel.Vec
import ParryModel.Shapes
/-!
# C10 model: support maps (`shape/support_map.rs`, `ball.rs`, `cuboid.rs`, `capsule.rs`, `segment.rs`,
`triangle.rs`, `cone.rs`, `cylinder.rs`, `utils/point_cloud_support_point.rs`, `round_shape.rs`,
`query/gjk/special_support_maps.rs`, `polygonal_feature_map.rs`).

Literal transliteration: same branch order, same comparison strictness, same floating-point operation
order, so that the `Float` instance is bit-exact with `parry{2d,3d}-f64`.
Everything lives in `Model.C10` to avoid clashes with other properties' models.
-/
namespace Model.C10
variable {K : Type} [Num K]

/-! ## scalar / nalgebra primitives used only here -/

/-- `f64::copysign(mag, sgn)` = parry's `sgn.copy_sign_to(mag)` (`utils/wops.rs`: the sign *bit* of `sgn`
is copied onto `mag`).  Written with `Num` operations only: the sign bit of `sgn` is set iff `sgn < 0` or
`sgn` is the IEEE negative zero, and `1 / -0.0 = -∞ < 0` whereas `1 / +0.0 = +∞`.  At an ordered field
`1 / 0 = 0`, so the test degenerates to `sgn < 0` (DESIGN §7 C10: "IEEE sign-of-zero semantics at the Float
instance and `d<0` at ordered fields"). -/
def copysign (mag sgn : K) : K := if sgn < 0 ∨ 1 / sgn < 0 then -(nabs mag) else nabs mag

/-- `Unit::new_normalize(v)` / `v.normalize()`: `n = v.norm(); v.unscale(n)` (component-wise division). -/
def normalize3 (v : V3 K) : V3 K := v.sdiv v.norm
def normalize2 (v : V2 K) : V2 K := v.sdiv v.norm

/-- `Unit::try_new(v, min_norm)`: `sq = v.norm_squared(); if sq > min_norm*min_norm { v.unscale(sqrt sq) }`. -/
def tryNew3 (v : V3 K) (minNorm : K) : Option (V3 K) :=
  let sq := v.normSq
  if minNorm * minNorm < sq then some (v.sdiv (Num.sqrt sq)) else none
def tryNew2 (v : V2 K) (minNorm : K) : Option (V2 K) :=
  let sq := v.normSq
  if minNorm * minNorm < sq then some (v.sdiv (Num.sqrt sq)) else none

/-- `v.try_normalize(min_norm)`: `n = v.norm(); if n <= min_norm { None } else { Some(v.unscale(n)) }`. -/
def tryNormalize2 (v : V2 K) (minNorm : K) : Option (V2 K) :=
  let n := v.norm
  if n ≤ minNorm then none else some (v.sdiv n)

/-- `f64::EPSILON` (= `Real::default_epsilon()` in the f64 crates) -/
def eps : K := lit 1 4503599627370496

/-! ## `SupportMap` trait defaults (`support_map.rs`) -/

/-- `support_point(transform, dir) = transform * local_support_point(transform.inverse_transform_vector(dir))` -/
def supportPoint3 (loc : V3 K → V3 K) (m : Iso3 K) (dir : V3 K) : V3 K := m.act (loc (m.invRot dir))
def supportPoint2 (loc : V2 K → V2 K) (m : Iso2 K) (dir : V2 K) : V2 K := m.act (loc (m.invRot dir))
/-- `support_point_toward`: same with `local_support_point_toward` on `Unit::new_unchecked(local_dir)`. -/
def supportPointToward3 (locToward : V3 K → V3 K) (m : Iso3 K) (dir : V3 K) : V3 K :=
  m.act (locToward (m.invRot dir))
def supportPointToward2 (locToward : V2 K → V2 K) (m : Iso2 K) (dir : V2 K) : V2 K :=
  m.act (locToward (m.invRot dir))

/-! ## Ball (`ball.rs`; all four methods are overridden) -/
def ballToward3 (r : K) (d : V3 K) : V3 K := d.smul r
def ballLocal3 (r : K) (dir : V3 K) : V3 K := ballToward3 r (normalize3 dir)
def ballPosedToward3 (r : K) (m : Iso3 K) (d : V3 K) : V3 K := m.t.add (d.smul r)
def ballPosed3 (r : K) (m : Iso3 K) (dir : V3 K) : V3 K := ballPosedToward3 r m (normalize3 dir)
def ballToward2 (r : K) (d : V2 K) : V2 K := d.smul r
def ballLocal2 (r : K) (dir : V2 K) : V2 K := ballToward2 r (normalize2 dir)
def ballPosedToward2 (r : K) (m : Iso2 K) (d : V2 K) : V2 K := m.t.add (d.smul r)
def ballPosed2 (r : K) (m : Iso2 K) (dir : V2 K) : V2 K := ballPosedToward2 r m (normalize2 dir)

/-! ## Cuboid (`cuboid.rs`: `dir.copy_sign_to(self.half_extents)`) -/
def cuboidLocal3 (he dir : V3 K) : V3 K := ⟨copysign he.x dir.x, copysign he.y dir.y, copysign he.z dir.z⟩
def cuboidLocal2 (he dir : V2 K) : V2 K := ⟨copysign he.x dir.x, copysign he.y dir.y⟩

/-! ## Segment, Triangle -/
def segmentLocal3 (a b dir : V3 K) : V3 K := if b.dot dir < a.dot dir then a else b
def segmentLocal2 (a b dir : V2 K) : V2 K := if b.dot dir < a.dot dir then a else b
def triangleLocal3 (a b c dir : V3 K) : V3 K :=
  let d1 := a.dot dir; let d2 := b.dot dir; let d3 := c.dot dir
  if d2 < d1 then (if d3 < d1 then a else c) else if d3 < d2 then b else c
def triangleLocal2 (a b c dir : V2 K) : V2 K :=
  let d1 := a.dot dir; let d2 := b.dot dir; let d3 := c.dot dir
  if d2 < d1 then (if d3 < d1 then a else c) else if d3 < d2 then b else c

/-! ## Capsule (`capsule.rs`) -/
def capsuleToward3 (a b : V3 K) (r : K) (d : V3 K) : V3 K :=
  if d.dot b < d.dot a then a.add (d.smul r) else b.add (d.smul r)
/-- `Unit::try_new(*dir, 0.0).unwrap_or(Vector::y_axis())` -/
def capsuleLocal3 (a b : V3 K) (r : K) (dir : V3 K) : V3 K :=
  capsuleToward3 a b r ((tryNew3 dir 0).getD ⟨0, 1, 0⟩)
def capsuleToward2 (a b : V2 K) (r : K) (d : V2 K) : V2 K :=
  if d.dot b < d.dot a then a.add (d.smul r) else b.add (d.smul r)
def capsuleLocal2 (a b : V2 K) (r : K) (dir : V2 K) : V2 K :=
  capsuleToward2 a b r ((tryNew2 dir 0).getD ⟨0, 1⟩)

/-! ## Cone, Cylinder (`cone.rs`, `cylinder.rs`; 3-D only) -/
def coneLocal (hh r : K) (dir : V3 K) : V3 K :=
  let v0 : V3 K := ⟨dir.x, 0, dir.z⟩
  let n := v0.norm
  let v1 := v0.sdiv n                       -- normalize_mut (performed before the `is_zero` test)
  if neq n 0 then ⟨0, copysign hh dir.y, 0⟩
  else
    let v2 := v1.smul r
    let v3 : V3 K := ⟨v2.x, -hh, v2.z⟩
    if dir.dot v3 < dir.y * hh then ⟨0, hh, 0⟩ else v3

def cylinderLocal (hh r : K) (dir : V3 K) : V3 K :=
  let v0 : V3 K := ⟨dir.x, 0, dir.z⟩
  let n := v0.norm
  let v1 := v0.sdiv n
  let v2 : V3 K := if neq n 0 then V3.zero else v1.smul r
  ⟨v2.x, copysign hh dir.y, v2.z⟩

/-! ## Point clouds (`utils/point_cloud_support_point.rs`): first strict maximum -/
/-- the `for (i, p) in points.iter().enumerate().skip(1)` loop: remaining points, their index,
current `best_pt`, current `best_dot`. -/
def cloudGo3 (dir : V3 K) : List (V3 K) → Nat → Nat → K → Nat
  | [], _, best, _ => best
  | p :: ps, i, best, bd =>
    let d := p.dot dir
    if bd < d then cloudGo3 dir ps (i + 1) i d else cloudGo3 dir ps (i + 1) best bd
/-- `point_cloud_support_point_id`; `none` = the `points[0]` panic on an empty slice. -/
def cloudId3 (dir : V3 K) (pts : List (V3 K)) : Option Nat :=
  match pts with
  | [] => none
  | p :: ps => some (cloudGo3 dir ps 1 0 (p.dot dir))
/-- `point_cloud_support_point` (= `ConvexPolyhedron::local_support_point`) -/
def cloudPoint3 (dir : V3 K) (pts : List (V3 K)) : Option (V3 K) :=
  match cloudId3 dir pts with
  | none => none
  | some i => pts[i]?

def cloudGo2 (dir : V2 K) : List (V2 K) → Nat → Nat → K → Nat
  | [], _, best, _ => best
  | p :: ps, i, best, bd =>
    let d := p.dot dir
    if bd < d then cloudGo2 dir ps (i + 1) i d else cloudGo2 dir ps (i + 1) best bd
def cloudId2 (dir : V2 K) (pts : List (V2 K)) : Option Nat :=
  match pts with
  | [] => none
  | p :: ps => some (cloudGo2 dir ps 1 0 (p.dot dir))
/-- `ConvexPolygon::local_support_point` -/
def cloudPoint2 (dir : V2 K) (pts : List (V2 K)) : Option (V2 K) :=
  match cloudId2 dir pts with
  | none => none
  | some i => pts[i]?

/-! ## RoundShape / DilatedShape / ConstantPoint / ConstantOrigin -/
/-- `RoundShape::local_support_point_toward`: `inner.local_support_point_toward(dir) + dir * border_radius` -/
def roundToward3 (innerToward : V3 K → V3 K) (br : K) (d : V3 K) : V3 K := (innerToward d).add (d.smul br)
/-- `RoundShape::local_support_point`: `toward(Unit::new_normalize(dir))` (same code in `DilatedShape`). -/
def roundLocal3 (innerToward : V3 K → V3 K) (br : K) (dir : V3 K) : V3 K :=
  roundToward3 innerToward br (normalize3 dir)
def roundToward2 (innerToward : V2 K → V2 K) (br : K) (d : V2 K) : V2 K := (innerToward d).add (d.smul br)
def roundLocal2 (innerToward : V2 K → V2 K) (br : K) (dir : V2 K) : V2 K :=
  roundToward2 innerToward br (normalize2 dir)
/-- `DilatedShape::support_point_toward(m, dir) = shape.support_point_toward(m, dir) + dir * radius`,
and `support_point(m, dir) = support_point_toward(m, normalize dir)`. -/
def dilatedPosedToward3 (innerToward : V3 K → V3 K) (rad : K) (m : Iso3 K) (d : V3 K) : V3 K :=
  (supportPointToward3 innerToward m d).add (d.smul rad)
def dilatedPosed3 (innerToward : V3 K → V3 K) (rad : K) (m : Iso3 K) (dir : V3 K) : V3 K :=
  dilatedPosedToward3 innerToward rad m (normalize3 dir)
/-- `ConstantPoint`: every method ignores the direction. -/
def constantPointLocal (p : V3 K) (_dir : V3 K) : V3 K := p
def constantPointPosed (p : V3 K) (m : Iso3 K) (_dir : V3 K) : V3 K := m.act p
def constantOriginLocal (_dir : V3 K) : V3 K := ⟨0, 0, 0⟩
def constantOriginPosed (m : Iso3 K) (_dir : V3 K) : V3 K := m.t

/-! ## Feature maps (`cuboid.rs` `support_face`/`local_support_edge_segment`, `triangle.rs` `support_face`,
`polygonal_feature{2d,3d}.rs` `From<Segment/Triangle>`, `polygonal_feature_map.rs` cylinder/cone,
`convex_polygon.rs` `local_support_feature`) -/

/-- `PolygonalFeature` (3-D): the first `n = num_vertices` vertices with their vertex/edge feature codes, and the
face code (codes are the payloads of `PackedFeatureId::{vertex,edge,face}`). -/
structure Feature3 (K : Type) where
  verts : List (V3 K)
  vids : List Nat
  eids : List Nat
  fid : Nat
/-- `PolygonalFeature` (2-D) -/
structure Feature2 (K : Type) where
  verts : List (V2 K)
  vids : List Nat
  fid : Nat

/-- nalgebra `iamax` (first strict maximum of `|v_i|`) -/
def iamax3 (v : V3 K) : Nat :=
  let m0 := nabs v.x
  let i1 := if m0 < nabs v.y then 1 else 0
  let m1 := if m0 < nabs v.y then nabs v.y else m0
  if m1 < nabs v.z then 2 else i1
/-- nalgebra `iamin` (first strict minimum of `|v_i|`) -/
def iamin3 (v : V3 K) : Nat :=
  let m0 := nabs v.x
  let i1 := if nabs v.y < m0 then 1 else 0
  let m1 := if nabs v.y < m0 then nabs v.y else m0
  if nabs v.z < m1 then 2 else i1
def iamin2 (v : V2 K) : Nat := if nabs v.y < nabs v.x then 1 else 0
/-- nalgebra `imin` (first strict minimum) -/
def imin3 (v : V3 K) : Nat :=
  let i1 := if v.y < v.x then 1 else 0
  let m1 := if v.y < v.x then v.y else v.x
  if v.z < m1 then 2 else i1

/-- the IEEE sign bit, with `Num` operations only (see `copysign`) -/
def signNeg (x : K) : Bool := decide (x < 0 ∨ 1 / x < 0)

/-- `Cuboid::support_face` (3-D).  Vertices are a literal transliteration.  **Feature ids: corrected
behaviour** — the pinned code computes `sign_index = (sign as i8 + 1) / 2`, which selects the *negative* row of
its own id tables for a *positive* face (see `fixes/C10-cuboid3-face-ids.diff`); the model selects the row the
tables and the code comments intend: row 0 (axis bit clear) for `sign = +1`, row 1 (axis bit set) for `-1`. -/
def cuboidSupportFace3 (he dir : V3 K) : Feature3 K :=
  let i := iamax3 dir
  let sign := copysign 1 (dir.get i)
  let verts : List (V3 K) :=
    if i = 0 then [⟨he.x * sign, he.y, he.z⟩, ⟨he.x * sign, -he.y, he.z⟩, ⟨he.x * sign, -he.y, -he.z⟩, ⟨he.x * sign, he.y, -he.z⟩]
    else if i = 1 then [⟨he.x, he.y * sign, he.z⟩, ⟨-he.x, he.y * sign, he.z⟩, ⟨-he.x, he.y * sign, -he.z⟩, ⟨he.x, he.y * sign, -he.z⟩]
    else [⟨he.x, he.y, he.z * sign⟩, ⟨he.x, -he.y, he.z * sign⟩, ⟨-he.x, -he.y, he.z * sign⟩, ⟨-he.x, he.y, he.z * sign⟩]
  let neg : Bool := decide (sign < 0)          -- corrected `sign_index`: 0 for `+`, 1 for `-`
  let vid := fun (c : Nat) => c * 2
  let vids : List Nat :=
    if i = 0 then (if neg then [0b100, 0b110, 0b111, 0b101] else [0b000, 0b010, 0b011, 0b001]).map vid
    else if i = 1 then (if neg then [0b010, 0b110, 0b111, 0b011] else [0b000, 0b100, 0b101, 0b001]).map vid
    else (if neg then [0b001, 0b011, 0b111, 0b101] else [0b000, 0b010, 0b110, 0b100]).map vid
  let eids : List Nat :=
    if i = 0 then (if neg then [0b11110100, 0b11111110, 0b11111101, 0b11101100] else [0b11010000, 0b11011010, 0b11011001, 0b11001000])
    else if i = 1 then (if neg then [0b11110010, 0b11111110, 0b11111011, 0b11011010] else [0b11100000, 0b11101100, 0b11101001, 0b11001000])
    else (if neg then [0b11011001, 0b11111011, 0b11111101, 0b11101001] else [0b11010000, 0b11110010, 0b11110100, 0b11100000])
  { verts := verts, vids := vids, eids := eids, fid := i + (if neg then 1 else 0) * 3 + 10 }

/-- `Cuboid::vertex_feature_id` (2-D), **corrected behaviour**: bit 0 = sign bit of `x`, bit 1 = sign bit of `y`
(what the f32 expression `(x.to_bits() >> 31) & 1 | (y.to_bits() >> 30) & 2` computes; in the f64 crates the
same shifts read mantissa bits, see `fixes/C10-cuboid2-vertex-feature-id.diff`). -/
def vertexFeatureId2 (v : V2 K) : Nat := (if signNeg v.x then 1 else 0) + (if signNeg v.y then 2 else 0)

/-- `Cuboid::support_face` (2-D) -/
def cuboidSupportFace2 (he dir : V2 K) : Feature2 K :=
  let i := iamin2 dir
  let j := (i + 1) % 2
  let a0 : V2 K := V2.zero
  let a1 := a0.set i (he.get i)
  let a := a1.set j (copysign (he.get j) (dir.get j))
  let b := a.set i (-(he.get i))
  let vid1 := vertexFeatureId2 a
  let vid2 := vertexFeatureId2 b
  let fid := (Nat.max vid1 vid2) * 4 + (Nat.min vid1 vid2) + 0b110000     -- (max << 2) | min | 0b11_00_00, fields disjoint
  { verts := [a, b], vids := [vid1, vid2], fid := fid }

/-- `Cuboid::local_support_edge_segment` (3-D) -/
def cuboidSupportEdge3 (he dir : V3 K) : V3 K × V3 K :=
  let i := iamin3 dir
  let j := (i + 1) % 3
  let k := (i + 2) % 3
  let a0 : V3 K := V3.zero
  let a1 := a0.set i (he.get i)
  let a2 := a1.set j (copysign (he.get j) (dir.get j))
  let a := a2.set k (copysign (he.get k) (dir.get k))
  let b := a.set i (-(he.get i))
  (a, b)

/-- `PolygonalFeature::from(Triangle)` = `Triangle::support_face` (3-D): the triangle itself -/
def triangleSupportFace3 (a b c : V3 K) : Feature3 K :=
  { verts := [a, b, c], vids := [0, 1, 2], eids := [0, 1, 2], fid := 0 }
/-- `PolygonalFeature::from(Segment)` (3-D) -/
def segmentFeature3 (a b : V3 K) : Feature3 K :=
  { verts := [a, b], vids := [0, 1], eids := [0, 0], fid := 0 }
/-- `PolygonalFeature::from(Segment)` (2-D) -/
def segmentFeature2 (a b : V2 K) : Feature2 K :=
  { verts := [a, b], vids := [0, 2], fid := 1 }

/-- one step of the loop of `Triangle::support_face` (2-D): `(best, best_dot)` updated with edge `i` of
tangent `t` -/
def triFaceStep (dir : V2 K) (st : Nat × K) (i : Nat) (t : V2 K) : Nat × K :=
  match tryNew2 ⟨t.y, -t.x⟩ 0 with
  | none => st
  | some nrm =>
    let dot := nrm.dot dir
    if st.2 < nrm.dot dir then (i, dot) else st
/-- `Triangle::support_face` (2-D); `negMax` = `-Real::MAX` -/
def triangleSupportFace2 (negMax : K) (a b c dir : V2 K) : Feature2 K :=
  let s0 : Nat × K := (0, negMax)
  let s1 := triFaceStep dir s0 0 (b.sub a)
  let s2 := triFaceStep dir s1 1 (c.sub b)
  let s3 := triFaceStep dir s2 2 (a.sub c)
  let pts := [a, b, c]
  let i1 := s3.1
  let i2 := (s3.1 + 1) % 3
  { verts := [pts.getD i1 a, pts.getD i2 a], vids := [i1, i2], fid := i1 }

/-- `Triangle::local_support_edge_segment` (both dimensions; 3-D here) -/
def triangleSupportEdge3 (a b c dir : V3 K) : V3 K × V3 K :=
  let dots : V3 K := ⟨dir.dot a, dir.dot b, dir.dot c⟩
  let i := imin3 dots
  if i = 0 then (b, c) else if i = 1 then (c, a) else (a, b)

/-- `dir2 = Vector2::new(dir.x, dir.z).try_normalize(eps).unwrap_or(Vector2::x())` -/
def capDir (dir : V3 K) : V2 K := (tryNormalize2 ⟨dir.x, dir.z⟩ eps).getD ⟨1, 0⟩

/-- `PolygonalFeatureMap for Cylinder` -/
def cylinderFeature (hh r : K) (dir : V3 K) : Feature3 K :=
  let d2 := capDir dir
  if nabs dir.y < lit 1 2 then
    { verts := [⟨d2.x * r, -hh, d2.y * r⟩, ⟨d2.x * r, hh, d2.y * r⟩], vids := [1, 11], eids := [0, 0], fid := 0 }
  else
    let y := copysign hh dir.y
    let verts : List (V3 K) := [⟨d2.x * r, y, d2.y * r⟩, ⟨-d2.y * r, y, d2.x * r⟩, ⟨-d2.x * r, y, -d2.y * r⟩, ⟨d2.y * r, y, -d2.x * r⟩]
    if dir.y < 0 then { verts := verts, vids := [1, 3, 5, 7], eids := [2, 4, 6, 8], fid := 9 }
    else { verts := verts, vids := [11, 13, 15, 17], eids := [12, 14, 16, 18], fid := 19 }

/-- `PolygonalFeatureMap for Cone` -/
def coneFeature (hh r : K) (dir : V3 K) : Feature3 K :=
  let d2 := capDir dir
  if 0 < dir.y then
    { verts := [⟨d2.x * r, -hh, d2.y * r⟩, ⟨0, hh, 0⟩], vids := [1, 11], eids := [0, 0], fid := 0 }
  else
    let y := -hh
    { verts := [⟨d2.x * r, y, d2.y * r⟩, ⟨-d2.y * r, y, d2.x * r⟩, ⟨-d2.x * r, y, -d2.y * r⟩, ⟨d2.y * r, y, -d2.x * r⟩]
      vids := [1, 3, 5, 7], eids := [2, 4, 6, 8], fid := 9 }

/-- `utils::ccw_face_normal` (2-D): `Unit::try_new((ab.y, -ab.x), DEFAULT_EPSILON)` -/
def ccwFaceNormal2 (a b : V2 K) : Option (V2 K) :=
  let ab := b.sub a
  tryNew2 ⟨ab.y, -ab.x⟩ eps

/-- `ConvexPolygon::local_support_feature` on a polygon built by `from_convex_polyline_unmodified` (normals =
`ccw_face_normal` of consecutive points).  The `for i in 1..normals.len()` loop (first strict maximum of
`normal·dir`) is the same recursion as `cloudGo2`.  `none` = a constructor failure (degenerate edge, fewer than 3
points). -/
def polygonFeature (pts : List (V2 K)) (dir : V2 K) : Option (Feature2 K) :=
  let n := pts.length
  if n ≤ 2 then none else
  let normals := (List.range n).map fun i => ccwFaceNormal2 (pts.getD i V2.zero) (pts.getD ((i + 1) % n) V2.zero)
  if normals.any Option.isNone then none else
  match normals.filterMap id with
  | [] => none
  | n0 :: ns =>
    let best := cloudGo2 dir ns 1 0 (n0.dot dir)
    let i1 := best
    let i2 := (best + 1) % n
    some { verts := [pts.getD i1 V2.zero, pts.getD i2 V2.zero], vids := [i1 * 2, i2 * 2], fid := i1 * 2 + 1 }

end Model.C10
