import ParryModel.Vec
import ParryModel.Shapes
/-!
# C10 model: support maps (`shape/support_map.rs`, `ball.rs`, `cuboid.rs`, `capsule.rs`, `segment.rs`,
`triangle.rs`, `cone.rs`, `cylinder.rs`, `utils/point_cloud_support_point.rs`, `round_shape.rs`,
`query/gjk/special_support_maps.rs`, `polygonal_feature_map.rs`).

Literal transliteration: same branch order, same comparison strictness, same floating-point operation
order, so that the `Float` instance is bit-exact with `parry{2d,3d}-f64`.
Everything lives in `Model.C10` to avoid clashes with other properties' models.
-/
namespace Model.C10
variable {K : Type} [Num K]

/-! ## scalar / nalgebra primitives used only here -/

/-- `f64::copysign(mag, sgn)` = parry's `sgn.copy_sign_to(mag)` (`utils/wops.rs`: the sign *bit* of `sgn`
is copied onto `mag`).  Written with `Num` operations only: the sign bit of `sgn` is set iff `sgn < 0` or
`sgn` is the IEEE negative zero, and `1 / -0.0 = -∞ < 0` whereas `1 / +0.0 = +∞`.  At an ordered field
`1 / 0 = 0`, so the test degenerates to `sgn < 0` (DESIGN §7 C10: "IEEE sign-of-zero semantics at the Float
instance and `d<0` at ordered fields"). -/
def copysign (mag sgn : K) : K := if sgn < 0 ∨ 1 / sgn < 0 then -(nabs mag) else nabs mag

/-- `Unit::new_normalize(v)` / `v.normalize()`: `n = v.norm(); v.unscale(n)` (component-wise division). -/
def normalize3 (v : V3 K) : V3 K := v.sdiv v.norm
def normalize2 (v : V2 K) : V2 K := v.sdiv v.norm

/-- `Unit::try_new(v, min_norm)`: `sq = v.norm_squared(); if sq > min_norm*min_norm { v.unscale(sqrt sq) }`. -/
def tryNew3 (v : V3 K) (minNorm : K) : Option (V3 K) :=
  let sq := v.normSq
  if minNorm * minNorm < sq then some (v.sdiv (Num.sqrt sq)) else none
def tryNew2 (v : V2 K) (minNorm : K) : Option (V2 K) :=
  let sq := v.normSq
  if minNorm * minNorm < sq then some (v.sdiv (Num.sqrt sq)) else none

/-- `v.try_normalize(min_norm)`: `n = v.norm(); if n <= min_norm { None } else { Some(v.unscale(n)) }`. -/
def tryNormalize2 (v : V2 K) (minNorm : K) : Option (V2 K) :=
  let n := v.norm
  if n ≤ minNorm then none else some (v.sdiv n)

/-- `f64::EPSILON` (= `Real::default_epsilon()` in the f64 crates) -/
def eps : K := lit 1 4503599627370496

/-! ## `SupportMap` trait defaults (`support_map.rs`) -/

/-- `support_point(transform, dir) = transform * local_support_point(transform.inverse_transform_vector(dir))` -/
def supportPoint3 (loc : V3 K → V3 K) (m : Iso3 K) (dir : V3 K) : V3 K := m.act (loc (m.invRot dir))
def supportPoint2 (loc : V2 K → V2 K) (m : Iso2 K) (dir : V2 K) : V2 K := m.act (loc (m.invRot dir))
/-- `support_point_toward`: same with `local_support_point_toward` on `Unit::new_unchecked(local_dir)`. -/
def supportPointToward3 (locToward : V3 K → V3 K) (m : Iso3 K) (dir : V3 K) : V3 K :=
  m.act (locToward (m.invRot dir))
def supportPointToward2 (locToward : V2 K → V2 K) (m : Iso2 K) (dir : V2 K) : V2 K :=
  m.act (locToward (m.invRot dir))

/-! ## Ball (`ball.rs`; all four methods are overridden) -/
def ballToward3 (r : K) (d : V3 K) : V3 K := d.smul r
def ballLocal3 (r : K) (dir : V3 K) : V3 K := ballToward3 r (normalize3 dir)
def ballPosedToward3 (r : K) (m : Iso3 K) (d : V3 K) : V3 K := m.t.add (d.smul r)
def ballPosed3 (r : K) (m : Iso3 K) (dir : V3 K) : V3 K := ballPosedToward3 r m (normalize3 dir)
def ballToward2 (r : K) (d : V2 K) : V2 K := d.smul r
def ballLocal2 (r : K) (dir : V2 K) : V2 K := ballToward2 r (normalize2 dir)
def ballPosedToward2 (r : K) (m : Iso2 K) (d : V2 K) : V2 K := m.t.add (d.smul r)
def ballPosed2 (r : K) (m : Iso2 K) (dir : V2 K) : V2 K := ballPosedToward2 r m (normalize2 dir)

/-! ## Cuboid (`cuboid.rs`: `dir.copy_sign_to(self.half_extents)`) -/
def cuboidLocal3 (he dir : V3 K) : V3 K := ⟨copysign he.x dir.x, copysign he.y dir.y, copysign he.z dir.z⟩
def cuboidLocal2 (he dir : V2 K) : V2 K := ⟨copysign he.x dir.x, copysign he.y dir.y⟩

/-! ## Segment, Triangle -/
def segmentLocal3 (a b dir : V3 K) : V3 K := if b.dot dir < a.dot dir then a else b
def segmentLocal2 (a b dir : V2 K) : V2 K := if b.dot dir < a.dot dir then a else b
def triangleLocal3 (a b c dir : V3 K) : V3 K :=
  let d1 := a.dot dir; let d2 := b.dot dir; let d3 := c.dot dir
  if d2 < d1 then (if d3 < d1 then a else c) else if d3 < d2 then b else c
def triangleLocal2 (a b c dir : V2 K) : V2 K :=
  let d1 := a.dot dir; let d2 := b.dot dir; let d3 := c.dot dir
  if d2 < d1 then (if d3 < d1 then a else c) else if d3 < d2 then b else c

/-! ## Capsule (`capsule.rs`) -/
def capsuleToward3 (a b : V3 K) (r : K) (d : V3 K) : V3 K :=
  if d.dot b < d.dot a then a.add (d.smul r) else b.add (d.smul r)
/-- `Unit::try_new(*dir, 0.0).unwrap_or(Vector::y_axis())` -/
def capsuleLocal3 (a b : V3 K) (r : K) (dir : V3 K) : V3 K :=
  capsuleToward3 a b r ((tryNew3 dir 0).getD ⟨0, 1, 0⟩)
def capsuleToward2 (a b : V2 K) (r : K) (d : V2 K) : V2 K :=
  if d.dot b < d.dot a then a.add (d.smul r) else b.add (d.smul r)
def capsuleLocal2 (a b : V2 K) (r : K) (dir : V2 K) : V2 K :=
  capsuleToward2 a b r ((tryNew2 dir 0).getD ⟨0, 1⟩)

/-! ## Cone, Cylinder (`cone.rs`, `cylinder.rs`; 3-D only) -/
def coneLocal (hh r : K) (dir : V3 K) : V3 K :=
  let v0 : V3 K := ⟨dir.x, 0, dir.z⟩
  let n := v0.norm
  let v1 := v0.sdiv n                       -- normalize_mut (performed before the `is_zero` test)
  if neq n 0 then ⟨0, copysign hh dir.y, 0⟩
  else
    let v2 := v1.smul r
    let v3 : V3 K := ⟨v2.x, -hh, v2.z⟩
    if dir.dot v3 < dir.y * hh then ⟨0, hh, 0⟩ else v3

def cylinderLocal (hh r : K) (dir : V3 K) : V3 K :=
  let v0 : V3 K := ⟨dir.x, 0, dir.z⟩
  let n := v0.norm
  let v1 := v0.sdiv n
  let v2 : V3 K := if neq n 0 then V3.zero else v1.smul r
  ⟨v2.x, copysign hh dir.y, v2.z⟩

/-! ## Point clouds (`utils/point_cloud_support_point.rs`): first strict maximum -/
/-- the `for (i, p) in points.iter().enumerate().skip(1)` loop: remaining points, their index,
current `best_pt`, current `best_dot`. -/
def cloudGo3 (dir : V3 K) : List (V3 K) → Nat → Nat → K → Nat
  | [], _, best, _ => best
  | p :: ps, i, best, bd =>
    let d := p.dot dir
    if bd < d then cloudGo3 dir ps (i + 1) i d else cloudGo3 dir ps (i + 1) best bd
/-- `point_cloud_support_point_id`; `none` = the `points[0]` panic on an empty slice. -/
def cloudId3 (dir : V3 K) (pts : List (V3 K)) : Option Nat :=
  match pts with
  | [] => none
  | p :: ps => some (cloudGo3 dir ps 1 0 (p.dot dir))
/-- `point_cloud_support_point` (= `ConvexPolyhedron::local_support_point`) -/
def cloudPoint3 (dir : V3 K) (pts : List (V3 K)) : Option (V3 K) :=
  match cloudId3 dir pts with
  | none => none
  | some i => pts[i]?

def cloudGo2 (dir : V2 K) : List (V2 K) → Nat → Nat → K → Nat
  | [], _, best, _ => best
  | p :: ps, i, best, bd =>
    let d := p.dot dir
    if bd < d then cloudGo2 dir ps (i + 1) i d else cloudGo2 dir ps (i + 1) best bd
def cloudId2 (dir : V2 K) (pts : List (V2 K)) : Option Nat :=
  match pts with
  | [] => none
  | p :: ps => some (cloudGo2 dir ps 1 0 (p.dot dir))
/-- `ConvexPolygon::local_support_point` -/
def cloudPoint2 (dir : V2 K) (pts : List (V2 K)) : Option (V2 K) :=
  match cloudId2 dir pts with
  | none => none
  | some i => pts[i]?

/-! ## RoundShape / DilatedShape / ConstantPoint / ConstantOrigin -/
/-- `RoundShape::local_support_point_toward`: `inner.local_support_point_toward(dir) + dir * border_radius` -/
def roundToward3 (innerToward : V3 K → V3 K) (br : K) (d : V3 K) : V3 K := (innerToward d).add (d.smul br)
/-- `RoundShape::local_support_point`: `toward(Unit::new_normalize(dir))` (same code in `DilatedShape`). -/
def roundLocal3 (innerToward : V3 K → V3 K) (br : K) (dir : V3 K) : V3 K :=
  roundToward3 innerToward br (normalize3 dir)
def roundToward2 (innerToward : V2 K → V2 K) (br : K) (d : V2 K) : V2 K := (innerToward d).add (d.smul br)
def roundLocal2 (innerToward : V2 K → V2 K) (br : K) (dir : V2 K) : V2 K :=
  roundToward2 innerToward br (normalize2 dir)
/-- `DilatedShape::support_point_toward(m, dir) = shape.support_point_toward(m, dir) + dir * radius`,
and `support_point(m, dir) = support_point_toward(m, normalize dir)`. -/
def dilatedPosedToward3 (innerToward : V3 K → V3 K) (rad : K) (m : Iso3 K) (d : V3 K) : V3 K :=
  (supportPointToward3 innerToward m d).add (d.smul rad)
def dilatedPosed3 (innerToward : V3 K → V3 K) (rad : K) (m : Iso3 K) (dir : V3 K) : V3 K :=
  dilatedPosedToward3 innerToward rad m (normalize3 dir)
/-- `ConstantPoint`: every method ignores the direction. -/
def constantPointLocal (p : V3 K) (_dir : V3 K) : V3 K := p
def constantPointPosed (p : V3 K) (m : Iso3 K) (_dir : V3 K) : V3 K := m.act p
def constantOriginLocal (_dir : V3 K) : V3 K := ⟨0, 0, 0⟩
def constantOriginPosed (m : Iso3 K) (_dir : V3 K) : V3 K := m.t

end Model.C10
