import ParryModel.C10.Theorems1
import ParryModel.C10.ModelPoly
/-!
# C10 property theorems, second part

* `polyhedron_feature_spec`, `polyhedron_feature_supporting` — `ConvexPolyhedron::local_support_feature`: the chosen face
  is the first one maximising `normal·dir`; the returned vertices are points of the solid, named by the returned vertex ids,
  which are the first `min(num, 4)` entries of the face's row of `vertices_adj_to_face` (edge ids: the same row of
  `edges_adj_to_face`); when every face is a supporting face of its own normal (the invariant `check_geometry` asserts),
  every returned vertex is a support point of the whole solid in the direction of the face normal.
* `polyhedron_feature_id_spec` — `support_feature_id_toward`: face / edge / vertex according to the documented angular
  tolerance, searched in the rows of the support vertex.
* `cso_support`, `cso_support_default`, `cso_cuboid_cuboid` — `CSOPoint::from_shapes`: `point = orig1 - orig2` is a support
  point of the configuration-space obstacle `S₁ ⊖ pos12·S₂`.
* `guard_*` — the degenerate-direction guards are necessary: with the guard removed the property fails on a concrete input.
-/
set_option linter.style.haveILetI false
set_option linter.unusedSectionVars false
set_option linter.unusedSimpArgs false
set_option linter.unusedTactic false
set_option linter.unreachableTactic false
set_option linter.unusedVariables false

namespace C10
open Model Model.C10

/-! ## list helpers (every `Num` instance) -/

section anyNum
variable {K : Type} [Num K]

private theorem sliceFrom_spec (a : Array Nat) : ∀ (n i1 : Nat) (l : List Nat), sliceFrom a i1 n = some l →
    l.length = n ∧ ∀ k, k < n → l[k]? = a[i1 + k]? := by
  intro n
  induction n with
  | zero => intro i1 l h; simp [sliceFrom] at h; subst h; simp
  | succ n ih =>
    intro i1 l h
    unfold sliceFrom at h
    split at h
    · rename_i x xs hx hxs
      injection h with h; subst h
      obtain ⟨hl, hk⟩ := ih (i1 + 1) xs hxs
      refine ⟨by simp [hl], ?_⟩
      intro k hk'
      cases k with
      | zero => simpa using hx.symm
      | succ k =>
        have := hk k (by omega)
        simp only [List.getElem?_cons_succ]
        rw [this]; congr 1; omega
    · exact absurd h (by simp)

private theorem lookupPts_spec (pts : Array (V3 K)) : ∀ (ids : List Nat) (vs : List (V3 K)), lookupPts pts ids = some vs →
    vs.length = ids.length ∧ ∀ (k : Nat) (v : V3 K), vs[k]? = some v → ∃ id, ids[k]? = some id ∧ pts[id]? = some v := by
  intro ids
  induction ids with
  | nil => intro vs h; simp [lookupPts] at h; subst h; simp
  | cons i rest ih =>
    intro vs h
    unfold lookupPts at h
    split at h
    · rename_i v vs' hv hvs
      injection h with h; subst h
      obtain ⟨hl, hk⟩ := ih vs' hvs
      refine ⟨by simp [hl], ?_⟩
      intro k w hw
      cases k with
      | zero =>
        simp only [List.getElem?_cons_zero, Option.some.injEq] at hw
        subst hw; exact ⟨i, by simp, hv⟩
      | succ k =>
        simp only [List.getElem?_cons_succ] at hw
        obtain ⟨id, h1, h2⟩ := hk k w hw
        exact ⟨id, by simpa using h1, h2⟩
    · exact absurd h (by simp)

/-- outcome of "Check faces" -/
private theorem scanFaces_spec (p : Poly K) (dir : V3 K) (ceps : K) (first : Nat) :
    ∀ (l : List Nat) (r : Option Nat), scanFaces p dir ceps first l = some r →
      (∀ fid, r = some fid → ∃ i ∈ l, p.facesAdjToVertex[first + i]? = some fid ∧
          ∃ F, p.faces[fid]? = some F ∧ ceps ≤ F.normal.dot dir) ∧
      (r = none → ∀ i ∈ l, ∃ fid F, p.facesAdjToVertex[first + i]? = some fid ∧ p.faces[fid]? = some F ∧
          ¬ ceps ≤ F.normal.dot dir) := by
  intro l
  induction l with
  | nil => intro r h; simp [scanFaces] at h; subst h; simp
  | cons i rest ih =>
    intro r h
    unfold scanFaces at h
    split at h
    · exact absurd h (by simp)
    · rename_i fid hfid
      split at h
      · exact absurd h (by simp)
      · rename_i F hF
        by_cases hc : ceps ≤ F.normal.dot dir
        · rw [if_pos hc] at h
          injection h with h; subst h
          refine ⟨?_, by simp⟩
          intro f hf; injection hf with hf; subst hf
          exact ⟨i, List.mem_cons_self .., hfid, F, hF, hc⟩
        · rw [if_neg hc] at h
          obtain ⟨h1, h2⟩ := ih r h
          refine ⟨?_, ?_⟩
          · intro f hf
            obtain ⟨j, hj, rest'⟩ := h1 f hf
            exact ⟨j, List.mem_cons_of_mem _ hj, rest'⟩
          · intro hr j hj
            rcases List.mem_cons.1 hj with rfl | hj
            · exact ⟨fid, F, hfid, hF, hc⟩
            · exact h2 hr j hj

/-- outcome of "Check edges" -/
private theorem scanEdges_spec (p : Poly K) (dir : V3 K) (seps : K) (first : Nat) :
    ∀ (l : List Nat) (r : Option Nat), scanEdges p dir seps first l = some r →
      (∀ eid, r = some eid → ∃ i ∈ l, p.edgesAdjToVertex[first + i]? = some eid ∧
          ∃ E, p.edges[eid]? = some E ∧ nabs (E.dir.dot dir) ≤ seps) ∧
      (r = none → ∀ i ∈ l, ∃ eid E, p.edgesAdjToVertex[first + i]? = some eid ∧ p.edges[eid]? = some E ∧
          ¬ nabs (E.dir.dot dir) ≤ seps) := by
  intro l
  induction l with
  | nil => intro r h; simp [scanEdges] at h; subst h; simp
  | cons i rest ih =>
    intro r h
    unfold scanEdges at h
    split at h
    · exact absurd h (by simp)
    · rename_i eid heid
      split at h
      · exact absurd h (by simp)
      · rename_i E hE
        by_cases hc : nabs (E.dir.dot dir) ≤ seps
        · rw [if_pos hc] at h
          injection h with h; subst h
          refine ⟨?_, by simp⟩
          intro f hf; injection hf with hf; subst hf
          exact ⟨i, List.mem_cons_self .., heid, E, hE, hc⟩
        · rw [if_neg hc] at h
          obtain ⟨h1, h2⟩ := ih r h
          refine ⟨?_, ?_⟩
          · intro f hf
            obtain ⟨j, hj, rest'⟩ := h1 f hf
            exact ⟨j, List.mem_cons_of_mem _ hj, rest'⟩
          · intro hr j hj
            rcases List.mem_cons.1 hj with rfl | hj
            · exact ⟨eid, E, heid, hE, hc⟩
            · exact h2 hr j hj

/-- outcome of the face scan of `ConvexPolygon::support_feature_id_toward` (offset `i0` = index of the head) -/
private theorem scanNormals2_spec (dir : V2 K) (ceps : K) :
    ∀ (ns : List (V2 K)) (i0 : Nat) (r : Option Nat), scanNormals2 dir ceps ns i0 = r →
      (∀ i, r = some i → i0 ≤ i ∧ ∃ n, ns[i - i0]? = some n ∧ ceps ≤ n.dot dir ∧
          ∀ (j : Nat) (m : V2 K), j < i - i0 → ns[j]? = some m → ¬ ceps ≤ m.dot dir) ∧
      (r = none → ∀ m ∈ ns, ¬ ceps ≤ m.dot dir) := by
  intro ns
  induction ns with
  | nil => intro i0 r h; simp [scanNormals2] at h; subst h; simp
  | cons n ns ih =>
    intro i0 r h
    unfold scanNormals2 at h
    by_cases c : ceps ≤ n.dot dir
    · rw [if_pos c] at h; subst h
      refine ⟨?_, by simp⟩
      intro i hi; injection hi with hi; subst hi
      refine ⟨le_refl _, n, by simp, c, ?_⟩
      intro j m hj; omega
    · rw [if_neg c] at h
      obtain ⟨h1, h2⟩ := ih (i0 + 1) r h
      refine ⟨?_, ?_⟩
      · intro i hi
        obtain ⟨hle, m, hm, hc, hfirst⟩ := h1 i hi
        have e : i - i0 = (i - (i0 + 1)) + 1 := by omega
        refine ⟨by omega, m, by rw [e, List.getElem?_cons_succ]; exact hm, hc, ?_⟩
        intro j m' hj hm'
        cases j with
        | zero => simp at hm'; subst hm'; exact c
        | succ j => rw [List.getElem?_cons_succ] at hm'; exact hfirst j m' (by omega) hm'
      · intro hr m hm
        rcases List.mem_cons.1 hm with rfl | hm
        · exact c
        · exact h2 hr m hm

end anyNum

variable {K : Type} [Field K] [LinearOrder K] [IsStrictOrderedRing K] (sq : K → K)

/-! ## `ConvexPolyhedron::local_support_feature` -/

/-- the face scan: a valid face index, maximal `normal·dir` over all faces, first such index -/
private theorem bestFace_spec (p : Poly K) (dir : V3 K) (best : Nat) :
    letI := fieldNum K sq
    polyBestFace p dir = some best →
    ∃ F, p.faces[best]? = some F ∧
      (∀ (j : Nat) (G : PFace K), p.faces[j]? = some G → dir.dot G.normal ≤ dir.dot F.normal) ∧
      (∀ (j : Nat) (G : PFace K), j < best → p.faces[j]? = some G → dir.dot G.normal < dir.dot F.normal) := by
  intro h
  letI : Num K := fieldNum K sq
  have hne : (p.faces.toList.map (·.normal)) ≠ [] := by
    intro h0; simp [polyBestFace, h0, cloudId3] at h
  obtain ⟨i, n, hi, hn, _, ⟨_, hmax⟩, hfirst⟩ := cloud_support3 sq dir _ hne
  have : i = best := by
    have h' : cloudId3 dir (p.faces.toList.map (·.normal)) = some best := h
    rw [hi] at h'; exact Option.some.inj h'
  subst this
  have hn' := hn
  rw [List.getElem?_map] at hn'
  cases hF : p.faces.toList[i]? with
  | none => rw [hF] at hn'; simp at hn'
  | some F =>
    rw [hF] at hn'
    simp only [Option.map_some, Option.some.injEq] at hn'
    subst hn'
    refine ⟨F, by simpa using hF, ?_, ?_⟩
    · intro j G hG
      apply hmax
      exact hull3_of_getElem sq _ j _ (by rw [List.getElem?_map]; simp [hG])
    · intro j G hj hG
      exact hfirst j _ hj (by rw [List.getElem?_map]; simp [hG])

/-- **C10 (`ConvexPolyhedron::local_support_feature`)**, for *any* adjacency tables: when the function returns (no index
panic) the face id `fid` is a valid face `F`; `F` maximises `dir·normal` over all faces and is the *first* face doing so
(the linear scan's tie rule); the vertex ids and edge ids are the first `n = min(F.num, 4)` entries of `F`'s rows of
`vertices_adj_to_face` / `edges_adj_to_face`; and every returned vertex is the point named by its vertex id — so it is a
point of the solid (member of the convex hull of `points`). -/
theorem polyhedron_feature_spec (p : Poly K) (dir : V3 K) (f : Feature3 K) :
    letI := fieldNum K sq
    polySupportFeature p dir = some f →
    ∃ F, p.faces[f.fid]? = some F ∧
      (∀ (j : Nat) (G : PFace K), p.faces[j]? = some G → dir.dot G.normal ≤ dir.dot F.normal) ∧
      (∀ (j : Nat) (G : PFace K), j < f.fid → p.faces[j]? = some G → dir.dot G.normal < dir.dot F.normal) ∧
      f.vids.length = Nat.min F.num 4 ∧ f.eids.length = Nat.min F.num 4 ∧ f.verts.length = Nat.min F.num 4 ∧
      (∀ k, k < Nat.min F.num 4 → f.vids[k]? = p.verticesAdjToFace[F.first + k]? ∧
          f.eids[k]? = p.edgesAdjToFace[F.first + k]?) ∧
      (∀ (k : Nat) (v : V3 K), f.verts[k]? = some v → ∃ id, f.vids[k]? = some id ∧ p.pts[id]? = some v ∧ hullMem3 p.pts.toList v) := by
  intro h
  letI : Num K := fieldNum K sq
  unfold polySupportFeature at h
  split at h
  · exact absurd h (by simp)
  · rename_i best hbest
    obtain ⟨F, hF, hmax, hfirst⟩ := bestFace_spec sq p dir best hbest
    rw [hF] at h
    simp only at h
    split at h
    · rename_i vids eids hv he
      split at h
      · exact absurd h (by simp)
      · rename_i verts hverts
        injection h with h; subst h
        obtain ⟨hvl, hvk⟩ := sliceFrom_spec _ _ _ _ hv
        obtain ⟨hel, hek⟩ := sliceFrom_spec _ _ _ _ he
        obtain ⟨hpl, hpk⟩ := lookupPts_spec _ _ _ hverts
        refine ⟨F, hF, hmax, hfirst, hvl, hel, by rw [hpl, hvl], fun k hk => ⟨hvk k hk, hek k hk⟩, ?_⟩
        intro k v hkv
        obtain ⟨id, h1, h2⟩ := hpk k v hkv
        exact ⟨id, h1, h2, hull3_of_getElem sq _ id _ (by simpa using h2)⟩
    · exact absurd h (by simp)

/-- non-vacuity of the hypothesis `polySupportFeature p dir = some f`: one triangular face, direction `+z` -/
private def exampleTable : Poly ℚ :=
  { pts := #[⟨0, 0, 1⟩, ⟨1, 0, 1⟩, ⟨0, 1, 1⟩, ⟨0, 0, 0⟩], vertices := #[⟨0, 1⟩, ⟨1, 1⟩, ⟨2, 1⟩, ⟨3, 0⟩],
    faces := #[{ first := 0, num := 3, normal := ⟨0, 0, 1⟩ }],
    edges := #[⟨0, 1, 0, 0, ⟨1, 0, 0⟩, false⟩, ⟨1, 2, 0, 0, ⟨-1, 1, 0⟩, false⟩, ⟨2, 0, 0, 0, ⟨0, -1, 0⟩, false⟩],
    facesAdjToVertex := #[0, 0, 0], edgesAdjToVertex := #[0, 1, 2], edgesAdjToFace := #[0, 1, 2], verticesAdjToFace := #[0, 1, 2] }
example : ∃ f, @polySupportFeature ℚ (fieldNum ℚ id) exampleTable ⟨0, 0, 1⟩ = some f ∧ f.vids = [0, 1, 2] ∧ f.fid = 0 :=
  ⟨_, rfl, rfl, rfl⟩

/-- the geometric invariant of a well-formed convex polyhedron (`ConvexPolyhedron::check_geometry` asserts it with slack
`DEFAULT_EPSILON`): every vertex listed for a face lies on a supporting plane orthogonal to the face normal, i.e. no point
of the solid is further along the normal. -/
def FacesSupporting (p : Poly K) : Prop :=
  letI := fieldNum K sq
  ∀ (i : Nat) (F : PFace K), p.faces[i]? = some F → ∀ (k id : Nat) (v : V3 K), k < F.num → p.verticesAdjToFace[F.first + k]? = some id → p.pts[id]? = some v →
    ∀ q ∈ p.pts.toList, F.normal.dot q ≤ F.normal.dot v

/-- **C10 (polygonal feature map of a convex polyhedron: the vertices lie on the supporting face)**: for a polyhedron whose
faces are supporting faces (`FacesSupporting`), every vertex returned by `local_support_feature` is a support point of the
*whole solid* (convex hull of the points) in the direction of the normal of the returned face — the face whose normal
maximises `normal·dir` (`polyhedron_feature_spec`). -/
theorem polyhedron_feature_supporting (p : Poly K) (hgeo : FacesSupporting sq p) (dir : V3 K) (f : Feature3 K) :
    letI := fieldNum K sq
    polySupportFeature p dir = some f →
    ∃ F, p.faces[f.fid]? = some F ∧ ∀ v ∈ f.verts, IsSupport3 sq (hullMem3 p.pts.toList) F.normal v := by
  intro h
  letI : Num K := fieldNum K sq
  obtain ⟨F, hF, _, _, hvl, _, hpl, hrows, hverts⟩ := polyhedron_feature_spec sq p dir f h
  refine ⟨F, hF, ?_⟩
  intro v hv
  obtain ⟨k, hk, hkv⟩ := List.getElem_of_mem hv
  have hkv' : f.verts[k]? = some v := by rw [List.getElem?_eq_getElem hk, hkv]
  obtain ⟨id, h1, h2, h3⟩ := hverts k v hkv'
  have hk4 : k < Nat.min F.num 4 := by rw [← hpl]; exact hk
  have hrow := (hrows k hk4).1
  rw [h1] at hrow
  refine ⟨h3, ?_⟩
  intro q hq
  refine hull3_le sq F.normal _ _ q hq (fun w hw => ?_)
  exact hgeo f.fid F hF k id v (lt_of_lt_of_le hk4 (Nat.min_le_left _ _)) hrow.symm h2 w hw

/-- non-vacuity: a tetrahedron-like table with one face whose three vertices are supporting -/
example : FacesSupporting (K := ℚ) (fun x => x)
    { pts := #[⟨0, 0, 1⟩, ⟨1, 0, 1⟩, ⟨0, 1, 1⟩, ⟨0, 0, 0⟩], vertices := #[], faces := #[{ first := 0, num := 3, normal := ⟨0, 0, 1⟩ }],
      edges := #[], facesAdjToVertex := #[], edgesAdjToVertex := #[], edgesAdjToFace := #[0, 1, 2], verticesAdjToFace := #[0, 1, 2] } := by
  intro i F hF k id v hk hid hv q hq
  have hi : i = 0 := by
    by_contra hne
    have : (1 : Nat) ≤ i := Nat.one_le_iff_ne_zero.2 hne
    simp [Array.getElem?_eq_none (show (#[({ first := 0, num := 3, normal := ⟨0, 0, 1⟩ } : PFace ℚ)]).size ≤ i by simpa using this)] at hF
  subst hi
  simp only [List.getElem?_toArray, List.getElem?_cons_zero, Option.some.injEq] at hF
  subst hF
  simp only [Nat.zero_add] at hid hk
  have hq' : q.z ≤ 1 := by
    simp only [List.mem_cons, List.not_mem_nil, or_false] at hq
    rcases hq with rfl | rfl | rfl | rfl <;> norm_num
  have hv' : v.z = 1 := by
    rcases k with _ | _ | _ | k
    · simp at hid; subst hid; simp at hv; subst hv; rfl
    · simp at hid; subst hid; simp at hv; subst hv; rfl
    · simp at hid; subst hid; simp at hv; subst hv; rfl
    · omega
  simp only [V3.dot]
  rw [hv']
  linarith

/-! ## `ConvexPolyhedron::support_feature_id_toward` -/

/-- **C10 (`support_feature_id_toward`, documented angular tolerance)**, for any adjacency tables and any thresholds
`seps = sin ε`, `ceps = cos ε`: when the function returns, there is a support vertex `sid` (first maximiser of `dir·p` over
the points, a support point of the whole solid) with table row `vtx`, and
* `Face fid` ⇒ `fid` is listed in `sid`'s row of `faces_adj_to_vertex` and `normal·dir ≥ ceps` (within `ε` of `dir`);
* `Edge eid` ⇒ no face of the row is within `ε`, `eid` is listed in `sid`'s row of `edges_adj_to_vertex` and
  `|edge.dir·dir| ≤ seps` (within `ε` of orthogonal);
* `Vertex v` ⇒ `v = sid`, and neither a face nor an edge of the rows qualifies. -/
theorem polyhedron_feature_id_spec (p : Poly K) (dir : V3 K) (seps ceps : K) (r : FeatId) :
    letI := fieldNum K sq
    polyFeatureIdEps p dir seps ceps = some r →
    ∃ sid P vtx, cloudId3 dir p.pts.toList = some sid ∧ p.pts.toList[sid]? = some P ∧
      IsSupport3 sq (hullMem3 p.pts.toList) dir P ∧ p.vertices[sid]? = some vtx ∧
      (∀ fid, r = .face fid → ∃ i, i < vtx.num ∧ p.facesAdjToVertex[vtx.first + i]? = some fid ∧
          ∃ F, p.faces[fid]? = some F ∧ ceps ≤ F.normal.dot dir) ∧
      (∀ eid, r = .edge eid →
          (∀ i, i < vtx.num → ∃ fid F, p.facesAdjToVertex[vtx.first + i]? = some fid ∧ p.faces[fid]? = some F ∧
            F.normal.dot dir < ceps) ∧
          ∃ i, i < vtx.num ∧ p.edgesAdjToVertex[vtx.first + i]? = some eid ∧
            ∃ E, p.edges[eid]? = some E ∧ |E.dir.dot dir| ≤ seps) ∧
      (∀ v, r = .vertex v → v = sid ∧
          (∀ i, i < vtx.num → ∃ fid F, p.facesAdjToVertex[vtx.first + i]? = some fid ∧ p.faces[fid]? = some F ∧
            F.normal.dot dir < ceps) ∧
          (∀ i, i < vtx.num → ∃ eid E, p.edgesAdjToVertex[vtx.first + i]? = some eid ∧ p.edges[eid]? = some E ∧
            seps < |E.dir.dot dir|)) := by
  intro h
  letI : Num K := fieldNum K sq
  unfold polyFeatureIdEps at h
  split at h
  · exact absurd h (by simp)
  · rename_i sid hsid
    have hne : p.pts.toList ≠ [] := by
      intro h0; rw [h0] at hsid; simp [cloudId3] at hsid
    obtain ⟨i, P, hi, hP, _, hsup, _⟩ := cloud_support3 sq dir _ hne
    have : i = sid := by rw [hi] at hsid; exact Option.some.inj hsid
    subst this
    split at h
    · exact absurd h (by simp)
    · rename_i vtx hvtx
      refine ⟨i, P, vtx, hi, hP, hsup, hvtx, ?_⟩
      have habs : ∀ x : K, @nabs K (fieldNum K sq) x = |x| := fun x => fieldNum_nabs sq x
      split at h
      · exact absurd h (by simp)
      · -- a face
        rename_i fid hscan
        injection h with h; subst h
        obtain ⟨h1, _⟩ := scanFaces_spec p dir ceps vtx.first _ _ hscan
        obtain ⟨j, hj, hrow, F, hF, hc⟩ := h1 fid rfl
        refine ⟨?_, (by intro e he; cases he), (by intro v hv; cases hv)⟩
        intro f' hf'; injection hf' with hf'; subst hf'
        exact ⟨j, List.mem_range.1 hj, hrow, F, hF, hc⟩
      · rename_i hscan
        obtain ⟨_, hnoface⟩ := scanFaces_spec p dir ceps vtx.first _ _ hscan
        have hnf : ∀ i, i < vtx.num → ∃ fid F, p.facesAdjToVertex[vtx.first + i]? = some fid ∧ p.faces[fid]? = some F ∧
            @V3.dot K (fieldNum K sq) F.normal dir < ceps := by
          intro j hj
          obtain ⟨fid, F, a, b, c⟩ := hnoface rfl j (List.mem_range.2 hj)
          exact ⟨fid, F, a, b, not_le.1 c⟩
        split at h
        · exact absurd h (by simp)
        · -- an edge
          rename_i eid hscane
          injection h with h; subst h
          obtain ⟨h1, _⟩ := scanEdges_spec p dir seps vtx.first _ _ hscane
          obtain ⟨j, hj, hrow, E, hE, hc⟩ := h1 eid rfl
          refine ⟨(by intro f hf; cases hf), ?_, (by intro v hv; cases hv)⟩
          intro e' he'; injection he' with he'; subst he'
          refine ⟨hnf, j, List.mem_range.1 hj, hrow, E, hE, ?_⟩
          rw [← habs]; exact hc
        · -- the vertex
          rename_i hscane
          injection h with h; subst h
          obtain ⟨_, hnoedge⟩ := scanEdges_spec p dir seps vtx.first _ _ hscane
          refine ⟨(by intro f hf; cases hf), (by intro e he; cases he), ?_⟩
          intro v hv; injection hv with hv; subst hv
          refine ⟨rfl, hnf, ?_⟩
          intro j hj
          obtain ⟨eid, E, a, b, c⟩ := hnoedge rfl j (List.mem_range.2 hj)
          refine ⟨eid, E, a, b, ?_⟩
          rw [← habs]; exact not_le.1 c

/-! ## `ConvexPolyhedron::feature_normal`: edge and vertex normals lie in the normal cone -/

private theorem foldl_add_supporting (q P : V3 K) :
    letI := fieldNum K sq
    ∀ (ns : List (V3 K)) (acc : V3 K), acc.dot q ≤ acc.dot P → (∀ n ∈ ns, n.dot q ≤ n.dot P) →
      (ns.foldl V3.add acc).dot q ≤ (ns.foldl V3.add acc).dot P := by
  letI : Num K := fieldNum K sq
  intro ns
  induction ns with
  | nil => intro acc h _; simpa using h
  | cons n ns ih =>
    intro acc h hall
    simp only [List.foldl_cons]
    apply ih
    · have := hall n (List.mem_cons_self ..)
      simp only [V3.dot, V3.add] at this h ⊢
      linarith
    · intro m hm; exact hall m (List.mem_cons_of_mem _ hm)

/-- **C10 (`feature_normal` of an edge or a vertex of a convex polyhedron)**: the returned normal is the normalised sum
of the normals of the adjacent faces (`edgeNormalOf n0 n1`, `vertexNormalOf ns`; the closed forms of the C12 model of
`feature_normal`).  If each of those faces is a supporting face through the point `P` of the feature (`n·q ≤ n·P` for all
points `q` of the solid), the returned normal is again a supporting direction at `P` over the whole solid — it lies in the
normal cone of the feature.  (`vertexNormalOf` returns `None` instead of a NaN vector when the sum vanishes.) -/
theorem feature_normal_in_normal_cone (hs : LawfulSqrt sq) (pts : List (V3 K)) (P : V3 K) (ns : List (V3 K))
    (hsup : letI := fieldNum K sq; ∀ n ∈ ns, ∀ q ∈ pts, n.dot q ≤ n.dot P) :
    letI := fieldNum K sq
    (∀ n0 n1, n0 ∈ ns → n1 ∈ ns → ∀ q, hullMem3 pts q → (edgeNormalOf n0 n1).dot q ≤ (edgeNormalOf n0 n1).dot P) ∧
    (∀ n, vertexNormalOf ns = some n → ∀ q, hullMem3 pts q → n.dot q ≤ n.dot P) := by
  letI : Num K := fieldNum K sq
  have scaled : ∀ (a : V3 K) (s : K), 0 ≤ s → (∀ q ∈ pts, @V3.dot K (fieldNum K sq) a q ≤ @V3.dot K (fieldNum K sq) a P) →
      ∀ q, hullMem3 pts q → @V3.dot K (fieldNum K sq) (@V3.sdiv K (fieldNum K sq) a s) q ≤
        @V3.dot K (fieldNum K sq) (@V3.sdiv K (fieldNum K sq) a s) P := by
    intro a s hs0 ha q hq
    refine hull3_le sq _ _ pts q hq (fun v hv => ?_)
    have h := ha v hv
    have e : ∀ w : V3 K, @V3.dot K (fieldNum K sq) (@V3.sdiv K (fieldNum K sq) a s) w = @V3.dot K (fieldNum K sq) a w / s := by
      intro w; simp only [V3.dot, V3.sdiv]; ring
    rw [e, e]
    exact div_le_div_of_nonneg_right h hs0
  have hnorm : ∀ a : V3 K, 0 ≤ sq (@V3.normSq K (fieldNum K sq) a) := by
    intro a
    apply hs.nonneg
    simp only [V3.normSq, V3.dot]
    nlinarith [mul_self_nonneg a.x, mul_self_nonneg a.y, mul_self_nonneg a.z]
  refine ⟨?_, ?_⟩
  · intro n0 n1 h0 h1 q hq
    have hsum : ∀ q ∈ pts, @V3.dot K (fieldNum K sq) (@V3.add K (fieldNum K sq) n0 n1) q ≤
        @V3.dot K (fieldNum K sq) (@V3.add K (fieldNum K sq) n0 n1) P := by
      intro v hv
      have a := hsup n0 h0 v hv
      have b := hsup n1 h1 v hv
      simp only [V3.dot, V3.add] at a b ⊢
      linarith
    exact scaled _ _ (hnorm _) hsum q hq
  · intro n hn q hq
    simp only [vertexNormalOf, tryNew] at hn
    split_ifs at hn with c
    injection hn with hn
    subst hn
    refine scaled _ _ (hnorm _) ?_ q hq
    intro v hv
    apply foldl_add_supporting sq v P ns
    · simp [V3.dot, V3.zero]
    · intro m hm; exact hsup m hm v hv

/-- non-vacuity: two faces of the unit cube through the corner `(1,1,1)` -/
example : ∀ n ∈ ([⟨1, 0, 0⟩, ⟨0, 1, 0⟩] : List (V3 ℚ)), ∀ q ∈ ([⟨1, 1, 1⟩, ⟨-1, 1, 1⟩, ⟨1, -1, -1⟩] : List (V3 ℚ)),
    n.x * q.x + n.y * q.y + n.z * q.z ≤ n.x * 1 + n.y * 1 + n.z * 1 := by
  intro n hn q hq
  simp only [List.mem_cons, List.not_mem_nil, or_false] at hn hq
  rcases hn with rfl | rfl <;> rcases hq with rfl | rfl | rfl <;> norm_num


/-! ## `ConvexPolygon::support_feature_id_toward` (2-D) -/

/-- **C10 (`ConvexPolygon::support_feature_id_toward`, documented angular tolerance)**: with `ns` the edge normals of the
polygon and `ceps = cos ε`: `Face i` ⇒ `ns[i]·dir ≥ ceps` (edge `i` is within `ε` of `dir`) and `i` is the first such edge;
`Vertex v` ⇒ no edge normal is within `ε` of `dir`, and `v` is the first maximiser of `dir·p` over the points — a support
point of the whole polygon; an `Edge` id is never returned. -/
theorem polygon_feature_id_spec (pts : List (V2 K)) (dir : V2 K) (ceps : K) (r : FeatId) :
    letI := fieldNum K sq
    polygonFeatureIdEps pts dir ceps = some r →
    ∃ ns : List (V2 K), polygonNormalsOpt pts = some ns ∧
      (∀ i, r = .face i → ∃ n : V2 K, ns[i]? = some n ∧ ceps ≤ n.dot dir ∧
          ∀ (j : Nat) (m : V2 K), j < i → ns[j]? = some m → m.dot dir < ceps) ∧
      (∀ v, r = .vertex v → (∀ m ∈ ns, m.dot dir < ceps) ∧
          ∃ P, cloudId2 dir pts = some v ∧ pts[v]? = some P ∧ IsSupport2 sq (hullMem2 pts) dir P) ∧
      (∀ e, r ≠ .edge e) := by
  intro h
  letI : Num K := fieldNum K sq
  unfold polygonFeatureIdEps at h
  split at h
  · exact absurd h (by simp)
  · rename_i ns hns
    refine ⟨ns, hns, ?_⟩
    cases hscan : scanNormals2 dir ceps ns 0 with
    | some i =>
      rw [hscan] at h
      injection h with h; subst h
      obtain ⟨h1, _⟩ := scanNormals2_spec dir ceps ns 0 _ hscan
      obtain ⟨_, n, hn, hc, hfirst⟩ := h1 i rfl
      refine ⟨?_, (by intro v hv; cases hv), (by intro e he; cases he)⟩
      intro i' hi'; injection hi' with hi'; subst hi'
      refine ⟨n, by simpa using hn, hc, ?_⟩
      intro j m hj hm
      exact not_le.1 (hfirst j m (by simpa using hj) hm)
    | none =>
      rw [hscan] at h
      obtain ⟨_, h2⟩ := scanNormals2_spec dir ceps ns 0 _ hscan
      cases hid : cloudId2 dir pts with
      | none => rw [hid] at h; simp at h
      | some v =>
        rw [hid] at h
        simp only [Option.map_some, Option.some.injEq] at h
        subst h
        refine ⟨(by intro i hi; cases hi), ?_, (by intro e he; cases he)⟩
        intro v' hv'; injection hv' with hv'; subst hv'
        refine ⟨fun m hm => not_le.1 (h2 rfl m hm), ?_⟩
        have hne : pts ≠ [] := by
          intro h0; rw [h0] at hid; simp [cloudId2] at hid
        obtain ⟨i, P, hi, hP, _, hsup, _⟩ := cloud_support2 sq dir pts hne
        have : i = v := by rw [hi] at hid; exact Option.some.inj hid
        subst this
        exact ⟨P, rfl, hP, hsup⟩


/-! ## `CSOPoint::from_shapes` -/

/-- the configuration-space obstacle (Minkowski difference) `S₁ ⊖ S₂ = {a - b | a ∈ S₁, b ∈ S₂}` -/
def csoMem (S1 S2 : V3 K → Prop) (p : V3 K) : Prop :=
  letI := fieldNum K sq
  ∃ a b, S1 a ∧ S2 b ∧ p = a.sub b

/-- **C10 (`CSOPoint::from_shapes`, Minkowski-difference support)**: `point = orig1 - orig2`,
`orig1 = g1.local_support_point(dir)`, `orig2 = g2.support_point(pos12, -dir)`; if `orig1` is a support point of `S₁` in
direction `dir` and `orig2` a support point of the posed second set `S₂` in direction `-dir`, then `point` is a support
point of `S₁ ⊖ S₂` in direction `dir`. -/
theorem cso_support (S1 S2 : V3 K → Prop) (loc1 : V3 K → V3 K) (posed2 : Iso3 K → V3 K → V3 K) (pos12 : Iso3 K) (dir : V3 K) :
    letI := fieldNum K sq
    let c := csoFromShapes loc1 posed2 pos12 dir
    c.orig1 = loc1 dir ∧ c.orig2 = posed2 pos12 dir.neg ∧ c.point = c.orig1.sub c.orig2 ∧
    (IsSupport3 sq S1 dir (loc1 dir) → IsSupport3 sq S2 dir.neg (posed2 pos12 dir.neg) →
      IsSupport3 sq (csoMem sq S1 S2) dir c.point) := by
  intro c
  refine ⟨rfl, rfl, rfl, ?_⟩
  rintro ⟨hm1, hx1⟩ ⟨hm2, hx2⟩
  refine ⟨⟨_, _, hm1, hm2, rfl⟩, ?_⟩
  rintro q ⟨a, b, ha, hb, rfl⟩
  have h1 := hx1 a ha
  have h2 := hx2 b hb
  simp only [c, csoFromShapes, csoNew, V3.dot, V3.sub, V3.neg] at h1 h2 ⊢
  linarith

/-- **C10 (`CSOPoint::from_shapes` with the trait-default posed support map)**: if `loc1`, `loc2` are support functions of
`S₁`, `S₂` (for the two directions that are actually queried), the CSO point is a support point of
`S₁ ⊖ pos12·S₂` — for every pose (any quaternion, any translation).  The same statement covers `from_shapes_toward`
(`csoFromShapesToward` is the same expression on the `_toward` methods). -/
theorem cso_support_default (S1 S2 : V3 K → Prop) (loc1 loc2 : V3 K → V3 K) (pos12 : Iso3 K) (dir : V3 K) :
    letI := fieldNum K sq
    IsSupport3 sq S1 dir (loc1 dir) →
    IsSupport3 sq S2 (pos12.invRot dir.neg) (loc2 (pos12.invRot dir.neg)) →
    IsSupport3 sq (csoMem sq S1 (fun p => ∃ q, S2 q ∧ p = pos12.act q)) dir
      (csoFromShapes loc1 (supportPoint3 loc2) pos12 dir).point ∧
    csoFromShapesToward loc1 (supportPointToward3 loc2) pos12 dir = csoFromShapes loc1 (supportPoint3 loc2) pos12 dir := by
  intro h1 h2
  letI : Num K := fieldNum K sq
  refine ⟨?_, rfl⟩
  have hp := (posed_support3 sq S2 loc2 pos12 (@V3.neg K (fieldNum K sq) dir)).2 h2
  exact (cso_support sq S1 _ loc1 (supportPoint3 loc2) pos12 dir).2.2.2 h1 hp

/-- **C10 (CSO of two cuboids)**: hypothesis-free instance — for all non-negative half-extents, every pose and every
direction, `CSOPoint::from_shapes(pos12, cuboid1, cuboid2, dir).point` is a support point of `C₁ ⊖ pos12·C₂`. -/
theorem cso_cuboid_cuboid (he1 he2 : V3 K) (h1 : 0 ≤ he1.x ∧ 0 ≤ he1.y ∧ 0 ≤ he1.z) (h2 : 0 ≤ he2.x ∧ 0 ≤ he2.y ∧ 0 ≤ he2.z)
    (pos12 : Iso3 K) (dir : V3 K) :
    letI := fieldNum K sq
    IsSupport3 sq (csoMem sq (Cuboid3.mk he1).Mem (fun p => ∃ q, (Cuboid3.mk he2).Mem q ∧ p = pos12.act q)) dir
      (csoFromShapes (cuboidLocal3 he1) (supportPoint3 (cuboidLocal3 he2)) pos12 dir).point := by
  exact (cso_support_default sq _ _ _ _ pos12 dir (cuboid_support3 sq he1 dir h1.1 h1.2.1 h1.2.2)
    (cuboid_support3 sq he2 _ h2.1 h2.2.1 h2.2.2)).1

example : (0:ℚ) ≤ 1 ∧ (0:ℚ) ≤ 2 ∧ (0:ℚ) ≤ 1/2 := by norm_num

/-! ## cylinder / cone features contain a support point up to the documented `try_normalize(eps)` tolerance -/

private theorem eps_pos' : letI := fieldNum K sq; (0:K) < eps := by
  simp only [eps, fieldNum_lit]
  have : (0:ℚ) < mkRat 1 4503599627370496 := by rw [Rat.mkRat_eq_div]; norm_num
  exact_mod_cast this

/-- `dir2 = try_normalize((dir.x, dir.z), eps).unwrap_or((1,0))` is a unit vector; its gain
`g = dir.x·dir2.x + dir.z·dir2.y` equals the radial norm `n` when the normalisation succeeds (`eps < n`) or when the
radial part is exactly zero, and is never more than `2·eps` below `n`. -/
private theorem capDir_gain (hs : LawfulSqrt sq) (dir : V3 K) :
    letI := fieldNum K sq
    let n := sq (dir.x * dir.x + dir.z * dir.z)
    let g := dir.x * (capDir dir).x + dir.z * (capDir dir).y
    (capDir dir).x * (capDir dir).x + (capDir dir).y * (capDir dir).y = 1 ∧ 0 ≤ n ∧ n * n = dir.x * dir.x + dir.z * dir.z ∧
      n - 2 * eps ≤ g ∧ ((eps < n ∨ n = 0) → g = n) := by
  letI : Num K := fieldNum K sq
  intro n g
  have h0 : 0 ≤ dir.x * dir.x + dir.z * dir.z := by nlinarith [mul_self_nonneg dir.x, mul_self_nonneg dir.z]
  have hnn : n * n = dir.x * dir.x + dir.z * dir.z := hs.sq_mul _ h0
  have hn0 : 0 ≤ n := hs.nonneg _ h0
  have he := eps_pos' sq
  by_cases c : sq (dir.x * dir.x + dir.z * dir.z) ≤ @eps K (fieldNum K sq)
  · have hcap : capDir dir = (⟨1, 0⟩ : V2 K) := by
      simp [capDir, tryNormalize2, V2.norm, V2.normSq, V2.dot, fieldNum_sqrt, c]
    have hg : g = dir.x := by simp only [g, hcap]; ring
    have hx : -n ≤ dir.x := by
      by_contra hlt
      push Not at hlt
      nlinarith [mul_self_nonneg dir.z]
    refine ⟨by rw [hcap]; norm_num, hn0, hnn, by rw [hg]; linarith, ?_⟩
    rintro (h | h)
    · exact absurd c (not_le.2 h)
    · rw [hg, h]
      rw [h] at hnn
      nlinarith [mul_self_nonneg dir.x, mul_self_nonneg dir.z]
  · have hn : 0 < n := lt_trans he (not_le.1 c)
    have hne := ne_of_gt hn
    have hcap : capDir dir = (⟨dir.x / n, dir.z / n⟩ : V2 K) := by
      simp only [capDir, tryNormalize2, V2.norm, V2.normSq, V2.dot, fieldNum_sqrt, c, if_false, Option.getD_some, V2.sdiv]
      rfl
    have hg : g = n := by
      simp only [g, hcap]
      field_simp
      linarith
    refine ⟨?_, hn0, hnn, by rw [hg]; linarith, fun _ => hg⟩
    rw [hcap]
    have : dir.x / n * (dir.x / n) + dir.z / n * (dir.z / n) = (dir.x * dir.x + dir.z * dir.z) / (n * n) := by
      field_simp
    rw [this, ← hnn, div_self (mul_ne_zero hne hne)]

/-- **C10 (cylinder `local_support_feature` holds a support point, up to the `try_normalize(eps)` tolerance)**: for
`half_height ≥ 0`, `radius ≥ 0` and every direction, some vertex `v` of the returned feature is a point of the cylinder with
`dir·q ≤ dir·v + 2·eps·r` for every point `q` of the cylinder; and `v` is an *exact* support point whenever the radial part
`(dir.x, dir.z)` of the direction is exactly zero or its norm exceeds `eps = f64::EPSILON` (the `try_normalize` guard). -/
theorem cylinder_feature_near_support (hs : LawfulSqrt sq) (hh r : K) (dir : V3 K) (hh0 : 0 ≤ hh) (hr : 0 ≤ r) :
    letI := fieldNum K sq
    ∃ v ∈ (cylinderFeature hh r dir).verts, (Cylinder.mk hh r).Mem v ∧
      (∀ q, (Cylinder.mk hh r).Mem q → dir.dot q ≤ dir.dot v + 2 * eps * r) ∧
      ((eps < sq (dir.x * dir.x + dir.z * dir.z) ∨ sq (dir.x * dir.x + dir.z * dir.z) = 0) →
        IsSupport3 sq (Cylinder.mk hh r).Mem dir v) := by
  letI : Num K := fieldNum K sq
  obtain ⟨hu, hn0, hnn, hgain, hexact⟩ := capDir_gain sq hs dir
  set n := sq (dir.x * dir.x + dir.z * dir.z) with hn
  set d2 := @capDir K (fieldNum K sq) dir with hd2
  -- the candidate: radial part `dir2·r`, height on the side of `dir.y`
  let v : V3 K := ⟨d2.x * r, if dir.y < 0 then -hh else hh, d2.y * r⟩
  have hvmem : (Cylinder.mk hh r).Mem v := by
    refine ⟨?_, ?_⟩
    · simp only [v]; split_ifs <;> constructor <;> linarith
    · simp only [v]; nlinarith [hu]
  have hbound : ∀ q, (Cylinder.mk hh r).Mem q →
      @V3.dot K (fieldNum K sq) dir q ≤ @V3.dot K (fieldNum K sq) dir v + r * (n - (dir.x * d2.x + dir.z * d2.y)) := by
    rintro q ⟨hy, hq⟩
    have h2 := dot_le2 dir.x dir.z q.x q.z n r hn0 hr hnn hq
    have h1 : dir.y * q.y ≤ dir.y * (if dir.y < 0 then -hh else hh) := by
      split_ifs with c
      · nlinarith [hy.1, hy.2]
      · push Not at c; nlinarith [hy.1, hy.2]
    simp only [V3.dot, v]
    nlinarith
  have hv_in : v ∈ (cylinderFeature hh r dir).verts := by
    unfold cylinderFeature
    simp only [copysign_field, abs_of_nonneg hh0]
    by_cases c1 : @nabs K (fieldNum K sq) dir.y < @lit K (fieldNum K sq) 1 2
    · simp only [c1, if_true, v, ← hd2]
      by_cases c2 : dir.y < 0
      · simp [c2]
      · simp [c2]
    · by_cases c2 : dir.y < 0
      · simp [c1, c2, v, ← hd2]
      · simp [c1, c2, v, ← hd2]
  refine ⟨v, hv_in, hvmem, ?_, ?_⟩
  · intro q hq
    have := hbound q hq
    have : r * (n - (dir.x * d2.x + dir.z * d2.y)) ≤ 2 * @eps K (fieldNum K sq) * r := by nlinarith
    linarith [hbound q hq]
  · intro hcase
    refine ⟨hvmem, fun q hq => ?_⟩
    have := hbound q hq
    rw [hexact hcase] at this
    linarith

example : (0:ℚ) ≤ 1 ∧ (0:ℚ) ≤ 2 := by norm_num

private theorem cone_bound' (hh r n dx dy dz qx qy qz : K) (hh0 : 0 < hh) (hr : 0 ≤ r) (hn : 0 ≤ n)
    (hnn : n * n = dx * dx + dz * dz) (hy : -hh ≤ qy ∧ qy ≤ hh)
    (hq : (qx * qx + qz * qz) * ((2 * hh) * (2 * hh)) ≤ (r * r) * ((hh - qy) * (hh - qy))) :
    dx * qx + dy * qy + dz * qz ≤ max (dy * hh) (n * r - dy * hh) := by
  have hs : 0 ≤ hh - qy := by linarith [hy.2]
  -- L·2hh ≤ n·r·(hh - qy)
  have hL : (dx * qx + dz * qz) * (2 * hh) ≤ n * r * (hh - qy) := by
    apply le_of_mul_self_le (mul_nonneg (mul_nonneg hn hr) hs)
    have c := cs2 dx dz qx qz
    have h4 : 0 ≤ (2 * hh) * (2 * hh) := mul_self_nonneg _
    calc (dx * qx + dz * qz) * (2 * hh) * ((dx * qx + dz * qz) * (2 * hh))
        = ((dx * qx + dz * qz) * (dx * qx + dz * qz)) * ((2 * hh) * (2 * hh)) := by ring
      _ ≤ ((dx * dx + dz * dz) * (qx * qx + qz * qz)) * ((2 * hh) * (2 * hh)) :=
          mul_le_mul_of_nonneg_right c h4
      _ = (n * n) * ((qx * qx + qz * qz) * ((2 * hh) * (2 * hh))) := by rw [hnn]; ring
      _ ≤ (n * n) * ((r * r) * ((hh - qy) * (hh - qy))) :=
          mul_le_mul_of_nonneg_left hq (mul_self_nonneg n)
      _ = n * r * (hh - qy) * (n * r * (hh - qy)) := by ring
  -- 2hh·(d·q) ≤ 2hh·A + s·(B - A),  s = hh - qy ∈ [0, 2hh]
  have h2 : 0 < 2 * hh := by linarith
  rcases le_total (n * r - dy * hh) (dy * hh) with hAB | hAB
  · rw [max_eq_left hAB]
    have : (dx * qx + dy * qy + dz * qz) * (2 * hh) ≤ (dy * hh) * (2 * hh) := by
      nlinarith [mul_nonneg hs (sub_nonneg.2 hAB)]
    exact le_of_mul_le_mul_right this h2
  · rw [max_eq_right hAB]
    have hs2 : 0 ≤ 2 * hh - (hh - qy) := by linarith [hy.1]
    have : (dx * qx + dy * qy + dz * qz) * (2 * hh) ≤ (n * r - dy * hh) * (2 * hh) := by
      nlinarith [mul_nonneg hs2 (sub_nonneg.2 hAB)]
    exact le_of_mul_le_mul_right this h2


/-- **C10 (cone `local_support_feature` holds a support point, up to the `try_normalize(eps)` tolerance)**: for
`half_height > 0`, `radius ≥ 0` and every direction, some vertex `v` of the returned feature (the generator
rim-point–apex for `dir.y > 0`, the base square otherwise) is a point of the cone with `dir·q ≤ dir·v + 2·eps·r` for every
point `q` of the cone, and `v` is an exact support point whenever the radial part of the direction is exactly zero or its
norm exceeds `eps`. -/
theorem cone_feature_near_support (hs : LawfulSqrt sq) (hh r : K) (dir : V3 K) (hh0 : 0 < hh) (hr : 0 ≤ r) :
    letI := fieldNum K sq
    ∃ v ∈ (coneFeature hh r dir).verts, (Cone.mk hh r).Mem v ∧
      (∀ q, (Cone.mk hh r).Mem q → dir.dot q ≤ dir.dot v + 2 * eps * r) ∧
      ((eps < sq (dir.x * dir.x + dir.z * dir.z) ∨ sq (dir.x * dir.x + dir.z * dir.z) = 0) →
        IsSupport3 sq (Cone.mk hh r).Mem dir v) := by
  letI : Num K := fieldNum K sq
  obtain ⟨hu, hn0, hnn, hgain, hexact⟩ := capDir_gain sq hs dir
  have he := eps_pos' sq
  set n := sq (dir.x * dir.x + dir.z * dir.z) with hn
  set d2 := @capDir K (fieldNum K sq) dir with hd2
  let rim : V3 K := ⟨d2.x * r, -hh, d2.y * r⟩
  let apex : V3 K := ⟨0, hh, 0⟩
  have hrim : (Cone.mk hh r).Mem rim := by
    refine ⟨⟨le_refl _, by linarith⟩, ?_⟩
    simp only [rim, fieldNum_two]
    have : d2.x * r * (d2.x * r) + d2.y * r * (d2.y * r) = r * r := by linear_combination (r * r) * hu
    rw [this]
    apply le_of_eq; ring
  have hapex : (Cone.mk hh r).Mem apex := by
    refine ⟨⟨by linarith, le_refl _⟩, ?_⟩
    simp only [apex, fieldNum_two]
    apply le_of_eq; ring
  have bound : ∀ q, (Cone.mk hh r).Mem q →
      @V3.dot K (fieldNum K sq) dir q ≤ max (dir.y * hh) (n * r - dir.y * hh) := by
    rintro q ⟨hy, hq⟩
    simp only [fieldNum_two] at hq
    exact cone_bound' hh r n dir.x dir.y dir.z q.x q.y q.z hh0 hr hn0 hnn hy hq
  have hdrim : @V3.dot K (fieldNum K sq) dir rim = r * (dir.x * d2.x + dir.z * d2.y) - dir.y * hh := by
    simp only [V3.dot, rim]; ring
  have hdapex : @V3.dot K (fieldNum K sq) dir apex = dir.y * hh := by
    simp only [V3.dot, apex]; ring
  have hslack : r * (n - (dir.x * d2.x + dir.z * d2.y)) ≤ 2 * @eps K (fieldNum K sq) * r := by nlinarith
  have hslack0 : 0 ≤ 2 * @eps K (fieldNum K sq) * r := by positivity
  by_cases c : 0 < dir.y
  · have hverts : (coneFeature hh r dir).verts = [rim, apex] := by
      simp only [coneFeature, c, if_true, rim, apex, ← hd2]
    rcases le_total (n * r - dir.y * hh) (dir.y * hh) with hAB | hAB
    · refine ⟨apex, by rw [hverts]; simp, hapex, ?_, ?_⟩
      · intro q hq
        have := bound q hq
        rw [max_eq_left hAB] at this
        rw [hdapex]; linarith
      · intro _
        refine ⟨hapex, fun q hq => ?_⟩
        have := bound q hq
        rw [max_eq_left hAB] at this
        rw [hdapex]; exact this
    · refine ⟨rim, by rw [hverts]; simp, hrim, ?_, ?_⟩
      · intro q hq
        have := bound q hq
        rw [max_eq_right hAB] at this
        rw [hdrim]; nlinarith
      · intro hcase
        refine ⟨hrim, fun q hq => ?_⟩
        have := bound q hq
        rw [max_eq_right hAB] at this
        rw [hdrim, hexact hcase]; linarith
  · have hverts : rim ∈ (coneFeature hh r dir).verts := by
      simp only [coneFeature, c, if_false, rim, ← hd2]
      simp
    push Not at c
    have hAB : dir.y * hh ≤ n * r - dir.y * hh := by nlinarith [mul_nonneg hn0 hr]
    refine ⟨rim, hverts, hrim, ?_, ?_⟩
    · intro q hq
      have := bound q hq
      rw [max_eq_right hAB] at this
      rw [hdrim]; nlinarith
    · intro hcase
      refine ⟨hrim, fun q hq => ?_⟩
      have := bound q hq
      rw [max_eq_right hAB] at this
      rw [hdrim, hexact hcase]; linarith

example : (0:ℚ) < 1 ∧ (0:ℚ) ≤ 2 := by norm_num


/-! ## degenerate-direction guards: the fallback branch is correct, and the guards cannot be weakened or dropped

The variants below are *not* models of the code: they are the code with one guard altered, and each theorem exhibits an
input of the property's domain on which the altered code breaks the property. -/

private theorem sqrt_unique' (hs : LawfulSqrt sq) {x y : K} (hy : 0 ≤ y) (h : y * y = x) : sq x = y := by
  have hx : 0 ≤ x := by rw [← h]; exact mul_self_nonneg y
  have h1 := hs.nonneg x hx
  have h2 := hs.sq_mul x hx
  have h3 : sq x * sq x = y * y := by rw [h2, h]
  rcases mul_self_eq_mul_self_iff.1 h3 with e | e
  · exact e
  · exact le_antisymm (by linarith) (by linarith)

/-- **C10 (the tolerance of the cylinder feature is real)**: in the gap `0 < |(dir.x, dir.z)| ≤ eps` the `try_normalize`
fallback replaces the radial direction by `(1, 0)`; for `dir = (3t, 1, 4t)` with `0 < 5t ≤ eps` no vertex of the returned cap
square is an exact support point (the rim point `(3r/5, hh, 4r/5)` is strictly better than each of them) — so the exact
statement is false and `cylinder_feature_near_support` is the right one. -/
theorem cylinder_feature_gap (hs : LawfulSqrt sq) (t hh r : K) (ht : 0 < t)
    (hte : letI := fieldNum K sq; 5 * t ≤ eps) (hh0 : 0 ≤ hh) (hr : 0 < r) :
    letI := fieldNum K sq
    ∀ v ∈ (cylinderFeature hh r ⟨3 * t, 1, 4 * t⟩).verts, ¬ IsSupport3 sq (Cylinder.mk hh r).Mem ⟨3 * t, 1, 4 * t⟩ v := by
  letI : Num K := fieldNum K sq
  have hn : sq (3 * t * (3 * t) + 4 * t * (4 * t)) = 5 * t := sqrt_unique' sq hs (by linarith) (by ring)
  have hcap : capDir (⟨3 * t, 1, 4 * t⟩ : V3 K) = (⟨1, 0⟩ : V2 K) := by
    simp [capDir, tryNormalize2, V2.norm, V2.normSq, V2.dot, fieldNum_sqrt, hn, hte]
  have hq : (Cylinder.mk hh r).Mem (⟨3 * r / 5, hh, 4 * r / 5⟩ : V3 K) := by
    refine ⟨⟨by linarith, le_refl _⟩, ?_⟩
    apply le_of_eq; ring
  have hhalf : ¬ (@nabs K (fieldNum K sq) (1 : K) < @lit K (fieldNum K sq) 1 2) := by
    rw [fieldNum_nabs, fieldNum_lit]
    have : ((mkRat 1 2 : ℚ) : K) = 1 / 2 := by norm_num
    rw [this, abs_one]; norm_num
  intro v hv
  rintro ⟨_, hmax⟩
  have h := hmax _ hq
  unfold cylinderFeature at hv
  simp only [hcap, copysign_field, abs_of_nonneg hh0, hhalf, if_false, show ¬ ((1 : K) < 0) by norm_num] at hv
  simp only [List.mem_cons, List.not_mem_nil, or_false] at hv
  rcases hv with rfl | rfl | rfl | rfl <;> simp only [V3.dot] at h <;> nlinarith [mul_pos ht hr]


/-- **C10 (capsule, the fallback branch)**: on the zero vector `Unit::try_new(dir, 0.0)` fails and the code falls back to
`+Y`; the result is the `+Y` support point, a point of the capsule (and `0·p` is trivially maximal). -/
theorem capsule_zero_direction_fallback (a b : V3 K) (r : K) (hr : 0 ≤ r) :
    letI := fieldNum K sq
    capsuleLocal3 a b r ⟨0, 0, 0⟩ = capsuleToward3 a b r ⟨0, 1, 0⟩ ∧
    IsSupport3 sq (Capsule3.mk a b r).Mem ⟨0, 0, 0⟩ (capsuleLocal3 a b r ⟨0, 0, 0⟩) := by
  letI : Num K := fieldNum K sq
  have h0 : capsuleLocal3 a b r (⟨0, 0, 0⟩ : V3 K) = capsuleToward3 a b r ⟨0, 1, 0⟩ := by
    have hnone : tryNew3 (⟨0, 0, 0⟩ : V3 K) 0 = none := by
      simp only [tryNew3]
      split_ifs with h
      · exfalso
        simp only [V3.normSq, V3.dot] at h
        have h' : (0 : K) * 0 < 0 * 0 + 0 * 0 + 0 * 0 := h
        simp at h'
      · rfl
    simp only [capsuleLocal3, hnone, Option.getD_none]
  refine ⟨h0, ?_, ?_⟩
  · rw [h0]
    simp only [capsuleToward3]
    split_ifs
    · refine ⟨a, ⟨0, le_refl _, zero_le_one, by simp [V3.add, V3.smul, V3.sub]⟩, ?_⟩
      simp only [V3.normSq, V3.dot, V3.sub, V3.add, V3.smul]
      nlinarith
    · refine ⟨b, ⟨1, zero_le_one, le_refl _, by simp [V3.add, V3.smul, V3.sub]⟩, ?_⟩
      simp only [V3.normSq, V3.dot, V3.sub, V3.add, V3.smul]
      nlinarith
  · intro q _
    simp [V3.dot]

/-- `Capsule::local_support_point` with a threshold `thr` instead of `0.0` in `Unit::try_new` (altered code) -/
def capsuleLocalThr {K : Type} [Num K] (thr : K) (a b : V3 K) (r : K) (dir : V3 K) : V3 K :=
  capsuleToward3 a b r ((tryNew3 dir thr).getD ⟨0, 1, 0⟩)

/-- **C10 (the capsule guard must be "exactly zero")**: with *any* positive threshold `thr` the altered code is wrong on the
non-zero direction `(0, -thr, 0)`: it falls back to `+Y` and returns the top of the ball `B(0, 1)` although the bottom
`(0,-1,0)` has a strictly larger `dir·p`. -/
theorem guard_capsule_threshold_must_be_zero (thr : K) (hthr : 0 < thr) :
    letI := fieldNum K sq
    ¬ IsSupport3 sq (Capsule3.mk ⟨0, 0, 0⟩ ⟨0, 0, 0⟩ 1).Mem ⟨0, -thr, 0⟩
        (capsuleLocalThr thr ⟨0, 0, 0⟩ ⟨0, 0, 0⟩ 1 ⟨0, -thr, 0⟩) := by
  letI : Num K := fieldNum K sq
  rintro ⟨_, hmax⟩
  have hq : (Capsule3.mk (⟨0, 0, 0⟩ : V3 K) ⟨0, 0, 0⟩ 1).Mem ⟨0, -1, 0⟩ := by
    refine ⟨⟨0, 0, 0⟩, ⟨0, le_refl _, zero_le_one, by simp [V3.add, V3.smul, V3.sub]⟩, ?_⟩
    simp [V3.normSq, V3.dot, V3.sub]
  have h := hmax _ hq
  have hfall : tryNew3 (⟨0, -thr, 0⟩ : V3 K) thr = none := by
    simp [tryNew3, V3.normSq, V3.dot]
  simp only [capsuleLocalThr, hfall, Option.getD_none, capsuleToward3, V3.dot, V3.add, V3.smul] at h
  simp at h
  linarith

/-- `Cylinder::local_support_point` with `try_normalize_mut(thr)` instead of `normalize_mut().is_zero()` (altered code):
the radial part is dropped when its norm is `≤ thr`. -/
def cylinderLocalThr {K : Type} [Num K] (thr hh r : K) (dir : V3 K) : V3 K :=
  let v0 : V3 K := ⟨dir.x, 0, dir.z⟩
  let n := v0.norm
  let v2 : V3 K := if n ≤ thr then V3.zero else (v0.sdiv n).smul r
  ⟨v2.x, copysign hh dir.y, v2.z⟩

/-- **C10 (the cylinder guard must be "exactly zero")**: with any positive threshold the altered code returns a point of
the axis for the non-zero horizontal direction `(thr, 0, 0)`, although the rim point `(r, 0, 0)` is strictly better. -/
theorem guard_cylinder_threshold_must_be_zero (hs : LawfulSqrt sq) (thr hh r : K) (hthr : 0 < thr) (hh0 : 0 ≤ hh) (hr : 0 < r) :
    letI := fieldNum K sq
    ¬ IsSupport3 sq (Cylinder.mk hh r).Mem ⟨thr, 0, 0⟩ (cylinderLocalThr thr hh r ⟨thr, 0, 0⟩) := by
  letI : Num K := fieldNum K sq
  rintro ⟨_, hmax⟩
  have hq : (Cylinder.mk hh r).Mem (⟨r, 0, 0⟩ : V3 K) := by
    refine ⟨⟨by simpa using hh0, hh0⟩, ?_⟩
    simp
  have h := hmax _ hq
  have hn : sq (thr * thr + 0 * 0 + 0 * 0) = thr := sqrt_unique' sq hs hthr.le (by ring)
  simp only [cylinderLocalThr, V3.norm, V3.normSq, V3.dot, fieldNum_sqrt, hn, le_refl, if_true, V3.zero] at h
  nlinarith

/-- `PolygonalFeatureMap for Cylinder` with `dir2 = Vector2::new(dir.x, dir.z).normalize()` — the `try_normalize(eps)
.unwrap_or(Vector2::x())` fallback removed (altered code; only the cap branch is needed here) -/
def cylinderCapNoGuard {K : Type} [Num K] (hh r : K) (dir : V3 K) : List (V3 K) :=
  let d2 := normalize2 (⟨dir.x, dir.z⟩ : V2 K)
  let y := copysign hh dir.y
  [⟨d2.x * r, y, d2.y * r⟩, ⟨-d2.y * r, y, d2.x * r⟩, ⟨-d2.x * r, y, -d2.y * r⟩, ⟨d2.y * r, y, -d2.x * r⟩]

private theorem nan_sqrtExact0 : Rat.sqrtExact? 0 = some 0 := by simp [Rat.sqrtExact?]
private theorem nan_norm0 : (⟨some 0, some 0⟩ : V2 NaNable).norm = (some 0 : NaNable) := by
  show (match (some ((0:Rat) * 0 + 0 * 0) : NaNable) with
    | some x => if x < 0 then none else
        match Rat.sqrtExact? x with
        | some r => some r
        | none => some (Rat.sqrtApprox x)
    | none => none) = some 0
  simp [nan_sqrtExact0]
private theorem nan_div0 : HDiv.hDiv (α := NaNable) (β := NaNable) (γ := NaNable) (some 0) (some 0) = none := rfl
private theorem nan_mul (x : NaNable) : HMul.hMul (α := NaNable) (β := NaNable) (γ := NaNable) none x = none := rfl
private theorem nan_neg : Neg.neg (α := NaNable) none = none := rfl

/-- **C10 (the `try_normalize` fallback of the cylinder feature is necessary)**: for the axis direction `(0, 1, 0)` the
altered code divides the zero vector by its zero norm.  In exact arithmetic (`0/0 = 0`) the four "corners of the inscribed
square" collapse onto the axis — none is on the rim circle `x² + z² = r²` that `cylinder_feature_vertices` guarantees for
the real code; at the NaN-propagating instance (`0/0 = NaN`, like binary64) every horizontal coordinate is NaN. -/
theorem guard_cylinder_feature_fallback_needed (hs : LawfulSqrt sq) (hh r : K) (hr : 0 < r) :
    letI := fieldNum K sq
    (∀ v ∈ cylinderCapNoGuard hh r ⟨0, 1, 0⟩, v.x * v.x + v.z * v.z ≠ r * r) ∧
    (cylinderCapNoGuard (K := NaNable) (some 1) (some 1) ⟨some 0, some 1, some 0⟩).map (·.x) = [none, none, none, none] := by
  letI : Num K := fieldNum K sq
  have hn : sq (0 * 0 + 0 * 0) = (0 : K) := sqrt_unique' sq hs (le_refl _) (by ring)
  refine ⟨?_, (by simp [cylinderCapNoGuard, normalize2, V2.sdiv, nan_norm0, nan_div0, nan_mul, nan_neg]; rfl)⟩
  intro v hv
  simp only [cylinderCapNoGuard, normalize2, V2.sdiv, V2.norm, V2.normSq, V2.dot, fieldNum_sqrt, hn, List.mem_cons,
    List.not_mem_nil, or_false] at hv
  have hr2 : (0 : K) ≠ r * r := ne_of_lt (mul_pos hr hr)
  rcases hv with rfl | rfl | rfl | rfl <;> simpa using hr2


end C10
