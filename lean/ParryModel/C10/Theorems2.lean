import ParryModel.C10.Theorems1
import ParryModel.C10.ModelPoly
namespace C10
end C10
