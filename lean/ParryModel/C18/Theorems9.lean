import ParryModel.C18.LemmasGrid3
import ParryModel.C18.Theorems7
import ParryModel.C18.Theorems8
/-!
# C18 theorems, part 9: the 3-D voxelizer covers its input (lawful instance)

`Model.Vox3.voxelize3` at the lawful instance (`fieldNum K sq`, `x as u32` = `fieldCast tr` with `LawfulTrunc tr`):
every cell a triangle of the mesh passes through is `PrimitiveOnSurface` in the returned volume, in every `FillMode`
(`vox3_meets_imp_surface`); hence every point of every triangle lies in a surface voxel (`vox3_points_covered`); and on a
valid input none of the panic sites (index lookups, the three `assert!`s) can fire (`vox3_no_panic_field`).
`InCell3 origin scale n p` is the closed world-space cube of cell `n` (centre `origin + n · scale`, side `scale`),
`InTri3 a b c p` the closed triangle (convex combinations of the vertices).
-/
set_option linter.style.haveILetI false
set_option linter.unusedSectionVars false
set_option linter.unusedVariables false
set_option linter.unusedSimpArgs false
namespace C18
open Model Model.Vox Model.Vox3

section field
variable {K : Type} [Field K] [LinearOrder K] [IsStrictOrderedRing K] (sq : K → K) (tr : K → Nat)

/-- **vox3_meets_imp_surface** (`dim3`, every `FillMode`, no panic, `resolution ≥ 2`, the points do not all coincide; lawful
instance).  If a point `p` of a triangle `t` of the index buffer (closed triangle `a b c`) lies in the closed world-space
cube of an in-grid cell `n`, then `n` is `PrimitiveOnSurface` in the returned volume: the candidate range computed from
the three vertex cells contains every cell the triangle meets, and `intersection_test_aabb_triangle` is complete. -/
theorem vox3_meets_imp_surface (hsq : LawfulSqrt sq) (htr : LawfulTrunc tr) (flood dc : Bool)
    (res : Nat) (hres : 2 ≤ res) (p0 : V3 K) (ps : List (V3 K)) (tris : List (Nat × Nat × Nat)) :
    letI := fieldNum K sq; letI := fieldCast tr
    ((cloudAabb3 p0 ps).1.x < (cloudAabb3 p0 ps).2.x ∨ (cloudAabb3 p0 ps).1.y < (cloudAabb3 p0 ps).2.y ∨
      (cloudAabb3 p0 ps).1.z < (cloudAabb3 p0 ps).2.z) →
    (voxelize3 flood dc res p0 ps tris).1.panic = false →
    ∀ t ∈ tris, ∀ a b c : V3 K, (p0 :: ps)[t.1]? = some a → (p0 :: ps)[t.2.1]? = some b → (p0 :: ps)[t.2.2]? = some c →
    ∀ p, InTri3 a b c p →
    ∀ n, InB3 (voxelize3 flood dc res p0 ps tris).1.ni (voxelize3 flood dc res p0 ps tris).1.nj
        (voxelize3 flood dc res p0 ps tris).1.nk n →
      InCell3 (voxelize3 flood dc res p0 ps tris).1.origin (voxelize3 flood dc res p0 ps tris).1.scale n p →
      getC3 (voxelize3 flood dc res p0 ps tris).1.ni (voxelize3 flood dc res p0 ps tris).1.nj
        (voxelize3 flood dc res p0 ps tris).1.vals n = .surf := by
  letI := fieldNum K sq; letI := fieldCast tr
  intro hext hp t ht a b c ha hb hc p hmem n hn hcell
  obtain ⟨q1, q2, q3, q4, q5, _⟩ := vox3_params flood dc res p0 ps tris _ rfl hp
  have hiff := vox3_surface_iff_points flood dc res (by omega) p0 ps tris _ rfl hp _ rfl n hn
  have hbb := cloudAabb3_bounds sq p0 ps
  have hba := hbb a (List.mem_of_getElem? ha)
  have hbbb := hbb b (List.mem_of_getElem? hb)
  have hbc := hbb c (List.mem_of_getElem? hc)
  obtain ⟨hS, hI, hSI⟩ := gridParams3_field sq tr res hres (cloudAabb3 p0 ps).1 (cloudAabb3 p0 ps).2
    (le_trans hba.1.1 hba.1.2) (le_trans hba.2.1.1 hba.2.1.2) (le_trans hba.2.2.1 hba.2.2.2) hext
  obtain ⟨u, v, w, hu, hv, hw, h1, hpx, hpy, hpz⟩ := hmem
  rw [q4, q5] at hcell
  rw [q4] at hiff
  generalize (cloudAabb3 p0 ps).1 = O at *
  generalize (gridParams3 res O (cloudAabb3 p0 ps).2).2.2.2 = S at *
  generalize invScale3 res O (cloudAabb3 p0 ps).2 = INV at *
  have hx := (grid_dist3 S INV hSI hS hI _ O.x n.1).mp hcell.1
  have hy := (grid_dist3 S INV hSI hS hI _ O.y n.2.1).mp hcell.2.1
  have hz := (grid_dist3 S INV hSI hS hI _ O.z n.2.2).mp hcell.2.2
  have ex : (p.x - O.x) * INV = u * ((a.sub O).smul INV).x + v * ((b.sub O).smul INV).x + w * ((c.sub O).smul INV).x := by
    simp only [V3.sub, V3.smul]; rw [hpx]; linear_combination (O.x * INV) * h1
  have ey : (p.y - O.y) * INV = u * ((a.sub O).smul INV).y + v * ((b.sub O).smul INV).y + w * ((c.sub O).smul INV).y := by
    simp only [V3.sub, V3.smul]; rw [hpy]; linear_combination (O.y * INV) * h1
  have ez : (p.z - O.z) * INV = u * ((a.sub O).smul INV).z + v * ((b.sub O).smul INV).z + w * ((c.sub O).smul INV).z := by
    simp only [V3.sub, V3.smul]; rw [hpz]; linear_combination (O.z * INV) * h1
  rw [ex] at hx; rw [ey] at hy; rw [ez] at hz
  have nax : 0 ≤ ((a.sub O).smul INV).x := by simp only [V3.sub, V3.smul]; exact mul_nonneg (by linarith [hba.1.1]) hI.le
  have nay : 0 ≤ ((a.sub O).smul INV).y := by simp only [V3.sub, V3.smul]; exact mul_nonneg (by linarith [hba.2.1.1]) hI.le
  have naz : 0 ≤ ((a.sub O).smul INV).z := by simp only [V3.sub, V3.smul]; exact mul_nonneg (by linarith [hba.2.2.1]) hI.le
  have nbx : 0 ≤ ((b.sub O).smul INV).x := by simp only [V3.sub, V3.smul]; exact mul_nonneg (by linarith [hbbb.1.1]) hI.le
  have nby : 0 ≤ ((b.sub O).smul INV).y := by simp only [V3.sub, V3.smul]; exact mul_nonneg (by linarith [hbbb.2.1.1]) hI.le
  have nbz : 0 ≤ ((b.sub O).smul INV).z := by simp only [V3.sub, V3.smul]; exact mul_nonneg (by linarith [hbbb.2.2.1]) hI.le
  have ncx : 0 ≤ ((c.sub O).smul INV).x := by simp only [V3.sub, V3.smul]; exact mul_nonneg (by linarith [hbc.1.1]) hI.le
  have ncy : 0 ≤ ((c.sub O).smul INV).y := by simp only [V3.sub, V3.smul]; exact mul_nonneg (by linarith [hbc.2.1.1]) hI.le
  have ncz : 0 ≤ ((c.sub O).smul INV).z := by simp only [V3.sub, V3.smul]; exact mul_nonneg (by linarith [hbc.2.2.1]) hI.le
  apply hiff.mpr
  exact ⟨t, ht, a, b, c, ha, hb, hc,
    range3_complete sq tr htr _ _ _ _ _ _ nax nay naz nbx nby nbz ncx ncy ncz u v w hu hv hw h1 n hn hx hy hz,
    cellHit3_complete sq tr hsq _ _ _ u v w hu hv hw h1 n hx hy hz⟩

/-- **vox3_points_covered** (clause "every input point lies in a surface voxel"; `dim3`, every `FillMode`, no panic,
`resolution ≥ 2`, the points do not all coincide; lawful instance).  Every point `p` of every triangle of the index buffer
(closed triangle `a b c`, in particular its three vertices) lies in the closed world-space cube of an in-grid cell that is
`PrimitiveOnSurface` in the returned volume — namely the cell `⌊(p − origin)/scale + ½⌋` per axis, which is inside the grid
because the cells of the three vertices are (`assert_ok3_field`). -/
theorem vox3_points_covered (hsq : LawfulSqrt sq) (htr : LawfulTrunc tr) (flood dc : Bool)
    (res : Nat) (hres : 2 ≤ res) (p0 : V3 K) (ps : List (V3 K)) (tris : List (Nat × Nat × Nat)) :
    letI := fieldNum K sq; letI := fieldCast tr
    ((cloudAabb3 p0 ps).1.x < (cloudAabb3 p0 ps).2.x ∨ (cloudAabb3 p0 ps).1.y < (cloudAabb3 p0 ps).2.y ∨
      (cloudAabb3 p0 ps).1.z < (cloudAabb3 p0 ps).2.z) →
    (voxelize3 flood dc res p0 ps tris).1.panic = false →
    ∀ t ∈ tris, ∀ a b c : V3 K, (p0 :: ps)[t.1]? = some a → (p0 :: ps)[t.2.1]? = some b → (p0 :: ps)[t.2.2]? = some c →
    ∀ p, InTri3 a b c p →
    ∃ n, InB3 (voxelize3 flood dc res p0 ps tris).1.ni (voxelize3 flood dc res p0 ps tris).1.nj
        (voxelize3 flood dc res p0 ps tris).1.nk n ∧
      InCell3 (voxelize3 flood dc res p0 ps tris).1.origin (voxelize3 flood dc res p0 ps tris).1.scale n p ∧
      getC3 (voxelize3 flood dc res p0 ps tris).1.ni (voxelize3 flood dc res p0 ps tris).1.nj
        (voxelize3 flood dc res p0 ps tris).1.vals n = .surf := by
  letI := fieldNum K sq; letI := fieldCast tr
  intro hext hp t ht a b c ha hb hc p hmem
  obtain ⟨q1, q2, q3, q4, q5, _⟩ := vox3_params flood dc res p0 ps tris _ rfl hp
  have hbb := cloudAabb3_bounds sq p0 ps
  have hba := hbb a (List.mem_of_getElem? ha)
  have hbbb := hbb b (List.mem_of_getElem? hb)
  have hbc := hbb c (List.mem_of_getElem? hc)
  obtain ⟨hS, hI, hSI⟩ := gridParams3_field sq tr res hres (cloudAabb3 p0 ps).1 (cloudAabb3 p0 ps).2
    (le_trans hba.1.1 hba.1.2) (le_trans hba.2.1.1 hba.2.1.2) (le_trans hba.2.2.1 hba.2.2.2) hext
  have A := assert_ok3_field sq tr htr res hres (cloudAabb3 p0 ps).1 (cloudAabb3 p0 ps).2 a hba.1 hba.2.1 hba.2.2 hext
  have B := assert_ok3_field sq tr htr res hres (cloudAabb3 p0 ps).1 (cloudAabb3 p0 ps).2 b hbbb.1 hbbb.2.1 hbbb.2.2 hext
  have C := assert_ok3_field sq tr htr res hres (cloudAabb3 p0 ps).1 (cloudAabb3 p0 ps).2 c hbc.1 hbc.2.1 hbc.2.2 hext
  rw [cellOf3_field] at A B C
  simp only [gridPt3, V3.sub, V3.smul] at A B C
  have hmem' := hmem
  obtain ⟨u, v, w, hu, hv, hw, h1, hpx, hpy, hpz⟩ := hmem
  set O := (cloudAabb3 p0 ps).1 with hO
  set S := (gridParams3 res (cloudAabb3 p0 ps).1 (cloudAabb3 p0 ps).2).2.2.2 with hSdef
  set INV := invScale3 res (cloudAabb3 p0 ps).1 (cloudAabb3 p0 ps).2 with hIdef
  have ex : (p.x - O.x) * INV = u * ((a.x - O.x) * INV) + v * ((b.x - O.x) * INV) + w * ((c.x - O.x) * INV) := by
    rw [hpx]; linear_combination (O.x * INV) * h1
  have ey : (p.y - O.y) * INV = u * ((a.y - O.y) * INV) + v * ((b.y - O.y) * INV) + w * ((c.y - O.y) * INV) := by
    rw [hpy]; linear_combination (O.y * INV) * h1
  have ez : (p.z - O.z) * INV = u * ((a.z - O.z) * INV) + v * ((b.z - O.z) * INV) + w * ((c.z - O.z) * INV) := by
    rw [hpz]; linear_combination (O.z * INV) * h1
  have nax : 0 ≤ (a.x - O.x) * INV := mul_nonneg (by linarith [hba.1.1]) hI.le
  have nay : 0 ≤ (a.y - O.y) * INV := mul_nonneg (by linarith [hba.2.1.1]) hI.le
  have naz : 0 ≤ (a.z - O.z) * INV := mul_nonneg (by linarith [hba.2.2.1]) hI.le
  have nbx : 0 ≤ (b.x - O.x) * INV := mul_nonneg (by linarith [hbbb.1.1]) hI.le
  have nby : 0 ≤ (b.y - O.y) * INV := mul_nonneg (by linarith [hbbb.2.1.1]) hI.le
  have nbz : 0 ≤ (b.z - O.z) * INV := mul_nonneg (by linarith [hbbb.2.2.1]) hI.le
  have ncx : 0 ≤ (c.x - O.x) * INV := mul_nonneg (by linarith [hbc.1.1]) hI.le
  have ncy : 0 ≤ (c.y - O.y) * INV := mul_nonneg (by linarith [hbc.2.1.1]) hI.le
  have ncz : 0 ≤ (c.z - O.z) * INV := mul_nonneg (by linarith [hbc.2.2.1]) hI.le
  obtain ⟨gx0, gxl⟩ := cell3_axis_lt tr htr _ _ _ u v w _ nax nbx ncx hu hv hw h1 A.1 B.1 C.1
  obtain ⟨gy0, gyl⟩ := cell3_axis_lt tr htr _ _ _ u v w _ nay nby ncy hu hv hw h1 A.2.1 B.2.1 C.2.1
  obtain ⟨gz0, gzl⟩ := cell3_axis_lt tr htr _ _ _ u v w _ naz nbz ncz hu hv hw h1 A.2.2 B.2.2 C.2.2
  rw [← ex] at gx0 gxl; rw [← ey] at gy0 gyl; rw [← ez] at gz0 gzl
  have hin : InB3 (voxelize3 flood dc res p0 ps tris).1.ni (voxelize3 flood dc res p0 ps tris).1.nj
      (voxelize3 flood dc res p0 ps tris).1.nk
      (tr ((p.x - O.x) * INV + 1 / 2), tr ((p.y - O.y) * INV + 1 / 2), tr ((p.z - O.z) * INV + 1 / 2)) := by
    rw [q1, q2, q3]
    exact ⟨gxl, gyl, gzl⟩
  have hcell : InCell3 (voxelize3 flood dc res p0 ps tris).1.origin (voxelize3 flood dc res p0 ps tris).1.scale
      (tr ((p.x - O.x) * INV + 1 / 2), tr ((p.y - O.y) * INV + 1 / 2), tr ((p.z - O.z) * INV + 1 / 2)) p := by
    rw [q4, q5]
    exact ⟨(grid_dist3 S INV hSI hS hI _ O.x _).mpr (cell3_axis_near tr htr _ gx0),
      (grid_dist3 S INV hSI hS hI _ O.y _).mpr (cell3_axis_near tr htr _ gy0),
      (grid_dist3 S INV hSI hS hI _ O.z _).mpr (cell3_axis_near tr htr _ gz0)⟩
  exact ⟨_, hin, hcell,
    vox3_meets_imp_surface sq tr hsq htr flood dc res hres p0 ps tris hext hp t ht a b c ha hb hc p hmem' _ hin hcell⟩

/-- **vox3_no_panic_field** (`dim3`, every `FillMode`; lawful instance): on a valid input — every triangle index in range,
`resolution ≥ 2`, the points do not all coincide — `VoxelizedVolume::voxelize` hits none of its panic sites: the index
computed for a vertex, `((p − origin)·inv_scale + ½) as u32` per axis, is always `< resolution[axis]`, so the three
`assert!`s hold, and no `points[i]` lookup is out of range.  (This discharges the hypothesis `panic = false` of the other
theorems.) -/
theorem vox3_no_panic_field (htr : LawfulTrunc tr) (flood dc : Bool)
    (res : Nat) (hres : 2 ≤ res) (p0 : V3 K) (ps : List (V3 K)) (tris : List (Nat × Nat × Nat)) :
    letI := fieldNum K sq; letI := fieldCast tr
    ((cloudAabb3 p0 ps).1.x < (cloudAabb3 p0 ps).2.x ∨ (cloudAabb3 p0 ps).1.y < (cloudAabb3 p0 ps).2.y ∨
      (cloudAabb3 p0 ps).1.z < (cloudAabb3 p0 ps).2.z) →
    (∀ t ∈ tris, t.1 < (p0 :: ps).length ∧ t.2.1 < (p0 :: ps).length ∧ t.2.2 < (p0 :: ps).length) →
    (voxelize3 flood dc res p0 ps tris).1.panic = false := by
  letI := fieldNum K sq; letI := fieldCast tr
  intro hext hidx
  apply vox3_no_panic
  intro t ht
  obtain ⟨h1, h2, h3⟩ := hidx t ht
  have hbb := cloudAabb3_bounds sq p0 ps
  have ha : (p0 :: ps)[t.1]? = some ((p0 :: ps)[t.1]'h1) := List.getElem?_eq_getElem h1
  have hb : (p0 :: ps)[t.2.1]? = some ((p0 :: ps)[t.2.1]'h2) := List.getElem?_eq_getElem h2
  have hc : (p0 :: ps)[t.2.2]? = some ((p0 :: ps)[t.2.2]'h3) := List.getElem?_eq_getElem h3
  have hba := hbb _ (List.getElem_mem h1)
  have hbbb := hbb _ (List.getElem_mem h2)
  have hbc := hbb _ (List.getElem_mem h3)
  exact ⟨(p0 :: ps)[t.1]'h1, (p0 :: ps)[t.2.1]'h2, (p0 :: ps)[t.2.2]'h3, by simp, by simp, by simp,
    assert_ok3_field sq tr htr res hres _ _ _ hba.1 hba.2.1 hba.2.2 hext,
    assert_ok3_field sq tr htr res hres _ _ _ hbbb.1 hbbb.2.1 hbbb.2.2 hext,
    assert_ok3_field sq tr htr res hres _ _ _ hbc.1 hbc.2.1 hbc.2.2 hext⟩

/-- **vox3_valid_points_covered** (`vox3_no_panic_field` + `vox3_points_covered`; lawful instance): on a valid input —
every triangle index in range, `resolution ≥ 2`, the points do not all coincide — in every `FillMode` every point of every
triangle of the mesh lies in the closed cube of an in-grid voxel that is `PrimitiveOnSurface` in the returned volume; no
`panic = false` hypothesis is needed. -/
theorem vox3_valid_points_covered (hsq : LawfulSqrt sq) (htr : LawfulTrunc tr) (flood dc : Bool)
    (res : Nat) (hres : 2 ≤ res) (p0 : V3 K) (ps : List (V3 K)) (tris : List (Nat × Nat × Nat)) :
    letI := fieldNum K sq; letI := fieldCast tr
    ((cloudAabb3 p0 ps).1.x < (cloudAabb3 p0 ps).2.x ∨ (cloudAabb3 p0 ps).1.y < (cloudAabb3 p0 ps).2.y ∨
      (cloudAabb3 p0 ps).1.z < (cloudAabb3 p0 ps).2.z) →
    (∀ t ∈ tris, t.1 < (p0 :: ps).length ∧ t.2.1 < (p0 :: ps).length ∧ t.2.2 < (p0 :: ps).length) →
    ∀ t ∈ tris, ∀ a b c : V3 K, (p0 :: ps)[t.1]? = some a → (p0 :: ps)[t.2.1]? = some b → (p0 :: ps)[t.2.2]? = some c →
    ∀ p, InTri3 a b c p →
    ∃ n, InB3 (voxelize3 flood dc res p0 ps tris).1.ni (voxelize3 flood dc res p0 ps tris).1.nj
        (voxelize3 flood dc res p0 ps tris).1.nk n ∧
      InCell3 (voxelize3 flood dc res p0 ps tris).1.origin (voxelize3 flood dc res p0 ps tris).1.scale n p ∧
      getC3 (voxelize3 flood dc res p0 ps tris).1.ni (voxelize3 flood dc res p0 ps tris).1.nj
        (voxelize3 flood dc res p0 ps tris).1.vals n = .surf := by
  letI := fieldNum K sq; letI := fieldCast tr
  intro hext hidx
  exact vox3_points_covered sq tr hsq htr flood dc res hres p0 ps tris hext
    (vox3_no_panic_field sq tr htr flood dc res hres p0 ps tris hext hidx)

/- (non-vacuity of `LawfulSqrt`/`LawfulTrunc`: over `ℝ` with `Real.sqrt` and `⌊x⌋.toNat`, see the `example`s at the end of
`Theorems4.lean`) -/

/-- the geometric hypotheses of `vox3_meets_imp_surface` are jointly satisfiable: the point `(1/2, 1/2, 1/2)` of a triangle
lies in the cube of cell `(1, 0, 1)` of a grid with origin `0` and scale `1/2` (on the boundary between cells, so in several
cubes — all of them are marked) -/
example : InTri3 (K := ℚ) ⟨-1, 0, 1/2⟩ ⟨2, 0, 1/2⟩ ⟨1/2, 3, 1/2⟩ ⟨1/2, 1/2, 1/2⟩ ∧
    InCell3 (K := ℚ) ⟨0, 0, 0⟩ (1/2) (1, 1, 1) ⟨1/2, 1/2, 1/2⟩ ∧
    InCell3 (K := ℚ) ⟨0, 0, 0⟩ (1/2) (1, 0, 1) ⟨1/2, 1/4, 1/2⟩ := by
  refine ⟨⟨5/12, 5/12, 1/6, ?_⟩, ?_, ?_⟩
  · norm_num
  · unfold InCell3; norm_num
  · unfold InCell3; norm_num [abs_le]

end field
end C18
